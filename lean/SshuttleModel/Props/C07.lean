/-
C07 — Tunnel messages and the start-up handshake survive any segmentation.

Property theorems only; helper lemmas are in `Lemmas/Frames.lean`, `Lemmas/MuxRx.lean`,
`Lemmas/Handshake.lean`.
-/
import SshuttleModel.Lemmas.MuxRx
import SshuttleModel.Lemmas.Handshake

namespace Sshuttle.Mux

/-! ## 1. Encoding followed by decoding is the identity -/

/-- `send` accepts exactly the well-formed frames (channel and command fit 16 bits,
payload length 0..65535) and queues their encoding. -/
theorem C07_send_iff (tx : Tx) (c cmd : Nat) (data : Bytes) :
    (∃ tx', send tx (some c) cmd data = .ok tx') ↔ (Frame.Wf ⟨c, cmd, data⟩) := by
  unfold send Frame.Wf
  by_cases h1 : data.length > 65535
  · simp [h1]
  · by_cases h2 : c ≥ 65536 ∨ cmd ≥ 65536
    · simp [h1, h2]; omega
    · simp [h1, h2]; omega

theorem C07_send_ok (tx : Tx) (f : Frame) (h : f.Wf) :
    send tx (some f.chan) f.cmd f.data =
      .ok { outbuf := tx.outbuf ++ [encode f], fullness := tx.fullness + f.data.length } := by
  obtain ⟨h1, h2, h3⟩ := h
  unfold send
  have : ¬ f.data.length > 65535 := by omega
  have h' : ¬ (f.chan ≥ 65536 ∨ f.cmd ≥ 65536) := by omega
  simp [this, h']

/-- Round trip for every channel, command and payload (lengths 0..65535 included:
the statement holds for every length the encoder accepts), with arbitrary bytes following. -/
theorem C07_roundtrip (f : Frame) (rest : Bytes) :
    decode1 (encode f ++ rest) = .frame f rest := decode1_encode f rest

/-- A well-formed frame encodes to bytes (every element < 256). -/
theorem C07_encode_wf (f : Frame) (h : f.Wf) (hd : WfBytes f.data) : WfBytes (encode f) := by
  obtain ⟨h1, h2, h3⟩ := h
  intro x hx
  simp only [encode, header, be16, List.cons_append, List.nil_append, List.mem_cons,
    List.mem_append] at hx
  rcases hx with rfl | rfl | rfl | rfl | rfl | rfl | rfl | rfl | hx
  all_goals first | omega | exact hd x hx

theorem C07_roundtrip_list (fs : List Frame) :
    decodeAll (fs.map encode).flatten = ⟨fs, [], false⟩ := by
  have := decodeAll_encodes fs []
  simpa [decodeAll_nil] using this

/-! ## 2. Parsing does not depend on where the stream is cut -/

theorem C07_incremental (a b : Bytes) :
    (decodeAll (a ++ b)).frames =
      (decodeAll a).frames ++ (decodeAll ((decodeAll a).rest ++ b)).frames := by
  rw [decodeAll_append]

/-- One `Mux.handle` call on a canonical receiver state with an arbitrary chunk delivers
exactly the frames the specification parser finds in `inbuf ++ chunk`, and leaves exactly
its residue — whether the chunk ends at a frame boundary, inside a header, or inside a
payload.  `structError` (unpack of a short header) is unreachable. -/
theorem C07_handle_refines (rx : Rx) (chunk : Bytes) (hc : Canon rx) :
    handle rx (.data chunk) =
      if (decodeAll (rx.inbuf ++ chunk)).bad then
        .badMagic (decodeAll (rx.inbuf ++ chunk)).frames ⟨0, (decodeAll (rx.inbuf ++ chunk)).rest⟩
      else
        .ok (decodeAll (rx.inbuf ++ chunk)).frames
          ⟨wantOf (decodeAll (rx.inbuf ++ chunk)).rest, (decodeAll (rx.inbuf ++ chunk)).rest⟩ true := by
  unfold handle
  have hc' : Canon { rx with inbuf := rx.inbuf ++ chunk } := by
    rcases hc with h | ⟨h1, h2, h3⟩
    · left; exact h
    · right
      obtain ⟨s1, s2, c1, c0, m1, m0, l1, l0, body, hb⟩ := exists_eight h2
      refine ⟨?_, ?_, ?_⟩
      · simp only [h1, hb, wantOf, List.cons_append]
      · simp only [List.length_append]; omega
      · simp only [hb, magicOk, List.cons_append] at h3 ⊢; exact h3
  simp only
  rw [handleLoop_spec _ _ _ (by simp) hc']
  simp only [specRes, List.reverse_nil, List.nil_append]
  cases (decodeAll (rx.inbuf ++ chunk)).bad <;> simp

/-- Receiver fed a whole list of chunks (the segmentation of the incoming stream). -/
def feedChunks : Rx → List Bytes → List Frame → (List Frame × Rx × Bool)
  | rx, [], acc => (acc, rx, false)
  | rx, c :: cs, acc =>
    match handle rx (.data c) with
    | .ok fs rx' _ => feedChunks rx' cs (acc ++ fs)
    | .badMagic fs rx' => (acc ++ fs, rx', true)
    | .structError fs rx' => (acc ++ fs, rx', true)
    | .typeError => (acc, rx, true)

/-- **Segmentation independence (receiver).** For every list of chunks, the frames
delivered and the residue kept depend only on the concatenation of the chunks. -/
theorem C07_segmentation (rx : Rx) (chunks : List Bytes) (acc : List Frame) (hc : Canon rx)
    (hgood : (decodeAll (rx.inbuf ++ chunks.flatten)).bad = false) :
    feedChunks rx chunks acc =
      (acc ++ (decodeAll (rx.inbuf ++ chunks.flatten)).frames,
       ⟨wantOf (decodeAll (rx.inbuf ++ chunks.flatten)).rest,
        (decodeAll (rx.inbuf ++ chunks.flatten)).rest⟩, false) ∨
    (chunks = [] ∧ feedChunks rx chunks acc = (acc, rx, false)) := by
  induction chunks generalizing rx acc with
  | nil => right; exact ⟨rfl, rfl⟩
  | cons c cs ih =>
    left
    simp only [List.flatten_cons] at hgood ⊢
    rw [← List.append_assoc] at hgood ⊢
    have happ := decodeAll_append (rx.inbuf ++ c) cs.flatten
    have hgood1 : (decodeAll (rx.inbuf ++ c)).bad = false := by
      cases hb : (decodeAll (rx.inbuf ++ c)).bad with
      | false => rfl
      | true => rw [decodeAll_append_bad _ _ hb] at hgood; cases hgood
    unfold feedChunks
    rw [C07_handle_refines rx c hc, hgood1]
    simp only [Bool.false_eq_true, ↓reduceIte]
    have hc2 := canon_after (rx.inbuf ++ c) hgood1
    have hgood2 : (decodeAll ((decodeAll (rx.inbuf ++ c)).rest ++ cs.flatten)).bad = false := by
      rw [happ] at hgood; exact hgood
    rcases ih _ (acc ++ (decodeAll (rx.inbuf ++ c)).frames) hc2 hgood2 with h | ⟨h1, h2⟩
    · rw [h, happ]; simp
    · subst h1
      rw [h2]
      simp only [List.flatten_nil, List.append_nil] at happ ⊢

/-- Corollary in the form the property is worded: two ways of cutting the same bytes
into reads deliver the same messages and leave the same state. -/
theorem C07_cut_independent (cs₁ cs₂ : List Bytes) (h : cs₁.flatten = cs₂.flatten)
    (h1 : cs₁ ≠ []) (h2 : cs₂ ≠ [])
    (hgood : (decodeAll cs₁.flatten).bad = false) :
    feedChunks {} cs₁ [] = feedChunks {} cs₂ [] := by
  have hc : Canon ({} : Rx) := Or.inl rfl
  have e1 := C07_segmentation {} cs₁ [] hc (by simpa using hgood)
  have e2 := C07_segmentation {} cs₂ [] hc (by simpa [← h] using hgood)
  rcases e1 with e1 | ⟨e, _⟩
  · rcases e2 with e2 | ⟨e, _⟩
    · rw [e1, e2, h]
    · exact absurd e h2
  · exact absurd e h1

/-- For a stream that is the encoding of `fs`, any segmentation delivers exactly `fs`
and leaves an empty buffer with `want = 0`. -/
theorem C07_any_segmentation_delivers (fs : List Frame) (chunks : List Bytes)
    (h : chunks.flatten = (fs.map encode).flatten) (hne : chunks ≠ []) :
    feedChunks {} chunks [] = (fs, ⟨0, []⟩, false) := by
  have hc : Canon ({} : Rx) := Or.inl rfl
  have hd := C07_roundtrip_list fs
  rcases C07_segmentation {} chunks [] hc (by simp [h, hd]) with e | ⟨e, _⟩
  · rw [e]; simp [h, hd, wantOf]
  · exact absurd e hne

/-! ## 3. Sender: partial writes -/

/-- One `flush` with an arbitrary write result moves a prefix of the queued bytes to the
wire and keeps the rest, in order: nothing is lost, duplicated or reordered. -/
theorem C07_flush_refines (tx : Tx) (wrote : Option Nat) :
    (flush tx wrote).2 ++ (flush tx wrote).1.outbuf.flatten = tx.outbuf.flatten := by
  have hde : ∀ l : List Bytes, (dropEmpty l).flatten = l.flatten := by
    intro l; induction l with
    | nil => rfl
    | cons b r ih =>
      unfold dropEmpty; split
      next h => simp [ih, List.isEmpty_iff.mp h]
      · rfl
  unfold flush
  cases ho : tx.outbuf with
  | nil => simp [ho]
  | cons b rest =>
    simp only
    by_cases hb : b.isEmpty
    · simp [hb, hde]
    · simp only [hb, Bool.false_eq_true, ↓reduceIte]
      cases wrote with
      | none => simp [hde]
      | some n =>
        cases n with
        | zero => simp [hde]
        | succ n => simp [hde, ← List.append_assoc]

/-! ## 4. Sender and receiver joined by a pipe, every interleaving -/

structure Sys where
  tx : Tx := {}
  wire : Bytes := []
  rx : Rx := {}
  sent : List Frame := []         -- ghost: frames accepted by `send`
  delivered : List Frame := []    -- ghost: frames handed to `got_packet`
  failed : Bool := false          -- receiver raised (bad magic / struct error)

inductive Op
  | send (f : Frame)
  | flush (wrote : Option Nat)    -- would-block or n bytes accepted by the pipe
  | recv (k : Nat)                -- the read returns k bytes of what is in flight

def Sys.step (s : Sys) : Op → Sys
  | .send f =>
    match send s.tx (some f.chan) f.cmd f.data with
    | .ok tx' => { s with tx := tx', sent := s.sent ++ [f] }
    | _ => s
  | .flush w =>
    let w' := match w, s.tx.outbuf with
      | some n, b :: _ => some (min n b.length)
      | w, _ => w
    let r := flush s.tx w'
    { s with tx := r.1, wire := s.wire ++ r.2 }
  | .recv k =>
    if s.failed ∨ k = 0 ∨ s.wire = [] then s else
    match handle s.rx (.data (s.wire.take k)) with
    | .ok fs rx' _ => { s with rx := rx', wire := s.wire.drop k, delivered := s.delivered ++ fs }
    | .badMagic fs rx' => { s with rx := rx', wire := s.wire.drop k,
                                   delivered := s.delivered ++ fs, failed := true }
    | .structError fs rx' => { s with rx := rx', wire := s.wire.drop k,
                                      delivered := s.delivered ++ fs, failed := true }
    | .typeError => { s with failed := true }

def Sys.run (s : Sys) (ops : List Op) : Sys := ops.foldl Sys.step s

/-- Invariant: what is still in transit (receiver buffer, then the wire, then the sender's
queue) parses, without residue, to exactly the frames sent and not yet delivered. -/
def Sys.Inv (s : Sys) : Prop :=
  (∃ rem, decodeAll (s.rx.inbuf ++ s.wire ++ s.tx.outbuf.flatten) = ⟨rem, [], false⟩ ∧
          s.sent = s.delivered ++ rem) ∧
  Canon s.rx ∧ s.failed = false ∧ decode1 s.rx.inbuf = .need

theorem Sys.inv_init : Sys.Inv {} := by
  refine ⟨⟨[], by simp [decodeAll_nil], by simp⟩, Or.inl rfl, rfl, by simp [decode1]⟩

theorem Sys.inv_step (s : Sys) (op : Op) (h : s.Inv) : (s.step op).Inv := by
  obtain ⟨⟨rem, hd, hs⟩, hc, hf, hn⟩ := h
  cases op with
  | send f =>
    simp only [Sys.step]
    by_cases hw : f.Wf
    · rw [C07_send_ok _ _ hw]
      refine ⟨⟨rem ++ [f], ?_, by simp [hs]⟩, hc, hf, hn⟩
      simp only [List.flatten_append, List.flatten_cons, List.flatten_nil, List.append_nil]
      rw [← List.append_assoc, decodeAll_append, hd]
      simp only [List.nil_append]
      have := decodeAll_encode f []
      simp only [List.append_nil] at this
      rw [this, decodeAll_nil]
    · have : ¬ ∃ tx', send s.tx (some f.chan) f.cmd f.data = .ok tx' := by
        rw [C07_send_iff]; exact hw
      split
      next tx' heq => exact absurd ⟨tx', heq⟩ this
      · exact ⟨⟨rem, hd, hs⟩, hc, hf, hn⟩
  | flush w =>
    simp only [Sys.step]
    refine ⟨⟨rem, ?_, hs⟩, hc, hf, hn⟩
    simp only
    have := C07_flush_refines s.tx (match w, s.tx.outbuf with
      | some n, b :: _ => some (min n b.length)
      | w, _ => w)
    rw [← hd]
    congr 1
    simp only [List.append_assoc]
    rw [this]
  | recv k =>
    simp only [Sys.step]
    split
    · exact ⟨⟨rem, hd, hs⟩, hc, hf, hn⟩
    next hcond =>
      have hsplit : s.rx.inbuf ++ s.wire ++ s.tx.outbuf.flatten =
          (s.rx.inbuf ++ s.wire.take k) ++ (s.wire.drop k ++ s.tx.outbuf.flatten) := by
        simp only [List.append_assoc, List.append_cancel_left_eq]
        rw [← List.append_assoc, List.take_append_drop]
      rw [hsplit] at hd
      have hpre : (decodeAll (s.rx.inbuf ++ s.wire.take k)).bad = false := by
        cases hbad : (decodeAll (s.rx.inbuf ++ s.wire.take k)).bad with
        | false => rfl
        | true =>
          have := decodeAll_append_bad _ (s.wire.drop k ++ s.tx.outbuf.flatten) hbad
          rw [hd] at this; cases this
      rw [C07_handle_refines s.rx _ hc, hpre]
      simp only [Bool.false_eq_true, ↓reduceIte]
      rw [decodeAll_append] at hd
      injection hd with hd1 hd2 hd3
      refine ⟨⟨(decodeAll ((decodeAll (s.rx.inbuf ++ s.wire.take k)).rest ++
          (s.wire.drop k ++ s.tx.outbuf.flatten))).frames, ?_, ?_⟩,
        canon_after _ hpre, hf, decodeAll_rest_idem _ hpre⟩
      · simp only [List.append_assoc]
        rw [← hd2, ← hd3]
      · rw [hs, ← hd1]; simp

theorem Sys.inv_run (s : Sys) (ops : List Op) (h : s.Inv) : (s.run ops).Inv := by
  induction ops generalizing s with
  | nil => exact h
  | cons op ops ih => exact ih _ (Sys.inv_step s op h)

/-- **C07 main theorem.** For every sequence of messages, every pattern of partial
writes/would-blocks on the sending side and every way the pipe's bytes are cut into reads,
in every interleaving: the receiver never fails, the messages delivered are a prefix of the
messages sent (same flow, command, payload, same order), and they are *all* delivered once
the pipe and the sender's queue are drained. -/
theorem C07_pipe (ops : List Op) :
    let s := (Sys.run {} ops)
    s.failed = false ∧ s.delivered <+: s.sent ∧
    (s.wire = [] → s.tx.outbuf.flatten = [] → s.delivered = s.sent) := by
  intro s
  obtain ⟨⟨rem, hd, hs⟩, _, hf, hn⟩ := Sys.inv_run {} ops Sys.inv_init
  refine ⟨hf, ⟨rem, hs.symm⟩, ?_⟩
  intro hw ho
  rw [hw, ho] at hd
  simp only [List.append_nil] at hd
  rw [decodeAll_need hn] at hd
  injection hd with h1 _ _
  show (Sys.run {} ops).delivered = (Sys.run {} ops).sent
  rw [hs, ← h1]; simp

/-- Non-vacuity: a concrete run with a frame crossing three reads, a would-block and a
short write reaches the drained state with both messages delivered. -/
example :
    let ops := [Op.send ⟨1, 0x4206, [1,2,3]⟩, .flush (some 5), .recv 3, .flush none,
                .send ⟨65535, 0x4205, []⟩, .flush (some 100), .recv 4, .flush (some 100),
                .recv 100]
    (Sys.run {} ops).delivered = [⟨1, 0x4206, [1,2,3]⟩, ⟨65535, 0x4205, []⟩] ∧
    (Sys.run {} ops).wire = [] := by decide

end Sshuttle.Mux

/-! ## 5. Recognition of the server's synchronisation string -/

namespace Sshuttle.Handshake

/-- The property, on the byte stream alone: skip through the first NUL, skip through the
second NUL, the next 12 bytes must be the init string. -/
def spec (s : Bytes) : Bool × Bytes :=
  match afterNul s with
  | none => (false, [])
  | some s1 =>
    match afterNul s1 with
    | none => (false, [])
    | some s2 =>
      if s2.take expected.length = expected then (true, s2.drop expected.length)
      else (false, s2.take expected.length)

def Outcome.flat : Outcome → Bool × Bytes
  | .ok rest => (true, rest.flatten)
  | .fatal got => (false, got)

theorem expected_len : expected.length = 12 := by decide

theorem afterNul_length (s t : Bytes) (h : afterNul s = some t) : t.length < s.length := by
  induction s with
  | nil => simp [afterNul] at h
  | cons b r ih =>
    unfold afterNul at h; split at h
    · injection h with h; subst h; simp
    · have := ih h; simp; omega

/-- **Handshake segmentation independence.** Whatever the segmentation `r` of the incoming
bytes (arbitrary leading noise, NULs and sync string split anywhere across reads), the
client's verdict, the bytes it reports on failure and the bytes it leaves unread are a
function of the concatenated stream only. -/
theorem C07_handshake (r : Reader) : (handshake r).flat = spec r.flatten := by
  unfold handshake spec
  have htot : total r = r.flatten.length := by
    unfold total; rw [List.length_flatten]
  simp only [htot]
  have hnil : skipToNul (r.flatten.length + 1) [] = none := by
    unfold skipToNul read norm; rfl
  have hexp : ([] : Bytes) ≠ expected := by decide
  have hre : ∀ r2 : Reader,
      (match readExactly (expected.length + 1) r2 expected.length [] with
        | (got, r3) => if got = expected then Outcome.ok r3 else Outcome.fatal got).flat =
      if r2.flatten.take expected.length = expected then (true, r2.flatten.drop expected.length)
      else (false, r2.flatten.take expected.length) := by
    intro r2
    obtain ⟨g1, g2⟩ := readExactly_spec (expected.length + 1) r2 expected.length []
      (by simp) (by simp)
    simp only [List.nil_append] at g1 g2
    generalize readExactly (expected.length + 1) r2 expected.length [] = res at g1 g2
    obtain ⟨got, r3⟩ := res
    simp only at g1 g2 ⊢
    subst g2
    split
    next h =>
      simp only [Outcome.flat]
      have : r3.flatten = r2.flatten.drop expected.length := by
        have e := List.take_append_drop expected.length r2.flatten
        exact List.append_cancel_left (g1.trans e.symm)
      rw [this]
    · simp [Outcome.flat]
  have h1 := skipToNul_spec (r.flatten.length + 1) r (by omega)
  cases hs1 : skipToNul (r.flatten.length + 1) r with
  | none =>
    rw [hs1] at h1; simp only [Option.map_none] at h1
    rw [← h1]
    simp only [Option.getD_none, hnil]
    have := hre []
    simp only [List.flatten_nil, List.take_nil, List.drop_nil] at this
    rw [this]; simp [hexp]
  | some r1 =>
    rw [hs1] at h1; simp only [Option.map_some] at h1
    rw [← h1]
    simp only [Option.getD_some]
    have hlt := afterNul_length _ _ h1.symm
    have h2 := skipToNul_spec (r.flatten.length + 1) r1 (by omega)
    cases hs2 : skipToNul (r.flatten.length + 1) r1 with
    | none =>
      rw [hs2] at h2; simp only [Option.map_none] at h2
      rw [← h2]
      simp only [Option.getD_none]
      have := hre []
      simp only [List.flatten_nil, List.take_nil, List.drop_nil] at this
      rw [this]; simp [hexp]
    | some r2 =>
      rw [hs2] at h2; simp only [Option.map_some] at h2
      rw [← h2]
      simp only [Option.getD_some]
      exact hre r2

/-- In the wording of the property: two segmentations of the same bytes are recognised
identically. -/
theorem C07_handshake_cut_independent (r₁ r₂ : Reader) (h : r₁.flatten = r₂.flatten) :
    (handshake r₁).flat = (handshake r₂).flat := by
  rw [C07_handshake, C07_handshake, h]

/-- The server's 14 bytes are accepted under the segmentation that the pre-repair code
rejected (6 + 8), and under every other one. -/
example : (handshake [[0, 0, 83, 83, 72, 85], [84, 84, 76, 69, 48, 48, 48, 49]]).flat = (true, []) := by
  decide

theorem C07_handshake_accepts_sync (noise1 noise2 tail : Bytes) (r : Reader)
    (hn1 : afterNul (noise1 ++ [0]) = some []) (hn2 : afterNul (noise2 ++ [0]) = some [])
    (h : r.flatten = noise1 ++ [0] ++ noise2 ++ [0] ++ expected ++ tail) :
    (handshake r).flat = (true, tail) := by
  have hap : ∀ (a b : Bytes), afterNul a = some [] → afterNul (a ++ b) = some b := by
    intro a b
    induction a with
    | nil => simp [afterNul]
    | cons x xs ih =>
      intro hx
      simp only [List.cons_append, afterNul] at hx ⊢
      split
      next h0 => simp [h0] at hx; simp [hx]
      next h0 => simp [h0] at hx; exact ih hx
  rw [C07_handshake, h]
  unfold spec
  have e1 : noise1 ++ [0] ++ noise2 ++ [0] ++ expected ++ tail =
      (noise1 ++ [0]) ++ ((noise2 ++ [0]) ++ (expected ++ tail)) := by simp
  rw [e1, hap _ _ hn1]
  simp only
  rw [hap _ _ hn2]
  simp

end Sshuttle.Handshake
