/-
C13 — The helper receives exactly the plan and host updates the client sent.

Property theorems only; helper lemmas are in `Lemmas/FwDialogueText.lean` (splitting, decimal
numerals and `int()`, `strip`, the line reader), `Lemmas/FwDialogueRoundtrip.lean` (one line of
each kind), `Lemmas/FwDialoguePlan.lean` (the whole dialogue), `Lemmas/FwDialogueTrunc.lean`.
-/
import SshuttleModel.Lemmas.FwDialogueWhole

namespace Sshuttle.FwDialogue

/-! ## 0. The regenerated constants the model was written for

A changed format string, split bound or read size breaks one of these instead of going unnoticed. -/

theorem C13_pin_readline : 0 < Gen.C13.READLINE_MAX ∧ Gen.C13.HELPER_JOINS_PIECES = true ∧
    Gen.C13.READ_ERROR_DROPS_LINE = true := by decide
theorem C13_pin_splits :
    Gen.C13.COMMA_MAXSPLITS = [5, 1, 1] ∧ Gen.C13.HOST_MAXSPLIT = 1 ∧ Gen.C13.GO_MAXSPLIT = 4 := by decide
theorem C13_pin_formats :
    Gen.C13.START_BYTES = ["ROUTES\n", "NSLIST\n", "-", "-", "STARTED\n", "PORTS %d,%d,%d,%d\n",
      "GO %d %s %s %s %d\n", "%d,%d,0,%s,%d,%d\n", "%d,%d,1,%s,%d,%d\n", "%d,%s\n", "%d", "%d"] ∧
    Gen.C13.SETHOSTIP_BYTES = ["[^-\\w\\.]", "[^0-9.]", "HOST %s,%s\n"] ∧
    Gen.C13.PORT_ASSERT_BOUNDS = [0, 65535] := by decide

/-! ## 1. Plans survive the dialogue -/

/-- For every plan in the writer's domain `FirewallClient.start` raises nothing and writes the
lines `planLines p`. -/
theorem C13_render_domain (p : Plan) (hw : PlanWf p) : render p = some (planLines p) :=
  render_ok p hw

/-- **Round trip.** For every plan in the writer's domain (any number of subnets of either
kind and of name servers, every family/width/port value, numeric or absent user and group, any
mark word, any pid) followed by any number of host updates over the allowed alphabet: the helper,
fed the bytes the client wrote, reaches set-up holding exactly the plan (`planSetup p`: the same
subnets in the same order with family, network text, width, port range and include/exclude flag,
the same name servers, ports, UDP flag, user, group, mark and pid), then receives exactly the
host updates, in order, and leaves through end of input. -/
theorem C13_plan_roundtrip (p : Plan) (hw : PlanWf p) (hosts : List (Bytes × Bytes))
    (hh : ∀ h ∈ hosts, HostOk h) :
    ∃ ls hl, render p = some ls ∧ hosts.mapM (fun h => renderHost h.1 h.2) = some hl ∧
      helper (ls.flatten ++ hl.flatten) = .ran (planSetup p) hosts .eof := by
  refine ⟨planLines p, hostLines hosts, render_ok p hw, ?_, ?_⟩
  · clear hw
    induction hosts with
    | nil => rfl
    | cons h hs ih =>
      have := ih (fun x hx => hh x (by simp [hx]))
      simp only [List.mapM_cons, renderHost_ok h (hh h (by simp)), this, hostLines, List.map_cons]
      rfl
  · unfold helper
    have hlines : ∀ l ∈ planLines p ++ hostLines hosts, IsLine l := by
      intro l hl
      rcases List.mem_append.mp hl with h | h
      · exact planLines_isLine p hw l h
      · exact hostLines_isLine hosts hh l h
    have := helperLines_lines (planLines p ++ hostLines hosts) hlines
    simp only [List.flatten_append] at this
    rw [this, parse_planLines p hw, hostLines, hostLoop_hosts hosts hh]

/-- The recorded `setup_firewall` calls are therefore those of the plan itself. -/
theorem C13_calls (p : Plan) (hw : PlanWf p) :
    ∃ ls, render p = some ls ∧
      ∃ s, helper ls.flatten = .ran s [] .eof ∧ calls s = calls (planSetup p) := by
  obtain ⟨ls, hl, h1, h2, h3⟩ := C13_plan_roundtrip p hw [] (by simp)
  have : hl = [] := by simpa using h2.symm
  subst this
  exact ⟨ls, h1, planSetup p, by simpa using h3, rfl⟩

/-- A plan with subnets of both families, an exclusion, name servers, a numeric group: the
hypotheses of the round trip are satisfiable by a non-trivial plan. -/
example : PlanWf
    { includes := [⟨2, [49, 46, 50, 46, 51, 46, 48], 24, 8000, 9000⟩, ⟨10, [50, 52, 48, 52, 58, 54, 56, 48, 48, 58, 52, 48, 48, 52, 58, 56, 48, 99, 58, 58], 64, 0, 0⟩]   -- 1.2.3.0/24:8000-9000, 2404:6800:4004:80c::/64
      excludes := [⟨2, [49, 46, 50, 46, 51, 46, 54, 54], 32, 8080, 8080⟩]                       -- 1.2.3.66/32:8080
      nslist := [(2, [49, 46, 50, 46, 51, 46, 51, 51])]                                          -- 1.2.3.33
      port_v6 := 1024, port_v4 := 1025, dnsport_v6 := 1026, dnsport_v4 := 65535
      udp := true, user := .none, group := .num 4294967294, tmark := [48, 120, 102, 102, 102, 102, 102, 102, 102, 102], pid := 12345 } := by
  constructor <;> decide

/-! ## 2. Host updates -/

/-- **Host round trip, every length.** For every name over `[-A-Za-z0-9_.]` and every address
over `[0-9.]` — of any length, so in particular up to the DNS limit of 253 characters —
`sethostip` writes one line and the helper reads back exactly that pair. -/
theorem C13_host_roundtrip (name ip : Bytes) (hn : name.all isNameByte = true) (hi : ip.all isIpByte = true) :
    ∃ l, renderHost name ip = some l ∧
      hostLoop (helperLines l) = ([(name, ip)], .eof) := by
  have hok : HostOk (name, ip) := ⟨hn, hi⟩
  refine ⟨hostBody (name, ip) ++ [10], renderHost_ok (name, ip) hok, ?_⟩
  have := helperLines_lines [hostBody (name, ip) ++ [10]]
    (by intro l hl; simp at hl; subst hl; exact ⟨_, rfl, hostBody_nl _ hok⟩)
  simp only [List.flatten_cons, List.flatten_nil, List.append_nil] at this
  rw [this]
  exact hostLoop_hosts [(name, ip)] (by intro h hh; simp at hh; subst hh; exact hok)

example : ([119, 101, 98, 45, 49, 46, 101, 120, 97, 109, 112, 108, 101, 95, 120] : Bytes).all isNameByte = true ∧ ([49, 48, 46, 48, 46, 48, 46, 49] : Bytes).all isIpByte = true := by
  decide   -- web-1.example_x , 10.0.0.1

/-- `sethostip` refuses (failed `assert`) exactly the names with a byte outside the alphabet
and the addresses with a byte outside `[0-9.]`; nothing is written for them. -/
theorem C13_sethostip_domain (name ip : Bytes) :
    (∃ l, renderHost name ip = some l) ↔ (name.all isNameByte = true ∧ ip.all isIpByte = true) := by
  unfold renderHost
  by_cases h1 : name.all isNameByte = true <;> by_cases h2 : ip.all isIpByte = true <;> simp [h1, h2]

/-- **Histories of updates: the last writer wins.** For every history of host updates over the
allowed alphabet — any length, names repeated in any pattern (A,B,A; A,A; interleaved names) —
written by `sethostip` one after the other, the host map the helper holds at the end gives, for
every name, exactly the last address announced for it (and nothing for a name never announced). -/
theorem C13_hostmap_last_writer (hosts : List (Bytes × Bytes)) (hh : ∀ h ∈ hosts, HostOk h) (n : Str) :
    ∃ hl, hosts.mapM (fun h => renderHost h.1 h.2) = some hl ∧
      mapLookup (hostmapOf (hostLoop (helperLines hl.flatten)).1) n = lastFor hosts n := by
  refine ⟨hostLines hosts, ?_, ?_⟩
  · induction hosts with
    | nil => rfl
    | cons h hs ih =>
      have := ih (fun x hx => hh x (by simp [hx]))
      simp only [List.mapM_cons, renderHost_ok h (hh h (by simp)), this, hostLines, List.map_cons]
      rfl
  · have := helperLines_lines (hostLines hosts) (hostLines_isLine hosts hh)
    rw [this, hostLines, hostLoop_hosts hosts hh]
    unfold hostmapOf
    rw [mapLookup_fold]
    simp [mapLookup_nil]

example : lastFor [([104], [49]), ([104], [50]), ([104], [49])] [104] = some [49] ∧
    mapLookup (hostmapOf [([104], [49]), ([104], [50]), ([104], [49])]) [104] = some [49] := by
  decide   -- h: 1, 2, 1  ->  1

/-- What the repair changed: with every `readline(128)` piece taken for a line (the helper
before `proposed_fixes/C13-helper-joins-line-pieces.diff`), a 120-character name with the address
`1.2.3.4` — a line of 134 bytes — is cut after `…,1.`: the helper records the *truncated*
address `1.` for the name (and writes it to the hosts file), then takes the rest `2.3.4` for a
command and raises `Fatal`: the session ends. -/
theorem C13_host_roundtrip_legacy_false :
    ∃ name ip l, name.length = 120 ∧ name.all isNameByte = true ∧ ip.all isIpByte = true ∧
      renderHost name ip = some l ∧
      hostLoop (legacyRawLines 128 l) = ([(name, [49, 46])], .err (.fatal .expectedCommand)) :=
  ⟨List.replicate 120 97, [49, 46, 50, 46, 51, 46, 52], _, by decide +kernel, by decide +kernel,
    by decide +kernel, rfl, by decide +kernel⟩

/-- Same, with a 123-character name: the first piece has no comma, the bare unpack raises
`ValueError`, the update is lost and the helper leaves through its clean-up path. -/
theorem C13_host_roundtrip_legacy_false_valueError :
    ∃ name ip l, name.length = 123 ∧ name.all isNameByte = true ∧ ip.all isIpByte = true ∧
      renderHost name ip = some l ∧
      hostLoop (legacyRawLines 128 l) = ([], .err .valueError) :=
  ⟨List.replicate 123 97, [49, 46, 50, 46, 51, 46, 52], _, by decide +kernel, by decide +kernel,
    by decide +kernel, rfl, by decide +kernel⟩

/-! ## 3. Line lengths -/

/-- Every line of a plan with realistic field sizes (family < 100, width < 1000, address text
≤ 45 characters, ports ≤ 65535, ids < 2³², mark ≤ 10 characters, pid < 10¹⁰) is at most 67
bytes including its newline — well inside one `readline(128)`, so plan lines never depend on
the re-joining of pieces. -/
theorem C13_line_len (p : Plan) (hw : PlanWf p)
    (hs : ∀ s ∈ p.includes ++ p.excludes, s.family < 100 ∧ s.width < 1000 ∧ s.ip.length ≤ 45 ∧
      s.fport ≤ 65535 ∧ s.lport ≤ 65535)
    (hn : ∀ e ∈ p.nslist, e.1 < 100 ∧ e.2.length ≤ 45)
    (hu : ∀ n, p.user = .num n → n < 4294967296) (hg : ∀ n, p.group = .num n → n < 4294967296)
    (ht : p.tmark.length ≤ 10) (hp : p.pid < 10000000000) :
    ∀ l ∈ planLines p, l.length ≤ 67 ∧ l.length ≤ Gen.C13.READLINE_MAX := by
  have key : ∀ l ∈ planLines p, l.length ≤ 67 := by
    intro l hl
    have route : ∀ flag, flag ≤ 1 → ∀ s ∈ p.includes ++ p.excludes, (routeBody flag s ++ [10]).length ≤ 67 := by
      intro flag _ s hsm
      obtain ⟨h1, h2, h3, h4, h5⟩ := hs s hsm
      have a := dec_length s.family 1 (by omega)
      have b := dec_length s.width 2 (by omega)
      have c := dec_length s.fport 4 (by omega)
      have d := dec_length s.lport 4 (by omega)
      simp only [routeBody, List.length_append, List.length_cons, List.length_nil]
      omega
    have ident : ∀ i : Ident, NumOrNone i → (∀ n, i = .num n → n < 4294967296) → (identBytes i).length ≤ 10 := by
      intro i hi hb
      cases i with
      | none => simp [identBytes]
      | num n => exact dec_length n 9 (by have := hb n rfl; omega)
      | name s => exact absurd hi (by simp [NumOrNone])
    simp only [planLines, List.mem_cons, List.mem_append, List.mem_map, List.mem_nil_iff, or_false] at hl
    rcases hl with rfl | ⟨s, hs', rfl⟩ | ⟨s, hs', rfl⟩ | rfl | ⟨e, he, rfl⟩ | rfl | rfl
    · decide
    · exact route 0 (by omega) s (by simp [hs'])
    · exact route 1 (by omega) s (by simp [hs'])
    · decide
    · obtain ⟨h1, h2⟩ := hn e he
      have a := dec_length e.1 1 (by omega)
      simp only [nsBody, List.length_append, List.length_cons, List.length_nil]
      omega
    · have a := dec_length p.port_v6 4 (by have := hw.p6; omega)
      have b := dec_length p.port_v4 4 (by have := hw.p4; omega)
      have c := dec_length p.dnsport_v6 4 (by have := hw.d6; omega)
      have d := dec_length p.dnsport_v4 4 (by have := hw.d4; omega)
      simp only [portsBody, PORTS_, List.length_append, List.length_cons, List.length_nil]
      omega
    · have a := ident p.user hw.user hu
      have b := ident p.group hw.group hg
      have c := dec_length p.pid 9 (by omega)
      simp only [goBody, GO_, List.length_append, List.length_cons, List.length_nil]
      omega
  intro l hl
  have := key l hl
  refine ⟨this, ?_⟩
  have h128 : Gen.C13.READLINE_MAX = 128 := by decide
  omega

/-! ## 4. Truncated dialogues -/

/-- **Truncation after any line.** For every plan in the writer's domain and every cut of the
written dialogue after `j` complete lines (`j` smaller than the number of lines): the helper
never reaches `setup_firewall` — it returns before doing anything (`noInput`, when nothing
arrived) or raises before the `try:` block, so there is nothing to clean up and nothing was
done with the partial data. -/
theorem C13_truncation (p : Plan) (hw : PlanWf p) (j : Nat) (hj : j < (planLines p).length) :
    helper ((planLines p).take j).flatten = .noInput ∨
    ∃ e, helper ((planLines p).take j).flatten = .before e := by
  have htake : (planLines p).take j = (planFront p).take j := by
    rw [planLines_front] at hj ⊢
    simp only [List.length_append, List.length_cons, List.length_nil] at hj
    exact List.take_append_of_le_length (by omega)
  have hlines : ∀ l ∈ (planFront p).take j, IsLine l := by
    intro l hl
    apply planLines_isLine p hw
    rw [planLines_front]
    exact List.mem_append_left _ (List.mem_of_mem_take hl)
  have hraw := helperLines_lines ((planFront p).take j) hlines
  unfold helper
  rw [htake, hraw]
  cases hparse : parse ((planFront p).take j) with
  | noInput => exact Or.inl rfl
  | before e => exact Or.inr ⟨e, rfl⟩
  | ran s hs fin =>
    exfalso
    obtain ⟨raw, hmem, line, hd, hgo⟩ := parse_ran_has_go _ s hs fin hparse
    have := front_no_go p hw raw (List.mem_of_mem_take hmem) line hd
    rw [this] at hgo
    cases hgo

/-- **A half-received line.** Complete lines followed by an unterminated tail (the input ended,
or — the harness maps a failed read to this — the read failed inside the line): the helper reads
the complete lines as they are, and the tail is handed out as one more line exactly when the
source keeps an unfinished line at end of input (`drops = false`, the code as it is: regenerated
`HELPER_DROPS_UNFINISHED_LINE`); with `drops = true` (proposed_fixes/C13-helper-drops-unfinished-last-line.diff)
a prefix of a line is never delivered as a line. -/
theorem C13_unfinished_line (drops : Bool) (ls : List Bytes) (tail : Bytes)
    (hl : ∀ l ∈ ls, IsLine l) (ht : 10 ∉ tail) :
    rawLines Gen.C13.READLINE_MAX drops (ls.flatten ++ tail) =
      ls ++ (if tail = [] ∨ drops = true then [] else [tail]) :=
  rawLines_lines Gen.C13.READLINE_MAX drops C13_pin_readline.1 ls tail hl ht

/-- The full statement "a truncated dialogue is never acted on" is false of the code as it is for a
cut inside a `HOST` line: `HOST n,1.2` followed by end of input (the client announced `1.2.3.4`)
puts the pair (`n`, `1.2`) into the host map; with the proposed repair nothing is recorded. -/
theorem C13_truncation_midline_false :
    hostLoop (rawLines 128 false (HOST_ ++ [110, 44, 49, 46, 50])) = ([([110], [49, 46, 50])], .eof) ∧
    hostLoop (rawLines 128 true (HOST_ ++ [110, 44, 49, 46, 50])) = ([], .eof) := by
  decide

/-! ## 5. The whole dialogue -/

/-- The reader as the source has it now gives an unfinished last line up. -/
theorem C13_pin_reader_drops : Gen.C13.HELPER_DROPS_UNFINISHED_LINE = true := by decide

/-- **The whole dialogue, one round trip.** For every plan in the writer's domain (any subnets
of both families with all widths and port ranges, name servers, ports, UDP, user/group — id 0
included — mark, pid), every sequence of host updates over the allowed alphabet, every size
`max ≥ 1` of the pieces `readline(max)` hands out (so: however the lines are cut into reads;
128 is one instance) and either treatment of an unfinished last line: the helper, fed the bytes
the client wrote, holds exactly the plan when it sets up, receives exactly the updates, in order,
ends at end of input, and its host map gives for every name the last address announced. -/
theorem C13_dialogue_roundtrip (max : Nat) (hmax : 0 < max) (drops : Bool) (p : Plan) (hw : PlanWf p)
    (hosts : List (Bytes × Bytes)) (hh : ∀ h ∈ hosts, HostOk h) :
    ∃ ls hl, render p = some ls ∧ hosts.mapM (fun h => renderHost h.1 h.2) = some hl ∧
      parse (rawLines max drops (ls.flatten ++ hl.flatten)) = .ran (planSetup p) hosts .eof ∧
      ∀ n, mapLookup (hostmapOf hosts) n = lastFor hosts n := by
  refine ⟨planLines p, hostLines hosts, render_ok p hw, mapM_renderHost hosts hh, ?_, ?_⟩
  · have hlines : ∀ l ∈ planLines p ++ hostLines hosts, IsLine l := by
      intro l hl
      rcases List.mem_append.mp hl with h | h
      · exact planLines_isLine p hw l h
      · exact hostLines_isLine hosts hh l h
    have := rawLines_lines max drops hmax (planLines p ++ hostLines hosts) [] hlines (by simp)
    simp only [List.append_nil, List.flatten_append, true_or, if_true] at this
    rw [this, parse_planLines p hw, hostLines, hostLoop_hosts hosts hh]
  · intro n
    unfold hostmapOf
    rw [mapLookup_fold]
    simp [mapLookup_nil]

/-- **Every byte prefix of the dialogue.** Cut the bytes the client wrote after any number `k`
of bytes — after a line, inside a line, inside a 128-byte piece, inside the `GO` line, inside a
`HOST` line — and end the input there. The helper (for every piece size `max ≥ 1`; reader giving
an unfinished line up, as the source does: `C13_pin_reader_drops`) then either returns before
anything, or raises before the `try:` block (nothing set up), or has set up with **exactly the
complete plan** and has received exactly the first `j` host updates — a prefix of the history,
whose last-writer map it holds (`C13_hostmap_last_writer`) — and leaves through end of input.
It never acts on partial data: no partial plan, no truncated pid, name or address. With the
whole stream (`k ≥ length`) it has all updates. -/
theorem C13_dialogue_prefix (max : Nat) (hmax : 0 < max) (p : Plan) (hw : PlanWf p)
    (hosts : List (Bytes × Bytes)) (hh : ∀ h ∈ hosts, HostOk h) (k : Nat) :
    parse (rawLines max true ((planLines p ++ hostLines hosts).flatten.take k)) = .noInput ∨
    (∃ e, parse (rawLines max true ((planLines p ++ hostLines hosts).flatten.take k)) = .before e) ∨
    (∃ j, j ≤ hosts.length ∧ (k ≥ (planLines p ++ hostLines hosts).flatten.length → j = hosts.length) ∧
      parse (rawLines max true ((planLines p ++ hostLines hosts).flatten.take k)) =
        .ran (planSetup p) (hosts.take j) .eof) := by
  have hlines : ∀ l ∈ planLines p ++ hostLines hosts, IsLine l := by
    intro l hl
    rcases List.mem_append.mp hl with h | h
    · exact planLines_isLine p hw l h
    · exact hostLines_isLine hosts hh l h
  obtain ⟨m, _, hm, hfull⟩ := rawLines_take max hmax (planLines p ++ hostLines hosts) k hlines
  rw [hm]
  rcases parse_dialogue_take p hw hosts hh m with h | h | ⟨j, hj, hjf, h⟩
  · exact Or.inl h
  · exact Or.inr (Or.inl h)
  · exact Or.inr (Or.inr ⟨j, hj, fun hk => hjf (by rw [hfull hk]; exact Nat.le_refl _), h⟩)

/-- The same for the helper as the source has it (128-byte pieces, unfinished line given up). -/
theorem C13_helper_prefix (p : Plan) (hw : PlanWf p) (hosts : List (Bytes × Bytes))
    (hh : ∀ h ∈ hosts, HostOk h) (k : Nat) :
    helper ((planLines p ++ hostLines hosts).flatten.take k) = .noInput ∨
    (∃ e, helper ((planLines p ++ hostLines hosts).flatten.take k) = .before e) ∨
    (∃ j, j ≤ hosts.length ∧
      helper ((planLines p ++ hostLines hosts).flatten.take k) = .ran (planSetup p) (hosts.take j) .eof) := by
  unfold helper helperLines
  rw [C13_pin_reader_drops]
  rcases C13_dialogue_prefix Gen.C13.READLINE_MAX C13_pin_readline.1 p hw hosts hh k with h | h | ⟨j, hj, _, h⟩
  · exact Or.inl h
  · exact Or.inr (Or.inl h)
  · exact Or.inr (Or.inr ⟨j, hj, h⟩)

/-- Malformed input, whatever it is: the helper's outcome is one of *return before anything*,
*an exception before the `try:` block* (nothing set up), or *set-up followed by the loop that
always leaves through `finally`* — and set-up requires a decodable line starting with `GO `
after the other sections were accepted. -/
theorem C13_malformed (stream : Bytes) :
    helper stream = .noInput ∨ (∃ e, helper stream = .before e) ∨
    (∃ s hs fin, helper stream = .ran s hs fin ∧
      ∃ raw ∈ helperLines stream, ∃ line, decodeLine raw = some line ∧
        startsWith line GO_ = true) := by
  unfold helper
  cases h : parse (helperLines stream) with
  | noInput => exact Or.inl rfl
  | before e => exact Or.inr (Or.inl ⟨e, rfl⟩)
  | ran s hs fin => exact Or.inr (Or.inr ⟨s, hs, fin, rfl, parse_ran_has_go _ s hs fin h⟩)

end Sshuttle.FwDialogue
