/-
C06 at the level of the tunnel world (`Code/Tunnel.lean`): the identifiers `client.onaccept_tcp`
hands out in a TCP session are 1, 2, 3, … until the cursor would wrap, whatever else happens in
between (callbacks, faults, closes, handlers dropped) — so the hypothesis "the flow identifiers of the
run are pairwise distinct" of C01 / C02 / C08 is discharged for every session with fewer than
MAX_CHANNEL connections.  (Beyond a full cursor cycle identifiers are re-used; what that needs is
finding F19.)  Built and audited with C06's theorems (Props/<ID>_*.lean).
-/
import SshuttleModel.Props.C06
import SshuttleModel.Props.C01

namespace Sshuttle.Tunnel
open Sshuttle.Mux (Frame)
open Sshuttle.Wrap
open Sshuttle.Alloc (nextChannel)

def isAccept : Step → Bool
  | .accept => true
  | _ => false

theorem dispatchAt_scalars (w : World) (e : End) (fr : Frame) :
    (w.dispatchAt e fr).chani = w.chani ∧ (w.dispatchAt e fr).extraOcc = w.extraOcc ∧
    (w.dispatchAt e fr).maxChan = w.maxChan := by
  unfold World.dispatchAt
  split <;> exact ⟨rfl, rfl, rfl⟩

theorem connectS_scalars (w : World) (fr : Frame) (conn : ConnRes) :
    (w.connectS fr conn).chani = w.chani ∧ (w.connectS fr conn).extraOcc = w.extraOcc ∧
    (w.connectS fr conn).maxChan = w.maxChan := by
  unfold World.connectS
  split
  · exact ⟨rfl, rfl, rfl⟩
  · split
    · exact ⟨rfl, rfl, rfl⟩
    · split
      · exact ⟨rfl, rfl, rfl⟩
      · split <;> exact ⟨rfl, rfl, rfl⟩

theorem deliverS_scalars (w : World) (conn : ConnRes) :
    (w.deliverS conn).chani = w.chani ∧ (w.deliverS conn).extraOcc = w.extraOcc ∧
    (w.deliverS conn).maxChan = w.maxChan := by
  unfold World.deliverS
  split
  · exact ⟨rfl, rfl, rfl⟩
  · simp only
    split
    · exact ⟨rfl, rfl, rfl⟩
    · split
      · exact ⟨rfl, rfl, rfl⟩
      · split
        · exact connectS_scalars _ _ _
        · split
          · exact ⟨rfl, rfl, rfl⟩
          · exact dispatchAt_scalars _ _ _

theorem deliverC_scalars (w : World) :
    w.deliverC.chani = w.chani ∧ w.deliverC.extraOcc = w.extraOcc ∧ w.deliverC.maxChan = w.maxChan := by
  unfold World.deliverC
  split
  · exact ⟨rfl, rfl, rfl⟩
  · simp only
    split
    · exact ⟨rfl, rfl, rfl⟩
    · split
      · exact ⟨rfl, rfl, rfl⟩
      · split
        · split <;> exact ⟨rfl, rfl, rfl⟩
        · split
          · exact ⟨rfl, rfl, rfl⟩
          · exact dispatchAt_scalars _ _ _

/-- Only `accept` touches the allocation cursor, the foreign ids and the list of flow ids. -/
theorem stepRaw_ids (w : World) (st : Step) (h : isAccept st = false) :
    (w.stepRaw st).chani = w.chani ∧ (w.stepRaw st).extraOcc = w.extraOcc ∧
    (w.stepRaw st).maxChan = w.maxChan ∧ chans (w.stepRaw st) = chans w := by
  cases st with
  | accept => cases h
  | cb e i io =>
    cases e
    · simp only [World.stepRaw, World.cbC]
      split
      · split
        · split
          · exact ⟨rfl, rfl, rfl, modifyAt_map_chan _ _ _ (fun _ => rfl)⟩
          · exact ⟨rfl, rfl, rfl, rfl⟩
        · exact ⟨rfl, rfl, rfl, rfl⟩
      · exact ⟨rfl, rfl, rfl, rfl⟩
    · simp only [World.stepRaw, World.cbS]
      split
      · split
        · split
          · exact ⟨rfl, rfl, rfl, modifyAt_map_chan _ _ _ (fun _ => rfl)⟩
          · exact ⟨rfl, rfl, rfl, rfl⟩
        · exact ⟨rfl, rfl, rfl, rfl⟩
      · exact ⟨rfl, rfl, rfl, rfl⟩
  | pre e i =>
    cases e
    · simp only [World.stepRaw, World.preC]
      split
      · split
        · exact ⟨rfl, rfl, rfl, modifyAt_map_chan _ _ _ (fun _ => rfl)⟩
        · exact ⟨rfl, rfl, rfl, rfl⟩
      · exact ⟨rfl, rfl, rfl, rfl⟩
    · simp only [World.stepRaw, World.preS]
      split
      · split
        · exact ⟨rfl, rfl, rfl, modifyAt_map_chan _ _ _ (fun _ => rfl)⟩
        · exact ⟨rfl, rfl, rfl, rfl⟩
      · exact ⟨rfl, rfl, rfl, rfl⟩
  | deliver e conn =>
    cases e
    · simp only [World.stepRaw]
      obtain ⟨a, b, c⟩ := deliverC_scalars w
      exact ⟨a, b, c, chans_deliverC w⟩
    · simp only [World.stepRaw]
      obtain ⟨a, b, c⟩ := deliverS_scalars w conn
      exact ⟨a, b, c, chans_deliverS w conn⟩
  | removeDead e =>
    cases e
    · simp only [World.stepRaw]; exact ⟨rfl, rfl, rfl, chans_rmC w⟩
    · simp only [World.stepRaw]; exact ⟨rfl, rfl, rfl, chans_rmS w⟩
  | checkFull e => cases e <;> exact ⟨rfl, rfl, rfl, rfl⟩
  | foreign e f => cases e <;> exact ⟨rfl, rfl, rfl, rfl⟩
  | appWrite i b => exact ⟨rfl, rfl, rfl, modifyAt_map_chan _ _ _ (fun f => by split <;> rfl)⟩
  | appEof i => exact ⟨rfl, rfl, rfl, modifyAt_map_chan _ _ _ (fun _ => rfl)⟩
  | dstWrite i b => exact ⟨rfl, rfl, rfl, modifyAt_map_chan _ _ _ (fun f => by split <;> rfl)⟩
  | dstEof i => exact ⟨rfl, rfl, rfl, modifyAt_map_chan _ _ _ (fun _ => rfl)⟩

/-- The session so far has handed out exactly the identifiers 1 … cursor, in this order, and no
identifier is held by another flow kind. -/
def CountInv (w : World) : Prop := w.extraOcc = [] ∧ chans w = List.range' 1 w.chani

theorem accept_countInv (w : World) (h : CountInv w) (hm : w.chani < w.maxChan) :
    CountInv w.accept ∧ w.accept.chani = w.chani + 1 ∧ w.accept.maxChan = w.maxChan := by
  obtain ⟨he, hc⟩ := h
  have hfree : w.cOcc (w.chani + 1) = false := by
    unfold World.cOcc
    rw [he]
    simp only [List.contains_nil, Bool.false_or, List.any_eq_false, Bool.and_eq_true, beq_iff_eq, not_and]
    intro f hf hch
    exfalso
    have : f.chan ∈ chans w := List.mem_map.mpr ⟨f, hf, rfl⟩
    rw [hc, List.mem_range'_1] at this
    omega
  have hp : Generated.ALLOC_PROBES = (Generated.ALLOC_PROBES - 1) + 1 := by decide
  have hn : nextChannel w.maxChan w.cOcc Generated.ALLOC_PROBES w.chani = (some (w.chani + 1), w.chani + 1) := by
    rw [hp]
    have : ¬ (w.chani + 1 > w.maxChan) := by omega
    simp [nextChannel, this, hfree]
  unfold World.accept
  rw [hn]
  refine ⟨⟨he, ?_⟩, rfl, rfl⟩
  simp only [chans, List.map_append, List.map_cons, List.map_nil]
  show chans w ++ [w.chani + 1] = _
  rw [hc, List.range'_1_concat]
  rw [Nat.add_comm 1 w.chani]

theorem step_countInv (w : World) (st : Step) (h : CountInv w)
    (hm : isAccept st = true → w.chani < w.maxChan) :
    CountInv (w.step st) ∧ (w.step st).maxChan = w.maxChan ∧
    (w.step st).chani ≤ w.chani + (if isAccept st then 1 else 0) := by
  unfold World.step
  split
  · exact ⟨h, rfl, Nat.le_add_right _ _⟩
  · split
    · exact ⟨h, rfl, Nat.le_add_right _ _⟩
    · cases ha : isAccept st with
      | false =>
        obtain ⟨a, b, c, d⟩ := stepRaw_ids w st ha
        refine ⟨⟨by rw [b]; exact h.1, by rw [d, a]; exact h.2⟩, c, by rw [a]; simp⟩
      | true =>
        cases st with
        | accept =>
          obtain ⟨a, b, c⟩ := accept_countInv w h (hm ha)
          exact ⟨a, c, by show w.accept.chani ≤ _; rw [b]; simp⟩
        | _ => cases ha

/-- **The identifiers of a session are pairwise distinct until the cursor would wrap.**  From a
client that has handed out nothing yet and shares its identifier space with no other flow kind, under
EVERY schedule — callbacks with any socket behaviour, faults, closes, frames, handlers dropped, in any
order — with at most `maxChan` connections accepted, the flows carry the identifiers 1, 2, 3, … in
the order they were accepted: no two flows, open or closed, ever shared one.  This is the hypothesis
`(chans …).Nodup` of `C01_prefix`, `C01_conservation`, `C02_quiet_complete`, `C08_neighbours_safe`. -/
theorem C06_session_ids_distinct (w0 : World) (h0 : w0.flows = []) (hc : w0.chani = 0) (he : w0.extraOcc = [])
    (steps : List Step) (hn : (steps.filter isAccept).length ≤ w0.maxChan) :
    chans (w0.run steps) = List.range' 1 (w0.run steps).chani ∧ (chans (w0.run steps)).Nodup := by
  have key : ∀ (steps : List Step) (w : World), CountInv w →
      w.chani + (steps.filter isAccept).length ≤ w.maxChan → CountInv (w.run steps) := by
    intro steps
    induction steps with
    | nil => intro w h _; exact h
    | cons a rest ih =>
      intro w h hb
      have hrun : w.run (a :: rest) = (w.step a).run rest := by simp only [World.run, List.foldl_cons]
      rw [hrun]
      have hlen : (List.filter isAccept (a :: rest)).length =
          (if isAccept a then 1 else 0) + (List.filter isAccept rest).length := by
        simp only [List.filter_cons]
        split <;> simp <;> omega
      rw [hlen] at hb
      obtain ⟨h1, h2, h3⟩ := step_countInv w a h (fun ha => by rw [ha] at hb; simp at hb; omega)
      apply ih (w.step a) h1
      rw [h2]; omega
  have hinv : CountInv (w0.run steps) := by
    apply key steps w0 ⟨he, by simp [chans, h0, hc]⟩
    rw [hc]; omega
  exact ⟨hinv.2, by rw [hinv.2]; exact List.nodup_range'⟩

/-- C01's safety statement for every session that stays below a full cycle of the identifier space,
with no hypothesis about identifiers left. -/
theorem C01_prefix_below_wrap (w0 : World) (h0 : Fresh w0) (hc : w0.chani = 0) (he : w0.extraOcc = [])
    (steps : List Step) (hg : ∀ st ∈ steps, GoodStep st)
    (hn : (steps.filter isAccept).length ≤ w0.maxChan) :
    ∀ f ∈ (w0.run steps).flows,
      f.dst.delivered <+: written f.app ∧ f.app.delivered <+: written f.dst :=
  C01_prefix w0 h0 steps hg (C06_session_ids_distinct w0 h0.1 hc he steps hn).2

example : (chans (({} : World).run [.accept, .accept, .appEof 0, .cb .client 0 {}, .accept])) = [1, 2, 3] := by
  decide +kernel

end Sshuttle.Tunnel
