/-
C02 — End-of-stream follows all data; half-close works; finished flows are torn down.

Property theorems over `Code/Tunnel.lean`, for every reachable state of every schedule.
They are read off the per-direction invariant `DirInv` (Lemmas/DirInv.lean) that `C01` carries
along every run (`RunInv.run`); the two directions of a flow are two independent instances of
that invariant, which is what makes half-close work.

What is a theorem here and what is not: ordering (EOF after data, nothing after EOF, shutdown
only after the socket wrapper shut), accounting and the conditions under which handlers are
dropped are theorems for all schedules.  "Within bounded work" and "no stuck state under a
fair schedule" are liveness claims; they are decided on the real classes by the fair-drain
oracle of `harness/props/c02.py`, not by a theorem (see DESIGN.md).
-/
import SshuttleModel.Props.C01
import SshuttleModel.Lemmas.SockInv

namespace Sshuttle.Tunnel
open Sshuttle.Mux (Frame)
open Sshuttle.Wrap

/-- Every flow of every reachable, alive world satisfies the two-direction invariant. -/
theorem reach_flowOK (w0 : World) (h0 : Fresh w0) (steps : List Step)
    (hg : ∀ st ∈ steps, GoodStep st) (hn : (chans (w0.run steps)).Nodup)
    (halive : (w0.run steps).died = none) :
    ∀ f ∈ (w0.run steps).flows, FlowOK (w0.run steps).cm (w0.run steps).sm f := by
  have hw := (h0.runInv.run steps hg hn).2.2 halive
  intro f hf
  obtain ⟨i, hi⟩ := List.getElem?_of_mem hf
  exact hw.flows i f hi

section
variable (w0 : World) (h0 : Fresh w0) (steps : List Step)
  (hg : ∀ st ∈ steps, GoodStep st) (hn : (chans (w0.run steps)).Nodup)
  (halive : (w0.run steps).died = none)
include h0 hg hn halive

/-- **Nothing follows end-of-stream on the wire.**  In both frame queues, no TCP_DATA frame of a
flow is queued behind a TCP_EOF frame of that flow. -/
theorem C02_eof_frame_last :
    ∀ f ∈ (w0.run steps).flows,
      eofClean f.chan (w0.run steps).cm.out ∧ eofClean f.chan (w0.run steps).sm.out := by
  intro f hf
  have h := reach_flowOK w0 h0 steps hg hn halive f hf
  have h1 := h.up.clean
  have h2 := h.down.clean
  rw [upSrc_out] at h1; rw [downSrc_out] at h2
  exact ⟨h1, h2⟩

/-- **EOF is sent only by an end that is done.**  While a TCP_EOF of a flow is in flight, the end
that sent it has (if its handler still exists) stopped reading its socket, an empty buffer and
`shut_write` on the mux side: it can never frame another byte of that flow. -/
theorem C02_eof_sender_done :
    ∀ f ∈ (w0.run steps).flows,
      (hasEof f.chan (w0.run steps).cm.out = true →
        ∀ p, f.c = some p → p.mw.shutW = true ∧ p.sw.buf.flatten = [] ∧ p.sw.shutR = true) ∧
      (hasEof f.chan (w0.run steps).sm.out = true →
        ∀ p, f.s = some p → p.mw.shutW = true ∧ p.sw.buf.flatten = [] ∧ p.sw.shutR = true) := by
  intro f hf
  have h := reach_flowOK w0 h0 steps hg hn halive f hf
  constructor
  · intro he p hp
    have h1 := h.up.eofNM (by rw [upSrc_out]; exact he)
    simp only [noMore, upSrc, hp, SV] at h1
    rcases h1.2 with h' | h'
    · cases h'
    · exact h'
  · intro he p hp
    have h1 := h.down.eofNM (by rw [downSrc_out]; exact he)
    simp only [noMore, downSrc, hp, SV] at h1
    rcases h1.2 with h' | h'
    · cases h'
    · exact h'

/-- **EOF arrives after ALL the data** (client → server direction).  Once the server's wrapper has
processed the flow's EOF (`shut_read` on its mux side) and has not yet shut the destination
socket: no DATA of the flow is still in flight, the client's buffer is empty, and everything
read from the application is exactly what the destination received followed by what the server
still buffers for it — nothing was lost on the way.  The shutdown of the destination through
the end-of-stream path (`copy_to`: `if not self.buf and self.shut_read: nowrite()`) happens
when that buffer is empty, i.e. with every byte delivered (`C02_eof_shutdown_complete`). -/
theorem C02_eof_after_data_up :
    ∀ f ∈ (w0.run steps).flows, ∀ p, f.s = some p → p.mw.shutR = true → f.dst.sawShut = false →
      dataOf f.chan (w0.run steps).cm.out = [] ∧ (upSrc (w0.run steps).cm f).buf = [] ∧
      f.app.consumed = f.dst.delivered ++ p.mw.buf.flatten := by
  intro f hf p hp hr hs
  have h := reach_flowOK w0 h0 steps hg hn halive f hf
  have hb : upSink f = KV p.sw p.mw p.ok f.dst := by simp only [upSink, hp]
  have hg' := h.up.gone (by rw [hb]; rfl) (Or.inr (by rw [hb]; exact hr))
  rw [hb] at hg'
  rcases hg' with h' | ⟨hnm, hd⟩
  · simp only [KV] at h'; rw [hs] at h'; cases h'
  · have hbuf : (upSrc (w0.run steps).cm f).buf = [] := by
      rcases hnm.2 with h' | h'
      · exact h.up.srcBuf h'
      · exact h'.2.1
    rw [upSrc_out] at hd
    refine ⟨hd, hbuf, ?_⟩
    rcases h.up.exact with h' | he
    · rw [hb] at h'; simp only [KV] at h'; rw [hs] at h'; cases h'
    · have e3 : (upSrc (w0.run steps).cm f).consumed = f.app.consumed := by unfold upSrc; split <;> rfl
      rw [hb, upSrc_out, hd, hbuf, e3] at he
      simpa [KV] using he

/-- The same for the server → client direction. -/
theorem C02_eof_after_data_down :
    ∀ f ∈ (w0.run steps).flows, ∀ p, f.c = some p → p.mw.shutR = true → f.app.sawShut = false →
      dataOf f.chan (w0.run steps).sm.out = [] ∧ (downSrc (w0.run steps).sm f).buf = [] ∧
      f.dst.consumed = f.app.delivered ++ p.mw.buf.flatten := by
  intro f hf p hp hr hs
  have h := reach_flowOK w0 h0 steps hg hn halive f hf
  have hb : downSink f = KV p.sw p.mw p.ok f.app := by simp only [downSink, hp]
  have hg' := h.down.gone (by rw [hb]; rfl) (Or.inr (by rw [hb]; exact hr))
  rw [hb] at hg'
  rcases hg' with h' | ⟨hnm, hd⟩
  · simp only [KV] at h'; rw [hs] at h'; cases h'
  · have hbuf : (downSrc (w0.run steps).sm f).buf = [] := by
      rcases hnm.2 with h' | h'
      · exact h.down.srcBuf h'
      · exact h'.2.1
    rw [downSrc_out] at hd
    refine ⟨hd, hbuf, ?_⟩
    rcases h.down.exact with h' | he
    · rw [hb] at h'; simp only [KV] at h'; rw [hs] at h'; cases h'
    · have e3 : (downSrc (w0.run steps).sm f).consumed = f.dst.consumed := by unfold downSrc; split <;> rfl
      rw [hb, downSrc_out, hd, hbuf, e3] at he
      simpa [KV] using he

/-- **No discard before the peer endpoint is shut.**  While the destination socket is open, a
client handler whose mux side is shut for writing got there by its own EOF: its buffer is empty
and it has stopped reading — it was not told to stop, so it never threw bytes away. -/
theorem C02_no_discard_before_shutdown :
    ∀ f ∈ (w0.run steps).flows,
      (f.dst.sawShut = false → ∀ p, f.c = some p → p.mw.shutW = true → p.sw.buf.flatten = [] ∧ p.sw.shutR = true) ∧
      (f.app.sawShut = false → ∀ p, f.s = some p → p.mw.shutW = true → p.sw.buf.flatten = [] ∧ p.sw.shutR = true) := by
  intro f hf
  have h := reach_flowOK w0 h0 steps hg hn halive f hf
  constructor
  · intro hs p hp hw
    have e2 : (upSink f).sawShut = f.dst.sawShut := by unfold upSink; split <;> rfl
    have := h.up.nl1 (by rw [e2]; exact hs) (by simp [upSrc, hp, SV]) (by simp [upSrc, hp, SV, hw])
    simpa [upSrc, hp, SV] using this
  · intro hs p hp hw
    have e2 : (downSink f).sawShut = f.app.sawShut := by unfold downSink; split <;> rfl
    have := h.down.nl1 (by rw [e2]; exact hs) (by simp [downSrc, hp, SV]) (by simp [downSrc, hp, SV, hw])
    simpa [downSrc, hp, SV] using this

/-- **STOP_SENDING is sent only after the sender shut its own socket.**  A STOP_SENDING frame of a
flow in the server → client queue implies the destination socket was shut down (and
symmetrically): telling the peer to stop is never what makes data get lost for an endpoint that
could still receive it. -/
theorem C02_stop_only_after_shutdown :
    ∀ f ∈ (w0.run steps).flows,
      (hasStop f.chan (w0.run steps).sm.out = true → f.dst.sawShut = true) ∧
      (hasStop f.chan (w0.run steps).cm.out = true → f.app.sawShut = true) := by
  intro f hf
  have h := reach_flowOK w0 h0 steps hg hn halive f hf
  constructor
  · intro hst
    have hown := h.down.stopOk (by rw [downSrc_out]; exact hst)
    have e2 : (upSink f).sawShut = f.dst.sawShut := by unfold upSink; split <;> rfl
    rw [← e2]
    cases hcc : f.s with
    | none =>
      cases hev : f.sEver with
      | true => exact h.up.goneShut (by simp [upSink, hcc, goneSink, hev]) (by simp [upSink, hcc, goneSink])
      | false => simp only [downSrc, hcc, goneSrc, hev] at hown; cases hown
    | some q =>
      simp only [downSrc, hcc, SV] at hown
      exact h.up.shutOk (by simp [upSink, hcc, KV]) (by simp [upSink, hcc, KV]; exact hown)
  · intro hst
    have hown := h.up.stopOk (by rw [upSrc_out]; exact hst)
    have e2 : (downSink f).sawShut = f.app.sawShut := by unfold downSink; split <;> rfl
    rw [← e2]
    cases hcc : f.c with
    | none => exact h.down.goneShut (by simp [downSink, hcc, goneSink]) (by simp [downSink, hcc, goneSink])
    | some q =>
      simp only [upSrc, hcc, SV] at hown
      exact h.down.shutOk (by simp [downSink, hcc, KV]) (by simp [downSink, hcc, KV]; exact hown)

/-- **Half-close.**  The finished direction does not disturb the other one: with the client →
server direction completely closed (application closed, destination socket shut down), the
server → client direction still satisfies the full accounting of C01 as long as the
application's socket has not been shut — its bytes keep flowing, in order, without loss. -/
theorem C02_half_close :
    ∀ f ∈ (w0.run steps).flows, f.dst.sawShut = true → f.app.sawShut = false →
      f.dst.consumed = f.app.delivered ++ (downSink f).buf ++ dataOf f.chan (w0.run steps).sm.out ++
          (downSrc (w0.run steps).sm f).buf := by
  intro f hf _ hs
  rcases (C01_conservation w0 h0 steps hg hn halive f hf).2 with h | h
  · rw [hs] at h; cases h
  · exact h

/-- **A dead handler has shut its socket.**  A handler whose `ok` is False (it is about to be
dropped from the loop) has `shut_write` set on its socket wrapper, and the socket really was
shut down. -/
theorem C02_dead_handler_shut :
    ∀ f ∈ (w0.run steps).flows,
      (∀ p, f.c = some p → p.ok = false → p.sw.shutW = true ∧ f.app.sawShut = true) ∧
      (∀ p, f.s = some p → p.ok = false → p.sw.shutW = true ∧ f.dst.sawShut = true) := by
  intro f hf
  have h := reach_flowOK w0 h0 steps hg hn halive f hf
  constructor
  · intro p hp hok
    have hb : downSink f = KV p.sw p.mw p.ok f.app := by simp only [downSink, hp]
    have h1 := h.down.dead (by rw [hb]; rfl) (by rw [hb]; exact hok)
    have h2 := h.down.shutOk (by rw [hb]; rfl) h1
    rw [hb] at h1 h2
    exact ⟨h1, h2⟩
  · intro p hp hok
    have hb : upSink f = KV p.sw p.mw p.ok f.dst := by simp only [upSink, hp]
    have h1 := h.up.dead (by rw [hb]; rfl) (by rw [hb]; exact hok)
    have h2 := h.up.shutOk (by rw [hb]; rfl) h1
    rw [hb] at h1 h2
    exact ⟨h1, h2⟩

/-- **A dropped handler left no socket hanging.**  Whenever a flow's client handler is no longer
in the loop its application socket was shut down; whenever the server handler existed and is
gone, the destination socket was shut down. -/
theorem C02_dropped_handler_shut :
    ∀ f ∈ (w0.run steps).flows,
      (f.c = none → f.app.sawShut = true) ∧ (f.s = none → f.sEver = true → f.dst.sawShut = true) := by
  intro f hf
  have h := reach_flowOK w0 h0 steps hg hn halive f hf
  constructor
  · intro hc
    have hb : downSink f = goneSink true f.app := by simp only [downSink, hc]
    have := h.down.goneShut (by rw [hb]; rfl) (by rw [hb]; rfl)
    rw [hb] at this; exact this
  · intro hs hev
    have hb : upSink f = goneSink f.sEver f.dst := by simp only [upSink, hs]
    have := h.up.goneShut (by rw [hb]; exact hev) (by rw [hb]; rfl)
    rw [hb] at this; exact this

end

/-! ### dropping handlers, freeing identifiers (definitional facts of the loop model) -/

/-- The loop drops exactly the handlers whose `ok` is False. -/
theorem C02_remove_only_dead (w : World) (i : Nat) (f : Flow) (h : w.flows[i]? = some f) :
    w.rmC.flows[i]? = some (match f.c with
      | some p => if p.ok then f else { f with c := none }
      | none => f) := by
  simp only [World.rmC, List.getElem?_map, h, Option.map_some]
  cases f.c <;> rfl

/-- A flow whose client handler is gone or unregistered does not occupy its identifier: with
distinct flow ids, the allocator sees the id free again. -/
theorem C02_id_free_after_teardown (w : World) (c : Nat) (hx : c ∉ w.extraOcc)
    (h : ∀ f ∈ w.flows, f.chan = c → ∀ p, f.c = some p → p.mw.registered = false) :
    w.cOcc c = false := by
  unfold World.cOcc
  have h1 : w.extraOcc.contains c = false := by simpa using hx
  rw [h1, Bool.false_or]
  apply List.any_eq_false.mpr
  intro f hf
  cases hc : f.c with
  | none => simp
  | some p =>
    by_cases hch : f.chan = c
    · have := h f hf hch p hc
      simp [this]
    · simp [hch]


/-- **A finished handler frees its identifier at once, under every schedule** (no hypothesis on
the steps).  As soon as a handler's `ok` is False — before the loop has even dropped it — all four
shut flags are set, both buffers are empty, and the wrapper is unregistered from the Mux
(`channels[id] = None`): the allocator sees the id free, and late frames for it are dropped. -/
theorem C02_finished_frees_id (w0 : World) (h0 : w0.flows = []) (steps : List Step) :
    ∀ f ∈ (w0.run steps).flows,
      (∀ p, f.c = some p → p.ok = false → Dead p ∧ p.mw.registered = false) ∧
      (∀ p, f.s = some p → p.ok = false → Dead p ∧ p.mw.registered = false) := by
  intro f hf
  obtain ⟨hc, hs⟩ := reach_flowSock w0 h0 steps f hf
  exact ⟨fun p hp hok => ⟨(hc p hp).2 hok, ((hc p hp).2 hok).unregistered⟩,
         fun p hp hok => ⟨(hs p hp).2 hok, ((hs p hp).2 hok).unregistered⟩⟩



/-- **The end-of-stream path shuts the socket only when everything was written.**  If a
`MuxWrapper.copy_to(SockWrapper)` without a socket fault (the send was accepted or would block)
shuts down a socket that was open, then the wrapper had received EOF and its buffer is empty
afterwards.  With `C02_eof_after_data_up/_down`: at that moment the endpoint has received
exactly the bytes its peer wrote before closing. -/
theorem C02_eof_shutdown_complete (w : MuxW) (s : SockW) (e : ESock) (r : SendRes) (se : Bool)
    (hs : e.sawShut = false) (hr : (∃ n, r = .sent n) ∨ r = .eagain)
    (hres : (muxCopyToSock w s e r se).2.2.sawShut = true) :
    w.shutR = true ∧ (muxCopyToSock w s e r se).1.buf = [] := by
  have huw : ∀ b, (s.uwrite e b r se).2.2.sawShut = false := by
    intro b
    unfold SockW.uwrite
    split
    · exact hs
    · simp only [hs, Bool.false_eq_true, ↓reduceIte]
      rcases hr with ⟨n, hn⟩ | hn
      · subst hn; rfl
      · subst hn; exact hs
  have tail : ∀ x : MuxW × SockW × ESock, x.1.shutR = w.shutR → x.2.2.sawShut = false →
      (if ({ x.1 with buf := popEmpty x.1.buf } : MuxW).buf.isEmpty && ({ x.1 with buf := popEmpty x.1.buf } : MuxW).shutR then
          (({ x.1 with buf := popEmpty x.1.buf } : MuxW), (x.2.1.nowrite x.2.2 se).1, (x.2.1.nowrite x.2.2 se).2)
        else (({ x.1 with buf := popEmpty x.1.buf } : MuxW), x.2.1, x.2.2)).2.2.sawShut = true →
      w.shutR = true ∧
      (if ({ x.1 with buf := popEmpty x.1.buf } : MuxW).buf.isEmpty && ({ x.1 with buf := popEmpty x.1.buf } : MuxW).shutR then
          (({ x.1 with buf := popEmpty x.1.buf } : MuxW), (x.2.1.nowrite x.2.2 se).1, (x.2.1.nowrite x.2.2 se).2)
        else (({ x.1 with buf := popEmpty x.1.buf } : MuxW), x.2.1, x.2.2)).1.buf = [] := by
    intro x hw1 he1 h
    by_cases hc : (({ x.1 with buf := popEmpty x.1.buf } : MuxW).buf.isEmpty &&
        ({ x.1 with buf := popEmpty x.1.buf } : MuxW).shutR) = true
    · rw [if_pos hc]
      simp only [Bool.and_eq_true, List.isEmpty_iff] at hc
      exact ⟨by rw [← hw1]; exact hc.2, hc.1⟩
    · rw [if_neg hc] at h
      simp only at h
      rw [he1] at h; cases h
  revert hres
  unfold muxCopyToSock
  cases hb : w.buf with
  | nil => exact tail (w, s, e) rfl hs
  | cons b rest =>
    simp only
    by_cases hbe : b.isEmpty = true
    · simp only [hbe, ↓reduceIte]; exact tail (w, s, e) rfl hs
    · simp only [hbe, Bool.false_eq_true, ↓reduceIte]
      have hu := huw b
      generalize s.uwrite e b r se = u at hu
      obtain ⟨on, s1, e1⟩ := u
      cases on with
      | none => exact tail (w, s1, e1) rfl hu
      | some n => exact tail ({ w with buf := b.drop n :: rest }, s1, e1) rfl hu

/-! ### non-vacuity -/

def demo2 : List Step :=
  [.accept, .deliver .server .ok, .appWrite 0 [1, 2, 3], .appEof 0,
   .cb .client 0 { recv := .data 65536 }, .cb .client 0 { recv := .data 65536 },
   .deliver .server .ok, .deliver .server .ok]

/-- A reachable state meeting the hypotheses of `C02_eof_after_data_up`: the server has processed
the EOF, has not shut the destination yet and still buffers the three bytes; one more callback
delivers them and only then shuts the socket down. -/
example :
    let w : World := ({} : World).run demo2
    Fresh ({} : World) ∧ (∀ st ∈ demo2, GoodStep st) ∧ (chans w).Nodup ∧ w.died = none ∧
    (w.flows.map fun f => ((f.s.map fun p => (p.mw.shutR, p.mw.buf)), f.dst.sawShut, f.app.consumed)) =
      [(some (true, [[1, 2, 3]]), false, [1, 2, 3])] ∧
    ((w.step (.cb .server 0 { send := .sent 65536 })).flows.map fun f => (f.dst.sawShut, f.dst.delivered)) =
      [(true, [1, 2, 3])] := by
  refine ⟨⟨rfl, by decide, by decide⟩, (by intro st hst; simp only [demo2, List.mem_cons, List.not_mem_nil, or_false] at hst; rcases hst with h | h | h | h | h | h | h | h <;> subst h <;> trivial), by decide +kernel, by decide +kernel, by decide +kernel,
    by decide +kernel⟩

end Sshuttle.Tunnel
