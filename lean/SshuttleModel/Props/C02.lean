/-
C02 — End-of-stream follows all data; half-close works; finished flows are torn down.

Property theorems over `Code/Tunnel.lean`, for every reachable state of every schedule.
They are read off the per-direction invariant `DirInv` (Lemmas/DirInv.lean) that `C01` carries
along every run (`RunInv.run`); the two directions of a flow are two independent instances of
that invariant, which is what makes half-close work.

What is a theorem here and what is not: ordering (EOF after data, nothing after EOF, shutdown
only after the socket wrapper shut), accounting and the conditions under which handlers are
dropped are theorems for all schedules.  "Within bounded work" and "no stuck state under a
fair schedule" are liveness claims; they are decided on the real classes by the fair-drain
oracle of `harness/props/c02.py`, not by a theorem (see DESIGN.md).
-/
import SshuttleModel.Props.C01
import SshuttleModel.Lemmas.SockInv

namespace Sshuttle.Tunnel
open Sshuttle.Mux (Frame)
open Sshuttle.Wrap

/-- Every flow of every reachable, alive world satisfies the two-direction invariant. -/
theorem reach_flowOK (w0 : World) (h0 : Fresh w0) (steps : List Step)
    (hg : ∀ st ∈ steps, GoodStep st) (hn : (chans (w0.run steps)).Nodup)
    (halive : (w0.run steps).died = none) :
    ∀ f ∈ (w0.run steps).flows, FlowOK (w0.run steps).cm (w0.run steps).sm f := by
  have hw := (h0.runInv.run steps hg hn).2 halive
  intro f hf
  obtain ⟨i, hi⟩ := List.getElem?_of_mem hf
  exact hw.flows i f hi

section
variable (w0 : World) (h0 : Fresh w0) (steps : List Step)
  (hg : ∀ st ∈ steps, GoodStep st) (hn : (chans (w0.run steps)).Nodup)
  (halive : (w0.run steps).died = none)
include h0 hg hn halive

/-- **Nothing follows end-of-stream on the wire.**  In both frame queues, no TCP_DATA frame of a
flow is queued behind a TCP_EOF frame of that flow. -/
theorem C02_eof_frame_last :
    ∀ f ∈ (w0.run steps).flows,
      eofClean f.chan (w0.run steps).cm.out ∧ eofClean f.chan (w0.run steps).sm.out := by
  intro f hf
  have h := reach_flowOK w0 h0 steps hg hn halive f hf
  have h1 := h.up.clean
  have h2 := h.down.clean
  rw [upSrc_out] at h1; rw [downSrc_out] at h2
  exact ⟨h1, h2⟩

/-- **EOF is sent only by an end that is done.**  While a TCP_EOF of a flow is in flight, the end
that sent it has (if its handler still exists) stopped reading its socket, an empty buffer and
`shut_write` on the mux side: it can never frame another byte of that flow. -/
theorem C02_eof_sender_done :
    ∀ f ∈ (w0.run steps).flows,
      (hasEof f.chan (w0.run steps).cm.out = true →
        ∀ p, f.c = some p → p.mw.shutW = true ∧ p.sw.buf.flatten = [] ∧ p.sw.shutR = true) ∧
      (hasEof f.chan (w0.run steps).sm.out = true →
        ∀ p, f.s = some p → p.mw.shutW = true ∧ p.sw.buf.flatten = [] ∧ p.sw.shutR = true) := by
  intro f hf
  have h := reach_flowOK w0 h0 steps hg hn halive f hf
  constructor
  · intro he p hp
    have h1 := h.up.eofNM (by rw [upSrc_out]; exact he)
    simp only [noMore, upSrc, hp, SV] at h1
    rcases h1.2 with h' | h'
    · cases h'
    · exact h'
  · intro he p hp
    have h1 := h.down.eofNM (by rw [downSrc_out]; exact he)
    simp only [noMore, downSrc, hp, SV] at h1
    rcases h1.2 with h' | h'
    · cases h'
    · exact h'

/-- **EOF arrives after the data** (client → server direction).  Once the server's wrapper has
processed the flow's EOF (`shut_read` on its mux side) and has not yet shut the destination
socket: no DATA of the flow is still in flight, the client's buffer is empty, and everything
read from the application is what the destination received, then exactly what the server still
buffers for it, then `lost` — bytes the client discarded, which is possible only after the
client stopped reading (STOP_SENDING from the server, or teardown).  So the shutdown that
follows (`copy_to`: `if not self.buf and self.shut_read: nowrite()`) happens with every byte
delivered. -/
theorem C02_eof_after_data_up :
    ∀ f ∈ (w0.run steps).flows, ∀ p, f.s = some p → p.mw.shutR = true → f.dst.sawShut = false →
      dataOf f.chan (w0.run steps).cm.out = [] ∧ (upSrc (w0.run steps).cm f).buf = [] ∧
      ∃ lost, f.app.consumed = f.dst.delivered ++ p.mw.buf.flatten ++ lost ∧
        (lost ≠ [] → (upSrc (w0.run steps).cm f).present = false ∨ (upSrc (w0.run steps).cm f).shutR = true) := by
  intro f hf p hp hr hs
  have h := reach_flowOK w0 h0 steps hg hn halive f hf
  have hb : upSink f = KV p.sw p.mw p.ok f.dst := by simp only [upSink, hp]
  have hg' := h.up.gone (by rw [hb]; rfl) (Or.inr (by rw [hb]; exact hr))
  rw [hb] at hg'
  rcases hg' with h' | ⟨hnm, hd⟩
  · simp only [KV] at h'; rw [hs] at h'; cases h'
  · have hbuf : (upSrc (w0.run steps).cm f).buf = [] := by
      rcases hnm.2 with h' | h'
      · exact h.up.srcBuf h'
      · exact h'.2.1
    rw [upSrc_out] at hd
    refine ⟨hd, hbuf, ?_⟩
    rcases h.up.exact with h' | ⟨lost, he, hl⟩
    · rw [hb] at h'; simp only [KV] at h'; rw [hs] at h'; cases h'
    · refine ⟨lost, ?_, fun hne => (hl hne).2⟩
      have e3 : (upSrc (w0.run steps).cm f).consumed = f.app.consumed := by unfold upSrc; split <;> rfl
      rw [hb, upSrc_out, hd, hbuf, e3] at he
      simpa [KV] using he

/-- The same for the server → client direction. -/
theorem C02_eof_after_data_down :
    ∀ f ∈ (w0.run steps).flows, ∀ p, f.c = some p → p.mw.shutR = true → f.app.sawShut = false →
      dataOf f.chan (w0.run steps).sm.out = [] ∧ (downSrc (w0.run steps).sm f).buf = [] ∧
      ∃ lost, f.dst.consumed = f.app.delivered ++ p.mw.buf.flatten ++ lost ∧
        (lost ≠ [] → (downSrc (w0.run steps).sm f).present = false ∨ (downSrc (w0.run steps).sm f).shutR = true) := by
  intro f hf p hp hr hs
  have h := reach_flowOK w0 h0 steps hg hn halive f hf
  have hb : downSink f = KV p.sw p.mw p.ok f.app := by simp only [downSink, hp]
  have hg' := h.down.gone (by rw [hb]; rfl) (Or.inr (by rw [hb]; exact hr))
  rw [hb] at hg'
  rcases hg' with h' | ⟨hnm, hd⟩
  · simp only [KV] at h'; rw [hs] at h'; cases h'
  · have hbuf : (downSrc (w0.run steps).sm f).buf = [] := by
      rcases hnm.2 with h' | h'
      · exact h.down.srcBuf h'
      · exact h'.2.1
    rw [downSrc_out] at hd
    refine ⟨hd, hbuf, ?_⟩
    rcases h.down.exact with h' | ⟨lost, he, hl⟩
    · rw [hb] at h'; simp only [KV] at h'; rw [hs] at h'; cases h'
    · refine ⟨lost, ?_, fun hne => (hl hne).2⟩
      have e3 : (downSrc (w0.run steps).sm f).consumed = f.dst.consumed := by unfold downSrc; split <;> rfl
      rw [hb, downSrc_out, hd, hbuf, e3] at he
      simpa [KV] using he

/-- **Half-close.**  The finished direction does not disturb the other one: with the client →
server direction completely closed (application closed, destination socket shut down), the
server → client direction still satisfies the full accounting of C01 as long as the
application's socket has not been shut — its bytes keep flowing, in order, without loss. -/
theorem C02_half_close :
    ∀ f ∈ (w0.run steps).flows, f.dst.sawShut = true → f.app.sawShut = false →
      ∃ lost, f.dst.consumed = f.app.delivered ++ (downSink f).buf ++ dataOf f.chan (w0.run steps).sm.out ++
          (downSrc (w0.run steps).sm f).buf ++ lost ∧
        (lost ≠ [] → (downSrc (w0.run steps).sm f).present = false ∨ (downSrc (w0.run steps).sm f).shutR = true) := by
  intro f hf _ hs
  rcases (C01_conservation w0 h0 steps hg hn halive f hf).2 with h | h
  · rw [hs] at h; cases h
  · exact h

/-- **A dead handler has shut its socket.**  A handler whose `ok` is False (it is about to be
dropped from the loop) has `shut_write` set on its socket wrapper, and the socket really was
shut down. -/
theorem C02_dead_handler_shut :
    ∀ f ∈ (w0.run steps).flows,
      (∀ p, f.c = some p → p.ok = false → p.sw.shutW = true ∧ f.app.sawShut = true) ∧
      (∀ p, f.s = some p → p.ok = false → p.sw.shutW = true ∧ f.dst.sawShut = true) := by
  intro f hf
  have h := reach_flowOK w0 h0 steps hg hn halive f hf
  constructor
  · intro p hp hok
    have hb : downSink f = KV p.sw p.mw p.ok f.app := by simp only [downSink, hp]
    have h1 := h.down.dead (by rw [hb]; rfl) (by rw [hb]; exact hok)
    have h2 := h.down.shutOk (by rw [hb]; rfl) h1
    rw [hb] at h1 h2
    exact ⟨h1, h2⟩
  · intro p hp hok
    have hb : upSink f = KV p.sw p.mw p.ok f.dst := by simp only [upSink, hp]
    have h1 := h.up.dead (by rw [hb]; rfl) (by rw [hb]; exact hok)
    have h2 := h.up.shutOk (by rw [hb]; rfl) h1
    rw [hb] at h1 h2
    exact ⟨h1, h2⟩

/-- **A dropped handler left no socket hanging.**  Whenever a flow's client handler is no longer
in the loop its application socket was shut down; whenever the server handler existed and is
gone, the destination socket was shut down. -/
theorem C02_dropped_handler_shut :
    ∀ f ∈ (w0.run steps).flows,
      (f.c = none → f.app.sawShut = true) ∧ (f.s = none → f.sEver = true → f.dst.sawShut = true) := by
  intro f hf
  have h := reach_flowOK w0 h0 steps hg hn halive f hf
  constructor
  · intro hc
    have hb : downSink f = goneSink true f.app := by simp only [downSink, hc]
    have := h.down.goneShut (by rw [hb]; rfl) (by rw [hb]; rfl)
    rw [hb] at this; exact this
  · intro hs hev
    have hb : upSink f = goneSink f.sEver f.dst := by simp only [upSink, hs]
    have := h.up.goneShut (by rw [hb]; exact hev) (by rw [hb]; rfl)
    rw [hb] at this; exact this

end

/-! ### dropping handlers, freeing identifiers (definitional facts of the loop model) -/

/-- The loop drops exactly the handlers whose `ok` is False. -/
theorem C02_remove_only_dead (w : World) (i : Nat) (f : Flow) (h : w.flows[i]? = some f) :
    w.rmC.flows[i]? = some (match f.c with
      | some p => if p.ok then f else { f with c := none }
      | none => f) := by
  simp only [World.rmC, List.getElem?_map, h, Option.map_some]
  cases f.c <;> rfl

/-- A flow whose client handler is gone or unregistered does not occupy its identifier: with
distinct flow ids, the allocator sees the id free again. -/
theorem C02_id_free_after_teardown (w : World) (c : Nat) (hx : c ∉ w.extraOcc)
    (h : ∀ f ∈ w.flows, f.chan = c → ∀ p, f.c = some p → p.mw.registered = false) :
    w.cOcc c = false := by
  unfold World.cOcc
  have h1 : w.extraOcc.contains c = false := by simpa using hx
  rw [h1, Bool.false_or]
  apply List.any_eq_false.mpr
  intro f hf
  cases hc : f.c with
  | none => simp
  | some p =>
    by_cases hch : f.chan = c
    · have := h f hf hch p hc
      simp [this]
    · simp [hch]


/-- **A finished handler frees its identifier at once, under every schedule** (no hypothesis on
the steps).  As soon as a handler's `ok` is False — before the loop has even dropped it — all four
shut flags are set, both buffers are empty, and the wrapper is unregistered from the Mux
(`channels[id] = None`): the allocator sees the id free, and late frames for it are dropped. -/
theorem C02_finished_frees_id (w0 : World) (h0 : w0.flows = []) (steps : List Step) :
    ∀ f ∈ (w0.run steps).flows,
      (∀ p, f.c = some p → p.ok = false → Dead p ∧ p.mw.registered = false) ∧
      (∀ p, f.s = some p → p.ok = false → Dead p ∧ p.mw.registered = false) := by
  intro f hf
  obtain ⟨hc, hs⟩ := reach_flowSock w0 h0 steps f hf
  exact ⟨fun p hp hok => ⟨(hc p hp).2 hok, ((hc p hp).2 hok).unregistered⟩,
         fun p hp hok => ⟨(hs p hp).2 hok, ((hs p hp).2 hok).unregistered⟩⟩


/-! ### non-vacuity -/

def demo2 : List Step :=
  [.accept, .deliver .server .ok, .appWrite 0 [1, 2, 3], .appEof 0,
   .cb .client 0 { recv := .data 65536 }, .cb .client 0 { recv := .data 65536 },
   .deliver .server .ok, .deliver .server .ok]

/-- A reachable state meeting the hypotheses of `C02_eof_after_data_up`: the server has processed
the EOF, has not shut the destination yet and still buffers the three bytes; one more callback
delivers them and only then shuts the socket down. -/
example :
    let w : World := ({} : World).run demo2
    Fresh ({} : World) ∧ (∀ st ∈ demo2, GoodStep st) ∧ (chans w).Nodup ∧ w.died = none ∧
    (w.flows.map fun f => ((f.s.map fun p => (p.mw.shutR, p.mw.buf)), f.dst.sawShut, f.app.consumed)) =
      [(some (true, [[1, 2, 3]]), false, [1, 2, 3])] ∧
    ((w.step (.cb .server 0 { send := .sent 65536 })).flows.map fun f => (f.dst.sawShut, f.dst.delivered)) =
      [(true, [1, 2, 3])] := by
  refine ⟨⟨rfl, by decide, by decide⟩, (by intro st hst; simp only [demo2, List.mem_cons, List.not_mem_nil, or_false] at hst; rcases hst with h | h | h | h | h | h | h | h <;> subst h <;> trivial), by decide +kernel, by decide +kernel, by decide +kernel,
    by decide +kernel⟩

end Sshuttle.Tunnel
