import SshuttleModel.Props.C01
namespace Sshuttle.Tunnel
end Sshuttle.Tunnel
