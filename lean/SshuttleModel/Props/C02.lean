/-
C02 — End-of-stream follows all data; half-close works; finished flows are torn down.

Property theorems over `Code/Tunnel.lean`, for every reachable state of every schedule.
They are read off the per-direction invariant `DirInv` (Lemmas/DirInv.lean) that `C01` carries
along every run (`RunInv.run`); the two directions of a flow are two independent instances of
that invariant, which is what makes half-close work.

What is a theorem here and what is not: ordering (EOF after data, nothing after EOF, shutdown
only after the socket wrapper shut), accounting and the conditions under which handlers are
dropped are theorems for all schedules.  "No stuck state … within bounded work" is a theorem about
the modelled loop in four parts: a world at rest is complete (`C02_quiet_complete`); no wake-up is
lost at the level of one handler (`C02_wakeup_send/_read/_deliver`,
`C02_nothing_wanted_nothing_possible`, `C02_unquiet_handler_is_woken`); every move of the loop that
changes anything lowers a finite measure (`C02_bounded_work`); and the scheduler itself
(`Code/Loop.lean`, one `runonce` pass with the model choosing the callbacks from what the handlers
asked for and what `select` reports): a pass that does not lower the measure leaves its end quiet
(`C02_pass_without_progress_is_quiet`).  Outside the theorems: that the operating system's `select`
answers truthfully, and the tie of `World.round` to the real `ssnet.runonce`, which is the
correspondence check of `harness/props/c02.py` (every real pass is compared with the model's pass;
see DESIGN.md).
-/
import SshuttleModel.Props.C01
import SshuttleModel.Lemmas.SockInv
import SshuttleModel.Lemmas.Progress
import SshuttleModel.Lemmas.Fixpoint
import SshuttleModel.Lemmas.MeasureWorld
import SshuttleModel.Props.C08
import SshuttleModel.Props.C09
import SshuttleModel.Spec.Quiet
import SshuttleModel.Code.Loop

namespace Sshuttle.Tunnel
open Sshuttle.Mux (Frame)
open Sshuttle.Wrap

/-- Every flow of every reachable, alive world satisfies the two-direction invariant. -/
theorem reach_flowOK (w0 : World) (h0 : Fresh w0) (steps : List Step)
    (hg : ∀ st ∈ steps, GoodStep st) (hn : (chans (w0.run steps)).Nodup)
    (halive : (w0.run steps).died = none) :
    ∀ f ∈ (w0.run steps).flows, FlowOK (w0.run steps).cm (w0.run steps).sm f := by
  have hw := (h0.runInv.run steps hg hn).2.2 halive
  intro f hf
  obtain ⟨i, hi⟩ := List.getElem?_of_mem hf
  exact hw.flows i f hi

section
variable (w0 : World) (h0 : Fresh w0) (steps : List Step)
  (hg : ∀ st ∈ steps, GoodStep st) (hn : (chans (w0.run steps)).Nodup)
  (halive : (w0.run steps).died = none)
include h0 hg hn halive

/-- **Nothing follows end-of-stream on the wire.**  In both frame queues, no TCP_DATA frame of a
flow is queued behind a TCP_EOF frame of that flow. -/
theorem C02_eof_frame_last :
    ∀ f ∈ (w0.run steps).flows,
      eofClean f.chan (w0.run steps).cm.out ∧ eofClean f.chan (w0.run steps).sm.out := by
  intro f hf
  have h := reach_flowOK w0 h0 steps hg hn halive f hf
  have h1 := h.up.clean
  have h2 := h.down.clean
  rw [upSrc_out] at h1; rw [downSrc_out] at h2
  exact ⟨h1, h2⟩

/-- **EOF is sent only by an end that is done.**  While a TCP_EOF of a flow is in flight, the end
that sent it has (if its handler still exists) stopped reading its socket, an empty buffer and
`shut_write` on the mux side: it can never frame another byte of that flow. -/
theorem C02_eof_sender_done :
    ∀ f ∈ (w0.run steps).flows,
      (hasEof f.chan (w0.run steps).cm.out = true →
        ∀ p, f.c = some p → p.mw.shutW = true ∧ p.sw.buf.flatten = [] ∧ p.sw.shutR = true) ∧
      (hasEof f.chan (w0.run steps).sm.out = true →
        ∀ p, f.s = some p → p.mw.shutW = true ∧ p.sw.buf.flatten = [] ∧ p.sw.shutR = true) := by
  intro f hf
  have h := reach_flowOK w0 h0 steps hg hn halive f hf
  constructor
  · intro he p hp
    have h1 := h.up.eofNM (by rw [upSrc_out]; exact he)
    simp only [noMore, upSrc, hp, SV] at h1
    rcases h1.2 with h' | h'
    · cases h'
    · exact h'
  · intro he p hp
    have h1 := h.down.eofNM (by rw [downSrc_out]; exact he)
    simp only [noMore, downSrc, hp, SV] at h1
    rcases h1.2 with h' | h'
    · cases h'
    · exact h'

/-- **EOF arrives after ALL the data** (client → server direction).  Once the server's wrapper has
processed the flow's EOF (`shut_read` on its mux side) and has not yet shut the destination
socket: no DATA of the flow is still in flight, the client's buffer is empty, and everything
read from the application is exactly what the destination received followed by what the server
still buffers for it — nothing was lost on the way.  The shutdown of the destination through
the end-of-stream path (`copy_to`: `if not self.buf and self.shut_read: nowrite()`) happens
when that buffer is empty, i.e. with every byte delivered (`C02_eof_shutdown_complete`). -/
theorem C02_eof_after_data_up :
    ∀ f ∈ (w0.run steps).flows, ∀ p, f.s = some p → p.mw.shutR = true → f.dst.sawShut = false →
      dataOf f.chan (w0.run steps).cm.out = [] ∧ (upSrc (w0.run steps).cm f).buf = [] ∧
      f.app.consumed = f.dst.delivered ++ p.mw.buf.flatten := by
  intro f hf p hp hr hs
  have h := reach_flowOK w0 h0 steps hg hn halive f hf
  have hb : upSink f = KV p.sw p.mw p.ok f.dst := by simp only [upSink, hp]
  have hg' := h.up.gone (by rw [hb]; rfl) (Or.inr (by rw [hb]; exact hr))
  rw [hb] at hg'
  rcases hg' with h' | ⟨hnm, hd⟩
  · simp only [KV] at h'; rw [hs] at h'; cases h'
  · have hbuf : (upSrc (w0.run steps).cm f).buf = [] := by
      rcases hnm.2 with h' | h'
      · exact h.up.srcBuf h'
      · exact h'.2.1
    rw [upSrc_out] at hd
    refine ⟨hd, hbuf, ?_⟩
    rcases h.up.exact with h' | he
    · rw [hb] at h'; simp only [KV] at h'; rw [hs] at h'; cases h'
    · have e3 : (upSrc (w0.run steps).cm f).consumed = f.app.consumed := by unfold upSrc; split <;> rfl
      rw [hb, upSrc_out, hd, hbuf, e3] at he
      simpa [KV] using he

/-- The same for the server → client direction. -/
theorem C02_eof_after_data_down :
    ∀ f ∈ (w0.run steps).flows, ∀ p, f.c = some p → p.mw.shutR = true → f.app.sawShut = false →
      dataOf f.chan (w0.run steps).sm.out = [] ∧ (downSrc (w0.run steps).sm f).buf = [] ∧
      f.dst.consumed = f.app.delivered ++ p.mw.buf.flatten := by
  intro f hf p hp hr hs
  have h := reach_flowOK w0 h0 steps hg hn halive f hf
  have hb : downSink f = KV p.sw p.mw p.ok f.app := by simp only [downSink, hp]
  have hg' := h.down.gone (by rw [hb]; rfl) (Or.inr (by rw [hb]; exact hr))
  rw [hb] at hg'
  rcases hg' with h' | ⟨hnm, hd⟩
  · simp only [KV] at h'; rw [hs] at h'; cases h'
  · have hbuf : (downSrc (w0.run steps).sm f).buf = [] := by
      rcases hnm.2 with h' | h'
      · exact h.down.srcBuf h'
      · exact h'.2.1
    rw [downSrc_out] at hd
    refine ⟨hd, hbuf, ?_⟩
    rcases h.down.exact with h' | he
    · rw [hb] at h'; simp only [KV] at h'; rw [hs] at h'; cases h'
    · have e3 : (downSrc (w0.run steps).sm f).consumed = f.dst.consumed := by unfold downSrc; split <;> rfl
      rw [hb, downSrc_out, hd, hbuf, e3] at he
      simpa [KV] using he

/-- **No discard before the peer endpoint is shut.**  While the destination socket is open, a
client handler whose mux side is shut for writing got there by its own EOF: its buffer is empty
and it has stopped reading — it was not told to stop, so it never threw bytes away. -/
theorem C02_no_discard_before_shutdown :
    ∀ f ∈ (w0.run steps).flows,
      (f.dst.sawShut = false → ∀ p, f.c = some p → p.mw.shutW = true → p.sw.buf.flatten = [] ∧ p.sw.shutR = true) ∧
      (f.app.sawShut = false → ∀ p, f.s = some p → p.mw.shutW = true → p.sw.buf.flatten = [] ∧ p.sw.shutR = true) := by
  intro f hf
  have h := reach_flowOK w0 h0 steps hg hn halive f hf
  constructor
  · intro hs p hp hw
    have e2 : (upSink f).sawShut = f.dst.sawShut := by unfold upSink; split <;> rfl
    have := h.up.nl1 (by rw [e2]; exact hs) (by simp [upSrc, hp, SV]) (by simp [upSrc, hp, SV, hw])
    simpa [upSrc, hp, SV] using this
  · intro hs p hp hw
    have e2 : (downSink f).sawShut = f.app.sawShut := by unfold downSink; split <;> rfl
    have := h.down.nl1 (by rw [e2]; exact hs) (by simp [downSrc, hp, SV]) (by simp [downSrc, hp, SV, hw])
    simpa [downSrc, hp, SV] using this

/-- **STOP_SENDING is sent only after the sender shut its own socket.**  A STOP_SENDING frame of a
flow in the server → client queue implies the destination socket was shut down (and
symmetrically): telling the peer to stop is never what makes data get lost for an endpoint that
could still receive it. -/
theorem C02_stop_only_after_shutdown :
    ∀ f ∈ (w0.run steps).flows,
      (hasStop f.chan (w0.run steps).sm.out = true → f.dst.sawShut = true) ∧
      (hasStop f.chan (w0.run steps).cm.out = true → f.app.sawShut = true) := by
  intro f hf
  have h := reach_flowOK w0 h0 steps hg hn halive f hf
  constructor
  · intro hst
    have hown := h.down.stopOk (by rw [downSrc_out]; exact hst)
    have e2 : (upSink f).sawShut = f.dst.sawShut := by unfold upSink; split <;> rfl
    rw [← e2]
    cases hcc : f.s with
    | none =>
      cases hev : f.sEver with
      | true => exact h.up.goneShut (by simp [upSink, hcc, goneSink, hev]) (by simp [upSink, hcc, goneSink])
      | false => simp only [downSrc, hcc, goneSrc, hev] at hown; cases hown
    | some q =>
      simp only [downSrc, hcc, SV] at hown
      exact h.up.shutOk (by simp [upSink, hcc, KV]) (by simp [upSink, hcc, KV]; exact hown)
  · intro hst
    have hown := h.up.stopOk (by rw [upSrc_out]; exact hst)
    have e2 : (downSink f).sawShut = f.app.sawShut := by unfold downSink; split <;> rfl
    rw [← e2]
    cases hcc : f.c with
    | none => exact h.down.goneShut (by simp [downSink, hcc, goneSink]) (by simp [downSink, hcc, goneSink])
    | some q =>
      simp only [upSrc, hcc, SV] at hown
      exact h.down.shutOk (by simp [downSink, hcc, KV]) (by simp [downSink, hcc, KV]; exact hown)

/-- **Half-close.**  The finished direction does not disturb the other one: with the client →
server direction completely closed (application closed, destination socket shut down), the
server → client direction still satisfies the full accounting of C01 as long as the
application's socket has not been shut — its bytes keep flowing, in order, without loss. -/
theorem C02_half_close :
    ∀ f ∈ (w0.run steps).flows, f.dst.sawShut = true → f.app.sawShut = false →
      f.dst.consumed = f.app.delivered ++ (downSink f).buf ++ dataOf f.chan (w0.run steps).sm.out ++
          (downSrc (w0.run steps).sm f).buf := by
  intro f hf _ hs
  rcases (C01_conservation w0 h0 steps hg hn halive f hf).2 with h | h
  · rw [hs] at h; cases h
  · exact h

/-- **A dead handler has shut its socket.**  A handler whose `ok` is False (it is about to be
dropped from the loop) has `shut_write` set on its socket wrapper, and the socket really was
shut down. -/
theorem C02_dead_handler_shut :
    ∀ f ∈ (w0.run steps).flows,
      (∀ p, f.c = some p → p.ok = false → p.sw.shutW = true ∧ f.app.sawShut = true) ∧
      (∀ p, f.s = some p → p.ok = false → p.sw.shutW = true ∧ f.dst.sawShut = true) := by
  intro f hf
  have h := reach_flowOK w0 h0 steps hg hn halive f hf
  constructor
  · intro p hp hok
    have hb : downSink f = KV p.sw p.mw p.ok f.app := by simp only [downSink, hp]
    have h1 := h.down.dead (by rw [hb]; rfl) (by rw [hb]; exact hok)
    have h2 := h.down.shutOk (by rw [hb]; rfl) h1
    rw [hb] at h1 h2
    exact ⟨h1, h2⟩
  · intro p hp hok
    have hb : upSink f = KV p.sw p.mw p.ok f.dst := by simp only [upSink, hp]
    have h1 := h.up.dead (by rw [hb]; rfl) (by rw [hb]; exact hok)
    have h2 := h.up.shutOk (by rw [hb]; rfl) h1
    rw [hb] at h1 h2
    exact ⟨h1, h2⟩

/-- **A dropped handler left no socket hanging.**  Whenever a flow's client handler is no longer
in the loop its application socket was shut down; whenever the server handler existed and is
gone, the destination socket was shut down. -/
theorem C02_dropped_handler_shut :
    ∀ f ∈ (w0.run steps).flows,
      (f.c = none → f.app.sawShut = true) ∧ (f.s = none → f.sEver = true → f.dst.sawShut = true) := by
  intro f hf
  have h := reach_flowOK w0 h0 steps hg hn halive f hf
  constructor
  · intro hc
    have hb : downSink f = goneSink true f.app := by simp only [downSink, hc]
    have := h.down.goneShut (by rw [hb]; rfl) (by rw [hb]; rfl)
    rw [hb] at this; exact this
  · intro hs hev
    have hb : upSink f = goneSink f.sEver f.dst := by simp only [upSink, hs]
    have := h.up.goneShut (by rw [hb]; exact hev) (by rw [hb]; rfl)
    rw [hb] at this; exact this

end

/-! ### dropping handlers, freeing identifiers (definitional facts of the loop model) -/

/-- The loop drops exactly the handlers whose `ok` is False. -/
theorem C02_remove_only_dead (w : World) (i : Nat) (f : Flow) (h : w.flows[i]? = some f) :
    w.rmC.flows[i]? = some (match f.c with
      | some p => if p.ok then f else { f with c := none }
      | none => f) := by
  simp only [World.rmC, List.getElem?_map, h, Option.map_some]
  cases f.c <;> rfl

/-- A flow whose client handler is gone or unregistered does not occupy its identifier: with
distinct flow ids, the allocator sees the id free again. -/
theorem C02_id_free_after_teardown (w : World) (c : Nat) (hx : c ∉ w.extraOcc)
    (h : ∀ f ∈ w.flows, f.chan = c → ∀ p, f.c = some p → p.mw.registered = false) :
    w.cOcc c = false := by
  unfold World.cOcc
  have h1 : w.extraOcc.contains c = false := by simpa using hx
  rw [h1, Bool.false_or]
  apply List.any_eq_false.mpr
  intro f hf
  cases hc : f.c with
  | none => simp
  | some p =>
    by_cases hch : f.chan = c
    · have := h f hf hch p hc
      simp [this]
    · simp [hch]


/-- **A finished handler frees its identifier at once, under every schedule** (no hypothesis on
the steps).  As soon as a handler's `ok` is False — before the loop has even dropped it — all four
shut flags are set, both buffers are empty, and the wrapper is unregistered from the Mux
(`channels[id] = None`): the allocator sees the id free, and late frames for it are dropped. -/
theorem C02_finished_frees_id (w0 : World) (h0 : w0.flows = []) (steps : List Step) :
    ∀ f ∈ (w0.run steps).flows,
      (∀ p, f.c = some p → p.ok = false → Dead p ∧ p.mw.registered = false) ∧
      (∀ p, f.s = some p → p.ok = false → Dead p ∧ p.mw.registered = false) := by
  intro f hf
  obtain ⟨hc, hs, _, _⟩ := reach_flowSock w0 h0 steps f hf
  exact ⟨fun p hp hok => ⟨(hc p hp).2 hok, ((hc p hp).2 hok).unregistered⟩,
         fun p hp hok => ⟨(hs p hp).2 hok, ((hs p hp).2 hok).unregistered⟩⟩



/-- **The end-of-stream path shuts the socket only when everything was written.**  If a
`MuxWrapper.copy_to(SockWrapper)` without a socket fault (the send was accepted or would block)
shuts down a socket that was open, then the wrapper had received EOF and its buffer is empty
afterwards.  With `C02_eof_after_data_up/_down`: at that moment the endpoint has received
exactly the bytes its peer wrote before closing. -/
theorem C02_eof_shutdown_complete (w : MuxW) (s : SockW) (e : ESock) (r : SendRes) (se : Bool)
    (hs : e.sawShut = false) (hr : (∃ n, r = .sent n) ∨ r = .eagain)
    (hres : (muxCopyToSock w s e r se).2.2.sawShut = true) :
    w.shutR = true ∧ (muxCopyToSock w s e r se).1.buf = [] := by
  have huw : ∀ b, (s.uwrite e b r se).2.2.sawShut = false := by
    intro b
    unfold SockW.uwrite
    split
    · exact hs
    · simp only [hs, Bool.false_eq_true, ↓reduceIte]
      rcases hr with ⟨n, hn⟩ | hn
      · subst hn; rfl
      · subst hn; exact hs
  have tail : ∀ x : MuxW × SockW × ESock, x.1.shutR = w.shutR → x.2.2.sawShut = false →
      (if ({ x.1 with buf := popEmpty x.1.buf } : MuxW).buf.isEmpty && ({ x.1 with buf := popEmpty x.1.buf } : MuxW).shutR then
          (({ x.1 with buf := popEmpty x.1.buf } : MuxW), (x.2.1.nowrite x.2.2 se).1, (x.2.1.nowrite x.2.2 se).2)
        else (({ x.1 with buf := popEmpty x.1.buf } : MuxW), x.2.1, x.2.2)).2.2.sawShut = true →
      w.shutR = true ∧
      (if ({ x.1 with buf := popEmpty x.1.buf } : MuxW).buf.isEmpty && ({ x.1 with buf := popEmpty x.1.buf } : MuxW).shutR then
          (({ x.1 with buf := popEmpty x.1.buf } : MuxW), (x.2.1.nowrite x.2.2 se).1, (x.2.1.nowrite x.2.2 se).2)
        else (({ x.1 with buf := popEmpty x.1.buf } : MuxW), x.2.1, x.2.2)).1.buf = [] := by
    intro x hw1 he1 h
    by_cases hc : (({ x.1 with buf := popEmpty x.1.buf } : MuxW).buf.isEmpty &&
        ({ x.1 with buf := popEmpty x.1.buf } : MuxW).shutR) = true
    · rw [if_pos hc]
      simp only [Bool.and_eq_true, List.isEmpty_iff] at hc
      exact ⟨by rw [← hw1]; exact hc.2, hc.1⟩
    · rw [if_neg hc] at h
      simp only at h
      rw [he1] at h; cases h
  revert hres
  unfold muxCopyToSock
  cases hb : w.buf with
  | nil => exact tail (w, s, e) rfl hs
  | cons b rest =>
    simp only
    by_cases hbe : b.isEmpty = true
    · simp only [hbe, ↓reduceIte]; exact tail (w, s, e) rfl hs
    · simp only [hbe, Bool.false_eq_true, ↓reduceIte]
      have hu := huw b
      generalize s.uwrite e b r se = u at hu
      obtain ⟨on, s1, e1⟩ := u
      cases on with
      | none => exact tail (w, s1, e1) rfl hu
      | some n => exact tail ({ w with buf := b.drop n :: rest }, s1, e1) rfl hu


/-! ### no stuck state: a quiet state is a complete state -/

/-- Nothing left to do for one handler: not connecting, both buffers empty, nothing to read (or
reading already stopped), and every flag that `callback` / `pre_select` would propagate has been
propagated.  (`ok` is deliberately absent: a completely shut handler keeps `ok = True` until its
next callback, and `pre_select` registers nothing for it, so the real loop can rest in such a
state until other tunnel traffic arrives.) -/
def HQ (h : Option ProxyS) (e : ESock) : Prop :=
  ∀ p, h = some p →
    p.sw.connecting = false ∧ p.sw.buf.flatten = [] ∧ p.mw.buf.flatten = [] ∧
    (p.sw.shutR = false → e.pending = [] ∧ e.eofIn = false) ∧
    (p.sw.shutR = true → p.mw.shutW = true) ∧ (p.mw.shutR = true → p.sw.shutW = true) ∧
    (p.sw.shutW = true → p.mw.shutR = true) ∧ (p.mw.shutW = true → p.sw.shutR = true)

/-- A quiet world: both frame queues drained and nothing left to do for any handler. -/
def Quiet (w : World) : Prop :=
  w.cm.out = [] ∧ w.sm.out = [] ∧ ∀ f ∈ w.flows, HQ f.c f.app ∧ HQ f.s f.dst


theorem hqB_iff (h : Option ProxyS) (e : ESock) : hqB h e = true ↔ HQ h e := by
  cases h with
  | none => simp [hqB, HQ]
  | some p =>
    simp only [hqB, HQ, Option.some.injEq, forall_eq', Bool.and_eq_true, Bool.or_eq_true, Bool.not_eq_eq_eq_not,
      Bool.not_true, List.isEmpty_iff, Bool.not_eq_true']
    constructor
    · rintro ⟨⟨⟨⟨⟨⟨⟨a1, a2⟩, a3⟩, a4⟩, a5⟩, a6⟩, a7⟩, a8⟩
      refine ⟨a1, a2, a3, ?_, ?_, ?_, ?_, ?_⟩
      · intro hr; rcases a4 with h' | h'
        · rw [hr] at h'; cases h'
        · exact h'
      · intro hr; rcases a5 with h' | h'
        · rw [hr] at h'; cases h'
        · exact h'
      · intro hr; rcases a6 with h' | h'
        · rw [hr] at h'; cases h'
        · exact h'
      · intro hr; rcases a7 with h' | h'
        · rw [hr] at h'; cases h'
        · exact h'
      · intro hr; rcases a8 with h' | h'
        · rw [hr] at h'; cases h'
        · exact h'
    · rintro ⟨a1, a2, a3, a4, a5, a6, a7, a8⟩
      refine ⟨⟨⟨⟨⟨⟨⟨a1, a2⟩, a3⟩, ?_⟩, ?_⟩, ?_⟩, ?_⟩, ?_⟩
      · cases hr : p.sw.shutR with
        | true => exact Or.inl rfl
        | false => exact Or.inr (a4 hr)
      · cases hr : p.sw.shutR with
        | true => exact Or.inr (a5 hr)
        | false => exact Or.inl rfl
      · cases hr : p.mw.shutR with
        | true => exact Or.inr (a6 hr)
        | false => exact Or.inl rfl
      · cases hr : p.sw.shutW with
        | true => exact Or.inr (a7 hr)
        | false => exact Or.inl rfl
      · cases hr : p.mw.shutW with
        | true => exact Or.inr (a8 hr)
        | false => exact Or.inl rfl

/-- The driver's executable test is exactly `Quiet`. -/
theorem quietB_iff (w : World) : quietB w = true ↔ Quiet w := by
  simp only [quietB, Quiet, Bool.and_eq_true, List.isEmpty_iff, List.all_eq_true, hqB_iff, and_assoc]

/-- **No reachable quiet state is stuck.**  In every reachable state (any schedule) in which
nothing is pending — queues drained, buffers empty, nothing to read, every flag propagated — each
flow is complete:
* its server handler was created (no CONNECT was lost);
* while an endpoint's socket is open, it has received exactly what the tunnel read from the other
  endpoint (no undelivered data);
* an endpoint that closed (`eofIn`, everything read) has had its close delivered: the other
  endpoint's socket was shut down (no half-open flow);
* if both endpoints closed, both handlers are completely shut (all four flags): they are unregistered
  from the Mux — the id is free — and their next callback sets `ok = False`, after which the loop
  drops them.

`Quiet` is the explicit description of "a loop pass changes nothing"; that the real loop's
quiescent states satisfy it is checked on every run by the harness (the drained model state is
tested for `Quiet`), it is not a theorem. -/
theorem C02_quiet_complete (w0 : World) (h0 : Fresh w0) (steps : List Step)
    (hg : ∀ st ∈ steps, GoodStep st) (hn : (chans (w0.run steps)).Nodup)
    (halive : (w0.run steps).died = none) (hq : Quiet (w0.run steps)) :
    ∀ f ∈ (w0.run steps).flows,
      f.sEver = true ∧
      (f.dst.sawShut = false → f.app.consumed = f.dst.delivered) ∧
      (f.app.sawShut = false → f.dst.consumed = f.app.delivered) ∧
      (f.app.eofIn = true → f.app.pending = [] → f.dst.sawShut = true) ∧
      (f.dst.eofIn = true → f.dst.pending = [] → f.app.sawShut = true) ∧
      (f.app.eofIn = true → f.app.pending = [] → f.dst.eofIn = true → f.dst.pending = [] →
        (∀ p, f.c = some p → p.sw.shutR = true ∧ p.sw.shutW = true ∧ p.mw.shutR = true ∧ p.mw.shutW = true ∧
            p.mw.registered = false) ∧
        (∀ p, f.s = some p → p.sw.shutR = true ∧ p.sw.shutW = true ∧ p.mw.shutR = true ∧ p.mw.shutW = true ∧
            p.mw.registered = false)) := by
  intro f hf
  obtain ⟨hqc, hqs, hqf⟩ := hq
  obtain ⟨hQc, hQs⟩ := hqf f hf
  have hfo := reach_flowOK w0 h0 steps hg hn halive f hf
  have hsock := (h0.runInv.run steps hg hn).2.1 f hf
  have eU2 : (upSink f).sawShut = f.dst.sawShut := by unfold upSink; split <;> rfl
  have eD2 : (downSink f).sawShut = f.app.sawShut := by unfold downSink; split <;> rfl
  -- (0) the server handler exists or existed
  have hev : f.sEver = true := by
    cases he : f.sEver with
    | true => rfl
    | false =>
      exfalso
      have hsn : f.s = none := by
        cases hs : f.s with
        | none => rfl
        | some q => have := (hfo.schan q hs).2.2; rw [he] at this; cases this
      have := (hfo.up.conn (by simp [upSink, hsn, goneSink, he])).2
      rw [upSrc_out, hqc] at this
      exact this
  -- buffers and queues are empty
  have bufU : (upSink f).buf = [] ∧ (upSrc (w0.run steps).cm f).buf = [] := by
    constructor
    · cases hs : f.s with
      | none => simp [upSink, hs, goneSink]
      | some q => simp only [upSink, hs, KV]; exact (hQs q hs).2.2.1
    · cases hc : f.c with
      | none => simp [upSrc, hc, goneSrc]
      | some p => simp only [upSrc, hc, SV]; exact (hQc p hc).2.1
  have bufD : (downSink f).buf = [] ∧ (downSrc (w0.run steps).sm f).buf = [] := by
    constructor
    · cases hc : f.c with
      | none => simp [downSink, hc, goneSink]
      | some p => simp only [downSink, hc, KV]; exact (hQc p hc).2.2.1
    · cases hs : f.s with
      | none => simp [downSrc, hs, goneSrc]
      | some q => simp only [downSrc, hs, SV]; exact (hQs q hs).2.1
  have cons := C01_conservation w0 h0 steps hg hn halive f hf
  -- a closed endpoint's handler is done as a source
  have nmU : f.app.eofIn = true → f.app.pending = [] → noMore (upSrc (w0.run steps).cm f) := by
    intro he hp
    cases hc : f.c with
    | none => exact ⟨by simp [upSrc, hc, goneSrc], Or.inl (by simp [upSrc, hc, goneSrc])⟩
    | some p =>
      obtain ⟨_, hb, _, h4, h5, _⟩ := hQc p hc
      have hr : p.sw.shutR = true := by
        cases hr : p.sw.shutR with
        | true => rfl
        | false => have := (h4 hr).2; rw [he] at this; cases this
      exact ⟨by simp [upSrc, hc, SV], Or.inr (by simp only [upSrc, hc, SV]; exact ⟨h5 hr, hb, hr⟩)⟩
  have nmD : f.dst.eofIn = true → f.dst.pending = [] → noMore (downSrc (w0.run steps).sm f) := by
    intro he hp
    cases hs : f.s with
    | none => exact ⟨by simp [downSrc, hs, goneSrc, hev], Or.inl (by simp [downSrc, hs, goneSrc])⟩
    | some q =>
      obtain ⟨_, hb, _, h4, h5, _⟩ := hQs q hs
      have hr : q.sw.shutR = true := by
        cases hr : q.sw.shutR with
        | true => rfl
        | false => have := (h4 hr).2; rw [he] at this; cases this
      exact ⟨by simp [downSrc, hs, SV], Or.inr (by simp only [downSrc, hs, SV]; exact ⟨h5 hr, hb, hr⟩)⟩
  -- the close of one endpoint has reached the other one
  have closeU : f.app.eofIn = true → f.app.pending = [] → f.dst.sawShut = true := by
    intro he hp
    rw [← eU2]
    rcases hfo.up.eofSeen (nmU he hp) with hh | ⟨_, hm⟩ | hs
    · rw [upSrc_out, hqc] at hh; simp [hasEof] at hh
    · cases hs : f.s with
      | none => exact hfo.up.goneShut (by simp [upSink, hs, goneSink, hev]) (by simp [upSink, hs, goneSink])
      | some q =>
        have hm' : q.mw.shutR = true := by simpa [upSink, hs, KV] using hm
        have hw := (hQs q hs).2.2.2.2.2.1 hm'
        exact hfo.up.shutOk (by simp [upSink, hs, KV]) (by simp [upSink, hs, KV]; exact hw)
    · exact hs
  have closeD : f.dst.eofIn = true → f.dst.pending = [] → f.app.sawShut = true := by
    intro he hp
    rw [← eD2]
    rcases hfo.down.eofSeen (nmD he hp) with hh | ⟨_, hm⟩ | hs
    · rw [downSrc_out, hqs] at hh; simp [hasEof] at hh
    · cases hc : f.c with
      | none => exact hfo.down.goneShut (by simp [downSink, hc, goneSink]) (by simp [downSink, hc, goneSink])
      | some p =>
        have hm' : p.mw.shutR = true := by simpa [downSink, hc, KV] using hm
        have hw := (hQc p hc).2.2.2.2.2.1 hm'
        exact hfo.down.shutOk (by simp [downSink, hc, KV]) (by simp [downSink, hc, KV]; exact hw)
    · exact hs
  refine ⟨hev, ?_, ?_, closeU, closeD, ?_⟩
  · intro hs
    rcases cons.1 with h | h
    · rw [hs] at h; cases h
    · rw [bufU.1, bufU.2, hqc] at h; simpa [dataOf] using h
  · intro hs
    rcases cons.2 with h | h
    · rw [hs] at h; cases h
    · rw [bufD.1, bufD.2, hqs] at h; simpa [dataOf] using h
  · intro a1 a2 d1 d2
    have sD := closeU a1 a2
    have sA := closeD d1 d2
    constructor
    · intro p hc
      obtain ⟨_, _, _, h4, h5, _, h7, _⟩ := hQc p hc
      have hr : p.sw.shutR = true := by
        cases hr : p.sw.shutR with
        | true => rfl
        | false => have := (h4 hr).2; rw [a1] at this; cases this
      have hw : p.sw.shutW = true := ((hsock.1 p hc).1.2).mpr sA
      exact ⟨hr, hw, h7 hw, h5 hr, by simp [MuxW.registered, h7 hw, h5 hr]⟩
    · intro q hs
      obtain ⟨_, _, _, h4, h5, _, h7, _⟩ := hQs q hs
      have hr : q.sw.shutR = true := by
        cases hr : q.sw.shutR with
        | true => rfl
        | false => have := (h4 hr).2; rw [d1] at this; cases this
      have hw : q.sw.shutW = true := ((hsock.2.1 q hs).1.2).mpr sD
      exact ⟨hr, hw, h7 hw, h5 hr, by simp [MuxW.registered, h7 hw, h5 hr]⟩

/-! ### non-vacuity -/

def demo2 : List Step :=
  [.accept, .deliver .server .ok, .appWrite 0 [1, 2, 3], .appEof 0,
   .cb .client 0 { recv := .data 65536 }, .cb .client 0 { recv := .data 65536 },
   .deliver .server .ok, .deliver .server .ok]

/-- A reachable state meeting the hypotheses of `C02_eof_after_data_up`: the server has processed
the EOF, has not shut the destination yet and still buffers the three bytes; one more callback
delivers them and only then shuts the socket down. -/
example :
    let w : World := ({} : World).run demo2
    Fresh ({} : World) ∧ (∀ st ∈ demo2, GoodStep st) ∧ (chans w).Nodup ∧ w.died = none ∧
    (w.flows.map fun f => ((f.s.map fun p => (p.mw.shutR, p.mw.buf)), f.dst.sawShut, f.app.consumed)) =
      [(some (true, [[1, 2, 3]]), false, [1, 2, 3])] ∧
    ((w.step (.cb .server 0 { send := .sent 65536 })).flows.map fun f => (f.dst.sawShut, f.dst.delivered)) =
      [(true, [1, 2, 3])] := by
  refine ⟨⟨rfl, by decide, by decide⟩, (by intro st hst; simp only [demo2, List.mem_cons, List.not_mem_nil, or_false] at hst; rcases hst with h | h | h | h | h | h | h | h <;> subst h <;> trivial), by decide +kernel, by decide +kernel, by decide +kernel,
    by decide +kernel⟩


/-! ### No lost wake-up: what a handler registers for is what its callback then does -/

/-- The handler asks for the tunnel to be writable exactly when it holds bytes for it and the
tunnel is not paused; the callback it then gets puts at least one more frame on the tunnel. -/
theorem C02_wakeup_send (p : ProxyS) (m : MuxL) (e : ESock) (io : CbIo) (p' : ProxyS) (m' : MuxL) (e' : ESock)
    (b : Bytes) (rest : List Bytes) (hw : (p.wants m).2.2 = true)
    (hb : p.sw.buf = b :: rest) (hne : b.isEmpty = false)
    (h : p.callback m e io = .ok p' m' e') :
    m'.out.length > m.out.length := by
  obtain ⟨hc, _, ht⟩ := (wants_muxW p m).mp hw
  exact callback_sends p m e io p' m' e' b rest hc hb hne ht h

/-- The handler asks for its socket to be readable exactly when it could read (not connecting,
nothing buffered, not stopped); when the endpoint then has bytes or has closed, the callback
consumes at least one byte or records the end-of-stream. -/
theorem C02_wakeup_read (p : ProxyS) (m : MuxL) (e : ESock) (io : CbIo) (p' : ProxyS) (m' : MuxL) (e' : ESock)
    (n : Nat) (hw : (p.wants m).1 = true) (hrecv : io.recv = .data n)
    (hav : e.pending ≠ [] ∨ e.eofIn = true)
    (h : p.callback m e io = .ok p' m' e') :
    e'.consumed.length > e.consumed.length ∨ p'.sw.shutR = true := by
  obtain ⟨hc, hbe, hr⟩ := (wants_sockR p m).mp hw
  exact callback_reads p m e io p' m' e' n hc (List.isEmpty_iff.mp hbe) hr hrecv hav h

/-- The handler asks for its socket to be writable whenever it holds bytes for it; when the
socket then takes bytes, the callback delivers at least one, or — the socket having been shut
down — drops what it holds, so that it stops asking. -/
theorem C02_wakeup_deliver (p : ProxyS) (m : MuxL) (e : ESock) (io : CbIo) (p' : ProxyS) (m' : MuxL) (e' : ESock)
    (n : Nat) (b : Bytes) (rest : List Bytes) (hse : SE p.sw e) (hc : p.sw.connecting = false)
    (hb : p.mw.buf = b :: rest) (hne : b.isEmpty = false) (hsend : io.send = .sent n) (hn : n ≥ 1)
    (h : p.callback m e io = .ok p' m' e') :
    (p.wants m).2.1 = true ∧
    (e'.delivered.length > e.delivered.length ∨ (e'.sawShut = true ∧ p'.mw.buf = [])) := by
  refine ⟨(wants_sockW p m).mpr (Or.inr (by rw [hb]; rfl)), ?_⟩
  exact callback_delivers p m e io p' m' e' n b rest hse hc hb hne hsend hn h

/-- A handler that registers for nothing has nothing it could do: it is not connecting, holds
nothing for its socket, and either has stopped reading or holds bytes for a paused tunnel. -/
theorem C02_nothing_wanted_nothing_possible (p : ProxyS) (m : MuxL)
    (h : p.wants m = (false, false, false)) :
    p.sw.connecting = false ∧ p.mw.buf = [] ∧
    (p.sw.buf = [] → p.sw.shutR = true) ∧ (p.sw.buf ≠ [] → m.tooFull = true) := by
  have h1 : (p.wants m).1 = false := by rw [h]
  have h2 : (p.wants m).2.1 = false := by rw [h]
  have h3 : (p.wants m).2.2 = false := by rw [h]
  have n2 : ¬ (p.sw.connecting = true ∨ p.mw.buf.isEmpty = false) := by
    intro hx; rw [(wants_sockW p m).mpr hx] at h2; cases h2
  have hc : p.sw.connecting = false := by
    cases hcc : p.sw.connecting with
    | false => rfl
    | true => exact absurd (Or.inl hcc) n2
  have hmb : p.mw.buf = [] := by
    cases hbb : p.mw.buf with
    | nil => rfl
    | cons a r => exact absurd (Or.inr (by rw [hbb]; rfl)) n2
  refine ⟨hc, hmb, ?_, ?_⟩
  · intro hb
    cases hr : p.sw.shutR with
    | true => rfl
    | false =>
      have := (wants_sockR p m).mpr ⟨hc, by rw [hb]; rfl, hr⟩
      rw [this] at h1; cases h1
  · intro hb
    cases ht : m.tooFull with
    | true => rfl
    | false =>
      have hne : p.sw.buf.isEmpty = false := by
        cases hbb : p.sw.buf with
        | nil => exact absurd hbb hb
        | cons a r => rfl
      have := (wants_muxW p m).mpr ⟨hc, hne, ht⟩
      rw [this] at h3; cases h3

/-- **A finished flow is noticed by the callback that finishes it.**  After every `Proxy.callback`
nothing is left for the next `pre_select` to propagate (`shut_write` on one wrapper already means
`shut_read` on the other), so a handler whose two writers are shut and whose buffers are empty has
been marked `ok = False` by that very callback — the select loop drops it at the start of its next
pass instead of at some later, unrelated wake-up. -/
theorem C02_finished_noticed_in_callback (p : ProxyS) (m : MuxL) (e : ESock) (io : CbIo)
    (p' : ProxyS) (m' : MuxL) (e' : ESock) (h : p.callback m e io = .ok p' m' e') :
    (p'.preSelectFlags m').1 = p' ∧
    (p'.sw.shutW = true → p'.mw.shutW = true → p'.sw.buf = [] → p'.mw.buf = [] → p'.ok = false) := by
  obtain ⟨⟨h1, h2⟩, h3⟩ := callback_settled p m e io p' m' e' h
  refine ⟨?_, h3⟩
  obtain ⟨⟨sb, sr, sw, sc, sx⟩, ⟨wc, wb, wr, ww⟩, pok, sf⟩ := p'
  simp only at h1 h2
  cases sf <;> cases sw <;> cases ww <;> cases wr <;> cases sr <;>
    simp_all [ProxyS.preSelectFlags, MuxW.noread, SockW.noread]

/-! ### No stuck state: a world in which the loop's own moves change nothing is quiet -/

theorem step_fix {w : World} {st : Step} (hd : w.died = none) (h : w.step st = w) : w.stepRaw st = w := by
  unfold World.step at h
  simp only [hd, Option.isSome_none, Bool.false_eq_true, ↓reduceIte] at h
  by_cases hs : (w.stepRaw st).died.isSome = true
  · rw [if_pos hs] at h
    have : w.died = (w.stepRaw st).died := by
      have := congrArg World.died h
      simpa using this.symm
    rw [hd] at this; rw [← this] at hs; cases hs
  · rw [if_neg hs] at h; exact h

theorem handler_fix_quiet (p : ProxyS) (m : MuxL) (e : ESock) (hse : SE p.sw e) (htf : m.tooFull = false)
    (h : p.callback m e fullIo = .ok p m e) : HQ (some p) e := by
  intro q hq
  injection hq with hq; subst hq
  obtain ⟨a1, a2, a3, a4, a5, a6, a7, a8⟩ := callback_fixpoint p m e hse htf h
  exact ⟨a1, by rw [a2]; rfl, by rw [a3]; rfl, a4, a5, a6, a7, a8⟩

/-- **No stuck state.**  Take any reachable, alive world (any schedule, any faults, any number of
flows, latency control on or off).  If none of the select loop's own moves changes it — delivering
the next frame in either direction, and a callback of any handler on either end with every socket
ready — then the world is `Quiet`; by `C02_quiet_complete` everything written has then been
delivered, every close has been passed on and finished flows are completely shut.  Equivalently:
in every reachable state that is not yet complete, some move of the loop makes a difference. -/
theorem C02_no_stuck_state (w0 : World) (h0 : w0.flows = []) (hf : w0.cm.tooFull = false ∧ w0.sm.tooFull = false)
    (steps : List Step) (hd : (w0.run steps).died = none)
    (hdc : (w0.run steps).step (.deliver .client .ok) = w0.run steps)
    (hds : (w0.run steps).step (.deliver .server .ok) = w0.run steps)
    (hcb : ∀ e i, (w0.run steps).step (.cb e i fullIo) = w0.run steps) :
    Quiet (w0.run steps) := by
  have hfs := reach_flowSock w0 h0 steps
  have hdrain := C09_drained_not_full w0 hf steps
  generalize w0.run steps = w at hd hdc hds hcb hfs hdrain
  have hcm : w.cm.out = [] := by
    have hr := step_fix hd hds
    simp only [World.stepRaw] at hr
    rcases deliverS_mux w .ok with ⟨_, _, h⟩ | ⟨fr, rest, ho, hc, _⟩
    · exact h
    · exfalso
      rw [hr] at hc
      have := congrArg MuxL.out hc
      rw [ho] at this
      simp only at this
      have hl := congrArg List.length this
      simp at hl
  have hsm : w.sm.out = [] := by
    have hr := step_fix hd hdc
    simp only [World.stepRaw] at hr
    rcases deliverC_mux w with ⟨_, _, h⟩ | ⟨fr, rest, ho, hc, _⟩
    · exact h
    · exfalso
      rw [hr] at hc
      have := congrArg MuxL.out hc
      rw [ho] at this
      simp only at this
      have hl := congrArg List.length this
      simp at hl
  obtain ⟨htc, hts⟩ := hdrain hcm hsm
  refine ⟨hcm, hsm, ?_⟩
  intro f hfm
  obtain ⟨i, hi⟩ := List.getElem?_of_mem hfm
  obtain ⟨fs1, fs2, _, _⟩ := hfs f hfm
  constructor
  · intro p hp
    have hr := step_fix hd (hcb .client i)
    simp only [World.stepRaw, World.cbC, hi, hp] at hr
    cases hcbk : p.callback w.cm f.app fullIo with
    | died =>
      rw [hcbk] at hr
      have := congrArg World.died hr
      simp only at this
      rw [hd] at this; cases this
    | ok p' m' e' =>
      rw [hcbk] at hr
      have h1 : m' = w.cm := by simpa using congrArg World.cm hr
      have h2 := congrArg (fun x => x.flows[i]?) hr
      simp only [modifyAt_getElem?, ↓reduceIte, hi, Option.map_some, Option.some.injEq] at h2
      have h3 : p' = p := by
        have := congrArg Flow.c h2
        simp only [hp, Option.some.injEq] at this
        exact this
      have h4 : e' = f.app := by simpa using congrArg Flow.app h2
      subst h1; subst h3; subst h4
      exact handler_fix_quiet _ _ _ (fs1 _ hp).1 htc hcbk _ rfl
  · intro p hp
    have hr := step_fix hd (hcb .server i)
    simp only [World.stepRaw, World.cbS, hi, hp] at hr
    cases hcbk : p.callback w.sm f.dst fullIo with
    | died =>
      rw [hcbk] at hr
      have := congrArg World.died hr
      simp only at this
      rw [hd] at this; cases this
    | ok p' m' e' =>
      rw [hcbk] at hr
      have h1 : m' = w.sm := by simpa using congrArg World.sm hr
      have h2 := congrArg (fun x => x.flows[i]?) hr
      simp only [modifyAt_getElem?, ↓reduceIte, hi, Option.map_some, Option.some.injEq] at h2
      have h3 : p' = p := by
        have := congrArg Flow.s h2
        simp only [hp, Option.some.injEq] at this
        exact this
      have h4 : e' = f.dst := by simpa using congrArg Flow.dst h2
      subst h1; subst h3; subst h4
      exact handler_fix_quiet _ _ _ (fs2 _ hp).1 hts hcbk _ rfl

/-! ### Bounded work: every move of the loop that changes anything uses up some of a finite measure -/

/-- One move of the select loop (a callback of any handler with any socket behaviour, any fault
included; `pre_select`; the delivery of the next frame in either direction; dropping finished
handlers) either leaves the world exactly as it was or strictly decreases `worldMu` — the weighted
count of bytes still on their way, frames queued, flags still to be set and handlers still
registered. -/
theorem loop_step_dec (w : World) (st : Step) (hm : LoopMove st) :
    Dec (worldMu w) (worldMu (w.step st)) (w.step st = w) := by
  unfold World.step
  cases hd : w.died with
  | some msg => simp only [Option.isSome_some, ↓reduceIte]; right; constructor <;> first | rfl | trivial
  | none =>
    simp only [Option.isSome_none, Bool.false_eq_true, ↓reduceIte]
    cases hd' : (w.stepRaw st).died with
    | some msg =>
      simp only [Option.isSome_some, ↓reduceIte]
      left
      simp only [worldMu, hd, Option.isSome_some, Option.isSome_none, Bool.false_eq_true, ↓reduceIte]
      omega
    | none =>
      simp only [Option.isSome_none, Bool.false_eq_true, ↓reduceIte]
      cases st with
      | cb e i io =>
        cases e
        · exact cbC_dec w i io hd hd'
        · exact cbS_dec w i io hd hd'
      | pre e i =>
        cases e
        · exact preC_dec w i hd
        · exact preS_dec w i hd
      | deliver e conn =>
        cases e
        · exact deliverC_dec w hd hd'
        · exact deliverS_dec w conn hd hd'
      | removeDead e =>
        cases e
        · exact rmC_dec w
        · exact rmS_dec w
      | accept => cases hm
      | checkFull e => cases hm
      | foreign e f => cases hm
      | appWrite i b => cases hm
      | appEof i => cases hm
      | dstWrite i b => cases hm
      | dstEof i => cases hm

/-- Every move of the list changes the world it is applied to. -/
def Effective : World → List Step → Prop
  | _, [] => True
  | w, st :: rest => w.step st ≠ w ∧ Effective (w.step st) rest

/-- **Bounded work.**  From ANY world (reachable or not, any number of flows, any buffered data,
faults in any callback), a sequence of moves of the select loop in which every move changes
something is at most `worldMu w` long.  In particular, once the endpoints have stopped writing
and no new connection arrives, the loop cannot go on changing the state for ever: after at most
`worldMu w` effective moves it reaches a world that none of its moves changes — which, for a
reachable alive world, is `Quiet` and therefore complete (`C02_no_stuck_state`,
`C02_stuck_is_complete`): everything written has been delivered, every close passed on, finished
flows shut on all four sides and unregistered. -/
theorem C02_bounded_work (w : World) (steps : List Step) (hall : ∀ st ∈ steps, LoopMove st)
    (heff : Effective w steps) : steps.length ≤ worldMu w := by
  induction steps generalizing w with
  | nil => exact Nat.zero_le _
  | cons st rest ih =>
    obtain ⟨hne, hrest⟩ := heff
    have hd := loop_step_dec w st (hall st List.mem_cons_self)
    have hlt : worldMu (w.step st) < worldMu w := by
      rcases hd with h | ⟨_, h⟩
      · exact h
      · exact absurd h hne
    have := ih (w.step st) (fun s hs => hall s (List.mem_cons_of_mem _ hs)) hrest
    simp only [List.length_cons]
    omega

/-- **Every maximal run of effective loop moves is short and ends complete.**  Start from any
reachable world (`pre` is an arbitrary history: connections opened, data written, closes, faults);
let the select loop then make moves that each change something, until none of its moves changes
anything any more.  That run is at most `worldMu` (of its starting world) long, and the world it
ends in is `Quiet` — everything delivered, every close passed on (`C02_quiet_complete`). -/
theorem C02_maximal_run_completes (w0 : World) (h0 : w0.flows = [])
    (hf : w0.cm.tooFull = false ∧ w0.sm.tooFull = false) (pre steps : List Step)
    (hall : ∀ st ∈ steps, LoopMove st) (heff : Effective (w0.run pre) steps)
    (hd : ((w0.run pre).run steps).died = none)
    (hdc : ((w0.run pre).run steps).step (.deliver .client .ok) = (w0.run pre).run steps)
    (hds : ((w0.run pre).run steps).step (.deliver .server .ok) = (w0.run pre).run steps)
    (hcb : ∀ e i, ((w0.run pre).run steps).step (.cb e i fullIo) = (w0.run pre).run steps) :
    steps.length ≤ worldMu (w0.run pre) ∧ Quiet ((w0.run pre).run steps) := by
  refine ⟨C02_bounded_work (w0.run pre) steps hall heff, ?_⟩
  have hrun : (w0.run pre).run steps = w0.run (pre ++ steps) := by
    simp only [World.run, List.foldl_append]
  rw [hrun] at hd hdc hds hcb ⊢
  exact C02_no_stuck_state w0 h0 hf (pre ++ steps) hd hdc hds hcb

/-- The same with the conclusion spelled out — C01's "everything written before the close is
eventually delivered" and C02's teardown in one statement: after any history `pre`, let the loop run
effective moves until none is left; that takes at most `worldMu` moves, and then every endpoint
still open has received exactly what the tunnel read from its peer, and every close has reached the
other endpoint's socket. -/
theorem C02_maximal_run_delivers (w0 : World) (h0 : Fresh w0)
    (hf : w0.cm.tooFull = false ∧ w0.sm.tooFull = false) (pre steps : List Step)
    (hg : ∀ st ∈ pre ++ steps, GoodStep st) (hn : (chans (w0.run (pre ++ steps))).Nodup)
    (hall : ∀ st ∈ steps, LoopMove st) (heff : Effective (w0.run pre) steps)
    (hd : ((w0.run pre).run steps).died = none)
    (hdc : ((w0.run pre).run steps).step (.deliver .client .ok) = (w0.run pre).run steps)
    (hds : ((w0.run pre).run steps).step (.deliver .server .ok) = (w0.run pre).run steps)
    (hcb : ∀ e i, ((w0.run pre).run steps).step (.cb e i fullIo) = (w0.run pre).run steps) :
    steps.length ≤ worldMu (w0.run pre) ∧
    ∀ f ∈ ((w0.run pre).run steps).flows,
      (f.dst.sawShut = false → f.app.consumed = f.dst.delivered) ∧
      (f.app.sawShut = false → f.dst.consumed = f.app.delivered) ∧
      (f.app.eofIn = true → f.app.pending = [] → f.dst.sawShut = true) ∧
      (f.dst.eofIn = true → f.dst.pending = [] → f.app.sawShut = true) := by
  obtain ⟨hlen, hq⟩ := C02_maximal_run_completes w0 h0.1 hf pre steps hall heff hd hdc hds hcb
  refine ⟨hlen, ?_⟩
  have hrun : (w0.run pre).run steps = w0.run (pre ++ steps) := by
    simp only [World.run, List.foldl_append]
  rw [hrun] at hd hq ⊢
  intro f hfm
  obtain ⟨_, a, b, c, d, _⟩ := C02_quiet_complete w0 h0 (pre ++ steps) hg hn hd hq f hfm
  exact ⟨a, b, c, d⟩

/-- The measure never goes up along the loop's own moves, effective or not. -/
theorem C02_measure_monotone (w : World) (steps : List Step) (hall : ∀ st ∈ steps, LoopMove st) :
    worldMu (w.run steps) ≤ worldMu w := by
  induction steps generalizing w with
  | nil => exact Nat.le_refl _
  | cons st rest ih =>
    have hd := (loop_step_dec w st (hall st List.mem_cons_self)).le
    have := ih (w.step st) (fun s hs => hall s (List.mem_cons_of_mem _ hs))
    simp only [World.run, List.foldl_cons] at this ⊢
    omega

/-- The measure of the reachable state of `demo2` (three bytes buffered at the server, an
end-of-stream to pass on), and the effective moves that finish that direction. -/
example :
    worldMu (({} : World).run demo2) = 25 ∧
    Effective (({} : World).run demo2) [.cb .server 0 { send := .sent 65536 }] ∧
    worldMu ((({} : World).run demo2).run [.cb .server 0 { send := .sent 65536 }]) = 16 := by
  refine ⟨by decide +kernel, ⟨?_, trivial⟩, by decide +kernel⟩
  intro h
  have := congrArg (fun w => w.flows.map fun f => f.dst.delivered) h
  revert this
  decide +kernel

/-! ### The same at the level of the select loop: one pass in which the tunnel was readable -/

/-- What a handler looks like right after its own callback. -/
def Noticed (p : ProxyS) : Prop :=
  (Settled p ∧ (p.sw.shutW = true → p.mw.shutW = true → p.sw.buf = [] → p.mw.buf = [] → p.ok = false)) ∧
  EofUp p.sw p.mw ∧ EofDown p.sw p.mw

theorem cb_noticed (w : World) (e : End) (i : Nat) (io : CbIo) (hd : (w.stepRaw (.cb e i io)).died = none)
    (hd0 : w.died = none) (f : Flow) (p : ProxyS) (hf : (w.stepRaw (.cb e i io)).flows[i]? = some f)
    (hp : handlerAt e f = some p) (hi : ∃ f0, w.flows[i]? = some f0 ∧ (handlerAt e f0).isSome) : Noticed p := by
  obtain ⟨f0, hf0, hh0⟩ := hi
  cases e with
  | client =>
    simp only [World.stepRaw, World.cbC, hf0] at hd hf
    simp only [handlerAt] at hh0 hp
    cases hc : f0.c with
    | none => rw [hc] at hh0; cases hh0
    | some p0 =>
      rw [hc] at hd hf
      simp only at hd hf
      cases hcb : p0.callback w.cm f0.app io with
      | died => rw [hcb] at hd; simp at hd
      | ok p' m' e' =>
        rw [hcb] at hf
        simp only [modifyAt_getElem?, ↓reduceIte, hf0, Option.map_some, Option.some.injEq] at hf
        subst hf
        simp only [Option.some.injEq] at hp
        subst hp
        exact ⟨callback_settled p0 w.cm f0.app io _ m' e' hcb, callback_eof_post p0 w.cm f0.app io _ m' e' hcb⟩
  | server =>
    simp only [World.stepRaw, World.cbS, hf0] at hd hf
    simp only [handlerAt] at hh0 hp
    cases hc : f0.s with
    | none => rw [hc] at hh0; cases hh0
    | some p0 =>
      rw [hc] at hd hf
      simp only at hd hf
      cases hcb : p0.callback w.sm f0.dst io with
      | died => rw [hcb] at hd; simp at hd
      | ok p' m' e' =>
        rw [hcb] at hf
        simp only [modifyAt_getElem?, ↓reduceIte, hf0, Option.map_some, Option.some.injEq] at hf
        subst hf
        simp only [Option.some.injEq] at hp
        subst hp
        exact ⟨callback_settled p0 w.sm f0.dst io _ m' e' hcb, callback_eof_post p0 w.sm f0.dst io _ m' e' hcb⟩

theorem step_died_none {w : World} {st : Step} (h : (w.step st).died = none) :
    w.died = none ∧ w.step st = w.stepRaw st := by
  unfold World.step at h ⊢
  cases hw : w.died with
  | some m => rw [hw] at h; simp at h; rw [hw] at h; cases h
  | none =>
    refine ⟨rfl, ?_⟩
    simp only [Option.isSome_none, Bool.false_eq_true, ↓reduceIte] at h ⊢
    cases hr : (w.stepRaw st).died with
    | none => simp
    | some m => rw [hr] at h; simp [hw] at h

/-- **A pass of the loop in which the tunnel was readable leaves no finished flow unnoticed.**
After the callbacks of such a pass, for any per-socket behaviour, every handler of that end is
settled, and every handler whose two writers are shut and whose buffers are empty has `ok = False` —
so the loop drops it at the start of the very next pass. -/
theorem C02_pass_notices_finished (w : World) (e : End) (ios : Nat → CbIo) (k : Nat)
    (hd : (w.run (passCallbacks e ios k)).died = none) :
    ∀ i, i < k → ∀ f p, (w.run (passCallbacks e ios k)).flows[i]? = some f → handlerAt e f = some p → Noticed p := by
  induction k with
  | zero => intro i hi; omega
  | succ k ih =>
    have hsplit : passCallbacks e ios (k + 1) = passCallbacks e ios k ++ [Step.cb e k (ios k)] := by
      simp [passCallbacks, List.range_succ]
    rw [hsplit, World.run, List.foldl_append] at hd ⊢
    simp only [List.foldl_cons, List.foldl_nil] at hd ⊢
    have hrun : List.foldl World.step w (passCallbacks e ios k) = w.run (passCallbacks e ios k) := rfl
    rw [hrun] at hd ⊢
    obtain ⟨hd0, hst⟩ := step_died_none hd
    rw [hst] at hd ⊢
    intro i hi f p hf hp
    by_cases hik : i = k
    · subst hik
      -- the handler existed before its callback (callbacks never create one)
      have hex : ∃ f0, (w.run (passCallbacks e ios i)).flows[i]? = some f0 ∧ (handlerAt e f0).isSome := by
        cases hf0 : (w.run (passCallbacks e ios i)).flows[i]? with
        | none =>
          exfalso
          cases e <;> simp [World.stepRaw, World.cbC, World.cbS, hf0] at hf
        | some f0 =>
          refine ⟨f0, rfl, ?_⟩
          cases hh : handlerAt e f0 with
          | some _ => rfl
          | none =>
            exfalso
            cases e
            · simp only [handlerAt] at hh
              simp only [World.stepRaw, World.cbC, hf0, hh] at hf
              injection hf with hf; subst hf
              simp [handlerAt, hh] at hp
            · simp only [handlerAt] at hh
              simp only [World.stepRaw, World.cbS, hf0, hh] at hf
              injection hf with hf; subst hf
              simp [handlerAt, hh] at hp
      exact cb_noticed _ e i (ios i) hd hd0 f p hf hp hex
    · have hunch := (C08_step_frame (w.run (passCallbacks e ios k)) e k (ios k)).1 i hik
      rw [hunch] at hf
      exact ih hd0 i (by omega) f p hf hp

/-- **End-of-stream is passed on by the callback that can pass it on.**  After every
`Proxy.callback`, whatever the sockets did: if the socket side has stopped reading and nothing is
buffered for the tunnel, the EOF frame has been queued (`mw.shutW`); and if the tunnel side has
finished and nothing is buffered for the socket, the socket's write side has been shut.  (A
`copy_to` that leaves this to "the next callback" leaves it to a callback nobody has asked for.) -/
theorem C02_eof_passed_on_in_callback (p : ProxyS) (m : MuxL) (e : ESock) (io : CbIo)
    (p' : ProxyS) (m' : MuxL) (e' : ESock) (h : p.callback m e io = .ok p' m' e') :
    (p'.sw.shutR = true → p'.sw.buf = [] → p'.mw.shutW = true) ∧
    (p'.mw.shutR = true → p'.mw.buf = [] → p'.sw.shutW = true) :=
  callback_eof_post p m e io p' m' e' h

/-- **A handler that has just had its callback and asks `select` for nothing has nothing left to
do.**  `Noticed` is what every callback leaves behind (flags propagated, every end-of-stream passed
on, completion noticed); if such a handler registers no descriptor for the next `select` and the
tunnel is not paused, then it is not connecting, both its buffers are empty, it has stopped reading
and everything has been passed on — whatever is still to come for this flow must come from outside
(the endpoint or the peer), and the loop will be woken for it.  No wake-up is lost between a
callback and the next `select`. -/
theorem C02_idle_handler_is_quiet (p : ProxyS) (m : MuxL) (e : ESock) (hn : Noticed p)
    (hw : p.wants m = (false, false, false)) (ht : m.tooFull = false) : HQ (some p) e := by
  obtain ⟨⟨⟨s1, s2⟩, _⟩, up, down⟩ := hn
  obtain ⟨a1, a3, hr, hb⟩ := C02_nothing_wanted_nothing_possible p m hw
  have hsb : p.sw.buf = [] := by
    cases hbb : p.sw.buf with
    | nil => rfl
    | cons a l =>
      have := hb (by rw [hbb]; exact List.cons_ne_nil _ _)
      rw [ht] at this; cases this
  have hsr : p.sw.shutR = true := hr hsb
  intro q hq
  injection hq with hq; subst hq
  refine ⟨a1, by rw [hsb]; rfl, by rw [a3]; rfl, ?_, ?_, ?_, s1, s2⟩
  · intro h; rw [hsr] at h; cases h
  · intro _; exact up hsr hsb
  · intro h; exact down h a3

/-- **The converse, which is what the scheduler needs:** a handler that has had its callback
(`Noticed`) and is *not* quiet registers, with the next `select`, a descriptor that is ready — its
socket for writing (always ready: a pending connect or bytes for the socket), the tunnel for
writing (bytes for the tunnel, tunnel not paused), or its socket for reading while the endpoint has
bytes or a close pending — so `select` returns it; and the callback it then gets, with what is
ready, changes the state (`callback_fixpoint`).  Hence a pass of the loop over handlers that have
all had their callbacks either finds them all quiet or makes a move that `C02_bounded_work`
charges against the measure. -/
theorem C02_unquiet_handler_is_woken (p : ProxyS) (m : MuxL) (e : ESock) (hn : Noticed p) (hse : SE p.sw e)
    (ht : m.tooFull = false) (hq : ¬ HQ (some p) e) :
    ((p.wants m).2.1 = true ∨ (p.wants m).2.2 = true ∨
      ((p.wants m).1 = true ∧ (e.pending ≠ [] ∨ e.eofIn = true))) ∧
    p.callback m e fullIo ≠ .ok p m e := by
  refine ⟨?_, fun h => hq (handler_fix_quiet p m e hse ht h)⟩
  apply Classical.byContradiction
  intro hno
  simp only [not_or, not_and] at hno
  obtain ⟨n1, n2, n3⟩ := hno
  have w2 : (p.wants m).2.1 = false := by simpa using n1
  have w3 : (p.wants m).2.2 = false := by simpa using n2
  cases w1 : (p.wants m).1 with
  | false =>
    apply hq
    apply C02_idle_handler_is_quiet p m e hn _ ht
    rw [Prod.ext_iff, Prod.ext_iff]
    exact ⟨w1, w2, w3⟩
  | true =>
    have hnr := n3 w1
    have hp' : e.pending = [] := by
      cases hpp : e.pending with
      | nil => rfl
      | cons a l => exact absurd (by rw [hpp]; exact List.cons_ne_nil _ _) hnr.1
    have he : e.eofIn = false := by
      cases hee : e.eofIn with
      | false => rfl
      | true => exact absurd hee hnr.2
    obtain ⟨hc, hbe, hr⟩ := (wants_sockR p m).mp w1
    have hsb : p.sw.buf = [] := List.isEmpty_iff.mp hbe
    have hmb : p.mw.buf = [] := by
      cases hb : p.mw.buf with
      | nil => rfl
      | cons a l =>
        have := (wants_sockW p m).mpr (Or.inr (by rw [hb]; rfl))
        rw [w2] at this; cases this
    obtain ⟨⟨⟨s1, s2⟩, _⟩, _, down⟩ := hn
    apply hq
    intro q hqq
    injection hqq with hqq; subst hqq
    refine ⟨hc, by rw [hsb]; rfl, by rw [hmb]; rfl, fun _ => ⟨hp', he⟩, ?_, fun h => down h hmb, s1, s2⟩
    intro h; rw [hr] at h; cases h

/-- The loop-level form: after a pass in which every handler of an end got its callback (what
`runonce` does whenever the tunnel's read file is ready), a handler of that end that asks the next
`select` for nothing is quiet. -/
theorem C02_pass_leaves_nothing_unasked (w : World) (e : End) (ios : Nat → CbIo) (k : Nat)
    (hd : (w.run (passCallbacks e ios k)).died = none) (i : Nat) (hi : i < k) (f : Flow) (p : ProxyS)
    (hf : (w.run (passCallbacks e ios k)).flows[i]? = some f) (hp : handlerAt e f = some p)
    (m : MuxL) (hw : p.wants m = (false, false, false)) (ht : m.tooFull = false) (es : ESock) :
    HQ (some p) es :=
  C02_idle_handler_is_quiet p m es (C02_pass_notices_finished w e ios k hd i hi f p hf hp) hw ht

def demo4 : List Step :=
  [.accept, .deliver .server .ok, .deliver .server .ok, .dstEof 0,
   .cb .server 0 { recv := .data 65536 }, .deliver .client .ok, .deliver .client .ok, .cb .client 0 { send := .sent 65536 },
   .appWrite 0 [1], .cb .client 0 { recv := .data 65536 }, .deliver .server .ok,
   .cb .server 0 { send := .epipe }, .deliver .client .ok]

/-- `C02_finished_noticed_in_callback` at work on a reachable state: the destination closed first,
then refused the application's data (EPIPE), the STOP_SENDING has just been handled by the client's
Mux: the client's handler has both writers shut and empty buffers but has not yet recorded
`shut_read` on its socket side.  The callback it gets in the same pass of the select loop records
it and marks the handler finished (before the repair of this defect the flag was only set by the
next `pre_select`, after which no callback was due: the handler stayed registered). -/
example :
    let w : World := ({} : World).run demo4
    (w.flows.map fun f => f.c.map fun p => (p.ok, p.sw.shutR, p.sw.shutW)) = [some (true, false, true)] ∧
    (w.flows.map fun f => f.c.map fun p => (p.mw.shutR, p.mw.shutW, p.sw.buf.isEmpty && p.mw.buf.isEmpty)) =
      [some (true, true, true)] ∧
    ((w.step (.cb .client 0 {})).flows.map fun f => f.c.map fun p => (p.ok, p.sw.shutR)) = [some (false, true)] := by
  intro w
  exact ⟨by decide +kernel, by decide +kernel, by decide +kernel⟩

/-- `C02_pass_notices_finished` on the same reachable state: the pass in which the client's Mux
handled the STOP_SENDING ends with the client's handler marked finished. -/
example :
    ((({} : World).run demo4).run (passCallbacks .client (fun _ => {}) 1)).died = none ∧
    ((({} : World).run demo4).run (passCallbacks .client (fun _ => {}) 1)).flows.map (fun f => f.c.map (·.ok)) =
      [some false] := by
  exact ⟨by decide +kernel, by decide +kernel⟩

/-- The hypotheses of `C02_wakeup_deliver` are met by the reachable state of `demo2` (the server
holds `[1,2,3]` for a destination that is not shut): the callback delivers. -/
example :
    let w : World := ({} : World).run demo2
    (w.flows.map fun f => f.s.map fun p => ((p.wants w.sm).2.1, p.sw.connecting, p.mw.buf)) =
      [some (true, false, [[1, 2, 3]])] := by
  decide +kernel

def demo3 : List Step :=
  demo2 ++ [.cb .server 0 { recv := .data 65536, send := .sent 65536 }, .dstWrite 0 [9], .dstEof 0,
    .cb .server 0 { recv := .data 65536, send := .sent 65536 }, .cb .server 0 { recv := .data 65536, send := .sent 65536 },
    .deliver .client .ok, .deliver .client .ok, .deliver .client .ok,
    .cb .client 0 { recv := .data 65536, send := .sent 65536 }, .cb .client 0 { recv := .data 65536, send := .sent 65536 },
    .deliver .server .ok, .deliver .server .ok, .cb .server 0 { recv := .data 65536, send := .sent 65536 }]

/-- The hypotheses of `C02_quiet_complete` are met by a reachable state: a whole connection (three
bytes up, one byte down, both endpoints closed) run to quiescence is `Quiet`, and indeed both
handlers are finished and both sockets shut. -/
example :
    Quiet (({} : World).run demo3) ∧ (({} : World).run demo3).died = none ∧
    ((({} : World).run demo3).flows.map fun f =>
      (f.c.map (·.ok), f.s.map (·.ok), f.app.delivered, f.dst.delivered, f.app.sawShut, f.dst.sawShut)) =
      [(some false, some false, [9], [1, 2, 3], true, true)] := by
  refine ⟨(quietB_iff _).mp (by decide +kernel), by decide +kernel, by decide +kernel⟩

/-- The two together — the property's last sentence as one statement.  In every reachable, alive
state that the select loop's own moves cannot change, no flow is stuck with undelivered data or
half open: each endpoint that is still open has received exactly what the tunnel read from its
peer, each close has reached the other endpoint's socket, and a flow closed on both sides is shut
on all four sides and unregistered on both ends. -/
theorem C02_stuck_is_complete (w0 : World) (h0 : Fresh w0) (hf : w0.cm.tooFull = false ∧ w0.sm.tooFull = false)
    (steps : List Step) (hg : ∀ st ∈ steps, GoodStep st) (hn : (chans (w0.run steps)).Nodup)
    (hd : (w0.run steps).died = none)
    (hdc : (w0.run steps).step (.deliver .client .ok) = w0.run steps)
    (hds : (w0.run steps).step (.deliver .server .ok) = w0.run steps)
    (hcb : ∀ e i, (w0.run steps).step (.cb e i fullIo) = w0.run steps) :
    ∀ f ∈ (w0.run steps).flows,
      (f.dst.sawShut = false → f.app.consumed = f.dst.delivered) ∧
      (f.app.sawShut = false → f.dst.consumed = f.app.delivered) ∧
      (f.app.eofIn = true → f.app.pending = [] → f.dst.sawShut = true) ∧
      (f.dst.eofIn = true → f.dst.pending = [] → f.app.sawShut = true) := by
  intro f hfm
  have hq := C02_no_stuck_state w0 h0.1 hf steps hd hdc hds hcb
  obtain ⟨_, a, b, c, d, _⟩ := C02_quiet_complete w0 h0 steps hg hn hd hq f hfm
  exact ⟨a, b, c, d⟩

/-- The hypotheses of `C02_no_stuck_state` are met by a reachable state: the world of `demo3` (a
whole connection run to the end) is a fixed point of every move of the loop — checked here for the
two deliveries and the callbacks of its one flow. -/
example :
    let w : World := ({} : World).run demo3
    w.died = none ∧ w.cm.out = [] ∧ w.sm.out = [] ∧ w.flows.length = 1 ∧
    (w.step (.cb .client 0 fullIo)).flows.map (fun f => (f.c.map (·.ok), f.app.delivered)) =
      w.flows.map (fun f => (f.c.map (·.ok), f.app.delivered)) ∧
    (w.step (.cb .server 0 fullIo)).flows.map (fun f => (f.s.map (·.ok), f.dst.delivered)) =
      w.flows.map (fun f => (f.s.map (·.ok), f.dst.delivered)) := by
  intro w
  exact ⟨by decide +kernel, by decide +kernel, by decide +kernel, by decide +kernel, by decide +kernel, by decide +kernel⟩


/-! ### The scheduler itself: one pass of `runonce` as the model makes it (`Code/Loop.lean`)

`World.round` decides, like `ssnet.runonce`, which handlers get how many callbacks from what the
handlers asked for and from what `select` reports.  The real `runonce` is compared with it on every
pass the harness makes (state after the pass and number of callbacks). -/

theorem run_append (w : World) (l1 l2 : List Step) : (w.run l1).run l2 = w.run (l1 ++ l2) := by
  simp only [World.run, List.foldl_append]

theorem roundHead_moves (e : End) (n : Nat) : ∀ st ∈ roundHead e n, LoopMove st := by
  intro st h
  simp only [roundHead, List.mem_cons, List.mem_map, List.mem_range] at h
  rcases h with rfl | ⟨i, _, rfl⟩ <;> trivial

theorem roundTail_moves (w : World) (e : End) (k : Nat) (conn : ConnRes) (sel : Sel) (ios : Nat → CbIo) :
    ∀ st ∈ roundTail w e k conn sel ios, LoopMove st := by
  intro st h
  simp only [roundTail, List.mem_append, List.mem_replicate, List.mem_flatMap] at h
  rcases h with ⟨_, rfl⟩ | ⟨⟨i, f⟩, _, _, rfl⟩ <;> trivial

/-- **A pass of the select loop is a schedule of the loop's own moves**, whatever `select`
reports (`sel`) and however the sockets answer (`ios`): everything proved for all schedules
(`C01_prefix`, `C01_conservation`, the C02 ordering theorems, `C08_no_death`, the C09 gate) holds
after every pass, and the pass never raises the measure. -/
theorem C02_round_is_run (w : World) (e : End) (k : Nat) (conn : ConnRes) (sel : Sel) (ios : Nat → CbIo) :
    ∃ steps, (∀ st ∈ steps, LoopMove st) ∧ w.round e k conn sel ios = w.run steps ∧
      worldMu (w.round e k conn sel ios) ≤ worldMu w := by
  refine ⟨roundHead e w.flows.length ++
    roundTail (w.run (roundHead e w.flows.length)) e k conn sel ios, ?_, ?_, ?_⟩
  · intro st h
    rcases List.mem_append.mp h with h | h
    · exact roundHead_moves _ _ st h
    · exact roundTail_moves _ _ _ _ _ _ st h
  · simp only [World.round, run_append]
  · simp only [World.round, run_append]
    apply C02_measure_monotone
    intro st h
    rcases List.mem_append.mp h with h | h
    · exact roundHead_moves _ _ st h
    · exact roundTail_moves _ _ _ _ _ _ st h

/-- Along the loop's own moves, a run that does not lower the measure has changed nothing at any
of its steps. -/
theorem run_fix_all (w : World) (l : List Step) (hall : ∀ st ∈ l, LoopMove st)
    (h : worldMu (w.run l) = worldMu w) : ∀ st ∈ l, w.step st = w := by
  induction l with
  | nil => intro st hst; cases hst
  | cons a rest ih =>
    have hd := loop_step_dec w a (hall a List.mem_cons_self)
    have hmono := C02_measure_monotone (w.step a) rest (fun s hs => hall s (List.mem_cons_of_mem _ hs))
    have hrun : w.run (a :: rest) = (w.step a).run rest := by simp only [World.run, List.foldl_cons]
    rw [hrun] at h
    rcases hd with hlt | ⟨_, heq⟩
    · omega
    · rw [heq] at h
      intro st hst
      rcases List.mem_cons.mp hst with rfl | hm
      · exact heq
      · exact ih (fun s hs => hall s (List.mem_cons_of_mem _ hs)) h st hm

theorem run_of_fix (w : World) (l : List Step) (h : ∀ st ∈ l, w.step st = w) : w.run l = w := by
  induction l with
  | nil => rfl
  | cons a rest ih =>
    have hrun : w.run (a :: rest) = (w.step a).run rest := by simp only [World.run, List.foldl_cons]
    rw [hrun, h a List.mem_cons_self]
    exact ih (fun s hs => h s (List.mem_cons_of_mem _ hs))

/-- Delivering the next frame changes the world whenever there is one. -/
theorem deliver_fix_empty (w : World) (e : End) (hd : w.died = none)
    (h : w.step (.deliver e .ok) = w) : w.inQueue e = [] := by
  have hr := step_fix hd h
  cases e with
  | client =>
    simp only [World.stepRaw] at hr
    simp only [World.inQueue]
    rcases deliverC_mux w with ⟨_, _, h⟩ | ⟨fr, rest, ho, hc, _⟩
    · exact h
    · exfalso
      rw [hr] at hc
      have := congrArg MuxL.out hc
      rw [ho] at this
      simp only at this
      have hl := congrArg List.length this
      simp at hl
  | server =>
    simp only [World.stepRaw] at hr
    simp only [World.inQueue]
    rcases deliverS_mux w .ok with ⟨_, _, h⟩ | ⟨fr, rest, ho, hc, _⟩
    · exact h
    · exfalso
      rw [hr] at hc
      have := congrArg MuxL.out hc
      rw [ho] at this
      simp only at this
      have hl := congrArg List.length this
      simp at hl

/-- A callback step that leaves the world as it was is a callback that returned its own inputs. -/
theorem cb_fix_callback (w : World) (e : End) (i : Nat) (io : CbIo) (hd : w.died = none)
    (f : Flow) (p : ProxyS) (hi : w.flows[i]? = some f) (hp : handlerAt e f = some p)
    (h : w.step (.cb e i io) = w) :
    p.callback (w.muxAt e) (envAt e f) io = .ok p (w.muxAt e) (envAt e f) := by
  have hr := step_fix hd h
  cases e with
  | client =>
    simp only [handlerAt] at hp
    simp only [World.stepRaw, World.cbC, hi, hp] at hr
    simp only [World.muxAt, envAt]
    cases hcbk : p.callback w.cm f.app io with
    | died =>
      rw [hcbk] at hr
      have := congrArg World.died hr
      simp only at this
      rw [hd] at this; cases this
    | ok p' m' e' =>
      rw [hcbk] at hr
      have h1 : m' = w.cm := by simpa using congrArg World.cm hr
      have h2 := congrArg (fun x => x.flows[i]?) hr
      simp only [modifyAt_getElem?, ↓reduceIte, hi, Option.map_some, Option.some.injEq] at h2
      have h3 : p' = p := by
        have := congrArg Flow.c h2
        simp only [hp, Option.some.injEq] at this
        exact this
      have h4 : e' = f.app := by simpa using congrArg Flow.app h2
      rw [h1, h3, h4]
  | server =>
    simp only [handlerAt] at hp
    simp only [World.stepRaw, World.cbS, hi, hp] at hr
    simp only [World.muxAt, envAt]
    cases hcbk : p.callback w.sm f.dst io with
    | died =>
      rw [hcbk] at hr
      have := congrArg World.died hr
      simp only at this
      rw [hd] at this; cases this
    | ok p' m' e' =>
      rw [hcbk] at hr
      have h1 : m' = w.sm := by simpa using congrArg World.sm hr
      have h2 := congrArg (fun x => x.flows[i]?) hr
      simp only [modifyAt_getElem?, ↓reduceIte, hi, Option.map_some, Option.some.injEq] at h2
      have h3 : p' = p := by
        have := congrArg Flow.s h2
        simp only [hp, Option.some.injEq] at this
        exact this
      have h4 : e' = f.dst := by simpa using congrArg Flow.dst h2
      rw [h1, h3, h4]

theorem mem_zip_range {α : Type} (l : List α) (i : Nat) (a : α) (h : l[i]? = some a) :
    (i, a) ∈ (List.range l.length).zip l := by
  obtain ⟨hlt, hget⟩ := List.getElem?_eq_some_iff.mp h
  rw [List.mem_iff_getElem?]
  refine ⟨i, ?_⟩
  rw [List.getElem?_zip_eq_some]
  exact ⟨by rw [List.getElem?_range hlt], h⟩

/-- A pass that does not lower the measure found no frame on its way to its end (no hypothesis on
the handlers or on latency control). -/
theorem pass_idle_queue_empty (w : World) (e : End) (k : Nat) (hd : w.died = none)
    (hk : w.inQueue e ≠ [] → 0 < k)
    (hfix : worldMu (w.roundAuto e k fullIo) = worldMu w) : w.inQueue e = [] := by
  have hmv : ∀ st ∈ roundHead e w.flows.length ++
      roundTail (w.run (roundHead e w.flows.length)) e k .ok (w.truthfulSel e) (fun _ => fullIo),
      LoopMove st := by
    intro st h
    rcases List.mem_append.mp h with h | h
    · exact roundHead_moves _ _ st h
    · exact roundTail_moves _ _ _ _ _ _ st h
  have hrun : w.roundAuto e k fullIo = w.run (roundHead e w.flows.length ++
      roundTail (w.run (roundHead e w.flows.length)) e k .ok (w.truthfulSel e) (fun _ => fullIo)) := by
    simp only [World.roundAuto, World.round, run_append, fullIo]
  rw [hrun] at hfix
  have hall := run_fix_all w _ hmv hfix
  have hw2 : w.run (roundHead e w.flows.length) = w :=
    run_of_fix w _ (fun st hst => hall st (List.mem_append_left _ hst))
  rw [hw2] at hall
  apply Classical.byContradiction
  intro hne
  have hk' := hk hne
  have hmem : Step.deliver e .ok ∈ roundTail w e k .ok (w.truthfulSel e) (fun _ => fullIo) := by
    unfold roundTail
    exact List.mem_append_left _ (List.mem_replicate.mpr ⟨by omega, rfl⟩)
  exact hne (deliver_fix_empty w e hd (hall _ (List.mem_append_right _ hmem)))

/-- **The scheduler loses no wake-up: a pass of the select loop that does not lower the measure
leaves nothing to do at its end.**  Take any alive world whose handlers at end `e` have had their
callbacks (`Noticed` — what every callback establishes, `cb_noticed`) with the tunnel not paused, and
let `runonce` make one pass in the environment as it is (`truthfulSel`: `select` reports an endpoint
socket readable iff bytes or a close are pending, always writable; the tunnel's write file
writable), handling the frames that have arrived (`k > 0` if any are on their way), every socket
answering fully.  If the measure is not lower afterwards, then no frame was on its way to this end
and EVERY handler of this end is quiet.  Contrapositive: while a frame is on its way or some
handler has anything left to do, `select` returns at least one descriptor the handlers asked for,
the loop makes the callback, and `worldMu` goes down — so after at most `worldMu w` passes
(`C02_bounded_work`) both ends are at rest, and a world at rest is complete
(`C02_quiet_complete`).  The choice of callbacks is the model's own (`Code/Loop.lean`), compared
with the real `ssnet.runonce` on every pass of every run. -/
theorem C02_pass_without_progress_is_quiet (w : World) (e : End) (k : Nat) (hd : w.died = none)
    (hk : w.inQueue e ≠ [] → 0 < k)
    (hfs : ∀ f ∈ w.flows, FlowSock f)
    (hn : ∀ f ∈ w.flows, ∀ p, handlerAt e f = some p → Noticed p)
    (ht : (w.muxAt e).tooFull = false)
    (hfix : worldMu (w.roundAuto e k fullIo) = worldMu w) :
    w.inQueue e = [] ∧ ∀ f ∈ w.flows, HQ (handlerAt e f) (envAt e f) := by
  have hmv : ∀ st ∈ roundHead e w.flows.length ++
      roundTail (w.run (roundHead e w.flows.length)) e k .ok (w.truthfulSel e) (fun _ => fullIo),
      LoopMove st := by
    intro st h
    rcases List.mem_append.mp h with h | h
    · exact roundHead_moves _ _ st h
    · exact roundTail_moves _ _ _ _ _ _ st h
  have hrun : w.roundAuto e k fullIo = w.run (roundHead e w.flows.length ++
      roundTail (w.run (roundHead e w.flows.length)) e k .ok (w.truthfulSel e) (fun _ => fullIo)) := by
    simp only [World.roundAuto, World.round, run_append, fullIo]
  rw [hrun] at hfix
  have hall := run_fix_all w _ hmv hfix
  have hw2 : w.run (roundHead e w.flows.length) = w :=
    run_of_fix w _ (fun st hst => hall st (List.mem_append_left _ hst))
  rw [hw2] at hall
  have hq : w.inQueue e = [] := by
    apply Classical.byContradiction
    intro hne
    have hk' := hk hne
    have hmem : Step.deliver e .ok ∈ roundTail w e k .ok (w.truthfulSel e) (fun _ => fullIo) := by
      unfold roundTail
      exact List.mem_append_left _ (List.mem_replicate.mpr ⟨by omega, rfl⟩)
    exact hne (deliver_fix_empty w e hd (hall _ (List.mem_append_right _ hmem)))
  refine ⟨hq, ?_⟩
  intro f hfm
  obtain ⟨i, hi⟩ := List.getElem?_of_mem hfm
  intro p hp
  apply Classical.byContradiction
  intro hnq
  have hse : SE p.sw (envAt e f) := by
    obtain ⟨fs1, fs2, _, _⟩ := hfs f hfm
    cases e with
    | client => exact (fs1 p hp).1
    | server => exact (fs2 p hp).1
  have hnq' : ¬ HQ (some p) (envAt e f) := by
    intro hh; exact hnq (hh p rfl)
  obtain ⟨hwant, hne⟩ := C02_unquiet_handler_is_woken p (w.muxAt e) (envAt e f) (hn f hfm p hp) hse ht hnq'
  have hcnt : 0 < cbCount w e k (w.truthfulSel e) i f := by
    simp only [cbCount, hp]
    rcases hwant with h | h | ⟨h1, h2⟩
    · have : sockReady (w.muxAt e) p ((w.truthfulSel e).sockR i) ((w.truthfulSel e).sockW i) = true := by
        simp only [sockReady, World.truthfulSel, h, Bool.and_true, Bool.or_true]
      rw [this]; simp only [↓reduceIte]; omega
    · have : (muxWAsked w e && (w.truthfulSel e).muxW) = true := by
        simp only [muxWAsked, World.truthfulSel, Bool.and_true, Bool.or_eq_true, List.any_eq_true]
        right
        exact ⟨f, hfm, by rw [hp]; exact h⟩
      rw [this]; simp only [↓reduceIte]; omega
    · have hr : (w.truthfulSel e).sockR i = true := by
        simp only [World.truthfulSel, hi]
        rcases h2 with h2 | h2
        · cases hpe : (envAt e f).pending with
          | nil => exact absurd hpe h2
          | cons a l => simp
        · simp [h2]
      have : sockReady (w.muxAt e) p ((w.truthfulSel e).sockR i) ((w.truthfulSel e).sockW i) = true := by
        simp only [sockReady, h1, hr, Bool.and_self, Bool.true_or]
      rw [this]; simp only [↓reduceIte]; omega
  have hmem : Step.cb e i fullIo ∈ roundTail w e k .ok (w.truthfulSel e) (fun _ => fullIo) := by
    unfold roundTail
    apply List.mem_append_right
    rw [List.mem_flatMap]
    exact ⟨(i, f), mem_zip_range w.flows i f hi, List.mem_replicate.mpr ⟨Nat.ne_of_gt hcnt, rfl⟩⟩
  exact hne (cb_fix_callback w e i fullIo hd f p hi hp (hall _ (List.mem_append_right _ hmem)))

/-- The two directions together: when neither end's pass lowers the measure, the world is `Quiet`
— and therefore complete (`C02_quiet_complete`). -/
theorem C02_both_passes_idle_is_quiet (w : World) (kc ks : Nat) (hd : w.died = none)
    (hkc : w.sm.out ≠ [] → 0 < kc) (hks : w.cm.out ≠ [] → 0 < ks)
    (hfs : ∀ f ∈ w.flows, FlowSock f)
    (hn : ∀ f ∈ w.flows, ∀ e p, handlerAt e f = some p → Noticed p)
    (ht : w.cm.tooFull = false ∧ w.sm.tooFull = false)
    (hc : worldMu (w.roundAuto .client kc fullIo) = worldMu w)
    (hs : worldMu (w.roundAuto .server ks fullIo) = worldMu w) : Quiet w := by
  obtain ⟨q1, h1⟩ := C02_pass_without_progress_is_quiet w .client kc hd hkc hfs
    (fun f hf p hp => hn f hf .client p hp) ht.1 hc
  obtain ⟨q2, h2⟩ := C02_pass_without_progress_is_quiet w .server ks hd hks hfs
    (fun f hf p hp => hn f hf .server p hp) ht.2 hs
  exact ⟨q2, q1, fun f hf => ⟨h1 f hf, h2 f hf⟩⟩


/-! ### Whole runs of the select loop, pass by pass -/

/-- A sequence of passes of the loop in the environment as it is, each at an end of the
scheduler's choice (`e`) with `k` frames arriving. -/
def World.passes (w : World) : List (End × Nat) → World
  | [] => w
  | (e, k) :: rest => (w.roundAuto e k fullIo).passes rest

/-- Every pass of the list lowers the measure. -/
def EffectivePasses : World → List (End × Nat) → Prop
  | _, [] => True
  | w, (e, k) :: rest =>
    worldMu (w.roundAuto e k fullIo) < worldMu w ∧ EffectivePasses (w.roundAuto e k fullIo) rest

theorem loopMove_good {st : Step} (h : LoopMove st) : GoodStep st := by
  cases st <;> first | trivial | cases h

theorem passes_is_run (w : World) (ps : List (End × Nat)) :
    ∃ steps, (∀ st ∈ steps, LoopMove st) ∧ w.passes ps = w.run steps := by
  induction ps generalizing w with
  | nil => exact ⟨[], fun _ h => (by cases h), rfl⟩
  | cons a rest ih =>
    obtain ⟨e, k⟩ := a
    obtain ⟨s1, h1, r1, _⟩ := C02_round_is_run w e k fullIo.conn (w.truthfulSel e) (fun _ => fullIo)
    obtain ⟨s2, h2, r2⟩ := ih (w.roundAuto e k fullIo)
    refine ⟨s1 ++ s2, ?_, ?_⟩
    · intro st h
      rcases List.mem_append.mp h with h | h
      · exact h1 st h
      · exact h2 st h
    · show (w.roundAuto e k fullIo).passes rest = _
      rw [r2]
      show (w.round e k fullIo.conn (w.truthfulSel e) (fun _ => fullIo)).run s2 = _
      rw [r1, run_append]

/-- **Bounded work, counted in passes of the loop:** from ANY world, a sequence of passes each of
which lowers the measure is at most `worldMu w` long. -/
theorem C02_effective_passes_bounded (w : World) (ps : List (End × Nat)) (h : EffectivePasses w ps) :
    ps.length ≤ worldMu w := by
  induction ps generalizing w with
  | nil => exact Nat.zero_le _
  | cons a rest ih =>
    obtain ⟨e, k⟩ := a
    obtain ⟨hlt, hrest⟩ := h
    have := ih _ hrest
    simp only [List.length_cons]
    omega

/-- **The select loop reaches a complete state within bounded work.**  Start from any reachable
world (`pre`: any history — connections opened, data written, closes, faults, latency control).
Let the loop then make passes, at either end in any order, for as long as a pass lowers the
measure: that is at most `worldMu` passes (of the world it started from).  When a pass at each end
no longer lowers it — the handlers having had their callbacks — every endpoint still open has
received exactly what the tunnel read from its peer, every close has reached the other endpoint's
socket, and flows closed on both sides are completely shut and unregistered.  (Property C02, last
sentence; C01, last sentence.) -/
theorem C02_loop_completes (w0 : World) (h0 : Fresh w0)
    (hf : w0.cm.tooFull = false ∧ w0.sm.tooFull = false) (pre : List Step)
    (hg : ∀ st ∈ pre, GoodStep st) (ps : List (End × Nat))
    (heff : EffectivePasses (w0.run pre) ps)
    (hn : (chans ((w0.run pre).passes ps)).Nodup)
    (hd : ((w0.run pre).passes ps).died = none)
    (hnot : ∀ f ∈ ((w0.run pre).passes ps).flows, ∀ e p, handlerAt e f = some p → Noticed p)
    (kc ks : Nat)
    (hkc : ((w0.run pre).passes ps).sm.out ≠ [] → 0 < kc)
    (hks : ((w0.run pre).passes ps).cm.out ≠ [] → 0 < ks)
    (hc : worldMu (((w0.run pre).passes ps).roundAuto .client kc fullIo) = worldMu ((w0.run pre).passes ps))
    (hs : worldMu (((w0.run pre).passes ps).roundAuto .server ks fullIo) = worldMu ((w0.run pre).passes ps)) :
    ps.length ≤ worldMu (w0.run pre) ∧
    ∀ f ∈ ((w0.run pre).passes ps).flows,
      (f.dst.sawShut = false → f.app.consumed = f.dst.delivered) ∧
      (f.app.sawShut = false → f.dst.consumed = f.app.delivered) ∧
      (f.app.eofIn = true → f.app.pending = [] → f.dst.sawShut = true) ∧
      (f.dst.eofIn = true → f.dst.pending = [] → f.app.sawShut = true) := by
  refine ⟨C02_effective_passes_bounded _ ps heff, ?_⟩
  obtain ⟨steps, hmv, hrun⟩ := passes_is_run (w0.run pre) ps
  have hrun' : (w0.run pre).passes ps = w0.run (pre ++ steps) := by rw [hrun, run_append]
  rw [hrun'] at hn hd hnot hkc hks hc hs ⊢
  have hfs := reach_flowSock w0 h0.1 (pre ++ steps)
  have hq1 := pass_idle_queue_empty (w0.run (pre ++ steps)) .client kc hd hkc hc
  have hq2 := pass_idle_queue_empty (w0.run (pre ++ steps)) .server ks hd hks hs
  have ht := C09_drained_not_full w0 hf (pre ++ steps) hq2 hq1
  have hq := C02_both_passes_idle_is_quiet (w0.run (pre ++ steps)) kc ks hd hkc hks hfs hnot ht hc hs
  have hgood : ∀ st ∈ pre ++ steps, GoodStep st := by
    intro st h
    rcases List.mem_append.mp h with h | h
    · exact hg st h
    · exact loopMove_good (hmv st h)
  intro f hfm
  obtain ⟨_, a, b, c, d, _⟩ := C02_quiet_complete w0 h0 (pre ++ steps) hgood hn hd hq f hfm
  exact ⟨a, b, c, d⟩

/-- The pass on concrete reachable worlds: in the state of `demo2` (bytes buffered at the server,
an end-of-stream to pass on) the server's pass lowers the measure; at the end of `demo3` (a whole
connection run to the end) one pass per end drops the finished handlers, and after that neither
end's pass changes the measure — the situation of `C02_both_passes_idle_is_quiet`. -/
def demo3Rest : World := ((({} : World).run demo3).roundAuto .client 0 fullIo).roundAuto .server 0 fullIo

example :
    worldMu ((({} : World).run demo2).roundAuto .server 0 fullIo) < worldMu (({} : World).run demo2) ∧
    worldMu demo3Rest < worldMu (({} : World).run demo3) ∧
    worldMu (demo3Rest.roundAuto .client 0 fullIo) = worldMu demo3Rest ∧
    worldMu (demo3Rest.roundAuto .server 0 fullIo) = worldMu demo3Rest ∧ demo3Rest.died = none := by
  refine ⟨by decide +kernel, by decide +kernel, by decide +kernel, by decide +kernel, by decide +kernel⟩


/-! ### Between passes every handler has had its callback

`Noticed` — the hypothesis of `C02_pass_without_progress_is_quiet` — is an invariant of the select
loop's own alphabet: a new connection, endpoint activity, `check_fullness`, traffic of other flow
kinds, and whole passes (`World.round`, for ANY answer of `select` and any socket behaviour).  Inside
a pass a frame that has just been handled (`got_packet`) or a handler that has just been created
(`new_channel`) leaves its handler un-noticed only until that handler's callbacks later in the same
pass: the tunnel's read file is in every handler's `socks`. -/

/-- Position by position, `R` relates the flows of two lists of equal length. -/
def FlowsR (R : Flow → Flow → Prop) (l l' : List Flow) : Prop :=
  l'.length = l.length ∧ ∀ (j : Nat) (f f' : Flow), l[j]? = some f → l'[j]? = some f' → R f f'

theorem flowsR_refl {R : Flow → Flow → Prop} (hr : ∀ f, R f f) (l : List Flow) : FlowsR R l l :=
  ⟨rfl, fun j f f' h h' => by rw [h] at h'; injection h' with h'; subst h'; exact hr f⟩

theorem flowsR_modifyAt {R : Flow → Flow → Prop} (hr : ∀ f, R f f) (l : List Flow) (i : Nat) (g : Flow → Flow)
    (hg : ∀ f, l[i]? = some f → R f (g f)) : FlowsR R l (modifyAt l i g) := by
  refine ⟨modifyAt_length l i g, ?_⟩
  intro j f f' hj hj'
  rw [modifyAt_getElem?] at hj'
  by_cases hji : j = i
  · subst hji
    simp only [↓reduceIte, hj, Option.map_some, Option.some.injEq] at hj'
    subst hj'
    exact hg f hj
  · rw [if_neg hji, hj] at hj'
    injection hj' with hj'; subst hj'; exact hr f

theorem flowsR_map {R : Flow → Flow → Prop} (l : List Flow) (g : Flow → Flow) (hg : ∀ f, R f (g f)) :
    FlowsR R l (l.map g) := by
  refine ⟨List.length_map g, ?_⟩
  intro j f f' hj hj'
  rw [List.getElem?_map, hj] at hj'
  simp only [Option.map_some, Option.some.injEq] at hj'
  subst hj'; exact hg f

/-- The handler at end `e'` is the same. -/
def SameAt (e' : End) (f f' : Flow) : Prop := handlerAt e' f' = handlerAt e' f

theorem sameAt_refl (e' : End) : ∀ f, SameAt e' f f := fun _ => rfl

/-- Every handler of end `e` in the list has had its callback. -/
def AllNoticed (e : End) (l : List Flow) : Prop :=
  ∀ f ∈ l, ∀ p, handlerAt e f = some p → Noticed p

theorem AllNoticed.of_same {e : End} {l l' : List Flow} (h : FlowsR (SameAt e) l l') (ha : AllNoticed e l) :
    AllNoticed e l' := by
  intro f' hf' p hp
  obtain ⟨j, hj⟩ := List.getElem?_of_mem hf'
  have hlt : j < l.length := by
    have := (List.getElem?_eq_some_iff.mp hj).1
    rw [h.1] at this; exact this
  have hjl : l[j]? = some l[j] := List.getElem?_eq_getElem hlt
  have hs := h.2 j _ f' hjl hj
  unfold SameAt at hs
  rw [hs] at hp
  exact ha _ (List.mem_of_getElem? hjl) p hp

theorem dispatchAt_flowsR (w : World) (e e' : End) (fr : Frame) (hne : e' ≠ e) :
    FlowsR (SameAt e') w.flows (w.dispatchAt e fr).flows := by
  unfold World.dispatchAt
  split
  · exact flowsR_refl (sameAt_refl _) _
  · simp only
    rcases dispatch_spec e w.flows fr with ⟨_, h2⟩ | ⟨_, h2, _⟩ | ⟨_, i, f, p, w', _, _, _, _, _, h7⟩
    · rw [h2]; exact flowsR_refl (sameAt_refl _) _
    · rw [h2]; exact flowsR_refl (sameAt_refl _) _
    · rw [h7]
      apply flowsR_modifyAt (sameAt_refl _)
      intro g _
      unfold SameAt
      cases e <;> cases e' <;> first | exact absurd rfl hne | rfl

theorem connectS_flowsR (w : World) (fr : Frame) (conn : ConnRes) :
    FlowsR (SameAt .client) w.flows (w.connectS fr conn).flows := by
  unfold World.connectS
  split
  · exact flowsR_refl (sameAt_refl _) _
  · split
    · exact flowsR_refl (sameAt_refl _) _
    · split
      · exact flowsR_refl (sameAt_refl _) _
      · split
        · exact flowsR_refl (sameAt_refl _) _
        · simp only
          apply flowsR_modifyAt (sameAt_refl _)
          intro g _
          rfl

/-- Whatever a step at end `e` does, the handlers of the other end stay as they are. -/
theorem stepRaw_other_end (w : World) (e e' : End) (hne : e' ≠ e) (st : Step)
    (hst : (∃ i io, st = .cb e i io) ∨ (∃ i, st = .pre e i) ∨ (∃ c, st = .deliver e c) ∨ st = .removeDead e) :
    FlowsR (SameAt e') w.flows (w.stepRaw st).flows := by
  rcases hst with ⟨i, io, rfl⟩ | ⟨i, rfl⟩ | ⟨c, rfl⟩ | rfl
  · cases e
    · simp only [World.stepRaw, World.cbC]
      split
      · split
        · split
          · apply flowsR_modifyAt (sameAt_refl _)
            intro g _
            cases e'
            · exact absurd rfl hne
            · rfl
          · exact flowsR_refl (sameAt_refl _) _
        · exact flowsR_refl (sameAt_refl _) _
      · exact flowsR_refl (sameAt_refl _) _
    · simp only [World.stepRaw, World.cbS]
      split
      · split
        · split
          · apply flowsR_modifyAt (sameAt_refl _)
            intro g _
            cases e'
            · rfl
            · exact absurd rfl hne
          · exact flowsR_refl (sameAt_refl _) _
        · exact flowsR_refl (sameAt_refl _) _
      · exact flowsR_refl (sameAt_refl _) _
  · cases e
    · simp only [World.stepRaw, World.preC]
      split
      · split
        · apply flowsR_modifyAt (sameAt_refl _)
          intro g _
          cases e'
          · exact absurd rfl hne
          · rfl
        · exact flowsR_refl (sameAt_refl _) _
      · exact flowsR_refl (sameAt_refl _) _
    · simp only [World.stepRaw, World.preS]
      split
      · split
        · apply flowsR_modifyAt (sameAt_refl _)
          intro g _
          cases e'
          · rfl
          · exact absurd rfl hne
        · exact flowsR_refl (sameAt_refl _) _
      · exact flowsR_refl (sameAt_refl _) _
  · cases e
    · simp only [World.stepRaw, World.deliverC]
      split
      · exact flowsR_refl (sameAt_refl _) _
      · split
        · exact flowsR_refl (sameAt_refl _) _
        · split
          · exact flowsR_refl (sameAt_refl _) _
          · split
            · split <;> exact flowsR_refl (sameAt_refl _) _
            · split
              · exact flowsR_refl (sameAt_refl _) _
              · exact dispatchAt_flowsR _ .client e' _ hne
    · simp only [World.stepRaw, World.deliverS]
      split
      · exact flowsR_refl (sameAt_refl _) _
      · split
        · exact flowsR_refl (sameAt_refl _) _
        · split
          · exact flowsR_refl (sameAt_refl _) _
          · split
            · cases e'
              · exact connectS_flowsR _ _ _
              · exact absurd rfl hne
            · split
              · exact flowsR_refl (sameAt_refl _) _
              · exact dispatchAt_flowsR _ .server e' _ hne
  · cases e
    · simp only [World.stepRaw, World.rmC]
      apply flowsR_map
      intro f
      unfold SameAt
      cases e'
      · exact absurd rfl hne
      · split
        · split <;> rfl
        · rfl
    · simp only [World.stepRaw, World.rmS]
      apply flowsR_map
      intro f
      unfold SameAt
      cases e'
      · split
        · split <;> rfl
        · rfl
      · exact absurd rfl hne

theorem preSelect_id (p : ProxyS) (m : MuxL) (h : Settled p) : p.preSelectFlags m = (p, m) := by
  obtain ⟨⟨sb, sr, sw, sc, sx⟩, ⟨wc, wb, wr, ww⟩, pok, sf⟩ := p
  obtain ⟨h1, h2⟩ := h
  simp only at h1 h2
  cases sf <;> cases sw <;> cases ww <;> simp_all [ProxyS.preSelectFlags, MuxW.noread, SockW.noread]

/-- What a step may do to the handler of end `e` without disturbing `AllNoticed`: keep it, drop it,
leave one that is `Noticed`, or apply `pre_select`'s flag part to it. -/
def NoticedStep (e : End) (f f' : Flow) : Prop :=
  ∀ p', handlerAt e f' = some p' →
    handlerAt e f = some p' ∨ Noticed p' ∨ ∃ p m, handlerAt e f = some p ∧ p' = (p.preSelectFlags m).1

theorem noticedStep_refl (e : End) : ∀ f, NoticedStep e f f := fun _ _ h => Or.inl h

theorem AllNoticed.of_step {e : End} {l l' : List Flow} (h : FlowsR (NoticedStep e) l l') (ha : AllNoticed e l) :
    AllNoticed e l' := by
  intro f' hf' p' hp'
  obtain ⟨j, hj⟩ := List.getElem?_of_mem hf'
  have hlt : j < l.length := by
    have := (List.getElem?_eq_some_iff.mp hj).1
    rw [h.1] at this; exact this
  have hjl : l[j]? = some l[j] := List.getElem?_eq_getElem hlt
  have hmem := List.mem_of_getElem? hjl
  rcases h.2 j _ f' hjl hj p' hp' with h1 | h1 | ⟨p, m, h1, h2⟩
  · exact ha _ hmem p' h1
  · exact h1
  · have hn := ha _ hmem p h1
    rw [preSelect_id p m hn.1.1] at h2
    rw [h2]; exact hn

theorem rm_noticedStep (w : World) (e : End) : FlowsR (NoticedStep e) w.flows (w.stepRaw (.removeDead e)).flows := by
  cases e
  · simp only [World.stepRaw, World.rmC]
    apply flowsR_map
    intro f p' hp'
    left
    simp only [handlerAt] at hp' ⊢
    split at hp'
    · split at hp'
      · exact hp'
      · cases hp'
    · exact hp'
  · simp only [World.stepRaw, World.rmS]
    apply flowsR_map
    intro f p' hp'
    left
    simp only [handlerAt] at hp' ⊢
    split at hp'
    · split at hp'
      · exact hp'
      · cases hp'
    · exact hp'

theorem pre_noticedStep (w : World) (e : End) (i : Nat) :
    FlowsR (NoticedStep e) w.flows (w.stepRaw (.pre e i)).flows := by
  cases e
  · simp only [World.stepRaw, World.preC]
    split
    next f hf =>
      split
      next p hp =>
        apply flowsR_modifyAt (noticedStep_refl _)
        intro g hg p' hp'
        rw [hf] at hg; injection hg with hg; subst hg
        right; right
        simp only [handlerAt, Option.some.injEq] at hp'
        exact ⟨p, w.cm, hp, hp'.symm⟩
      · exact flowsR_refl (noticedStep_refl _) _
    · exact flowsR_refl (noticedStep_refl _) _
  · simp only [World.stepRaw, World.preS]
    split
    next f hf =>
      split
      next p hp =>
        apply flowsR_modifyAt (noticedStep_refl _)
        intro g hg p' hp'
        rw [hf] at hg; injection hg with hg; subst hg
        right; right
        simp only [handlerAt, Option.some.injEq] at hp'
        exact ⟨p, w.sm, hp, hp'.symm⟩
      · exact flowsR_refl (noticedStep_refl _) _
    · exact flowsR_refl (noticedStep_refl _) _

theorem alive_of_run {w : World} {l : List Step} (h : (w.run l).died = none) : w.died = none := by
  induction l generalizing w with
  | nil => exact h
  | cons a rest ih =>
    have hrun : w.run (a :: rest) = (w.step a).run rest := by simp only [World.run, List.foldl_cons]
    rw [hrun] at h
    exact (step_died_none (ih h)).1

/-- The steps a pass at end `e` is made of. -/
def AtEnd (e : End) (st : Step) : Prop :=
  (∃ i io, st = .cb e i io) ∨ (∃ i, st = .pre e i) ∨ (∃ c, st = .deliver e c) ∨ st = .removeDead e

theorem run_other_end (e e' : End) (hne : e' ≠ e) (l : List Step) (w : World) (hl : ∀ st ∈ l, AtEnd e st)
    (hd : (w.run l).died = none) :
    FlowsR (SameAt e') w.flows (w.run l).flows := by
  induction l generalizing w with
  | nil => exact flowsR_refl (sameAt_refl _) _
  | cons a rest ih =>
    have hrun : w.run (a :: rest) = (w.step a).run rest := by simp only [World.run, List.foldl_cons]
    rw [hrun] at hd ⊢
    have h1 := alive_of_run hd
    have h2 := (step_died_none h1).2
    have hs := stepRaw_other_end w e e' hne a (hl a List.mem_cons_self)
    rw [← h2] at hs
    have hr := ih (w.step a) (fun s hs => hl s (List.mem_cons_of_mem _ hs)) hd
    refine ⟨by rw [hr.1, hs.1], ?_⟩
    intro j f f' hj hj'
    have hlt : j < (w.step a).flows.length := by
      rw [hs.1]; exact (List.getElem?_eq_some_iff.mp hj).1
    have hm : (w.step a).flows[j]? = some (w.step a).flows[j] := List.getElem?_eq_getElem hlt
    have a1 := hs.2 j f _ hj hm
    have a2 := hr.2 j _ f' hm hj'
    unfold SameAt at a1 a2 ⊢
    rw [a2, a1]

theorem roundHead_atEnd (e : End) (n : Nat) : ∀ st ∈ roundHead e n, AtEnd e st := by
  intro st h
  simp only [roundHead, List.mem_cons, List.mem_map, List.mem_range] at h
  rcases h with rfl | ⟨i, _, rfl⟩
  · exact Or.inr (Or.inr (Or.inr rfl))
  · exact Or.inr (Or.inl ⟨i, rfl⟩)

theorem roundTail_atEnd (w : World) (e : End) (k : Nat) (conn : ConnRes) (sel : Sel) (ios : Nat → CbIo) :
    ∀ st ∈ roundTail w e k conn sel ios, AtEnd e st := by
  intro st h
  simp only [roundTail, List.mem_append, List.mem_replicate, List.mem_flatMap] at h
  rcases h with ⟨_, rfl⟩ | ⟨⟨i, f⟩, _, _, rfl⟩
  · exact Or.inr (Or.inr (Or.inl ⟨conn, rfl⟩))
  · exact Or.inl ⟨i, ios i, rfl⟩

theorem head_keeps_noticed (e : End) (n : Nat) (w : World) (hd : (w.run (roundHead e n)).died = none)
    (ha : AllNoticed e w.flows) : AllNoticed e (w.run (roundHead e n)).flows := by
  have key : ∀ (l : List Step) (w : World), (∀ st ∈ l, st = .removeDead e ∨ ∃ i, st = .pre e i) →
      (w.run l).died = none → AllNoticed e w.flows → AllNoticed e (w.run l).flows := by
    intro l
    induction l with
    | nil => intro w _ _ ha; exact ha
    | cons a rest ih =>
      intro w hl hd ha
      have hrun : w.run (a :: rest) = (w.step a).run rest := by simp only [World.run, List.foldl_cons]
      rw [hrun] at hd ⊢
      have h2 := (step_died_none (alive_of_run hd)).2
      apply ih (w.step a) (fun s hs => hl s (List.mem_cons_of_mem _ hs)) hd
      rw [h2]
      rcases hl a List.mem_cons_self with rfl | ⟨i, rfl⟩
      · exact AllNoticed.of_step (rm_noticedStep w e) ha
      · exact AllNoticed.of_step (pre_noticedStep w e i) ha
  apply key _ w _ hd ha
  intro st h
  simp only [roundHead, List.mem_cons, List.mem_map, List.mem_range] at h
  rcases h with rfl | ⟨i, _, rfl⟩
  · exact Or.inl rfl
  · exact Or.inr ⟨i, rfl⟩

/-- While the callbacks of a pass are being made: every handler of the end has had its callback or
still has one coming in this pass. -/
def PendInv (e : End) (w : World) (rem : List Step) : Prop :=
  ∀ (i : Nat) (f : Flow) (p : ProxyS), w.flows[i]? = some f → handlerAt e f = some p →
    Noticed p ∨ ∃ io, Step.cb e i io ∈ rem

theorem cb_handler_pre (w : World) (e : End) (i : Nat) (io : CbIo) (f : Flow) (p : ProxyS)
    (hf : (w.stepRaw (.cb e i io)).flows[i]? = some f) (hp : handlerAt e f = some p) :
    ∃ f0, w.flows[i]? = some f0 ∧ (handlerAt e f0).isSome := by
  cases hw : w.flows[i]? with
  | none =>
    exfalso
    cases e
    · simp only [World.stepRaw, World.cbC, hw] at hf; cases hf
    · simp only [World.stepRaw, World.cbS, hw] at hf; cases hf
  | some f0 =>
    refine ⟨f0, rfl, ?_⟩
    cases hh : handlerAt e f0 with
    | some q => rfl
    | none =>
      exfalso
      cases e
      · simp only [handlerAt] at hh
        simp only [World.stepRaw, World.cbC, hw, hh] at hf
        injection hf with hf; subst hf
        simp only [handlerAt, hh] at hp; cases hp
      · simp only [handlerAt] at hh
        simp only [World.stepRaw, World.cbS, hw, hh] at hf
        injection hf with hf; subst hf
        simp only [handlerAt, hh] at hp; cases hp

theorem pendInv_step (e : End) (w : World) (i : Nat) (io : CbIo) (rem : List Step)
    (hd : (w.step (.cb e i io)).died = none) (h : PendInv e w (.cb e i io :: rem)) :
    PendInv e (w.step (.cb e i io)) rem := by
  obtain ⟨hd0, hs⟩ := step_died_none hd
  rw [hs] at hd ⊢
  intro j f p hf hp
  by_cases hji : j = i
  · subst hji
    left
    exact cb_noticed w e j io hd hd0 f p hf hp (cb_handler_pre w e j io f p hf hp)
  · rw [(C08_step_frame w e i io).1 j hji] at hf
    rcases h j f p hf hp with hn | ⟨io', hm⟩
    · exact Or.inl hn
    · right
      rcases List.mem_cons.mp hm with heq | hm
      · injection heq with _ h2 _; exact absurd h2 hji
      · exact ⟨io', hm⟩

theorem pendInv_run (e : End) (l : List Step) (w : World) (hl : ∀ st ∈ l, ∃ i io, st = Step.cb e i io)
    (hd : (w.run l).died = none) (h : PendInv e w l) : AllNoticed e (w.run l).flows := by
  induction l generalizing w with
  | nil =>
    intro f hf p hp
    obtain ⟨j, hj⟩ := List.getElem?_of_mem hf
    rcases h j f p hj hp with hn | ⟨_, hm⟩
    · exact hn
    · cases hm
  | cons a rest ih =>
    have hrun : w.run (a :: rest) = (w.step a).run rest := by simp only [World.run, List.foldl_cons]
    rw [hrun] at hd ⊢
    obtain ⟨i, io, rfl⟩ := hl a List.mem_cons_self
    exact ih (w.step (.cb e i io)) (fun s hs => hl s (List.mem_cons_of_mem _ hs)) hd
      (pendInv_step e w i io rest (alive_of_run hd) h)

def otherEnd : End → End
  | .client => .server
  | .server => .client

theorem otherEnd_ne (e : End) : otherEnd e ≠ e := by cases e <;> intro h <;> cases h

/-- **A pass leaves every handler noticed**, whatever `select` reports and however the sockets
answer: the handlers of the other end are not touched; a handler of this end that handled a frame
or was created in this pass gets its callback later in the same pass. -/
theorem round_keeps_noticed (w : World) (e : End) (k : Nat) (conn : ConnRes) (sel : Sel) (ios : Nat → CbIo)
    (hd : (w.round e k conn sel ios).died = none)
    (ha : ∀ e', AllNoticed e' w.flows) : ∀ e', AllNoticed e' (w.round e k conn sel ios).flows := by
  have hround : w.round e k conn sel ios = w.run (roundHead e w.flows.length ++
      roundTail (w.run (roundHead e w.flows.length)) e k conn sel ios) := by
    simp only [World.round, run_append]
  have hat : ∀ st ∈ roundHead e w.flows.length ++
      roundTail (w.run (roundHead e w.flows.length)) e k conn sel ios, AtEnd e st := by
    intro st h
    rcases List.mem_append.mp h with h | h
    · exact roundHead_atEnd _ _ st h
    · exact roundTail_atEnd _ _ _ _ _ _ st h
  -- this end
  have hthis : AllNoticed e (w.round e k conn sel ios).flows := by
    unfold World.round at hd ⊢
    generalize hw2 : w.run (roundHead e w.flows.length) = w2 at hd ⊢
    have hd2 : w2.died = none := alive_of_run hd
    have a2 : AllNoticed e w2.flows := by
      rw [← hw2] at hd2 ⊢
      exact head_keeps_noticed e _ w hd2 (ha e)
    unfold roundTail at hd ⊢
    rw [← run_append] at hd ⊢
    generalize hw3 : w2.run (List.replicate k (Step.deliver e conn)) = w3 at hd ⊢
    have hd3 : w3.died = none := alive_of_run hd
    have hlen : w3.flows.length = w2.flows.length := by
      rw [← hw3] at hd3 ⊢
      exact (run_other_end e (otherEnd e) (otherEnd_ne e) _ w2
        (fun st hst => Or.inr (Or.inr (Or.inl ⟨conn, (List.mem_replicate.mp hst).2⟩))) hd3).1
    apply pendInv_run e _ w3 _ hd
    · intro i f p hf hp
      by_cases hk : k = 0
      · left
        subst hk
        simp only [List.replicate_zero, World.run, List.foldl_nil] at hw3
        subst hw3
        exact a2 f (List.mem_of_getElem? hf) p hp
      · right
        have hlt : i < w2.flows.length := by
          rw [← hlen]; exact (List.getElem?_eq_some_iff.mp hf).1
        have hi2 : w2.flows[i]? = some w2.flows[i] := List.getElem?_eq_getElem hlt
        refine ⟨ios i, ?_⟩
        rw [List.mem_flatMap]
        refine ⟨(i, w2.flows[i]), mem_zip_range w2.flows i _ hi2, List.mem_replicate.mpr ⟨?_, rfl⟩⟩
        unfold cbCount
        have : (if 0 < k then 1 else 0) = 1 := by rw [if_pos (by omega)]
        omega
    · intro st hst
      rw [List.mem_flatMap] at hst
      obtain ⟨⟨i, f⟩, _, hm⟩ := hst
      exact ⟨i, ios i, (List.mem_replicate.mp hm).2⟩
  intro e'
  by_cases he : e' = e
  · subst he; exact hthis
  · rw [hround] at hd ⊢
    exact AllNoticed.of_same (run_other_end e e' he _ w hat hd) (ha e')

/-- A handler just created by `onaccept_tcp` has nothing to notice. -/
theorem fresh_noticed (c : Nat) : Noticed { sw := {}, mw := { chan := c }, sockFirst := true } := by
  refine ⟨⟨⟨?_, ?_⟩, ?_⟩, ?_, ?_⟩ <;> intro h <;> cases h

/-- What happens at a tunnel end between two `select` calls, and around it. -/
inductive LoopEvent
  | accept                                  -- the listener's callback: a captured connection
  | pass (e : End) (k : Nat) (conn : ConnRes) (sel : Sel) (ios : Nat → CbIo)   -- one `runonce`
  | checkFull (e : End)
  | foreign (e : End) (f : Frame)           -- traffic of another flow kind
  | appWrite (i : Nat) (b : Bytes) | appEof (i : Nat)
  | dstWrite (i : Nat) (b : Bytes) | dstEof (i : Nat)

def World.event (w : World) : LoopEvent → World
  | .accept => w.step .accept
  | .pass e k conn sel ios => w.round e k conn sel ios
  | .checkFull e => w.step (.checkFull e)
  | .foreign e f => w.step (.foreign e f)
  | .appWrite i b => w.step (.appWrite i b)
  | .appEof i => w.step (.appEof i)
  | .dstWrite i b => w.step (.dstWrite i b)
  | .dstEof i => w.step (.dstEof i)

def World.events (w : World) (evs : List LoopEvent) : World := evs.foldl World.event w

def GoodEvent : LoopEvent → Prop
  | .foreign _ fr => isStreamCmd fr.cmd = false
  | _ => True

theorem env_same (w : World) (e' : End) (st : Step)
    (hst : (∃ e, st = .checkFull e) ∨ (∃ e f, st = .foreign e f) ∨ (∃ i b, st = .appWrite i b) ∨
      (∃ i, st = .appEof i) ∨ (∃ i b, st = .dstWrite i b) ∨ (∃ i, st = .dstEof i)) :
    FlowsR (SameAt e') w.flows (w.stepRaw st).flows := by
  rcases hst with ⟨e, rfl⟩ | ⟨e, f, rfl⟩ | ⟨i, b, rfl⟩ | ⟨i, rfl⟩ | ⟨i, b, rfl⟩ | ⟨i, rfl⟩
  · cases e <;> exact flowsR_refl (sameAt_refl _) _
  · cases e <;> exact flowsR_refl (sameAt_refl _) _
  · simp only [World.stepRaw]
    apply flowsR_modifyAt (sameAt_refl _)
    intro g _
    unfold SameAt
    split <;> cases e' <;> rfl
  · simp only [World.stepRaw]
    apply flowsR_modifyAt (sameAt_refl _)
    intro g _
    unfold SameAt
    cases e' <;> rfl
  · simp only [World.stepRaw]
    apply flowsR_modifyAt (sameAt_refl _)
    intro g _
    unfold SameAt
    split <;> cases e' <;> rfl
  · simp only [World.stepRaw]
    apply flowsR_modifyAt (sameAt_refl _)
    intro g _
    unfold SameAt
    cases e' <;> rfl

theorem accept_keeps_noticed (w : World) (e' : End) (ha : AllNoticed e' w.flows) :
    AllNoticed e' (w.stepRaw .accept).flows := by
  simp only [World.stepRaw, World.accept]
  split
  · exact ha
  next c ch _ =>
    intro f hf p hp
    simp only [List.mem_append, List.mem_singleton] at hf
    rcases hf with hf | rfl
    · exact ha f hf p hp
    · cases e'
      · simp only [handlerAt, Option.some.injEq] at hp
        subst hp; exact fresh_noticed c
      · simp only [handlerAt] at hp; cases hp

theorem event_alive {w : World} {ev : LoopEvent} (h : (w.event ev).died = none) : w.died = none := by
  cases ev with
  | pass e k conn sel ios =>
    simp only [World.event, World.round] at h
    exact alive_of_run (alive_of_run h)
  | _ => exact (step_died_none h).1

theorem events_alive {w : World} {evs : List LoopEvent} (h : (w.events evs).died = none) : w.died = none := by
  induction evs generalizing w with
  | nil => exact h
  | cons a rest ih =>
    have : w.events (a :: rest) = (w.event a).events rest := by simp only [World.events, List.foldl_cons]
    rw [this] at h
    exact event_alive (ih h)

theorem event_keeps_noticed (w : World) (ev : LoopEvent) (hd : (w.event ev).died = none)
    (ha : ∀ e', AllNoticed e' w.flows) : ∀ e', AllNoticed e' (w.event ev).flows := by
  cases ev with
  | pass e k conn sel ios => exact round_keeps_noticed w e k conn sel ios hd ha
  | accept =>
    intro e'
    simp only [World.event] at hd ⊢
    rw [(step_died_none hd).2]
    exact accept_keeps_noticed w e' (ha e')
  | checkFull e =>
    intro e'
    simp only [World.event] at hd ⊢
    rw [(step_died_none hd).2]
    exact AllNoticed.of_same (env_same w e' _ (Or.inl ⟨e, rfl⟩)) (ha e')
  | foreign e f =>
    intro e'
    simp only [World.event] at hd ⊢
    rw [(step_died_none hd).2]
    exact AllNoticed.of_same (env_same w e' _ (Or.inr (Or.inl ⟨e, f, rfl⟩))) (ha e')
  | appWrite i b =>
    intro e'
    simp only [World.event] at hd ⊢
    rw [(step_died_none hd).2]
    exact AllNoticed.of_same (env_same w e' _ (Or.inr (Or.inr (Or.inl ⟨i, b, rfl⟩)))) (ha e')
  | appEof i =>
    intro e'
    simp only [World.event] at hd ⊢
    rw [(step_died_none hd).2]
    exact AllNoticed.of_same (env_same w e' _ (Or.inr (Or.inr (Or.inr (Or.inl ⟨i, rfl⟩))))) (ha e')
  | dstWrite i b =>
    intro e'
    simp only [World.event] at hd ⊢
    rw [(step_died_none hd).2]
    exact AllNoticed.of_same (env_same w e' _ (Or.inr (Or.inr (Or.inr (Or.inr (Or.inl ⟨i, b, rfl⟩)))))) (ha e')
  | dstEof i =>
    intro e'
    simp only [World.event] at hd ⊢
    rw [(step_died_none hd).2]
    exact AllNoticed.of_same (env_same w e' _ (Or.inr (Or.inr (Or.inr (Or.inr (Or.inr ⟨i, rfl⟩)))))) (ha e')

/-- **Between passes every handler has had its callback.**  For every history of the loop's own
alphabet — connections accepted, endpoint activity, `check_fullness`, foreign traffic, and passes
with ANY answer of `select` and any socket behaviour — that leaves both processes alive, every
handler of either end is `Noticed`.  This discharges the hypothesis of
`C02_pass_without_progress_is_quiet` for every state the real loop can be in between two passes. -/
theorem C02_noticed_between_passes (w0 : World) (h0 : w0.flows = []) (evs : List LoopEvent)
    (hd : (w0.events evs).died = none) : ∀ e', AllNoticed e' (w0.events evs).flows := by
  have key : ∀ (evs : List LoopEvent) (w : World), (w.events evs).died = none →
      (∀ e', AllNoticed e' w.flows) → ∀ e', AllNoticed e' (w.events evs).flows := by
    intro evs
    induction evs with
    | nil => intro w _ ha; exact ha
    | cons a rest ih =>
      intro w hd ha
      have hrun : w.events (a :: rest) = (w.event a).events rest := by simp only [World.events, List.foldl_cons]
      rw [hrun] at hd ⊢
      exact ih (w.event a) hd (event_keeps_noticed w a (events_alive hd) ha)
  exact key evs w0 hd (fun e' f hf => by rw [h0] at hf; cases hf)

theorem events_is_run (w : World) (evs : List LoopEvent) (hg : ∀ ev ∈ evs, GoodEvent ev) :
    ∃ steps, (∀ st ∈ steps, GoodStep st) ∧ w.events evs = w.run steps := by
  induction evs generalizing w with
  | nil => exact ⟨[], fun _ h => (by cases h), rfl⟩
  | cons a rest ih =>
    have hrun : w.events (a :: rest) = (w.event a).events rest := by simp only [World.events, List.foldl_cons]
    obtain ⟨s2, g2, r2⟩ := ih (w.event a) (fun ev hev => hg ev (List.mem_cons_of_mem _ hev))
    have hone : ∃ s1, (∀ st ∈ s1, GoodStep st) ∧ w.event a = w.run s1 := by
      cases a with
      | pass e k conn sel ios =>
        obtain ⟨s1, m1, r1, _⟩ := C02_round_is_run w e k conn sel ios
        exact ⟨s1, fun st h => loopMove_good (m1 st h), r1⟩
      | accept => exact ⟨[.accept], fun st h => (by simp only [List.mem_singleton] at h; subst h; trivial), rfl⟩
      | checkFull e => exact ⟨[.checkFull e], fun st h => (by simp only [List.mem_singleton] at h; subst h; trivial), rfl⟩
      | foreign e f =>
        refine ⟨[.foreign e f], fun st h => ?_, rfl⟩
        simp only [List.mem_singleton] at h; subst h
        exact hg _ List.mem_cons_self
      | appWrite i b => exact ⟨[.appWrite i b], fun st h => (by simp only [List.mem_singleton] at h; subst h; trivial), rfl⟩
      | appEof i => exact ⟨[.appEof i], fun st h => (by simp only [List.mem_singleton] at h; subst h; trivial), rfl⟩
      | dstWrite i b => exact ⟨[.dstWrite i b], fun st h => (by simp only [List.mem_singleton] at h; subst h; trivial), rfl⟩
      | dstEof i => exact ⟨[.dstEof i], fun st h => (by simp only [List.mem_singleton] at h; subst h; trivial), rfl⟩
    obtain ⟨s1, g1, r1⟩ := hone
    refine ⟨s1 ++ s2, ?_, ?_⟩
    · intro st h
      rcases List.mem_append.mp h with h | h
      · exact g1 st h
      · exact g2 st h
    · rw [hrun, r2, r1, run_append]

/-- **The select loop, in its own terms.**  Take any history of the two loops: connections
accepted, the endpoints writing and closing whenever they like, latency control, traffic of other
flow kinds, and `runonce` passes at either end in any order with whatever `select` reported and
whatever the sockets answered, faults included — with both processes alive at the end and the flow
identifiers of the run distinct.  If now one pass at each end in the environment as it is (frames
on their way arrive, sockets answer fully) does not lower the measure, then every endpoint still
open has received exactly what the tunnel read from its peer and every close has reached the other
endpoint's socket.  No hypothesis about handlers, queues or latency control is left: the loop's
own history establishes them (`C02_noticed_between_passes`, `reach_flowSock`,
`pass_idle_queue_empty`, `C09_drained_not_full`).  And by `C02_effective_passes_bounded` the loop
gets there: passes that do lower the measure are at most `worldMu` many. -/
theorem C02_loop_history_completes (w0 : World) (h0 : Fresh w0)
    (hf : w0.cm.tooFull = false ∧ w0.sm.tooFull = false) (evs : List LoopEvent)
    (hg : ∀ ev ∈ evs, GoodEvent ev)
    (hn : (chans (w0.events evs)).Nodup) (hd : (w0.events evs).died = none)
    (kc ks : Nat)
    (hkc : (w0.events evs).sm.out ≠ [] → 0 < kc) (hks : (w0.events evs).cm.out ≠ [] → 0 < ks)
    (hc : worldMu ((w0.events evs).roundAuto .client kc fullIo) = worldMu (w0.events evs))
    (hs : worldMu ((w0.events evs).roundAuto .server ks fullIo) = worldMu (w0.events evs)) :
    Quiet (w0.events evs) ∧
    ∀ f ∈ (w0.events evs).flows,
      (f.dst.sawShut = false → f.app.consumed = f.dst.delivered) ∧
      (f.app.sawShut = false → f.dst.consumed = f.app.delivered) ∧
      (f.app.eofIn = true → f.app.pending = [] → f.dst.sawShut = true) ∧
      (f.dst.eofIn = true → f.dst.pending = [] → f.app.sawShut = true) := by
  have hnot := C02_noticed_between_passes w0 h0.1 evs hd
  obtain ⟨steps, hgood, hrun⟩ := events_is_run w0 evs hg
  rw [hrun] at hn hd hkc hks hc hs hnot ⊢
  have hfs := reach_flowSock w0 h0.1 steps
  have hq1 := pass_idle_queue_empty (w0.run steps) .client kc hd hkc hc
  have hq2 := pass_idle_queue_empty (w0.run steps) .server ks hd hks hs
  have ht := C09_drained_not_full w0 hf steps hq2 hq1
  have hq := C02_both_passes_idle_is_quiet (w0.run steps) kc ks hd hkc hks hfs
    (fun f hfm e p hp => hnot e f hfm p hp) ht hc hs
  refine ⟨hq, ?_⟩
  intro f hfm
  obtain ⟨_, a, b, c, d, _⟩ := C02_quiet_complete w0 h0 steps hgood hn hd hq f hfm
  exact ⟨a, b, c, d⟩

/-- A history in the loop's own alphabet that meets the hypotheses of `C02_loop_history_completes`:
a connection is accepted, the application writes three bytes and closes, the destination closes;
passes at both ends until none lowers the measure (five are enough here).  At the end both
processes are alive, one more pass at either end leaves the measure as it is, and the three bytes
have arrived. -/
def demoHistory : List LoopEvent :=
  [.accept, .appWrite 0 [1, 2, 3], .appEof 0, .dstEof 0] ++
  (List.replicate 5 [LoopEvent.pass .client 9 .ok ⟨fun _ => true, fun _ => true, true⟩ (fun _ => fullIo),
                     LoopEvent.pass .server 9 .ok ⟨fun _ => true, fun _ => true, true⟩ (fun _ => fullIo)]).flatten

example :
    let w : World := ({} : World).events demoHistory
    w.died = none ∧ w.cm.out = [] ∧ w.sm.out = [] ∧
    worldMu (w.roundAuto .client 0 fullIo) = worldMu w ∧ worldMu (w.roundAuto .server 0 fullIo) = worldMu w ∧
    w.flows.map (fun f => (f.dst.delivered, f.dst.sawShut, f.app.sawShut)) = [([1, 2, 3], true, true)] := by
  intro w
  exact ⟨by decide +kernel, by decide +kernel, by decide +kernel, by decide +kernel, by decide +kernel,
    by decide +kernel⟩

end Sshuttle.Tunnel
