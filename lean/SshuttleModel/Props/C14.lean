/-
C14 — Only sshuttle's own marked lines in the hosts file ever change.

Property theorems only; helper lemmas are in `Lemmas/HostsText.lean`, `HostsLines.lean`,
`HostsMarker.lean`, `HostsRun.lean`, `HostsSession.lean`, `HostsSerial.lean`, `HostsHistory.lean`.

Vocabulary (`Spec/HostsFile.lean`): `lines c` are the lines of a file with stored content `c`
(terminators normalised, white space at the very end of the file is not a line); `Own p l`:
line `l` carries the marker of the instance with port `p`; `foreign p ls` / `block p ls`: the
lines of `ls` not own / own to `p`; `expected p hm before = foreign p before ++ hostLines p hm`.
`finish pr fs`: the file system after running `pr` to its end; `after k pr fs`: after its
first `k` file-system operations (a crash at point `k`).
-/
import SshuttleModel.Lemmas.HostsHistory

namespace Sshuttle.Hosts

/-! ## 1. One rewrite -/

/-- **The rewrite changes only own lines.**  For every file system (hosts file missing, empty,
with or without final newline, CRLF, comments, other ports' markers, stale own markers, a
backup or a left-over temporary present or not), every host map and every port, when
`rewrite_etc_hosts(hostmap, port)` has run, the hosts file is *exactly* the lines that were
there and are not own to `port`, unchanged and in order, followed by one marked line per host
(sorted by name), each terminated by `\n`. -/
theorem C14_rewrite (hm : HostMap) (p : Nat) (fs : Fs) :
    (finish (rewrite hm p) fs).content .hosts =
      some (unlines (expected p hm (lines (fs.content .hosts)))) :=
  finish_rewrite hm p fs

/-- Line-level form while the instance has hosts: the lines of the new file are the non-own
lines of the old one followed by the host lines — nothing else appears, nothing is lost. -/
theorem C14_rewrite_lines (hm : HostMap) (p : Nat) (fs : Fs) (hne : hm ≠ []) (hl : LineMap hm) :
    lines ((finish (rewrite hm p) fs).content .hosts) =
      foreign p (lines (fs.content .hosts)) ++ hostLines p hm := by
  rw [C14_rewrite, expected]
  exact lines_unlines (trimmed_with_hostLines (foreign_breakfree p _) p hl hne)

example : ([([104], [49, 46, 49])] : HostMap) ≠ [] ∧ LineMap [([104], [49, 46, 49])] := by
  refine ⟨by simp, ?_⟩
  intro e he
  simp only [List.mem_singleton] at he
  subst he
  exact ⟨by decide, by decide⟩

/-- Removing the last hosts (`rewrite {}`; this is what restore does) when the file had no own
line: every line stays exactly as it was. -/
theorem C14_rewrite_empty_lines (p : Nat) (fs : Fs)
    (hclean : ∀ l ∈ lines (fs.content .hosts), ownB p l = false) :
    lines ((finish (rewrite [] p) fs).content .hosts) = lines (fs.content .hosts) := by
  rw [C14_rewrite, expected, hostLines_nil, List.append_nil]
  have : foreign p (lines (fs.content .hosts)) = lines (fs.content .hosts) := by
    simp only [foreign, List.filter_eq_self]
    intro l hl; simp [hclean l hl]
  rw [this]
  exact lines_unlines (lines_trimmed _)

example : ∀ l ∈ lines (some [97, 10]), ownB 10 l = false := by decide

/-! ## 2. Other instances' lines are kept -/

/-- **A line written by the instance with port `q` is not own to any other port `p`** (the
decimal rendering of the port is injective and `#` occurs once in the line), for every host
name and address without `#` — in particular for names in `[-\w.]*` and addresses in `[0-9.]*`. -/
theorem C14_foreign_marker_kept {p q : Nat} (hpq : p ≠ q) (e : Text × Text)
    (h1 : 35 ∉ e.1) (h2 : 35 ∉ e.2) : ¬ Own p (hostLine q e) := by
  rw [← ownB_iff, hostLine_not_own hpq h1 h2]
  simp

example : (10 : Nat) ≠ 100 ∧ 35 ∉ ([104] : Text) ∧ 35 ∉ ([49, 46, 49] : Text) := by decide

/-- Hence a rewrite by `p` keeps every line of `q`'s block, in order. -/
theorem C14_foreign_block_kept {p q : Nat} (hpq : p ≠ q) (hmq : HostMap) (hs : SaneMap hmq)
    (pre post : List Text) :
    foreign p (pre ++ hostLines q hmq ++ post) = foreign p pre ++ hostLines q hmq ++ foreign p post := by
  rw [foreign_append, foreign_append]
  congr 2
  simp only [foreign, List.filter_eq_self]
  intro l hl
  obtain ⟨e, he, rfl⟩ := mem_hostLines hl
  simp [hostLine_not_own hpq (hs e he).1.2.2 (hs e he).2.2.2]

/-- …while its own lines are all own (so they are the ones replaced). -/
theorem C14_own_lines_own (p : Nat) (hm : HostMap) : ∀ l ∈ hostLines p hm, Own p l := by
  intro l hl
  obtain ⟨e, _, rfl⟩ := mem_hostLines hl
  exact (ownB_iff _ _).mp (hostLine_own p e)

/-! ## 2b. The marker match is exact -/

/-- **An instance on port `p` recognises exactly the lines marked for `p`.**  For a line made of
arbitrary text, the marker of port `q`, and arbitrary text (no further `#`), the match the code
performs (`line.find('# sshuttle-firewall-%d AUTOCREATED' % p) >= 0`, regenerated from the
source and pinned in `Code/Hosts.lean`) succeeds iff `p = q` — for all `p`, `q`, in particular
never when the decimal of one port is a prefix of the other's (1230 / 12300), because the
digits must be followed by ` AUTOCREATED`. -/
theorem C14_marker_match_exact (p q : Nat) (head tail : Text) (hh : 35 ∉ head) (ht : 35 ∉ tail) :
    ownB p (head ++ marker q ++ tail) = true ↔ p = q :=
  ⟨marker_match_exact hh ht, fun e => e ▸ marker_in_own p head tail⟩

example : (35 : Nat) ∉ ([49, 46, 50, 32, 104, 32] : Text) ∧ (35 : Nat) ∉ ([] : Text) := by decide

/-- the decimal-prefix instance, spelled out: port 1230 does not claim a line of port 12300 or
vice versa, whatever host it names -/
theorem C14_marker_prefix_ports (e : Text × Text) (h1 : 35 ∉ e.1) (h2 : 35 ∉ e.2) :
    ownB 1230 (hostLine 12300 e) = false ∧ ownB 12300 (hostLine 1230 e) = false :=
  ⟨hostLine_not_own (by decide) h1 h2, hostLine_not_own (by decide) h1 h2⟩

/-! ## 3. Atomic replacement -/

/-- **Stopping at any point leaves the previous or the next complete version.**  For every
crash point `k` (the process stops after its first `k` file-system operations, `k` arbitrary),
the hosts path holds either exactly the old content or exactly the complete new content.
Hypothesis `TmpApart`: the per-port temporary is not another name of the hosts file.
Scope: `os.rename` succeeds (the model's fault-free run); the `shutil.move` fallback is
non-atomic by the code's own warning and is outside this theorem. -/
theorem C14_atomic (hm : HostMap) (p : Nat) (fs : Fs) (ha : TmpApart fs p) (k : Nat) :
    (after k (rewrite hm p) fs).content .hosts = fs.content .hosts ∨
    (after k (rewrite hm p) fs).content .hosts =
      some (unlines (expected p hm (lines (fs.content .hosts)))) :=
  after_rewrite hm p fs ha k

/-- a file system with a hosts file and a stale temporary left by an earlier crash satisfies
the hypothesis -/
example : TmpApart ((Fs.empty.create .hosts [97, 10] newPerm).create (.tmp 10) [98] newPerm) 10 := by
  constructor
  · intro i h1 h2
    simp [Fs.create, Fs.empty] at h1 h2
    omega
  · simp [Fs.create, Fs.empty]

/-! ## 4. A whole session -/

/-- **Any update history of one instance.**  Starting from any file system, after any
non-empty sequence of `HOST` updates (names/addresses free of line breaks) the lines of the
hosts file are the original lines not own to `p`, unchanged and in order, followed by exactly
the instance's current host lines; after `restore_etc_hosts` the file consists of exactly the
original non-own lines; and with no update at all restore leaves the file system untouched. -/
theorem C14_session (p : Nat) (fs : Fs) (us : List (Text × Text))
    (hus : ∀ u ∈ us, LineText u.1 ∧ LineText u.2) :
    (us ≠ [] →
      lines ((updates p us (fs, [])).1.content .hosts) =
        foreign p (lines (fs.content .hosts)) ++ hostLines p (updates p us (fs, [])).2) ∧
    (us ≠ [] →
      (finish (restore (updates p us (fs, [])).2 p) (updates p us (fs, [])).1).content .hosts =
        some (unlines (foreign p (lines (fs.content .hosts))))) ∧
    (us = [] → finish (restore (updates p us (fs, [])).2 p) (updates p us (fs, [])).1 = fs) := by
  have hKf := foreign_idem p (lines (fs.content .hosts))
  have hKb := foreign_breakfree p (fs.content .hosts)
  have h0 : SessInv (foreign p (lines (fs.content .hosts))) p (fs, []) :=
    ⟨fun e he => by simp at he, Or.inl ⟨rfl, rfl⟩⟩
  have hinv := sessInv_updates hKf hKb us hus h0
  refine ⟨fun hne => ?_, fun hne => ?_, fun he => ?_⟩
  · have hm := updates_map_ne_nil p us hne (fs, [])
    rcases hinv.2 with ⟨h, _⟩ | ⟨_, h⟩
    · exact absurd h hm
    · rw [h]; exact lines_unlines (trimmed_with_hostLines hKb p hinv.1 hm)
  · have hm := updates_map_ne_nil p us hne (fs, [])
    have hlen : (updates p us (fs, [])).2.length > 0 := List.length_pos_iff.mpr hm
    simp only [restore, hlen, ↓reduceIte]
    rw [finish_rewrite, expected, sessInv_foreign hKf hKb hinv, hostLines_nil, List.append_nil]
  · subst he; rfl

example : ∀ u ∈ ([([104], [49]), ([105], [50]), ([104], [51])] : List (Text × Text)),
    LineText u.1 ∧ LineText u.2 := by
  intro u hu
  simp only [List.mem_cons, List.not_mem_nil, or_false] at hu
  rcases hu with rfl | rfl | rfl <;> exact ⟨by decide, by decide⟩

/-- When the original file had no line own to `p`, the session ends with every original line
exactly as it was. -/
theorem C14_session_restores_original (p : Nat) (fs : Fs) (us : List (Text × Text))
    (hus : ∀ u ∈ us, LineText u.1 ∧ LineText u.2) (hne : us ≠ [])
    (hclean : ∀ l ∈ lines (fs.content .hosts), ownB p l = false) :
    lines ((finish (restore (updates p us (fs, [])).2 p) (updates p us (fs, [])).1).content .hosts) =
      lines (fs.content .hosts) := by
  rw [(C14_session p fs us hus).2.1 hne]
  have : foreign p (lines (fs.content .hosts)) = lines (fs.content .hosts) := by
    simp only [foreign, List.filter_eq_self]
    intro l hl; simp [hclean l hl]
  rw [this]
  exact lines_unlines (lines_trimmed _)

/-! ## 4b. Whole histories of one port: updates, restores, a crash, recovery by a later session -/

/-- **The lines of everybody else survive any history of one port.**  `ms` is any sequence of
complete rewrites by port `p` — host updates in any order with repeats (A→B→A), restores
(empty map), sessions that end normally or by an error (the clean-up is one more rewrite), later
sessions on the same port — over any initial file system.  The lines not carrying `p`'s marker are
then the same file, line for line and in order, as at the start, up to white space at the very
end of the file (`EqEof`: they read back equal). -/
theorem C14_history_foreign_lines (p : Nat) (fs : Fs) (ms : List HostMap) (hms : ∀ m ∈ ms, LineMap m) :
    EqEof (foreign p (lines ((rewrites p ms fs).content .hosts)))
      (foreign p (lines (fs.content .hosts))) :=
  foreign_rewrites p ms hms fs

/-- …and they are *exactly* the same list when the original non-own lines end in a non-blank
line (`Trimmed`) — in particular whenever the file had no line of `p` at all. -/
theorem C14_history_foreign_lines_exact (p : Nat) (fs : Fs) (ms : List HostMap)
    (hms : ∀ m ∈ ms, LineMap m) (hT : Trimmed (foreign p (lines (fs.content .hosts)))) :
    foreign p (lines ((rewrites p ms fs).content .hosts)) = foreign p (lines (fs.content .hosts)) :=
  foreign_rewrites_exact p ms hms fs hT

example : Trimmed (foreign 10 (lines (some [97, 10, 35, 32, 99, 10]))) := by
  have : foreign 10 (lines (some [97, 10, 35, 32, 99, 10])) = lines (some [97, 10, 35, 32, 99, 10]) := by
    decide
  rw [this]; exact lines_trimmed _

/-- **Crash at any point of any rewrite, then recovery.**  After any history `ms1`, the helper
dies after the first `k` file-system operations of a further rewrite (any `k`, any map — this also
covers an operation refused by the environment, which leaves the state of the operations before
it), leaving its temporary behind; then any further history `ms2` follows (the clean-up of the
same helper, or a later session on the same port).  The lines of everybody else are still the same
file.  `Apart`: in the initial file system the temporary is not another name of the hosts file. -/
theorem C14_history_crash_recovery (p : Nat) (fs : Fs) (ha : Apart fs p)
    (ms1 : List HostMap) (h1 : ∀ m ∈ ms1, LineMap m) (hm : HostMap) (hhm : LineMap hm) (k : Nat)
    (ms2 : List HostMap) (h2 : ∀ m ∈ ms2, LineMap m) :
    EqEof (foreign p (lines ((rewrites p ms2 (after k (rewrite hm p) (rewrites p ms1 fs))).content .hosts)))
      (foreign p (lines (fs.content .hosts))) := by
  have hA := foreign_rewrites p ms2 h2 (after k (rewrite hm p) (rewrites p ms1 fs))
  have hC := foreign_rewrites p ms1 h1 fs
  have hB : EqEof (foreign p (lines ((after k (rewrite hm p) (rewrites p ms1 fs)).content .hosts)))
      (foreign p (lines ((rewrites p ms1 fs).content .hosts))) := by
    rcases after_rewrite hm p (rewrites p ms1 fs) (apart_rewrites p ms1 fs ha).tmpApart k with h | h
    · rw [h]; rfl
    · rw [h]; exact foreign_new_content p hm hhm _
  exact hA.trans (hB.trans hC)

/-- a file system with a hosts file and a stale temporary of port 10 satisfies `Apart` -/
example : Apart ((Fs.empty.create .hosts [97, 10] newPerm).create (.tmp 10) [98] newPerm) 10 := by
  refine ⟨?_, ?_, ?_⟩ <;> intro i h1
  · simp [Fs.create, Fs.empty] at h1 ⊢; omega
  · simp [Fs.create, Fs.empty] at h1 ⊢; omega
  · intro h2; simp [Fs.create, Fs.empty] at h1 h2; omega

/-! ## 5. Instances side by side, rewrites not overlapping -/

/-- **Any history of several instances whose rewrites do not overlap in time.**  `P` is the set
of ports of the running instances; `es` any sequence of complete rewrites `(port, host map)`
by them (publishing, updating, restoring = empty map), names/addresses free of line breaks and
`#`; the original file has no line carrying a marker of these ports.  Then at the end the lines
carrying none of their markers are exactly the original lines, unchanged and in order, and each
instance's block is exactly its current host lines (`curMaps`: the map it published last, empty
if it restored or never published) — nobody's lines are lost or resurrected. -/
theorem C14_serial_instances (P : List Nat) (fs : Fs) (es : List (Nat × HostMap))
    (hP : ∀ e ∈ es, e.1 ∈ P) (hs : ∀ e ∈ es, SaneMap e.2)
    (hclean : ∀ r ∈ P, ∀ l ∈ lines (fs.content .hosts), ownB r l = false) :
    base P (lines ((serial es fs).content .hosts)) = lines (fs.content .hosts) ∧
    ∀ r ∈ P, block r (lines ((serial es fs).content .hosts)) =
      hostLines r (curMaps es (fun _ => []) r) := by
  have h0 : SerialInv P (lines (fs.content .hosts)) fs (fun _ => []) :=
    ⟨[], by simp, by simp, fun r _ => by simp [block, hostLines_nil]⟩
  exact serialInv_base hclean (serialInv_run (lines_trimmed _) hclean es hP hs h0)

/-- two instances publishing, one updating, one restoring, over a file with a comment line -/
example :
    let es : List (Nat × HostMap) :=
      [(10, [([104], [49])]), (100, [([105], [50])]), (10, [([104], [49]), ([106], [51])]), (100, [])]
    (∀ e ∈ es, e.1 ∈ [10, 100]) ∧ (∀ e ∈ es, SaneMap e.2) ∧
    (∀ r ∈ [10, 100], ∀ l ∈ lines (some [35, 32, 99, 10]), ownB r l = false) := by
  refine ⟨by decide, ?_, by decide⟩
  intro e he
  simp only [List.mem_cons, List.not_mem_nil, or_false] at he
  rcases he with rfl | rfl | rfl | rfl <;> intro x hx <;> simp at hx
  · subst hx; decide
  · subst hx; decide
  · rcases hx with rfl | rfl <;> decide

/-- **Only what each instance published last matters, not the order.**  Two non-overlapping
histories in which every port ends with the same map leave the same other lines and the same
block per port. -/
theorem C14_serial_order_irrelevant (P : List Nat) (fs : Fs) (es1 es2 : List (Nat × HostMap))
    (hP1 : ∀ e ∈ es1, e.1 ∈ P) (hs1 : ∀ e ∈ es1, SaneMap e.2)
    (hP2 : ∀ e ∈ es2, e.1 ∈ P) (hs2 : ∀ e ∈ es2, SaneMap e.2)
    (hclean : ∀ r ∈ P, ∀ l ∈ lines (fs.content .hosts), ownB r l = false)
    (hsame : ∀ r ∈ P, curMaps es1 (fun _ => []) r = curMaps es2 (fun _ => []) r) :
    base P (lines ((serial es1 fs).content .hosts)) = base P (lines ((serial es2 fs).content .hosts)) ∧
    ∀ r ∈ P, block r (lines ((serial es1 fs).content .hosts)) =
      block r (lines ((serial es2 fs).content .hosts)) := by
  obtain ⟨a1, b1⟩ := C14_serial_instances P fs es1 hP1 hs1 hclean
  obtain ⟨a2, b2⟩ := C14_serial_instances P fs es2 hP2 hs2 hclean
  exact ⟨a1.trans a2.symm, fun r hr => by rw [b1 r hr, b2 r hr, hsame r hr]⟩

/-- **Two instances on different ports that do not overlap in time commute**: whichever rewrites
first, the other lines are the original ones and each instance's block is its own host lines
(the F10 finding below is about *overlapping* rewrites only). -/
theorem C14_two_instances_commute (fs : Fs) (p q : Nat) (hpq : p ≠ q) (hp hq : HostMap)
    (hsp : SaneMap hp) (hsq : SaneMap hq)
    (hclean : ∀ r ∈ [p, q], ∀ l ∈ lines (fs.content .hosts), ownB r l = false) :
    let pq := finish (rewrite hq q) (finish (rewrite hp p) fs)
    let qp := finish (rewrite hp p) (finish (rewrite hq q) fs)
    base [p, q] (lines (pq.content .hosts)) = base [p, q] (lines (qp.content .hosts)) ∧
    block p (lines (pq.content .hosts)) = block p (lines (qp.content .hosts)) ∧
    block q (lines (pq.content .hosts)) = block q (lines (qp.content .hosts)) ∧
    block p (lines (pq.content .hosts)) = hostLines p hp ∧
    block q (lines (pq.content .hosts)) = hostLines q hq := by
  intro pq qp
  have hP1 : ∀ e ∈ [(p, hp), (q, hq)], e.1 ∈ [p, q] := by
    intro e he; simp at he; rcases he with rfl | rfl <;> simp
  have hP2 : ∀ e ∈ [(q, hq), (p, hp)], e.1 ∈ [p, q] := by
    intro e he; simp at he; rcases he with rfl | rfl <;> simp
  have hs1 : ∀ e ∈ [(p, hp), (q, hq)], SaneMap e.2 := by
    intro e he; simp at he; rcases he with rfl | rfl <;> assumption
  have hs2 : ∀ e ∈ [(q, hq), (p, hp)], SaneMap e.2 := by
    intro e he; simp at he; rcases he with rfl | rfl <;> assumption
  have hsame : ∀ r ∈ [p, q], curMaps [(p, hp), (q, hq)] (fun _ => []) r =
      curMaps [(q, hq), (p, hp)] (fun _ => []) r := by
    intro r hr
    simp only [List.mem_cons, List.not_mem_nil, or_false] at hr
    have hqp : q ≠ p := fun e => hpq e.symm
    rcases hr with rfl | rfl <;> simp [curMaps, hpq, hqp]
  obtain ⟨hb, hbl⟩ := C14_serial_order_irrelevant [p, q] fs _ _ hP1 hs1 hP2 hs2 hclean hsame
  obtain ⟨_, hblk⟩ := C14_serial_instances [p, q] fs [(p, hp), (q, hq)] hP1 hs1 hclean
  have hqp : q ≠ p := fun e => hpq e.symm
  refine ⟨hb, hbl p (by simp), hbl q (by simp), ?_, ?_⟩
  · have := hblk p (by simp); simpa [curMaps, hpq, serial] using this
  · have := hblk q (by simp); simpa [curMaps, hqp, serial] using this

example : (10 : Nat) ≠ 100 ∧ SaneMap [([104], [49])] ∧
    (∀ r ∈ [10, 100], ∀ l ∈ lines (some [35, 32, 99, 10]), ownB r l = false) := by
  refine ⟨by decide, ?_, by decide⟩
  intro e he; simp at he; subst he; decide

/-! ## 6. Instances side by side, rewrites overlapping: FALSE of the code -/

/-- The full statement: whatever the order in which two instances' operations interleave,
once both rewrites are complete the file holds both blocks. -/
def C14_concurrent_full : Prop :=
  ∀ (fs : Fs) (pa pb : Nat) (hma hmb : HostMap) (s : List Bool),
    pa ≠ pb → SaneMap hma → SaneMap hmb →
    block pa (lines ((interleave s ⟨rewrite hma pa, rewrite hmb pb, fs⟩).finish.content .hosts)) =
        hostLines pa hma ∧
    block pb (lines ((interleave s ⟨rewrite hma pa, rewrite hmb pb, fs⟩).finish.content .hosts)) =
        hostLines pb hmb

/-- the witness: no hosts file; A (port 1, host "a" → "1") reads; B (port 2, host "b" → "2")
runs completely; A finishes -/
def raceSchedule : List Bool := true :: List.replicate 8 false

/-- **Lost update.**  `C14_concurrent_full` is false of the code: in the witness run the file
ends without B's line. -/
theorem C14_concurrent_full_false : ¬ C14_concurrent_full := by
  intro h
  have := (h Fs.empty 1 2 [([97], [49])] [([98], [50])] raceSchedule (by decide)
    (by intro e he; simp only [List.mem_singleton] at he; subst he; decide)
    (by intro e he; simp only [List.mem_singleton] at he; subst he; decide)).2
  revert this
  decide

/-- The same for an ending instance: once B's restore is complete and A's overlapping rewrite
is complete, none of B's lines is in the file. -/
def C14_concurrent_restore_full : Prop :=
  ∀ (fs : Fs) (pa pb : Nat) (hma hmb : HostMap) (s : List Bool),
    pa ≠ pb → SaneMap hma → SaneMap hmb → hmb ≠ [] →
    block pb (lines ((interleave s ⟨rewrite hma pa, restore hmb pb, fs⟩).finish.content .hosts)) = []

/-- the starting state of the second witness: both instances have published one host -/
def bothPublished : Fs :=
  finish (rewrite [([98], [50])] 2) (finish (rewrite [([97], [49])] 1) Fs.empty)

/-- **Resurrection.**  A reads the file (with B's line in it), B restores completely, A
finishes: B's line is back although B has ended. -/
theorem C14_concurrent_resurrection : ¬ C14_concurrent_restore_full := by
  intro h
  have := h bothPublished 1 2 [([97], [49]), ([99], [51])] [([98], [50])]
    (true :: List.replicate 10 false) (by decide)
    (by intro e he; simp only [List.mem_cons, List.not_mem_nil, or_false] at he
        rcases he with rfl | rfl <;> decide)
    (by intro e he; simp only [List.mem_singleton] at he; subst he; decide)
    (by simp)
  revert this
  decide

end Sshuttle.Hosts
