/-
C03 — Traffic is intercepted exactly when its most specific subnet entry is an include.

Property theorems only; helper lemmas are in `Lemmas/FwRules.lean` (sort key, first/last
match over sorted lists, key order = spec precedence), `Lemmas/FwRulesWalk.lean`,
`Lemmas/FwRulesNat.lean`, `Lemmas/FwRulesNft.lean`, `Lemmas/FwRulesTproxy.lean` (chain walks with
non-terminating MARK, command loading, `Mask32Safe`), `Lemmas/FwRulesPf.lean`.

Reading guide.  `Call` = the arguments of one `setup_firewall` call (one family, as
`firewall.main` makes it); `natCmds c` etc. = the commands the method issues; `load` = the
rule tables after those commands; `verdictNat` etc. = the kernel's packet walk
(`Env/PacketWalk.lean`); `Spec.expectedCall c honoursOwner forwardsUdp p` = the property text
(`Spec/MostSpecific.lean`).
-/
import SshuttleModel.Lemmas.FwRulesNat
import SshuttleModel.Lemmas.FwRulesNft
import SshuttleModel.Lemmas.FwRulesPf
import SshuttleModel.Lemmas.FwRulesTproxy
import SshuttleModel.Lemmas.FwRulesCompose

namespace Sshuttle.Fw

/-! ## 0. The generated parameters the model was written for -/

/-- `subnet_weight` still has the shape `(-s[-1] + (s[-2] or -N), s[1], s[2])`, and the
"no port" weight `N` makes a port-less entry wider than the widest range `1-65535`. -/
theorem C03_params_weight :
    Gen.C03.WEIGHT_SHAPE_OK = true ∧ Gen.C03.WEIGHT_NOPORT ≥ 65535 ∧
    Gen.C03.WEIGHT_INTS = [1, 2, Gen.C03.WEIGHT_NOPORT, 1, 2] := by decide

/-- nat, nft and tproxy walk the subnets in descending key order (first match), pf in
ascending order (last match); all redirect DNS for port 53. -/
theorem C03_params_order :
    Gen.C03.NAT_SORT_REVERSE = true ∧ Gen.C03.NFT_SORT_REVERSE = true ∧
    Gen.C03.TPROXY_SORT_REVERSE = true ∧ Gen.C03.PF_SORT_REVERSE = false ∧
    Gen.C03.NAT_DNS_PORT = 53 ∧ Gen.C03.NFT_DNS_PORT = 53 ∧ Gen.C03.TPROXY_DNS_PORT = 53 ∧
    Gen.C03.PF_FREEBSD_DNS_PORT = 53 ∧ Gen.C03.PF_OPENBSD_DNS_PORT = 53 := by decide

/-- nft: the packet walk (`verdictNft`) takes the chain NAMED `output` for locally generated
packets and the chain NAMED `prerouting` for forwarded ones.  That is the kernel's behaviour only
if each of the two base chains is declared `type nat hook <its own name>`; the declarations are
re-read from `nft.py` on every run and pinned here (the hook attachment itself is evaluated by
the harness's oracle, which traverses base chains by the hook they were registered at). -/
theorem C03_params_nft_hooks : Gen.C03.NFT_BASE_HOOKS_OK = true := by decide

/-! ## 1. The ordering argument, independent of any method -/

/-- `key_order_iff_spec_order`: on well-formed entries, "takes precedence" in the sense of
the property (narrower port range, then longer prefix, then exclusion) is exactly "has a
strictly larger `subnet_weight`". -/
theorem C03_key_order_is_spec_order (a b : Subnet) (ha : Spec.WfEntry a) (hb : Spec.WfEntry b) :
    Spec.beats a b = !keyLe (weight a) (weight b) := beats_iff_not_keyLe a b ha hb

/-- `firstMatch_sortedDesc` + `equalKey_sameVerdict`: for **every** list of well-formed
entries and every packet, the first entry of `sorted(subnets, key=subnet_weight,
reverse=True)` that matches the packet is an include iff the most specific matching entry
(in the property's sense) is an include; there is no such first entry iff nothing matches.
Stability of the sort and the order of equal keys do not matter. -/
theorem C03_first_match_sorted_desc (subs : List Subnet) (p : Pkt)
    (hwf : ∀ s ∈ subs, Spec.WfEntry s) :
    match (sortDesc subs).find? (fun s => Spec.entryMatches s p) with
    | none => Spec.mostSpecificIsInclude subs p = false
    | some s0 => s0 ∈ subs ∧ Spec.entryMatches s0 p = true ∧
        Spec.mostSpecificIsInclude subs p = !s0.excl :=
  find?_sortDesc_spec subs _ p (fun _ _ => rfl) hwf

/-- `lastMatch_sortedAsc` (pf): the same for the last matching entry of the ascending sort. -/
theorem C03_last_match_sorted_asc (subs : List Subnet) (p : Pkt)
    (hwf : ∀ s ∈ subs, Spec.WfEntry s) :
    match ((sortAsc subs).filter (fun s => Spec.entryMatches s p)).getLast? with
    | none => Spec.mostSpecificIsInclude subs p = false
    | some s0 => s0 ∈ subs ∧ Spec.entryMatches s0 p = true ∧
        Spec.mostSpecificIsInclude subs p = !s0.excl :=
  getLast?_sortAsc_spec subs _ p (fun _ _ => rfl) hwf

/-! ## 2. nat -/

/-- **C03 for the nat method.**  For every `setup_firewall` call of a supported family whose
entries are well-formed and of that family (what `firewall.main` passes), and every packet of
that family that does not already carry sshuttle's mark: the rules installed by nat divert it to
the DNS port iff it is UDP/53 to a listed name server, to the proxy port iff it is TCP and its
most specific matching entry is an include, and leave it alone otherwise; with `--user` or
`--group` only locally generated packets of that owner are eligible.  Every address, port,
protocol, origin and owner is covered (no enumeration).  The statement holds for local
destinations as well: nat's `--dst-type LOCAL` RETURN is the last rule of the chain and
therefore changes no verdict (see `C03_nat_local_destination_can_be_diverted`). -/
theorem C03_nat (c : Call) (p : Pkt)
    (hfam : c.family = AF_INET ∨ c.family = AF_INET6) (hp : p.fam6 = isV6 c.family)
    (hwf : ∀ s ∈ c.subnets, Spec.WfEntry s ∧ s.fam = c.family)
    (hmark : p.mark ≠ some (toString c.port)) :
    verdictNat (load (natCmds c)) p = Spec.expectedCall c true false p :=
  nat_verdict c p hfam hp hwf hmark

/-- The hypotheses of `C03_nat` are satisfiable by a non-trivial call (overlapping entries
with ports, a name server, an owner restriction), and the verdict is a diversion. -/
example :
    let c : Call := { port := 12300, dnsport := 12299, nslist := [⟨2, "10.0.0.53", 167772213⟩],
                      family := 2,
                      subnets := [⟨2, 8, false, "10.0.0.0", 167772160, 0, 0⟩,
                                  ⟨2, 16, true, "10.1.0.0", 167837696, 80, 90⟩],
                      udp := false, user := some "alice", group := none, tmark := "0x01" }
    let p : Pkt := { fam6 := false, dst := 167838211, dport := 443, proto := .tcp, loc := true,
                     dstLocal := false, uid := "alice" }
    (c.family = AF_INET ∨ c.family = AF_INET6) ∧ p.fam6 = isV6 c.family ∧
    (∀ s ∈ c.subnets, Spec.WfEntry s ∧ s.fam = c.family) ∧ p.mark ≠ some (toString c.port) ∧
    Spec.expectedCall c true false p = .divert 12300 := by
  decide

/-- `natSetup` issues exactly `natCmds` for a supported family without UDP, and raises otherwise. -/
theorem C03_nat_setup (c : Call) :
    natSetup c = if c.family ≠ AF_INET ∧ c.family ≠ AF_INET6 then .exc "family"
                 else if c.udp then .exc "udp" else .ok (natCmds c) := rfl

/-! ## 3. nft -/

/-- **C03 for the nft method**, per table (one `setup_firewall` call).  The table
`sshuttle-ipv{4,6}-PORT` lives in the `inet` family and sees packets of both families: a packet
of the call's family with a non-local destination is diverted exactly as the property says
(nft has no owner restriction and forwards no UDP); a packet of the **other** family is left
alone by this table (`meta nfproto != … return`).  Locally generated and forwarded alike. -/
theorem C03_nft (c : Call) (p : Pkt) (mark : Option String)
    (hfam : c.family = AF_INET ∨ c.family = AF_INET6)
    (hwf : ∀ s ∈ c.subnets, Spec.WfEntry s ∧ s.fam = c.family)
    (hnl : p.dstLocal = false) :
    (walkChain (load (nftCmds c)) (.nft (isV6 c.family) c.port) p walkFuel
        (if p.loc then .nftOutput else .nftPrerouting) mark).verdict =
      if p.fam6 = isV6 c.family then Spec.expectedCall c false false p else .untouched :=
  nft_table_verdict c p mark hfam hwf hnl

/-- Hypotheses of `C03_nft` hold for a call with a single-port exclusion inside a ranged
include; the IPv4 table leaves an IPv6 packet alone. -/
example :
    let c : Call := { port := 12300, dnsport := 12299, nslist := [], family := 2,
                      subnets := [⟨2, 24, false, "1.2.3.0", 16909056, 8000, 9000⟩,
                                  ⟨2, 32, true, "1.2.3.66", 16909122, 8080, 8080⟩],
                      udp := false, user := none, group := none, tmark := "0x01" }
    (c.family = AF_INET ∨ c.family = AF_INET6) ∧
    (∀ s ∈ c.subnets, Spec.WfEntry s ∧ s.fam = c.family) ∧
    Spec.expectedCall c false false
      { fam6 := false, dst := 16909122, dport := 8081, proto := .tcp, loc := false, dstLocal := false }
      = .divert 12300 ∧
    Spec.expectedCall c false false
      { fam6 := false, dst := 16909122, dport := 8080, proto := .tcp, loc := false, dstLocal := false }
      = .untouched := by
  decide

/-- In C03 terms of candidate finding F13: the rules nft, tproxy and pf generate do not depend
on `user` / `group` at all (only nat honours an owner restriction). -/
theorem C03_owner_ignored_by_nft_tproxy_pf (c : Call) (u g : Option String) :
    nftCmds { c with user := u, group := g } = nftCmds c ∧
    tproxyCmds { c with user := u, group := g } = tproxyCmds c ∧
    pfCallRules .freebsd { c with user := u, group := g } = pfCallRules .freebsd c ∧
    pfCallRules .openbsd { c with user := u, group := g } = pfCallRules .openbsd c :=
  ⟨rfl, rfl, rfl, rfl⟩

/-! ## 4. pf -/

/-- **C03 for the pf method**, per anchor (one `setup_firewall` call), for the FreeBSD/Darwin
rule set (`rdr pass on lo0 …` first match + `pass out route-to lo0 …` last match) and the OpenBSD
rule set (`pass in on lo0 … divert-to/rdr-to` + `pass out … route-to lo0`, all last match).
For every call of a supported family whose entries are well-formed and of that family and whose
name servers are of that family (what `firewall.main` passes), and every packet whose source is
not the loopback address: a packet of the call's family is handed to the DNS listener iff it is
UDP/53 to a listed name server, to the proxy iff it is TCP and its most specific matching entry
is an include (the LAST matching `pass out` rule of the ascending sort is a `route-to` rule,
and on `lo0` a translation rule for the proxy port then matches), and left alone otherwise; a
packet of the other family is left alone (`inet` / `inet6`).  pf has no owner restriction and
forwards no UDP.  The pf evaluation model is taken from the manual pages (not validated: no pf
in the sandbox). -/
theorem C03_pf (os : PfOs) (c : Call) (p : Pkt)
    (hfam : c.family = AF_INET ∨ c.family = AF_INET6)
    (hwf : ∀ s ∈ c.subnets, Spec.WfEntry s ∧ s.fam = c.family)
    (hns : ∀ ns ∈ c.nslist, ns.fam = c.family) (hsrc : p.srcLo = false) :
    verdictPfAnchor os (pfCallRules os c) p =
      if p.fam6 = isV6 c.family then Spec.expectedCall c false false p else .untouched :=
  pf_anchor_verdict os c p hfam hwf hns hsrc

/-- Hypotheses of `C03_pf` hold for a call where a narrow-port exclude on a short prefix beats a
port-less include on a long prefix; one packet is diverted, its neighbour port is not. -/
example :
    let c : Call := { port := 12300, dnsport := 12299, nslist := [⟨2, "10.0.0.53", 167772213⟩],
                      family := 2,
                      subnets := [⟨2, 8, true, "10.0.0.0", 167772160, 443, 443⟩,
                                  ⟨2, 32, false, "10.1.2.3", 167838211, 0, 0⟩],
                      udp := false, user := none, group := none, tmark := "0x01" }
    (c.family = AF_INET ∨ c.family = AF_INET6) ∧
    (∀ s ∈ c.subnets, Spec.WfEntry s ∧ s.fam = c.family) ∧ (∀ ns ∈ c.nslist, ns.fam = c.family) ∧
    Spec.expectedCall c false false
      { fam6 := false, dst := 167838211, dport := 444, proto := .tcp, loc := true, dstLocal := false }
      = .divert 12300 ∧
    Spec.expectedCall c false false
      { fam6 := false, dst := 167838211, dport := 443, proto := .tcp, loc := true, dstLocal := false }
      = .untouched := by
  decide

/-- The filter step of `C03_pf` on its own: for a TCP packet of the call's family the last
matching `pass out` rule of the anchor is a `route-to lo0` rule iff the most specific matching
entry is an include. -/
theorem C03_pf_last_match_filter (os : PfOs) (c : Call) (p : Pkt)
    (hfam : c.family = AF_INET ∨ c.family = AF_INET6)
    (hwf : ∀ s ∈ c.subnets, Spec.WfEntry s ∧ s.fam = c.family)
    (hp : p.fam6 = isV6 c.family) (hpr : p.proto = .tcp) :
    ((pfOutMatches c.nslist p (pfCallRules os c)).getLast? = some true) ↔
      Spec.mostSpecificIsInclude c.subnets p = true :=
  pf_filter_tcp os c p hfam hwf hp hpr

/-- pf's `setup_firewall` with an empty subnet list reaches the unplanned
`UnboundLocalError: includes` (pf.py:459-473); otherwise it loads exactly `pfCallRules`. -/
theorem C03_pf_setup (os : PfOs) (c : Call)
    (hfam : c.family = AF_INET ∨ c.family = AF_INET6) (hudp : c.udp = false) :
    pfSetup os c = if c.subnets.isEmpty then .internalError "includes unbound"
                   else .ok [.pfLoad (isV6 c.family) c.port (pfCallRules os c)] := by
  unfold pfSetup
  rcases hfam with h | h <;> simp [h, hudp, af_inet, af_inet6]

/-! ## 5. tproxy -/

/-- **Partial** (the full statement — for both families — is false of the code, see
`C03_tproxy_dns_mask32_v6_false`): tproxy's DNS rules `--dest <ns>/32` match exactly UDP port 53
to the listed name server **when the family is IPv4** (the mask equals the address width), in
both chains.  The excluded case (IPv6 name server) is the known finding
`C03:tproxy:ipv6-ns-mask32:dns-divert-of-non-nameserver`. -/
theorem C03_tproxy_dns_rule_partial (ns : Ns) (p : Pkt) (mark : Option String)
    (hp : p.fam6 = false) :
    matchRule (tproxyDnsMatch false ns) p mark =
      (p.proto == .udp && p.dport == 53 && ns.addr == p.dst) :=
  tproxyDns_match_v4 ns p mark hp

/-- `C03_tproxy_dns_rule_partial` is about a non-trivial rule: it does match the name server. -/
example :
    matchRule (tproxyDnsMatch false ⟨2, "10.0.0.53", 167772213⟩)
      { fam6 := false, dst := 167772213, dport := 53, proto := .udp, loc := true, dstLocal := false }
      none = true := by decide

/-- The code renders `--dest <ns>/32` for IPv6 too (`tproxyDnsWidth true = 32`).  With that mask the rule
matches UDP/53 to addresses that are not the name server: the statement "the DNS rule matches
only the name server" is false for mask 32 in IPv6 (witness: `2404:6800:4004:80c::33` vs
`2404:6800:4004:80c::34`). -/
theorem C03_tproxy_dns_mask32_v6_false :
    ¬ (∀ (ns : Ns) (p : Pkt), p.fam6 = true →
        destMatch ⟨true, ns.ip, ns.addr, some (tproxyDnsWidth true)⟩ p = true → p.dst = ns.addr) := by
  intro h
  have := h ⟨10, "2404:6800:4004:80c::33", 47875086426101804840912601426304172083⟩
    { fam6 := true, dst := 47875086426101804840912601426304172084, dport := 53, proto := .udp,
      loc := true, dstLocal := false } rfl (by decide)
  revert this
  decide

/-- **C03 for the tproxy method — partial only in the one class of the known finding.**
For every `setup_firewall` call of a supported family whose entries are well-formed and of that
family, with or without UDP forwarding, and every packet of that family that has a non-local
destination, belongs to no existing local socket (a new flow: `-m socket` is false) and does not
already carry sshuttle's mark: the whole pipeline — mangle OUTPUT → `sshuttle-m-PORT` (MARK is
non-terminating) → policy routing on the mark → mangle PREROUTING → `sshuttle-t-PORT` (with the
`-m socket` → `sshuttle-d-PORT` rules and the interleaved tcp/udp rules) for a locally generated
packet, mangle PREROUTING alone for a forwarded one — hands the packet to the DNS listener iff it
is UDP/53 to a listed name server, to the proxy iff it is TCP (or UDP when UDP is forwarded) and
its most specific matching entry is an include, and leaves it alone otherwise.
The excluded case is the hypothesis `Mask32Safe c p`: for an IPv6 call, a UDP/53 packet inside
the /32 of a listed name server must be that name server (known finding
`C03:tproxy:ipv6-ns-mask32:dns-divert-of-non-nameserver`; without it the statement is false,
`C03_tproxy_dns_mask32_v6_false`). -/
theorem C03_tproxy_partial (c : Call) (p : Pkt)
    (hfam : c.family = AF_INET ∨ c.family = AF_INET6) (hp : p.fam6 = isV6 c.family)
    (hwf : ∀ s ∈ c.subnets, Spec.WfEntry s ∧ s.fam = c.family)
    (hnl : p.dstLocal = false) (hsock : p.hasSocket = false)
    (hmark : p.mark ≠ some c.tmark) (hs : Mask32Safe c p) :
    verdictTproxy (load (tproxyCmds c)) p = Spec.expectedCall c false c.udp p :=
  tproxy_verdict c p hfam hp hwf hnl hsock hmark hs

/-- **C03 for tproxy, IPv4: the full statement** (no exclusion). -/
theorem C03_tproxy_v4 (c : Call) (p : Pkt)
    (hfam : c.family = AF_INET) (hp : p.fam6 = false)
    (hwf : ∀ s ∈ c.subnets, Spec.WfEntry s ∧ s.fam = c.family)
    (hnl : p.dstLocal = false) (hsock : p.hasSocket = false) (hmark : p.mark ≠ some c.tmark) :
    verdictTproxy (load (tproxyCmds c)) p = Spec.expectedCall c false c.udp p := by
  have hv : isV6 c.family = false := by rw [hfam]; decide
  exact tproxy_verdict c p (Or.inl hfam) (by rw [hp, hv]) hwf hnl hsock hmark (mask32Safe_v4 c p hv)

/-- Hypotheses of `C03_tproxy_partial` hold for a UDP-forwarding IPv6 call with a ranged include,
a single-port exclude inside it and a name server; the verdicts are not all `untouched`. -/
example :
    let c : Call := { port := 12300, dnsport := 12299,
                      nslist := [⟨10, "2404:6800:4004:80c::33", 47875086426101804840912601426304172083⟩],
                      family := 10,
                      subnets := [⟨10, 64, false, "2404:6800:4004:80c::", 47875086426101804840912601426304172032, 8000, 9000⟩,
                                  ⟨10, 128, true, "2404:6800:4004:80c::101f", 47875086426101804840912601426304176159, 8080, 8080⟩],
                      udp := true, user := none, group := none, tmark := "0x01" }
    let p : Pkt := { fam6 := true, dst := 47875086426101804840912601426304176159, dport := 8081,
                     proto := .udp, loc := true, dstLocal := false }
    (c.family = AF_INET ∨ c.family = AF_INET6) ∧ p.fam6 = isV6 c.family ∧
    (∀ s ∈ c.subnets, Spec.WfEntry s ∧ s.fam = c.family) ∧ p.hasSocket = false ∧
    p.mark ≠ some c.tmark ∧ Mask32Safe c p ∧
    Spec.expectedCall c false c.udp p = .divert 12300 := by
  refine ⟨by decide, by decide, by decide, by decide, by decide, ?_, by decide⟩
  intro _ _ h; revert h; decide

/-- tproxy, packets to one of the host's own addresses (`-m addrtype --dst-type LOCAL` in both
chains, placed after the DNS rules): nothing but DNS to a listed name server is taken, whatever
the subnet entries say — so a `0/0` include does not swallow connections to the machine itself
(nor the packets TPROXY has already delivered locally). -/
theorem C03_tproxy_local_destination (c : Call) (p : Pkt)
    (hfam : c.family = AF_INET ∨ c.family = AF_INET6) (hp : p.fam6 = isV6 c.family)
    (hl : p.dstLocal = true) (hmark : p.mark ≠ some c.tmark) (hs : Mask32Safe c p) :
    verdictTproxy (load (tproxyCmds c)) p =
      if Spec.isDnsToNs c.nslist p then .divert c.dnsport else .untouched :=
  tproxy_verdict_local c p hfam hp hl hmark hs

/-- `C03_tproxy_chains_agree`: under the hypotheses of `C03_tproxy_partial`, the OUTPUT-side
chain `sshuttle-m-PORT` leaves a packet marked with `tmark` iff the PREROUTING-side chain
`sshuttle-t-PORT` hands it to one of the listeners — so exactly the locally generated packets
that must be intercepted are re-routed to `lo`, and each of them is then taken by TPROXY. -/
theorem C03_tproxy_chains_agree (c : Call) (call call' : ChainName → Option String → Res)
    (p : Pkt) (m0 mark : Option String)
    (hfam : c.family = AF_INET ∨ c.family = AF_INET6) (hp : p.fam6 = isV6 c.family)
    (hwf : ∀ s ∈ c.subnets, Spec.WfEntry s ∧ s.fam = c.family)
    (hnl : p.dstLocal = false) (hsock : p.hasSocket = false)
    (hm0 : m0 ≠ some c.tmark) (hs : Mask32Safe c p) :
    (walkList call p (tproxyMarkChain c) m0 = .fall (some c.tmark)) ↔
      ((walkList call' p (tproxyTproxyChain c) mark).verdict ≠ .untouched) := by
  rw [tproxyMark_walk c call p m0 hfam hp hwf hnl hs,
    tproxyChain_verdict c call' p mark hfam hp hwf hnl hsock hs, expectedCall_diverts]
  cases tproxyDiverts c p with
  | true => simp
  | false =>
    simp only [Bool.false_eq_true, if_false, iff_false]
    intro h; exact hm0 (Res.fall.inj h)

/-- `tproxySetup` issues exactly `tproxyCmds` for a supported family, and raises otherwise. -/
theorem C03_tproxy_setup (c : Call) :
    tproxySetup c = if c.family ≠ AF_INET ∧ c.family ≠ AF_INET6 then .exc "family"
                    else .ok (tproxyCmds c) := rfl

/-! ## 6. Local destinations (nat, nft; tproxy is `C03_tproxy_local_destination`) -/

/-- nft, packet to one of the host's own addresses (`fib daddr type local return` sits right
after the DNS rules): only DNS to a listed name server of the table's family is taken. -/
theorem C03_nft_local_destination (c : Call) (p : Pkt) (mark : Option String)
    (hfam : c.family = AF_INET ∨ c.family = AF_INET6) (hl : p.dstLocal = true) :
    (walkChain (load (nftCmds c)) (.nft (isV6 c.family) c.port) p walkFuel
        (if p.loc then .nftOutput else .nftPrerouting) mark).verdict =
      if p.fam6 = isV6 c.family ∧ Spec.isDnsToNs c.nslist p = true then .divert c.dnsport
      else .untouched :=
  nft_table_local c p mark hfam hl

/-- The corresponding statement is **false for nat**: its LOCAL rule comes after the subnet
rules, so a TCP connection to one of the host's own addresses that lies inside an include IS
redirected to the proxy (witness: include `0.0.0.0/0`, local destination 192.168.1.10).  The
property speaks about non-local destinations only, so this is behaviour, not a violation; the
client protects its own listener with an automatic exclude (C15). -/
theorem C03_nat_local_destination_can_be_diverted :
    ¬ (∀ (c : Call) (p : Pkt), (c.family = AF_INET ∨ c.family = AF_INET6) → p.fam6 = isV6 c.family →
        (∀ s ∈ c.subnets, Spec.WfEntry s ∧ s.fam = c.family) → p.mark ≠ some (toString c.port) →
        p.dstLocal = true → p.proto = .tcp → verdictNat (load (natCmds c)) p = .untouched) := by
  intro h
  let c : Call := { port := 12300, dnsport := 12299, nslist := [], family := 2,
                    subnets := [⟨2, 0, false, "0.0.0.0", 0, 0, 0⟩],
                    udp := false, user := none, group := none, tmark := "0x01" }
  let p : Pkt := { fam6 := false, dst := 3232235786, dport := 22, proto := .tcp, loc := true,
                   dstLocal := true }
  have h1 := h c p (by decide) (by decide) (by decide) (by decide) rfl rfl
  rw [nat_verdict c p (by decide) (by decide) (by decide) (by decide)] at h1
  revert h1
  decide

/-! ## 7. The two calls of `firewall.main` compose -/

/-- **nat, whole plan.**  `firewall.main` calls `setup_firewall` for IPv6 and then for IPv4 (each
only if that family has entries or name servers).  For every plan with well-formed entries and
every packet of EITHER family, the rule state after both calls gives the verdict of the property
evaluated on the whole plan: the calls do not disturb each other (iptables vs ip6tables), an
inactive family is left alone. -/
theorem C03_nat_plan (pl : Plan) (p : Pkt) (hwf : ∀ s ∈ pl.subnets, Spec.WfEntry s)
    (hmark : p.mark ≠ some (toString (if p.fam6 then pl.portV6 else pl.portV4))) :
    verdictNat (load (pl.cmds natCmds)) p = Spec.expected pl true false p :=
  nat_plan_verdict pl p hwf hmark

/-- **nft, whole plan**: the two `inet` tables `sshuttle-ipv6-P6` and `sshuttle-ipv4-P4` both see
every packet; together they give the property's verdict for either family. -/
theorem C03_nft_plan (pl : Plan) (p : Pkt) (hwf : ∀ s ∈ pl.subnets, Spec.WfEntry s)
    (hnl : p.dstLocal = false) :
    verdictNft (load (pl.cmds nftCmds)) pl.portV6 pl.portV4 p = Spec.expected pl false false p :=
  nft_plan_verdict pl p hwf hnl

/-- **tproxy, whole plan** (partial only in the known-finding class, as `C03_tproxy_partial`). -/
theorem C03_tproxy_plan_partial (pl : Plan) (p : Pkt) (hwf : ∀ s ∈ pl.subnets, Spec.WfEntry s)
    (hnl : p.dstLocal = false) (hsock : p.hasSocket = false) (hmark : p.mark ≠ some pl.tmark)
    (hs : Mask32Safe (pl.call p.fam6) p) :
    verdictTproxy (load (pl.cmds tproxyCmds)) p = Spec.expected pl false pl.udp p :=
  tproxy_plan_verdict pl p hwf hnl hsock hmark hs

/-- **pf, whole plan**: the anchors `sshuttle6-P6` and `sshuttle-P4` together (the main ruleset
evaluates both for every packet). -/
theorem C03_pf_plan (os : PfOs) (pl : Plan) (p : Pkt) (hwf : ∀ s ∈ pl.subnets, Spec.WfEntry s)
    (hsrc : p.srcLo = false) :
    verdictPf os (pl.cmds (pfCmds os)) p = Spec.expected pl false false p :=
  pf_plan_verdict os pl p hwf hsrc

/-- A plan with both families active, an IPv6 packet and an IPv4 packet, both diverted to their
family's port: the hypotheses of the plan theorems are satisfiable non-trivially. -/
example :
    let pl : Plan := { subnets := [⟨2, 8, false, "10.0.0.0", 167772160, 0, 0⟩,
                                   ⟨10, 0, false, "::", 0, 443, 443⟩,
                                   ⟨2, 16, true, "10.1.0.0", 167837696, 0, 0⟩],
                       nslist := [⟨10, "fd00::53", 336294682933583715844663186250927177811⟩],
                       portV6 := 12300, portV4 := 12299, dnsportV6 := 12298, dnsportV4 := 12297,
                       udp := false, user := none, group := none, tmark := "0x01" }
    (∀ s ∈ pl.subnets, Spec.WfEntry s) ∧ pl.active true = true ∧ pl.active false = true ∧
    Spec.expected pl true false
      { fam6 := true, dst := 42, dport := 443, proto := .tcp, loc := true, dstLocal := false } = .divert 12300 ∧
    Spec.expected pl true false
      { fam6 := false, dst := 167903232, dport := 22, proto := .tcp, loc := false, dstLocal := false } = .divert 12299 ∧
    Spec.expected pl true false
      { fam6 := false, dst := 167837697, dport := 22, proto := .tcp, loc := false, dstLocal := false } = .untouched := by
  decide

/-! ## 8. Set-up on top of a stale rule state -/

/-- **nft, stale table.**  From ANY rule state `rs0` — in particular one in which a killed earlier
session left the table `sshuttle-ipv{4,6}-PORT` behind with arbitrary old rules in the per-port
chain and stale jumps in its hook chains — the set-up flushes and refills the per-port chain, so
the verdicts are those of the NEW call.  (This is what the seeded changes M-C03-E / M-C03-K
break: without `flush chain` on the per-port chain the stale rules stay in front.) -/
theorem C03_nft_stale_state (c : Call) (rs0 : Ruleset) (p : Pkt) (mark : Option String)
    (hfam : c.family = AF_INET ∨ c.family = AF_INET6)
    (hwf : ∀ s ∈ c.subnets, Spec.WfEntry s ∧ s.fam = c.family) (hnl : p.dstLocal = false)
    (hold : ∀ b, b = ChainName.nftOutput ∨ b = ChainName.nftPrerouting →
      ∀ r ∈ rs0.get ⟨.nft (isV6 c.family) c.port, b⟩, r = ⟨{}, .jump (.nft (isV6 c.family) c.port)⟩) :
    (walkChain ((nftCmds c).foldl applyCmd rs0) (.nft (isV6 c.family) c.port) p walkFuel
        (if p.loc then .nftOutput else .nftPrerouting) mark).verdict =
      if p.fam6 = isV6 c.family then Spec.expectedCall c false false p else .untouched :=
  nft_stale_verdict c rs0 p mark hfam hwf hnl hold

/-- nft set-up writes only its own table: every chain of every other table (other ports, the
other family, iptables, foreign rules) is exactly what it was. -/
theorem C03_nft_setup_leaves_other_tables (c : Call) (rs0 : Ruleset) (k : ChainKey)
    (hk : k.sp ≠ .nft (isV6 c.family) c.port) :
    ((nftCmds c).foldl applyCmd rs0).get k = rs0.get k :=
  (nft_setup_from c rs0).2.2.2 k hk

/-- **nat, stale chains — partial** (the excluded case is hypothesis `hman`; without it the
statement is false, `C03_nat_stale_owner_rule_false`, known finding
`C03:stale-session:nat:stale-owner-mark:…`).  From ANY rule state in which killed sessions with the same port and
owner restriction left arbitrary old rules in `sshuttle-PORT` and stale copies of the jump rules
(nat OUTPUT / PREROUTING) and of the owner MARK rule (mangle OUTPUT): after `-F sshuttle-PORT`,
the `-I … 1` jumps and the new `-A` rules, the verdicts are those of the NEW call.  (The real
set-up first runs `restore_firewall`, which only deletes from these objects — C04 —, so the
states it leaves are among the states quantified over here.) -/
theorem C03_nat_stale_state_partial (c : Call) (rs0 : Ruleset) (p : Pkt)
    (hfam : c.family = AF_INET ∨ c.family = AF_INET6) (hp : p.fam6 = isV6 c.family)
    (hwf : ∀ s ∈ c.subnets, Spec.WfEntry s ∧ s.fam = c.family)
    (hmark : p.mark ≠ some (toString c.port))
    (hout : ∀ r ∈ rs0.get ⟨.ipt (isV6 c.family) .nat, .output⟩, r = natJumpRule c)
    (hpre : ∀ r ∈ rs0.get ⟨.ipt (isV6 c.family) .nat, .prerouting⟩, r = natJumpRule c)
    (hman : ∀ r ∈ rs0.get ⟨.ipt (isV6 c.family) .mangle, .output⟩, r = natOwnerRule c) :
    verdictNat ((natCmds c).foldl applyCmd rs0) p = Spec.expectedCall c true false p :=
  nat_stale_verdict c rs0 p hfam hp hwf hmark hout hpre hman

/-- Without `hman` the stale-state statement for nat is **false** of the code: a killed
`--user alice` session leaves `-m owner --uid-owner alice -j MARK --set-mark PORT` in mangle
OUTPUT; a new `--user bob` session on the same port deletes the old mark-matching jumps (same
arguments as its own) but looks for the MARK rule of ITS uid, so alice's rule stays, keeps
marking, and alice's TCP connections to bob's included subnets are diverted although the new
plan restricts interception to bob.  (`restore_firewall` cannot know the old owner; recorded as
a known finding.) -/
theorem C03_nat_stale_owner_rule_false :
    ¬ (∀ (c : Call) (rs0 : Ruleset) (p : Pkt),
        (c.family = AF_INET ∨ c.family = AF_INET6) → p.fam6 = isV6 c.family →
        (∀ s ∈ c.subnets, Spec.WfEntry s ∧ s.fam = c.family) →
        p.mark ≠ some (toString c.port) →
        (∀ r ∈ rs0.get ⟨.ipt (isV6 c.family) .nat, .output⟩, r = natJumpRule c) →
        (∀ r ∈ rs0.get ⟨.ipt (isV6 c.family) .nat, .prerouting⟩, r = natJumpRule c) →
        verdictNat ((natCmds c).foldl applyCmd rs0) p = Spec.expectedCall c true false p) := by
  intro h
  have h1 := h staleOwnerCall staleOwnerState staleOwnerPkt (by decide) (by decide) (by decide)
    (by decide) (by decide) (by decide)
  rw [staleOwner_diverted] at h1
  revert h1
  decide

/-- nat set-up writes only `sshuttle-PORT`, nat OUTPUT, nat PREROUTING and mangle OUTPUT of its
own family's binary (new rules in front of what was there); every other chain is what it was. -/
theorem C03_nat_setup_touches_only_own_chains (c : Call) (rs0 : Ruleset) (k : ChainKey)
    (h1 : k ≠ ⟨.ipt (isV6 c.family) .nat, .nat c.port⟩) (h2 : k ≠ ⟨.ipt (isV6 c.family) .nat, .output⟩)
    (h3 : k ≠ ⟨.ipt (isV6 c.family) .nat, .prerouting⟩)
    (h4 : k ≠ ⟨.ipt (isV6 c.family) .mangle, .output⟩) :
    ((natCmds c).foldl applyCmd rs0).get k = rs0.get k :=
  (nat_setup_from c rs0).2.2.2.2 k h1 h2 h3 h4

/-- The hypotheses of the stale-state theorems hold for a state in which a killed session left an
include-everything rule in the per-port chain and a stale jump. -/
example :
    let c : Call := { port := 12300, dnsport := 12299, nslist := [], family := 2,
                      subnets := [⟨2, 16, true, "10.1.0.0", 167837696, 0, 0⟩],
                      udp := false, user := none, group := none, tmark := "0x01" }
    let rs0 : Ruleset :=
      [(⟨.nft false 12300, .nft false 12300⟩,
          [nftSubnetRule false 12300 ⟨2, 0, false, "0.0.0.0", 0, 0, 0⟩]),
       (⟨.nft false 12300, .nftOutput⟩, [⟨{}, .jump (.nft false 12300)⟩])]
    (∀ b, b = ChainName.nftOutput ∨ b = ChainName.nftPrerouting →
      ∀ r ∈ rs0.get ⟨.nft (isV6 c.family) c.port, b⟩, r = ⟨{}, .jump (.nft (isV6 c.family) c.port)⟩) ∧
    rs0.get ⟨.nft false 12300, .nft false 12300⟩ ≠ [] := by
  refine ⟨?_, by decide⟩
  intro b hb
  rcases hb with rfl | rfl <;> decide

end Sshuttle.Fw
