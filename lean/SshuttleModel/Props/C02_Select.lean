/-
C02 — "drop the flow's handler": the moment the loop goes to sleep.

`ssnet.runonce` removes the handlers that have finished (`ok = False`) and runs every `pre_select`
before it calls `select`, where it may sleep for as long as nothing happens.  A handler that is
still in the list at that moment keeps the flow's sockets open for that long.  The theorem below
says that in the model of the loop (`Code/Loop.lean`: `roundHead` = the part of a pass before
`select`) no finished handler is listed when `select` is reached, whatever the world before the
pass; the harness checks the same thing on the real `runonce` at the call of `select`
(`<prop>:work:finished-handler-still-listed-when-the-loop-waits`).
Core Lean only.
-/
import SshuttleModel.Props.C02

namespace Sshuttle.Tunnel
open Sshuttle.Mux (Frame)
open Sshuttle.Wrap

/-- No handler of end `e` that has finished (`ok = false`) is in the handler list. -/
def NoDeadListed (e : End) (w : World) : Prop :=
  ∀ f ∈ w.flows, ∀ p, handlerAt e f = some p → p.ok = true

theorem preSelectFlags_ok (p : ProxyS) (m : MuxL) : (p.preSelectFlags m).1.ok = p.ok := by
  unfold ProxyS.preSelectFlags
  split <;> rfl

theorem mem_modifyAt {α : Type} (l : List α) (i : Nat) (g : α → α) (x : α) (h : x ∈ modifyAt l i g) :
    x ∈ l ∨ ∃ a, l[i]? = some a ∧ x = g a := by
  induction l generalizing i with
  | nil => simp [modifyAt] at h
  | cons a rest ih =>
    cases i with
    | zero =>
      simp only [modifyAt, List.mem_cons] at h
      rcases h with rfl | h
      · exact Or.inr ⟨a, by simp, rfl⟩
      · exact Or.inl (List.mem_cons_of_mem _ h)
    | succ i =>
      simp only [modifyAt, List.mem_cons] at h
      rcases h with rfl | h
      · exact Or.inl (List.mem_cons_self ..)
      · rcases ih i h with h | ⟨b, hb, rfl⟩
        · exact Or.inl (List.mem_cons_of_mem _ h)
        · exact Or.inr ⟨b, by simpa using hb, rfl⟩

/-- `runonce`'s clean-up leaves no finished handler of that end in the list. -/
theorem rm_noDead (w : World) (e : End) : NoDeadListed e (w.stepRaw (.removeDead e)) := by
  intro f hf p hp
  cases e
  · simp only [World.stepRaw, World.rmC, List.mem_map] at hf
    obtain ⟨g, _, rfl⟩ := hf
    cases hc : g.c with
    | none => simp [handlerAt, hc] at hp
    | some q =>
      simp only [hc] at hp
      by_cases hq : q.ok = true
      · simp only [hq, if_true, handlerAt, hc, Option.some.injEq] at hp
        subst hp; exact hq
      · simp [hq, handlerAt] at hp
  · simp only [World.stepRaw, World.rmS, List.mem_map] at hf
    obtain ⟨g, _, rfl⟩ := hf
    cases hc : g.s with
    | none => simp [handlerAt, hc] at hp
    | some q =>
      simp only [hc] at hp
      by_cases hq : q.ok = true
      · simp only [hq, if_true, handlerAt, hc, Option.some.injEq] at hp
        subst hp; exact hq
      · simp [hq, handlerAt] at hp

/-- A `pre_select` finishes nobody. -/
theorem pre_noDead (w : World) (e : End) (i : Nat) (h : NoDeadListed e w) :
    NoDeadListed e (w.stepRaw (.pre e i)) := by
  intro f hf p hp
  cases e
  · simp only [World.stepRaw, World.preC] at hf
    split at hf
    next g hg =>
      split at hf
      next q hq =>
        rcases mem_modifyAt _ _ _ _ hf with hmem | ⟨a, ha, rfl⟩
        · exact h f hmem p hp
        · rw [hg] at ha; injection ha with ha; subst ha
          simp only [handlerAt, Option.some.injEq] at hp
          subst hp
          rw [preSelectFlags_ok]
          exact h g (List.mem_of_getElem? hg) q (by simpa [handlerAt] using hq)
      · exact h f hf p hp
    · exact h f hf p hp
  · simp only [World.stepRaw, World.preS] at hf
    split at hf
    next g hg =>
      split at hf
      next q hq =>
        rcases mem_modifyAt _ _ _ _ hf with hmem | ⟨a, ha, rfl⟩
        · exact h f hmem p hp
        · rw [hg] at ha; injection ha with ha; subst ha
          simp only [handlerAt, Option.some.injEq] at hp
          subst hp
          rw [preSelectFlags_ok]
          exact h g (List.mem_of_getElem? hg) q (by simpa [handlerAt] using hq)
      · exact h f hf p hp
    · exact h f hf p hp

theorem removeDead_died (w : World) (e : End) : (w.stepRaw (.removeDead e)).died = w.died := by
  cases e <;> rfl

theorem pre_died (w : World) (e : End) (i : Nat) : (w.stepRaw (.pre e i)).died = w.died := by
  cases e
  · simp only [World.stepRaw, World.preC]
    split
    · split <;> rfl
    · rfl
  · simp only [World.stepRaw, World.preS]
    split
    · split <;> rfl
    · rfl

theorem step_of_same_died (w : World) (st : Step) (hd : w.died = none)
    (hs : (w.stepRaw st).died = w.died) : w.step st = w.stepRaw st := by
  simp only [World.step, hd, Option.isSome_none, Bool.false_eq_true, if_false]
  rw [hs, hd]
  simp

theorem pres_noDead (e : End) (is : List Nat) (w : World) (hd : w.died = none) (h : NoDeadListed e w) :
    NoDeadListed e (w.run (is.map (Step.pre e))) ∧ (w.run (is.map (Step.pre e))).died = none := by
  induction is generalizing w with
  | nil => exact ⟨h, hd⟩
  | cons i rest ih =>
    simp only [List.map_cons, World.run, List.foldl_cons]
    have hstep : w.step (.pre e i) = w.stepRaw (.pre e i) := step_of_same_died w _ hd (pre_died w e i)
    rw [hstep]
    exact ih _ (by rw [pre_died]; exact hd) (pre_noDead w e i h)

/-- **C02 (no finished handler is listed when the loop goes to sleep).**  Whatever the world before
the pass — any number of flows, finished or not, at either end — once `runonce` has done what it does
before `select` (drop the finished handlers, every `pre_select`), no handler of that end with
`ok = false` is in the handler list: the loop never sleeps on a finished flow's sockets. -/
theorem C02_no_finished_handler_at_select (w : World) (e : End) (n : Nat) (hd : w.died = none) :
    NoDeadListed e (w.run (roundHead e n)) := by
  simp only [roundHead, World.run, List.foldl_cons]
  have hstep : w.step (.removeDead e) = w.stepRaw (.removeDead e) :=
    step_of_same_died w _ hd (removeDead_died w e)
  rw [hstep]
  exact (pres_noDead e (List.range n) _ (by rw [removeDead_died]; exact hd) (rm_noDead w e)).1

/-- Non-vacuity: a world with a finished client handler in the list; after the head of a pass it
is gone. -/
example :
    let w : World := { flows := [{ chan := 1, c := some { sw := {}, mw := { chan := 1 }, ok := false, sockFirst := true } }] }
    ¬ NoDeadListed .client w ∧ NoDeadListed .client (w.run (roundHead .client 1)) := by
  refine ⟨?_, C02_no_finished_handler_at_select _ _ _ rfl⟩
  intro h
  have := h _ (List.mem_cons_self ..) _ rfl
  simp at this

end Sshuttle.Tunnel
