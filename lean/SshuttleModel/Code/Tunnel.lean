/-
The two tunnel ends joined by the frame FIFOs (L2 of DESIGN §0.1): client side
`client.onaccept_tcp` (client.py:497-531), server side `new_channel` (server.py:354-365),
`Mux.got_packet` dispatch (ssnet.py:394-439), `runonce`'s removal of dead handlers
(:588-590), `check_fullness` per round, and an environment of application / destination
sockets with ghost logs of what was written and what was delivered.

A step is one atomic callback or one environment event; any list of steps is a schedule.
Core Lean only.
-/
import SshuttleModel.Code.Wrap
import SshuttleModel.Code.Alloc

namespace Sshuttle.Tunnel
open Sshuttle.Mux (Frame)
open Sshuttle.Wrap

structure Flow where
  chan : Nat
  c    : Option ProxyS := none    -- client handler while it is in `handlers`
  s    : Option ProxyS := none    -- server handler while it is in `handlers`
  sEver : Bool := false           -- ghost: the server has created a handler for this flow
  app  : ESock := {}
  dst  : ESock := {}
deriving Repr

structure World where
  cm : MuxL := {}                 -- client mux; `cm.out` = frames travelling client → server
  sm : MuxL := {}                 -- server mux; `sm.out` = frames travelling server → client
  flows : List Flow := []
  chani : Nat := 0                -- client allocation cursor
  extraOcc : List Nat := []       -- ids held by DNS / UDP flows (foreign to this model)
  maxChan : Nat := Generated.MAX_CHANNEL
  bufsize : Nat := Generated.LATENCY_BUFFER_SIZE
  died : Option String := none    -- a process ended with an unplanned exception
deriving Repr

inductive End | client | server
deriving Repr, DecidableEq

inductive Step
  | accept                                  -- a captured TCP connection arrives at the client
  | cb (e : End) (i : Nat) (io : CbIo)      -- Proxy.callback of flow i at that end
  | pre (e : End) (i : Nat)                 -- Proxy.pre_select of flow i (flag part)
  | deliver (e : End) (conn : ConnRes)      -- next frame arrives at end e (conn: result of the
                                            --   connect() made while handling TCP_CONNECT)
  | removeDead (e : End)                    -- runonce: drop handlers with ok = False
  | checkFull (e : End)                     -- mux.check_fullness() (latency control on)
  | foreign (e : End) (f : Frame)           -- end e queues a frame of another flow kind
  | appWrite (i : Nat) (b : Bytes) | appEof (i : Nat)
  | dstWrite (i : Nat) (b : Bytes) | dstEof (i : Nat)
deriving Repr

def modifyAt {α : Type} (l : List α) (i : Nat) (f : α → α) : List α :=
  match l, i with
  | [], _ => []
  | a :: rest, 0 => f a :: rest
  | a :: rest, i + 1 => a :: modifyAt rest i f

def World.cOcc (w : World) (c : Nat) : Bool :=
  w.extraOcc.contains c || w.flows.any fun f =>
    f.chan == c && (match f.c with | some p => p.mw.registered | none => false)

def World.sOcc (w : World) (c : Nat) : Bool :=
  w.flows.any fun f => f.chan == c && (match f.s with | some p => p.mw.registered | none => false)

def isControl (cmd : Nat) : Bool :=
  cmd == Generated.CMD_ROUTES || cmd == Generated.CMD_HOST_REQ || cmd == Generated.CMD_HOST_LIST ||
  cmd == Generated.CMD_DNS_REQ || cmd == Generated.CMD_UDP_OPEN || cmd == Generated.CMD_EXIT

def handlerAt (e : End) (f : Flow) : Option ProxyS :=
  match e with | .client => f.c | .server => f.s

def setHandler (e : End) (f : Flow) (p : ProxyS) : Flow :=
  match e with | .client => { f with c := some p } | .server => { f with s := some p }

/-- Dispatch of a data-type frame to the registered wrapper of its channel at one end. -/
def dispatch (e : End) (flows : List Flow) (fr : Frame) : List Flow × Bool :=
  -- returns the new flows and whether the wrapper raised ('unknown command')
  match flows with
  | [] => ([], false)
  | f :: rest =>
    match handlerAt e f with
    | some p =>
      if f.chan == fr.chan && p.mw.registered then
        match p.mw.gotPacket fr.cmd fr.data with
        | .ok w' => (setHandler e f { p with mw := w' } :: rest, false)
        | .died => (f :: rest, true)
      else ((f :: (dispatch e rest fr).1), (dispatch e rest fr).2)
    | none => ((f :: (dispatch e rest fr).1), (dispatch e rest fr).2)

/-- `client.onaccept_tcp`: allocate an id, queue CONNECT, create the handler. -/
def World.accept (w : World) : World :=
  match Alloc.nextChannel w.maxChan w.cOcc Generated.ALLOC_PROBES w.chani with
  | (none, ch) => { w with chani := ch }                    -- 'too many open channels': socket closed
  | (some c, ch) =>
    { w with chani := ch, cm := w.cm.send c Generated.CMD_TCP_CONNECT [],   -- payload is C05's business
             flows := w.flows ++ [{ chan := c, c := some { sw := {}, mw := { chan := c }, sockFirst := true } }] }

def World.cbC (w : World) (i : Nat) (io : CbIo) : World :=
  match w.flows[i]? with
  | some f =>
    match f.c with
    | some p =>
      match p.callback w.cm f.app io with
      | .ok p' m' e' => { w with cm := m', flows := modifyAt w.flows i fun f => { f with c := some p', app := e' } }
      | .died => { w with died := some "client: try_connect raised" }
    | none => w
  | none => w

def World.cbS (w : World) (i : Nat) (io : CbIo) : World :=
  match w.flows[i]? with
  | some f =>
    match f.s with
    | some p =>
      match p.callback w.sm f.dst io with
      | .ok p' m' e' => { w with sm := m', flows := modifyAt w.flows i fun f => { f with s := some p', dst := e' } }
      | .died => { w with died := some "server: try_connect raised" }
    | none => w
  | none => w

def World.preC (w : World) (i : Nat) : World :=
  match w.flows[i]? with
  | some f =>
    match f.c with
    | some p =>
      { w with cm := (p.preSelectFlags w.cm).2,
               flows := modifyAt w.flows i fun f => { f with c := some (p.preSelectFlags w.cm).1 } }
    | none => w
  | none => w

def World.preS (w : World) (i : Nat) : World :=
  match w.flows[i]? with
  | some f =>
    match f.s with
    | some p =>
      { w with sm := (p.preSelectFlags w.sm).2,
               flows := modifyAt w.flows i fun f => { f with s := some (p.preSelectFlags w.sm).1 } }
    | none => w
  | none => w

/-- Server `new_channel` for a CONNECT frame (the frame is already off the queue). -/
def World.connectS (w : World) (fr : Frame) (conn : ConnRes) : World :=
  if w.sOcc fr.chan then { w with died := some "server: assert not channels.get(channel)" } else
  -- connect_dst → SockWrapper.__init__ → try_connect
  match w.flows.findIdx? (fun f => f.chan == fr.chan && !f.sEver) with
  | none => w       -- a CONNECT of a flow this model does not track
  | some i =>
    match w.flows[i]? with
    | none => w
    | some f =>
      match SockW.tryConnect { connecting := true } f.dst conn false with
      | .died => { w with died := some "server: try_connect raised in new_channel" }
      | .ok s e =>
        { w with flows := modifyAt w.flows i fun f =>
            { f with s := some { sw := s, mw := { chan := fr.chan }, sockFirst := false }, sEver := true, dst := e } }

def World.dispatchAt (w : World) (e : End) (fr : Frame) : World :=
  if (dispatch e w.flows fr).2 then { w with died := some "unknown command on channel" }
  else { w with flows := (dispatch e w.flows fr).1 }

/-- The next frame of the client → server queue is handled by the server's `Mux.got_packet`. -/
def World.deliverS (w : World) (conn : ConnRes) : World :=
  match w.cm.out with
  | [] => w
  | fr :: rest =>
    let w := { w with cm := { w.cm with out := rest } }
    if fr.cmd == Generated.CMD_PING then { w with sm := w.sm.send 0 Generated.CMD_PONG fr.data }
    else if fr.cmd == Generated.CMD_PONG then { w with sm := { w.sm with tooFull := false, fullness := 0 } }
    else if fr.cmd == Generated.CMD_TCP_CONNECT then w.connectS fr conn
    else if isControl fr.cmd then w
    else w.dispatchAt .server fr

def World.deliverC (w : World) : World :=
  match w.sm.out with
  | [] => w
  | fr :: rest =>
    let w := { w with sm := { w.sm with out := rest } }
    if fr.cmd == Generated.CMD_PING then { w with cm := w.cm.send 0 Generated.CMD_PONG fr.data }
    else if fr.cmd == Generated.CMD_PONG then { w with cm := { w.cm with tooFull := false, fullness := 0 } }
    else if fr.cmd == Generated.CMD_TCP_CONNECT then
      if w.cOcc fr.chan then { w with died := some "client: assert not channels.get(channel)" } else w
    else if isControl fr.cmd then w
    else w.dispatchAt .client fr

def World.rmC (w : World) : World :=
  { w with flows := w.flows.map fun f =>
      match f.c with
      | some p => if p.ok then f else { f with c := none }
      | none => f }

def World.rmS (w : World) : World :=
  { w with flows := w.flows.map fun f =>
      match f.s with
      | some p => if p.ok then f else { f with s := none }
      | none => f }

/-- One step, for a world in which every process is alive. -/
def World.stepRaw (w : World) (st : Step) : World :=
  match st with
  | .accept => w.accept
  | .cb .client i io => w.cbC i io
  | .cb .server i io => w.cbS i io
  | .pre .client i => w.preC i
  | .pre .server i => w.preS i
  | .deliver .server conn => w.deliverS conn
  | .deliver .client _ => w.deliverC
  | .removeDead .client => w.rmC
  | .removeDead .server => w.rmS
  | .checkFull .client => { w with cm := w.cm.checkFullness w.bufsize }
  | .checkFull .server => { w with sm := w.sm.checkFullness w.bufsize }
  | .foreign .client fr => { w with cm := w.cm.send fr.chan fr.cmd fr.data }
  | .foreign .server fr => { w with sm := w.sm.send fr.chan fr.cmd fr.data }
  | .appWrite i b => { w with flows := modifyAt w.flows i fun f =>
      if f.app.eofIn then f else { f with app := { f.app with pending := f.app.pending ++ b } } }
  | .appEof i => { w with flows := modifyAt w.flows i fun f => { f with app := { f.app with eofIn := true } } }
  | .dstWrite i b => { w with flows := modifyAt w.flows i fun f =>
      if f.dst.eofIn then f else { f with dst := { f.dst with pending := f.dst.pending ++ b } } }
  | .dstEof i => { w with flows := modifyAt w.flows i fun f => { f with dst := { f.dst with eofIn := true } } }

/-- One step.  Once a process has died with an unplanned exception nothing moves any more; the
step in which it dies changes nothing but the `died` marker. -/
def World.step (w : World) (st : Step) : World :=
  if w.died.isSome then w else
  if (w.stepRaw st).died.isSome then { w with died := (w.stepRaw st).died } else w.stepRaw st

def World.run (w : World) (steps : List Step) : World := steps.foldl World.step w

/-- The callbacks `runonce` makes when the tunnel's read file is ready: it is in every handler's
`socks`, so every handler of that end gets its callback, in list order, each with whatever its own
socket does (`ios i`). -/
def passCallbacks (e : End) (ios : Nat → CbIo) (k : Nat) : List Step :=
  (List.range k).map fun i => Step.cb e i (ios i)

/-- Ghost: everything the endpoint ever wrote = what the tunnel consumed plus what is pending. -/
def ESock.written (e : ESock) : Bytes := e.consumed ++ e.pending

end Sshuttle.Tunnel
