/-
Code model of the UDP relay.

Client (`sshuttle/client.py`): `onaccept_udp` (:541-560), `udp_done` (:534-538).
Server (`sshuttle/server.py`): `UdpProxy.__init__/send/callback` (:256-285), the closures
`udp_open` (:394-405) and `udp_req` (:379-392).  Core Lean only.
-/
import SshuttleModel.Code.Dns

namespace Sshuttle.Dgram

/-! ### client -/

/-- The first half of `onaccept_udp`: the id of the source's association, allocating one
(and queueing UDP_OPEN) when the source is not in `udp_by_src`.  `none` = no id free:
`log('warning: too many open channels…'); return`. -/
def udpAlloc (cfg : Cfg) (lsn : Nat) (srcip : Addr) (c : Client) : Client × Option (Nat × List Frame) :=
  match lookup srcip c.udpBySrc with
  | some (chan, _) => (c, some (chan, []))
  | none =>
    match nextChannel cfg.maxCh c.chans cfg.probes c.chani with
    | (chani', none) => ({ c with chani := chani' }, none)
    | (chani', some chan) =>
      ({ c with chani := chani', chans := set chan (.udp lsn srcip) c.chans },
       some (chan, [⟨chan, CMD_UDP_OPEN, dec lsn⟩]))

/-- `onaccept_udp(listener, method, mux, handlers)`. -/
def onacceptUdp (cfg : Cfg) (now : Nat) (cap : Capture) (c : Client) : Except Err (Client × List Frame) :=
  match recvUdp cfg.method cfg.recvMax cap with
  | none => .ok (c, [])
  | some (srcip, dstip, data) =>
    match udpAlloc cfg cap.lsn srcip c with
    | (c1, none) => .ok (c1, [])
    | (c1, some (chan, opens)) =>
      let c2 := { c1 with udpBySrc := set srcip (chan, now + cfg.udpHorizonS * cfg.ticksPerS) c1.udpBySrc }
      match dstip with
      | none => .error (.typeError "dstip")            -- `dstip[0]` with `dstip is None`
      | some d =>
        let fr : Frame := ⟨chan, CMD_UDP_DATA, mkHdr d.ip d.port ++ data⟩
        match expire now c2 with
        | .error e => .error e
        | .ok (c3, closes) => .ok (c3, opens ++ [fr] ++ closes)

/-- `udp_done(chan, data, method, sock, dstip=src)`. -/
def udpDone (cfg : Cfg) (lsn : Nat) (src : Addr) (data : Bytes) : Except Err (List Emit) :=
  match split2 data with
  | none => .error (.valueError "split")
  | some (ip, port, payload) =>
    match parseDec port with
    | none => .error (.valueError "int")
    | some p => sendUdp cfg.method lsn (some ⟨ip, p, []⟩) src payload

/-- `Mux.got_packet(channel, cmd, data)` on the client for the commands that go to
`self.channels[channel]` (all the server ever sends on a DNS/UDP id). -/
def clientGot (cfg : Cfg) (f : Frame) (c : Client) : Except Err (Client × List Emit) :=
  if ¬ isChannelCmd f.cmd then .ok (c, []) else      -- not modelled here (PING, ROUTES, …)
  match lookup f.chan c.chans with
  | none => .ok (c, [])                               -- 'warning: closed channel'
  | some .other => .ok (c, [])
  | some (.dns _ lsn asker orig) => dnsDone cfg f.chan lsn asker orig f.data c
  | some (.udp lsn src) =>
    match udpDone cfg lsn src f.data with
    | .error e => .error e
    | .ok es => .ok (c, es)

/-! ### server -/

/-- One `UdpProxy` object: one socket for its whole life. -/
structure UdpH where
  hid : Nat
  chan : Nat
  sock : Nat
  family : Nat
  ok : Bool := true
deriving Repr, DecidableEq

/-- A datagram handed to `sock.sendto(data, (ip, port))` by `UdpProxy.send`;
`failed = some errno` when the call raised (logged, nothing else happens). -/
structure USend where
  chan : Nat
  sock : Nat
  ip : Bytes
  port : Nat
  data : Bytes
  failed : Option Nat := none
deriving Repr, DecidableEq

/-- `UdpProxy.callback(sock)`. -/
def udpCallback (cfg : Cfg) (h : UdpH) (r : RecvRes) : Except Err (List Frame) :=
  match r with
  | .err _ => if cfg.recvErrSafe then .ok [] else .error .unboundLocal
  | .data from_ d =>
    .ok [⟨h.chan, CMD_UDP_DATA, mkHdr from_.ip from_.port ++ d.take cfg.srvRecvMax⟩]

end Sshuttle.Dgram
