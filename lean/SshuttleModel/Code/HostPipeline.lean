/-
Code model of the path a remote host name takes to the local hosts file.

* scanner: `hostwatch.found_host` (short-name derivation with `re.sub(r'\..*', '', name)`, the
  ASCII sanitising `re.sub(r'[^-\w\.]', '_', hostname, flags=re.ASCII)`, the `127.` / `255.` /
  `localhost` filters, recursion on the short name, the `_representable` test, change detection
  against `hostnames`, the emitted `"%s,%s\n"`);
* server: `hostwatch_ready` in `server.main` (`recv(4096)`, `leftover`, `split(b'\n')`, re-join,
  one HOST_LIST frame per read, `Mux.send`'s length assertion);
* client: `onhostlist` in `client._main` (`strip().split()`, `partition(b',')`, the two validity
  patterns, skipping of invalid entries) and `FirewallClient.sethostip` (from `Code/FwDialogue`);
* helper: the `HOST` loop (from `Code/FwDialogue`) and the line format of `rewrite_etc_hosts`.

Scanner text is a list of code points, everything after it a list of bytes.  Core Lean only.
-/
import SshuttleModel.Code.FwDialogue
import SshuttleModel.Gen.C19

namespace Sshuttle.HostPipeline
open Sshuttle.FwDialogue

/-! ### scanner: `hostwatch.found_host` -/

/-- `re.sub(r'\..*', '', name)`: from each dot to the end of its line (`.` does not match a
newline). The flag says whether we are inside a deleted stretch. -/
def cutDots : Bool → Str → Str
  | _, [] => []
  | true, c :: r => if c = 10 then c :: cutDots false r else cutDots true r
  | false, c :: r => if c = 46 then cutDots true r else c :: cutDots false r

/-- `re.sub(r'[^-\w\.]', '_', hostname, flags=re.ASCII)` -/
def sanitize (s : Str) : Str := s.map fun c => if isNameByte c then c else 95

/-- `re.match(r'[-A-Za-z0-9_.]{1,253}\Z', name)` -/
def validName (s : Str) : Bool := 1 ≤ s.length && s.length ≤ Gen.C19.NAME_MAX && s.all isNameByte

def isQuadGroup (g : Str) : Bool := 1 ≤ g.length && g.length ≤ 3 && g.all isDigit

/-- `re.match(r'[0-9]{1,3}\.[0-9]{1,3}\.[0-9]{1,3}\.[0-9]{1,3}\Z', ip)` -/
def validIp (s : Str) : Bool :=
  match splitAll 46 s with
  | [a, b, c, d] => isQuadGroup a && isQuadGroup b && isQuadGroup c && isQuadGroup d
  | _ => false

def LOCALHOST : Str := [108, 111, 99, 97, 108, 104, 111, 115, 116]
def P127 : Str := [49, 50, 55, 46]
def P255 : Str := [50, 53, 53, 46]

/-- `hostnames`: name → address, in insertion order. -/
abbrev HostNames := List (Str × Str)

def lookup (m : HostNames) (name : Str) : Option Str := (m.find? (·.1 == name)).map (·.2)

/-- `found_host(name, ip)`: new `hostnames` and the text written to `sys.stdout`.
`none` only if the fuel (Python's recursion limit) runs out. -/
def foundHost : Nat → HostNames → Str → Str → Option (HostNames × Str)
  | 0, _, _, _ => none
  | f + 1, m, name, ip =>
    let hostname := sanitize (cutDots false name)
    if startsWith ip P127 || startsWith ip P255 || hostname == LOCALHOST then some (m, [])
    else
      match (if hostname != name then foundHost f m hostname ip else some (m, [])) with
      | none => none
      | some (m1, out1) =>
        if !(validName name && validIp ip) then some (m1, out1)      -- `_representable` is false: skip
        else if lookup m1 name != some ip then
          some (hostmapSet m1 name ip, out1 ++ (name ++ [44] ++ ip ++ [10]))
        else some (m1, out1)

/-- A top-level call (depth 2 is always enough, see `C19_scanner_no_recursion_error`). -/
def foundHostTop (m : HostNames) (name ip : Str) : Option (HostNames × Str) := foundHost 3 m name ip

/-- A scanner session: any sequence of `found_host` calls (whatever `hw_main`'s jobs feed it);
the final `hostnames` and everything written to stdout, in order. -/
def scanAll : HostNames → List (Str × Str) → Option (HostNames × Str)
  | m, [] => some (m, [])
  | m, c :: cs =>
    match foundHostTop m c.1 c.2 with
    | none => none
    | some (m1, o1) =>
      match scanAll m1 cs with
      | none => none
      | some (m2, o2) => some (m2, o1 ++ o2)

/-! ### server: `hostwatch_ready` -/

/-- `b.split(sep)` for a one-byte separator. -/
def splitSep (sep : Nat) : Bytes → List Bytes
  | [] => [[]]
  | c :: r =>
    if c = sep then [] :: splitSep sep r
    else
      match splitSep sep r with
      | [] => [[c]]
      | h :: t => (c :: h) :: t

/-- `sep.join(parts)` -/
def joinSep (sep : Nat) : List Bytes → Bytes
  | [] => []
  | [x] => x
  | x :: y :: r => x ++ sep :: joinSep sep (y :: r)

inductive ReadyRes
  | sent (leftover : Bytes) (payload : Bytes)    -- one HOST_LIST frame queued
  | fatalDied                                    -- `recv` returned b'': `Fatal('hostwatch process died')`
  | assertLen                                    -- `Mux.send`: `assert len(data) <= 65535`
deriving Repr, DecidableEq

/-- `hostwatch_ready(sock)` with `content = hw.sock.recv(4096)`. -/
def hostwatchReady (leftover content : Bytes) : ReadyRes :=
  if content = [] then .fatalDied else
  let lines := splitSep 10 (leftover ++ content)
  let r : Bytes × List Bytes :=
    match lines.getLast? with
    | some last => if last ≠ [] then (last, lines.dropLast ++ [[]]) else ([], lines)
    | none => ([], lines)
  let payload := joinSep 10 r.2
  if payload.length > Generated.SEND_MAX_LEN then .assertLen else .sent r.1 payload

/-- The server fed a sequence of reads: the payloads sent and the final `leftover`;
`none` if a read ended the server. -/
def feed : Bytes → List Bytes → Option (List Bytes × Bytes)
  | lo, [] => some ([], lo)
  | lo, c :: cs =>
    match hostwatchReady lo c with
    | .sent lo' p =>
      match feed lo' cs with
      | some (ps, l) => some (p :: ps, l)
      | none => none
    | _ => none

/-! ### client: `onhostlist` -/

/-- White space of `bytes.strip()` / `bytes.split()`: space, TAB, LF, VT, FF, CR. -/
def isWsB (c : Nat) : Bool := c == 32 || (9 ≤ c && c ≤ 13)

/-- `b.split()` (any run of white space separates; no empty pieces). -/
def tokAux (cur : Bytes) : Bytes → List Bytes
  | [] => if cur = [] then [] else [cur]
  | c :: r =>
    if isWsB c then (if cur = [] then tokAux [] r else cur :: tokAux [] r)
    else tokAux (cur ++ [c]) r

def tokens (s : Bytes) : List Bytes := tokAux [] s

def stripB (s : Bytes) : Bytes := ((s.dropWhile isWsB).reverse.dropWhile isWsB).reverse

/-- One entry of a host list: `some (name, ip)` if it is forwarded, `none` if skipped. -/
def entry (line : Bytes) : Option (Bytes × Bytes) :=
  match splitOnce 44 line with            -- `name, sep, ip = line.partition(b',')`
  | none => none                          -- `sep` is empty
  | some (name, ip) => if validName name && validIp ip then some (name, ip) else none

/-- `onhostlist(hostlist)`: the `HOST` lines written to the helper, in order.  `none` is a
failed `assert` in `sethostip` (shown unreachable in `C19_client_never_fatal`). -/
def onHostList (hostlist : Bytes) : Option (List Bytes) :=
  mapOpt (fun h : Bytes × Bytes => renderHost h.1 h.2) ((tokens (stripB hostlist)).filterMap entry)

/-- One entry as the client handled it *before* the repair
`proposed_fixes/C19-client-skips-invalid-host-entries.diff`: `name, ip = line.split(b',', 1)` (a bare
unpack) followed by `sethostip`'s two `assert`s.  Kept only to state what the repair changed. -/
inductive LegacyEntry
  | forwarded (name ip : Bytes)
  | valueError        -- no comma: the unpack raises, the client's main loop ends
  | assertion         -- a byte outside the allowed classes: `assert` fails, the client ends
deriving Repr, DecidableEq

def legacyEntry (line : Bytes) : LegacyEntry :=
  match splitOnce 44 line with
  | none => .valueError
  | some (name, ip) => if (renderHost name ip).isSome then .forwarded name ip else .assertion

/-! ### helper: the line format of `rewrite_etc_hosts` -/

def MARK1 : Str := ofString "# sshuttle-firewall-"
def MARK2 : Str := ofString " AUTOCREATED"

/-- `APPEND = '# sshuttle-firewall-%d AUTOCREATED' % port` -/
def marker (port : Nat) : Str := MARK1 ++ dec port ++ MARK2

/-- `'%-30s %s\n' % ('%s %s' % (ip, name), APPEND)` -/
def hostsLine (port : Nat) (name ip : Str) : Str :=
  let left := ip ++ [32] ++ name
  left ++ List.replicate (Gen.C19.HOSTS_PAD - left.length) 32 ++ [32] ++ marker port ++ [10]

def strLt : Str → Str → Bool
  | [], [] => false
  | [], _ :: _ => true
  | _ :: _, [] => false
  | a :: r, b :: s => a < b || (a == b && strLt r s)

def insertSorted (e : Str × Str) : List (Str × Str) → List (Str × Str)
  | [] => [e]
  | x :: r => if strLt e.1 x.1 then e :: x :: r else x :: insertSorted e r

/-- The marked lines written for a host map: `for (name, ip) in sorted(hostmap.items())`. -/
def markedLines (port : Nat) (m : List (Str × Str)) : List Str :=
  (m.foldr insertSorted []).map fun e => hostsLine port e.1 e.2

end Sshuttle.HostPipeline
