/-
Code model for C04: `sshuttle.firewall.main` from the start-up dialogue to the end of the
`finally` block (firewall.py:226-428), and `setup_firewall` / `restore_firewall` of the nat,
tproxy, nft and pf methods as sequences of external commands, with `nonfatal` exactly where the
Python has it (linux.py:6-10; nat.py:45,111,116-118; nft.py:103; tproxy.py: see `tproxyRestore`).

Rule payloads are opaque (`Rule.args`): what the model keeps is which chain a command names,
which rule an insertion and its deletion share, the order of the commands and how a failure
propagates.  The `-A` rules of a chain body are a parameter (`FamPlan.body`).

Exceptions the Python can raise are explicit (`Exc`): `Fatal` from a failing command,
and unplanned ones (`internal tag`): `Exception("UDP not supported…")`, the `ValueError` of
`line[5:].split(',', 1)` on a `HOST` line without a comma, `UnboundLocalError` of pf's
`includes`, parse errors of the dialogue.

Core Lean only.
-/
import SshuttleModel.Env.FwState
import SshuttleModel.Gen.C04
import SshuttleModel.Generated
import SshuttleModel.Code.FwDialogue

namespace Sshuttle.Fw

inductive Exc
  | fatal
  | internal (tag : String)
  deriving DecidableEq, Repr

/-- A procedure: runs against the environment, may raise. -/
abbrev Proc := Env → Option Exc × Env

def Proc.skip : Proc := fun e => (none, e)
def Proc.raise (x : Exc) : Proc := fun e => (some x, e)

def Proc.seq (a b : Proc) : Proc := fun e =>
  match a e with
  | (none, e1) => b e1
  | r => r

/-- `ipt(...)` / `nft(...)` / `pfctl(...)`: non-zero exit status raises `Fatal`. -/
def cmdF (c : Cmd) : Proc := fun e =>
  match exec c e with
  | (true, e1) => (none, e1)
  | (false, e1) => (some .fatal, e1)

/-- `nonfatal(f, ...)`: the `Fatal` is logged and swallowed. -/
def cmdN (c : Cmd) : Proc := fun e => (none, (exec c e).2)

/-- A straight-line block of commands; `true` marks a `nonfatal(...)` wrapper. -/
def steps : List (Bool × Cmd) → Proc
  | [] => Proc.skip
  | (nf, c) :: rest => Proc.seq (if nf then cmdN c else cmdF c) (steps rest)

/-- `ipt_chain_exists(family, table, name)`: the `-nL` query; a failing query raises `Fatal`. -/
def chainExists (f : Fam) (t : Tbl) (c : CName) (e : Env) : Option Bool × Env :=
  match exec (.iptList f t) e with
  | (true, e1) => (some ((e1.st.chainNames f t).contains c), e1)
  | (false, e1) => (none, e1)

/-- `if ipt_chain_exists(...): body`. -/
def ifChain (f : Fam) (t : Tbl) (c : CName) (body : Proc) : Proc := fun e =>
  match chainExists f t c e with
  | (none, e1) => (some .fatal, e1)
  | (some true, e1) => body e1
  | (some false, e1) => (none, e1)

/-! ### what one `setup_firewall`/`restore_firewall` call receives -/

/-- Per address family: the port the chain names derive from and the `-A` / `add rule` body
commands in the order the method issues them (chain selector, rule). -/
structure FamPlan where
  fam : Fam
  port : Nat
  body : List (Kind × Rule) := []
  /-- nft: body rules as token lists (chain is the table-named chain) -/
  nbody : List (List String) := []
  /-- pf: anchor rules text; `none` when `subnets` is empty (then `includes` is unbound) -/
  pfRules : Option (List String) := some []

structure Opts where
  udp : Bool := false
  user : Option String := none
  group : Option String := none
  deriving DecidableEq, Repr

def Opts.owner (o : Opts) : Bool := o.user.isSome || o.group.isSome

/-! ### nat (methods/nat.py) -/

def ownerArgs (o : Opts) : List String :=
  ["-m", "owner"] ++ (match o.user with | some u => ["--uid-owner", u] | none => [])
    ++ (match o.group with | some g => ["--gid-owner", g] | none => [])

/-- `-m owner … -j MARK --set-mark <port>` (mangle/OUTPUT). -/
def natMarkRule (o : Opts) (port : Nat) : Rule :=
  ⟨.std "MARK", ownerArgs o ++ ["--set-mark", toString port]⟩

/-- `[-m mark --mark <port>] -j sshuttle-<port>` (nat/OUTPUT and nat/PREROUTING). -/
def natJump (o : Opts) (port : Nat) : Rule :=
  ⟨.chain (.own .main port), if o.owner then ["-m", "mark", "--mark", toString port] else []⟩

def OUTPUT : CName := .builtin "OUTPUT"
def PREROUTING : CName := .builtin "PREROUTING"

/-- nat.py:83-119. -/
def natRestore (p : FamPlan) (o : Opts) : Proc :=
  if o.udp then Proc.raise (.internal "udp-unsupported") else
  ifChain p.fam .nat (.own .main p.port) <| steps (
    (if o.owner then [(Gen.C04.NAT_RESTORE_NONFATAL_MARK, Cmd.ipt p.fam .mangle (.delete OUTPUT (natMarkRule o p.port)))] else []) ++
    [ (Gen.C04.NAT_RESTORE_NONFATAL_D_OUTPUT, .ipt p.fam .nat (.delete OUTPUT (natJump o p.port))),
      (Gen.C04.NAT_RESTORE_NONFATAL_D_PREROUTING, .ipt p.fam .nat (.delete PREROUTING (natJump o p.port))),
      (Gen.C04.NAT_RESTORE_NONFATAL_F, .ipt p.fam .nat (.flush (.own .main p.port))),
      (Gen.C04.NAT_RESTORE_NONFATAL_X, .ipt p.fam .nat (.delChain (.own .main p.port))) ])

/-- nat.py:15-81. -/
def natSetup (p : FamPlan) (o : Opts) : Proc :=
  if o.udp then Proc.raise (.internal "udp-unsupported") else
  Proc.seq (natRestore p o) <| steps (
    [ (false, Cmd.ipt p.fam .nat (.newChain (.own .main p.port))),
      (false, .ipt p.fam .nat (.flush (.own .main p.port))) ] ++
    (if o.owner then [(Gen.C04.NAT_SETUP_NONFATAL_MARK, Cmd.ipt p.fam .mangle (.insert OUTPUT (natMarkRule o p.port)))] else []) ++
    [ (false, .ipt p.fam .nat (.insert OUTPUT (natJump o p.port))),
      (false, .ipt p.fam .nat (.insert PREROUTING (natJump o p.port))) ] ++
    p.body.map fun kr => (false, Cmd.ipt p.fam .nat (.append (.own kr.1 p.port) kr.2)))

/-! ### tproxy (methods/tproxy.py) -/

def tpJumpMark (port : Nat) : Rule := ⟨.chain (.own .mark port), []⟩
def tpJumpTproxy (port : Nat) : Rule := ⟨.chain (.own .tproxy port), []⟩

/-- tproxy.py:231-259.  Whether the `-D` and `-F` are wrapped in `nonfatal` is read from the
source (`Gen.C04.TPROXY_RESTORE_NONFATAL_*`): they are in the repaired code, they are not in
sshuttle 1.3.0. -/
def tproxyRestore (p : FamPlan) (_o : Opts) : Proc :=
  Proc.seq
    (ifChain p.fam .mangle (.own .mark p.port) <| steps
      [ (Gen.C04.TPROXY_RESTORE_NONFATAL_D, Cmd.ipt p.fam .mangle (.delete OUTPUT (tpJumpMark p.port))),
        (Gen.C04.TPROXY_RESTORE_NONFATAL_F, .ipt p.fam .mangle (.flush (.own .mark p.port))),
        (Gen.C04.TPROXY_RESTORE_NONFATAL_X, .ipt p.fam .mangle (.delChain (.own .mark p.port))) ]) <|
  Proc.seq
    (ifChain p.fam .mangle (.own .tproxy p.port) <| steps
      [ (Gen.C04.TPROXY_RESTORE_NONFATAL_D, Cmd.ipt p.fam .mangle (.delete PREROUTING (tpJumpTproxy p.port))),
        (Gen.C04.TPROXY_RESTORE_NONFATAL_F, .ipt p.fam .mangle (.flush (.own .tproxy p.port))),
        (Gen.C04.TPROXY_RESTORE_NONFATAL_X, .ipt p.fam .mangle (.delChain (.own .tproxy p.port))) ])
    (ifChain p.fam .mangle (.own .divert p.port) <| steps
      [ (Gen.C04.TPROXY_RESTORE_NONFATAL_F, Cmd.ipt p.fam .mangle (.flush (.own .divert p.port))),
        (Gen.C04.TPROXY_RESTORE_NONFATAL_X, .ipt p.fam .mangle (.delChain (.own .divert p.port))) ])

/-- tproxy.py:116-229. -/
def tproxySetup (p : FamPlan) (o : Opts) : Proc :=
  Proc.seq (tproxyRestore p o) <| steps (
    [ (false, Cmd.ipt p.fam .mangle (.newChain (.own .mark p.port))),
      (false, .ipt p.fam .mangle (.flush (.own .mark p.port))),
      (false, .ipt p.fam .mangle (.newChain (.own .divert p.port))),
      (false, .ipt p.fam .mangle (.flush (.own .divert p.port))),
      (false, .ipt p.fam .mangle (.newChain (.own .tproxy p.port))),
      (false, .ipt p.fam .mangle (.flush (.own .tproxy p.port))),
      (false, .ipt p.fam .mangle (.insert OUTPUT (tpJumpMark p.port))),
      (false, .ipt p.fam .mangle (.insert PREROUTING (tpJumpTproxy p.port))) ] ++
    p.body.map fun kr => (false, Cmd.ipt p.fam .mangle (.append (.own kr.1 p.port) kr.2)))

/-! ### nft (methods/nft.py) -/

def nftTableText (f : Fam) (port : Nat) : String :=
  (match f with | .v4 => "sshuttle-ipv4-" | .v6 => "sshuttle-ipv6-") ++ toString port

/-- nft.py:90-103: the single `delete table`, wrapped in `nonfatal`. -/
def nftRestore (p : FamPlan) (o : Opts) : Proc :=
  if o.udp then Proc.raise (.internal "udp-unsupported") else
  steps [(Gen.C04.NFT_RESTORE_NONFATAL, Cmd.nft (.deleteTable (.own p.fam p.port)))]

/-- nft.py:15-88 (no initial restore call). -/
def nftSetup (p : FamPlan) (o : Opts) : Proc :=
  if o.udp then Proc.raise (.internal "udp-unsupported") else
  let n := NName.own p.fam p.port
  let chain := nftTableText p.fam p.port
  steps (
    [ (false, Cmd.nft (.addTable n)),
      (false, .nft (.addChain n "prerouting" Gen.C04.NFT_PREROUTING_SPEC)),
      (false, .nft (.addChain n "output" Gen.C04.NFT_OUTPUT_SPEC)),
      (false, .nft (.addChain n chain "")),
      (false, .nft (.flushChain n chain)),
      (false, .nft (.addRule n "output" ["jump", chain])),
      (false, .nft (.addRule n "prerouting" ["jump", chain])) ] ++
    p.nbody.map fun r => (false, Cmd.nft (.addRule n chain r)))

/-! ### pf (methods/pf.py), one flavour per platform; `_pf_context` is explicit state -/

inductive PfFlavour | freebsd | openbsd | darwin
  deriving DecidableEq, Repr

structure PfCtx where
  started : Int := 0                -- _pf_context['started_by_sshuttle']
  loadedBySshuttle : Bool := Gen.C04.PF_LOADED_INIT   -- _pf_context['loaded_by_sshuttle']
  xtokens : List Nat := []          -- _pf_context['Xtoken']
  deriving DecidableEq, Repr

/-- A pf procedure also threads `_pf_context`. -/
abbrev PfProc := PfCtx → Env → Option Exc × PfCtx × Env

def pfCmd (c : PfOp) (k : PfCtx → Env → Option Exc × PfCtx × Env) : PfProc := fun ctx e =>
  match exec (.pf c) e with
  | (true, e1) => k ctx e1
  | (false, e1) => (some .fatal, ctx, e1)

def pfDone : PfProc := fun ctx e => (none, ctx, e)

/-- `pf.add_anchors(anchor)` (pf.py:113-118, 196-200, 273-279, 353-359).  The text search in the
`-s all` output is modelled by looking at the main ruleset lines. -/
def pfAddAnchors (fl : PfFlavour) (a : AName) (k : Bool → PfProc) : PfProc :=
  let generic (k : Bool → PfProc) : PfProc := fun ctx e =>
    -- status = pfctl('-s all')[0]; remembers whether pf is disabled
    match exec (.pf .showAll) e with
    | (false, e1) => (some .fatal, ctx, e1)
    | (true, e1) =>
      let disabled := !e1.st.pf.enabled
      let rdrStep : PfProc → PfProc := fun next =>
        if fl != .openbsd && !(e1.st.pf.main.contains (anchorRefLine true a)) then
          pfCmd (.addAnchorRef true a) next
        else next
      let ancStep : PfProc → PfProc := fun next =>
        fun ctx e => if !(e.st.pf.main.contains (anchorRefLine false a)) then
          pfCmd (.addAnchorRef false a) next ctx e
        else next ctx e
      rdrStep (ancStep (k disabled)) ctx e1
  match fl with
  | .freebsd => generic k
  | .openbsd => fun ctx e =>
    match exec (.pf .showLo) e with
    | (false, e1) => (some .fatal, ctx, e1)
    | (true, e1) =>
      if e1.st.pf.skipLo then pfCmd (.loadMain ["match on lo"]) (generic k) ctx e1
      else generic k ctx e1
  | .darwin => fun ctx e =>
    match exec (.pf .showLo) e with
    | (false, e1) => (some .fatal, ctx, e1)
    | (true, e1) =>
      if e1.st.pf.skipLo then pfCmd (.loadMain ["pass on lo"]) (generic k) ctx e1
      else generic k ctx e1

/-- `pf.enable()` (pf.py:66-69, 182-187, 344-346). -/
def pfEnable (fl : PfFlavour) (disabledSeen : Bool) : PfProc :=
  let generic : PfProc := fun ctx e =>
    if disabledSeen then
      pfCmd .enable (fun ctx e => (none, { ctx with started := ctx.started + 1 }, e)) ctx e
    else (none, ctx, e)
  match fl with
  | .openbsd => generic
  | .freebsd => fun ctx e =>
    -- returncode = call(['kldload', 'pf']); not checked
    let (ok, e1) := exec (.pf .kldload) e
    match generic ctx e1 with
    | (none, ctx2, e2) => (none, (if ok then { ctx2 with loadedBySshuttle := true } else ctx2), e2)
    | r => r
  | .darwin => fun ctx e =>
    match exec (.pf .enableRef) e with
    | (true, e1) =>
      match e1.st.pf.tokens.getLast? with
      | some t => (none, { ctx with xtokens := ctx.xtokens ++ [t] }, e1)
      | none => (some (.internal "no-token"), ctx, e1)
    | (false, e1) => (some .fatal, ctx, e1)

/-- pf.py:450-474. -/
def pfSetup (fl : PfFlavour) (p : FamPlan) (o : Opts) : PfProc :=
  if o.udp then fun ctx e => (some (.internal "udp-unsupported"), ctx, e) else
  let a := AName.own p.fam p.port
  pfAddAnchors fl a fun disabled =>
    match p.pfRules with
    | none => fun ctx e => (some (.internal "includes-unbound"), ctx, e)
    | some rules => pfCmd (.loadAnchor a rules) (pfEnable fl disabled)

/-- `pf.disable(anchor)` (pf.py:71-76, 189-194, 348-351) via pf.py:476-484. -/
def pfRestore (fl : PfFlavour) (p : FamPlan) (o : Opts) : PfProc :=
  if o.udp then fun ctx e => (some (.internal "udp-unsupported"), ctx, e) else
  let a := AName.own p.fam p.port
  let generic (k : PfProc) : PfProc :=
    pfCmd (.flushAnchor a) fun ctx e =>
      let dec : PfProc := fun ctx e => k { ctx with started := ctx.started - 1 } e
      if ctx.started == 1 then pfCmd .disable dec ctx e else dec ctx e
  match fl with
  | .openbsd => generic pfDone
  | .freebsd => generic fun ctx e =>
      if ctx.loadedBySshuttle && ctx.started == 0 then
        (none, ctx, (exec (.pf .kldunload) e).2)
      else (none, ctx, e)
  | .darwin =>
    pfCmd (.flushAnchor a) fun ctx e =>
      match ctx.xtokens.getLast? with
      | some t => pfCmd (.releaseRef t) pfDone { ctx with xtokens := ctx.xtokens.dropLast } e
      | none => (none, ctx, e)

/-! ### the session: firewall.main -/

inductive Method
  | nat | tproxy | nft
  | pf (fl : PfFlavour)
  deriving DecidableEq, Repr

/-- One line of the control dialogue after `readline(128)`, `decode`, `strip`, classified by what
`main` tests.  The end of the list is EOF; `blank` (a line that strips to the empty string) is
treated by `main` exactly like EOF at every read. -/
inductive Line
  | blank
  | routes                       -- "ROUTES"
  | route (fam : Option Fam)     -- "f,w,e,ip,fp,lp" with six fields and integers; family 2 / 10 / other
  | nslist                       -- "NSLIST"
  | ns (fam : Option Fam)        -- "f,ip"
  | ports (p6 p4 : Nat)          -- "PORTS a,b,c,d", all within 0..65535
  | go (o : Opts)                -- "GO udp user group tmark pid"
  | host (name ip : String)      -- "HOST name,ip"
  | hostBad                      -- "HOST x" without a comma: ValueError
  | malformed                    -- raises a non-Fatal exception where it is parsed (ValueError, AssertionError)
  | junk                         -- anything else
  deriving DecidableEq, Repr

structure Hdr where
  has6 : Bool
  has4 : Bool
  port6 : Nat
  port4 : Nat
  opts : Opts
  deriving DecidableEq, Repr

inductive Parse
  | early                        -- `return` at the first read (parent exited)
  | raised (x : Exc)             -- exception before the `try`
  | go (h : Hdr) (rest : List Line)
  deriving Repr

/-- firewall.py:251-267: route lines until a line starting with NSLIST. -/
def parseRoutes (has6 has4 : Bool) : List Line → Option (Bool × Bool × List Line) ⊕ Exc
  | [] => .inr .fatal
  | .blank :: _ => .inr .fatal
  | .nslist :: rest => .inl (some (has6, has4, rest))
  | .route (some .v6) :: rest => parseRoutes true has4 rest
  | .route (some .v4) :: rest => parseRoutes has6 true rest
  | .route none :: rest => parseRoutes has6 has4 rest
  | .malformed :: _ => .inr (.internal "parse")
  | _ :: _ => .inr .fatal

/-- firewall.py:273-285: name-server lines until a line starting with "PORTS ". -/
def parseNs (has6 has4 : Bool) : List Line → Option (Bool × Bool × Nat × Nat × List Line) ⊕ Exc
  | [] => .inr .fatal
  | .blank :: _ => .inr .fatal
  | .ports a b :: rest => .inl (some (has6, has4, a, b, rest))
  | .ns (some .v6) :: rest => parseNs true has4 rest
  | .ns (some .v4) :: rest => parseNs has6 true rest
  | .ns none :: rest => parseNs has6 has4 rest
  -- a route line also has a comma: `split(',', 1)` succeeds, `int(family)` too
  | .route (some .v6) :: rest => parseNs true has4 rest
  | .route (some .v4) :: rest => parseNs has6 true rest
  | .route none :: rest => parseNs has6 has4 rest
  | .malformed :: _ => .inr (.internal "parse")
  | _ :: _ => .inr .fatal

/-- firewall.py:239-329: everything before the `try`. -/
def parseDialogue : List Line → Parse
  | [] => .early
  | .blank :: _ => .early
  | .routes :: rest =>
    match parseRoutes false false rest with
    | .inr x => .raised x
    | .inl none => .raised .fatal
    | .inl (some (h6, h4, rest)) =>
      match parseNs h6 h4 rest with
      | .inr x => .raised x
      | .inl none => .raised .fatal
      | .inl (some (h6, h4, p6, p4, rest)) =>
        match rest with
        | .go o :: rest => .go ⟨h6, h4, p6, p4, o⟩ rest
        | .malformed :: _ => .raised (.internal "parse")
        | _ => .raised .fatal
  | .malformed :: _ => .raised (.internal "parse")
  | _ :: _ => .raised .fatal

/-- What is fixed outside the dialogue. -/
structure Config where
  method : Method
  body6 : FamPlan       -- only `body`/`nbody`/`pfRules` are used; `fam`/`port` come from the dialogue
  body4 : FamPlan
  /-- `which("resolvectl")` finds a binary -/
  resolvectl : Bool := false
  /-- writing `STARTED` raises IOError (the parent died) -/
  startedFails : Bool := false

def Config.plan6 (c : Config) (h : Hdr) : FamPlan := { c.body6 with fam := .v6, port := h.port6 }
def Config.plan4 (c : Config) (h : Hdr) : FamPlan := { c.body4 with fam := .v4, port := h.port4 }

/-- The mutable locals of `main` that survive into the `finally` block. -/
structure Locals where
  hostmap : List (String × String) := []
  pfctx : PfCtx := {}

abbrev SProc := Locals → Env → Option Exc × Locals × Env

def liftProc (p : Proc) : SProc := fun l e => let r := p e; (r.1, l, r.2)

def liftPf (p : PfProc) : SProc := fun l e =>
  match p l.pfctx e with
  | (x, ctx, e1) => (x, { l with pfctx := ctx }, e1)

def setupFw (m : Method) (p : FamPlan) (o : Opts) : SProc :=
  match m with
  | .nat => liftProc (natSetup p o)
  | .tproxy => liftProc (tproxySetup p o)
  | .nft => liftProc (nftSetup p o)
  | .pf fl => liftPf (pfSetup fl p o)

def restoreFw (m : Method) (p : FamPlan) (o : Opts) : SProc :=
  match m with
  | .nat => liftProc (natRestore p o)
  | .tproxy => liftProc (tproxyRestore p o)
  | .nft => liftProc (nftRestore p o)
  | .pf fl => liftPf (pfRestore fl p o)

/-- `flush_systemd_dns_cache()`: a non-zero status is only logged. -/
def flushDns (c : Config) : Proc :=
  if c.resolvectl then cmdN .resolvectl else Proc.skip

/-- `hostmap[name] = ip`. -/
def hostmapSet (m : List (String × String)) (name ip : String) : List (String × String) :=
  if m.any (·.1 = name) then m.map fun kv => if kv.1 = name then (name, ip) else kv
  else m ++ [(name, ip)]

/-- `rewrite_etc_hosts(hostmap, port)`: all lines with this port's marker are replaced by the
host map (file-system failures are outside this model, see C14). -/
def rewriteHosts (m : List (String × String)) (e : Env) : Env := { e with hosts := m }

/-- firewall.py:368-381: the wait loop. `none` = `return`, `some x` = exception. -/
def waitLoop : List Line → SProc
  | [] => fun l e => (none, l, e)
  | .blank :: _ => fun l e => (none, l, e)
  | .host name ip :: rest => fun l e =>
    let hm := hostmapSet l.hostmap name ip
    waitLoop rest { l with hostmap := hm } (rewriteHosts hm e)
  | .hostBad :: _ => fun l e => (some (.internal "host-unpack"), l, e)
  | _ :: _ => fun l e => (some .fatal, l, e)     -- `method.firewall_command(line)` is false

def SProc.seq (a b : SProc) : SProc := fun l e =>
  match a l e with
  | (none, l1, e1) => b l1 e1
  | r => r

def SProc.when (b : Bool) (a : SProc) : SProc := if b then a else fun l e => (none, l, e)

/-- firewall.py:331-381: the body of the `try`. -/
def tryBody (c : Config) (h : Hdr) (rest : List Line) : SProc :=
  SProc.seq (SProc.when h.has6 (setupFw c.method (c.plan6 h) h.opts)) <|
  SProc.seq (SProc.when h.has4 (setupFw c.method (c.plan4 h) h.opts)) <|
  SProc.seq (liftProc (flushDns c)) <|
  if c.startedFails then fun l e => (none, l, e)      -- `except IOError: return`
  else waitLoop rest

/-- Run `a`, swallow any exception (`try: … except Exception: debug1(...)`). -/
def guarded (a : SProc) : Locals → Env → Locals × Env := fun l e =>
  let r := a l e
  (r.2.1, r.2.2)

/-- `restore_etc_hosts(hostmap, port)`: only if the map is non-empty. -/
def restoreHosts : SProc := fun l e =>
  if l.hostmap.isEmpty then (none, l, e) else (none, l, rewriteHosts [] e)

/-- firewall.py:382-428: the `finally` block with its four separately guarded parts. -/
def finallyBody (c : Config) (h : Hdr) (l : Locals) (e : Env) : Locals × Env :=
  let (l1, e1) := guarded (SProc.when h.has6 (restoreFw c.method (c.plan6 h) h.opts)) l e
  let (l2, e2) := guarded (SProc.when h.has4 (restoreFw c.method (c.plan4 h) h.opts)) l1 e1
  let (l3, e3) := guarded restoreHosts l2 e2
  guarded (liftProc (flushDns c)) l3 e3

inductive Exit
  | returned
  | raised (x : Exc)
  deriving DecidableEq, Repr

/-- `firewall.main` from the first `readline` on. -/
def session (c : Config) (d : List Line) (e : Env) : Exit × Env :=
  match parseDialogue d with
  | .early => (.returned, e)
  | .raised x => (.raised x, e)
  | .go h rest =>
    let (r, l1, e1) := tryBody c h rest {} e
    let (_, e2) := finallyBody c h l1 e1
    (match r with | none => .returned | some x => .raised x, e2)

/-! ### from the bytes on the control channel to the dialogue

`_read_next_string_line` (firewall.py) is modelled once, in `Code/FwDialogue.lean` (`rawLines`:
`readline(128)` pieces joined into lines; at end of input inside a line the unfinished piece is
given up or handed out, as the source has it).  Which of the two the source does is read from the
working tree as `Gen.C04.FW_READER_DROPS_UNFINISHED`. -/

/-- The raw lines `main` obtains when the control channel carries `text` and is then closed. -/
def readerLines (text : Bytes) : List Bytes :=
  FwDialogue.rawLines Generated.FW_READLINE_MAX Gen.C04.FW_READER_DROPS_UNFINISHED text

/-- The dialogue `main` acts on: every raw line classified by what `main` tests (`classify` is the
harness's lexer; the theorems hold for every classification). -/
def dialogueOfText (classify : Bytes → Line) (text : Bytes) : List Line :=
  (readerLines text).map classify

/-- `firewall.main` on the bytes of the control channel. -/
def sessionText (c : Config) (classify : Bytes → Line) (text : Bytes) (e : Env) : Exit × Env :=
  session c (dialogueOfText classify text) e

end Sshuttle.Fw
