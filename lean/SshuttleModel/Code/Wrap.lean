/-
Code model of the stream path of `sshuttle/ssnet.py`:
`SockWrapper` (:109-267), `MuxWrapper` (:498-572), `Proxy.pre_select` / `Proxy.callback`
(:293-340), and the latency part of `Mux` (`send` :382, `check_fullness` :376, PING/PONG in
`got_packet` :398-403), at the level of whole frames (the byte level below is C07's).

Every socket operation takes its result as an argument (what the environment did this
time), so a callback is a pure function.  Python exceptions that would leave the per-flow
path are explicit (`died`).  Core Lean only.
-/
import SshuttleModel.Code.Mux

namespace Sshuttle.Wrap
open Sshuttle.Mux (Frame)

/-! ### the environment's answers -/

/-- Result of `rsock.recv(65536)`. -/
inductive RecvRes
  | data (n : Nat)      -- up to `n ≥ 1` bytes of what is pending (EAGAIN / EOF if nothing is)
  | eagain
  | err                 -- any other OSError (ECONNRESET, …)
deriving Repr, DecidableEq

/-- Result of `wsock.send(buf)`. -/
inductive SendRes
  | sent (n : Nat)      -- up to `n` bytes accepted
  | eagain
  | epipe
  | err
deriving Repr, DecidableEq

/-- Result of `rsock.connect(...)`: success, or errno (and the SO_ERROR value used when
errno is EINVAL). -/
inductive ConnRes
  | ok
  | errno (e : Nat) (soerr : Nat)
deriving Repr, DecidableEq

/-- One application / destination socket as the tunnel end sees it. -/
structure ESock where
  pending   : Bytes := []     -- written by the endpoint, not yet read by the tunnel
  eofIn     : Bool := false   -- the endpoint closed its sending side
  sawShut   : Bool := false   -- the tunnel called shutdown(SHUT_WR) on it
  consumed  : Bytes := []     -- ghost: everything the tunnel has read from it
  delivered : Bytes := []     -- ghost: everything the tunnel has sent into it
deriving Repr

/-! ### Mux, frame level -/

structure MuxL where
  out      : List Frame := []   -- frames handed to `send`, not yet delivered to the peer
  fullness : Nat := 0
  tooFull  : Bool := false
deriving Repr

/-- `Mux.send` for a frame known to be well-formed (payload ≤ 2048 or control). -/
def MuxL.send (m : MuxL) (chan cmd : Nat) (data : Bytes) : MuxL :=
  { m with out := m.out ++ [⟨chan, cmd, data⟩], fullness := m.fullness + data.length }

/-- `Mux.check_fullness`. -/
def MuxL.checkFullness (m : MuxL) (bufsize : Nat) : MuxL :=
  if m.fullness > bufsize then
    let m1 := if m.tooFull then m else m.send 0 Generated.CMD_PING (bytesOfStr Generated.PING_RTT_PAYLOAD)
    { m1 with tooFull := true }
  else m

/-! ### wrappers -/

structure SockW where
  buf        : List Bytes := []
  shutR      : Bool := false
  shutW      : Bool := false
  connecting : Bool := false     -- `connect_to is not None`
  exc        : Bool := false
deriving Repr

structure MuxW where
  chan  : Nat
  buf   : List Bytes := []
  shutR : Bool := false
  shutW : Bool := false
deriving Repr

/-- `mux.channels[chan]` is still this wrapper's callback (not yet `None`). -/
def MuxW.registered (w : MuxW) : Bool := !(w.shutR && w.shutW)

def SockW.noread (w : SockW) : SockW := { w with shutR := true }

/-- `SockWrapper.nowrite`; `shutErr` = `wsock.shutdown` raised. -/
def SockW.nowrite (w : SockW) (e : ESock) (shutErr : Bool) : SockW × ESock :=
  if w.shutW then (w, e) else
  let w1 := { w with shutW := true }
  let e1 := { e with sawShut := true }
  if shutErr then ({ w1 with exc := true, shutR := true }, e1) else (w1, e1)

/-- `SockWrapper.seterr`. -/
def SockW.seterr (w : SockW) (e : ESock) (shutErr : Bool) : SockW × ESock :=
  let r := SockW.nowrite { w with exc := true } e shutErr
  (r.1.noread, r.2)

/-- `MuxWrapper.noread`: tell the peer to stop sending, then `setnoread`. -/
def MuxW.noread (w : MuxW) (m : MuxL) : MuxW × MuxL :=
  if w.shutR then (w, m) else
  ({ w with shutR := true }, m.send w.chan Generated.CMD_TCP_STOP_SENDING [])

/-- `MuxWrapper.nowrite`: send EOF, then `setnowrite`. -/
def MuxW.nowrite (w : MuxW) (m : MuxL) : MuxW × MuxL :=
  if w.shutW then (w, m) else
  ({ w with shutW := true }, m.send w.chan Generated.CMD_TCP_EOF [])

inductive ConnOutcome
  | ok (w : SockW) (e : ESock)
  | died                        -- `raise  # error we've never heard of?!  barf completely.`

/-- `SockWrapper.try_connect` (ssnet.py:144-196). -/
def SockW.tryConnect (w : SockW) (e : ESock) (c : ConnRes) (shutErr : Bool) : ConnOutcome :=
  let w := if w.connecting && w.shutW then { w.noread with connecting := false } else w
  if !w.connecting then .ok w e else
  match c with
  | .ok => .ok { w with connecting := false } e
  | .errno en so =>
    let en := if en = Generated.EINVAL then so else en
    if en = Generated.EINPROGRESS ∨ en = Generated.EALREADY then .ok w e
    else if en = 0 then .ok { w with connecting := false } e
    else if en = Generated.EISCONN then .ok { w with connecting := false } e
    else if en ∈ Generated.NET_ERRS ++ Generated.CONNECT_EXTRA_ERRS then
      let r := SockW.seterr { w with connecting := false } e shutErr
      .ok r.1 r.2
    else .died

/-- `rsock.recv` as the environment answers it: data only if something is pending. -/
def ESock.recv (e : ESock) (r : RecvRes) : Option Bytes × Bool × ESock :=
  -- returns (bytes or none for EAGAIN, isError, env')
  match r with
  | .err => (none, true, e)
  | .eagain => (none, false, e)
  | .data n =>
    if e.pending.isEmpty then
      if e.eofIn then (some [], false, e) else (none, false, e)
    else
      let k := max n 1
      (some (e.pending.take k), false,
       { e with pending := e.pending.drop k, consumed := e.consumed ++ e.pending.take k })

/-- `SockWrapper.fill` (with `uread` inlined). -/
def SockW.fill (w : SockW) (e : ESock) (r : RecvRes) (shutErr : Bool) : SockW × ESock :=
  if !w.buf.isEmpty then (w, e) else
  if w.connecting then (w, e) else           -- uread: None
  if w.shutR then (w, e) else                -- uread: None
  match e.recv r with
  | (_, true, e1) =>                          -- OSError: seterr, return b'' → noread
    let r := SockW.seterr w e1 shutErr
    (r.1.noread, r.2)
  | (none, false, e1) => (w, e1)
  | (some rb, false, e1) =>
    if rb.isEmpty then (w.noread, e1) else ({ w with buf := w.buf ++ [rb] }, e1)

def popEmpty : List Bytes → List Bytes
  | [] => []
  | b :: rest => if b.isEmpty then popEmpty rest else b :: rest

/-- `MuxWrapper.uwrite`: returns bytes taken. -/
def MuxW.uwrite (w : MuxW) (m : MuxL) (b : Bytes) : Nat × MuxL :=
  if m.tooFull then (0, m) else
  let cut := b.take Generated.MUX_CUT
  (cut.length, m.send w.chan Generated.CMD_TCP_DATA cut)

/-- `sock.copy_to(mux)`: `SockWrapper.copy_to(MuxWrapper)`. -/
def sockCopyToMux (s : SockW) (w : MuxW) (m : MuxL) : SockW × MuxW × MuxL :=
  let (s1, m1) :=
    match s.buf with
    | b :: rest =>
      if b.isEmpty then (s, m) else
      let (n, m1) := w.uwrite m b
      ({ s with buf := b.drop n :: rest }, m1)
    | [] => (s, m)
  let s2 := { s1 with buf := popEmpty s1.buf }
  if s2.buf.isEmpty && s2.shutR then
    let (w1, m2) := w.nowrite m1
    (s2, w1, m2)
  else (s2, w, m1)

/-- `SockWrapper.uwrite`: bytes taken, new wrapper, new environment. -/
def SockW.uwrite (s : SockW) (e : ESock) (b : Bytes) (r : SendRes) (shutErr : Bool) :
    Option Nat × SockW × ESock :=
  if s.connecting then (some 0, s, e) else
  -- a socket that was shut down for writing refuses data (environment fact)
  let r := if e.sawShut then (match r with | .err => SendRes.err | _ => SendRes.epipe) else r
  match r with
  | .sent n =>
    let k := min n b.length
    (some k, s, { e with delivered := e.delivered ++ b.take k })
  | .eagain => (none, s, e)
  | .epipe => let x := s.nowrite e shutErr; (some 0, x.1, x.2)
  | .err => let x := s.seterr e shutErr; (some 0, x.1, x.2)

/-- `mux.copy_to(sock)`: `MuxWrapper.copy_to(SockWrapper)`. -/
def muxCopyToSock (w : MuxW) (s : SockW) (e : ESock) (r : SendRes) (shutErr : Bool) :
    MuxW × SockW × ESock :=
  let (w1, s1, e1) :=
    match w.buf with
    | b :: rest =>
      if b.isEmpty then (w, s, e) else
      match s.uwrite e b r shutErr with
      | (some n, s1, e1) => ({ w with buf := b.drop n :: rest }, s1, e1)
      | (none, s1, e1) => (w, s1, e1)       -- `buf[0][None:]` keeps everything
    | [] => (w, s, e)
  let w2 := { w1 with buf := popEmpty w1.buf }
  if w2.buf.isEmpty && w2.shutR then
    let x := s1.nowrite e1 shutErr
    (w2, x.1, x.2)
  else (w2, s1, e1)

/-- One tunnel end's handler for a flow: `Proxy(wrap1, wrap2)`.
Client: `Proxy(SockWrapper(sock), MuxWrapper)` — `sockFirst = true`.
Server: `Proxy(MuxWrapper, connect_dst(...))` — `sockFirst = false`. -/
structure ProxyS where
  sw : SockW
  mw : MuxW
  ok : Bool := true
  sockFirst : Bool
deriving Repr

/-- What the environment does during one `Proxy.callback`. -/
structure CbIo where
  conn : ConnRes := .ok
  recv : RecvRes := .eagain
  send : SendRes := .eagain
  shutErr : Bool := false
deriving Repr

inductive CbOutcome
  | ok (p : ProxyS) (m : MuxL) (e : ESock)
  | died

/-- `if wrapS.buf and wrapM.shut_write: wrapS.buf = []; wrapS.noread()` (sock side). -/
def ProxyS.dropSock (p : ProxyS) : ProxyS :=
  if !p.sw.buf.isEmpty && p.mw.shutW then { p with sw := { p.sw with buf := [] }.noread } else p

/-- `if wrapM.buf and wrapS.shut_write: wrapM.buf = []; wrapM.noread()` (mux side: tells the peer
to stop sending). -/
def ProxyS.dropMux (p : ProxyS) (m : MuxL) : ProxyS × MuxL :=
  if !p.mw.buf.isEmpty && p.sw.shutW then
    let r := MuxW.noread { p.mw with buf := [] } m
    ({ p with mw := r.1 }, r.2)
  else (p, m)

/-- `if both shut_read and both bufs empty: ok = False; wrap1.nowrite(); wrap2.nowrite()`. -/
def ProxyS.finish (p : ProxyS) (m : MuxL) (e : ESock) (shutErr : Bool) : ProxyS × MuxL × ESock :=
  if p.sw.shutR && p.mw.shutR && p.sw.buf.isEmpty && p.mw.buf.isEmpty then
    if p.sockFirst then
      let x := p.sw.nowrite e shutErr
      let r := p.mw.nowrite m
      ({ p with sw := x.1, mw := r.1, ok := false }, r.2, x.2)
    else
      let r := p.mw.nowrite m
      let x := p.sw.nowrite e shutErr
      ({ p with sw := x.1, mw := r.1, ok := false }, r.2, x.2)
  else (p, m, e)

/-- `if wrap1.shut_write: wrap2.noread(); if wrap2.shut_write: wrap1.noread()` — the state-changing
part of `Proxy.pre_select` (ssnet.py:301-305), and the same two statements in `Proxy.callback` just
before the completion test. -/
def ProxyS.preSelectFlags (p : ProxyS) (m : MuxL) : ProxyS × MuxL :=
  if p.sockFirst then
    -- wrap1 = sock, wrap2 = mux
    let (w, m1) := if p.sw.shutW then p.mw.noread m else (p.mw, m)
    let s := if w.shutW then p.sw.noread else p.sw
    ({ p with sw := s, mw := w }, m1)
  else
    let s := if p.mw.shutW then p.sw.noread else p.sw
    let (w, m1) := if s.shutW then p.mw.noread m else (p.mw, m)
    ({ p with sw := s, mw := w }, m1)

/-- The tail of `Proxy.callback` (ssnet.py:330-340); the order of the two symmetric clean-ups
follows `wrap1`/`wrap2`. -/
def ProxyS.cleanup (p : ProxyS) (m : MuxL) (e : ESock) (shutErr : Bool) : ProxyS × MuxL × ESock :=
  let pm := if p.sockFirst then p.dropSock.dropMux m else ((p.dropMux m).1.dropSock, (p.dropMux m).2)
  let pf := pm.1.preSelectFlags pm.2
  pf.1.finish pf.2 e shutErr

/-- `Proxy.callback` (ssnet.py:323-340). `MuxWrapper.try_connect` and `MuxWrapper.fill` do
nothing (no `connect_to`; `uread` is `b''` only when `shut_read` is already set). -/
def ProxyS.callback (p : ProxyS) (m : MuxL) (e : ESock) (io : CbIo) : CbOutcome :=
  match p.sw.tryConnect e io.conn io.shutErr with
  | .died => .died
  | .ok s0 e0 =>
    let (s1, e1) := s0.fill e0 io.recv io.shutErr
    if p.sockFirst then
      let (s2, w2, m2) := sockCopyToMux s1 p.mw m
      let (w3, s3, e3) := muxCopyToSock w2 s2 e1 io.send io.shutErr
      let r := ProxyS.cleanup { p with sw := s3, mw := w3 } m2 e3 io.shutErr
      .ok r.1 r.2.1 r.2.2
    else
      let (w2, s2, e2) := muxCopyToSock p.mw s1 e1 io.send io.shutErr
      let (s3, w3, m3) := sockCopyToMux s2 w2 m
      let r := ProxyS.cleanup { p with sw := s3, mw := w3 } m3 e2 io.shutErr
      .ok r.1 r.2.1 r.2.2

/-- Which readiness `Proxy.pre_select` asks for (ssnet.py:307-321), after the flag part:
(sock readable, sock writable, mux-out writable). -/
def ProxyS.wants (p : ProxyS) (m : MuxL) : Bool × Bool × Bool :=
  -- generic in wrap order: the two `if/elif/elif` chains are symmetric
  let sockR := !p.sw.connecting && p.sw.buf.isEmpty && !p.sw.shutR
  let sockWconn := p.sw.connecting
  let muxW := !p.sw.connecting && !p.sw.buf.isEmpty && !m.tooFull
  let sockWdata := !p.mw.buf.isEmpty           -- SockWrapper.too_full() is always False
  (sockR, sockWconn || sockWdata, muxW)

inductive GotOutcome
  | ok (w : MuxW)
  | died                 -- `raise Exception('unknown command …')`

/-- `MuxWrapper.got_packet`. -/
def MuxW.gotPacket (w : MuxW) (cmd : Nat) (data : Bytes) : GotOutcome :=
  if cmd = Generated.CMD_TCP_EOF then .ok { w with shutR := true }
  else if cmd = Generated.CMD_TCP_STOP_SENDING then .ok { w with shutW := true }
  else if cmd = Generated.CMD_TCP_DATA then .ok { w with buf := w.buf ++ [data] }
  else .died

end Sshuttle.Wrap
