/-
Code model of `sshuttle/firewall.py` `rewrite_etc_hosts` (:25-67) and `restore_etc_hosts`
(:70-74).

The Python function is a straight line of file-system calls whose arguments depend on what
earlier calls answered, so it is modelled as a *resumption* (`Proc`): either finished, or an
exception propagating out, or "perform this file-system operation and continue with the
answer".  Running a `Proc` against the file-system model (`Env/Fs.lean`) yields the list of
operations; stopping after `k` operations is a crash; two `Proc`s can be interleaved.

Text is a list of Unicode code points.  The CPython string functions the code uses
(`rstrip`, `strip`, `split('\n')`, `find(...) >= 0`, `%d`, `%-30s`, `sorted`) are modelled
here too; each has its own correspondence stream in the harness.
Core Lean only.
-/
import SshuttleModel.Basic
import SshuttleModel.Gen.C14

namespace Sshuttle.Hosts

/-- A Python `str`: the list of its code points. -/
abbrev Text := List Nat

/-! ### CPython string functions -/

/-- `ch.isspace()` (table regenerated from the running interpreter). -/
def isSpace (c : Nat) : Bool := Gen.C14.SPACE_RANGES.any fun r => r.1 ≤ c && c ≤ r.2

/-- `s.rstrip()` -/
def rstrip (s : Text) : Text := (s.reverse.dropWhile isSpace).reverse

/-- truth value of `s.strip()`: some character is not white space -/
def nonBlank (s : Text) : Bool := s.any fun c => !isSpace c

/-- `s.split('\n')` (always at least one element). -/
def splitNl : Text → List Text
  | [] => [[]]
  | c :: cs =>
    if c = 10 then [] :: splitNl cs
    else match splitNl cs with
      | [] => [[c]]
      | l :: ls => (c :: l) :: ls

/-- `line.find(pat) >= 0` -/
def hasSub (pat : Text) : Text → Bool
  | [] => pat.isEmpty
  | c :: cs => pat.isPrefixOf (c :: cs) || hasSub pat cs

/-- `'%d' % n` for a non-negative integer. -/
def decimal (n : Nat) : Text := (Nat.toDigits 10 n).map Char.toNat

/-- `'%-Ns' % s`: left-justified in a field of `N` code points, never truncated. -/
def ljust (width : Nat) (s : Text) : Text := s ++ List.replicate (width - s.length) 32

/-- Python's `<` on `str` (lexicographic on code points). -/
def textLt : Text → Text → Bool
  | [], [] => false
  | [], _ :: _ => true
  | _ :: _, [] => false
  | a :: as, b :: bs => if a < b then true else if b < a then false else textLt as bs

/-- The text-mode read translation (`newline=None`): `\r\n` and lone `\r` become `\n`.
`prevCR`: the previous character was a `\r` (already turned into `\n`). -/
def normNlAux : Bool → Text → Text
  | _, [] => []
  | prevCR, c :: r =>
    if c = 13 then 10 :: normNlAux true r
    else if c = 10 then (if prevCR then normNlAux false r else 10 :: normNlAux false r)
    else c :: normNlAux false r

def normNl (t : Text) : Text := normNlAux false t

/-! ### values computed by `rewrite_etc_hosts` -/

/-- `hostmap`: a Python `dict` as an association list in insertion order (keys distinct). -/
abbrev HostMap := List (Text × Text)      -- (name, ip)

/-- `hostmap[name] = ip` -/
def setHost (hm : HostMap) (name ip : Text) : HostMap :=
  if hm.any (fun e => e.1 == name) then hm.map fun e => if e.1 == name then (name, ip) else e
  else hm ++ [(name, ip)]

/-- `APPEND = '# sshuttle-firewall-%d AUTOCREATED' % port` -/
def marker (port : Nat) : Text := Gen.C14.MARK_PRE ++ decimal port ++ Gen.C14.MARK_SUF

def insertHost (e : Text × Text) : HostMap → HostMap
  | [] => [e]
  | x :: xs => if textLt e.1 x.1 then e :: x :: xs else x :: insertHost e xs

/-- `sorted(hostmap.items())`: keys are distinct, so the order is the order of the names. -/
def sortHosts : HostMap → HostMap
  | [] => []
  | e :: es => insertHost e (sortHosts es)

/-- `'%-30s %s\n' % ('%s %s' % (ip, name), APPEND)` without the final newline. -/
def hostLine (port : Nat) (e : Text × Text) : Text :=
  ljust Gen.C14.PAD_WIDTH (e.2 ++ [32] ++ e.1) ++ [32] ++ marker port

def hostLines (port : Nat) (hm : HostMap) : List Text := (sortHosts hm).map (hostLine port)

/-- `old_content.rstrip().split('\n')` -/
def oldLines (old : Text) : List Text := splitNl (rstrip old)

/-- the lines the first loop writes: those without this port's marker -/
def keptLines (port : Nat) (old : Text) : List Text :=
  (oldLines old).filter fun l => !hasSub (marker port) l

/-- the argument of every `f.write(...)`, in order -/
def writes (hm : HostMap) (port : Nat) (old : Text) : List Text :=
  (keptLines port old ++ hostLines port hm).map (· ++ [10])

/-! ### file-system operations and the resumption -/

inductive Path
  | hosts               -- HOSTSFILE
  | bak                 -- '%s.sbak' % HOSTSFILE
  | tmp (port : Nat)    -- '%s.%d.tmp' % (HOSTSFILE, port)
deriving DecidableEq, Repr

structure Meta where
  uid : Nat
  gid : Nat
  mode : Nat
deriving DecidableEq, Repr

inductive Op
  | readFile (p : Path)              -- `open(p).read()`
  | stat (p : Path)                  -- `os.stat(p)`
  | pexists (p : Path)               -- `os.path.exists(p)`
  | link (src dst : Path)            -- `os.link(src, dst)`
  | copyfile (src dst : Path)        -- `shutil.copyfile(src, dst)`
  | openw (p : Path)                 -- `open(p, 'w')`
  | write (p : Path) (data : Text)   -- `f.write(data)`
  | close (p : Path)                 -- `f.close()`
  | chown (p : Path) (uid gid : Nat) -- `os.chown(p, uid, gid)`
  | chmod (p : Path) (mode : Nat)    -- `os.chmod(p, mode)`
  | rename (src dst : Path)          -- `os.rename(src, dst)`
  | move (src dst : Path)            -- `shutil.move(src, dst)`
deriving DecidableEq, Repr

/-- What the environment answered. -/
inductive Ans
  | ok
  | enoent                 -- `OSError` with `errno.ENOENT`
  | err                    -- any other `OSError`
  | undecodable            -- `UnicodeDecodeError` from the text-mode read
  | text (t : Text)
  | info (m : Meta)
  | bool (b : Bool)
deriving DecidableEq, Repr

/-- Exceptions that leave `rewrite_etc_hosts`. -/
inductive Exc
  | osError (site : String)      -- re-raised / unhandled `OSError` of the named call
  | unicodeDecode                -- not planned for by the authors
  | protocol                     -- an answer of the wrong kind (the environment model never gives one)
deriving DecidableEq, Repr

inductive Proc
  | done
  | raised (e : Exc)
  | step (op : Op) (k : Ans → Proc)

/-- `for …: f.write(…)` -/
def writeAll (p : Path) : List Text → Proc → Proc
  | [], k => k
  | d :: ds, k => .step (.write p d) fun a =>
      match a with
      | .ok => writeAll p ds k
      | .enoent | .err => .raised (.osError "write")
      | _ => .raised .protocol

/-- firewall.py:61-67 -/
def renameStep (port : Nat) : Proc :=
  .step (.rename (.tmp port) .hosts) fun a =>
    match a with
    | .ok => .done
    | .enoent | .err =>
      .step (.move (.tmp port) .hosts) fun a =>
        match a with
        | .ok => .done
        | .enoent | .err => .raised (.osError "move")
        | _ => .raised .protocol
    | _ => .raised .protocol

/-- firewall.py:54-60 (`sys.platform != 'win32'`) -/
def permSteps (port : Nat) (st : Option Meta) : Proc :=
  let m : Meta := match st with
    | some m => m
    | none => ⟨Gen.C14.DEFAULT_UID, Gen.C14.DEFAULT_GID, Gen.C14.DEFAULT_MODE⟩
  .step (.chown (.tmp port) m.uid m.gid) fun a =>
    match a with
    | .ok =>
      .step (.chmod (.tmp port) m.mode) fun a =>
        match a with
        | .ok => renameStep port
        | .enoent | .err => .raised (.osError "chmod")
        | _ => .raised .protocol
    | .enoent | .err => .raised (.osError "chown")
    | _ => .raised .protocol

/-- firewall.py:52 `f.close()` and what follows -/
def closeSteps (port : Nat) (st : Option Meta) : Proc :=
  .step (.close (.tmp port)) fun a =>
    match a with
    | .ok => permSteps port st
    | .enoent | .err => .raised (.osError "close")
    | _ => .raised .protocol

/-- firewall.py:44-52 -/
def tmpSteps (hm : HostMap) (port : Nat) (old : Text) (st : Option Meta) : Proc :=
  .step (.openw (.tmp port)) fun a =>
    match a with
    | .ok => writeAll (.tmp port) (writes hm port old) (closeSteps port st)
    | .enoent | .err => .raised (.osError "open-tmp")
    | _ => .raised .protocol

/-- firewall.py:38-43 -/
def bakSteps (hm : HostMap) (port : Nat) (old : Text) (st : Option Meta) : Proc :=
  if nonBlank old then
    .step (.pexists .bak) fun a =>
      match a with
      | .bool true => tmpSteps hm port old st
      | .bool false =>
        .step (.link .hosts .bak) fun a =>
          match a with
          | .ok => tmpSteps hm port old st
          | .enoent | .err =>
            .step (.copyfile .hosts .bak) fun a =>
              match a with
              | .ok => tmpSteps hm port old st
              | .enoent | .err => .raised (.osError "copyfile")
              | _ => .raised .protocol
          | _ => .raised .protocol
      | _ => .raised .protocol
  else tmpSteps hm port old st

/-- `rewrite_etc_hosts(hostmap, port)` (firewall.py:25-67). -/
def rewrite (hm : HostMap) (port : Nat) : Proc :=
  .step (.readFile .hosts) fun a =>
    match a with
    | .text old =>
      .step (.stat .hosts) fun a =>
        match a with
        | .info m => bakSteps hm port old (some m)
        | .enoent => bakSteps hm port old none      -- `old_content` is already assigned
        | .err => .raised (.osError "stat")
        | _ => .raised .protocol
    | .enoent => bakSteps hm port [] none
    | .err => .raised (.osError "open")
    | .undecodable => .raised .unicodeDecode
    | _ => .raised .protocol

/-- `restore_etc_hosts(hostmap, port)` (firewall.py:70-74). -/
def restore (hm : HostMap) (port : Nat) : Proc :=
  if hm.length > 0 then rewrite [] port else .done

/-! ### the shapes this model was written for (a changed format breaks the build) -/

example : Gen.C14.MARK_FMT = "# sshuttle-firewall-%d AUTOCREATED" := by decide
example : Gen.C14.HOST_FMT = "%-30s %s\n" := by decide
example : Gen.C14.HOST_ARG = "('%s %s' % (ip, name), APPEND)" := by decide
example : Gen.C14.KEPT_FMT = "%s\n" ∧ Gen.C14.KEPT_ARG = "line" := by decide
example : Gen.C14.N_WRITE_SITES = 2 := by decide
example : Gen.C14.BAK_FMT = "%s.sbak" ∧ Gen.C14.TMP_FMT = "%s.%d.tmp" := by decide
example : Gen.C14.READ_EXPR = "open(HOSTSFILE).read()" := by decide
example : Gen.C14.LOOP_ITERS = ["old_content.rstrip().split('\\n')", "sorted(hostmap.items())"] := by decide
example : Gen.C14.IF_TESTS = ["e.errno == errno.ENOENT",
    "old_content.strip() and (not os.path.exists(BAKFILE))", "line.find(APPEND) >= 0",
    "sys.platform != 'win32'", "st is not None"] := by decide
example : Gen.C14.FS_CALLS = ["open:HOSTSFILE", "os.stat", "os.path.exists", "os.link",
    "shutil.copyfile", "open:tmpname:'w'", "os.chown", "os.chmod", "os.chown", "os.chmod",
    "os.rename", "shutil.move"] := by decide
example : Gen.C14.RESTORE_BODY =
    "if len(hostmap) > 0:\n    debug2('undoing /etc/hosts changes.')\n    rewrite_etc_hosts({}, port)" := by
  decide

end Sshuttle.Hosts
