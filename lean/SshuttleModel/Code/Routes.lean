/-
Code model for C17 (automatic route discovery), core Lean only.

Mirrors, statement by statement:
  * `sshuttle/server.py`: `_ipmatch` (:20), `_maskbits` (:49), `_shl` (:59), `_route_netstat` (:63),
    `_route_iproute` (:73), `_list_routes` (:96, *with* the `try/except` that skips lines the
    extractor cannot interpret — proposed_fixes/C17-skip-junk.diff), `list_routes` (:117, POSIX branch),
    and the ROUTES packet builder of `main` (:323-326) on top of `Mux.send` (Code/Mux.lean);
  * `sshuttle/client.py`: `onroutes` inside `_main` (:738-763) and the part of `FirewallClient.start`
    (:411-421) that writes the `ROUTES` section of the plan.

Text is `List Nat` (code points / bytes).  Every exception the Python can raise at a modelled
statement is an explicit `Exc` value; nothing is totalised away.  CPython 3.12 / glibc library
functions used by that code (`bytes.strip`, `str.split`, `re.match` on the one anchored expression,
`int()`, `socket.inet_aton` on a 4-part decimal string, `struct`, `inet_ntoa`) are modelled here too and
have their own correspondence streams in `harness/props/c17.py`.
-/
import SshuttleModel.Code.Mux
import SshuttleModel.Gen.C17

namespace Sshuttle.Routes

open Sshuttle

/-- Code points of a Python `str`, or the bytes of a `bytes`. -/
abbrev Str := List Nat

inductive Exc
  | valueError            -- int() syntax / digit limit, tuple unpacking of a wrong-length list
  | unicodeDecodeError    -- `.decode("ASCII")` (a subclass of ValueError)
  | unicodeEncodeError    -- `.encode("ASCII")` (a subclass of ValueError)
  | osError               -- `socket.inet_aton`
  | indexError            -- `line.split(None, 1)[0]` on a whitespace-only str
  | overflowError         -- `2 ** bits` with an astronomically negative `bits`
  | structError           -- `struct.pack('!I', ip)` out of range
  | assertionError        -- `assert len(data) <= 65535` in `Mux.send`
  | noHandler             -- `raise Exception('got CMD_ROUTES without got_routes?')`
deriving DecidableEq, Repr, Inhabited

/-- `except (ValueError, OSError, IndexError)` in the repaired `_list_routes`. -/
def Exc.caught : Exc → Bool
  | .valueError | .unicodeDecodeError | .unicodeEncodeError | .osError | .indexError => true
  | _ => false

/-! ### character classes -/

/-- `bytes.isspace`: what `bytes.strip()` removes and `int(bytes)` skips. -/
def isBSpace (c : Nat) : Bool := c == 32 || (9 ≤ c && c ≤ 13)

/-- `str.isspace` on code points below 128: what `str.split(None)` separates on and `int(str)` skips
(`\x1c`‥`\x1f` are white space for `str` but not for `bytes`). -/
def isUSpace (c : Nat) : Bool := c == 32 || (9 ≤ c && c ≤ 13) || (28 ≤ c && c ≤ 31)

def isDigit (c : Nat) : Bool := 48 ≤ c && c ≤ 57

/-! ### decimal text -/

/-- Decimal digits of `n`, most significant first; `fuel` bounds the number of digits
(structural recursion, so that the kernel can evaluate it). -/
def decDigitsFuel : Nat → Nat → Str
  | 0, n => [48 + n % 10]
  | fuel + 1, n => if n < 10 then [48 + n] else decDigitsFuel fuel (n / 10) ++ [48 + n % 10]

/-- `'%d' % n` for `n ≥ 0` (a number has at most `n` digits after the first). -/
def decDigits (n : Nat) : Str := decDigitsFuel n n

/-- `'%d' % n`. -/
def decInt : Int → Str
  | .ofNat n => decDigits n
  | .negSucc n => 45 :: decDigits (n + 1)

/-- Value of a string of ASCII digits read in base `b`. -/
def parseBase (b : Nat) (ds : Str) : Nat := ds.foldl (fun acc d => acc * b + (d - 48)) 0

def parseDec (ds : Str) : Nat := parseBase 10 ds

/-- Body of an integer literal accepted by `int()`: digits with single underscores *between* digits.
Returns the digits without the underscores. -/
def undDigits : Str → Option Str
  | [] => none
  | c :: r =>
    if !isDigit c then none else
    match r with
    | [] => some [c]
    | u :: r' =>
      if u = 95 then (undDigits r').map (c :: ·) else (undDigits (u :: r')).map (c :: ·)

def stripWith (sp : Nat → Bool) (s : Str) : Str :=
  ((s.dropWhile sp).reverse.dropWhile sp).reverse

/-- Optional sign of an integer literal: (negative?, rest). -/
def signSplit : Str → Bool × Str
  | 45 :: r => (true, r)
  | 43 :: r => (false, r)
  | r => (false, r)

/-- CPython `int(x)` for an ASCII `str` or a `bytes` argument, base 10: optional surrounding white space
(for both types the bytes kind: an all-ASCII `str` is handed to `PyLong_FromString` unchanged, which skips
`Py_ISSPACE` only, so `\x1c`‥`\x1f` are *not* skipped), optional sign, `undDigits`; more than
`sys.int_info.default_max_str_digits` digits is a `ValueError` as well. -/
def pyInt (s : Str) : Except Exc Int :=
  let t := signSplit (stripWith isBSpace s)
  match undDigits t.2 with
  | none => .error .valueError
  | some ds =>
    if ds.length > Gen.C17.INT_MAX_STR_DIGITS then .error .valueError
    else if t.1 then .ok (- (parseDec ds : Int)) else .ok (parseDec ds : Int)

/-! ### `str.split` -/

/-- Next white-space separated token and what follows it. -/
def nextToken (s : Str) : Option (Str × Str) :=
  let s' := s.dropWhile isUSpace
  if s'.isEmpty then none
  else some (s'.takeWhile (fun c => !isUSpace c), s'.dropWhile (fun c => !isUSpace c))

def splitWsFuel : Nat → Str → List Str
  | 0, _ => []
  | fuel + 1, s =>
    match nextToken s with
    | none => []
    | some (t, r) => t :: splitWsFuel fuel r

/-- `s.split(None)` (every token consumes at least one character, so `len(s)+1` iterations suffice). -/
def splitWs (s : Str) : List Str := splitWsFuel (s.length + 1) s

/-- `s.split(sep)` for a one-character separator. -/
def splitOn (sep : Nat) : Str → List Str
  | [] => [[]]
  | c :: r =>
    if c = sep then [] :: splitOn sep r
    else match splitOn sep r with
      | h :: t => (c :: h) :: t
      | [] => [[c]]

/-- `for line in p.stdout`: a binary file yields lines cut after each `\n`. -/
def splitLinesAux : Bytes → Bytes → List Bytes
  | [], cur => if cur.isEmpty then [] else [cur.reverse]
  | c :: r, cur => if c = 10 then (c :: cur).reverse :: splitLinesAux r [] else splitLinesAux r (c :: cur)

def splitLines (b : Bytes) : List Bytes := splitLinesAux b []

def decodeAscii (b : Bytes) : Except Exc Str :=
  if b.all (· < 128) then .ok b else .error .unicodeDecodeError

def encodeAscii (s : Str) : Except Exc Bytes :=
  if s.all (· < 128) then .ok s else .error .unicodeEncodeError

/-! ### `_ipmatch` (server.py:20-38) -/

def digitsSpan (s : Str) : Str × Str := (s.takeWhile isDigit, s.dropWhile isDigit)

/-- End of the pattern: `$` matches at the end of the string or just before a final `\n`. -/
def atEnd (s : Str) : Bool := s.isEmpty || s == [10]

/-- `(?:/(\d+))?$` once a `/` has been read. -/
def reSlash (acc : List Str) (r : Str) : Option (List Str × Option Str) :=
  match digitsSpan r with
  | ([], _) => none
  | (d, r') => if atEnd r' then some (acc, some d) else none

/-- The groups `(\.\d+(\.\d+(\.\d+)?)?)?` then `(?:/(\d+))?$`, after the first `\d+`; `k` more dotted
groups are allowed.  Returns the octet texts and the text of group 5.  (The expression is
deterministic: after the dotted part only `/`, the end, or one final newline can follow, so the
greedy left-to-right reading below finds the match iff `re.match` does.) -/
def reTail : Nat → List Str → Str → Option (List Str × Option Str)
  | _, acc, [] => some (acc, none)
  | 0, acc, c :: r =>
    if c = 47 then reSlash acc r
    else if c = 46 then none
    else if atEnd (c :: r) then some (acc, none) else none
  | k + 1, acc, c :: r =>
    if c = 47 then reSlash acc r
    else if c = 46 then
      match digitsSpan r with
      | ([], _) => none
      | (d, r') => reTail k (acc ++ [d]) r'
    else if atEnd (c :: r) then some (acc, none) else none

/-- `re.match(r'^(\d+(\.\d+(\.\d+(\.\d+)?)?)?)(?:/(\d+))?$', ipstr)`: the 1‥4 octet texts and group 5. -/
def reIp (s : Str) : Option (List Str × Option Str) :=
  match digitsSpan s with
  | ([], _) => none
  | (d, r) => reTail 3 [d] r

/-- One part of glibc `inet_aton` (each part goes through `strtoul(…, 0)`: a leading `0` means octal,
an `8`/`9` inside an octal part is a syntax error; with four parts every part must be ≤ 255).
The argument is a non-empty string of ASCII digits. -/
def atonPart (d : Str) : Option Nat :=
  match d with
  | 48 :: c :: rest =>
    if (c :: rest).all (fun x => x < 56) then
      let v := parseBase 8 (c :: rest)
      if v ≤ 255 then some v else none
    else none
  | _ =>
    let v := parseDec d
    if v ≤ 255 then some v else none

/-- `struct.unpack('!I', socket.inet_aton(ips))[0]` for `ips` = the four parts joined by dots. -/
def inetAton4 (parts : List Str) : Except Exc Nat :=
  match parts.map atonPart with
  | [some a, some b, some c, some d] => .ok (a * 16777216 + b * 65536 + c * 256 + d)
  | _ => .error .osError

/-- `width = int(g[4] or 32)` (`g[4]` is `None` or a non-empty digit string, which is true). -/
def groupWidth : Option Str → Except Exc Int
  | none => .ok (Gen.C17.DEFAULT_WIDTH : Nat)
  | some d => pyInt d

/-- `ips += '.0.0.0'; width = min(width, 8)` etc. on the octet texts. -/
def padCap (octs : List Str) (width : Int) : List Str × Int :=
  match octs with
  | [a] => ([a, [48], [48], [48]], min width (Gen.C17.CAP1 : Nat))
  | [a, b] => ([a, b, [48], [48]], min width (Gen.C17.CAP2 : Nat))
  | [a, b, c] => ([a, b, c, [48]], min width (Gen.C17.CAP3 : Nat))
  | o => (o, width)

/-- `_ipmatch(ipstr)`: `None`, or `(address, width)`. -/
def ipmatch (ipstr : Str) : Except Exc (Option (Nat × Int)) :=
  let ipstr := if ipstr = Gen.C17.DEFAULT_TEXT then Gen.C17.DEFAULT_REPL else ipstr
  match reIp ipstr with
  | none => .ok none
  | some (octs, g4) =>
    match groupWidth g4 with
    | .error e => .error e
    | .ok width =>
      match inetAton4 (padCap octs width).1 with
      | .error e => .error e
      | .ok ip => .ok (some (ip, (padCap octs width).2))

/-! ### `_shl`, `_maskbits` (server.py:49-60) -/

/-- A Python `int` converts to `float` without `OverflowError` iff its magnitude is below this. -/
def floatOverflow : Nat := 2 ^ 1024 - 2 ^ 970

/-- `_shl(n, bits) = n * int(2 ** bits)`.  For `bits < 0` Python computes a float in `(0, 0.5]`,
truncated to 0 by `int()`; converting an exponent of magnitude ≥ `floatOverflow` raises. -/
def shl (n : Int) (bits : Int) : Except Exc Int :=
  if 0 ≤ bits then .ok (n * (2 : Int) ^ bits.toNat)
  else if floatOverflow ≤ (-bits).toNat then .error .overflowError
  else .ok 0

/-- `_maskbits(netmask)` (`netmask` is `None` or the tuple from `_ipmatch`; a tuple is always true). -/
def maskbits : Option (Nat × Int) → Nat
  | none => Gen.C17.MASKBITS_NONE
  | some (m, _) =>
    match (List.range Gen.C17.MASKBITS_RANGE).find? (fun i => m &&& 2 ^ i != 0) with
    | some i => Gen.C17.MASKBITS_RANGE - i
    | none => 0

/-! ### `_route_netstat`, `_route_iproute` (server.py:63-79) -/

/-- What an extractor returns: `(ipw, mask)`; `(None, None)` is `(none, none)`. -/
abbrev Extract := Option (Nat × Int) × Option Int

def routeNetstat (line : Str) : Except Exc Extract :=
  let cols := splitWs line
  if cols.length < Gen.C17.NETSTAT_MIN_COLS then .ok (none, none) else
  match cols[Gen.C17.NETSTAT_IP_COL]?, cols[Gen.C17.NETSTAT_MASK_COL]? with
  | some c0, some c2 => do
    let ipw ← ipmatch c0
    let maskw ← ipmatch c2
    pure (ipw, some (maskbits maskw : Int))
  | _, _ => .error .indexError

def routeIproute (line : Str) : Except Exc Extract :=
  -- ipm = line.split(None, 1)[0]
  match nextToken line with
  | none => .error .indexError
  | some (ipm, _) =>
    if !ipm.contains 47 then .ok (none, none) else
    -- ip, mask = ipm.split('/')
    match splitOn 47 ipm with
    | [ip, mask] => do
      let ipw ← ipmatch ip
      let m ← pyInt mask
      pure (ipw, some m)
    | _ => .error .valueError

inductive Tool | iproute | netstat | absent
deriving DecidableEq, Repr

def extractRoute : Tool → Str → Except Exc Extract
  | .iproute, l => routeIproute l
  | .netstat, l => routeNetstat l
  | .absent, _ => .ok (none, none)

/-! ### `_list_routes`, `list_routes` (server.py:96-132) -/

structure Route where
  family : Nat
  ip     : Str
  width  : Int
deriving DecidableEq, Repr

/-- Python's `a & x` for `a ≥ 0` and any integer `x` (two's complement for negative `x`). -/
def landInt (a : Nat) : Int → Nat
  | .ofNat x => a &&& x
  | .negSucc y => a - (a &&& y)

/-- `socket.inet_ntoa(struct.pack('!I', ip))`. -/
def inetNtoa (ip : Nat) : Str :=
  decDigits (ip / 16777216) ++ [46] ++ decDigits (ip / 65536 % 256) ++ [46] ++
  decDigits (ip / 256 % 256) ++ [46] ++ decDigits (ip % 256)

/-- The statements of the loop body after the extractor returned `(ipw, mask)` with `ipw` true. -/
def mkRoute (ipw : Nat × Int) (mask : Int) : Except Exc Route := do
  let width := min ipw.2 mask
  let one ← shl 1 width
  let m ← shl (one - 1) (Gen.C17.TOTAL_BITS - width)
  let ip := landInt ipw.1 m
  if ip ≥ 4294967296 then .error .structError else
  pure ⟨Generated.AF_INET, inetNtoa ip, width⟩

/-- One iteration of `for line in p.stdout:` in the repaired `_list_routes`. `none` = `continue`. -/
def lineStep (tool : Tool) (line : Bytes) : Except Exc (Option Route) :=
  -- if not line.strip(): continue
  if line.all isBSpace then .ok none else
  -- try: ipw, mask = extract_route(line.decode("ASCII"))
  -- except (ValueError, OSError, IndexError): continue
  match (decodeAscii line >>= extractRoute tool) with
  | .error e => if e.caught then .ok none else .error e
  | .ok (ipw, mask) =>
    -- if not ipw or mask < 0: continue
    match ipw, mask with
    | some ipw, some mask => if mask < 0 then .ok none else (mkRoute ipw mask).map some
    | _, _ => .ok none

/-- `_list_routes(argv, extract_route)` on the tool's output lines. -/
def listRoutesRaw (tool : Tool) : List Bytes → Except Exc (List Route)
  | [] => .ok []
  | l :: ls => do
    let r ← lineStep tool l
    let rest ← listRoutesRaw tool ls
    pure (match r with | some x => x :: rest | none => rest)

def startsWith (p s : Str) : Bool := s.take p.length == p

/-- The filter of `list_routes`: `not ip.startswith('0.') and not ip.startswith('127.')`. -/
def keepRoute (r : Route) : Bool := Gen.C17.FILTER_PREFIXES.all (fun p => !startsWith p r.ip)

/-- `list(list_routes())`; `tool` is what the two `which()` calls selected. -/
def listRoutes (tool : Tool) (lines : List Bytes) : Except Exc (List Route) :=
  (listRoutesRaw tool lines).map (·.filter keepRoute)

/-- What `list_routes` yields for one line of tool output: loop body of `_list_routes`, then the filter. -/
def advertise (tool : Tool) (line : Bytes) : Except Exc (Option Route) :=
  (lineStep tool line).map (fun r => r.filter keepRoute)

/-! ### ROUTES packet builder (server.py:323-326) -/

/-- `'%d,%s,%d\n' % r` -/
def fmtRoute (r : Route) : Str :=
  decDigits r.family ++ [44] ++ r.ip ++ [44] ++ decInt r.width ++ [10]

def routePkt (rs : List Route) : Str := (rs.map fmtRoute).flatten

/-- `mux.send(0, ssnet.CMD_ROUTES, b(routepkt))`. -/
def sendRoutes (tx : Mux.Tx) (rs : List Route) : Except Exc Mux.Tx := do
  let data ← encodeAscii (routePkt rs)
  match Mux.send tx (some 0) Generated.CMD_ROUTES data with
  | .ok tx' => .ok tx'
  | .assertLen => .error .assertionError
  | .structError => .error .structError

/-! ### client: `onroutes` (client.py:738-763), `FirewallClient.start` ROUTES section (:411-421) -/

structure Subnet where
  family : Int
  ip     : Str
  width  : Int
  fport  : Int
  lport  : Int
deriving DecidableEq, Repr

/-- `tcp_listener.v4 is not None`, `tcp_listener.v6 is not None`. -/
structure Listeners where
  v4 : Bool
  v6 : Bool
deriving DecidableEq, Repr

/-- First occurrence of `sep`: text before it and after it. -/
def cut (sep : Nat) : Str → Option (Str × Str)
  | [] => none
  | c :: r => if c = sep then some ([], r) else (cut sep r).map (fun p => (c :: p.1, p.2))

/-- Body of the `for line in …` loop of `onroutes` for a non-empty `line`;
`none` = the net is ignored. -/
def onroutesLine (L : Listeners) (line : Bytes) : Except Exc (Option Subnet) :=
  -- (family, ip, width) = line.split(b',', 2)
  match cut 44 line with
  | none => .error .valueError
  | some (fam, r) =>
    match cut 44 r with
    | none => .error .valueError
    | some (ip, wid) => do
      let family ← pyInt fam
      let width ← pyInt wid
      let ip ← decodeAscii ip
      -- `if AF_INET6 and v6 is None: debug2` has no effect; then `if AF_INET and v4 is None … else: append`
      if family = Generated.AF_INET ∧ !L.v4 then pure none
      else pure (some ⟨family, ip, width, Gen.C17.AUTO_FPORT, Gen.C17.AUTO_LPORT⟩)

def onroutesLoop (L : Listeners) : List Bytes → List Subnet → Except Exc (List Subnet)
  | [], acc => .ok acc
  | l :: ls, acc =>
    if l.isEmpty then onroutesLoop L ls acc else
    match onroutesLine L l with
    | .error e => .error e
    | .ok none => onroutesLoop L ls acc
    | .ok (some s) => onroutesLoop L ls (acc ++ [s])

/-- `b'%d,%d,0,%s,%d,%d\n' % (family, width, ip.encode("ASCII"), fport, lport)` -/
def subnetLine (excl : Nat) (s : Subnet) : Except Exc Bytes := do
  let ip ← encodeAscii s.ip
  pure (decInt s.family ++ [44] ++ decInt s.width ++ [44] ++ decDigits excl ++ [44] ++ ip ++ [44] ++
        decInt s.fport ++ [44] ++ decInt s.lport ++ [10])

def mapExc {α β : Type} (f : α → Except Exc β) : List α → Except Exc (List β)
  | [] => .ok []
  | a :: as => do
    let b ← f a
    let bs ← mapExc f as
    pure (b :: bs)

/-- What `FirewallClient.start` writes up to and including the subnet lines; `tail` stands for the
writes that follow (`NSLIST` …, `PORTS` …, `GO` …). -/
def fwStart (incl autoNets excl : List Subnet) (tail : List Bytes) : Except Exc (List Bytes) := do
  let inc ← mapExc (subnetLine 0) (incl ++ autoNets)
  let exc ← mapExc (subnetLine 1) excl
  pure ([Gen.C17.START_HEADER] ++ inc ++ exc ++ tail)

structure Client where
  autoNetsOpt : Bool            -- the `auto_nets` argument of `_main`
  listeners   : Listeners
  gotRoutes   : Bool := true    -- `mux.got_routes` is `onroutes`
  fwAutoNets  : List Subnet := []
  incl        : List Subnet := []
  excl        : List Subnet := []
  dialogues   : List (List Bytes) := []   -- one entry per `fw.start()` call
deriving Repr

/-- `Mux.got_packet(0, CMD_ROUTES, data)` on the client: `onroutes(data)` then `serverready()`. -/
def Client.gotRoutesPacket (c : Client) (data : Bytes) (tail : List Bytes) : Except Exc Client := do
  if !c.gotRoutes then .error .noHandler else
  let nets ←
    if c.autoNetsOpt then
      onroutesLoop c.listeners (splitOn 10 (stripWith isBSpace data)) c.fwAutoNets
    else pure c.fwAutoNets
  -- mux.got_routes = None ; serverready() → fw.start()
  let d ← fwStart c.incl nets c.excl tail
  pure { c with gotRoutes := false, fwAutoNets := nets, dialogues := c.dialogues ++ [d] }

end Sshuttle.Routes
