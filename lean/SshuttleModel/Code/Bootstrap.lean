/-
Code model of the bootstrap upload (C18):

* `sshuttle/ssh.py`  `get_module_source` (:18), `empackage` (:24), the part of `connect`
  that builds `content` / `optdata` / `content2` (:94-104) and writes them (:253-254);
* the bootstrap one-liner `stdin.read(len(content))` (:115-122);
* `sshuttle/assembler.py` (whole file): the `while 1:` loop over a *buffered* binary stdin,
  the imports after the loop;
* option rendering `"%s=%r\n"` and its evaluation by the remote interpreter for the four
  value types the client passes (`bool`, `int`, `None`, `str`);
* the order of writes in `client._main` up to the first `Mux.flush`.

zlib is an abstract `Codec`; `compile`/`exec` of a module body are outside.
Every exception the Python can raise here is an explicit constructor.  Core Lean only.
-/
import SshuttleModel.Basic
import SshuttleModel.Generated
import SshuttleModel.Code.Mux
import SshuttleModel.Code.Handshake
import SshuttleModel.Gen.C18

namespace Sshuttle.Bootstrap

/-! ## zlib, abstractly -/

/-- `zlib.compressobj(1)` / `zlib.decompressobj()` as state machines.  `decompress`
returns `none` where zlib raises `zlib.error`. -/
structure Codec where
  CState : Type
  DState : Type
  cinit : CState
  dinit : DState
  compress : CState → Bytes → CState × Bytes
  syncFlush : CState → CState × Bytes
  decompress : DState → Bytes → Option (DState × Bytes)

/-- `content = z.compress(data); content += z.flush(zlib.Z_SYNC_FLUSH)`. -/
def Codec.chunk (c : Codec) (s : c.CState) (data : Bytes) : c.CState × Bytes :=
  let r1 := c.compress s data
  let r2 := c.syncFlush r1.1
  (r2.1, r1.2 ++ r2.2)

/-- Chunks produced by one compressor for a list of inputs, in order. -/
def Codec.packAll (c : Codec) : c.CState → List Bytes → List Bytes
  | _, [] => []
  | s, d :: ds => (c.chunk s d).2 :: c.packAll (c.chunk s d).1 ds

/-- Outputs of one decompressor fed the chunks one call at a time. -/
def Codec.unpackAll (c : Codec) : c.DState → List Bytes → Option (List Bytes)
  | _, [] => some []
  | d, ch :: chs =>
    match c.decompress d ch with
    | none => none
    | some (d', out) => (c.unpackAll d' chs).map (out :: ·)

/-- The law of DESIGN §1.4: decompressing the sync-flushed chunks of one compressor with
one decompressor, chunk by chunk, yields the inputs chunk by chunk. -/
def Codec.Lawful (c : Codec) : Prop :=
  ∀ datas : List Bytes, c.unpackAll c.dinit (c.packAll c.cinit datas) = some datas

/-- The identity codec. -/
def idCodec : Codec where
  CState := Unit
  DState := Unit
  cinit := ()
  dinit := ()
  compress := fun _ d => ((), d)
  syncFlush := fun _ => ((), [])
  decompress := fun _ ch => some ((), ch)

/-- A stateful codec: chunk number `i` is tagged with `i % 256`, and the decompressor
checks the tag against its own count (so a fresh compressor per module is *not*
interchangeable with a shared one). -/
def countCodec : Codec where
  CState := Nat
  DState := Nat
  cinit := 0
  dinit := 0
  compress := fun n d => (n + 1, (n % 256) :: d)
  syncFlush := fun n => (n, [])
  decompress := fun n ch =>
    match ch with
    | [] => none
    | t :: d => if t = n % 256 then some (n + 1, d) else none

/-! ## `get_module_source` -/

/-- Universal-newline translation of a text-mode read (`\r\n` and a lone `\r` become
`\n`), written like CPython's incremental decoder with its `pendingcr` flag. -/
def translateNewlines : Bool → Bytes → Bytes
  | _, [] => []
  | prevCR, b :: rest =>
    if b = 13 then 10 :: translateNewlines true rest
    else if b = 10 ∧ prevCR = true then translateNewlines false rest
    else b :: translateNewlines false rest

/-- The client's file system as seen through `importlib.util.find_spec(name).origin`. -/
abbrev FS := Bytes → Option Bytes

structure Env where
  fs : FS
  /-- text mode only: decode with the locale's codec and re-encode as UTF-8 (`none` =
  `UnicodeDecodeError`); the identity on valid UTF-8 under a UTF-8 locale. -/
  recode : Bytes → Option Bytes

inductive SrcRes
  | ok (data : Bytes)
  | noSuchModule        -- `find_spec` returned `None` → `AttributeError`
  | decodeError         -- `UnicodeDecodeError` (text mode only)
deriving Repr, DecidableEq

/-- `get_module_source`.  `binary = true` is `open(spec.origin, 'rb')` + `f.read()`;
`binary = false` is `open(spec.origin, 'rt')` + `f.read().encode('utf-8')`. -/
def getModuleSource (binary : Bool) (env : Env) (name : Bytes) : SrcRes :=
  match env.fs name with
  | none => .noSuchModule
  | some file =>
    if binary then .ok file else
    match env.recode file with
    | none => .decodeError
    | some t => .ok (translateNewlines false t)

/-! ## decimal numbers (`%d`, `int()`) -/

/-- digits of `n`, most significant first; `fuel ≥ n` is more than enough (one unit per digit
is used), and with `fuel = 0` that means `n = 0` -/
def decimalAux : Nat → Nat → Bytes
  | 0, n => [48 + n % 10]
  | fuel + 1, n => if n < 10 then [48 + n] else decimalAux fuel (n / 10) ++ [48 + n % 10]

/-- `b'%d' % n` for `n ≥ 0`. -/
def decimal (n : Nat) : Bytes := decimalAux n n

/-- ASCII white space as `bytes.strip()` and `int(bytes)` see it. -/
def isWs (b : Nat) : Bool := b == 32 || (9 ≤ b && b ≤ 13)

def isDigit (b : Nat) : Bool := 48 ≤ b && b ≤ 57

def stripL (b : Bytes) : Bytes := b.dropWhile isWs
def stripR (b : Bytes) : Bytes := (b.reverse.dropWhile isWs).reverse
/-- `bytes.strip()`. -/
def strip (b : Bytes) : Bytes := stripR (stripL b)

/-- Digits with single underscores between them (`int()`'s grammar after the sign). -/
def digitsVal : Bytes → Nat → Bool → Option Nat
  | [], acc, prev => if prev then some acc else none
  | b :: r, acc, prev =>
    if isDigit b then digitsVal r (acc * 10 + (b - 48)) true
    else if b = 95 ∧ prev = true then digitsVal r acc false
    else none

/-- `int(line)` for a bytes line; `none` = `ValueError`. -/
def parseInt (line : Bytes) : Option Int :=
  match strip line with
  | 43 :: r => (digitsVal r 0 false).map Int.ofNat
  | 45 :: r => (digitsVal r 0 false).map (fun n => - Int.ofNat n)
  | r => (digitsVal r 0 false).map Int.ofNat

/-! ## `empackage` and `connect` -/

/-- `b'%s\n%d\n%s' % (name, len(content), content)`. -/
def frameOf (name chunk : Bytes) : Bytes :=
  name ++ [10] ++ decimal chunk.length ++ [10] ++ chunk

inductive PackErr
  | noSuchModule | decodeError
  | nameNotAscii        -- `name.encode("ASCII")` raises `UnicodeEncodeError`
deriving Repr, DecidableEq

/-- `if not data: data = get_module_source(name)` — an *empty* explicit `data` is also
replaced by the file read. -/
def srcFor (binary : Bool) (env : Env) (name : Bytes) (data : Option Bytes) : SrcRes :=
  match data with
  | some d => if d.isEmpty then getModuleSource binary env name else .ok d
  | none => getModuleSource binary env name

/-- `empackage(z, name, data=None)`: returns the new compressor state and the frame. -/
def empackage (c : Codec) (binary : Bool) (env : Env) (s : c.CState) (name : Bytes)
    (data : Option Bytes) : Except PackErr (c.CState × Bytes) :=
  match srcFor binary env name data with
  | .noSuchModule => .error .noSuchModule
  | .decodeError => .error .decodeError
  | .ok d =>
    if name.all (· < 128) then .ok ((c.chunk s d).1, frameOf name (c.chunk s d).2) else .error .nameNotAscii

/-- the `data` argument `ssh.connect` passes for a module name -/
def dataArg (explicit : List Bytes) (optdata : Bytes) (name : Bytes) : Option Bytes :=
  if explicit.contains name then some optdata else none

/-- The chain `empackage(z, n₁) + empackage(z, n₂, optdata) + …` with the **shared** `z`;
names listed in `explicit` get `optdata` as their `data` argument. -/
def packList (c : Codec) (binary : Bool) (env : Env) (explicit : List Bytes) (optdata : Bytes) :
    c.CState → List Bytes → Except PackErr Bytes
  | _, [] => .ok []
  | s, name :: rest =>
    match empackage c binary env s name (dataArg explicit optdata name) with
    | .error e => .error e
    | .ok (s', frame) =>
      match packList c binary env explicit optdata s' rest with
      | .error e => .error e
      | .ok more => .ok (frame ++ more)

structure Upload where
  content : Bytes       -- the assembler's source; the one-liner reads exactly this many bytes
  content2 : Bytes
deriving Repr, DecidableEq

/-- `ssh.connect` lines 94-104 for an arbitrary module list. -/
def connectWith (c : Codec) (binary : Bool) (env : Env) (asmName : Bytes) (names explicit : List Bytes)
    (terminator optdata : Bytes) : Except PackErr Upload :=
  match getModuleSource binary env asmName with
  | .noSuchModule => .error .noSuchModule
  | .decodeError => .error .decodeError
  | .ok content =>
    match packList c binary env explicit optdata c.cinit names with
    | .error e => .error e
    | .ok frames => .ok ⟨content, frames ++ terminator⟩

/-- `ssh.connect` with the module list, order, terminator and file-open mode of the
working tree (regenerated on every run). -/
def connect (c : Codec) (env : Env) (optdata : Bytes) : Except PackErr Upload :=
  connectWith c Gen.C18.SOURCE_BINARY env Gen.C18.ASSEMBLER_MODULE_BYTES Gen.C18.PACKAGED_BYTES
    Gen.C18.EXPLICIT_DATA_BYTES Gen.C18.TERMINATOR optdata

/-! ## the remote side: a buffered binary reader over a segmented stream -/

/-- `os.fdopen(0, 'rb')`: bytes already pulled from the descriptor and not yet consumed,
and the segments the following raw reads will return (then EOF). -/
structure BufReader where
  buf : Bytes
  raw : List Bytes
deriving Repr, DecidableEq

def BufReader.flat (r : BufReader) : Bytes := r.buf ++ r.raw.flatten

/-- pull raw segments until `n` bytes are buffered or the stream ends -/
def fillTo (n : Nat) : Bytes → List Bytes → Bytes × List Bytes
  | buf, [] => (buf, [])
  | buf, c :: cs => if buf.length ≥ n then (buf, c :: cs) else fillTo n (buf ++ c) cs

/-- `stdin.read(n)`, `n ≥ 0`: exactly `n` bytes unless the stream ends first. -/
def read (r : BufReader) (n : Nat) : Bytes × BufReader :=
  let f := fillTo n r.buf r.raw
  (f.1.take n, ⟨f.1.drop n, f.2⟩)

/-- `stdin.read(-1)`. -/
def readAll (r : BufReader) : Bytes × BufReader := (r.flat, ⟨[], []⟩)

/-- pull raw segments until a newline is buffered or the stream ends -/
def fillLine : Bytes → List Bytes → Bytes × List Bytes
  | buf, [] => (buf, [])
  | buf, c :: cs => if buf.contains 10 then (buf, c :: cs) else fillLine (buf ++ c) cs

/-- first line including its `\n`, and what follows; `none` when there is no `\n` -/
def splitLine : Bytes → Option (Bytes × Bytes)
  | [] => none
  | b :: r =>
    if b = 10 then some ([10], r) else
    match splitLine r with
    | none => none
    | some (l, rest) => some (b :: l, rest)

/-- `stdin.readline()`. -/
def readline (r : BufReader) : Bytes × BufReader :=
  let f := fillLine r.buf r.raw
  match splitLine f.1 with
  | some (l, rest) => (l, ⟨rest, f.2⟩)
  | none => (f.1, ⟨[], f.2⟩)

/-! ## `assembler.py` -/

inductive AsmEnd
  | done                -- empty name line (or EOF): `break`
  | nameNotAscii        -- `name.decode("ASCII")` raises
  | valueError          -- `int(stdin.readline())` raises, or `read(n)` with `n < -1`
  | zlibError           -- `z.decompress` raises
  | parentMissing       -- `sys.modules[parent]` raises `KeyError`
  | fuel                -- never returned with the fuel `bootstrap` supplies (Lemmas)
deriving Repr, DecidableEq

structure AsmState (c : Codec) where
  rd : BufReader
  z : c.DState
  /-- names in `sys.modules` -/
  sysmods : List Bytes
  /-- `(name, content)` handed to `compile(content, name, "exec")`, in order -/
  mods : List (Bytes × Bytes)

/-- `name.rsplit(".", 1)`: `some (parent, child)` when the name has a dot. -/
def rsplitDot (name : Bytes) : Option (Bytes × Bytes) :=
  let rev := name.reverse
  if rev.contains 46 then
    some ((rev.dropWhile (· ≠ 46)).drop 1 |>.reverse, (rev.takeWhile (· ≠ 46)).reverse)
  else none

/-- `if len(parents) == 2: setattr(sys.modules[parent], …)` does not raise `KeyError` -/
def parentOk (sysmods : List Bytes) (name : Bytes) : Bool :=
  match rsplitDot name with
  | some (parent, _) => sysmods.contains parent
  | none => true

/-- the `while 1:` loop (assembler.py:14-38) -/
def asmLoop (c : Codec) : Nat → AsmState c → AsmEnd × AsmState c
  | 0, st => (.fuel, st)
  | fuel + 1, st =>
    let l1 := readline st.rd
    let name := strip l1.1
    if name.isEmpty then (.done, { st with rd := l1.2 }) else
    if name.all (· < 128) = false then (.nameNotAscii, { st with rd := l1.2 }) else
    let l2 := readline l1.2
    match parseInt l2.1 with
    | none => (.valueError, { st with rd := l2.2 })
    | some n =>
      if n < -1 then (.valueError, { st with rd := l2.2 }) else
      let ch := if n = -1 then readAll l2.2 else read l2.2 n.toNat
      match c.decompress st.z ch.1 with
      | none => (.zlibError, { st with rd := ch.2 })
      | some (z', content) =>
        if parentOk st.sysmods name = false then (.parentMissing, { st with rd := ch.2, z := z' }) else
        asmLoop c fuel { rd := ch.2, z := z', sysmods := st.sysmods ++ [name],
                         mods := st.mods ++ [(name, content)] }

def total (raw : List Bytes) : Nat := raw.flatten.length

structure Remote (c : Codec) where
  /-- what the one-liner handed to `exec(compile(stdin.read(n), 'assembler.py', 'exec'))` -/
  assembler : Bytes
  fin : AsmEnd
  st : AsmState c

/-- The bootstrap one-liner followed by the assembler, on a stream that arrives cut into
the segments `raw`; `pre` are the modules the fresh interpreter already has. -/
def bootstrap (c : Codec) (nasm : Nat) (pre : List Bytes) (raw : List Bytes) : Remote c :=
  let a := read ⟨[], raw⟩ nasm
  let r := asmLoop c (total raw + 1) ⟨a.2, c.dinit, pre, []⟩
  ⟨a.1, r.1, r.2⟩

/-- The `import`s after the loop succeed from the uploaded code (not from whatever is
installed remotely) exactly when these names were assembled. -/
def importsResolved (mods : List (Bytes × Bytes)) (needed : List Bytes) : Bool :=
  needed.all fun n => (mods.map Prod.fst).contains n

/-! ## option values: `"%s=%r\n"` and the remote evaluation -/

/-- The four kinds of value the client passes; strings are lists of code points. -/
inductive Val
  | bool (b : Bool)
  | int (i : Int)
  | none
  | str (s : List Nat)
  | emptyList               -- `[]` (the one list value that is falsy)
deriving Repr, DecidableEq

def hexDigitLower (n : Nat) : Nat := if n < 10 then 48 + n else 87 + n

/-- `width` lower-case hex digits, most significant first -/
def hexN : Nat → Nat → List Nat
  | 0, _ => []
  | w + 1, n => hexN w (n / 16) ++ [hexDigitLower (n % 16)]

/-- `repr` of one character inside a string literal quoted with `q`.  `np` says which code
points ≥ 128 are *not* printable (`str.isprintable`, Unicode database: part of the environment). -/
def escChar (np : Nat → Bool) (q c : Nat) : List Nat :=
  if c = q ∨ c = 92 then [92, c]
  else if c = 9 then [92, 116]
  else if c = 10 then [92, 110]
  else if c = 13 then [92, 114]
  else if c < 32 ∨ c = 127 then [92, 120] ++ hexN 2 c
  else if c < 127 then [c]
  else if np c = true then
    (if c < 256 then [92, 120] ++ hexN 2 c
     else if c < 65536 then [92, 117] ++ hexN 4 c
     else [92, 85] ++ hexN 8 c)
  else [c]

/-- `repr(s)` for `str`: double quotes iff the string has `'` and no `"`. -/
def quoteFor (s : List Nat) : Nat := if s.contains 39 ∧ ¬ s.contains 34 then 34 else 39

def reprStr (np : Nat → Bool) (s : List Nat) : List Nat :=
  [quoteFor s] ++ s.flatMap (escChar np (quoteFor s)) ++ [quoteFor s]

/-- `"%r" % v` -/
def reprVal (np : Nat → Bool) : Val → List Nat
  | .bool true => [84, 114, 117, 101]          -- True
  | .bool false => [70, 97, 108, 115, 101]     -- False
  | .none => [78, 111, 110, 101]               -- None
  | .int i => if i < 0 then 45 :: decimal i.natAbs else decimal i.natAbs
  | .str s => reprStr np s
  | .emptyList => [91, 93]                     -- []

/-- `''.join("%s=%r\n" % (k, v) for (k, v) in options.items())`, as code points. -/
def renderOptions (np : Nat → Bool) : List (List Nat × Val) → List Nat
  | [] => []
  | (k, v) :: rest => k ++ [61] ++ reprVal np v ++ [10] ++ renderOptions np rest

def hexVal? (c : Nat) : Option Nat :=
  if 48 ≤ c ∧ c ≤ 57 then some (c - 48)
  else if 97 ≤ c ∧ c ≤ 102 then some (c - 87)
  else if 65 ≤ c ∧ c ≤ 70 then some (c - 55)
  else none

/-- exactly `w` hex digits -/
def takeHex : Nat → List Nat → Nat → Option (Nat × List Nat)
  | 0, s, acc => some (acc, s)
  | _ + 1, [], _ => none
  | w + 1, c :: r, acc =>
    match hexVal? c with
    | none => none
    | some d => takeHex w r (acc * 16 + d)

/-- Body of a single-line string literal up to the closing quote `q`, for the escapes
`repr` produces (`none`: outside this fragment, or a syntax error). -/
def parseStrBody (q : Nat) : Nat → List Nat → List Nat → Option (List Nat × List Nat)
  | 0, _, _ => none
  | _ + 1, [], _ => none
  | fuel + 1, c :: r, acc =>
    if c = q then some (acc, r)
    else if c = 10 ∨ c = 13 then none
    else if c = 92 then
      match r with
      | [] => none
      | e :: r' =>
        if e = 92 ∨ e = 39 ∨ e = 34 then parseStrBody q fuel r' (acc ++ [e])
        else if e = 110 then parseStrBody q fuel r' (acc ++ [10])
        else if e = 114 then parseStrBody q fuel r' (acc ++ [13])
        else if e = 116 then parseStrBody q fuel r' (acc ++ [9])
        else if e = 120 then
          match takeHex 2 r' 0 with
          | none => none
          | some (v, r'') => parseStrBody q fuel r'' (acc ++ [v])
        else if e = 117 then
          match takeHex 4 r' 0 with
          | none => none
          | some (v, r'') => parseStrBody q fuel r'' (acc ++ [v])
        else if e = 85 then
          match takeHex 8 r' 0 with
          | none => none
          | some (v, r'') => parseStrBody q fuel r'' (acc ++ [v])
        else none
    else parseStrBody q fuel r (acc ++ [c])

/-- longest run of decimal digits -/
def spanDigits : List Nat → List Nat × List Nat
  | [] => ([], [])
  | c :: r => if isDigit c then ((c :: (spanDigits r).1), (spanDigits r).2) else ([], c :: r)

/-- One literal of the fragment (`True`, `False`, `None`, `[]`, `[-]digits`, `'…'`, `"…"`),
and the text after it. -/
def parseLit (s : List Nat) : Option (Val × List Nat) :=
  match s with
  | [] => none
  | c :: r =>
    if c = 84 then (if r.take 3 = [114, 117, 101] then some (.bool true, r.drop 3) else none)
    else if c = 70 then (if r.take 4 = [97, 108, 115, 101] then some (.bool false, r.drop 4) else none)
    else if c = 78 then (if r.take 3 = [111, 110, 101] then some (.none, r.drop 3) else none)
    else if c = 91 then (if r.take 1 = [93] then some (.emptyList, r.drop 1) else none)
    else if c = 39 ∨ c = 34 then (parseStrBody c (r.length + 1) r []).map fun p => (.str p.1, p.2)
    else if c = 45 then
      (digitsVal (spanDigits r).1 0 false).map fun n => (.int (- Int.ofNat n), (spanDigits r).2)
    else
      (digitsVal (spanDigits (c :: r)).1 0 false).map fun n => (.int (Int.ofNat n), (spanDigits (c :: r)).2)

/-- text up to the first `=`, and what follows it -/
def splitEq : List Nat → Option (List Nat × List Nat)
  | [] => none
  | c :: r =>
    if c = 61 then some ([], r) else
    if c = 10 then none else
    match splitEq r with
    | none => none
    | some (k, rest) => some (c :: k, rest)

/-- Executing the `cmdline_options` module body: a sequence of `key=literal` lines; the
result is the module's namespace (later assignments win; the client's keys are distinct). -/
def evalOptions : Nat → List Nat → Option (List (List Nat × Val))
  | 0, _ => none
  | fuel + 1, s =>
    if s.isEmpty then some [] else
    match splitEq s with
    | none => none
    | some (k, r) =>
      match parseLit r with
      | some (v, 10 :: r') => (evalOptions fuel r').map ((k, v) :: ·)
      | _ => none

/-! ### UTF-8 (`optdata.encode("UTF8")`, and the remote `compile` of a bytes source) -/

def utf8Char (c : Nat) : Option Bytes :=
  if c < 128 then some [c]
  else if c < 2048 then some [192 + c / 64, 128 + c % 64]
  else if 55296 ≤ c ∧ c < 57344 then none            -- lone surrogate: `UnicodeEncodeError`
  else if c < 65536 then some [224 + c / 4096, 128 + c / 64 % 64, 128 + c % 64]
  else if c < 1114112 then some [240 + c / 262144, 128 + c / 4096 % 64, 128 + c / 64 % 64, 128 + c % 64]
  else none

def encodeUtf8 : List Nat → Option Bytes
  | [] => some []
  | c :: r =>
    match utf8Char c, encodeUtf8 r with
    | some a, some b => some (a ++ b)
    | _, _ => none

def isCont (b : Nat) : Bool := 128 ≤ b && b < 192

/-- strict UTF-8 decoder (shortest form, no surrogates, ≤ U+10FFFF); `none` = `SyntaxError` -/
def decodeUtf8 : Nat → Bytes → Option (List Nat)
  | 0, _ => none
  | _ + 1, [] => some []
  | fuel + 1, b :: r =>
    if b < 128 then (decodeUtf8 fuel r).map (b :: ·)
    else if 194 ≤ b ∧ b < 224 then
      match r with
      | b1 :: r' => if isCont b1 then (decodeUtf8 fuel r').map (((b - 192) * 64 + (b1 - 128)) :: ·) else none
      | _ => none
    else if 224 ≤ b ∧ b < 240 then
      match r with
      | b1 :: b2 :: r' =>
        let c := (b - 224) * 4096 + (b1 - 128) * 64 + (b2 - 128)
        if isCont b1 ∧ isCont b2 ∧ 2048 ≤ c ∧ ¬ (55296 ≤ c ∧ c < 57344) then
          (decodeUtf8 fuel r').map (c :: ·) else none
      | _ => none
    else if 240 ≤ b ∧ b < 245 then
      match r with
      | b1 :: b2 :: b3 :: r' =>
        let c := (b - 240) * 262144 + (b1 - 128) * 4096 + (b2 - 128) * 64 + (b3 - 128)
        if isCont b1 ∧ isCont b2 ∧ isCont b3 ∧ 65536 ≤ c ∧ c < 1114112 then
          (decodeUtf8 fuel r').map (c :: ·) else none
      | _ => none
    else none

/-- `optdata` as `ssh.connect` builds it (`none` = `UnicodeEncodeError`). -/
def optdataOf (np : Nat → Bool) (opts : List (List Nat × Val)) : Option Bytes :=
  encodeUtf8 (renderOptions np opts)

/-- What the remote interpreter finds in `sshuttle.cmdline_options` after executing
the uploaded module body. -/
def remoteOptions (src : Bytes) : Option (List (List Nat × Val)) :=
  match decodeUtf8 (src.length + 1) src with
  | none => none
  | some text => evalOptions (text.length + 1) text

/-! ## entering `server.main` -/

/-- `main(options.a₁, options.a₂, …)` at the end of `assembler.py`, bound against the
parameter list of `server.main`: parameter `pᵢ` receives the attribute `bindingᵢ` of the
assembled options module (`none` = no such attribute / parameter left unbound). -/
def enterMain (params binding : List String) (ns : String → Option Val) : List (String × Option Val) :=
  params.zip (binding.map ns)

/-- `options.<name>`: attribute lookup in the namespace the options module body produced -/
def lookupOpt (ns : List (List Nat × Val)) (name : String) : Option Val :=
  (ns.find? (fun kv => kv.1 == bytesOfStr name)).map (·.2)

/-! ## order of writes in `client._main` -/

inductive Ev
  | write (data : Bytes)     -- `wfile.write(data)` reached the tunnel
  | syncOk                   -- the init string was read and matched
  | fatal (got : Bytes)      -- `Fatal('expected server init string …')`
deriving Repr, DecidableEq

/-- `Mux.__init__`: `self.send(0, CMD_PING, b'chicken')` — queued, not written. -/
def muxInit : Mux.Tx :=
  match Mux.send {} (some 0) Generated.CMD_PING (bytesOfStr Generated.PING_INIT_PAYLOAD) with
  | .ok tx => tx
  | _ => {}

/-- `client._main` from `ssh.connect` to the end of the first `runonce`:
connect writes `content` then `content2`; `Mux(rfile, wfile)` only queues; the init string
is read; only then does the main loop's first `flush` write (`grant` = what the write accepted). -/
def clientStart (up : Upload) (serverOut : Handshake.Reader) (grant : Option Nat) : List Ev :=
  let tx := muxInit
  match Handshake.handshake serverOut with
  | .fatal got => [.write up.content, .write up.content2, .fatal got]
  | .ok _ =>
    let w := match grant, tx.outbuf with
      | some n, b :: _ => some (min n b.length)
      | g, _ => g
    let r := Mux.flush tx w
    [.write up.content, .write up.content2, .syncOk] ++ (if r.2.isEmpty then [] else [.write r.2])

/-- the bytes written before the init string was accepted (all of them if it never was) -/
def writtenBeforeSync : List Ev → Bytes
  | [] => []
  | .write d :: r => d ++ writtenBeforeSync r
  | .syncOk :: _ => []
  | .fatal _ :: r => writtenBeforeSync r

end Sshuttle.Bootstrap
