/-
Code model of `sshuttle/client.py` `_main` (:591-812) and of the `try/finally` tail of
`client.main` (:1165-1180), together with the pieces they run: `onroutes`, `serverready`,
`onhostlist`, `check_ssh_alive`, `FirewallClient.start/check/sethostip/done`,
`ssnet.runonce`, `Mux.callback/handle/fill/flush/got_packet/check_fullness`,
`client.onaccept_tcp` (as far as it touches the tunnel).

The program is written in an exception monad `M` over a `World` that carries the trace of
*boundary events* (one per call that leaves the process: `ssh.connect`, reads and writes of the
ssh pipe, `poll`, `os.kill`, `select`, the helper pipe, `sdnotify.send`, `daemonize`, …).
Every such call goes through `act`, which records the event and then lets the *fault map*
(`Script.faults : call index → optional exception`) decide whether the call raises.  The fault
map is arbitrary, so any exception kind can surface at any boundary call, any number of times
(also inside the `finally` part).  What the outside world answers (bytes arriving, liveness of
ssh, write grants, the helper's reply) is the rest of the `Script`.

Core Lean only.
-/
import SshuttleModel.Code.Mux
import SshuttleModel.Code.Handshake
import SshuttleModel.Gen.C12

namespace Sshuttle.ClientMain
open Sshuttle

/-- Exception kinds as `client.main`'s caller can tell them apart. -/
inductive Exc
  | fatal                -- `helpers.Fatal`
  | oserr (errno : Nat)  -- `OSError` / `socket.error`
  | kbint                -- `KeyboardInterrupt`
  | sysexit              -- `SystemExit` (`got_signal` → `sys.exit(1)`)
  | assertion            -- `AssertionError`
  | other                -- any other `Exception` (`ValueError`, `TypeError`, `struct.error`, plain `Exception`)
deriving DecidableEq, Repr, Inhabited

/-- Lines written to the helper (`FirewallClient.start`, `sethostip`). -/
inductive FwLine
  | routes | route | nslist | ns | ports | go | host
deriving DecidableEq, Repr

/-- Boundary events.  `run`, `routes`, `started`, `rc0`, `hsOk`, `sshDead` are markers (they are not calls
and cannot raise); all others are calls. -/
inductive Ev
  | connect              -- `ssh.connect(...)`
  | hsRead               -- `rfile.read(..)` before the init string is checked
  | poll                 -- `serverproc.poll()`
  | outFlush             -- `sys.stdout.flush()`
  | daemonize
  | addHandler (k : Nat) -- `tcp/udp/dns_listener.add_handler`
  | kill                 -- `os.kill(serverproc.pid, 0)`
  | run (i : Nat)        -- marker: `ssnet.runonce` entered for the i-th time
  | sel                  -- `select.select(r, w, x)` in `runonce`
  | selMux               -- `select.select([rfile], [wfile], [], 0)` in `Mux.callback`
  | muxRead              -- `rfile.read(..)` in `Mux.fill`
  | muxWrite             -- `wfile.write(..)` in `Mux.flush`
  | accept               -- `listener.accept()`
  | routes               -- marker: a `CMD_ROUTES` frame reached `Mux.got_packet`
  | fw (l : FwLine)      -- `pfile.write(..)`
  | fwFlush              -- `pfile.flush()`
  | fwReadline           -- `pfile.readline()`
  | fwPoll               -- `fw.p.poll()` (in `check`)
  | started              -- marker: `fw.start()` returned
  | ready                -- `sdnotify.send(READY=1, STATUS=Connected)`
  | rc0                  -- marker: `fw.p.returncode = 0`
  | close                -- `pfile.close()`
  | wait                 -- `fw.p.wait()`
  | stop                 -- `sdnotify.send(STOPPING=1)`
  | cleanup              -- `daemon_cleanup()`
  | hsOk (init : Bytes)  -- marker (model only): both start-up checks passed; `init` is `initstring`
  | sshDead              -- marker (model only): the liveness probe of the loop saw ssh gone
deriving DecidableEq, Repr

inductive Arrive
  | nothing
  | data (b : Bytes)
  | eof
deriving Repr

/-- What the world does during one iteration of the main loop. -/
structure Step where
  alive  : Option Nat := none   -- `none`: ssh runs; `some rv`: `poll()` gives `rv` / `os.kill` raises ESRCH
  arrive : Arrive := .nothing   -- bytes (or EOF) that arrive on the ssh pipe before the `select`
  grant  : Option Nat := none   -- `none`: ssh's stdin is not writable; `some n`: a write moves ≤ n bytes
  accept : Bool := false        -- a connection is waiting on the TCP listener
deriving Repr

structure Cfg where
  daemon : Bool := false
  udp    : Bool := false         -- the method supports UDP → `udp_listener` exists
  lat    : Bool := true          -- `latency_control`
  auto   : Bool := false         -- `auto_nets`
  seed   : Option Nat := none    -- `len('\n'.join(seed_hosts))`, `none` when `seed_hosts is None`
  nInc   : Nat := 0              -- `len(fw.subnets_include)`
  nExc   : Nat := 0              -- `len(fw.subnets_exclude)`
  nNs    : Nat := 0              -- `len(fw.nslist)`; `dns_listener` exists iff > 0
  hs     : List Bytes := []      -- bytes in flight on ssh's stdout when `_main` starts, as segments
  poll0  : Option Nat := none    -- first `serverproc.poll()`
  line   : Bytes := []           -- what `pfile.readline()` returns in `start`
  hpoll  : Option Nat := none    -- what `fw.p.poll()` returns in `check`
  waitRv : Nat := 0              -- what `fw.p.wait()` returns (foreground)
  endExc : Exc := .kbint         -- how the session ends when the scripted steps are used up
deriving Repr

structure Script where
  cfg    : Cfg
  steps  : List Step
  faults : Nat → Option Exc

structure World where
  trace  : List Ev := []
  calls  : Nat := 0
  reader : Handshake.Reader := []   -- unread segments on ssh's stdout
  eof    : Bool := false
  grant  : Option Nat := none
  acceptable : Bool := false
  tx : Mux.Tx := {}
  rx : Mux.Rx := {}
  muxOk : Bool := true
  muxInHandlers : Bool := true      -- `mux in handlers`
  routesCb : Bool := false          -- `mux.got_routes is onroutes`
  channels : List Nat := []         -- keys of `mux.channels`
  chani : Nat := 0
  tooFull : Bool := false
  autoNets : Nat := 0               -- `len(fw.auto_nets)`
  unmodelled : Bool := false        -- a frame the flow layer (outside this model) would have to interpret
  hsBytes : Bytes := []             -- ghost: every byte handed out by the start-up reads, in order

/-- The exception monad: the world survives an exception. -/
abbrev M (α : Type) := World → Except Exc α × World

@[inline] def M.pure (a : α) : M α := fun w => (.ok a, w)
@[inline] def M.bind (m : M α) (f : α → M β) : M β := fun w =>
  match m w with
  | (.ok a, w') => f a w'
  | (.error x, w') => (.error x, w')

instance : Monad M where
  pure := M.pure
  bind := M.bind

def raise (x : Exc) : M α := fun w => (.error x, w)
def getW : M World := fun w => (.ok w, w)
def modifyW (f : World → World) : M Unit := fun w => (.ok (), f w)

def push (e : Ev) (w : World) : World := { w with trace := w.trace ++ [e] }

/-- A boundary call: recorded, then the fault map may make it raise. -/
def act (sc : Script) (e : Ev) : M Unit := fun w =>
  let w' := { push e w with calls := w.calls + 1 }
  match sc.faults w.calls with
  | some x => (.error x, w')
  | none => (.ok (), w')

def mark (e : Ev) : M Unit := fun w => (.ok (), push e w)

/-- `try: m except E as e: raise f(e)` — the only use `_main` makes of `except`. -/
def mapExc (f : Exc → Exc) (m : M α) : M α := fun w =>
  match m w with
  | (.error x, w') => (.error (f x), w')
  | r => r

/-- `try: m finally: fin` — `fin` runs in every case; if it raises, its exception wins. -/
def tryFinally (m : M α) (fin : M Unit) : M α := fun w =>
  match m w with
  | (r, w1) =>
    match fin w1 with
    | (.error x, w2) => (.error x, w2)
    | (.ok _, w2) => (r, w2)

/-- `ssnet._nb_clean`: `EAGAIN`/`EWOULDBLOCK` becomes `None`. -/
def nbClean (m : M α) : M (Option α) := fun w =>
  match m w with
  | (.ok a, w') => (.ok (some a), w')
  | (.error (.oserr n), w') => if n = Generated.EAGAIN then (.ok none, w') else (.error (.oserr n), w')
  | (.error x, w') => (.error x, w')

def repeatAct (sc : Script) : Nat → Ev → M Unit
  | 0, _ => pure ()
  | n + 1, e => do act sc e; repeatAct sc n e

/-! ### start-up: connect and the init string -/

example : Gen.C12.MAIN_EXCEPTS =
  ["except socket.error: if e.args[0] == errno.EPIPE:\n    debug3('Error: EPIPE: ' + repr(e))\n    raise Fatal('failed to establish ssh session (1)')\nelse:\n    raise",
   "except socket.error: if e.args[0] == errno.ECONNRESET:\n    debug3('Error: ECONNRESET ' + repr(e))\n    raise Fatal('failed to establish ssh session (2)')\nelse:\n    raise"] := rfl

def connectExc : Exc → Exc
  | .oserr n => if n = Generated.EPIPE then .fatal else .oserr n
  | x => x

def hsExc : Exc → Exc
  | .oserr n => if n = Gen.C12.ECONNRESET then .fatal else .oserr n
  | x => x

/-- `rfile.read(n)` on the unbuffered ssh pipe during start-up (an empty pipe reads as EOF). -/
def hsRead (sc : Script) (n : Nat) : M Bytes := do
  act sc .hsRead
  let w ← getW
  let r := Handshake.read w.reader n
  modifyW fun w => { w with reader := r.2, hsBytes := w.hsBytes ++ r.1 }
  pure r.1

/-- `v = 'x'; while v and v != b'\0': v = rfile.read(1)` -/
def skipToNul (sc : Script) : Nat → M Unit
  | 0 => pure ()
  | fuel + 1 => do
    let v ← hsRead sc 1
    match v with
    | [] => pure ()
    | b :: _ => if b = 0 then pure () else skipToNul sc fuel

/-- `while len(initstring) < len(expected): v = rfile.read(..); if not v: break; initstring += v` -/
def readExactly (sc : Script) : Nat → Nat → Bytes → M Bytes
  | 0, _, acc => pure acc
  | fuel + 1, n, acc =>
    if acc.length ≥ n then pure acc else do
      let v ← hsRead sc (n - acc.length)
      if v.isEmpty then pure acc else readExactly sc fuel n (acc ++ v)

def readInit (sc : Script) (fuel : Nat) : M Bytes := do
  skipToNul sc fuel
  skipToNul sc fuel
  readExactly sc (Handshake.expected.length + 1) Handshake.expected.length []

/-! ### the helper: `FirewallClient.start / check / sethostip / done` -/

example : Gen.C12.FW_START_WRITES =
  ["ROUTES\n", "NSLIST\n", "PORTS %d,%d,%d,%d\n", "GO %d %s %s %s %d\n", "%d,%d,0,%s,%d,%d\n",
   "%d,%d,1,%s,%d,%d\n", "%d,%s\n"] := rfl
example : Gen.C12.FW_START_TAIL =
  "self.pfile.flush()\nline = self.pfile.readline()\nself.check()\nif line != b'STARTED\\n':\n    raise Fatal('%r expected STARTED, got %r' % (self.argv, line))" := rfl
example : Gen.C12.FW_CHECK =
  "rv = self.p.poll()\nif rv:\n    raise Fatal('%r returned %d' % (self.argv, rv))" := rfl
example : Gen.C12.FW_DONE =
  "self.pfile.close()\nrv = self.p.wait()\nif rv:\n    raise Fatal('cleanup: %r returned %d' % (self.argv, rv))" := rfl

def startedLine : Bytes := bytesOfStr "STARTED\n"

/-- Python truthiness of a return code. -/
def truthy : Option Nat → Bool
  | some n => n != 0
  | none => false

def fwCheck (sc : Script) : M Unit := do
  act sc .fwPoll
  if truthy sc.cfg.hpoll then raise .fatal

def fwStart (sc : Script) : M Unit := do
  act sc (.fw .routes)
  let w ← getW
  repeatAct sc (sc.cfg.nInc + w.autoNets) (.fw .route)
  repeatAct sc sc.cfg.nExc (.fw .route)
  act sc (.fw .nslist)
  repeatAct sc sc.cfg.nNs (.fw .ns)
  act sc (.fw .ports)
  act sc (.fw .go)
  act sc .fwFlush
  act sc .fwReadline
  fwCheck sc
  (if sc.cfg.line ≠ startedLine then raise .fatal else pure ())
  mark .started

def isWordByte (c : Nat) : Bool :=
  (48 ≤ c && c ≤ 57) || (65 ≤ c && c ≤ 90) || (97 ≤ c && c ≤ 122) || c == 95

/-- `re.search(br'[^-\w\.]', hostname)` finds nothing. -/
def hostnameOk (b : Bytes) : Bool := b.all fun c => isWordByte c || c == 45 || c == 46
/-- `re.search(br'[^0-9.]', ip)` finds nothing. -/
def ipOk (b : Bytes) : Bool := b.all fun c => (48 ≤ c && c ≤ 57) || c == 46

def fwSethostip (sc : Script) (name ip : Bytes) : M Unit := do
  (if !hostnameOk name then raise .assertion else pure ())
  (if !ipOk ip then raise .assertion else pure ())
  act sc (.fw .host)
  act sc .fwFlush

def fwDone (sc : Script) : M Unit := do
  act sc .close
  act sc .wait
  -- in daemon mode `returncode` was forced to 0, which is what `Popen.wait()` then returns
  if !sc.cfg.daemon && sc.cfg.waitRv != 0 then raise .fatal

/-! ### small pieces of `bytes` behaviour used by `onroutes` / `onhostlist` -/

def isSpaceByte (c : Nat) : Bool := c == 32 || (9 ≤ c && c ≤ 13)

def stripLeft : Bytes → Bytes
  | [] => []
  | c :: r => if isSpaceByte c then stripLeft r else c :: r

def strip (b : Bytes) : Bytes := (stripLeft (stripLeft b).reverse).reverse

/-- `b.split(sep)` on a single byte. -/
def splitOn (sep : Nat) : Bytes → List Bytes
  | [] => [[]]
  | c :: r =>
    match splitOn sep r with
    | [] => [[]]           -- unreachable
    | h :: t => if c = sep then [] :: h :: t else (c :: h) :: t

/-- `b.split()`: runs of white space separate, no empty items. -/
def splitWs (b : Bytes) : List Bytes :=
  let rec go : Bytes → Bytes → List Bytes
    | [], cur => if cur.isEmpty then [] else [cur.reverse]
    | c :: r, cur =>
      if isSpaceByte c then (if cur.isEmpty then go r [] else cur.reverse :: go r [])
      else go r (c :: cur)
  go b []

/-- `b.split(b',', 1)` as a pair, `none` when there is no comma (unpacking raises `ValueError`). -/
def splitComma1 : Bytes → Option (Bytes × Bytes)
  | [] => none
  | c :: r =>
    if c = 44 then some ([], r) else
    match splitComma1 r with
    | some (a, b) => some (c :: a, b)
    | none => none

def isDigit (c : Nat) : Bool := 48 ≤ c && c ≤ 57

/-- Digits with single underscores between them (what `int()` accepts after sign and white space). -/
def digitsOk : Bytes → Bool
  | [] => false
  | [c] => isDigit c
  | c :: d :: r =>
    if isDigit c then
      (if d == 95 then (match r with | [] => false | e :: _ => isDigit e && digitsOk r) else digitsOk (d :: r))
    else false

/-- `int(b)` on `bytes` does not raise `ValueError`. -/
def pyIntOk (b : Bytes) : Bool :=
  match strip b with
  | [] => false
  | c :: r => if c == 43 || c == 45 then digitsOk r else digitsOk (c :: r)

/-- One line of the ROUTES payload as `onroutes` reads it: `line.split(b',', 2)` must give three
parts, the first and third must convert with `int`, the second must be ASCII. -/
def routeLineOk (line : Bytes) : Bool :=
  match splitComma1 line with
  | none => false
  | some (fam, rest) =>
    match splitComma1 rest with
    | none => false
    | some (ip, width) => pyIntOk fam && pyIntOk width && ip.all (· < 128)

/-- Number of entries `onroutes` appends to `fw.auto_nets`, or `none` if it raises. -/
def parseRoutes (data : Bytes) : Option Nat :=
  let lines := (splitOn 10 (strip data)).filter (!·.isEmpty)
  if lines.all routeLineOk then some lines.length else none

/-! ### the tunnel end: `Mux` -/

def muxSend (chan : Option Nat) (cmd : Nat) (data : Bytes) : M Unit := fun w =>
  match Mux.send w.tx chan cmd data with
  | .ok tx => (.ok (), { w with tx := tx })
  | .assertLen => (.error .assertion, w)
  | .structError => (.error .other, w)

def initTx : Mux.Tx :=
  match Mux.send {} (some 0) Generated.CMD_PING (bytesOfStr Generated.PING_INIT_PAYLOAD) with
  | .ok tx => tx
  | _ => {}

example : Gen.C12.SERVERREADY =
  "fw.start()\nsdnotify.send(sdnotify.ready(), sdnotify.status('Connected'))" := rfl
example : Gen.C12.SDNOTIFY_READY = "READY=1" := rfl
example : Gen.C12.SDNOTIFY_STOP = "STOPPING=1" := rfl

def serverready (sc : Script) : M Unit := do
  fwStart sc
  act sc .ready

example : Gen.C12.ONROUTES_TAIL = "mux.got_routes = None\nserverready()" := rfl

def onroutes (sc : Script) (data : Bytes) : M Unit := do
  (if sc.cfg.auto then
    (match parseRoutes data with
     | none => raise .other
     | some n => modifyW fun w => { w with autoNets := w.autoNets + n })
   else pure ())
  modifyW fun w => { w with routesCb := false }
  serverready sc


/-- `re.match(HOSTNAME_RE, name)` with `HOSTNAME_RE = br'[-A-Za-z0-9_.]{1,253}\Z'`. -/
def hostNameEntryOk (b : Bytes) : Bool := 1 ≤ b.length && b.length ≤ 253 && hostnameOk b

/-- `re.match(HOSTIP_RE, ip)` with `HOSTIP_RE = br'[0-9]{1,3}\.[0-9]{1,3}\.[0-9]{1,3}\.[0-9]{1,3}\Z'`. -/
def hostIpEntryOk (b : Bytes) : Bool :=
  match splitOn 46 b with
  | [a, b, c, d] => [a, b, c, d].all fun p => 1 ≤ p.length && p.length ≤ 3 && p.all isDigit
  | _ => false

/-- `for line in hostlist.strip().split(): name, sep, ip = line.partition(b','); if not (sep and
re.match(HOSTNAME_RE, name) and re.match(HOSTIP_RE, ip)): continue; fw.sethostip(name, ip)` —
an entry the hosts file cannot represent is skipped, it does not end the session. -/
def onhostlistLoop (sc : Script) : List Bytes → M Unit
  | [] => pure ()
  | line :: rest => do
    (match splitComma1 line with
     | none => pure ()
     | some (name, ip) =>
       if hostNameEntryOk name && hostIpEntryOk ip then fwSethostip sc name ip else pure ())
    onhostlistLoop sc rest

def onhostlist (sc : Script) (data : Bytes) : M Unit := onhostlistLoop sc (splitWs data)

example : Gen.C12.GOT_PACKET_ROUTES =
  "if cmd == CMD_ROUTES:\nif self.got_routes:\n    self.got_routes(data)\nelse:\n    raise Exception('got CMD_ROUTES without got_routes?')\nelse: If" := rfl

/-- `Mux.got_packet` as the client has configured it (`new_channel`, `got_dns_req`,
`got_udp_open`, `got_host_req` are `None`; `got_host_list` is `onhostlist`). -/
def gotPacket (sc : Script) (f : Mux.Frame) : M Unit := do
  let w ← getW
  if f.cmd = Generated.CMD_PING then muxSend (some 0) Generated.CMD_PONG f.data
  else if f.cmd = Generated.CMD_PONG then
    modifyW fun w => { w with tooFull := false, tx := { w.tx with fullness := 0 } }
  else if f.cmd = Generated.CMD_EXIT then modifyW fun w => { w with muxOk := false }
  else if f.cmd = Generated.CMD_TCP_CONNECT ∨ f.cmd = Generated.CMD_DNS_REQ ∨ f.cmd = Generated.CMD_UDP_OPEN then
    (if f.chan ∈ w.channels then raise .assertion else pure ())
  else if f.cmd = Generated.CMD_ROUTES then do
    mark .routes
    if w.routesCb then onroutes sc f.data else raise .other
  else if f.cmd = Generated.CMD_HOST_REQ then raise .other
  else if f.cmd = Generated.CMD_HOST_LIST then onhostlist sc f.data
  else if f.chan ∈ w.channels then
    -- `MuxWrapper.got_packet`
    (if f.cmd = Generated.CMD_TCP_DATA then pure ()
     else if f.cmd = Generated.CMD_TCP_EOF ∨ f.cmd = Generated.CMD_TCP_STOP_SENDING then
       modifyW fun w => { w with unmodelled := true }
     else raise .other)
  else pure ()   -- "warning: closed channel …"

def dispatch (sc : Script) : List Mux.Frame → M Unit
  | [] => pure ()
  | f :: rest => do gotPacket sc f; dispatch sc rest

def readable (w : World) : Bool := !(Handshake.norm w.reader).isEmpty || w.eof


def fillExc : Exc → Exc
  | .oserr _ => .fatal
  | x => x

/-- `Mux.handle`: `fill` (one read of the ssh pipe), then every complete frame is dispatched. -/
def muxHandle (sc : Script) : M Unit := do
  let r ← mapExc fillExc (nbClean (act sc .muxRead))
  match r with
  | none => raise .other                 -- `len(None)` → `TypeError`
  | some _ =>
    let w ← getW
    let rd := Handshake.read w.reader (min Generated.MUX_READ_MAX Generated.LATENCY_BUFFER_SIZE)
    modifyW fun w => { w with reader := rd.2 }
    let rr : Mux.ReadRes := if rd.1.isEmpty then .eof else .data rd.1
    match Mux.handle w.rx rr with
    | .ok fs rx alive =>
      modifyW fun w => { w with rx := rx, muxOk := w.muxOk && alive }
      dispatch sc fs
    | .badMagic fs rx =>
      modifyW fun w => { w with rx := rx }
      dispatch sc fs
      raise .assertion
    | .structError fs rx =>
      modifyW fun w => { w with rx := rx }
      dispatch sc fs
      raise .other
    | .typeError => raise .other

/-- `Mux.flush`. -/
def muxFlush (sc : Script) : M Unit := do
  let w ← getW
  match w.tx.outbuf with
  | [] => pure ()
  | b :: _ =>
    if b.isEmpty then modifyW fun w => { w with tx := (Mux.flush w.tx none).1 }
    else do
      let wrote ← nbClean (act sc .muxWrite)
      modifyW fun w =>
        { w with tx := (Mux.flush w.tx (match wrote, w.grant with
                                        | some _, some g => some (min g b.length)
                                        | _, _ => none)).1 }


def muxCallback (sc : Script) : M Unit := do
  act sc .selMux
  let w ← getW
  (if readable w then muxHandle sc else pure ())
  let w' ← getW
  if !w'.tx.outbuf.isEmpty && w.grant.isSome then muxFlush sc


def checkFullness : M Unit := do
  let w ← getW
  if w.tx.fullness > Generated.LATENCY_BUFFER_SIZE then do
    (if !w.tooFull then muxSend (some 0) Generated.CMD_PING (bytesOfStr Generated.PING_RTT_PAYLOAD) else pure ())
    modifyW fun w => { w with tooFull := true }

/-- `Mux.next_channel` (1024 probes). -/
def nextChannel : Nat → Nat → List Nat → Option Nat × Nat
  | 0, chani, _ => (none, chani)
  | fuel + 1, chani, chans =>
    let c := if chani + 1 > Generated.MAX_CHANNEL then 1 else chani + 1
    if c ∈ chans then nextChannel fuel c chans else (some c, c)

/-- `client.onaccept_tcp` for a connection whose destination is not the listener itself. -/
def onacceptTcp (sc : Script) : M Unit := do
  act sc .accept
  let w ← getW
  let r := nextChannel Generated.ALLOC_PROBES w.chani w.channels
  modifyW fun w => { w with chani := r.2 }
  match r.1 with
  | none => pure ()         -- "too many open channels. Discarded connection."
  | some chan =>
    muxSend (some chan) Generated.CMD_TCP_CONNECT (bytesOfStr "2,10.9.8.7,80")
    modifyW fun w => { w with channels := chan :: w.channels }


/-- `ssnet.runonce(handlers, mux)`; `handlers = [mux, tcp listener, …]`. -/
def runonceBody (sc : Script) : M Unit := do
  modifyW fun w => if w.muxOk then w else { w with muxInHandlers := false }
  act sc .sel
  let w ← getW
  -- what `select` reports of what `pre_select` asked for
  let rReady := w.muxInHandlers && readable w
  let wReady := w.muxInHandlers && !w.tx.outbuf.isEmpty && w.grant.isSome
  (if rReady then muxCallback sc else pure ())
  (if wReady then muxCallback sc else pure ())
  if w.acceptable then onacceptTcp sc

/-- The i-th pass: the marker, then `runonce`. -/
def runonce (sc : Script) (i : Nat) : M Unit := do
  mark (.run i)
  runonceBody sc

/-! ### `_main` -/

example : Gen.C12.CHECK_SSH_ALIVE =
  "if daemon:\n    try:\n        os.kill(serverproc.pid, 0)\n    except OSError:\n        raise Fatal('ssh connection to server (pid %d) exited.' % serverproc.pid)\nelse:\n    rv = serverproc.poll()\n    if rv is not None:\n        raise Fatal('ssh connection to server (pid %d) exited with returncode %d' % (serverproc.pid, rv))" := rfl

def deliver (s : Step) (w : World) : World :=
  { w with
    reader := (match s.arrive with | .data b => w.reader ++ [b] | _ => w.reader),
    eof := (match s.arrive with | .eof => true | _ => w.eof),
    grant := s.grant, acceptable := s.accept }

/-- `check_ssh_alive()` at the start of an iteration.  `st = none`: the scripted steps are used
up and the session ends with `endExc` raised out of the liveness call. -/
def checkAlive (sc : Script) (st : Option Step) : M Unit :=
  let body : M Unit := do
    act sc (if sc.cfg.daemon then .kill else .poll)
    match st with
    | none => raise sc.cfg.endExc
    | some s =>
      modifyW (deliver s)
      match s.alive with
      | some _ => do
        mark .sshDead
        raise (if sc.cfg.daemon then .oserr Gen.C12.ESRCH else .fatal)
      | none => pure ()
  if sc.cfg.daemon then mapExc fillExc body else body

example : Gen.C12.MAIN_LOOP =
  "while 1:\n    check_ssh_alive()\n    ssnet.runonce(handlers, mux)\n    if latency_control:\n        mux.check_fullness()" := rfl

def mainLoop (sc : Script) : Nat → List Step → M Unit
  | _, [] => checkAlive sc none
  | i, s :: rest => do
    checkAlive sc (some s)
    runonce sc i
    (if sc.cfg.lat then checkFullness else pure ())
    mainLoop sc (i + 1) rest

example : Gen.C12.AFTER_HANDSHAKE =
  "rv = serverproc.poll()\nif rv is not None: ... raise Fatal(errmsg)\nif initstring != expected:\n    raise Fatal('expected server init string %r; got %r' % (expected, initstring))\nsys.stdout.flush()\nif daemon:\n    daemonize()\n    log('daemonizing (%s).' % _pidname)\ndef onroutes\nmux.got_routes = onroutes\ndef serverready\ndef onhostlist\nmux.got_host_list = onhostlist\ntcp_listener.add_handler(handlers, onaccept_tcp, method, mux)\nif udp_listener:\n    udp_listener.add_handler(handlers, onaccept_udp, method, mux)\nif dns_listener:\n    dns_listener.add_handler(handlers, ondns, method, mux)\nif seed_hosts is not None:\n    debug1('seed_hosts: %r' % seed_hosts)\n    mux.send(0, ssnet.CMD_HOST_REQ, str.encode('\\n'.join(seed_hosts)))\ndef check_ssh_alive" := rfl

/-- Start-up up to and including the two checks (`serverproc.poll()`, init string). -/
def startup (sc : Script) : M Unit := do
  mapExc connectExc (act sc .connect)
  modifyW fun w => { w with tx := initTx }            -- `mux = Mux(rfile, wfile)` queues a PING
  let w ← getW
  let init ← mapExc hsExc (readInit sc (Handshake.total w.reader + 1))
  act sc .poll
  (if sc.cfg.poll0.isSome then raise .fatal else pure ())
  (if init ≠ Handshake.expected then raise .fatal else pure ())
  mark (.hsOk init)

/-- From "Connected to server." to the registration of the callbacks. -/
def register (sc : Script) : M Unit := do
  act sc .outFlush
  (if sc.cfg.daemon then act sc .daemonize else pure ())
  modifyW fun w => { w with routesCb := true }        -- `mux.got_routes = onroutes`
  act sc (.addHandler 0)
  (if sc.cfg.udp then act sc (.addHandler 1) else pure ())
  (if sc.cfg.nNs > 0 then act sc (.addHandler 2) else pure ())
  match sc.cfg.seed with
  | some n => muxSend (some 0) Generated.CMD_HOST_REQ (List.replicate n 0)
  | none => pure ()

/-- `client._main`. -/
def main_ (sc : Script) : M Unit := do
  startup sc
  register sc
  mainLoop sc 0 sc.steps

example : Gen.C12.MAIN_TAIL =
  "try:\n    return _main(tcp_listener, udp_listener, fw, ssh_cmd, remotename, python, latency_control, latency_buffer_size, dns_listener, seed_hosts, auto_hosts, auto_nets, daemon, to_nameserver, add_cmd_delimiter, remote_shell)\nfinally:\n    try:\n        if daemon:\n            fw.p.returncode = 0\n        fw.done()\n        sdnotify.send(sdnotify.stop())\n    finally:\n        if daemon:\n            daemon_cleanup()" := rfl

/-- The inner `try` body of the `finally` part. -/
def finBody (sc : Script) : M Unit := do
  (if sc.cfg.daemon then mark .rc0 else pure ())
  fwDone sc
  act sc .stop

def finPart (sc : Script) : M Unit :=
  tryFinally (finBody sc) (if sc.cfg.daemon then act sc .cleanup else pure ())

/-- The tail of `client.main`: `try: return _main(...) finally: …`. -/
def mainTail (sc : Script) : M Unit := tryFinally (main_ sc) (finPart sc)

def initWorld (sc : Script) : World := { reader := sc.cfg.hs }

/-- Outcome and final world of one whole session. -/
def run (sc : Script) : Except Exc Unit × World := mainTail sc (initWorld sc)

end Sshuttle.ClientMain
