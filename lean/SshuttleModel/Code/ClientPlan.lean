/-
Code model of start-up planning: `cmdline.main`'s handling of `--method`, `--listen`,
`--disable-ipv6`, the "at least one subnet" check, and `client.main` from its first line to the
call of `fw.setup` (sshuttle/client.py), branch by branch.

Conventions: addresses are `Nat` (the integer value of the IPv4/IPv6 address; the Python code
compares the canonical text produced by `getaddrinfo`, which is injective on it), ports are
`Nat`, `0` is "no port" exactly as in the Python.  Every exception the authors did not plan for
is an `Outcome.internal` constructor at the place where Python raises it.  Structural facts of
the source that differ between trees (`Gen.C15.USED_PORTS_ALWAYS_BOUND`, …) are read from the
regenerated parameters, so the model follows the tree under test.  Core Lean only.
-/
import SshuttleModel.Gen.C15

namespace Sshuttle.ClientPlan
open Sshuttle.Gen.C15

inductive Fam | v4 | v6
  deriving DecidableEq, Repr

abbrev Ip := Nat

/-- `(family, ip, width, fport, lport)` as produced by `parse_subnetport`. -/
structure Subnet where
  fam : Fam
  ip : Ip
  width : Nat
  fport : Nat
  lport : Nat
  deriving DecidableEq, Repr

/-- `(family, ip)` as produced by `family_ip_tuple` / `resolvconf_nameservers`. -/
structure Ns where
  fam : Fam
  ip : Ip
  deriving DecidableEq, Repr

structure Addr where
  ip : Ip
  port : Nat
  deriving DecidableEq, Repr

inductive Proto | tcp | udp
  deriving DecidableEq, Repr

/-- The `errno` values the bind oracle can answer with. -/
inductive Errno | inUse | notAvail | acces
  deriving DecidableEq, Repr

/-- What `client.main` receives as `listenip_v6` / `listenip_v4`. -/
inductive ListenArg
  | none                -- Python `None`
  | auto                -- the string "auto"
  | addr (a : Addr)     -- `(ip, port)`
  deriving DecidableEq, Repr

/-- The command line after argparse (values already parsed by `parse_ipport`,
`parse_subnetport`, `family_ip_tuple`; their parsing is property C16). -/
structure Cmd where
  methodOpt : Option String := none          -- `--method`, absent = default
  disableIpv6 : Bool := false
  listen : Option (List (Fam × Addr)) := none  -- `--listen a,b` items in order
  dns : Bool := false
  nsHosts : List Ns := []
  toNs : Option Addr := none
  includes : List Subnet := []
  excludes : List Subnet := []
  autoNets : Bool := false
  user : Option Nat := none                  -- a user *name* (token)
  group : Option Nat := none
  remote : Bool := true

/-- Everything start-up asks of its surroundings. -/
structure Env where
  avail : Features                            -- table of the method the helper answered with
  resolv : List Ns := []                      -- `resolvconf_nameservers(True)`
  users : Nat → Option Nat := fun _ => none   -- getpwnam: name ↦ uid
  groups : Nat → Option Nat := fun _ => none  -- getgrnam: name ↦ gid
  bind : Proto → Fam → Nat → Option Errno := fun _ _ _ => none  -- the bind oracle (none = success)

/-- A `MultiListener` after `bind`: the addresses its sockets are bound to. -/
structure Listener where
  v6 : Option Addr
  v4 : Option Addr
  deriving DecidableEq, Repr

/-- The arguments of `fw.setup`, the listeners and `to_nameserver` handed to `_main`. -/
structure Plan where
  includes : List Subnet
  excludes : List Subnet
  nslist : List Ns
  rp6 : Nat
  rp4 : Nat
  dp6 : Nat
  dp4 : Nat
  udp : Bool
  user : Option Nat
  group : Option Nat
  tcp : Listener
  udpL : Option Listener
  dnsL : Option Listener
  toNs : Option Addr
  deriving DecidableEq, Repr

inductive FatalMsg
  | noRemote | ipv6ListenUnsupported | userMissing | groupMissing | dnsAllV6
  | feature (k : FeatKey) | bindV6NotAvail
  | v6SubnetsNotListening | v6NsNotListening | v4SubnetsNotListening | v4NsNotListening
  deriving DecidableEq, Repr

/-- Exceptions nobody planned for. -/
inductive Internal
  | assertIpv4            -- `assert avail.ipv4`
  | attributeError        -- `getattr(features, key)` on an attribute `required` never got
  | listenipNone          -- `listenip_v4[0]` with `listenip_v4 = None` (TypeError)
  | usedPortsUnbound      -- `used_ports.append` before any assignment (UnboundLocalError)
  | dnsListenerUnbound    -- `dns_listener.print_listening` before any assignment
  | assertLastE           -- `assert last_e` with `last_e = None`
  | assertSanity          -- one of the "should never fail" asserts
  deriving DecidableEq, Repr

inductive Usage | methodChoice | noSubnets
  deriving DecidableEq, Repr

/-- How start-up can end before the hand-over (everything `client.main` raises). -/
inductive Stop
  | fatal (m : FatalMsg)       -- `Fatal(...)`, reported as "fatal: …", exit 99
  | osError (e : Errno)        -- bind error re-raised on purpose (`raise e` / `raise last_e`)
  | internal (t : Internal)    -- an exception nobody planned for
  deriving DecidableEq, Repr

inductive Outcome
  | usage (u : Usage)          -- argparse's usage error (SystemExit 2)
  | stop (s : Stop)
  | plan (p : Plan)
  deriving DecidableEq, Repr

/-! ## cmdline.main -/

/-- `for ip in opt.listen.split(","): … ipport_v6 = … / ipport_v4 = …` (last one wins), or the
defaults `"auto"` / `None if --disable-ipv6`.  Returns `(listenip_v6, listenip_v4)`. -/
def listenArgs (c : Cmd) : ListenArg × ListenArg :=
  match c.listen with
  | some items =>
    items.foldl (fun acc it => if it.1 = Fam.v6 then (ListenArg.addr it.2, acc.2)
                               else (acc.1, ListenArg.addr it.2)) (ListenArg.none, ListenArg.none)
  | none => (if c.disableIpv6 then .none else .auto, .auto)

/-- `helpers.family_ip_tuple`: a name-server text (from `--ns-hosts` or a `nameserver` line of
resolv.conf) is IPv6 iff it contains a colon — scoped (`fe80::1%eth0`), IPv4-mapped and
compressed forms included. -/
def familyOfText (s : String) : Fam := if s.toList.contains ':' then Fam.v6 else Fam.v4

/-- `[family_ip_tuple(ns) for ns in …]`; the `Nat` is the harness' numeric name of the text. -/
def classifyNs (l : List (String × Ip)) : List Ns := l.map fun x => ⟨familyOfText x.1, x.2⟩

/-! ## client.main: preparation (up to the port search) -/

def isV4 (f : Fam) : Bool := f = Fam.v4
def isV6 (f : Fam) : Bool := f = Fam.v6

/-- What the preparation part of `client.main` has computed when it reaches the port search. -/
structure Prep where
  l6 : Option Addr          -- final `listenip_v6`
  l4 : Option Addr          -- final `listenip_v4`
  includes : List Subnet    -- `subnets_include`
  sub4 : List Subnet
  sub6 : List Subnet
  nslist : List Ns
  ns4 : List Ns
  ns6 : List Ns
  excludes : List Subnet    -- `subnets_exclude` incl. the automatic ones
  uid : Option Nat
  gid : Option Nat
  udp : Bool                -- `required.udp`
  reqDns : Bool
  toNs : Option Addr
  deriving Repr

/-- `listenip_v4 == "auto"` → `('127.0.0.1' if avail.loopback_proxy_port else '0.0.0.0', 0)`. -/
def resolveL4 (av : Features) : ListenArg → Option Addr
  | .auto => some ⟨if av.loopback_proxy_port then LOOP4 else ANY4, 0⟩
  | .addr a => some a
  | .none => none

/-- `listenip_v6`: `None` stays, "auto" becomes the default address iff the method has IPv6. -/
def resolveL6 (av : Features) : ListenArg → Option Addr
  | .none => none
  | .auto => if av.ipv6 then some ⟨if av.loopback_proxy_port then LOOP6 else ANY6, 0⟩ else none
  | .addr a => some a

/-- The `required` object: attributes set by `client.main`; any other attribute raises. -/
def requiredGet (req6 udp dns user group : Bool) (k : FeatKey) : Option Bool :=
  if k ∈ REQUIRED_ATTRS then
    some (match k with
      | .ipv4 => true
      | .ipv6 => req6
      | .udp => udp
      | .dns => dns
      | .user => user
      | .group => group
      | .loopback_proxy_port => false)
  else none

/-- `BaseMethod.assert_features`: first key in the list that is required and not available. -/
def assertFeatures (av : Features) (req : FeatKey → Option Bool) : List FeatKey → Option Stop
  | [] => none
  | k :: ks =>
    match req k with
    | none => some (.internal .attributeError)
    | some r => if r && !av.get k then some (.fatal (.feature k)) else assertFeatures av req ks

/-- `not any(listenip[0] == sex[1] for sex in subnets)`. -/
def listedAsSubnet (ip : Ip) (subs : List Subnet) : Bool := subs.any (fun s => s.ip = ip)

/-- `nslist += resolvconf_nameservers(True)` when `--dns`. -/
def nslistOf (c : Cmd) (env : Env) : List Ns := if c.dns then c.nsHosts ++ env.resolv else c.nsHosts

/-- `getpwnam(user).pw_uid` / `getgrnam(group).gr_gid`: outer `none` = KeyError. -/
def lookupOpt (name : Option Nat) (db : Nat → Option Nat) : Option (Option Nat) :=
  match name with
  | none => some none
  | some n => (db n).map some

/-- The straight-line part of the preparation: the per-family split, the IPv6 pruning of
subnets / name servers / excludes and the automatic excludes, given the final listen addresses
and the looked-up ids.  (The checks that can end start-up are in `prep`, in program order.) -/
def mkPrep (c : Cmd) (env : Env) (l6 l4 : Option Addr) (uid gid : Option Nat) : Prep :=
  let nslist := nslistOf c env
  let sub4 := c.includes.filter (fun s => isV4 s.fam)
  let sub6 := c.includes.filter (fun s => isV6 s.fam)
  let ns4 := nslist.filter (fun n => isV4 n.fam)
  let ns6 := nslist.filter (fun n => isV6 n.fam)
  let req6 := l6.isSome
  -- IPv6 subnets ignored when IPv6 is off
  let prune6 := !req6 && sub6.length > 0
  let reqDns := decide (nslist.length > 0)
  -- IPv6 name servers removed when IPv6 is off
  let pruneNs := reqDns && !req6 && ns6.length > 0
  let sub6' := if prune6 then [] else sub6
  let excl := if !req6 then c.excludes.filter (fun s => isV4 s.fam) else c.excludes
  -- automatic excludes of the listen addresses
  let e4 : List Subnet :=
    match l4 with
    | some a => if !listedAsSubnet a.ip sub4 then [⟨Fam.v4, a.ip, EXCL_WIDTH4, 0, 0⟩] else []
    | none => []
  let e6 : List Subnet :=
    match l6 with
    | some a => if !listedAsSubnet a.ip sub6' then [⟨Fam.v6, a.ip, EXCL_WIDTH6, 0, 0⟩] else []
    | none => []
  { l6 := l6, l4 := l4,
    includes := if prune6 then sub4 else c.includes,
    sub4 := sub4, sub6 := sub6',
    nslist := if pruneNs then ns4 else nslist,
    ns4 := ns4, ns6 := if pruneNs then [] else ns6,
    excludes := excl ++ e4 ++ e6, uid := uid, gid := gid,
    udp := env.avail.udp, reqDns := reqDns,
    toNs := if nslist.length > 0 then c.toNs else none }

def prep (c : Cmd) (env : Env) (a6 a4 : ListenArg) : Except Stop Prep :=
  let av := env.avail
  if !c.remote then .error (.fatal .noRemote) else
  if !av.ipv4 then .error (.internal .assertIpv4) else
  let l4 := resolveL4 av a4
  let l6 := resolveL6 av a6
  if l6.isSome && !av.ipv6 then .error (.fatal .ipv6ListenUnsupported) else
  match lookupOpt c.user env.users with
  | none => .error (.fatal .userMissing)
  | some uid =>
  match lookupOpt c.group env.groups with
  | none => .error (.fatal .groupMissing)
  | some gid =>
  let P := mkPrep c env l6 l4 uid gid
  if P.reqDns && P.nslist.length == 0 then .error (.fatal .dnsAllV6) else
  match assertFeatures av (requiredGet l6.isSome av.udp P.reqDns uid.isSome gid.isSome) ASSERT_KEYS with
  | some o => .error o
  | none =>
  -- `listenip_v4[0]` in the automatic IPv4 exclude
  if l4.isNone && !V4_EXCLUDE_GUARDED then .error (.internal .listenipNone) else
  .ok P

/-! ## MultiListener.bind -/

inductive MLBind
  | ok (l : Listener)
  | fatalV6              -- EADDRNOTAVAIL on the IPv6 socket → Fatal
  | err (e : Errno)      -- any other OSError propagates
  deriving DecidableEq, Repr

/-- One `socket.bind`.  `held` are the addresses of this process' own UDP redirector, which a
second UDP socket cannot bind. -/
def bindOne (env : Env) (held : List (Fam × Addr)) (proto : Proto) (fam : Fam) (a : Addr) : Option Errno :=
  if proto = Proto.udp ∧ (fam, a) ∈ held then some .inUse else env.bind proto fam a.port

def mlBind (env : Env) (held : List (Fam × Addr)) (proto : Proto) (a6 a4 : Option Addr) : MLBind :=
  let bindV4 (v6 : Option Addr) : MLBind :=
    match a4 with
    | none => .ok ⟨v6, none⟩
    | some a =>
      match bindOne env held proto .v4 a with
      | none => .ok ⟨v6, some a⟩
      | some e => .err e
  match a6 with
  | none => bindV4 none
  | some a =>
    match bindOne env held proto .v6 a with
    | none => bindV4 (some a)
    | some .notAvail => .fatalV6
    | some e => .err e

/-! ## the redirector port search -/

/-- `range(start, stop, -1)`. -/
def descRange (start stop : Nat) : List Nat := (List.range (start - stop)).map (fun i => start - i)

/-- `lv = listenip if listenip[1] else (listenip[0], port)`, and the reported port. -/
def lvOf (l : Option Addr) (port : Nat) : Option Addr × Nat :=
  match l with
  | none => (none, 0)
  | some a => if a.port ≠ 0 then (some a, a.port) else (some ⟨a.ip, port⟩, port)

structure TcpOk where
  tcp : Listener
  udpL : Option Listener
  rp6 : Nat
  rp4 : Nat
  used : List Nat
  lastE : Bool            -- `last_e is not None`
  deriving Repr

inductive TcpRes
  | bound (r : TcpOk)
  | exhausted (lastE : Bool)
  | stop (o : Stop)

/-- The body of `for port in ports:` of the redirector search.  `used = none` is the unbound
local variable. -/
def tcpLoop (env : Env) (l6 l4 : Option Addr) (udp : Bool) :
    List Nat → Option (List Nat) → Bool → TcpRes
  | [], _, lastE => .exhausted lastE
  | p :: ps, used, lastE =>
    let v6 := lvOf l6 p
    let v4 := lvOf l4 p
    let res : MLBind × Option Listener :=
      match mlBind env [] .tcp v6.1 v4.1 with
      | .ok t =>
        if udp then
          match mlBind env [] .udp v6.1 v4.1 with
          | .ok u => (.ok t, some u)
          | .fatalV6 => (.fatalV6, none)
          | .err e => (.err e, none)
        else (.ok t, none)
      | .fatalV6 => (.fatalV6, none)
      | .err e => (.err e, none)
    match res.1 with
    | .ok t =>
      match used with
      | none => .stop (.internal .usedPortsUnbound)
      | some u => .bound { tcp := t, udpL := res.2, rp6 := v6.2, rp4 := v4.2, used := u ++ [p], lastE := lastE }
    | .fatalV6 => .stop (.fatal .bindV6NotAvail)
    | .err .inUse =>
      match used with
      | none => .stop (.internal .usedPortsUnbound)
      | some u => tcpLoop env l6 l4 udp ps (some (u ++ [p])) true
    | .err e => .stop (.osError e)

def bothExplicit (l6 l4 : Option Addr) : Bool :=
  (match l6 with | some a => a.port ≠ 0 | none => false) &&
  (match l4 with | some a => a.port ≠ 0 | none => false)

def tcpStage (env : Env) (P : Prep) : Except Stop TcpOk :=
  let both := bothExplicit P.l6 P.l4
  let ports := if both then BOTH_EXPLICIT_PORTS else descRange TCP_PORT_START TCP_PORT_STOP
  let used0 : Option (List Nat) := if USED_PORTS_ALWAYS_BOUND || !both then some [] else none
  match tcpLoop env P.l6 P.l4 P.udp ports used0 false with
  | .bound r => .ok r
  | .exhausted lastE => if lastE then .error (.osError .inUse) else .error (.internal .assertLastE)
  | .stop o => .error o

/-! ## the DNS port search -/

structure DnsOk where
  dnsL : Option Listener
  dp6 : Nat
  dp4 : Nat
  deriving Repr

inductive DnsRes
  | bound (l : Listener) (port : Nat)
  | exhausted (assigned : Bool) (lastE : Bool)
  | stop (o : Stop)

def heldOf (u : Option Listener) : List (Fam × Addr) :=
  match u with
  | none => []
  | some l => (match l.v6 with | some a => [(Fam.v6, a)] | none => []) ++
              (match l.v4 with | some a => [(Fam.v4, a)] | none => [])

/-- The `if …: continue` guard at the top of the DNS search loop. -/
def dnsSkip (used : List Nat) (rp6 rp4 : Nat) (p : Nat) : Bool :=
  (DNS_SEARCH_SKIPS_USED_PORTS && used.contains p) ||
  (DNS_SEARCH_SKIPS_REDIRECT_PORTS && (p == rp4 || p == rp6))

def dnsLoop (env : Env) (held : List (Fam × Addr)) (l6 l4 : Option Addr) (rp6 rp4 : Nat) :
    List Nat → List Nat → Bool → Bool → DnsRes
  | [], _, assigned, lastE => .exhausted assigned lastE
  | p :: ps, used, assigned, lastE =>
    if dnsSkip used rp6 rp4 p then dnsLoop env held l6 l4 rp6 rp4 ps used assigned lastE else
    match mlBind env held .udp (l6.map fun a => ⟨a.ip, p⟩) (l4.map fun a => ⟨a.ip, p⟩) with
    | .ok l => .bound l p
    | .fatalV6 => .stop (.fatal .bindV6NotAvail)
    | .err .inUse => dnsLoop env held l6 l4 rp6 rp4 ps (used ++ [p]) true true
    | .err e => .stop (.osError e)

def dnsStage (env : Env) (P : Prep) (T : TcpOk) : Except Stop DnsOk :=
  if !P.reqDns then .ok { dnsL := none, dp6 := 0, dp4 := 0 } else
  match dnsLoop env (heldOf T.udpL) P.l6 P.l4 T.rp6 T.rp4
      (descRange DNS_PORT_START DNS_PORT_STOP) T.used false T.lastE with
  | .bound l p => .ok { dnsL := some l, dp6 := if P.l6.isSome then p else 0,
                        dp4 := if P.l4.isSome then p else 0 }
  | .stop o => .error o
  | .exhausted assigned lastE =>
    if DNS_BOUND_CHECK_BEFORE_PRINT then
      if lastE then .error (.osError .inUse) else .error (.internal .assertLastE)
    else
      -- `dns_listener.print_listening("DNS")` comes first
      if !assigned then .error (.internal .dnsListenerUnbound)
      else if lastE then .error (.osError .inUse) else .error (.internal .assertLastE)

/-! ## last-minute sanity checks and the hand-over -/

def sanity (P : Prep) (T : TcpOk) (D : DnsOk) : Except Stop Plan :=
  let req6 := P.l6.isSome
  if P.sub6.length > 0 && !req6 then .error (.internal .assertSanity) else
  if P.sub6.length > 0 && T.rp6 == 0 then .error (.fatal .v6SubnetsNotListening) else
  if P.ns6.length > 0 && (!P.reqDns || !req6) then .error (.internal .assertSanity) else
  if P.ns6.length > 0 && D.dp6 == 0 then .error (.fatal .v6NsNotListening) else
  if P.sub4.length > 0 && T.rp4 == 0 then .error (.fatal .v4SubnetsNotListening) else
  if P.ns4.length > 0 && D.dp4 == 0 then .error (.fatal .v4NsNotListening) else
  .ok { includes := P.includes, excludes := P.excludes, nslist := P.nslist,
        rp6 := T.rp6, rp4 := T.rp4, dp6 := D.dp6, dp4 := D.dp4, udp := P.udp,
        user := P.uid, group := P.gid, tcp := T.tcp, udpL := T.udpL, dnsL := D.dnsL, toNs := P.toNs }

/-- `client.main` from its first line to `fw.setup`. -/
def clientMain (c : Cmd) (env : Env) (a6 a4 : ListenArg) : Outcome :=
  match prep c env a6 a4 with
  | .error o => .stop o
  | .ok P =>
    match tcpStage env P with
    | .error o => .stop o
    | .ok T =>
      match dnsStage env P T with
      | .error o => .stop o
      | .ok D =>
        match sanity P T D with
        | .error o => .stop o
        | .ok plan => .plan plan

/-- `cmdline.main`: argparse's `--method` choice check, the "at least one subnet" check, the
listen handling, then `client.main`. -/
def run (c : Cmd) (env : Env) : Outcome :=
  if !(METHOD_CHOICES.contains (c.methodOpt.getD METHOD_DEFAULT)) then .usage .methodChoice else
  if c.includes.isEmpty && !c.autoNets then .usage .noSubnets else
  let la := listenArgs c
  clientMain c env la.1 la.2

end Sshuttle.ClientPlan
