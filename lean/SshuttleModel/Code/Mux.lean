/-
Code model of `sshuttle/ssnet.py` class `Mux`, byte level (L0 of DESIGN §0.1):
`send` (:382), `flush` (:441), `fill` (:452), `handle` (:468).
Each definition mirrors the Python statement by statement; a Python exception
that the authors did not plan for is an explicit constructor, never totalised away.
Core Lean only.
-/
import SshuttleModel.Basic
import SshuttleModel.Generated

namespace Sshuttle.Mux

structure Frame where
  chan : Nat
  cmd  : Nat
  data : Bytes
deriving DecidableEq, Repr, Inhabited

/-- What `struct.pack('!ccHHH', …)` and the `assert len(data) <= 65535` accept. -/
def Frame.Wf (f : Frame) : Prop :=
  f.chan < 65536 ∧ f.cmd < 65536 ∧ f.data.length ≤ 65535

instance (f : Frame) : Decidable f.Wf := by unfold Frame.Wf; infer_instance

/-- `struct.pack('!ccHHH', b'S', b'S', channel, cmd, len(data))`. -/
def header (f : Frame) : Bytes :=
  [83, 83] ++ be16 f.chan ++ be16 f.cmd ++ be16 f.data.length

def encode (f : Frame) : Bytes := header f ++ f.data

/-! ### sender side -/

structure Tx where
  outbuf   : List Bytes := []
  fullness : Nat := 0
deriving Repr

inductive SendRes
  | ok (tx : Tx)
  | assertLen            -- `assert len(data) <= 65535`
  | structError          -- `struct.pack` on an out-of-range (or `None`) field
deriving Repr

/-- `Mux.send` (ssnet.py:382-392). `chan = none` is Python's `None` (what
`next_channel()` returns when no id is free). -/
def send (tx : Tx) (chan : Option Nat) (cmd : Nat) (data : Bytes) : SendRes :=
  if data.length > 65535 then .assertLen else
  match chan with
  | none => .structError
  | some c =>
    if c ≥ 65536 ∨ cmd ≥ 65536 then .structError else
    .ok { outbuf := tx.outbuf ++ [encode ⟨c, cmd, data⟩],
          fullness := tx.fullness + data.length }

/-- `while self.outbuf and not self.outbuf[0]: self.outbuf[0:1] = []` -/
def dropEmpty : List Bytes → List Bytes
  | [] => []
  | b :: rest => if b.isEmpty then dropEmpty rest else b :: rest

/-- `Mux.flush` (ssnet.py:441-450). `wrote` is what `_nb_clean(self.wfile.write, …)`
returned: `none` for would-block (Python `None`), `some n` for `n` bytes accepted
(`n ≤ len(outbuf[0])` is the environment's promise). Returns the bytes put on the wire. -/
def flush (tx : Tx) (wrote : Option Nat) : Tx × Bytes :=
  match tx.outbuf with
  | [] => (tx, [])
  | b :: rest =>
    if b.isEmpty then ({ tx with outbuf := dropEmpty (b :: rest) }, []) else
    match wrote with
    | none => ({ tx with outbuf := dropEmpty (b :: rest) }, [])
    | some 0 => ({ tx with outbuf := dropEmpty (b :: rest) }, [])
    | some n => ({ tx with outbuf := dropEmpty (b.drop n :: rest) }, b.take n)

/-! ### receiver side -/

structure Rx where
  want  : Nat := 0
  inbuf : Bytes := []
deriving Repr, DecidableEq

inductive HandleRes
  | ok (frames : List Frame) (rx : Rx)
  | badMagic (frames : List Frame) (rx : Rx)     -- `assert s1 == b'S'` fails
  | structError (frames : List Frame) (rx : Rx)  -- `struct.unpack` on fewer than 8 bytes
deriving Repr

/-- The `while 1:` loop of `Mux.handle` (ssnet.py:470-483).  `fuel` bounds the number
of iterations; `handle` supplies `len(inbuf) + 1`, which `handleLoop_fuel` (Props/C07)
shows is always enough. -/
def handleLoop : Nat → Rx → List Frame → HandleRes
  | 0, rx, acc => .ok acc.reverse rx
  | fuel + 1, rx, acc =>
    if rx.inbuf.length ≥ (if rx.want = 0 then Generated.HDR_LEN else rx.want) then
      match rx.inbuf with
      | s1 :: s2 :: c1 :: c0 :: m1 :: m0 :: l1 :: l0 :: _ =>
        if s1 = 83 ∧ s2 = 83 then
          let want := unbe16 l1 l0 + Generated.HDR_LEN
          if rx.inbuf.length ≥ want then
            handleLoop fuel ⟨0, rx.inbuf.drop want⟩
              (⟨unbe16 c1 c0, unbe16 m1 m0, (rx.inbuf.take want).drop Generated.HDR_LEN⟩ :: acc)
          else .ok acc.reverse ⟨want, rx.inbuf⟩
        else .badMagic acc.reverse rx
      | _ => .structError acc.reverse rx
    else .ok acc.reverse rx

/-- What `self.rfile.read(...)` gave `Mux.fill` (ssnet.py:452-466). -/
inductive ReadRes
  | data (chunk : Bytes)   -- non-empty bytes
  | eof                    -- `b''`
  | wouldBlock             -- `None` (→ `len(None)` raises `TypeError` at :458)
deriving Repr

inductive FeedRes
  | ok (frames : List Frame) (rx : Rx) (muxOk : Bool)
  | badMagic (frames : List Frame) (rx : Rx)
  | structError (frames : List Frame) (rx : Rx)
  | typeError
deriving Repr

/-- `Mux.handle`: `fill` then the loop. -/
def handle (rx : Rx) (r : ReadRes) : FeedRes :=
  match r with
  | .wouldBlock => .typeError
  | .eof =>
    match handleLoop (rx.inbuf.length + 1) rx [] with
    | .ok fs rx' => .ok fs rx' false
    | .badMagic fs rx' => .badMagic fs rx'
    | .structError fs rx' => .structError fs rx'
  | .data chunk =>
    let rx1 : Rx := { rx with inbuf := rx.inbuf ++ chunk }
    match handleLoop (rx1.inbuf.length + 1) rx1 [] with
    | .ok fs rx' => .ok fs rx' true
    | .badMagic fs rx' => .badMagic fs rx'
    | .structError fs rx' => .structError fs rx'

end Sshuttle.Mux
