/-
Code model of the DNS relay.

Client (`sshuttle/client.py`): `ondns` (:570-588), `dns_done` (:563-567).
Server (`sshuttle/server.py`): `DnsProxy.__init__` (:171-187), `_addrinfo` (:189-194),
`try_send` (:196-229), `callback` (:231-253), the closure `dns_req` (:368-373).
Statement by statement; the environment (which name server `random.shuffle` put first,
what each socket call returned) is an explicit input.  Core Lean only.
-/
import SshuttleModel.Code.Dgram

namespace Sshuttle.Dgram

/-! ### client -/

/-- `ondns(listener, method, mux, handlers)` at clock `now` with the datagram `cap` waiting
on the listener.  Returns the new state and the frames queued with `mux.send`. -/
def ondns (cfg : Cfg) (now : Nat) (cap : Capture) (c : Client) : Except Err (Client × List Frame) :=
  match recvUdp cfg.method cfg.recvMax cap with
  | none => .ok (c, [])                                   -- `if t is None: return`
  | some (srcip, dstip, data) =>
    match nextChannel cfg.maxCh c.chans cfg.probes c.chani with
    | (chani', none) =>
      -- `if not chan: log('warning: too many open channels…'); return` (the cursor has moved)
      .ok ({ c with chani := chani' }, [])
    | (chani', some chan) =>
      let c1 : Client :=
        { c with chani := chani'
                 dnsreqs := set chan (now + cfg.dnsHorizonS * cfg.ticksPerS) c.dnsreqs
                 chans := set chan (.dns c.nq cap.lsn srcip dstip) c.chans
                 nq := c.nq + 1 }
      match expire now c1 with
      | .error e => .error e
      | .ok (c2, closes) => .ok (c2, ⟨chan, CMD_DNS_REQ, data⟩ :: closes)

/-- `dns_done(chan, data, method, sock, srcip=orig, dstip=asker, mux)`. -/
def dnsDone (cfg : Cfg) (chan : Nat) (lsn : Nat) (asker : Addr) (orig : Option Addr)
    (data : Bytes) (c : Client) : Except Err (Client × List Emit) :=
  if ¬ hasKey chan c.chans then .error (.keyError "mux.channels") else
  if ¬ hasKey chan c.dnsreqs then .error (.keyError "dnsreqs") else
  let c1 := { c with chans := erase chan c.chans, dnsreqs := erase chan c.dnsreqs }
  match sendUdp cfg.method lsn orig asker data with
  | .error e => .error e
  | .ok es => .ok (c1, es)

/-! ### server -/

/-- One `DnsProxy` object. -/
structure DnsH where
  hid : Nat                    -- ghost: object identity
  chan : Nat
  deadline : Nat               -- `self.timeout`
  tries : Nat := 0
  request : Bytes
  socks : List Nat := []       -- `self.socks` (socket identities)
  peers : List (Nat × Bytes) := []
  ok : Bool := true
deriving Repr, DecidableEq

/-- A datagram handed to a resolver socket with `sock.send`. -/
structure RSend where
  hid : Nat
  chan : Nat
  sock : Nat
  peer : Bytes
  port : Nat
  data : Bytes
deriving Repr, DecidableEq

/-- The environment's answers during one server round, consumed in order:
`picks` — the name server `get_random_nameserver()` returned at each call;
`results` — the outcome of each fallible socket call (`connect`, `send`, `sendto`):
`none` = success, `some errno`.  Missing entries mean success / the first listed server. -/
structure Script where
  picks : List Bytes := []
  results : List (Option Nat) := []
deriving Repr

def Script.popResult (s : Script) : Option Nat × Script :=
  match s.results with
  | [] => (none, s)
  | r :: rest => (r, { s with results := rest })

/-! ### `helpers.resolvconf_nameservers` (helpers.py:67-116): line → words → accept rule -/

/-- What `str.split()` treats as a separator (ASCII): space, TAB, VT, FF, FS..US.  CR and LF
never reach a word: the file is read in universal-newline mode, so both end a line. -/
def isSpace (b : Nat) : Bool := b = 32 || b = 9 || b = 11 || b = 12 || (28 ≤ b && b ≤ 31)

/-- Split at every byte satisfying `sep`, dropping empty pieces (`str.split()` without argument). -/
def splitOnP (sep : Nat → Bool) : Bytes → Bytes → List Bytes
  | [], cur => if cur.isEmpty then [] else [cur]
  | b :: rest, cur =>
    if sep b then (if cur.isEmpty then splitOnP sep rest [] else cur :: splitOnP sep rest [])
    else splitOnP sep rest (cur ++ [b])

/-- `line.lower()` on ASCII. -/
def lowerByte (b : Nat) : Nat := if 65 ≤ b ∧ b ≤ 90 then b + 32 else b

def kwNameserver : Bytes := [110, 97, 109, 101, 115, 101, 114, 118, 101, 114]   -- "nameserver"

/-- `if len(words) >= 2 and words[0] == 'nameserver': …append(family_ip_tuple(words[1]))`:
whatever follows the address on the line is ignored. -/
def nsOfWords : List Bytes → Option Bytes
  | kw :: addr :: _ => if kw = kwNameserver then some addr else none
  | _ => none

/-- The name servers a resolv.conf text yields, in file order. -/
def parseResolvConf (text : Bytes) : List Bytes :=
  (splitOnP (fun b => b = 10 || b = 13) text []).filterMap fun line =>
    nsOfWords (splitOnP isSpace (line.map lowerByte) [])

def localhost : Bytes := [49, 50, 55, 46, 48, 46, 48, 46, 49]   -- "127.0.0.1"

/-- `get_random_nameserver()`: any element of the list (the script says which), else
127.0.0.1.  `none` when the script names a server that is not in the list. -/
def pickNs (cfg : Cfg) (s : Script) : Option (Bytes × Script) :=
  match cfg.nslist with
  | [] => some (localhost, s)
  | first :: _ =>
    match s.picks with
    | [] => some (first, s)
    | p :: rest => if cfg.nslist.contains p then some (p, { s with picks := rest }) else none

structure TryRes where
  h : DnsH
  nextSock : Nat
  script : Script
  sends : List RSend := []
  attempts : Nat := 0          -- ghost: sockets created by this call chain
  err : Option Err := none
deriving Repr

/-- `DnsProxy.try_send`; `fuel` bounds the self-recursion (`maxTries + 1` is enough). -/
def trySend (cfg : Cfg) : Nat → DnsH → Nat → Script → TryRes
  | 0, h, ns, sc => ⟨h, ns, sc, [], 0, none⟩
  | fuel + 1, h, ns, sc =>
    if h.tries ≥ cfg.maxTries then ⟨h, ns, sc, [], 0, none⟩ else
    let h0 := h
    let h := { h with tries := h.tries + 1 }
    let choice : Option ((Bytes × Nat) × Script) :=
      match cfg.toNs with
      | none => (pickNs cfg sc).map fun (p, sc') => ((p, 53), sc')
      | some (peer, port) => some ((peer, if port = 0 then 53 else port), sc)
    match choice with
    | none => ⟨h0, ns, sc, [], 0, some (.valueError "script-pick-not-in-resolv.conf")⟩   -- not a run of the code
    | some ((peer, port), sc) =>
      -- `sock = socket.socket(family, SOCK_DGRAM)`
      let sock := ns
      let ns := ns + 1
      -- `sock.connect(sockaddr)`
      let (rc, sc) := sc.popResult
      let retry (h : DnsH) (sc : Script) (e : Nat) : TryRes :=
        if cfg.netErrs.contains e then
          let r := trySend cfg fuel h ns sc
          { r with attempts := r.attempts + 1 }
        else ⟨h, ns, sc, [], 1, none⟩
      match rc, cfg.connectInTry with
      | some e, false => ⟨h, ns, sc, [], 1, some (.osError e)⟩
      | some e, true =>
        let h := { h with peers := set sock peer h.peers }
        retry h sc e
      | none, _ =>
        let h := { h with peers := set sock peer h.peers }
        -- `sock.send(self.request)`
        let (rs, sc) := sc.popResult
        match rs with
        | none =>
          ⟨{ h with socks := h.socks ++ [sock] }, ns, sc, [⟨h.hid, h.chan, sock, peer, port, h.request⟩], 1, none⟩
        | some e => retry h sc e

/-- `DnsProxy(mux, chan, request, to_nameserver)` as called by `dns_req`. -/
def dnsProxyNew (cfg : Cfg) (now : Nat) (hid chan : Nat) (request : Bytes) (nextSock : Nat)
    (sc : Script) : TryRes :=
  trySend cfg (cfg.maxTries + 1)
    { hid := hid, chan := chan, deadline := now + cfg.srvDnsHorizonS * cfg.ticksPerS, request := request }
    nextSock sc

/-- What `sock.recv(4096)` / `sock.recvfrom(4096)` did. -/
inductive RecvRes
  | data (from_ : Addr) (d : Bytes)
  | err (errno : Nat)
deriving Repr

structure CbRes where
  h : DnsH
  nextSock : Nat
  script : Script
  sends : List RSend := []
  frames : List Frame := []
  attempts : Nat := 0
  err : Option Err := none
deriving Repr

/-- `DnsProxy.callback(sock)` for a socket in `self.socks`. -/
def dnsCallback (cfg : Cfg) (h : DnsH) (sock : Nat) (r : RecvRes) (nextSock : Nat) (sc : Script) : CbRes :=
  match lookup sock h.peers with
  | none => ⟨h, nextSock, sc, [], [], 0, some (.keyError "peers")⟩
  | some _ =>
    match r with
    | .err e =>
      let h := { h with socks := h.socks.erase sock, peers := erase sock h.peers }
      if cfg.netErrs.contains e then
        let t := trySend cfg (cfg.maxTries + 1) h nextSock sc
        ⟨t.h, t.nextSock, t.script, t.sends, [], t.attempts, t.err⟩
      else ⟨h, nextSock, sc, [], [], 0, none⟩
    | .data _ d =>
      ⟨{ h with ok := false }, nextSock, sc, [],
        [⟨h.chan, CMD_DNS_RESPONSE, d.take cfg.srvRecvMax⟩], 0, none⟩

end Sshuttle.Dgram
