/-
Library / environment model used by C16: what glibc's `getaddrinfo` does with a *numeric*
host string (the path sshuttle's `parse_subnetport` / `parse_ipport` rely on), i.e.

  * `__inet_aton_exact` (resolv/inet_addr.c `inet_aton_end`): 1–4 parts, each part a C
    numeral (`strtoul(…, 0)`: decimal, `0` octal, `0x`/`0X` hex), last part fills the rest;
  * `inet_pton(AF_INET6, …)` (resolv/inet_pton.c `inet_pton6` / `inet_pton4`);
  * `inet_ntoa` / `inet_ntop(AF_INET6, …)` (the text CPython's `makeipaddr` returns);
  * the numeric-service rule of `getaddrinfo` (`strtoul` into an `int`, then `htons`).

Written from the glibc 2.36 sources, statement by statement.  It is *modelled, not verified*:
it has its own correspondence stream (`lib:` lines of `harness/props/c16.py`) against the real
`socket.getaddrinfo(…, AI_NUMERICHOST)`, `socket.inet_aton`, `socket.inet_pton`.
Core Lean only.  Where the model stops: a `%scope` suffix and the host `*` are reported as
`unmodelled` / `star` and never guessed.
-/
import SshuttleModel.Basic

namespace Sshuttle.Inet

abbrev Str := List Char

def isDigit (c : Char) : Bool := 48 ≤ c.toNat && c.toNat ≤ 57

def decVal? (c : Char) : Option Nat :=
  if 48 ≤ c.toNat ∧ c.toNat ≤ 57 then some (c.toNat - 48) else none

def octVal? (c : Char) : Option Nat :=
  if 48 ≤ c.toNat ∧ c.toNat ≤ 55 then some (c.toNat - 48) else none

def hexVal? (c : Char) : Option Nat :=
  if 48 ≤ c.toNat ∧ c.toNat ≤ 57 then some (c.toNat - 48)
  else if 97 ≤ c.toNat ∧ c.toNat ≤ 102 then some (c.toNat - 87)
  else if 65 ≤ c.toNat ∧ c.toNat ≤ 70 then some (c.toNat - 55)
  else none

/-- C `isspace` in the C locale. -/
def isSpaceC (c : Char) : Bool := c.toNat = 32 || (9 ≤ c.toNat && c.toNat ≤ 13)

/-- The digit loop of `strtoul`: consume digits of the base, accumulate. -/
def numRun (base : Nat) (val? : Char → Option Nat) (acc : Nat) : Str → Nat × Str
  | [] => (acc, [])
  | c :: t =>
    match val? c with
    | some d => numRun base val? (acc * base + d) t
    | none => (acc, c :: t)

/-- `strtoul(cp, &endp, 0)` on a string that starts with a digit (the only way
`inet_aton_end` calls it): value (unbounded here; the caller applies the range checks,
which subsume `ERANGE`) and the unconsumed rest. -/
def strtoul0 (s : Str) : Nat × Str :=
  match s with
  | '0' :: t =>
    match t with
    | x :: h :: u =>
      if (x = 'x' ∨ x = 'X') ∧ (hexVal? h).isSome then numRun 16 hexVal? 0 (h :: u)
      else numRun 8 octVal? 0 t
    | _ => numRun 8 octVal? 0 t
  | _ => numRun 10 decVal? 0 s

/-- `static const in_addr_t max[4] = { 0xffffffff, 0xffffff, 0xffff, 0xff };` -/
def partMax (k : Nat) : Nat :=
  match k with
  | 0 => 0xffffffff
  | 1 => 0xffffff
  | 2 => 0xffff
  | _ => 0xff

/-- value of the bytes already stored (`res.word`), `k`-th stored byte at bits `24-8k`. -/
def storedVal : List Nat → Nat → Nat
  | [], _ => 0
  | b :: rest, k => b * 2 ^ (24 - 8 * k) + storedVal rest (k + 1)

/-- The `do … while (1)` loop of `inet_aton_end`.  At most four iterations are possible
(`pp > res.bytes + 2` stops a fifth part), so the fuel is 4. -/
def atonLoop : Nat → Str → List Nat → Option (Nat × Str)
  | 0, _, _ => none
  | fuel + 1, s, stored =>
    match s with
    | [] => none                                   -- `!isdigit('\0')`
    | c :: _ =>
      if !isDigit c then none else
      let (val, rest) := strtoul0 s
      if val > 0xffffffff then none else
      match rest with
      | '.' :: rest' =>
        if stored.length > 2 ∨ val > 0xff then none
        else atonLoop fuel rest' (stored ++ [val])
      | _ =>
        if val > partMax stored.length then none
        else some (storedVal stored 0 + val, rest)

/-- `inet_aton_end`: address and the position where parsing stopped; trailing characters
must be NUL (end) or ASCII white space. -/
def atonEnd (s : Str) : Option (Nat × Str) :=
  match atonLoop 4 s [] with
  | none => none
  | some (a, rest) =>
    match rest with
    | [] => some (a, rest)
    | c :: _ => if c.toNat < 128 && isSpaceC c then some (a, rest) else none

/-- `__inet_aton_exact` (what `getaddrinfo` uses since glibc 2.29). -/
def atonExact (s : Str) : Option Nat :=
  match atonEnd s with
  | some (a, []) => some a
  | _ => none

/-- `inet_aton` (what `socket.inet_aton` uses): trailing white space and anything after it ignored. -/
def aton (s : Str) : Option Nat := (atonEnd s).map (·.1)

/-! ### inet_pton -/

structure P4 where
  done  : List Nat := []     -- finished octets
  cur   : Nat := 0           -- `*tp`
  saw   : Bool := false
  octets : Nat := 0

/-- `inet_pton4` main loop. -/
def pton4Loop : Str → P4 → Option P4
  | [], st => some st
  | ch :: src, st =>
    if isDigit ch then
      let new := st.cur * 10 + (ch.toNat - 48)
      if st.saw && st.cur == 0 then none
      else if new > 255 then none
      else if !st.saw then
        if st.octets + 1 > 4 then none
        else pton4Loop src { st with cur := new, saw := true, octets := st.octets + 1 }
      else pton4Loop src { st with cur := new }
    else if ch = '.' && st.saw then
      if st.octets == 4 then none
      else pton4Loop src { st with done := st.done ++ [st.cur], cur := 0, saw := false }
    else none

def pton4 (s : Str) : Option Nat :=
  match pton4Loop s {} with
  | none => none
  | some st =>
    if st.octets < 4 then none else
    match st.done ++ [st.cur] with
    | [a, b, c, d] => some (a * 2 ^ 24 + b * 2 ^ 16 + c * 2 ^ 8 + d)
    | _ => none

structure P6 where
  ws     : List Nat := []         -- 16-bit words written so far (`tp = tmp + 2*ws.length`)
  colonp : Option Nat := none     -- word index of the `::`
  seen   : Nat := 0               -- `xdigits_seen`
  val    : Nat := 0
  curtok : Str := []

/-- `inet_pton6` main loop; returns the state after the loop (or after the `break`). -/
def pton6Loop : Str → P6 → Option P6
  | [], st => some st
  | ch :: src, st =>
    match hexVal? ch with
    | some d =>
      if st.seen == 4 then none else
      let v := st.val * 16 + d
      if v > 0xffff then none else pton6Loop src { st with val := v, seen := st.seen + 1 }
    | none =>
      if ch = ':' then
        if st.seen == 0 then
          if st.colonp.isSome then none
          else pton6Loop src { st with curtok := src, colonp := some st.ws.length }
        else if src.isEmpty then none
        else if st.ws.length + 1 > 8 then none
        else pton6Loop src { st with ws := st.ws ++ [st.val], seen := 0, val := 0, curtok := src }
      else if ch = '.' && st.ws.length + 2 ≤ 8 then
        match pton4 st.curtok with
        | some a => some { st with ws := st.ws ++ [a / 65536, a % 65536], seen := 0 }
        | none => none
      else none

def wordsVal : List Nat → Nat
  | [] => 0
  | w :: rest => w * 2 ^ (16 * rest.length) + wordsVal rest

/-- the leading-colon check of `inet_pton6`: where the main loop starts -/
def pton6Start (s : Str) : Option Str :=
  match s with
  | ':' :: t => (match t with | ':' :: _ => some t | _ => none)
  | _ => some s

/-- what `inet_pton6` does after the loop: store a pending group, expand `::`, check the length -/
def pton6Finish (st : P6) : Option Nat :=
  let ws? : Option (List Nat) :=
    if st.seen > 0 then (if st.ws.length + 1 > 8 then none else some (st.ws ++ [st.val]))
    else some st.ws
  match ws? with
  | none => none
  | some ws =>
    let ws2? : Option (List Nat) :=
      match st.colonp with
      | some c =>
        if ws.length == 8 then none
        else some (ws.take c ++ List.replicate (8 - ws.length) 0 ++ ws.drop c)
      | none => some ws
    match ws2? with
    | none => none
    | some ws2 => if ws2.length == 8 then some (wordsVal ws2) else none

def pton6 (s : Str) : Option Nat :=
  match s with
  | [] => none
  | _ =>
    match pton6Start s with
    | none => none
    | some src =>
      match pton6Loop src { curtok := src } with
      | none => none
      | some st => pton6Finish st

/-! ### printing -/

def digitChar (d : Nat) : Char :=
  if d < 10 then Char.ofNat (48 + d) else Char.ofNat (87 + d)

def digitCharU (d : Nat) : Char :=
  if d < 10 then Char.ofNat (48 + d) else Char.ofNat (55 + d)

/-- `%d` / `%o` / `%x` / `%X` of a natural number, `dc` giving the digit characters.
`fuel` only makes the recursion structural (so that closed instances evaluate in the kernel);
`renderWith` supplies `n`, which is always enough (`Lemmas/ArgsNum.lean`: `renderWith_ge`). -/
def renderFuel (dc : Nat → Char) (b : Nat) : Nat → Nat → Str
  | 0, n => [dc n]
  | fuel + 1, n => if n < b ∨ b < 2 then [dc n] else renderFuel dc b fuel (n / b) ++ [dc (n % b)]

def renderWith (dc : Nat → Char) (b : Nat) (n : Nat) : Str := renderFuel dc b n n

def render (b : Nat) (n : Nat) : Str := renderWith digitChar b n

def renderU (b : Nat) (n : Nat) : Str := renderWith digitCharU b n

/-- `inet_ntoa` / `inet_ntop(AF_INET)`. -/
def ntoa (a : Nat) : Str :=
  render 10 (a / 2 ^ 24 % 256) ++ ['.'] ++ render 10 (a / 2 ^ 16 % 256) ++ ['.'] ++
  render 10 (a / 2 ^ 8 % 256) ++ ['.'] ++ render 10 (a % 256)

def wordsOf (a : Nat) : List Nat :=
  (List.range 8).map fun i => a / 2 ^ (16 * (7 - i)) % 65536

structure Run where
  base : Nat
  len  : Nat

/-- the `best`/`cur` scan of `inet_ntop6` (first longest run of zero words). -/
def bestRun (ws : List Nat) : Option Run :=
  let step := fun (st : Option Run × Option Run × Nat) (w : Nat) =>
    let (best, cur, i) := st
    if w == 0 then
      match cur with
      | none => (best, some ⟨i, 1⟩, i + 1)
      | some c => (best, some ⟨c.base, c.len + 1⟩, i + 1)
    else
      match cur with
      | none => (best, none, i + 1)
      | some c =>
        match best with
        | none => (some c, none, i + 1)
        | some b => (if c.len > b.len then some c else some b, none, i + 1)
  let (best, cur, _) := ws.foldl step (none, none, 0)
  let best :=
    match cur with
    | none => best
    | some c =>
      match best with
      | none => some c
      | some b => if c.len > b.len then some c else some b
  match best with
  | some b => if b.len < 2 then none else some b
  | none => none

def ntop6Loop (ws : List Nat) (a : Nat) (best : Option Run) : Nat → Nat → Str → Str
  | 0, _, acc => acc
  | fuel + 1, i, acc =>
    if i ≥ 8 then acc else
    let inBest := match best with
      | some b => i ≥ b.base && i < b.base + b.len
      | none => false
    if inBest then
      let acc := match best with
        | some b => if i == b.base then acc ++ [':'] else acc
        | none => acc
      ntop6Loop ws a best fuel (i + 1) acc
    else
      let acc := if i != 0 then acc ++ [':'] else acc
      let encaps := match best with
        | some b => i == 6 && b.base == 0 && (b.len == 6 || (b.len == 5 && ws.getD 5 0 == 0xffff))
        | none => false
      if encaps then acc ++ ntoa (a % 2 ^ 32)      -- `break`
      else ntop6Loop ws a best fuel (i + 1) (acc ++ render 16 (ws.getD i 0))

/-- `inet_ntop(AF_INET6, …)`. -/
def ntop6 (a : Nat) : Str :=
  let ws := wordsOf a
  let best := bestRun ws
  let body := ntop6Loop ws a best 8 0 []
  match best with
  | some b => if b.base + b.len == 8 then body ++ [':'] else body
  | none => body

/-! ### getaddrinfo on a numeric host -/

inductive Family
  | inet | inet6
deriving DecidableEq, Repr, Inhabited

inductive Numeric
  | v4 (a : Nat)
  | v6 (a : Nat)
  | star              -- host `*`: glibc treats it as a NULL name (both loop-back addresses)
  | scoped            -- contains `%`: zone handling is not modelled
  | notNumeric        -- goes to the resolver (oracle parameter of the caller)
deriving DecidableEq, Repr

/-- `getaddrinfo(name, …)` up to the point where a name lookup would start.
The C string ends at the first NUL (CPython passes `PyBytes_AS_STRING` unchecked). -/
def gaiNumeric (host : Str) : Numeric :=
  let name := host.takeWhile (· ≠ Char.ofNat 0)
  if name = ['*'] then .star else
  match atonExact name with
  | some a => .v4 a
  | none =>
    if name.contains '%' then
      -- `__inet_pton_length` on the part before the zone; the zone itself (interface name or
      -- number, checked against the machine's interfaces) is not modelled
      match pton6 (name.takeWhile (· ≠ '%')) with
      | some _ => .scoped
      | none => .notNumeric
    else
    match pton6 name with
    | some a => .v6 a
    | none => .notNumeric

/-- Numeric service given as the decimal text of a Python int `p` (`str(p)`):
`gaih_service.num = strtoul(…)` stored into an `int`; a negative `num` is looked up as a
service *name* (fails: `EAI_SERVICE`), otherwise `htons(num)`. -/
def gaiPort (p : Nat) : Option Nat :=
  let u := min p (2 ^ 64 - 1)
  let n := u % 2 ^ 32
  if n ≥ 2 ^ 31 then none else some (n % 65536)

end Sshuttle.Inet
