/-
Code model of the flow-identifier allocator `Mux.next_channel` (ssnet.py:361-368), of the
client-side registration/release sites of the three kinds of flows
(`client.py` onaccept_tcp / ondns / onaccept_udp / dns_done / expire_connections,
`ssnet.py` MuxWrapper.__init__ / maybe_close) and of `Mux.got_packet`'s dispatch by id.
Core Lean only.
-/
import SshuttleModel.Basic
import SshuttleModel.Generated

namespace Sshuttle.Alloc

/-- `for _ in range(probes): chani += 1; if chani > MAX: chani = 1;
     if not channels.get(chani): return chani` — returns the id (or `none`, Python's
implicit `None`) and the new cursor. `occ c` = "`channels.get(c)` is truthy". -/
def nextChannel (max : Nat) (occ : Nat → Bool) : Nat → Nat → Option Nat × Nat
  | 0, chani => (none, chani)
  | k + 1, chani =>
    let c := if chani + 1 > max then 1 else chani + 1
    if occ c then nextChannel max occ k c else (some c, c)

inductive Kind | tcp | dns | udp
deriving DecidableEq, Repr

/-- Client-side `mux.channels`: key → owner.  A key whose value is `None`
(MuxWrapper.maybe_close) and a deleted key are both "free" for `channels.get`. -/
structure Table where
  chani : Nat := 0
  live  : List (Nat × Kind × Nat) := []   -- (id, kind, flow number) of registered callbacks
  nextFlow : Nat := 0                      -- ghost: numbers flows in order of creation
deriving Repr

def Table.occ (t : Table) (c : Nat) : Bool := t.live.any (·.1 == c)

inductive Op
  | open (k : Kind)          -- a TCP accept / DNS datagram / UDP datagram from a new source
  | close (c : Nat)          -- maybe_close / dns_done / expiry of id c
  | frame (c : Nat)          -- a data-type frame arrives for id c
deriving Repr

inductive Out
  | opened (c : Nat) (flow : Nat)
  | discarded                      -- no id free: the arrival is dropped (socket closed / datagram ignored)
  | closed
  | delivered (k : Kind) (flow : Nat)   -- frame handed to that flow's callback
  | dropped                        -- 'warning: closed channel …': frame ignored
deriving Repr, DecidableEq

/-- One client-side table operation (`max` = MAX_CHANNEL, `probes` = 1024). -/
def Table.step (max probes : Nat) (t : Table) : Op → Table × Out
  | .open k =>
    match nextChannel max t.occ probes t.chani with
    | (none, ch) => ({ t with chani := ch }, .discarded)
    | (some c, ch) =>
      ({ chani := ch, live := t.live ++ [(c, k, t.nextFlow)], nextFlow := t.nextFlow + 1 },
       .opened c t.nextFlow)
  | .close c => ({ t with live := t.live.filter (·.1 != c) }, .closed)
  | .frame c =>
    match t.live.find? (·.1 == c) with
    | some (_, .dns, f) =>
      -- `dns_done` releases the id when the (first) reply arrives
      ({ t with live := t.live.filter (·.1 != c) }, .delivered .dns f)
    | some (_, k, f) => (t, .delivered k f)
    | none => (t, .dropped)

def Table.run (max probes : Nat) (t : Table) : List Op → Table × List Out
  | [] => (t, [])
  | op :: ops =>
    let (t1, o) := t.step max probes op
    let (t2, os) := Table.run max probes t1 ops
    (t2, o :: os)


/-! ## The client's association tables with their lazy expiry

`client.dnsreqs` (id → deadline) and `client.udp_by_src` (source → (id, deadline)); every accept
handler ends with `expire_connections(now, mux)` (client.py:479-499), which drops the entries whose
deadline lies strictly before `now` together with their `mux.channels` registration.  A datagram
from a source that already has an association refreshes its deadline *before* that sweep
(client.py:553-568). -/

structure Timed where
  t : Table := {}
  now : Nat := 0
  dl : List (Nat × Nat) := []      -- (id, deadline) of the DNS requests and UDP associations held
deriving Repr

/-- `expire_connections(now, mux)`. -/
def Timed.expire (s : Timed) (now : Nat) : Timed :=
  let gone := (s.dl.filter (fun e => decide (e.2 < now))).map (·.1)
  { s with dl := s.dl.filter (fun e => !decide (e.2 < now)),
           t := { s.t with live := s.t.live.filter (fun e => !gone.contains e.1) } }

inductive TOp
  | base (o : Op)          -- `close c` = maybe_close of a TCP flow, or the id's association forced out
  | tick (d : Nat)         -- the clock advances
  | again (c : Nat)        -- a datagram from the source whose UDP association has id c
deriving Repr

inductive TOut
  | base (o : Out)
  | ticked
  | sent (c : Nat)         -- UDP_DATA queued on id c
  | nosuch
deriving Repr, DecidableEq

/-- `now + 30` in `ondns` / `onaccept_udp` (the literals are read off the source on every run). -/
def timeout : Kind → Nat
  | .dns => Generated.CLIENT_DNS_TIMEOUT
  | _ => Generated.CLIENT_UDP_TIMEOUT

def Timed.step (max probes : Nat) (s : Timed) : TOp → Timed × TOut
  | .tick d => ({ s with now := s.now + d }, .ticked)
  | .base (.open k) =>
    match s.t.step max probes (.open k) with
    | (t1, .opened c f) =>
      let s1 : Timed := { s with t := t1, dl := if k = .tcp then s.dl else s.dl ++ [(c, s.now + timeout k)] }
      (s1.expire s.now, .base (.opened c f))
    | (t1, o) => ({ s with t := t1 }, .base o)         -- no id: the handler returns before the sweep
  | .base (.close c) =>
    ({ s with t := (s.t.step max probes (.close c)).1, dl := s.dl.filter (·.1 != c) }, .base .closed)
  | .base (.frame c) =>
    match s.t.step max probes (.frame c) with
    | (t1, .delivered .dns f) => ({ s with t := t1, dl := s.dl.filter (·.1 != c) }, .base (.delivered .dns f))
    | (t1, o) => ({ s with t := t1 }, .base o)
  | .again c =>
    match s.t.live.find? (·.1 == c) with
    | some (_, .udp, _) =>
      if s.dl.any (·.1 == c) then
        let s1 : Timed := { s with dl := s.dl.map fun e => if e.1 == c then (c, s.now + timeout .udp) else e }
        (s1.expire s.now, .sent c)
      else (s, .nosuch)
    | _ => (s, .nosuch)

def Timed.run (max probes : Nat) (s : Timed) : List TOp → Timed × List TOut
  | [] => (s, [])
  | op :: ops =>
    let (s1, o) := s.step max probes op
    let (s2, os) := Timed.run max probes s1 ops
    (s2, o :: os)

end Sshuttle.Alloc
