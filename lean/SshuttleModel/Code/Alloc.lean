/-
Code model of the flow-identifier allocator `Mux.next_channel` (ssnet.py:361-368), of the
client-side registration/release sites of the three kinds of flows
(`client.py` onaccept_tcp / ondns / onaccept_udp / dns_done / expire_connections,
`ssnet.py` MuxWrapper.__init__ / maybe_close) and of `Mux.got_packet`'s dispatch by id.
Core Lean only.
-/
import SshuttleModel.Basic
import SshuttleModel.Generated

namespace Sshuttle.Alloc

/-- `for _ in range(probes): chani += 1; if chani > MAX: chani = 1;
     if not channels.get(chani): return chani` — returns the id (or `none`, Python's
implicit `None`) and the new cursor. `occ c` = "`channels.get(c)` is truthy". -/
def nextChannel (max : Nat) (occ : Nat → Bool) : Nat → Nat → Option Nat × Nat
  | 0, chani => (none, chani)
  | k + 1, chani =>
    let c := if chani + 1 > max then 1 else chani + 1
    if occ c then nextChannel max occ k c else (some c, c)

inductive Kind | tcp | dns | udp
deriving DecidableEq, Repr

/-- Client-side `mux.channels`: key → owner.  A key whose value is `None`
(MuxWrapper.maybe_close) and a deleted key are both "free" for `channels.get`. -/
structure Table where
  chani : Nat := 0
  live  : List (Nat × Kind × Nat) := []   -- (id, kind, flow number) of registered callbacks
  nextFlow : Nat := 0                      -- ghost: numbers flows in order of creation
deriving Repr

def Table.occ (t : Table) (c : Nat) : Bool := t.live.any (·.1 == c)

inductive Op
  | open (k : Kind)          -- a TCP accept / DNS datagram / UDP datagram from a new source
  | close (c : Nat)          -- maybe_close / dns_done / expiry of id c
  | frame (c : Nat)          -- a data-type frame arrives for id c
deriving Repr

inductive Out
  | opened (c : Nat) (flow : Nat)
  | discarded                      -- no id free: the arrival is dropped (socket closed / datagram ignored)
  | closed
  | delivered (k : Kind) (flow : Nat)   -- frame handed to that flow's callback
  | dropped                        -- 'warning: closed channel …': frame ignored
deriving Repr, DecidableEq

/-- One client-side table operation (`max` = MAX_CHANNEL, `probes` = 1024). -/
def Table.step (max probes : Nat) (t : Table) : Op → Table × Out
  | .open k =>
    match nextChannel max t.occ probes t.chani with
    | (none, ch) => ({ t with chani := ch }, .discarded)
    | (some c, ch) =>
      ({ chani := ch, live := t.live ++ [(c, k, t.nextFlow)], nextFlow := t.nextFlow + 1 },
       .opened c t.nextFlow)
  | .close c => ({ t with live := t.live.filter (·.1 != c) }, .closed)
  | .frame c =>
    match t.live.find? (·.1 == c) with
    | some (_, .dns, f) =>
      -- `dns_done` releases the id when the (first) reply arrives
      ({ t with live := t.live.filter (·.1 != c) }, .delivered .dns f)
    | some (_, k, f) => (t, .delivered k f)
    | none => (t, .dropped)

def Table.run (max probes : Nat) (t : Table) : List Op → Table × List Out
  | [] => (t, [])
  | op :: ops =>
    let (t1, o) := t.step max probes op
    let (t2, os) := Table.run max probes t1 ops
    (t2, o :: os)

end Sshuttle.Alloc
