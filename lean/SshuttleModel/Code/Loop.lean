/-
One pass of the select loop, `ssnet.runonce` (ssnet.py:591-616), at one end of the tunnel — the
scheduler itself, on top of the steps of `Code/Tunnel.lean`:

    to_remove = [s for s in handlers if not s.ok]; for h in to_remove: handlers.remove(h)
    for s in handlers: s.pre_select(r, w, x)
    (r, w, x) = select.select(r, w, x)
    ready = r + w + x
    for h in handlers:
        for s in h.socks:
            if s in ready: h.callback(s)

`Mux` is the first handler of both ends (client.py / server.py append it before any Proxy): its
callback handles the `k` frames that have arrived.  A `Proxy`'s `socks` are
`[wrap1.rsock, wrap1.wsock, wrap2.rsock, wrap2.wsock]` = its own socket twice, the tunnel's read
file and the tunnel's write file: it gets one callback for each of those that `select` returned.
`select` returns what was asked for (`ProxyS.wants`, `Mux.pre_select`) and is ready (`Sel`: any
answer of the operating system; `truthfulSel`: the environment as it is — an endpoint socket is
readable iff bytes or a close are pending, always writable; the tunnel's write file always
writable).  The tunnel's read file is readable iff frames have arrived; its write file is asked for
while the Mux queue is non-empty or some Proxy has bytes for the tunnel.
Core Lean only.
-/
import SshuttleModel.Code.Tunnel

namespace Sshuttle.Tunnel
open Sshuttle.Mux (Frame)
open Sshuttle.Wrap

def World.muxAt (w : World) : End → MuxL
  | .client => w.cm
  | .server => w.sm

/-- The frames on their way to end `e`. -/
def World.inQueue (w : World) : End → List Frame
  | .client => w.sm.out
  | .server => w.cm.out

def envAt (e : End) (f : Flow) : ESock :=
  match e with | .client => f.app | .server => f.dst

/-- What the operating system's `select` would report, were everything asked for: per flow whether
the endpoint socket is readable / writable, and whether the tunnel's write file is writable.  (The
tunnel's read file is readable iff frames have arrived: `0 < k`.) -/
structure Sel where
  sockR : Nat → Bool
  sockW : Nat → Bool
  muxW  : Bool

/-- The environment as it is: an endpoint socket is readable iff bytes or a close are pending,
always writable; the tunnel's write file is always writable. -/
def World.truthfulSel (w : World) (e : End) : Sel :=
  { sockR := fun i => match w.flows[i]? with
      | some f => !(envAt e f).pending.isEmpty || (envAt e f).eofIn
      | none => false,
    sockW := fun _ => true, muxW := true }

/-- `select` returns the handler's own socket: asked for reading and readable, or asked for
writing and writable. -/
def sockReady (m : MuxL) (p : ProxyS) (r wr : Bool) : Bool :=
  ((p.wants m).1 && r) || ((p.wants m).2.1 && wr)

/-- Somebody asked for the tunnel's write file: `Mux.pre_select` (queue non-empty) or a Proxy
with bytes for the tunnel. -/
def muxWAsked (w : World) (e : End) : Bool :=
  !(w.muxAt e).out.isEmpty ||
  w.flows.any fun f => match handlerAt e f with
    | some p => (p.wants (w.muxAt e)).2.2
    | none => false

/-- How many callbacks the handler of flow `i` gets in this pass: one per entry of its `socks`
(own socket twice, tunnel read file, tunnel write file) that `select` returned.  A handler that
does not exist yet when `select` returns but is appended to the list during the pass (the server's
`new_channel`, for a CONNECT frame among the `k` arrived) is reached by the same `for h in handlers`
and gets the callbacks for the tunnel's two files — its own socket was not in what `select` was
asked about.  (For a flow that never gets a handler those steps change nothing.) -/
def cbCount (w : World) (e : End) (k : Nat) (sel : Sel) (i : Nat) (f : Flow) : Nat :=
  (match handlerAt e f with
   | none => 0
   | some p => if sockReady (w.muxAt e) p (sel.sockR i) (sel.sockW i) then 2 else 0) +
  (if 0 < k then 1 else 0) + (if muxWAsked w e && sel.muxW then 1 else 0)

/-- Before `select`: drop finished handlers, every `pre_select` in handler order. -/
def roundHead (e : End) (n : Nat) : List Step :=
  .removeDead e :: (List.range n).map (Step.pre e)

/-- After `select` (decided on the state `w` the `pre_select`s left): the Mux's callback handles
the `k` arrived frames, then every handler's callbacks in list order; the socket of flow `i`
answers per `ios i`, a `connect()` made while handling a CONNECT ends as `conn`. -/
def roundTail (w : World) (e : End) (k : Nat) (conn : ConnRes) (sel : Sel) (ios : Nat → CbIo) :
    List Step :=
  List.replicate k (.deliver e conn) ++
  ((List.range w.flows.length).zip w.flows).flatMap fun (i, f) =>
    List.replicate (cbCount w e k sel i f) (.cb e i (ios i))

/-- One `runonce` at end `e` in which `k` frames have arrived (a `connect()` made for a CONNECT
among them ends as `conn`), the operating system reports `sel` and the sockets answer per `ios`. -/
def World.round (w : World) (e : End) (k : Nat) (conn : ConnRes) (sel : Sel) (ios : Nat → CbIo) : World :=
  (w.run (roundHead e w.flows.length)).run
    (roundTail (w.run (roundHead e w.flows.length)) e k conn sel ios)

/-- The pass in the environment as it is. -/
def World.roundAuto (w : World) (e : End) (k : Nat) (io : CbIo) : World :=
  w.round e k io.conn (w.truthfulSel e) (fun _ => io)

end Sshuttle.Tunnel
