/-
Code model for C05: how the client recovers the destination an application dialled and how
that destination travels to the server.

  * `sshuttle/methods/__init__.py:10-31`  `original_dst`
  * `sshuttle/methods/tproxy.py:20-50`    `recv_udp` (cmsg decoding), `Method.recv_udp`
  * `sshuttle/methods/ipfw.py:15-26`      `recv_udp`
  * `sshuttle/methods/pf.py:424-448`      `Method.get_tcp_dstip` (request line, reply parse)
  * `sshuttle/methods/pf.py:78-111,486-497` `firewall_command`, `query_nat` marshalling
  * `sshuttle/client.py:515-528`          `onaccept_tcp` (self-address guard, CONNECT payload)
  * `sshuttle/client.py:557-558`          `onaccept_udp` (UDP header)
  * `sshuttle/server.py:354-365,379-387`  `new_channel`, `udp_req`

and of the CPython / libc pieces they call: `'%d'`, `'%x'`, `int()`, `split`, `str(IPv4Address)`,
`str(IPv6Address)` (CPython 3.12 `_compress_hextets`), `socket.inet_ntop` (glibc), `socket.htons`.

Text is ASCII text held as a list of byte values.  Each definition mirrors the Python statement
by statement; a Python exception is an explicit constructor.  Core Lean only.
-/
import SshuttleModel.Basic
import SshuttleModel.Gen.C05

namespace Sshuttle.Dst

abbrev Text := Bytes

open Sshuttle.Gen

/-! ## Library: numbers as text -/

/-- Digits of `n` in base `b`, most significant first, with `dig` giving the character of a
digit.  `fuel` bounds the recursion; `radix` supplies `n`, which is always enough. -/
def radixAux (b : Nat) (dig : Nat → Nat) : Nat → Nat → Text
  | 0, n => [dig (n % b)]
  | f + 1, n => if n < b then [dig n] else radixAux b dig f (n / b) ++ [dig (n % b)]

def decDig (d : Nat) : Nat := 48 + d
def hexDig (d : Nat) : Nat := if d < 10 then 48 + d else 87 + d

/-- `b'%d' % n`, `str(n)` for `n ≥ 0`. -/
def decNat (n : Nat) : Text := radixAux 10 decDig n n
/-- `'%x' % n`. -/
def hexNat (n : Nat) : Text := radixAux 16 hexDig n n

/-- `b'%d' % i` for any Python int. -/
def fmtD : Int → Text
  | .ofNat n => decNat n
  | .negSucc n => 45 :: decNat (n + 1)

def isSpace (c : Nat) : Bool := c == 32 || (9 ≤ c && c ≤ 13)
def isDigit (c : Nat) : Bool := 48 ≤ c && c ≤ 57

def stripL (t : Text) : Text := t.dropWhile isSpace
/-- `bytes.strip()` / what `int()` ignores at both ends. -/
def strip (t : Text) : Text := (stripL (stripL t).reverse).reverse

/-- The digit part of an `int()` literal after the first digit: digits, single underscores
only between digits. -/
def intBody : Nat → Bool → Text → Option Nat
  | acc, us, [] => if us then none else some acc
  | acc, us, c :: r =>
    if isDigit c then intBody (acc * 10 + (c - 48)) false r
    else if c = 95 ∧ us = false then intBody acc true r
    else none

def pyIntNat : Text → Option Nat
  | [] => none
  | c :: r => if isDigit c then intBody (c - 48) false r else none

/-- `int(text)` (base 10) on ASCII `str` or `bytes`; `none` is `ValueError`.
(CPython's 4300-digit limit is not modelled.) -/
def pyInt (t : Text) : Option Int :=
  match strip t with
  | 43 :: r => (pyIntNat r).map Int.ofNat
  | 45 :: r => (pyIntNat r).map fun n => - (Int.ofNat n)
  | r => (pyIntNat r).map Int.ofNat

/-! ## Library: `split` -/

/-- Cut at the first `sep`. -/
def breakAt (sep : Nat) : Text → Option (Text × Text)
  | [] => none
  | c :: r => if c = sep then some ([], r) else (breakAt sep r).map fun p => (c :: p.1, p.2)

/-- `t.split(sep, k)`. -/
def splitMax (sep : Nat) : Nat → Text → List Text
  | 0, t => [t]
  | k + 1, t =>
    match breakAt sep t with
    | none => [t]
    | some (a, b) => a :: splitMax sep k b

/-- `t.split(sep)`. -/
def splitAll (sep : Nat) (t : Text) : List Text := splitMax sep t.length t

def joinSep (sep : Nat) : List Text → Text
  | [] => []
  | [t] => t
  | t :: ts => t ++ sep :: joinSep sep ts

def isAscii (t : Text) : Bool := t.all (· < 128)

/-! ## Library: printing addresses -/

/-- `str(ipaddress.IPv4Address(bytes([a,b,c,d])))`, `inet_ntop(AF_INET, …)`. -/
def strV4 (a b c d : Nat) : Text :=
  decNat a ++ 46 :: (decNat b ++ 46 :: (decNat c ++ 46 :: decNat d))

/-- The eight 16-bit groups of a packed IPv6 address (`int.from_bytes(…, 'big')` cut into
hextets; `words[i] = src[2i] << 8 | src[2i+1]` in libc). -/
def hextets : Bytes → List Nat
  | hi :: lo :: r => (hi * 256 + lo) :: hextets r
  | _ => []

/-- State of the scanning loop of `_compress_hextets` (`-1` is `none`). -/
structure Scan where
  bestStart : Option Nat := none
  bestLen   : Nat := 0
  curStart  : Option Nat := none
  curLen    : Nat := 0
deriving Repr, DecidableEq

def scanStep (s : Scan) (idx : Nat) (isZero : Bool) : Scan :=
  if isZero then
    let curLen := s.curLen + 1
    let curStart := match s.curStart with
      | none => some idx
      | some x => some x
    if curLen > s.bestLen then ⟨curStart, curLen, curStart, curLen⟩
    else { s with curStart := curStart, curLen := curLen }
  else { s with curStart := none, curLen := 0 }

def scanFrom : Nat → Scan → List Bool → Scan
  | _, s, [] => s
  | idx, s, z :: zs => scanFrom (idx + 1) (scanStep s idx z) zs

/-- First longest run of zero groups, if longer than one: `(start, length)`. -/
def bestRun (zs : List Bool) : Option (Nat × Nat) :=
  let s := scanFrom 0 {} zs
  match s.bestStart with
  | some st => if s.bestLen > 1 then some (st, s.bestLen) else none
  | none => none

def hexJoin (gs : List Nat) : Text := joinSep 58 (gs.map hexNat)

/-- `str(ipaddress.IPv6Address(raw))` on the groups of `raw` (CPython 3.12: never dotted). -/
def strV6 (gs : List Nat) : Text :=
  match bestRun (gs.map (· == 0)) with
  | none => hexJoin gs
  | some (s, l) => hexJoin (gs.take s) ++ 58 :: 58 :: hexJoin (gs.drop (s + l))

/-- libc `inet_ntop(AF_INET6, …)`: as above, but an address whose first 96 bits are zero
(and is not `::`/`::1`-like) or `::ffff:0:0/96` ends in a dotted quad. -/
def ntopV6 (gs : List Nat) : Text :=
  match gs, bestRun (gs.map (· == 0)) with
  | [_, _, _, _, _, g5, g6, g7], some (0, l) =>
    if l = 6 then
      58 :: 58 :: strV4 (g6 / 256) (g6 % 256) (g7 / 256) (g7 % 256)
    else if l = 5 ∧ g5 = 65535 then
      58 :: 58 :: (hexNat g5 ++ 58 :: strV4 (g6 / 256) (g6 % 256) (g7 / 256) (g7 % 256))
    else strV6 gs
  | _, _ => strV6 gs

inductive NtopRes
  | ok (ip : Text)
  | valueError            -- wrong packed length / unknown family
deriving Repr, DecidableEq

/-- `socket.inet_ntop(family, packed)`. -/
def inetNtop (family : Nat) (packed : Bytes) : NtopRes :=
  if family = C05.AF_INET then
    match packed with
    | [a, b, c, d] => .ok (strV4 a b c d)
    | _ => .valueError
  else if family = C05.AF_INET6 then
    if packed.length = 16 then .ok (ntopV6 (hextets packed)) else .valueError
  else .valueError

/-! ## `original_dst` (methods/__init__.py:10-31) -/

/-- What `sock.getsockopt(level, SO_ORIGINAL_DST, n)` did. -/
inductive SockoptRes
  | bytes (b : Bytes)
  | error (errno : Nat)
deriving Repr

inductive DstRes
  | ok (ip : Text) (port : Nat)
  | sockname              -- `return sock.getsockname()`
  | raised (errno : Nat)  -- the `socket.error` is re-raised
  | structError           -- `struct.unpack_from` on too short a buffer
  | fatal                 -- `Fatal("fw: Unknown family type.")`
deriving Repr, DecidableEq

def originalDst (family : Nat) (r : SockoptRes) : DstRes :=
  if family = C05.AF_INET then
    match r with
    | .error e => if e = C05.ENOPROTOOPT then .sockname else .raised e
    | .bytes sa =>
      -- struct.unpack_from('!2xH4s', sockaddr_in[:8])
      match sa.take 8 with
      | [_, _, p1, p0, a, b, c, d] => .ok (strV4 a b c d) (unbe16 p1 p0)
      | _ => .structError
  else if family = C05.AF_INET6 then
    match r with
    | .error e => if e = C05.ENOPROTOOPT then .sockname else .raised e
    | .bytes sa =>
      -- struct.unpack_from("!2xH4x16s", sockaddr_in): needs 24 bytes
      if sa.length < 24 then .structError else
      match sa with
      | _ :: _ :: p1 :: p0 :: _ => .ok (strV6 (hextets ((sa.drop 8).take 16))) (unbe16 p1 p0)
      | _ => .structError
  else .fatal

/-! ## tproxy / ipfw `recv_udp` -/

structure Cmsg where
  level : Nat
  type  : Nat
  data  : Bytes
deriving Repr

inductive UdpDst
  | none_                         -- `dstip = None` (→ `Method.recv_udp` returns `None`)
  | ok (ip : Text) (port : Nat)
  | structError                   -- `struct.unpack('=HH', …)` on fewer than 4 bytes
  | fatal                         -- `Fatal("Unsupported socket type")`
  | valueError                    -- `inet_ntop` on a short address
deriving Repr, DecidableEq

/-- `struct.unpack('=H', bytes([b0, b1]))` on a little- or big-endian host. -/
def rd16 (le : Bool) (b0 b1 : Nat) : Nat := if le then b1 * 256 + b0 else b0 * 256 + b1

/-- `socket.htons(x)` for `x < 65536`. -/
def htons (le : Bool) (x : Nat) : Nat := if le then (x % 256) * 256 + x / 256 else x

def tproxyOne (le : Bool) (wantFam start length : Nat) (data : Bytes) : UdpDst :=
  match data.take 4 with
  | [f0, f1, p0, p1] =>
    let family := rd16 le f0 f1
    let port := htons le (rd16 le p0 p1)
    if family = wantFam then
      match inetNtop family ((data.drop start).take length) with
      | .ok ip => .ok ip port
      | .valueError => .valueError
    else .fatal
  | _ => .structError

/-- `tproxy.recv_udp` on the ancillary data list (first matching item wins). -/
def tproxyRecvUdp (le : Bool) : List Cmsg → UdpDst
  | [] => .none_
  | c :: rest =>
    if c.level = C05.SOL_IP ∧ c.type = C05.TPROXY_IP_ORIGDSTADDR then
      tproxyOne le C05.AF_INET C05.TPROXY_V4_START C05.TPROXY_V4_LENGTH c.data
    else if c.level = C05.TPROXY_SOL_IPV6 ∧ c.type = C05.TPROXY_IPV6_ORIGDSTADDR then
      tproxyOne le C05.AF_INET6 C05.TPROXY_V6_START C05.TPROXY_V6_LENGTH c.data
    else tproxyRecvUdp le rest

/-- `ipfw.recv_udp`: the port is the constant 53 (used for DNS only). -/
def ipfwRecvUdp : List Cmsg → UdpDst
  | [] => .none_
  | c :: rest =>
    if c.level = C05.SOL_IP ∧ c.type = C05.IPFW_IP_RECVDSTADDR then
      match inetNtop C05.AF_INET (c.data.take 4) with
      | .ok ip => .ok ip C05.IPFW_PORT
      | .valueError => .valueError
    else ipfwRecvUdp rest

/-! ## Client: CONNECT payload, self-address guard, UDP header -/

/-- `b'%d,%s,%d' % (sock.family, dstip[0].encode("ASCII"), dstip[1])`. -/
def encodeConnect (family : Nat) (ip : Text) (port : Int) : Bytes :=
  decNat family ++ 44 :: (ip ++ 44 :: fmtD port)

/-- `b"%s,%d," % (dstip[0].encode("ASCII"), dstip[1])` then `hdr + data`. -/
def encodeUdp (ip : Text) (port : Int) (data : Bytes) : Bytes :=
  ip ++ 44 :: (fmtD port ++ 44 :: data)

/-- What `islocal(ip, family)` did (it binds a socket: environment). -/
inductive IsLocal
  | yes | no | raised
deriving Repr, DecidableEq

inductive Ev
  | close                                   -- `sock.close()`
  | connect (chan : Nat) (payload : Bytes)  -- `mux.send(chan, CMD_TCP_CONNECT, payload)`
  | raised                                  -- exception leaves `onaccept_tcp`
deriving Repr, DecidableEq

/-- `onaccept_tcp` from `dstip = method.get_tcp_dstip(sock)` on (client.py:515-528).
`sockPort = sock.getsockname()[1]`; `isl` is consulted only when the ports are equal
(`and` short-circuits); `chan = mux.next_channel()`. -/
def onacceptTcp (family : Nat) (ip : Text) (port : Int) (sockPort : Int) (isl : IsLocal)
    (chan : Option Nat) : List Ev :=
  let guard : Option Bool :=
    if port = sockPort then
      match isl with
      | .yes => some true
      | .no => some false
      | .raised => none
    else some false
  match guard with
  | none => [.raised]
  | some true => [.close]
  | some false =>
    match chan with
    | none => [.close]
    | some 0 => [.close]
    | some c =>
      if isAscii ip then [.connect c (encodeConnect family ip port)]
      else [.raised]                        -- UnicodeEncodeError

/-! ## Client: `onaccept_udp` with its per-source association table -/

inductive UdpEv
  | open_ (chan : Nat) (payload : Bytes)   -- `mux.send(chan, CMD_UDP_OPEN, b"%d" % listener.family)`
  | data (chan : Nat) (payload : Bytes)    -- `mux.send(chan, CMD_UDP_DATA, hdr + data)`
  | close (chan : Nat)                     -- `mux.send(chan, CMD_UDP_CLOSE, b'')` (expiry)
  | raised                                 -- UnicodeEncodeError
deriving Repr, DecidableEq

/-- One entry of `udp_by_src`: source key ↦ `(chan, timeout)`. -/
structure UdpEntry where
  src : Nat
  chan : Nat
  deadline : Nat
deriving Repr, DecidableEq

/-- `udp_by_src` in insertion order (a Python dict). -/
abbrev UdpTable := List UdpEntry

def UdpTable.find (t : UdpTable) (src : Nat) : Option Nat :=
  match t with
  | [] => none
  | e :: r => if e.src = src then some e.chan else UdpTable.find r src

/-- `udp_by_src[src] = chan, deadline`: an existing key keeps its place, a new one goes last. -/
def UdpTable.set (t : UdpTable) (src chan deadline : Nat) : UdpTable :=
  match t with
  | [] => [⟨src, chan, deadline⟩]
  | e :: r => if e.src = src then ⟨src, chan, deadline⟩ :: r else e :: UdpTable.set r src chan deadline

/-- The UDP half of `expire_connections(now, mux)`: every entry with `timeout < now` gets a
`UDP_CLOSE` and is removed. -/
def expireUdp (now : Nat) (t : UdpTable) : UdpTable × List UdpEv :=
  (t.filter fun e => !(decide (e.deadline < now)),
   (t.filter fun e => decide (e.deadline < now)).map fun e => .close e.chan)

/-- `onaccept_udp` after `method.recv_udp` returned `(srcip, dstip, data)` (client.py:551-568,
with the no-free-id return of fix 7d459d6).  `src` identifies the source `(ip, port)` tuple;
`fresh = mux.next_channel()` is consulted only for an unknown source; `now = time.time()`.
The header is built from *this* datagram's destination; the association is refreshed to
`now + 30` before the expiry sweep, so the sweep never closes the association just used. -/
def onacceptUdp (tbl : UdpTable) (family : Nat) (src : Nat) (ip : Text) (port : Int) (data : Bytes)
    (fresh : Option Nat) (now : Nat) : UdpTable × List UdpEv :=
  let go (chan : Nat) (pre : List UdpEv) : UdpTable × List UdpEv :=
    let tbl1 := tbl.set src chan (now + C05.UDP_TIMEOUT)
    if isAscii ip then
      let r := expireUdp now tbl1
      (r.1, pre ++ .data chan (encodeUdp ip port data) :: r.2)
    else (tbl1, pre ++ [.raised])
  match tbl.find src with
  | some chan => go chan []
  | none =>
    match fresh with
    | none => (tbl, [])
    | some 0 => (tbl, [])
    | some chan => go chan [.open_ chan (decNat family)]

/-! ## Server: `new_channel`, `udp_req` -/

inductive ConnRes
  | ok (family : Nat) (ip : Text) (port : Int)   -- arguments of `ssnet.connect_dst`
  | unicodeError
  | valueError
deriving Repr, DecidableEq

/-- `new_channel(channel, data)` (server.py:354-365). -/
def newChannel (data : Bytes) : ConnRes :=
  if isAscii data then
    match splitMax 44 2 data with
    | [f, ip, p] =>
      match pyInt f with
      | none => .valueError
      | some fam =>
        let family := if fam ≠ Int.ofNat C05.AF_INET then C05.AF_INET6 else C05.AF_INET
        match pyInt p with
        | none => .valueError
        | some port => .ok family ip port
    | _ => .valueError
  else .unicodeError

inductive UdpReqRes
  | ok (ip : Text) (port : Int) (payload : Bytes)  -- `h.send((dstip, dstport), data)`
  | valueError
deriving Repr, DecidableEq

/-- `udp_req(channel, CMD_UDP_DATA, data)` (server.py:382-387). -/
def udpReq (data : Bytes) : UdpReqRes :=
  match splitMax 44 2 data with
  | [ip, p, payload] =>
    match pyInt p with
    | none => .valueError
    | some port => .ok ip port payload
  | _ => .valueError

/-! ## pf: the QUERY_PF_NAT dialogue -/

def pfReqPrefix : Text := bytesOfStr C05.PF_CMD_PREFIX
def pfOkPrefix : Text := bytesOfStr C05.PF_RESP_PREFIX

/-- `b"QUERY_PF_NAT %d,%d,%s,%d,%s,%d\n" % argv` (pf.py:436-439). -/
def pfRequest (family : Nat) (peerIp : Text) (peerPort : Int) (proxyIp : Text) (proxyPort : Int) : Bytes :=
  pfReqPrefix ++ (decNat family ++ 44 :: (decNat C05.IPPROTO_TCP ++ 44 :: (peerIp ++ 44 ::
    (fmtD peerPort ++ 44 :: (proxyIp ++ 44 :: (fmtD proxyPort ++ [10]))))))

inductive PfDst
  | ok (ip : Text) (port : Int)
  | sockname
  | valueError
  | unicodeError
deriving Repr, DecidableEq

def isPrefix : Text → Text → Bool
  | [], _ => true
  | _ :: _, [] => false
  | a :: as, b :: bs => a == b && isPrefix as bs

/-- Parse of the helper's answer line (pf.py:444-448). -/
def pfParseReply (line : Bytes) : PfDst :=
  if isPrefix pfOkPrefix line then
    match splitAll 44 (line.drop C05.PF_RESP_SKIP) with
    | [ip, port] =>
      if isAscii ip then
        match pyInt port with
        | some p => .ok ip p
        | none => .valueError
      else .unicodeError
    | _ => .valueError
  else .sockname

/-- What `sock.getpeername()` did. -/
inductive PeerRes
  | ok (ip : Text) (port : Int)
  | einval
  | otherError
deriving Repr

inductive PfClientRes
  | sockname                      -- `return sock.getsockname()` without asking
  | ask (line : Bytes)            -- request written to the helper
  | unbound                       -- `UnboundLocalError: peer` (error other than EINVAL swallowed)
  | unicodeError
deriving Repr, DecidableEq

def pfGetTcpDstip (family : Nat) (peer : PeerRes) (proxyIp : Text) (proxyPort : Int) : PfClientRes :=
  match peer with
  | .einval => .sockname
  | .otherError => .unbound
  | .ok ip port =>
    if isAscii ip ∧ isAscii proxyIp then .ask (pfRequest family ip port proxyIp proxyPort)
    else .unicodeError

/-- Field offsets of `pfioc_natlook` for one platform (ctypes layout). -/
structure PfLayout where
  saddr : Nat
  daddr : Nat
  rdaddr : Nat
  sxport : Nat
  dxport : Nat
  rdxport : Nat
  af : Nat
  proto : Nat
  direction : Nat
  size : Nat
deriving Repr, DecidableEq

def PfLayout.ofList : List Nat → Option PfLayout
  | [a, b, c, d, e, f, g, h, i, j] => some ⟨a, b, c, d, e, f, g, h, i, j⟩
  | _ => none

/-- `memmove(addressof(field), v, len(v))` on the raw structure. -/
def poke (buf : Bytes) (off : Nat) (v : Bytes) : Bytes :=
  buf.take off ++ v ++ buf.drop (off + v.length)

def peek (buf : Bytes) (off n : Nat) : Bytes := (buf.drop off).take n

/-- Strict dotted quad (`inet_pton(AF_INET, …)`): four parts, each 1–3 digits without a
leading zero, value ≤ 255. -/
def digitsVal (t : Text) : Nat := t.foldl (fun acc c => acc * 10 + (c - 48)) 0

def parseOctet (t : Text) : Option Nat :=
  if t.isEmpty || !(t.all isDigit) || (t.length > 1 && t.head? == some 48) || t.length > 3 then none
  else if digitsVal t > 255 then none else some (digitsVal t)

def parseV4 (t : Text) : Option (Nat × Nat × Nat × Nat) :=
  match splitAll 46 t with
  | [a, b, c, d] =>
    match parseOctet a, parseOctet b, parseOctet c, parseOctet d with
    | some a, some b, some c, some d => some (a, b, c, d)
    | _, _, _, _ => none
  | _ => none

def hexVal? (c : Nat) : Option Nat :=
  if 48 ≤ c ∧ c ≤ 57 then some (c - 48)
  else if 97 ≤ c ∧ c ≤ 102 then some (c - 87)
  else if 65 ≤ c ∧ c ≤ 70 then some (c - 55)
  else none

def hexFold : Nat → Text → Option Nat
  | acc, [] => some acc
  | acc, c :: r =>
    match hexVal? c with
    | some v => hexFold (acc * 16 + v) r
    | none => none

/-- One group of an IPv6 literal: 1–4 hex digits. -/
def parseHexGroup (t : Text) : Option Nat :=
  if t.isEmpty || t.length > 4 then none else hexFold 0 t

/-- Groups of one side of `::`; the very last token may be a dotted quad when `allowV4`. -/
def parseGroups (allowV4 : Bool) : List Text → Option (List Nat)
  | [] => some []
  | [t] =>
    if allowV4 && t.contains 46 then
      match parseV4 t with
      | some (a, b, c, d) => some [a * 256 + b, c * 256 + d]
      | none => none
    else (parseHexGroup t).map fun g => [g]
  | t :: ts =>
    match parseHexGroup t, parseGroups allowV4 ts with
    | some g, some r => some (g :: r)
    | _, _ => none

def parseSide (allowV4 : Bool) (t : Text) : Option (List Nat) :=
  if t.isEmpty then some [] else parseGroups allowV4 (splitAll 58 t)

/-- Cut at the first `::`. -/
def findDC : Text → Option (Text × Text)
  | [] => none
  | [_] => none
  | a :: b :: r =>
    if a = 58 ∧ b = 58 then some ([], r)
    else (findDC (b :: r)).map fun p => (a :: p.1, p.2)

/-- `inet_pton(AF_INET6, …)`: eight groups, `::` standing for one or more zero groups. -/
def parseV6 (t : Text) : Option (List Nat) :=
  match findDC t with
  | none =>
    match parseSide true t with
    | some gs => if gs.length = 8 then some gs else none
    | none => none
  | some (l, r) =>
    match parseSide false l, parseSide true r with
    | some pre, some post =>
      if pre.length + post.length ≤ 7 then
        some (pre ++ List.replicate (8 - (pre.length + post.length)) 0 ++ post)
      else none
    | _, _ => none

/-- Packed form of the groups. -/
def packGroups (gs : List Nat) : Bytes := gs.flatMap fun g => [g / 256, g % 256]

/-- `socket.inet_pton(family, text)`; `none` is `OSError`. -/
def inetPton (family : Nat) (t : Text) : Option Bytes :=
  if family = C05.AF_INET then (parseV4 t).map fun (a, b, c, d) => [a, b, c, d]
  else if family = C05.AF_INET6 then (parseV6 t).map packGroups
  else none

/-- What the (modelled) kernel answers to DIOCNATLOOK. -/
inductive NatlookRes
  | found (rdaddr : Bytes) (rdport : Nat)   -- fills `rdaddr` (16 bytes) and `rdxport`
  | ioError
deriving Repr

/-- The lookup key the kernel reads from the structure. -/
structure NatKey where
  af : Nat
  proto : Nat
  direction : Nat
  saddr : Bytes
  daddr : Bytes
  sport : Nat
  dport : Nat
deriving Repr, DecidableEq

/-- Reading the key at the layout's offsets: addresses are `length` bytes, ports two bytes in
network order, `af`/`proto`/`direction` one byte. -/
def readKey (L : PfLayout) (buf : Bytes) (length : Nat) : NatKey :=
  { af := (peek buf L.af 1).headD 0, proto := (peek buf L.proto 1).headD 0,
    direction := (peek buf L.direction 1).headD 0,
    saddr := peek buf L.saddr length, daddr := peek buf L.daddr length,
    sport := match peek buf L.sxport 2 with | [a, b] => a * 256 + b | _ => 0,
    dport := match peek buf L.dxport 2 with | [a, b] => a * 256 + b | _ => 0 }

inductive PfCmdRes
  | notMine                           -- `firewall_command` returns False
  | reply (line : Bytes) (ioctlBuf : Option Bytes)  -- the line written to stdout; the
                                      -- structure handed to the ioctl, if it got that far
  | typeError                         -- wrong number of fields for `query_nat`
  | valueError                        -- `int()` failed
  | overflow                          -- `htons` of a port > 65535
deriving Repr, DecidableEq

/-- `query_nat`'s marshalling (pf.py:78-103) up to the ioctl. -/
def pfMarshal (L : PfLayout) (family proto : Nat) (src dst : Bytes) (sport dport : Nat) : Bytes :=
  let b0 := List.replicate L.size 0
  let b1 := poke b0 L.proto [proto % 256]
  let b2 := poke b1 L.direction [C05.PF_OUT % 256]
  let b3 := poke b2 L.af [family % 256]
  let b4 := poke b3 L.saddr src
  let b5 := poke b4 L.daddr dst
  let b6 := poke b5 L.sxport [sport / 256, sport % 256]
  poke b6 L.dxport [dport / 256, dport % 256]

/-- `Method.firewall_command(line)` (pf.py:486-497) with `query_nat`; `kernel` is the ioctl. -/
def pfFirewallCommand (L : PfLayout) (kernel : Bytes → Nat → NatlookRes) (line : Text) : PfCmdRes :=
  if isPrefix pfReqPrefix line then
    match splitAll 44 (line.drop C05.PF_CMD_SKIP) with
    | [family, proto, srcIp, srcPort, dstIp, dstPort] =>
      match pyInt proto, pyInt family, pyInt srcPort, pyInt dstPort with
      | some proto, some family, some sport, some dport =>
        let failLine := bytesOfStr "QUERY_PF_NAT_FAILURE\n"
        let failure : PfCmdRes := .reply failLine none
        if family < 0 then failure else
        match inetPton family.toNat srcIp, inetPton family.toNat dstIp with
        | some src, some dst =>
          if sport < 0 ∨ sport > 65535 ∨ dport < 0 ∨ dport > 65535 then .overflow else
          let buf := pfMarshal L family.toNat proto.toNat src dst sport.toNat dport.toNat
          match kernel buf src.length with
          | .ioError => .reply failLine (some buf)
          | .found rdaddr rdport =>
            match inetNtop family.toNat (rdaddr.take src.length) with
            | .ok ip => .reply (pfOkPrefix ++ (ip ++ 44 :: (decNat rdport ++ [10]))) (some buf)
            | .valueError => .valueError
        | _, _ => failure
      | _, _, _, _ => .valueError
    | _ => .typeError
  else .notMine

/-! ## The helper's line channel during a session (firewall.py main loop, pf)

After `STARTED` the client writes `HOST name,ip` lines (auto-hosts) and `QUERY_PF_NAT …`
lines on one channel, and reads one line per query.  The helper handles the lines in order:
a `HOST` line rewrites the hosts file and writes **nothing** back (an exception from the rewrite
leaves the loop: the helper undoes its changes and exits); a query line writes exactly one reply. -/

structure Sess where
  pending : List Bytes := []   -- lines written by the helper, not yet read by the client
  alive   : Bool := true       -- the helper is still in its command loop
deriving Repr, DecidableEq

inductive SOp
  | host (rewriteFails : Bool)        -- `fw.sethostip(…)`
  | query (reply : Bytes)             -- `get_tcp_dstip`: request, then `pfile.readline()`;
                                      -- `reply` is what `firewall_command` prints for it
deriving Repr

/-- What `pfile.readline()` gave `get_tcp_dstip`. -/
inductive ReadLine
  | line (l : Bytes)
  | eof                               -- `b''`: falls back to `getsockname()`
deriving Repr, DecidableEq

def sessStep (s : Sess) : SOp → Sess × Option ReadLine
  | .host fails => if s.alive then ({ s with alive := !fails }, none) else (s, none)
  | .query reply =>
    let pend := if s.alive then s.pending ++ [reply] else s.pending
    match pend with
    | l :: r => ({ s with pending := r }, some (.line l))
    | [] => (s, some .eof)

def sessRun : Sess → List SOp → List (Option ReadLine)
  | _, [] => []
  | s, op :: ops => (sessStep s op).2 :: sessRun (sessStep s op).1 ops

end Sshuttle.Dst
