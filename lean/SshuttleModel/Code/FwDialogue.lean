/-
Code model of the dialogue between the client and the privileged helper.

* writer: `FirewallClient.start` / `FirewallClient.sethostip` (sshuttle/client.py), the
  `bytes %` formats, `'-'` for `None`, numeric vs string user/group, `tmark`, pid;
* reader: `firewall.main` (sshuttle/firewall.py): `_read_next_string_line`
  (`readline(128)` returns a long line in pieces; the pieces are joined again),
  `.decode('ASCII').strip()`, the ROUTES / NSLIST / PORTS / GO parser with `split(',', 5)`,
  `int`, `bool(int)`, `partition(' ')`, `split(' ', 4)`, every `Fatal`, every bare unpack /
  `int()` that raises `ValueError`, the port `assert`s, and the `HOST` loop after set-up.

Text is a list of code points / bytes (`Str = List Nat`).  Each definition mirrors the
Python statement by statement; an exception the authors did not plan for is an explicit
constructor.  Core Lean only.
-/
import SshuttleModel.Basic
import SshuttleModel.Generated
import SshuttleModel.Gen.C13

namespace Sshuttle.FwDialogue

abbrev Str := List Nat

/-! ### text primitives (CPython 3.12 `str` / `bytes` methods on ASCII text) -/

def isDigit (c : Nat) : Bool := 48 ≤ c && c ≤ 57

/-- `str.isspace` on the ASCII range: TAB LF VT FF CR, FS GS RS US, space. -/
def isSpace (c : Nat) : Bool := c == 32 || (9 ≤ c && c ≤ 13) || (28 ≤ c && c ≤ 31)

def lstrip (s : Str) : Str := s.dropWhile isSpace
def rstrip (s : Str) : Str := (s.reverse.dropWhile isSpace).reverse
/-- `str.strip()` -/
def strip (s : Str) : Str := rstrip (lstrip s)

def ofString (s : String) : Str := s.toList.map Char.toNat

/-- `s.startswith(p)` -/
def startsWith : Str → Str → Bool
  | _, [] => true
  | [], _ :: _ => false
  | c :: s, d :: p => c == d && startsWith s p

/-- First occurrence of a one-character separator: `(before, after)`, `none` if absent. -/
def splitOnce (sep : Nat) : Str → Option (Str × Str)
  | [] => none
  | c :: r =>
    if c = sep then some ([], r) else
    match splitOnce sep r with
    | none => none
    | some (a, b) => some (c :: a, b)

/-- `s.split(sep, n)` for a one-character `sep`. -/
def splitMax (sep : Nat) : Nat → Str → List Str
  | 0, s => [s]
  | n + 1, s =>
    match splitOnce sep s with
    | none => [s]
    | some (a, b) => a :: splitMax sep n b

/-- `s.split(sep)` for a one-character `sep` (at most `len(s)` cuts). -/
def splitAll (sep : Nat) (s : Str) : List Str := splitMax sep s.length s

/-- Third component of `s.partition(sep)`. -/
def afterFirst (sep : Nat) (s : Str) : Str :=
  match splitOnce sep s with
  | none => []
  | some (_, b) => b

/-- Decimal digits, least significant first (`fuel > n` is always enough). -/
def decRev : Nat → Nat → Str
  | 0, _ => []
  | f + 1, n => if n < 10 then [48 + n] else (48 + n % 10) :: decRev f (n / 10)

/-- `b'%d' % n` for `n ≥ 0`. -/
def dec (n : Nat) : Str := (decRev (n + 1) n).reverse

def digitsValue (s : Str) : Nat := s.foldl (fun a c => a * 10 + (c - 48)) 0

/-- Digits with single underscores between them (`int()` accepts `1_000`). -/
def validBody : Bool → Str → Bool
  | prev, [] => prev
  | prev, c :: r =>
    if isDigit c then validBody true r
    else if c == 95 && prev then validBody false r
    else false

/-- Optional sign in front of the digits: `(negative, rest)`. -/
def signSplit : Str → Bool × Str
  | 45 :: r => (true, r)
  | 43 :: r => (false, r)
  | t => (false, t)

/-- `int(s)` for an ASCII `str`: surrounding white space, one optional sign, decimal digits
with optional single underscores; anything else is `ValueError` (`none`). -/
def pyInt (s : Str) : Option Int :=
  let sb := signSplit (strip s)
  if validBody false sb.2 then
    let v : Int := Int.ofNat (digitsValue (sb.2.filter (· != 95)))
    some (if sb.1 then -v else v)
  else none

/-- `s.encode('ASCII')` / `bytes(s, 'ascii')`: `none` is `UnicodeEncodeError`. -/
def encodeAscii (s : Str) : Option Bytes := if s.all (· < 128) then some s else none

def utf8One (c : Nat) : Option Bytes :=
  if c < 128 then some [c]
  else if c < 2048 then some [192 + c / 64, 128 + c % 64]
  else if 55296 ≤ c ∧ c < 57344 then none          -- lone surrogate: UnicodeEncodeError
  else if c < 65536 then some [224 + c / 4096, 128 + c / 64 % 64, 128 + c % 64]
  else if c < 1114112 then some [240 + c / 262144, 128 + c / 4096 % 64, 128 + c / 64 % 64, 128 + c % 64]
  else none

/-- `bytes(s, 'utf-8')` -/
def utf8 : Str → Option Bytes
  | [] => some []
  | c :: r =>
    match utf8One c, utf8 r with
    | some a, some b => some (a ++ b)
    | _, _ => none

/-! ### writer: `FirewallClient.start`, `FirewallClient.sethostip` -/

structure Subnet where
  family : Nat
  ip     : Str
  width  : Nat
  fport  : Nat
  lport  : Nat
deriving Repr, DecidableEq

/-- `self.user` / `self.group`: `None`, an `int`, or a `str`. -/
inductive Ident
  | none
  | num (n : Nat)
  | name (s : Str)
deriving Repr, DecidableEq

structure Plan where
  includes   : List Subnet          -- `subnets_include + auto_nets`
  excludes   : List Subnet
  nslist     : List (Nat × Str)
  port_v6    : Nat
  port_v4    : Nat
  dnsport_v6 : Nat
  dnsport_v4 : Nat
  udp        : Bool
  user       : Ident
  group      : Ident
  tmark      : Str
  pid        : Nat
deriving Repr

/-- `b'%d,%d,<flag>,%s,%d,%d\n' % (family, width, ip.encode("ASCII"), fport, lport)` -/
def renderRoute (flag : Nat) (s : Subnet) : Option Bytes :=
  match encodeAscii s.ip with
  | none => none
  | some ip =>
    some (dec s.family ++ [44] ++ dec s.width ++ [44] ++ [48 + flag] ++ [44] ++ ip ++ [44]
          ++ dec s.fport ++ [44] ++ dec s.lport ++ [10])

/-- `b'%d,%s\n' % (family, ip.encode("ASCII"))` -/
def renderNs (e : Nat × Str) : Option Bytes :=
  match encodeAscii e.2 with
  | none => none
  | some ip => some (dec e.1 ++ [44] ++ ip ++ [10])

def renderIdent : Ident → Option Bytes
  | .none => some [45]
  | .num n => some (dec n)
  | .name s => utf8 s

def ROUTES : Str := [82, 79, 85, 84, 69, 83]
def NSLIST : Str := [78, 83, 76, 73, 83, 84]
def PORTS_ : Str := [80, 79, 82, 84, 83, 32]
def GO_ : Str := [71, 79, 32]
def HOST_ : Str := [72, 79, 83, 84, 32]

def renderPorts (p : Plan) : Bytes :=
  PORTS_ ++ dec p.port_v6 ++ [44] ++ dec p.port_v4 ++ [44] ++ dec p.dnsport_v6 ++ [44]
    ++ dec p.dnsport_v4 ++ [10]

/-- `b'GO %d %s %s %s %d\n' % (udp, user, group, bytes(self.tmark, 'ascii'), os.getpid())` -/
def renderGo (p : Plan) : Option Bytes :=
  match renderIdent p.user, renderIdent p.group, encodeAscii p.tmark with
  | some u, some g, some t =>
    some (GO_ ++ [if p.udp then 49 else 48] ++ [32] ++ u ++ [32] ++ g ++ [32] ++ t ++ [32]
          ++ dec p.pid ++ [10])
  | _, _, _ => none

/-- A `for` loop of writes: stops at the first element whose rendering raises. -/
def mapOpt {α β : Type} (f : α → Option β) : List α → Option (List β)
  | [] => some []
  | a :: r =>
    match f a, mapOpt f r with
    | some b, some bs => some (b :: bs)
    | _, _ => none

/-- The `pfile.write` calls of `FirewallClient.start`, one element per call.  `none`: an
encode step raised `UnicodeEncodeError` (nothing was flushed). -/
def render (p : Plan) : Option (List Bytes) :=
  match mapOpt (renderRoute 0) p.includes, mapOpt (renderRoute 1) p.excludes, mapOpt renderNs p.nslist,
        renderGo p with
  | some inc, some exc, some ns, some go =>
    some ([ROUTES ++ [10]] ++ inc ++ exc ++ [NSLIST ++ [10]] ++ ns ++ [renderPorts p] ++ [go])
  | _, _, _, _ => none

/-- Byte class of `br'[^-\w\.]'`: what the client lets through as a host name. -/
def isNameByte (c : Nat) : Bool :=
  c == 45 || c == 46 || c == 95 || isDigit c || (65 ≤ c && c ≤ 90) || (97 ≤ c && c ≤ 122)

/-- Byte class of `br'[^0-9.]'`. -/
def isIpByte (c : Nat) : Bool := isDigit c || c == 46

/-- `FirewallClient.sethostip`: `none` is a failed `assert`. -/
def renderHost (name ip : Bytes) : Option Bytes :=
  if !(name.all isNameByte) then none
  else if !(ip.all isIpByte) then none
  else some (HOST_ ++ name ++ [44] ++ ip ++ [10])

/-! ### reader: `_read_next_string_line` -/

/-- `stdin.readline(max)` on a buffered binary stream: up to and including the first
newline, at most `max` bytes, everything that is left at end of input. -/
def readPiece : Nat → Bytes → Bytes × Bytes
  | 0, s => ([], s)
  | _ + 1, [] => ([], [])
  | m + 1, c :: r =>
    if c = 10 then ([10], r) else
    let p := readPiece m r
    (c :: p.1, p.2)

/-- `line = b''; while not line.endswith(b'\n'): piece = readline(max); if not piece: <end of input>; line += piece`.
At end of input inside a line the helper either keeps what it has (`break`; `drops = false`) or gives
the unfinished line up (`return`; `drops = true`) — which of the two the source does is regenerated
as `Gen.C13.HELPER_DROPS_UNFINISHED_LINE`. -/
def joinPieces (max : Nat) (drops : Bool) : Nat → Bytes → Bytes → Bytes × Bytes
  | 0, line, s => (line, s)
  | f + 1, line, s =>
    if line.getLast? ≠ some 10 then
      let p := readPiece max s
      if p.1 = [] then (if drops then [] else line, s) else joinPieces max drops f (line ++ p.1) p.2
    else (line, s)

/-- One `_read_next_string_line` read, before decoding: `([], _)` is end of input. -/
def readLine (max : Nat) (drops : Bool) (s : Bytes) : Bytes × Bytes := joinPieces max drops (s.length + 1) [] s

/-- The successive raw lines the helper obtains from the stream until end of input. -/
def rawLinesAux (max : Nat) (drops : Bool) : Nat → Bytes → List Bytes
  | 0, _ => []
  | f + 1, s =>
    let p := readLine max drops s
    if p.1 = [] then [] else p.1 :: rawLinesAux max drops f p.2

def rawLines (max : Nat) (drops : Bool) (s : Bytes) : List Bytes := rawLinesAux max drops (s.length + 1) s

/-- The raw lines of the helper as the source has it now. -/
def helperLines (s : Bytes) : List Bytes :=
  rawLines Gen.C13.READLINE_MAX Gen.C13.HELPER_DROPS_UNFINISHED_LINE s

/-- The reader *before* the repair `proposed_fixes/C13-helper-joins-line-pieces.diff`: every
`readline(max)` piece was taken for a line.  Kept only to state what the repair changed. -/
def legacyRawLinesAux (max : Nat) : Nat → Bytes → List Bytes
  | 0, _ => []
  | f + 1, s =>
    let p := readPiece max s
    if p.1 = [] then [] else p.1 :: legacyRawLinesAux max f p.2

def legacyRawLines (max : Nat) (s : Bytes) : List Bytes := legacyRawLinesAux max (s.length + 1) s

/-- `line.decode('ASCII').strip()`; `none` is `UnicodeDecodeError`. -/
def decodeLine (raw : Bytes) : Option Str :=
  if raw.all (· < 128) then some (strip raw) else none

/-! ### reader: the parser of `firewall.main` -/

inductive Fatal
  | expectedRoutes | expectedRoute | expectedRouteOrNslist | expectedNslist
  | expectedNs | expectedNsOrPorts | expectedPorts | expected4Ports | expectedGo
  | expectedCommand
deriving Repr, DecidableEq

inductive Err
  | fatal (f : Fatal)
  | valueError        -- `int()` of a non-number, or a tuple unpack of the wrong length
  | unicodeError      -- `.decode('ASCII')` met a byte ≥ 128
  | assertion         -- one of the eight port-range `assert`s
deriving Repr, DecidableEq

structure RSubnet where
  family  : Int
  width   : Int
  exclude : Bool
  ip      : Str
  fport   : Int
  lport   : Int
deriving Repr, DecidableEq

/-- Everything `firewall.main` has parsed when it reaches `try: … setup_firewall`. -/
structure Setup where
  subnets    : List RSubnet
  nslist     : List (Int × Str)
  port_v6    : Int
  port_v4    : Int
  dnsport_v6 : Int
  dnsport_v4 : Int
  udp        : Bool
  user       : Option Str
  group      : Option Str
  tmark      : Str
  pid        : Int
deriving Repr, DecidableEq

/-- How the loop after `STARTED` ended; every case leaves through `finally`. -/
inductive End
  | eof
  | err (e : Err)
deriving Repr, DecidableEq

inductive Outcome
  | noInput                                   -- first read empty: `return`
  | before (e : Err)                          -- raised before `try:`; nothing was set up
  | ran (s : Setup) (hosts : List (Str × Str)) (fin : End)
deriving Repr, DecidableEq

/-- The `while 1:` loop collecting routes; returns the routes, the line that ended the loop
(it starts with `NSLIST`) and the unread lines. -/
def parseRoutes : List Bytes → Except Err (List RSubnet × Str × List Bytes)
  | [] => .error (.fatal .expectedRoute)
  | raw :: rest =>
    match decodeLine raw with
    | none => .error .unicodeError
    | some line =>
      if line = [] then .error (.fatal .expectedRoute)
      else if startsWith line NSLIST then .ok ([], line, rest)
      else
        match splitMax 44 Gen.C13.ROUTE_MAXSPLIT line with
        | [family, width, exclude, ip, fport, lport] =>
          match pyInt family, pyInt width, pyInt exclude, pyInt fport, pyInt lport with
          | some f, some w, some e, some fp, some lp =>
            match parseRoutes rest with
            | .error err => .error err
            | .ok (l, line', rest') => .ok (⟨f, w, e != 0, ip, fp, lp⟩ :: l, line', rest')
          | _, _, _, _, _ => .error .valueError
        | _ => .error (.fatal .expectedRouteOrNslist)

def parseNs : List Bytes → Except Err (List (Int × Str) × Str × List Bytes)
  | [] => .error (.fatal .expectedNs)
  | raw :: rest =>
    match decodeLine raw with
    | none => .error .unicodeError
    | some line =>
      if line = [] then .error (.fatal .expectedNs)
      else if startsWith line PORTS_ then .ok ([], line, rest)
      else
        match splitMax 44 Gen.C13.NS_MAXSPLIT line with
        | [family, ip] =>
          match pyInt family with
          | some f =>
            match parseNs rest with
            | .error err => .error err
            | .ok (l, line', rest') => .ok ((f, ip) :: l, line', rest')
          | none => .error .valueError
        | _ => .error (.fatal .expectedNsOrPorts)

/-- The loop after `STARTED\n`: `HOST` lines update the host map. -/
def hostLoop : List Bytes → List (Str × Str) × End
  | [] => ([], .eof)
  | raw :: rest =>
    match decodeLine raw with
    | none => ([], .err .unicodeError)
    | some line =>
      if line = [] then ([], .eof)
      else if startsWith line HOST_ then
        match splitMax 44 1 (line.drop 5) with
        | [name, ip] =>
          let r := hostLoop rest
          ((name, ip) :: r.1, r.2)
        | _ => ([], .err .valueError)
      else ([], .err (.fatal .expectedCommand))   -- `method.firewall_command(line)` is False

def portOk (p : Int) : Bool := 0 ≤ p && p ≤ 65535

def identOf (s : Str) : Option Str := if s = [45] then none else some s

/-- `firewall.main` from the first read to the end, on the list of raw lines. -/
def parse (lines : List Bytes) : Outcome :=
  match lines with
  | [] => .noInput
  | raw :: rest =>
    match decodeLine raw with
    | none => .before .unicodeError
    | some line =>
      if line = [] then .noInput
      else if line ≠ ROUTES then .before (.fatal .expectedRoutes)
      else
      match parseRoutes rest with
      | .error e => .before e
      | .ok (subnets, line, rest) =>
        if line ≠ NSLIST then .before (.fatal .expectedNslist) else
        match parseNs rest with
        | .error e => .before e
        | .ok (nslist, line, rest) =>
          if !(startsWith line PORTS_) then .before (.fatal .expectedPorts) else
          match splitAll 44 (afterFirst 32 line) with
          | [a, b, c, d] =>
            match pyInt a, pyInt b, pyInt c, pyInt d with
            | some p6, some p4, some d6, some d4 =>
              if !(portOk p6 && portOk p4 && portOk d6 && portOk d4) then .before .assertion else
              match rest with
              | [] => .before (.fatal .expectedGo)
              | raw :: rest =>
                match decodeLine raw with
                | none => .before .unicodeError
                | some line =>
                  if line = [] || !(startsWith line GO_) then .before (.fatal .expectedGo) else
                  match splitMax 32 4 (afterFirst 32 line) with
                  | [udp, user, group, tmark, pid] =>
                    match pyInt udp, pyInt pid with
                    | some u, some pid =>
                      let r := hostLoop rest
                      .ran ⟨subnets, nslist, p6, p4, d6, d4, u != 0, identOf user, identOf group,
                            tmark, pid⟩ r.1 r.2
                    | _, _ => .before .valueError
                  | _ => .before .valueError
            | _, _, _, _ => .before .valueError
          | _ => .before (.fatal .expected4Ports)

/-- The helper fed a byte stream. -/
def helper (stream : Bytes) : Outcome := parse (helperLines stream)

/-- Arguments of one recorded `method.setup_firewall` call. -/
structure Call where
  port    : Int
  dnsport : Int
  nslist  : List (Int × Str)
  family  : Int
  subnets : List RSubnet
  udp     : Bool
  user    : Option Str
  group   : Option Str
  tmark   : Str
deriving Repr, DecidableEq

/-- The `setup_firewall` calls made for a parsed plan (IPv6 first, each only when it has
subnets or name servers; entries of any other family are silently dropped). -/
def calls (s : Setup) : List Call :=
  let s6 := s.subnets.filter (·.family == Int.ofNat Generated.AF_INET6)
  let n6 := s.nslist.filter (·.1 == Int.ofNat Generated.AF_INET6)
  let s4 := s.subnets.filter (·.family == Int.ofNat Generated.AF_INET)
  let n4 := s.nslist.filter (·.1 == Int.ofNat Generated.AF_INET)
  (if s6 ≠ [] ∨ n6 ≠ [] then
     [⟨s.port_v6, s.dnsport_v6, n6, Int.ofNat Generated.AF_INET6, s6, s.udp, s.user, s.group, s.tmark⟩]
   else []) ++
  (if s4 ≠ [] ∨ n4 ≠ [] then
     [⟨s.port_v4, s.dnsport_v4, n4, Int.ofNat Generated.AF_INET, s4, s.udp, s.user, s.group, s.tmark⟩]
   else [])

/-- Host map after a sequence of updates (`hostmap[name] = ip`), as an association list
in first-insertion order. -/
def hostmapSet (m : List (Str × Str)) (name ip : Str) : List (Str × Str) :=
  if m.any (·.1 == name) then m.map (fun e => if e.1 == name then (name, ip) else e)
  else m ++ [(name, ip)]

def hostmapOf (updates : List (Str × Str)) : List (Str × Str) :=
  updates.foldl (fun m e => hostmapSet m e.1 e.2) []

end Sshuttle.FwDialogue
