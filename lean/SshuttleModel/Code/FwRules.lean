/-
Code model of the rule generators (C03):
  `sshuttle/firewall.py`  `subnet_weight` (:158) and the per-family split of `main` (:326-345),
  `sshuttle/methods/nat.py`    `Method.setup_firewall` (:15-81),
  `sshuttle/methods/nft.py`    `Method.setup_firewall` (:15-88),
  `sshuttle/methods/tproxy.py` `Method.setup_firewall` (:116-229),
  `sshuttle/methods/pf.py`     `Method.setup_firewall` (:447-473) and `FreeBsd.add_rules`
                               (:205-237, also Darwin), `OpenBsd.add_rules` (:275-307).
Each generator is a function from the call's arguments to a list of *structured*
commands; `render…` turns a structured command into the exact argv / rule text the
Python passes to `subprocess`.  Python exceptions are explicit results.
Core Lean only.
-/
import SshuttleModel.Basic
import SshuttleModel.Generated
import SshuttleModel.Gen.C03

namespace Sshuttle.Fw

/-! ## data handed to `setup_firewall` -/

/-- One element of `subnets`: `(family, width, exclude, ip, fport, lport)`.
`addr` is the number the address text `ip` denotes (what the kernel tool parses it to);
the text is rendered verbatim, the number is what a packet is compared with. -/
structure Subnet where
  fam   : Nat
  width : Nat
  excl  : Bool
  ip    : String
  addr  : Nat
  fport : Nat
  lport : Nat
deriving Repr, DecidableEq, Inhabited

/-- One element of `nslist`: `(family, ip)`. -/
structure Ns where
  fam  : Nat
  ip   : String
  addr : Nat
deriving Repr, DecidableEq, Inhabited

def AF_INET : Nat := Generated.AF_INET
def AF_INET6 : Nat := Generated.AF_INET6

/-! ## `subnet_weight` and `sorted` -/

abbrev Key := Int × Nat × Bool

/-- `(-s[-1] + (s[-2] or -65535), s[1], s[2])` -/
def weight (s : Subnet) : Key :=
  (-(s.lport : Int) + (if s.fport ≠ 0 then (s.fport : Int) else -(Gen.C03.WEIGHT_NOPORT : Int)),
   s.width, s.excl)

/-- Python's tuple `<=` on `(int, int, bool)` (lexicographic, `False < True`). -/
def keyLe (a b : Key) : Bool :=
  decide (a.1 < b.1) ||
    (decide (a.1 = b.1) &&
      (decide (a.2.1 < b.2.1) || (decide (a.2.1 = b.2.1) && (!a.2.2 || b.2.2))))

/-- `sorted(subnets, key=subnet_weight, reverse=True)`: stable, descending. -/
def sortDesc (l : List Subnet) : List Subnet :=
  l.mergeSort (fun a b => keyLe (weight b) (weight a))

/-- `sorted(subnets, key=subnet_weight)`: stable, ascending. -/
def sortAsc (l : List Subnet) : List Subnet :=
  l.mergeSort (fun a b => keyLe (weight a) (weight b))

/-- The order a generator walks the subnets in, given the `reverse=` flag found in its source. -/
def sortBy (reverse : Bool) (l : List Subnet) : List Subnet :=
  if reverse then sortDesc l else sortAsc l

/-! ## structured netfilter rules -/

inductive Proto | tcp | udp
deriving Repr, DecidableEq, Inhabited

/-- `'%d' % f` (one port) or `'%d:%d' % (f, l)` / `'{ %d-%d }'` (a range). -/
inductive Ports
  | single (p : Nat)
  | range (f l : Nat)
deriving Repr, DecidableEq

/-- `--dest ip` / `--dest ip/width` / `ip daddr ip/width`.  `v6` is the family whose
tool reads the text (ip6tables, `ip6 daddr`). -/
structure Dest where
  v6    : Bool
  ip    : String
  addr  : Nat
  width : Option Nat
deriving Repr, DecidableEq

inductive ChainName
  | output | prerouting                 -- iptables built-in chains
  | nat (port : Nat)                    -- 'sshuttle-%s'
  | tMark (port : Nat)                  -- 'sshuttle-m-%s'
  | tTproxy (port : Nat)                -- 'sshuttle-t-%s'
  | tDivert (port : Nat)                -- 'sshuttle-d-%s'
  | nftOutput | nftPrerouting           -- nft base chains 'output', 'prerouting'
  | nft (v6 : Bool) (port : Nat)        -- 'sshuttle-ipv4-%s' / 'sshuttle-ipv6-%s'
deriving Repr, DecidableEq

structure Match where
  socket    : Bool := false             -- `-m socket`
  dst       : Option Dest := none
  proto     : Option Proto := none
  dports    : Option Ports := none
  dstLocal  : Bool := false             -- `-m addrtype --dst-type LOCAL` / `fib daddr type local`
  mark      : Option String := none     -- `-m mark --mark X`
  owner     : Bool := false             -- `-m owner`
  uid       : Option String := none     -- `--uid-owner`
  gid       : Option String := none     -- `--gid-owner`
  nfproto   : Option Bool := none       -- nft `meta nfproto ipv4|ipv6` (true = ipv6)
  nfprotoNe : Option Bool := none       -- nft `meta nfproto != …`
deriving Repr, DecidableEq

inductive Target
  | ret | accept
  | redirect (port : Nat)               -- REDIRECT --to-ports / `redirect to :`
  | tproxy (mark : String) (port : Nat) -- TPROXY --tproxy-mark --on-port
  | setMark (mark : String)             -- MARK --set-mark (non-terminating)
  | jump (c : ChainName)
deriving Repr, DecidableEq

structure Rule where
  m : Match
  t : Target
deriving Repr, DecidableEq

inductive Table | nat | mangle
deriving Repr, DecidableEq

/-- Where a chain lives: one of the two iptables binaries × table, or the nft `inet`
table `sshuttle-ipv{4,6}-PORT`. -/
inductive Space
  | ipt (v6 : Bool) (t : Table)
  | nft (v6 : Bool) (port : Nat)
deriving Repr, DecidableEq

/-! ## structured pf rules -/

inductive PfOs | freebsd | openbsd
deriving Repr, DecidableEq

/-- `b"%s/%d%s" % (snet, swidth, b" port %d:%d" % (fport, lport) if fport else b"")` -/
structure PfNet where
  ip    : String
  addr  : Nat
  width : Nat
  ports : Option (Nat × Nat)
deriving Repr, DecidableEq

inductive PfTo
  | net (n : PfNet)
  | dnsTable                            -- `<dns_servers> port 53`
deriving Repr, DecidableEq

inductive PfRule
  | table (ns : List Ns)                                        -- table <dns_servers> {…}
  | translate (os : PfOs) (v6 : Bool) (proto : Proto) (to : PfTo) (port : Nat)
  | passOut (os : PfOs) (v6 : Bool) (proto : Proto) (to : PfTo) (routeTo : Bool)
deriving Repr, DecidableEq

/-! ## commands -/

inductive NftAction | addTable | addChain | flushChain
deriving Repr, DecidableEq

def nftActionText : NftAction → String
  | .addTable => "add table"
  | .addChain => "add chain"
  | .flushChain => "flush chain"

inductive Cmd
  | iptNew (v6 : Bool) (t : Table) (c : ChainName)              -- -N
  | iptFlush (v6 : Bool) (t : Table) (c : ChainName)            -- -F
  | iptInsert (v6 : Bool) (t : Table) (c : ChainName) (r : Rule) -- -I c 1 …
  | iptAppend (v6 : Bool) (t : Table) (c : ChainName) (r : Rule) -- -A c …
  | nftSetup (v6 : Bool) (port : Nat) (action : NftAction) (args : List String)
  | nftRule (v6 : Bool) (port : Nat) (c : ChainName) (r : Rule)  -- add rule inet TABLE c …
  | pfLoad (v6 : Bool) (port : Nat) (rules : List PfRule)        -- pfctl -a ANCHOR -f /dev/stdin
deriving Repr

/-- What `setup_firewall` did: the commands issued, or the exception. -/
inductive SetupRes
  | ok (cmds : List Cmd)
  | exc (tag : String)                  -- a `raise Exception(...)` written in the source
  | internalError (tag : String)        -- an exception the authors did not plan for
deriving Repr

/-- Arguments of one `setup_firewall` call. -/
structure Call where
  port    : Nat
  dnsport : Nat
  nslist  : List Ns
  family  : Nat
  subnets : List Subnet
  udp     : Bool
  user    : Option String
  group   : Option String
  tmark   : String
deriving Repr

/-! ## rendering -/

def chainText : ChainName → String
  | .output => "OUTPUT"
  | .prerouting => "PREROUTING"
  | .nat p => s!"sshuttle-{p}"
  | .tMark p => s!"sshuttle-m-{p}"
  | .tTproxy p => s!"sshuttle-t-{p}"
  | .tDivert p => s!"sshuttle-d-{p}"
  | .nftOutput => "output"
  | .nftPrerouting => "prerouting"
  | .nft v6 p => if v6 then s!"sshuttle-ipv6-{p}" else s!"sshuttle-ipv4-{p}"

def protoText : Proto → String
  | .tcp => "tcp"
  | .udp => "udp"

def destText (d : Dest) : String :=
  match d.width with
  | none => d.ip
  | some w => s!"{d.ip}/{w}"

def iptPorts : Ports → String
  | .single p => toString p
  | .range f l => s!"{f}:{l}"

def tableText : Table → String
  | .nat => "nat"
  | .mangle => "mangle"

def optArgs (flag : String) : Option String → List String
  | none => []
  | some v => [flag, v]

/-- The argument layout of `nat.py`: `-j T --dest … -p … --dport … --to-ports …
-m addrtype --dst-type LOCAL`; the jump and MARK rules put their matches first. -/
def natRuleArgs (r : Rule) : List String :=
  match r.t with
  | .jump c =>
    (match r.m.mark with | none => [] | some m => ["-m", "mark", "--mark", m]) ++ ["-j", chainText c]
  | .setMark m =>
    (if r.m.owner then ["-m", "owner"] else []) ++ optArgs "--uid-owner" r.m.uid ++
      optArgs "--gid-owner" r.m.gid ++ ["-j", "MARK", "--set-mark", m]
  | t =>
    ["-j", match t with | .ret => "RETURN" | .accept => "ACCEPT" | .redirect _ => "REDIRECT" | _ => "?"] ++
    (match r.m.dst with | none => [] | some d => ["--dest", destText d]) ++
    (match r.m.proto with | none => [] | some p => ["-p", protoText p]) ++
    (match r.m.dports with | none => [] | some p => ["--dport", iptPorts p]) ++
    (match t with | .redirect p => ["--to-ports", toString p] | _ => []) ++
    (if r.m.dstLocal then ["-m", "addrtype", "--dst-type", "LOCAL"] else [])

/-- The argument layout of `tproxy.py`: `[-m socket] -j T [--set-mark|--tproxy-mark X]
--dest … -m proto -p proto --dport … --on-port … -m addrtype --dst-type LOCAL`. -/
def tproxyRuleArgs (r : Rule) : List String :=
  (if r.m.socket then ["-m", "socket"] else []) ++
  (match r.t with
    | .jump c => ["-j", chainText c]
    | .setMark m => ["-j", "MARK", "--set-mark", m]
    | .tproxy m _ => ["-j", "TPROXY", "--tproxy-mark", m]
    | .ret => ["-j", "RETURN"]
    | .accept => ["-j", "ACCEPT"]
    | .redirect _ => ["-j", "?"]) ++
  (match r.m.dst with | none => [] | some d => ["--dest", destText d]) ++
  (match r.m.proto, r.m.dst, r.m.socket with
    | none, _, _ => []
    | some p, some _, _ => ["-m", protoText p, "-p", protoText p]
    | some p, none, true => ["-m", protoText p, "-p", protoText p]
    | some p, none, false => ["-p", protoText p]) ++
  (match r.m.dports with | none => [] | some p => ["--dport", iptPorts p]) ++
  (match r.t with | .tproxy _ p => ["--on-port", toString p] | _ => []) ++
  (if r.m.dstLocal then ["-m", "addrtype", "--dst-type", "LOCAL"] else [])

def iptBinary (v6 : Bool) : String := if v6 then "ip6tables" else "iptables"

def nfprotoText (v6 : Bool) : String := if v6 then "ipv6" else "ipv4"
def ipVersionText (v6 : Bool) : String := if v6 then "ip6" else "ip"

/-- The argument layout of `nft.py` after `nft add rule inet TABLE`. -/
def nftRuleArgs (c : ChainName) (r : Rule) : List String :=
  match c, r.t with
  | .nftOutput, .jump t => [s!"output jump {chainText t}"]
  | .nftPrerouting, .jump t => [s!"prerouting jump {chainText t}"]
  | c, t =>
    let verdict := match t with
      | .redirect p => "redirect to :" ++ toString p
      | _ => "return"
    chainText c ::
    (match r.m.nfprotoNe with
     | some v6 => ["meta", "nfproto", "!=", nfprotoText v6, verdict]
     | none =>
       if r.m.dstLocal then ["fib daddr type local " ++ verdict] else
       match r.m.nfproto, r.m.dst with
       | none, some d =>        -- the DNS rule
         [ipVersionText d.v6, "daddr " ++ destText d,
          (match r.m.proto with | some p => protoText p | none => "?") ++ " dport " ++
            (match r.m.dports with | some (.single p) => toString p | _ => "?"),
          verdict]
       | some v6, some d =>     -- a subnet rule
         (match r.m.dports with
          | some (.range f l) => ["meta", "nfproto", nfprotoText v6, "tcp", "dport", s!"\{ {f}-{l} }"]
          | some (.single f) => ["meta", "nfproto", nfprotoText v6, "tcp", "dport", toString f]
          | none => ["meta", "nfproto", nfprotoText v6, "meta", "l4proto", "tcp"]) ++
         [ipVersionText d.v6, "daddr " ++ destText d, verdict]
       | _, none => ["?"])

def pfNetText (n : PfNet) : String :=
  s!"{n.ip}/{n.width}" ++ (match n.ports with | none => "" | some (f, l) => s!" port {f}:{l}")

def inetText (v6 : Bool) : String := if v6 then "inet6" else "inet"
def loAddrText (v6 : Bool) : String := if v6 then "::1" else "127.0.0.1"

/-- One line of the rule text piped to `pfctl -a ANCHOR -f /dev/stdin`. -/
def pfRuleText : PfRule → String
  | .table ns => "table <dns_servers> {" ++ ",".intercalate (ns.map (·.ip)) ++ "}"
  | .translate .freebsd v6 _ (.net n) port =>
    s!"rdr pass on lo0 {inetText v6} proto tcp from ! {loAddrText v6} to {pfNetText n} -> {loAddrText v6} port {port}"
  | .translate .freebsd v6 _ .dnsTable port =>
    s!"rdr pass on lo0 {inetText v6} proto udp to <dns_servers> port 53 -> {loAddrText v6} port {port}"
  | .translate .openbsd v6 _ (.net n) port =>
    s!"pass in on lo0 {inetText v6} proto tcp to {pfNetText n} divert-to {loAddrText v6} port {port}"
  | .translate .openbsd v6 _ .dnsTable port =>
    s!"pass in on lo0 {inetText v6} proto udp to <dns_servers> port 53 rdr-to {loAddrText v6} port {port}"
  | .passOut .freebsd v6 _ (.net n) true =>
    s!"pass out route-to lo0 {inetText v6} proto tcp to {pfNetText n} keep state"
  | .passOut .freebsd v6 _ .dnsTable _ =>
    s!"pass out route-to lo0 {inetText v6} proto udp to <dns_servers> port 53 keep state"
  | .passOut .openbsd v6 _ (.net n) true =>
    s!"pass out {inetText v6} proto tcp to {pfNetText n} route-to lo0 keep state"
  | .passOut .openbsd v6 _ .dnsTable _ =>
    s!"pass out {inetText v6} proto udp to <dns_servers> port 53 route-to lo0 keep state"
  | .passOut _ v6 _ (.net n) false =>
    s!"pass out {inetText v6} proto tcp to {pfNetText n}"

def pfAnchorText (v6 : Bool) (port : Nat) : String :=
  if v6 then s!"sshuttle6-{port}" else s!"sshuttle-{port}"

/-- argv (or, for pf, `pfctl` argv followed by the stdin lines) of one command. -/
def renderCmd : Cmd → List String
  | .iptNew v6 t c => [iptBinary v6, "-w", "-t", tableText t, "-N", chainText c]
  | .iptFlush v6 t c => [iptBinary v6, "-w", "-t", tableText t, "-F", chainText c]
  | .iptInsert v6 t c r =>
    [iptBinary v6, "-w", "-t", tableText t, "-I", chainText c, "1"] ++
      (match c with | .tMark _ | .tTproxy _ | .tDivert _ => tproxyRuleArgs r
                    | _ => match r.t with
                           | .jump (.tMark _) | .jump (.tTproxy _) => tproxyRuleArgs r
                           | _ => natRuleArgs r)
  | .iptAppend v6 t c r =>
    [iptBinary v6, "-w", "-t", tableText t, "-A", chainText c] ++
      (match c with | .tMark _ | .tTproxy _ | .tDivert _ => tproxyRuleArgs r | _ => natRuleArgs r)
  | .nftSetup v6 port action args => ["nft", nftActionText action, "inet", chainText (.nft v6 port)] ++ args
  | .nftRule v6 port c r => ["nft", "add rule", "inet", chainText (.nft v6 port)] ++ nftRuleArgs c r
  | .pfLoad v6 port rules =>
    ["pfctl", "-a", pfAnchorText v6 port, "-f", "/dev/stdin"] ++ rules.map pfRuleText

/-! ## nat -/

def isV6 (family : Nat) : Bool := family == AF_INET6

def subnetDest (v6 : Bool) (s : Subnet) : Dest := ⟨v6, s.ip, s.addr, some s.width⟩

/-- `tcp_ports = ('-p','tcp') [+ ('--dport', '%d:%d' % (fport, lport))]` then the
RETURN / REDIRECT rule of one subnet (nat.py:64-76). -/
def natSubnetRule (v6 : Bool) (port : Nat) (s : Subnet) : Rule :=
  let m : Match := { dst := some (subnetDest v6 s), proto := some .tcp,
                     dports := if s.fport ≠ 0 then some (.range s.fport s.lport) else none }
  if s.excl then ⟨m, .ret⟩ else ⟨m, .redirect port⟩

/-- nat.py:53-60. -/
def natDnsRule (v6 : Bool) (dnsport : Nat) (ns : Ns) : Rule :=
  ⟨{ dst := some ⟨v6, ns.ip, ns.addr, none⟩, proto := some .udp,
     dports := some (.single Gen.C03.NAT_DNS_PORT) }, .redirect dnsport⟩

def localReturn : Rule := ⟨{ dstLocal := true }, .ret⟩

/-- The rules appended to chain `sshuttle-PORT`, in order. -/
def natChainRules (c : Call) : List Rule :=
  let v6 := isV6 c.family
  ((c.nslist.filter (·.fam == c.family)).map (natDnsRule v6 c.dnsport)) ++
  ((sortBy Gen.C03.NAT_SORT_REVERSE c.subnets).map (natSubnetRule v6 c.port)) ++
  [localReturn]

def natOwned (c : Call) : Bool := c.user.isSome || c.group.isSome

/-- `args` of the two `-I … 1` jump rules (nat.py:44-49). -/
def natJumpRule (c : Call) : Rule :=
  ⟨{ mark := if natOwned c then some (toString c.port) else none }, .jump (.nat c.port)⟩

/-- The mangle OUTPUT rule (nat.py:36-43), issued through `nonfatal`. -/
def natOwnerRule (c : Call) : Rule :=
  ⟨{ owner := true, uid := c.user, gid := c.group }, .setMark (toString c.port)⟩

/-- `nat.Method.setup_firewall`.  The initial `self.restore_firewall(...)` issues no
rule-creating command (C04 models it); it is not part of this list. -/
def natCmds (c : Call) : List Cmd :=
  let v6 := isV6 c.family
  let chain := ChainName.nat c.port
  [.iptNew v6 .nat chain, .iptFlush v6 .nat chain] ++
  (if natOwned c then [.iptInsert v6 .mangle .output (natOwnerRule c)] else []) ++
  [.iptInsert v6 .nat .output (natJumpRule c), .iptInsert v6 .nat .prerouting (natJumpRule c)] ++
  (natChainRules c).map (.iptAppend v6 .nat chain)

def natSetup (c : Call) : SetupRes :=
  if c.family ≠ AF_INET ∧ c.family ≠ AF_INET6 then .exc "family" else
  if c.udp then .exc "udp" else
  .ok (natCmds c)

/-! ## nft -/

def nftSubnetRule (v6 : Bool) (port : Nat) (s : Subnet) : Rule :=
  let ports : Option Ports :=
    if s.fport ≠ 0 ∧ s.fport ≠ s.lport then some (.range s.fport s.lport)
    else if s.fport ≠ 0 ∧ s.fport = s.lport then some (.single s.fport)
    else none
  let m : Match := { nfproto := some v6, proto := some .tcp, dports := ports,
                     dst := some (subnetDest v6 s) }
  if s.excl then ⟨m, .ret⟩ else ⟨m, .redirect port⟩

def nftDnsRule (v6 : Bool) (dnsport : Nat) (ns : Ns) : Rule :=
  ⟨{ dst := some ⟨v6, ns.ip, ns.addr, none⟩, proto := some .udp,
     dports := some (.single Gen.C03.NFT_DNS_PORT) }, .redirect dnsport⟩

def nftGuard (v6 : Bool) : Rule := ⟨{ nfprotoNe := some v6 }, .ret⟩

/-- Rules added to the chain named like the table, in order (nft.py:44-88). -/
def nftChainRules (c : Call) : List Rule :=
  let v6 := isV6 c.family
  [nftGuard v6] ++
  ((c.nslist.filter (·.fam == c.family)).map (nftDnsRule v6 c.dnsport)) ++
  [localReturn] ++
  ((sortBy Gen.C03.NFT_SORT_REVERSE c.subnets).map (nftSubnetRule v6 c.port))

/-- `nft.Method.setup_firewall`.  `user`/`group` are not looked at. -/
def nftCmds (c : Call) : List Cmd :=
  let v6 := isV6 c.family
  let chain := ChainName.nft v6 c.port
  ([.nftSetup v6 c.port .addTable [""],
        .nftSetup v6 c.port .addChain ["prerouting", "{ type nat hook prerouting priority -100; policy accept; }"],
        .nftSetup v6 c.port .addChain ["output", "{ type nat hook output priority -100; policy accept; }"],
        .nftSetup v6 c.port .addChain [chainText chain],
        .nftSetup v6 c.port .flushChain [chainText chain],
        .nftRule v6 c.port .nftOutput ⟨{}, .jump chain⟩,
        .nftRule v6 c.port .nftPrerouting ⟨{}, .jump chain⟩] ++
       (nftChainRules c).map (.nftRule v6 c.port chain))

def nftSetup (c : Call) : SetupRes :=
  if c.udp then .exc "udp" else
  -- `if family == AF_INET: table = …` / `if family == AF_INET6: table = …`: otherwise unbound
  if c.family ≠ AF_INET ∧ c.family ≠ AF_INET6 then .internalError "table unbound" else
  .ok (nftCmds c)

/-! ## tproxy -/

/-- `--dest '%s/32' % ip` — the literal mask of tproxy.py (DNS rules), used for BOTH families.
For IPv6 this is a /32 network, not the name server (known finding
`C03:tproxy:ipv6-ns-mask32:dns-divert-of-non-nameserver`, theorem
`C03_tproxy_dns_mask32_v6_false`; `proposed_fixes/C03-tproxy-ipv6-dns-mask.diff` documents the
one-line repair, not applied because the repository's own test pins `/32`). -/
def tproxyDnsWidth (_v6 : Bool) : Nat := 32

def tproxyDnsMatch (v6 : Bool) (ns : Ns) : Match :=
  { dst := some ⟨v6, ns.ip, ns.addr, some (tproxyDnsWidth v6)⟩, proto := some .udp,
    dports := some (.single Gen.C03.TPROXY_DNS_PORT) }

def tproxySubnetMatch (v6 : Bool) (pr : Proto) (s : Subnet) : Match :=
  { dst := some (subnetDest v6 s), proto := some pr,
    dports := if s.fport ≠ 0 then some (.range s.fport s.lport) else none }

/-- mark-chain rule(s) of one subnet (tproxy.py:183-229): tcp, then udp if enabled. -/
def tproxyMarkRules (v6 udp : Bool) (tmark : String) (s : Subnet) : List Rule :=
  let t : Target := if s.excl then .ret else .setMark tmark
  [⟨tproxySubnetMatch v6 .tcp s, t⟩] ++ (if udp then [⟨tproxySubnetMatch v6 .udp s, t⟩] else [])

def tproxyTproxyRules (v6 udp : Bool) (tmark : String) (port : Nat) (s : Subnet) : List Rule :=
  let t : Target := if s.excl then .ret else .tproxy tmark port
  [⟨tproxySubnetMatch v6 .tcp s, t⟩] ++ (if udp then [⟨tproxySubnetMatch v6 .udp s, t⟩] else [])

def tproxySorted (c : Call) : List Subnet := sortBy Gen.C03.TPROXY_SORT_REVERSE c.subnets

/-- Contents of `sshuttle-m-PORT` in order. -/
def tproxyMarkChain (c : Call) : List Rule :=
  let v6 := isV6 c.family
  ((c.nslist.filter (·.fam == c.family)).map fun ns => ⟨tproxyDnsMatch v6 ns, .setMark c.tmark⟩) ++
  [localReturn] ++
  (tproxySorted c).flatMap (tproxyMarkRules v6 c.udp c.tmark)

def socketRule (pr : Proto) (port : Nat) : Rule :=
  ⟨{ socket := true, proto := some pr }, .jump (.tDivert port)⟩

/-- Contents of `sshuttle-t-PORT` in order. -/
def tproxyTproxyChain (c : Call) : List Rule :=
  let v6 := isV6 c.family
  ((c.nslist.filter (·.fam == c.family)).map fun ns =>
      ⟨tproxyDnsMatch v6 ns, .tproxy c.tmark c.dnsport⟩) ++
  [localReturn] ++
  [socketRule .tcp c.port] ++ (if c.udp then [socketRule .udp c.port] else []) ++
  (tproxySorted c).flatMap (tproxyTproxyRules v6 c.udp c.tmark c.port)

def tproxyDivertChain (c : Call) : List Rule :=
  [⟨{}, .setMark c.tmark⟩, ⟨{}, .accept⟩]

/-- tproxy.py:131-146: the chain creation and the two `-I … 1` jumps. -/
def tproxyPre (c : Call) : List Cmd :=
  let v6 := isV6 c.family
  let mC := ChainName.tMark c.port
  let tC := ChainName.tTproxy c.port
  let dC := ChainName.tDivert c.port
  [.iptNew v6 .mangle mC, .iptFlush v6 .mangle mC,
   .iptNew v6 .mangle dC, .iptFlush v6 .mangle dC,
   .iptNew v6 .mangle tC, .iptFlush v6 .mangle tC,
   .iptInsert v6 .mangle .output ⟨{}, .jump mC⟩,
   .iptInsert v6 .mangle .prerouting ⟨{}, .jump tC⟩]

/-- tproxy.py:148-229: all `-A` commands, in the order the Python issues them (the rules of the
mark chain and of the tproxy chain are interleaved). -/
def tproxyAppends (c : Call) : List Cmd :=
  let v6 := isV6 c.family
  let mC := ChainName.tMark c.port
  let tC := ChainName.tTproxy c.port
  let dC := ChainName.tDivert c.port
  let A (ch : ChainName) (r : Rule) : Cmd := .iptAppend v6 .mangle ch r
  let dns := (c.nslist.filter (·.fam == c.family)).flatMap fun ns =>
    [A mC ⟨tproxyDnsMatch v6 ns, .setMark c.tmark⟩,
     A tC ⟨tproxyDnsMatch v6 ns, .tproxy c.tmark c.dnsport⟩]
  let subs := (tproxySorted c).flatMap fun s =>
    let t1 : Target := if s.excl then .ret else .setMark c.tmark
    let t2 : Target := if s.excl then .ret else .tproxy c.tmark c.port
    [A mC ⟨tproxySubnetMatch v6 .tcp s, t1⟩, A tC ⟨tproxySubnetMatch v6 .tcp s, t2⟩] ++
    (if c.udp then [A mC ⟨tproxySubnetMatch v6 .udp s, t1⟩, A tC ⟨tproxySubnetMatch v6 .udp s, t2⟩]
     else [])
  dns ++
  [A tC localReturn, A mC localReturn,
   A dC ⟨{}, .setMark c.tmark⟩, A dC ⟨{}, .accept⟩,
   A tC (socketRule .tcp c.port)] ++
  (if c.udp then [A tC (socketRule .udp c.port)] else []) ++
  subs

/-- `tproxy.Method.setup_firewall`, in the order the Python issues the commands. -/
def tproxyCmds (c : Call) : List Cmd := tproxyPre c ++ tproxyAppends c

def tproxySetup (c : Call) : SetupRes :=
  if c.family ≠ AF_INET ∧ c.family ≠ AF_INET6 then .exc "family" else
  .ok (tproxyCmds c)

/-! ## pf -/

def pfNetOf (s : Subnet) : PfNet :=
  ⟨s.ip, s.addr, s.width, if s.fport ≠ 0 then some (s.fport, s.lport) else none⟩

/-- `includes` of pf.py:459-468: `(sexclude, text)` in `sorted(subnets, key=subnet_weight)` order. -/
def pfIncludes (c : Call) : List (Bool × PfNet) :=
  (sortBy Gen.C03.PF_SORT_REVERSE c.subnets).map fun s => (s.excl, pfNetOf s)

/-- `FreeBsd.add_rules` / `OpenBsd.add_rules`: tables ++ translating_rules ++ filtering_rules. -/
def pfRules (os : PfOs) (v6 : Bool) (includes : List (Bool × PfNet)) (port dnsport : Nat)
    (nslist : List Ns) : List PfRule :=
  let translating := (includes.filter (fun i => !i.1)).map fun i => PfRule.translate os v6 .tcp (.net i.2) port
  let filtering := includes.map fun i => PfRule.passOut os v6 .tcp (.net i.2) (!i.1)
  (if nslist.isEmpty then [] else [PfRule.table nslist]) ++
  translating ++ (if nslist.isEmpty then [] else [PfRule.translate os v6 .udp .dnsTable dnsport]) ++
  filtering ++ (if nslist.isEmpty then [] else [PfRule.passOut os v6 .udp .dnsTable true])

def pfCallRules (os : PfOs) (c : Call) : List PfRule :=
  pfRules os (isV6 c.family) (pfIncludes c) c.port c.dnsport c.nslist

/-- `pf.Method.setup_firewall` (the rule text only; anchors / enable are C04's).  With an
empty `subnets` the name `includes` is never bound and `pf.add_rules(anchor, includes, …)`
raises `UnboundLocalError`. -/
def pfSetup (os : PfOs) (c : Call) : SetupRes :=
  if c.family ≠ AF_INET ∧ c.family ≠ AF_INET6 then .exc "family" else
  if c.udp then .exc "udp" else
  if c.subnets.isEmpty then .internalError "includes unbound" else
  .ok [.pfLoad (isV6 c.family) c.port (pfCallRules os c)]

/-! ## the per-family split of `firewall.main` -/

structure Plan where
  subnets   : List Subnet
  nslist    : List Ns
  portV6    : Nat
  portV4    : Nat
  dnsportV6 : Nat
  dnsportV4 : Nat
  udp       : Bool
  user      : Option String
  group     : Option String
  tmark     : String
deriving Repr

def Plan.call (p : Plan) (v6 : Bool) : Call :=
  let fam := if v6 then AF_INET6 else AF_INET
  { port := if v6 then p.portV6 else p.portV4,
    dnsport := if v6 then p.dnsportV6 else p.dnsportV4,
    nslist := p.nslist.filter (·.fam == fam),
    family := fam,
    subnets := p.subnets.filter (·.fam == fam),
    udp := p.udp, user := p.user, group := p.group, tmark := p.tmark }

/-- `if subnets_v6 or nslist_v6: setup_firewall(v6 …)`; `if subnets_v4 or nslist_v4: …` -/
def Plan.active (p : Plan) (v6 : Bool) : Bool :=
  !(p.call v6).subnets.isEmpty || !(p.call v6).nslist.isEmpty

/-- The commands of the `setup_firewall` calls `firewall.main` makes (firewall.py:334-345): the
IPv6 call first, then the IPv4 call, each only if that family has entries or name servers. -/
def Plan.cmds (cmdsOf : Call → List Cmd) (p : Plan) : List Cmd :=
  (if p.active true then cmdsOf (p.call true) else []) ++
  (if p.active false then cmdsOf (p.call false) else [])

end Sshuttle.Fw
