/-
Code model of the two fault paths of `client.onaccept_tcp` that lie in front of the tunnel model's
`accept` step:

* `SockWrapper(sock, sock)` calls `_try_peername(sock)` (ssnet.py:90-103): `getpeername()` on an
  accepted socket whose peer has already reset fails; the errnos in `Generated.PEERNAME_TOLERATED`
  (extracted from the handler's if-chain on every run) are swallowed, every other one is re-raised
  out of the accept handler and so out of the main loop.
* `listener.accept()` failing with an errno in `Generated.ACCEPT_HANDLED` (EMFILE/ENFILE): the
  handler gives up its spare descriptor, accepts the connection only to close it, and re-opens the
  spare (client.py:505-516).  `Generated.EMFILE_PATH` is the handler's sequence of descriptor
  operations in execution order (try body, then `finally`), extracted on every run; the model runs
  it against a counter of free descriptor slots.
Core Lean only.
-/
import SshuttleModel.Basic
import SshuttleModel.Generated

namespace Sshuttle.Accept

inductive AcceptOut
  | created          -- the flow exists (tunnel model: `accept`)
  | refused          -- the connection was accepted and closed; the client goes on
  | died             -- an exception leaves the accept handler and the main loop
deriving Repr, DecidableEq

/-- `_try_peername` inside `SockWrapper.__init__`, as seen from `onaccept_tcp`. -/
def peername (err : Option Nat) : AcceptOut :=
  match err with
  | none => .created
  | some e => if Generated.PEERNAME_TOLERATED.contains e then .created else .died

inductive FdOp | closeExtra | accept | closeSock | openExtra | ret
deriving Repr, DecidableEq

def FdOp.parse : String → Option FdOp
  | "close_extra" => some .closeExtra
  | "accept" => some .accept
  | "close_sock" => some .closeSock
  | "open_extra" => some .openExtra
  | "return" => some .ret
  | _ => none

/-- Descriptor bookkeeping of the process: free slots below the limit, whether the spare
descriptor is open, whether the accepted socket is open. -/
structure Fd where
  free : Nat
  extra : Bool := true
  sock : Bool := false
deriving Repr, DecidableEq

/-- One descriptor operation; `none` = it raises (EMFILE: no slot; EBADF: nothing to close). -/
def Fd.op (s : Fd) : FdOp → Option Fd
  | .closeExtra => if s.extra then some { s with free := s.free + 1, extra := false } else none
  | .accept => if s.free = 0 then none else some { s with free := s.free - 1, sock := true }
  | .closeSock => if s.sock then some { s with free := s.free + 1, sock := false } else none
  | .openExtra => if s.free = 0 then none else some { s with free := s.free - 1, extra := true }
  | .ret => some s

def Fd.run (s : Fd) : List FdOp → Option Fd
  | [] => some s
  | .ret :: _ => some s
  | o :: os => match s.op o with
    | some s1 => s1.run os
    | none => none

/-- The handler's path as extracted from the source (`none` if a call is not understood). -/
def emfilePath : Option (List FdOp) := Generated.EMFILE_PATH.mapM FdOp.parse

/-- `onaccept_tcp` when `listener.accept()` fails with errno `e` and `free` slots are left. -/
def acceptError (e : Nat) (s : Fd) : AcceptOut × Option Fd :=
  if Generated.ACCEPT_HANDLED.contains e then
    match emfilePath with
    | some p => match s.run p with
      | some s1 => (.refused, some s1)
      | none => (.died, none)
    | none => (.died, none)
  else (.died, none)

end Sshuttle.Accept
