/-
Code model for C16: `sshuttle/options.py` `parse_subnetport` (:38-98), `parse_ipport` (:104-132),
`sshuttle/ssh.py` `parse_hostport` (:33-84), the `--listen` handling and the environment/argv
concatenation of `sshuttle/cmdline.py`, and argparse's treatment of `type=` functions and
`store` actions.  Statement by statement; Python exceptions are explicit (`Exc`), and what the
caller layer does with them is a separate function (`argparseType`, `mainCatch`).

Strings are `List Char` (Unicode scalar values; lone surrogates are outside the model).

The two regular expressions of `parse_subnetport` and the three of `parse_ipport` are written
as deterministic parsers.  Why that is faithful (validated against the real `re` by the
correspondence run, not derived from it):
  * every greedy class run is followed by something that cannot start with a member of the class
    (`/`, `]`, `:`, `-`, end), so giving characters back never helps — *except* in the IPv6
    expression, whose class `[\w:]` contains both `:` and the digits: `1:2::3:456-500` matches
    only after the run gives back `:456`.  `matchRx6` contains exactly that case.  (The repaired
    class `[\w:.]` adds `.`, which is none of `/`, `]`, `:`, `-`: the argument is unchanged.)
  * `$` matches at the end or just before a final `\n` (`atEnd`).
  * `\d`, `\w` are the Unicode classes of CPython's `re` for `str` patterns: ASCII is written out,
    code points ≥ 128 come from generated range tables (`Gen.C16.ND_RANGES`, `W_RANGES`).
Where the model stops (explicit `Exc.unmodelled`): the non-ASCII branch of the `idna` codec and
name resolution are oracle parameters (`Env`); `%scope` in a numeric host; non-ASCII text in the
`urlparse` branch of `parse_hostport` (NFKC check and `str.lower` would need more Unicode tables).
-/
import SshuttleModel.Code.InetAton
import SshuttleModel.Gen.C16

namespace Sshuttle.Args
open Sshuttle.Inet

/-! ## character classes -/

def inRanges (t : List (Nat × Nat)) (n : Nat) : Bool := t.any fun r => r.1 ≤ n && n ≤ r.2

def isAsciiAlnum (c : Char) : Bool :=
  (48 ≤ c.toNat && c.toNat ≤ 57) || (65 ≤ c.toNat && c.toNat ≤ 90) || (97 ≤ c.toNat && c.toNat ≤ 122)

/-- `\d` -/
def isD (c : Char) : Bool :=
  if c.toNat < 128 then Inet.isDigit c else inRanges Gen.C16.ND_RANGES c.toNat

/-- `\w` -/
def isW (c : Char) : Bool :=
  if c.toNat < 128 then isAsciiAlnum c || c.toNat = 95 else inRanges Gen.C16.W_RANGES c.toNat

/-- one character of `str.isdigit()` -/
def isPyDigit (c : Char) : Bool :=
  if c.toNat < 128 then Inet.isDigit c else inRanges Gen.C16.PYDIGIT_RANGES c.toNat

/-- `[\w\.\-]` -/
def isHost4 (c : Char) : Bool := isW c || c = '.' || c = '-'

/-- `[\w\:\.]` — the class of the IPv6 expression after the repair
`proposed_fixes/C16-embedded-ipv4.diff` (the model follows the repaired code). -/
def isHost6 (c : Char) : Bool := isW c || c = ':' || c = '.'

/-- `[\w\:]` — the class before the repair; kept only for `C16_v6_embedded_orig_false`. -/
def isHost6Orig (c : Char) : Bool := isW c || c = ':'

/-- value of one character for `int()` (every run of the generated `\d` table starts at a zero). -/
def decimalVal? (c : Char) : Option Nat :=
  if c.toNat < 128 then Inet.decVal? c else
  match Gen.C16.ND_RANGES.find? (fun r => r.1 ≤ c.toNat && c.toNat ≤ r.2) with
  | some r => some ((c.toNat - r.1) % 10)
  | none => none

/-! ## Python exceptions and the layers that catch them -/

inductive FatalKind
  | badFormat        -- "… is not a valid address/mask:port format" / "… IP:port format"
  | unresolved       -- "Unable to resolve address"
  | mixedFamilies    -- "has IPv4 and IPv6 addresses, so the mask … is not supported"
  | cidrRange        -- "Slash in CIDR notation … is not between 0 and …"
deriving DecidableEq, Repr

inductive Exc
  | fatal (k : FatalKind)      -- options.Fatal, i.e. argparse.ArgumentTypeError
  | gaierror                   -- socket.gaierror (always caught by the callers modelled here)
  | unicodeError               -- UnicodeError from the idna codec (a ValueError)
  | valueError (tag : String)  -- any other ValueError (int() digit limit, min(()), urlparse, …)
  | unmodelled (tag : String)  -- the model stops here (see file header)
deriving DecidableEq, Repr

inductive Outcome (α : Type)
  | ok (v : α)
  | usage                          -- SystemExit(2) with a usage message
  | internalError (tag : String)   -- a traceback
  | unmodelled (tag : String)
deriving Repr, DecidableEq

/-- `argparse._get_value`: `ArgumentTypeError` → error message; `TypeError`/`ValueError` →
"invalid … value"; everything else propagates. -/
def argparseType {α : Type} (r : Except Exc α) : Outcome α :=
  match r with
  | .ok v => .ok v
  | .error (.fatal _) => .usage
  | .error .unicodeError => .usage
  | .error (.valueError _) => .usage
  | .error .gaierror => .internalError "gaierror"
  | .error (.unmodelled t) => .unmodelled t

/-- A call made directly from `cmdline.main`'s `try`: only `helpers.Fatal` and
`KeyboardInterrupt` are caught there; `options.Fatal` is `argparse.ArgumentTypeError`, a
different class, so it escapes like any other exception. -/
def mainCatch {α : Type} (r : Except Exc α) : Outcome α :=
  match r with
  | .ok v => .ok v
  | .error (.fatal _) => .internalError "ArgumentTypeError"
  | .error .unicodeError => .internalError "UnicodeError"
  | .error (.valueError t) => .internalError ("ValueError " ++ t)
  | .error .gaierror => .internalError "gaierror"
  | .error (.unmodelled t) => .unmodelled t

/-! ## `int()` -/

def pyIntAux (acc : Nat) : Str → Except Exc Nat
  | [] => .ok acc
  | c :: t =>
    match decimalVal? c with
    | some d => pyIntAux (acc * 10 + d) t
    | none => .error (.valueError "invalid literal for int()")

/-- `int(s)` for a string without sign, blanks or underscores. -/
def pyInt (s : Str) : Except Exc Nat :=
  if s.isEmpty then .error (.valueError "invalid literal for int()")
  else if s.length > Gen.C16.INT_MAX_STR_DIGITS then .error (.valueError "int digit limit")
  else pyIntAux 0 s

/-! ## regular expressions -/

structure Groups where
  host  : Str
  cidr  : Option Str
  fport : Option Str
  lport : Option Str
deriving Repr, DecidableEq

/-- `$` -/
def atEnd (s : Str) : Bool := s = [] || s = ['\n']

/-- `(?:\*\.)?` -/
def optStar (s : Str) : Str × Str :=
  match s with
  | '*' :: '.' :: t => (['*', '.'], t)
  | _ => ([], s)

/-- `(?:/(\d+))?` -/
def matchCidr (s : Str) : Option Str × Str :=
  match s with
  | '/' :: t =>
    let d := t.takeWhile isD
    if d.isEmpty then (none, s) else (some d, t.dropWhile isD)
  | _ => (none, s)

/-- `(?::(\d+)(?:-(\d+))?)?$` -/
def matchPortTail (s : Str) : Option (Option Str × Option Str) :=
  match s with
  | ':' :: t =>
    let d := t.takeWhile isD
    let r := t.dropWhile isD
    if d.isEmpty then none else
    match r with
    | '-' :: u =>
      let d2 := u.takeWhile isD
      if d2.isEmpty then none
      else if atEnd (u.dropWhile isD) then some (some d, some d2) else none
    | _ => if atEnd r then some (some d, none) else none
  | _ => if atEnd s then some (none, none) else none

/-- `re.match(r'((?:\*\.)?[\w\.\-]+)(?:/(\d+))?(?::(\d+)(?:-(\d+))?)?$', s)` -/
def matchRx4 (s : Str) : Option Groups :=
  let (star, t) := optStar s
  let h := t.takeWhile isHost4
  if h.isEmpty then none else
  let (cidr, r1) := matchCidr (t.dropWhile isHost4)
  match matchPortTail r1 with
  | some (f, l) => some ⟨star ++ h, cidr, f, l⟩
  | none => none

/-- `re.match(r'(?:\[?(?:\*\.)?([\w\:\.]+)(?:/(\d+))?]?)(?::(\d+)(?:-(\d+))?)?$', s)`,
parametric in the host class so that the same text serves the expression before the repair. -/
def matchRx6Body (cls : Char → Bool) (t0 : Str) : Option Groups :=
  let t := (optStar t0).2
  let run := t.takeWhile cls
  let rest := t.dropWhile cls
  if run.isEmpty then none else
  let (cidr, r1) := matchCidr rest
  let r2 := match r1 with
    | ']' :: u => u
    | _ => r1
  match matchPortTail r2 with
  | some (f, l) => some ⟨run, cidr, f, l⟩
  | none =>
    -- the greedy run gives back `:digits` so that `:port-port` can match
    match rest with
    | '-' :: u =>
      let d2 := u.takeWhile isD
      if d2.isEmpty || !atEnd (u.dropWhile isD) then none else
      let dRev := run.reverse.takeWhile isD
      match run.reverse.dropWhile isD with
      | ':' :: hRev =>
        if dRev.isEmpty || hRev.isEmpty then none
        else some ⟨hRev.reverse, none, some dRev.reverse, some d2⟩
      | _ => none
    | _ => none

/-- `\[?` in front of the body -/
def skipBracket (s : Str) : Str :=
  match s with
  | '[' :: t => t
  | _ => s

def matchRx6With (cls : Char → Bool) (s : Str) : Option Groups := matchRx6Body cls (skipBracket s)

def matchRx6 (s : Str) : Option Groups := matchRx6With isHost6 s

/-- the expression as it was before the repair (`[\w\:]+`) -/
def matchRx6Orig (s : Str) : Option Groups := matchRx6With isHost6Orig s

/-! ## getaddrinfo as CPython calls it -/

/-- What the model cannot compute is supplied by the environment. -/
structure Env where
  /-- the `idna` codec on a host that is not pure ASCII (`none` = `UnicodeError`) -/
  idna    : Str → Option Str
  /-- the resolver's answer for a non-numeric name (`none` = `gaierror`) -/
  resolve : Str → Option (List (Family × Str))

def splitOn (sep : Char) : Str → List Str
  | [] => [[]]
  | c :: t =>
    match splitOn sep t with
    | [] => [[]]        -- not reachable: the result is never empty
    | x :: xs => if c = sep then [] :: x :: xs else (c :: x) :: xs

/-- `host.encode('idna')` (encodings/idna.py `Codec.encode`): ASCII fast path written out. -/
def idnaEncode (env : Env) (host : Str) : Except Exc Str :=
  if host.isEmpty then .ok []
  else if host.all (fun c => c.toNat < 128) then
    let labels := splitOn '.' host
    if labels.dropLast.any (fun l => l.length = 0 || l.length ≥ 64) then .error .unicodeError
    else if (labels.getLast?.getD []).length ≥ 64 then .error .unicodeError
    else .ok host
  else
    match env.idna host with
    | some b => .ok b
    | none => .error .unicodeError

abbrev AddrInfo := Family × Str × Nat     -- family, sockaddr[0], sockaddr[1]

/-- `socket.getaddrinfo(host, port, 0, SOCK_STREAM)` with an `int` port. -/
def getaddrinfo (env : Env) (host : Str) (port : Nat) : Except Exc (List AddrInfo) :=
  match idnaEncode env host with
  | .error e => .error e
  | .ok b =>
    match gaiPort port with
    | none => .error .gaierror
    | some p =>
      match gaiNumeric b with
      | .v4 a => .ok [(.inet, ntoa a, p)]
      | .v6 a => .ok [(.inet6, ntop6 a, p)]
      | .star => .ok [(.inet6, "::1".toList, p), (.inet, "127.0.0.1".toList, p)]
      | .scoped => .error (.unmodelled "scope id")
      | .notNumeric =>
        match env.resolve b with
        | some l => .ok (l.map fun x => (x.1, x.2, p))
        | none => .error .gaierror

/-! ## parse_subnetport -/

structure Subnet where
  family : Family
  addr   : Str
  width  : Nat
  fport  : Nat
  lport  : Nat
deriving Repr, DecidableEq

def maxCidr (f : Family) : Nat :=
  match f with
  | .inet => Gen.C16.MAX_CIDR_V4
  | .inet6 => Gen.C16.MAX_CIDR_V6

/-- the `for a in addrinfo:` loop -/
def subnetLoop (cidr fport lport : Option Str) : List AddrInfo → Except Exc (List Subnet)
  | [] => .ok []
  | (fam, addr, _) :: rest =>
    let w : Except Exc Nat :=
      match cidr with
      | none => .ok (maxCidr fam)
      | some c =>
        match pyInt c with
        | .error e => .error e
        | .ok n => if n ≤ maxCidr fam then .ok n else .error (.fatal .cidrRange)
    match w with
    | .error e => .error e
    | .ok w =>
      -- `int(fport or 0)`
      let fp : Except Exc Nat := match fport with
        | some f => pyInt f
        | none => .ok 0
      match fp with
      | .error e => .error e
      | .ok fp =>
        -- `int(lport or fport or 0)`
        let lp : Except Exc Nat := match lport with
          | some l => pyInt l
          | none => match fport with
            | some f => pyInt f
            | none => .ok 0
        match lp with
        | .error e => .error e
        | .ok lp =>
          match subnetLoop cidr fport lport rest with
          | .error e => .error e
          | .ok tl => .ok (⟨fam, addr, w, fp, lp⟩ :: tl)

def countColons (s : Str) : Nat := s.count ':'

def parseSubnetportWith (rx6 : Str → Option Groups) (env : Env) (s : Str) : Except Exc (List Subnet) :=
  let m := if countColons s > Gen.C16.SUBNET_COLON_THRESHOLD then rx6 s else matchRx4 s
  match m with
  | none => .error (.fatal .badFormat)
  | some g =>
    match getaddrinfo env g.host 0 with
    | .error .gaierror => .error (.fatal .unresolved)
    | .error e => .error e
    | .ok addrinfo =>
      if g.cidr.isSome && addrinfo.any (·.1 = .inet6) && addrinfo.any (·.1 = .inet) then
        .error (.fatal .mixedFamilies)
      else subnetLoop g.cidr g.fport g.lport addrinfo

def parseSubnetport (env : Env) (s : Str) : Except Exc (List Subnet) :=
  parseSubnetportWith matchRx6 env s

/-- `parse_subnetport` before the repair -/
def parseSubnetportOrig (env : Env) (s : Str) : Except Exc (List Subnet) :=
  parseSubnetportWith matchRx6Orig env s

/-! ## parse_subnetport_file (behind `-s` / `-X`) -/

/-- the white space `str.strip()` removes, as far as the model goes: the ASCII ones
(CPython also strips `\x1c`–`\x1f`, `\x85`, `\xa0` and the Unicode spaces; files with those are
outside the model) -/
def isAsciiSpace (c : Char) : Bool :=
  c = ' ' || c = '\t' || c = '\n' || c = '\r' || c.toNat = 11 || c.toNat = 12

/-- `line.strip()` -/
def strip (s : Str) : Str := ((s.dropWhile isAsciiSpace).reverse.dropWhile isAsciiSpace).reverse

/-- the loop of `parse_subnetport_file` over the lines of the file: blank lines and `#`
comments are skipped, every other line is handed to `parse_subnetport` and contributes its own
list; the first exception ends the loop -/
def fileLoop (env : Env) : List Str → Except Exc (List (List Subnet))
  | [] => .ok []
  | l :: rest =>
    if (strip l).isEmpty then fileLoop env rest
    else if (strip l).head? = some '#' then fileLoop env rest
    else
      match parseSubnetport env (strip l) with
      | .error e => .error e
      | .ok v =>
        match fileLoop env rest with
        | .error e => .error e
        | .ok tl => .ok (v :: tl)

/-- `parse_subnetport_file` on the text of a readable file whose lines end in `\n`
(`readlines()`; a final piece without text is a blank line either way). An unreadable file is
`Fatal('Unable to open subnet file')`, not modelled further. -/
def parseSubnetportFile (env : Env) (content : Str) : Except Exc (List (List Subnet)) :=
  fileLoop env (splitOn '\n' content)

/-! ## parse_ipport -/

/-- `(?::(\d+))?$` -/
def matchOptPort (s : Str) : Option (Option Str) :=
  match s with
  | ':' :: t =>
    let d := t.takeWhile isD
    if d.isEmpty then none else if atEnd (t.dropWhile isD) then some (some d) else none
  | _ => if atEnd s then some none else none

/-- the three `re.match` calls of `parse_ipport`: host group and port group -/
def matchIpport (s : Str) : Option (Str × Option Str) :=
  if !s.isEmpty && s.all isPyDigit then
    -- `()(\d+)$`
    let d := s.takeWhile isD
    if d.isEmpty then none else if atEnd (s.dropWhile isD) then some ([], some d) else none
  else if s.contains ']' then
    -- `(?:\[([^]]+)])(?::(\d+))?$`
    match s with
    | '[' :: t =>
      let h := t.takeWhile (· ≠ ']')
      if h.isEmpty then none else
      match t.dropWhile (· ≠ ']') with
      | ']' :: r => (matchOptPort r).map fun p => (h, p)
      | _ => none
    | _ => none
  else
    -- `([\w\.\-]+)(?::(\d+))?$`
    let h := s.takeWhile isHost4
    if h.isEmpty then none else (matchOptPort (s.dropWhile isHost4)).map fun p => (h, p)

def famRank (f : Family) : Nat :=
  match f with
  | .inet => 2
  | .inet6 => 10

def strLt : Str → Str → Bool
  | [], [] => false
  | [], _ :: _ => true
  | _ :: _, [] => false
  | a :: s, b :: t => if a.toNat < b.toNat then true else if b.toNat < a.toNat then false else strLt s t

/-- tuple comparison of two `getaddrinfo` entries that differ only in family and sockaddr[0] -/
def addrLt (a b : AddrInfo) : Bool :=
  if famRank a.1 < famRank b.1 then true
  else if famRank b.1 < famRank a.1 then false
  else strLt a.2.1 b.2.1

def minAddr : List AddrInfo → Option AddrInfo
  | [] => none
  | a :: rest =>
    match minAddr rest with
    | none => some a
    | some m => if addrLt m a then some m else some a

def parseIpport (env : Env) (s : Str) : Except Exc (Family × Str × Nat) :=
  match matchIpport s with
  | none => .error (.fatal .badFormat)
  | some (host, port) =>
    let host := if host.isEmpty then Gen.C16.IPPORT_DEFAULT_HOST.toList else host
    let port : Except Exc Nat := match port with
      | some p => pyInt p
      | none => .ok 0
    match port with
    | .error e => .error e
    | .ok port =>
      match getaddrinfo env host port with
      | .error .gaierror => .error (.fatal .unresolved)
      | .error e => .error e
      | .ok addrinfo =>
        match minAddr addrinfo with
        | none => .error (.valueError "min() arg is an empty sequence")
        | some a => .ok a

/-- `cmdline.main`: `for ip in opt.listen.split(","): family, ip, port = parse_ipport(ip)`;
the last entry of each family wins. -/
def listenLoop (env : Env) : List Str → (Option (Str × Nat) × Option (Str × Nat)) →
    Except Exc (Option (Str × Nat) × Option (Str × Nat))
  | [], acc => .ok acc
  | s :: rest, (v6, v4) =>
    match parseIpport env s with
    | .error e => .error e
    | .ok (fam, ip, port) =>
      if fam = .inet6 then listenLoop env rest (some (ip, port), v4)
      else listenLoop env rest (v6, some (ip, port))

def parseListen (env : Env) (s : Str) : Outcome (Option (Str × Nat) × Option (Str × Nat)) :=
  mainCatch (listenLoop env (splitOn ',' s) (none, none))

/-! ## the `ipaddress` module (`ip_address`, `str`) -/

inductive IP
  | v4 (a : Nat)
  | v6 (a : Nat) (scope : Option Str)
deriving Repr, DecidableEq

/-- `IPv4Address._parse_octet` -/
def parseOctet (o : Str) : Option Nat :=
  if o.isEmpty then none
  else if !(o.all fun c => c.toNat < 128 && Inet.isDigit c) then none
  else if o.length > 3 then none
  else if o ≠ ['0'] && o.head? = some '0' then none
  else
    let v := (numRun 10 decVal? 0 o).1
    if v > 255 then none else some v

/-- `IPv4Address(str)` -/
def ipv4Address (s : Str) : Option Nat :=
  if s.contains '/' then none
  else if s.isEmpty then none
  else
    match (splitOn '.' s).map parseOctet with
    | [some a, some b, some c, some d] => some (a * 2 ^ 24 + b * 2 ^ 16 + c * 2 ^ 8 + d)
    | _ => none

/-- `IPv6Address._parse_hextet` -/
def parseHextet (h : Str) : Option Nat :=
  if !(h.all fun c => (hexVal? c).isSome) then none
  else if h.length > 4 then none
  else if h.isEmpty then none      -- `int('', 16)` raises ValueError
  else some (numRun 16 hexVal? 0 h).1

def hextetsVal : List Str → Option Nat
  | [] => some 0
  | h :: rest =>
    match parseHextet h, hextetsVal rest with
    | some v, some r => some (v * 2 ^ (16 * rest.length) + r)
    | _, _ => none

/-- `for i in range(1, len(parts) - 1): if not parts[i]: …` — the indices of the empty parts
other than the first and the last one; called on `parts[1:]` with `i = 1` -/
def innerEmptyFrom : Nat → List Str → List Nat
  | _, [] => []
  | _, [_] => []
  | i, p :: q :: rest => (if p.isEmpty then [i] else []) ++ innerEmptyFrom (i + 1) (q :: rest)

/-- `IPv6Address._ip_int_from_string` from "An IPv6 address can't have more than 8 colons" on:
the parts after a dotted-quad tail has been replaced by two hextets -/
def ipv6FromParts (parts : List Str) : Option Nat :=
  if parts.length > 9 then none else
  -- indices 1 .. len-2 that are empty
  let inner := innerEmptyFrom 1 parts.tail
  match inner with
  | _ :: _ :: _ => none                      -- more than one '::'
  | [skip] =>
    let hi0 := skip
    let lo0 := parts.length - skip - 1
    let first := parts.head?.getD []
    let lastp := parts.getLast?.getD []
    let hi? : Option Nat :=
      if first.isEmpty then (if hi0 - 1 ≠ 0 then none else some (hi0 - 1)) else some hi0
    match hi? with
    | none => none
    | some hi =>
      let lo? : Option Nat :=
        if lastp.isEmpty then (if lo0 - 1 ≠ 0 then none else some (lo0 - 1)) else some lo0
      match lo? with
      | none => none
      | some lo =>
        if hi + lo > 7 then none else           -- parts_skipped < 1
        match hextetsVal (parts.take hi), hextetsVal (parts.drop (parts.length - lo)) with
        | some h, some l => some (h * 2 ^ (16 * (8 - hi)) + l)
        | _, _ => none
  | [] =>
    if parts.length ≠ 8 then none
    else if (parts.head?.getD []).isEmpty then none
    else if (parts.getLast?.getD []).isEmpty then none
    else hextetsVal parts

/-- `IPv6Address._ip_int_from_string` -/
def ipv6FromString (s : Str) : Option Nat :=
  if s.isEmpty then none else
  let parts := splitOn ':' s
  if parts.length < 3 then none else
  let last := parts.getLast?.getD []
  let parts? : Option (List Str) :=
    if last.contains '.' then
      match ipv4Address last with
      | none => none
      | some v => some (parts.dropLast ++ [render 16 (v / 65536 % 65536), render 16 (v % 65536)])
    else some parts
  match parts? with
  | none => none
  | some parts => ipv6FromParts parts

/-- `IPv6Address(str)` -/
def ipv6Address (s : Str) : Option (Nat × Option Str) :=
  if s.contains '/' then none else
  let addr := s.takeWhile (· ≠ '%')
  match s.dropWhile (· ≠ '%') with
  | [] => (ipv6FromString addr).map fun a => (a, none)
  | _ :: scope =>
    if scope.isEmpty || scope.contains '%' then none
    else (ipv6FromString addr).map fun a => (a, some scope)

/-- `ipaddress.ip_address(str)`; `none` = `ValueError`. -/
def ipAddress (s : Str) : Option IP :=
  match ipv4Address s with
  | some a => some (.v4 a)
  | none =>
    match ipv6Address s with
    | some (a, sc) => some (.v6 a sc)
    | none => none

/-- `_compress_hextets` + `':'.join` -/
def compressV6 (a : Nat) : Str :=
  let ws := wordsOf a
  -- best run: first longest run of zero words, length > 1
  let step := fun (st : Nat × Nat × Nat × Nat × Nat) (w : Nat) =>
    -- (bestStart, bestLen, curStart (8 = none), curLen, index)
    let (bs, bl, cs, cl, i) := st
    if w == 0 then
      let cl := cl + 1
      let cs := if cs == 8 then i else cs
      if cl > bl then (cs, cl, cs, cl, i + 1) else (bs, bl, cs, cl, i + 1)
    else (bs, bl, 8, 0, i + 1)
  let (bs, bl, _, _, _) := ws.foldl step (8, 0, 8, 0, 0)
  let txt := ws.map (render 16)
  let joinC := fun (l : List Str) => (l.intersperse [':']).flatten
  if bl > 1 then
    let be := bs + bl
    let l := txt.take bs ++ [[]] ++ txt.drop be
    let l := if be == 8 then l ++ [[]] else l
    let l := if bs == 0 then [] :: l else l
    joinC l
  else joinC txt

def ipToStr (ip : IP) : Str :=
  match ip with
  | .v4 a => ntoa a
  | .v6 a none => compressV6 a
  | .v6 a (some sc) => compressV6 a ++ ['%'] ++ sc

/-! ## parse_hostport -/

/-- `s.rsplit(sep, 1)` when `sep in s` -/
def rsplit1 (sep : Char) (s : Str) : Str × Str :=
  let tailRev := s.reverse.takeWhile (· ≠ sep)
  (((s.reverse.dropWhile (· ≠ sep)).drop 1).reverse, tailRev.reverse)

/-- `s.split(sep, 1)` when `sep in s` (also `str.partition` without the separator) -/
def split1 (sep : Char) (s : Str) : Str × Str :=
  (s.takeWhile (· ≠ sep), (s.dropWhile (· ≠ sep)).drop 1)

def asciiLower (c : Char) : Char :=
  if 65 ≤ c.toNat ∧ c.toNat ≤ 90 then Char.ofNat (c.toNat + 32) else c

structure UrlParts where
  hostname : Option Str
  port     : Option Str      -- text after the colon, `None` when empty
deriving Repr

/-- `_check_bracketed_host` -/
def checkBracketedHost (h : Str) : Bool :=
  match h with
  | 'v' :: t =>
    -- `\Av[a-fA-F0-9]+\..+\Z`
    let hx := t.takeWhile fun c => (hexVal? c).isSome
    if hx.isEmpty then false else
    match t.dropWhile fun c => (hexVal? c).isSome with
    | '.' :: r => !r.isEmpty
    | _ => false
  | _ =>
    match ipAddress h with
    | some (.v6 _ _) => true
    | _ => false

/-- `urlparse('//' + host)` as far as `.hostname` / `.port` need it. `host` contains no `@`. -/
def urlparseHost (host : Str) : Except Exc UrlParts :=
  -- `_UNSAFE_URL_BYTES_TO_REMOVE`
  let url := host.filter fun c => c ≠ '\t' && c ≠ '\r' && c ≠ '\n'
  -- `_splitnetloc(url, 2)`
  let netloc := url.takeWhile fun c => c ≠ '/' && c ≠ '?' && c ≠ '#'
  if (netloc.contains '[' && !netloc.contains ']') || (netloc.contains ']' && !netloc.contains '[') then
    .error (.valueError "Invalid IPv6 URL")
  else if netloc.contains '[' && !checkBracketedHost ((split1 ']' (split1 '[' netloc).2).1) then
    .error (.valueError "bracketed host")
  else if !(netloc.all fun c => c.toNat < 128) then
    .error (.unmodelled "non-ASCII netloc (NFKC check, str.lower)")
  else
    -- `_hostinfo`
    let (hostname, port) :=
      if netloc.contains '[' then
        let bracketed := (split1 '[' netloc).2
        let (hn, after) := split1 ']' bracketed
        (hn, (split1 ':' after).2)
      else split1 ':' netloc
    let hostname : Option Str :=
      if hostname.isEmpty then none
      else
        let (hn, _) := split1 '%' hostname
        let zone := hostname.dropWhile (· ≠ '%')      -- '%' + zone, or empty
        some (hn.map asciiLower ++ zone)
    .ok ⟨hostname, if port.isEmpty then none else some port⟩

/-- the `.port` property -/
def urlPort (p : Option Str) : Except Exc (Option Nat) :=
  match p with
  | none => .ok none
  | some t =>
    if t.all (fun c => c.toNat < 128 && Inet.isDigit c) then
      match pyInt t with
      | .error e => .error e
      | .ok n => if n ≤ 65535 then .ok (some n) else .error (.valueError "Port out of range 0-65535")
    else .error (.valueError "Port could not be cast to integer value")

structure HostPort where
  username : Option Str
  password : Option Str
  port     : Option Nat
  host     : Option Str
deriving Repr, DecidableEq

/-- the user-info split of `parse_hostport`: `rsplit("@", 1)` if there is an `@`, then
`split(":", 1)` of the user part if it has a `:`.  Returns user, password, host part. -/
def splitUserinfo (s : Str) : Option Str × Option Str × Str :=
  let (username, host) : Option Str × Str :=
    if s.contains '@' then ((some (rsplit1 '@' s).1), (rsplit1 '@' s).2) else (none, s)
  let (username, password) : Option Str × Option Str :=
    match username with
    | some u => if u.contains ':' then (some (split1 ':' u).1, some (split1 ':' u).2) else (some u, none)
    | none => (none, none)
  (username, password, host)

/-- the `if ":" in host:` block of `parse_hostport`: port and host of the host part -/
def hostPart (host : Str) : Except Exc (Option Nat × Option Str) :=
  if host.contains ':' then
    match ipAddress host with
    | some ip => .ok (none, some (ipToStr ip))
    | none =>
      match urlparseHost host with
      | .error e => .error e
      | .ok parsed =>
        let host' : Option Str :=
          match parsed.hostname with
          | none => none                    -- `ip_address(None)` raises ValueError → `host = None`
          | some hn =>
            match ipAddress hn with
            | some ip => some (ipToStr ip)
            | none => some hn
        match urlPort parsed.port with
        | .error e => .error e
        | .ok port => .ok (port, host')
  else .ok (none, some host)

/-- `if password is None or len(password) == 0: password = None` -/
def normPassword (p : Option Str) : Option Str :=
  match p with
  | some p => if p.isEmpty then none else some p
  | none => none

/-- `ssh.parse_hostport`. The argument is `None` (`none`) or a string. -/
def parseHostport (r : Option Str) : Except Exc HostPort :=
  match r with
  | none => .ok ⟨none, none, none, none⟩
  | some s =>
    if s.isEmpty then .ok ⟨none, none, none, none⟩ else
    match hostPart (splitUserinfo s).2.2 with
    | .error e => .error e
    | .ok (port, host) => .ok ⟨(splitUserinfo s).1, normPassword (splitUserinfo s).2.1, port, host⟩

/-! ## environment variable + command line, `store` actions -/

/-- `args = [*env_args, *sys.argv[1:]]` (the order is read from the source). -/
def combineArgs {α : Type} (envArgs argv : List α) : List α :=
  if Gen.C16.ENV_ARGS_FIRST then envArgs ++ argv else argv ++ envArgs

/-- argparse `store` action: every occurrence of the option overwrites the destination. -/
def storeFold (dest : String) (cur : Option Str) : List (String × Str) → Option Str
  | [] => cur
  | (o, v) :: rest => storeFold dest (if o = dest then some v else cur) rest

/-- `--listen` end to end: the `store` action over environment + command-line occurrences, then
`cmdline.main`'s loop over the stored text (`none` = option never given: automatic listeners). -/
def listenAfterMerge (env : Env) (envArgs argv : List (String × Str)) :
    Option (Outcome (Option (Str × Nat) × Option (Str × Nat))) :=
  (storeFold "--listen" none (combineArgs envArgs argv)).map (parseListen env)

/-- value of a `store` option after parsing the combined argument list
(`none` = never given, the default stays). -/
def storeValue (dest : String) (envArgs argv : List (String × Str)) : Option Str :=
  storeFold dest none (combineArgs envArgs argv)

end Sshuttle.Args
