/-
Code model of the client's start-of-stream recognition (`client.py` `_main`, the two
skip-to-NUL loops and the read of the 12-byte init string) on an *unbuffered* socket
file: `rfile.read(n)` is one `recv(n)`, i.e. it returns at most what the next segment
holds.  The segmentation of the incoming byte stream is the list of chunks.
-/
import SshuttleModel.Basic
import SshuttleModel.Generated

namespace Sshuttle.Handshake

/-- Unbuffered reader: remaining segments (no empty segments are stored). -/
abbrev Reader := List Bytes

def norm : Reader → Reader
  | [] => []
  | c :: cs => if c.isEmpty then norm cs else c :: cs

/-- `rfile.read(n)`: one `recv(n)`; `[]` is EOF. -/
def read (r : Reader) (n : Nat) : Bytes × Reader :=
  match norm r with
  | [] => ([], [])
  | c :: cs => (c.take n, if (c.drop n).isEmpty then cs else c.drop n :: cs)

/-- `v = 'x'; while v and v != b'\0': v = rfile.read(1)`.
Returns `none` on EOF before a NUL.  Fuel = total bytes + 1. -/
def skipToNul : Nat → Reader → Option Reader
  | 0, _ => none
  | fuel + 1, r =>
    match read r 1 with
    | ([], _) => none                       -- EOF: `v` is falsy, loop ends
    | (b :: _, r') => if b = 0 then some r' else skipToNul fuel r'

/-- Read until `n` bytes are collected or EOF (the repaired `initstring` loop). -/
def readExactly : Nat → Reader → Nat → Bytes → Bytes × Reader
  | 0, r, _, acc => (acc, r)
  | fuel + 1, r, n, acc =>
    if acc.length ≥ n then (acc, r) else
    match read r (n - acc.length) with
    | ([], r') => (acc, r')
    | (v, r') => readExactly fuel r' n (acc ++ v)

inductive Outcome
  | ok (rest : Reader)          -- init string matched; `rest` are the unread segments
  | fatal (got : Bytes)         -- `Fatal('expected server init string …')`
deriving Repr

def total (r : Reader) : Nat := (r.map List.length).sum

def expected : Bytes := bytesOfStr Generated.SYNC_EXPECTED

/-- The whole recognition.  After EOF in a skip loop the Python simply goes on
reading (and gets `b''`), which ends in the same `Fatal`. -/
def handshake (r : Reader) : Outcome :=
  let fuel := total r + 1
  let r1 := (skipToNul fuel r).getD []
  let r2 := (skipToNul fuel r1).getD []
  let (got, r3) := readExactly (expected.length + 1) r2 expected.length []
  if got = expected then .ok r3 else .fatal got

end Sshuttle.Handshake
