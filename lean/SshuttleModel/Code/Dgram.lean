/-
Shared vocabulary of the datagram relays (C10 DNS, C11 UDP).

* tables are association lists that behave like Python dicts (assignment to an existing
  key keeps its position, a new key goes to the end, `del` removes);
* the clock is a `Nat` number of *ticks*; the harness uses ticks of 1/1024 s so that
  the float arithmetic `time.time() + 30` of the Python is exact;
* `Mux.next_channel` (ssnet.py:361-368), `client.expire_connections` (client.py:474-494),
  the method's `recv_udp` / `send_udp` (methods/__init__.py:69-78, methods/tproxy.py:19-96);
* decimal rendering (`b"%d" % n`, `"%r" % n`) and `int(bytes)`.

Every Python exception that the authors did not plan for is a constructor of `Err`.
Core Lean only.
-/
import SshuttleModel.Basic
import SshuttleModel.Generated
import SshuttleModel.Code.Mux

namespace Sshuttle.Dgram

abbrev Frame := Sshuttle.Mux.Frame

/-- A socket address as Python shows it: `(ip, port)` or, for IPv6 `recvfrom`,
`(ip, port, flowinfo, scope_id)` (`extra = [flowinfo, scope_id]`).  The `ip` is the text. -/
structure Addr where
  ip : Bytes
  port : Nat
  extra : List Nat := []
deriving DecidableEq, Repr, Inhabited

/-- Unplanned Python exceptions (and `Fatal`, which ends the process as well). -/
inductive Err
  | unboundLocal                -- `UdpProxy.callback`: `peer` used in the `except` branch (F3)
  | osError (errno : Nat)       -- `DnsProxy.try_send`: `sock.connect` outside the `try`   (F4)
  | keyError (what : String)    -- `del d[k]` / `d[k]` with `k` missing
  | valueError (what : String)  -- tuple unpack of a short `split`, `int()` of a non-number
  | typeError (what : String)   -- `None[0]`
  | assertion (what : String)   -- `assert not self.channels.get(channel)`
  | fatal (what : String)       -- `raise Fatal(…)`
deriving DecidableEq, Repr

/-- Exception class only (what the harness can see of the real exception). -/
def Err.tag : Err → String
  | .unboundLocal => "unboundLocal"
  | .osError n => s!"osError.{n}"
  | .keyError _ => "keyError"
  | .valueError _ => "valueError"
  | .typeError _ => "typeError"
  | .assertion _ => "assertion"
  | .fatal _ => "fatal"

/-! ### Python dicts as association lists -/

def lookup {κ ν : Type} [DecidableEq κ] (k : κ) : List (κ × ν) → Option ν
  | [] => none
  | (k', v) :: rest => if k' = k then some v else lookup k rest

def hasKey {κ ν : Type} [DecidableEq κ] (k : κ) (l : List (κ × ν)) : Bool := (lookup k l).isSome

/-- `del d[k]` (caller checks presence). -/
def erase {κ ν : Type} [DecidableEq κ] (k : κ) (l : List (κ × ν)) : List (κ × ν) :=
  l.filter fun p => ¬ p.1 = k

/-- `d[k] = v`. -/
def set {κ ν : Type} [DecidableEq κ] (k : κ) (v : ν) : List (κ × ν) → List (κ × ν)
  | [] => [(k, v)]
  | (k', v') :: rest => if k' = k then (k, v) :: rest else (k', v') :: set k v rest

/-! ### decimal text -/

/-- Digits of `n`, least significant first (ASCII codes). -/
def decRev (n : Nat) : Bytes :=
  if h : n < 10 then [48 + n] else (48 + n % 10) :: decRev (n / 10)
termination_by n
decreasing_by omega

/-- `b"%d" % n` and `"%r" % n` for a non-negative int. -/
def dec (n : Nat) : Bytes := (decRev n).reverse

def isDigit (b : Nat) : Bool := 48 ≤ b && b ≤ 57

def undecRev : Bytes → Nat
  | [] => 0
  | d :: ds => (d - 48) + 10 * undecRev ds

/-- `int(b)` for the byte strings that occur here: a non-empty run of ASCII digits.
Anything else is reported as `none` (= `ValueError`); Python's `int` also accepts
surrounding white space, a sign and `_` separators, which neither end ever produces. -/
def parseDec (b : Bytes) : Option Nat :=
  if b.isEmpty ∨ ¬ b.all isDigit then none else some (undecRev b.reverse)

/-! ### the `ip,port,` header (client.py:557, server.py:283, split at client.py:535 / server.py:383) -/

def comma : Nat := 44

/-- `b"%s,%d," % (ip, port)` -/
def mkHdr (ip : Bytes) (port : Nat) : Bytes := ip ++ [comma] ++ dec port ++ [comma]

/-- `x.split(b",", 1)` when a comma exists: text before the first comma, text after it. -/
def splitComma : Bytes → Option (Bytes × Bytes)
  | [] => none
  | b :: rest =>
    if b = comma then some ([], rest) else
    match splitComma rest with
    | none => none
    | some (a, r) => some (b :: a, r)

/-- `(a, b, c) = data.split(b",", 2)`; `none` when there are fewer than two commas
(Python: `ValueError: not enough values to unpack`). -/
def split2 (data : Bytes) : Option (Bytes × Bytes × Bytes) :=
  match splitComma data with
  | none => none
  | some (a, r) =>
    match splitComma r with
    | none => none
    | some (b, c) => some (a, b, c)

/-! ### methods -/

inductive Method | base | tproxy
deriving DecidableEq, Repr

/-- What the listener socket returned for one datagram.  `lsn` names the listener socket by
its address family (the `MultiListener` holds one IPv4 and one IPv6 socket); `dst` is the
original destination found in the control message (tproxy), `none` when there is none. -/
structure Capture where
  lsn : Nat
  src : Addr
  dst : Option Addr
  data : Bytes
deriving Repr

/-- `method.recv_udp(listener, 4096)`: `none` = the method returned `None` (datagram ignored).
The base method (`recvfrom`) never reports a destination. -/
def recvUdp (m : Method) (bufsize : Nat) (cap : Capture) : Option (Addr × Option Addr × Bytes) :=
  match m with
  | .base => some (cap.src, none, cap.data.take bufsize)
  | .tproxy =>
    match cap.dst with
    | none => none
    | some d => some (cap.src, some d, cap.data.take bufsize)

/-- One datagram sent by the client towards a local application. `bound = some a`: sent from
a fresh transparent socket bound to `a` (tproxy); `none`: sent from the listener socket `lsn`. -/
structure Emit where
  lsn : Nat
  bound : Option Addr
  to : Addr
  data : Bytes
deriving DecidableEq, Repr

/-- `method.send_udp(sock, srcip, dstip, data)`. -/
def sendUdp (m : Method) (lsn : Nat) (srcip : Option Addr) (dstip : Addr) (data : Bytes) :
    Except Err (List Emit) :=
  match m, srcip with
  | .base, some _ => .error (.fatal "send_udp-srcip")
  | .base, none => .ok [⟨lsn, none, dstip, data⟩]
  | .tproxy, none => .ok []
  | .tproxy, some s => .ok [⟨lsn, some s, dstip, data⟩]

/-! ### configuration (regenerated constants and code-shape flags are supplied by the driver) -/

structure Cfg where
  method : Method := .tproxy
  maxCh : Nat := Generated.MAX_CHANNEL
  probes : Nat := Generated.ALLOC_PROBES
  ticksPerS : Nat := 1024
  dnsHorizonS : Nat := Generated.CLIENT_DNS_TIMEOUT
  udpHorizonS : Nat := Generated.CLIENT_UDP_TIMEOUT
  recvMax : Nat := Generated.CLIENT_DNS_RECV
  -- server
  nslist : List Bytes := []           -- name servers in the remote host's resolv.conf
  toNs : Option (Bytes × Nat) := none -- `--to-ns host@port`
  srvDnsHorizonS : Nat := Generated.SERVER_DNS_TIMEOUT
  maxTries : Nat := Generated.DNS_MAX_TRIES
  srvRecvMax : Nat := Generated.SERVER_DNS_RECV
  netErrs : List Nat := Generated.NET_ERRS
  connectInTry : Bool := false        -- `sock.connect` inside the `try` of `try_send`
  recvErrSafe : Bool := false         -- `UdpProxy.callback`'s `except` branch does not use `peer`
deriving Repr

/-! ### client tunnel end: `Mux.channels`, the cursor, the two tables -/

/-- What `mux.channels[id]` holds. -/
inductive Cb
  | dns (qid : Nat) (lsn : Nat) (asker : Addr) (orig : Option Addr)
      -- `lambda cmd, data: dns_done(chan, data, method, listener, srcip=dstip, dstip=srcip, mux)`;
      -- `qid` is a ghost serial number of the captured query
  | udp (lsn : Nat) (src : Addr)
      -- `lambda cmd, data: udp_done(chan, data, method, listener, dstip=srcip)`
  | other
      -- some other flow's callback (a TCP `MuxWrapper`): context that occupies an id
deriving DecidableEq, Repr

structure Client where
  chani : Nat := 0
  chans : List (Nat × Cb) := []
  dnsreqs : List (Nat × Nat) := []             -- id → deadline
  udpBySrc : List (Addr × (Nat × Nat)) := []   -- source → (id, deadline)
  nq : Nat := 0                                -- ghost: DNS queries captured so far
deriving Repr

/-- `Mux.next_channel`: up to `probes` steps of the cursor; returns the cursor and the id
found (`none` = Python's implicit `None`). -/
def nextChannel (maxCh : Nat) (chans : List (Nat × Cb)) : Nat → Nat → Nat × Option Nat
  | 0, chani => (chani, none)
  | fuel + 1, chani =>
    let c := if chani + 1 > maxCh then 1 else chani + 1
    if hasKey c chans then nextChannel maxCh chans fuel c else (c, some c)

/-- `del mux.channels[chan]` for each listed id, in order. -/
def delChans : List Nat → List (Nat × Cb) → Except Err (List (Nat × Cb))
  | [], ch => .ok ch
  | k :: ks, ch =>
    if hasKey k ch then delChans ks (erase k ch) else .error (.keyError "mux.channels")

def CMD_DNS_REQ := Generated.CMD_DNS_REQ
def CMD_DNS_RESPONSE := Generated.CMD_DNS_RESPONSE
def CMD_UDP_OPEN := Generated.CMD_UDP_OPEN
def CMD_UDP_DATA := Generated.CMD_UDP_DATA
def CMD_UDP_CLOSE := Generated.CMD_UDP_CLOSE

/-- `expire_connections(now, mux)`: DNS half then UDP half.  Returns the UDP_CLOSE frames
queued, in table order. -/
def expire (now : Nat) (c : Client) : Except Err (Client × List Frame) :=
  let dexp := c.dnsreqs.filter fun p => p.2 < now
  match delChans (dexp.map (·.1)) c.chans with
  | .error e => .error e
  | .ok ch1 =>
    let uexp := c.udpBySrc.filter fun p => p.2.2 < now
    match delChans (uexp.map (·.2.1)) ch1 with
    | .error e => .error e
    | .ok ch2 =>
      .ok ({ c with chans := ch2,
                    dnsreqs := c.dnsreqs.filter fun p => ¬ p.2 < now,
                    udpBySrc := c.udpBySrc.filter fun p => ¬ p.2.2 < now },
           uexp.map fun p => ⟨p.2.1, CMD_UDP_CLOSE, []⟩)

/-- Commands that `Mux.got_packet` hands to `self.channels[channel]` (its final `else`). -/
def isChannelCmd (cmd : Nat) : Bool :=
  ! [Generated.CMD_PING, Generated.CMD_PONG, Generated.CMD_EXIT, Generated.CMD_TCP_CONNECT,
     Generated.CMD_DNS_REQ, Generated.CMD_UDP_OPEN, Generated.CMD_ROUTES,
     Generated.CMD_HOST_REQ, Generated.CMD_HOST_LIST].contains cmd

end Sshuttle.Dgram
