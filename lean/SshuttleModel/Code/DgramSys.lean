/-
The datagram relays as a state machine: client tunnel end (`CSys`), server tunnel end
(`SSys`, one `runonce` round + the end-of-round sweeps of `server.main` :407-438 per step),
and both joined by the two frame FIFOs (`Sys`; the tunnel is a reliable FIFO of frames by C07).
Steps: datagram captured, another accept event (expiry sweep only), frame delivered,
resolver / remote reply or receive error on a server socket, scripted socket-call errors,
clock advance.  Also the text protocol shared by `Drivers/C10.lean` and `Drivers/C11.lean`.
Core Lean only.
-/
import SshuttleModel.Code.Udp

namespace Sshuttle.Dgram

/-! ## client end -/

/-- A captured DNS query as the property sees it (ghost). -/
structure Query where
  qid : Nat
  chan : Nat
  lsn : Nat
  asker : Addr
  orig : Option Addr
  data : Bytes
  deadline : Nat
deriving Repr, DecidableEq

structure CSys where
  c : Client := {}
  dead : Option Err := none
  -- ghost logs
  queries : List Query := []                 -- DNS datagrams accepted, in order
  emitted : List (Option Nat × Emit) := []   -- datagrams sent to local sockets (qid for DNS answers)
  sent : List Frame := []                    -- every frame queued with mux.send
deriving Repr

inductive COp
  | dns (cap : Capture)
  | udp (cap : Capture)
  | accept                 -- any other accept: only `expire_connections(time.time(), mux)` matters here
  | occupy (id : Nat)      -- another flow takes id (context)
  | release (id : Nat)
  | frame (f : Frame)      -- `Mux.got_packet` for one frame read from the tunnel
deriving Repr

def cbQid : Option Cb → Option Nat
  | some (.dns q _ _ _) => some q
  | _ => none

def CSys.step (cfg : Cfg) (now : Nat) (s : CSys) (op : COp) : CSys :=
  if s.dead.isSome then s else
  match op with
  | .dns cap =>
    match ondns cfg now cap s.c with
    | .error e => { s with dead := some e }
    | .ok (c', frames) =>
      let qs := match frames with
        | f :: _ =>
          if c'.nq = s.c.nq then s.queries else
          s.queries ++ [⟨s.c.nq, f.chan, cap.lsn, cap.src,
                         (recvUdp cfg.method cfg.recvMax cap).bind (·.2.1), f.data,
                         now + cfg.dnsHorizonS * cfg.ticksPerS⟩]
        | [] => s.queries
      { s with c := c', queries := qs, sent := s.sent ++ frames }
  | .udp cap =>
    match onacceptUdp cfg now cap s.c with
    | .error e => { s with dead := some e }
    | .ok (c', frames) => { s with c := c', sent := s.sent ++ frames }
  | .accept =>
    match expire now s.c with
    | .error e => { s with dead := some e }
    | .ok (c', frames) => { s with c := c', sent := s.sent ++ frames }
  | .occupy id =>       -- another flow can only be given an id that is free
    if hasKey id s.c.chans then s else { s with c := { s.c with chans := set id .other s.c.chans } }
  | .release id =>      -- … and only such a flow gives it back this way
    if lookup id s.c.chans = some .other then { s with c := { s.c with chans := erase id s.c.chans } } else s
  | .frame f =>
    match clientGot cfg f s.c with
    | .error e => { s with dead := some e }
    | .ok (c', es) =>
      let q := if isChannelCmd f.cmd then cbQid (lookup f.chan s.c.chans) else none
      { s with c := c', emitted := s.emitted ++ es.map fun e => (q, e) }

/-! ## server end -/

structure Reply where          -- ghost: a datagram read from a resolver socket and relayed
  hid : Nat
  chan : Nat
  request : Bytes
  data : Bytes
deriving Repr, DecidableEq

structure SSys where
  dead : Option Err := none
  dnsH : List DnsH := []                 -- `DnsProxy` objects still in `handlers`
  udpH : List UdpH := []                 -- `UdpProxy` objects still in `handlers`
  dnshandlers : List (Nat × Nat) := []   -- channel → object
  udphandlers : List (Nat × Nat) := []
  chans : List Nat := []                 -- keys of the server's `mux.channels`
  nextSock : Nat := 0
  nextHid : Nat := 0
  -- ghost logs
  rsends : List RSend := []
  usends : List USend := []
  replies : List Reply := []
  attempts : List (Nat × Nat) := []      -- (hid, sockets created) per try_send chain
  out : List Frame := []
deriving Repr

inductive SEvent
  | mux (frames : List Frame)    -- the tunnel is readable: one `handle()` dispatches these frames
  | sock (s : Nat) (r : RecvRes) -- socket `s` is readable
  | socks (evs : List (Nat × RecvRes))
      -- several resolver sockets are readable in the same `runonce` pass: `select` reported them
      -- all, and the handlers' callbacks run in the order of the `handlers` list
deriving Repr

def SSys.fail (s : SSys) (e : Err) : SSys := { s with dead := some e }

/-- `Mux.got_packet` on the server, with the closures of `server.main`. -/
def srvGot (cfg : Cfg) (now : Nat) (f : Frame) (sc : Script) (s : SSys) : SSys × Script :=
  if s.dead.isSome then (s, sc) else
  if f.cmd = CMD_DNS_REQ then
    if s.chans.contains f.chan then (s.fail (.assertion "channels"), sc) else
    -- dns_req: `h = DnsProxy(mux, channel, data, to_nameserver)`
    let t := dnsProxyNew cfg now s.nextHid f.chan f.data s.nextSock sc
    let s1 := { s with nextSock := t.nextSock, nextHid := s.nextHid + 1,
                       rsends := s.rsends ++ t.sends,
                       attempts := s.attempts ++ [(s.nextHid, t.attempts)] }
    match t.err with
    | some e => (s1.fail e, t.script)
    | none =>
      ({ s1 with dnsH := s1.dnsH ++ [t.h], dnshandlers := set f.chan t.h.hid s1.dnshandlers }, t.script)
  else if f.cmd = CMD_UDP_OPEN then
    if s.chans.contains f.chan then (s.fail (.assertion "channels"), sc) else
    -- udp_open
    match parseDec f.data with
    | none => (s.fail (.valueError "int"), sc)
    | some fam =>
      let s1 := { s with chans := s.chans ++ [f.chan] }
      if hasKey f.chan s1.udphandlers then (s1.fail (.fatal "udp-already-open"), sc) else
      let h : UdpH := { hid := s1.nextHid, chan := f.chan, sock := s1.nextSock, family := fam }
      ({ s1 with nextSock := s1.nextSock + 1, nextHid := s1.nextHid + 1,
                 udpH := s1.udpH ++ [h], udphandlers := set f.chan h.hid s1.udphandlers }, sc)
  else if isChannelCmd f.cmd then
    if ¬ s.chans.contains f.chan then (s, sc) else        -- 'warning: closed channel'
    -- udp_req
    if f.cmd = CMD_UDP_DATA then
      match split2 f.data with
      | none => (s.fail (.valueError "split"), sc)
      | some (ip, port, payload) =>
        match parseDec port with
        | none => (s.fail (.valueError "int"), sc)
        | some p =>
          match (lookup f.chan s.udphandlers).bind fun hid => s.udpH.find? (·.hid = hid) with
          | none => (s.fail (.keyError "udphandlers"), sc)
          | some h =>
            let (r, sc) := sc.popResult
            ({ s with usends := s.usends ++ [⟨f.chan, h.sock, ip, p, payload, r⟩] }, sc)
    else if f.cmd = CMD_UDP_CLOSE then
      match lookup f.chan s.udphandlers with
      | none => (s.fail (.keyError "udphandlers"), sc)
      | some hid =>
        ({ s with udpH := s.udpH.map fun h => if h.hid = hid then { h with ok := false } else h,
                  chans := s.chans.erase f.chan }, sc)
    else (s, sc)
  else (s, sc)

def srvGotAll (cfg : Cfg) (now : Nat) : List Frame → Script → SSys → SSys × Script
  | [], sc, s => (s, sc)
  | f :: fs, sc, s =>
    let (s1, sc1) := srvGot cfg now f sc s
    srvGotAll cfg now fs sc1 s1

/-- The sweeps at the end of each round of `server.main`'s loop. -/
def srvSweep (now : Nat) (s : SSys) : SSys :=
  let gone (p : Nat × Nat) : Bool :=
    match s.dnsH.find? (·.hid = p.2) with
    | some h => h.deadline < now || !h.ok
    | none => true
  let goneHids := (s.dnshandlers.filter gone).map (·.2)
  let ugone (p : Nat × Nat) : Bool :=
    match s.udpH.find? (·.hid = p.2) with
    | some h => !h.ok
    | none => true
  { s with dnshandlers := s.dnshandlers.filter fun p => !gone p,
           dnsH := s.dnsH.map fun h => if goneHids.contains h.hid then { h with ok := false } else h,
           udphandlers := s.udphandlers.filter fun p => !ugone p }

/-- `runonce` found socket `k` of the `DnsProxy` `h` ready: its `callback(k)`. -/
def dnsSockStep (cfg : Cfg) (s : SSys) (h : DnsH) (k : Nat) (r : RecvRes) (sc : Script) : SSys :=
  let t := dnsCallback cfg h k r s.nextSock sc
  let s1 := { s with dnsH := s.dnsH.map fun h' => if h'.hid = h.hid then t.h else h',
                     nextSock := t.nextSock, rsends := s.rsends ++ t.sends,
                     out := s.out ++ t.frames,
                     replies := s.replies ++ t.frames.map fun f => ⟨h.hid, h.chan, h.request, f.data⟩,
                     attempts := match r with
                       | .err _ => s.attempts ++ [(h.hid, t.attempts)]
                       | _ => s.attempts }
  match t.err with
  | some e => s1.fail e
  | none => s1

/-- `for h in handlers: for s in h.socks: if s in ready: h.callback(s)` over the `DnsProxy`
objects listed at the start of the pass (`hids`, in list order); the script of socket-call
outcomes is consumed in that order; a raised exception ends the pass. -/
def multiSock (cfg : Cfg) (evs : List (Nat × RecvRes)) : List Nat → Script → SSys → SSys
  | [], _, s => s
  | hid :: rest, sc, s =>
    if s.dead.isSome then s else
    match s.dnsH.find? (·.hid = hid) with
    | none => multiSock cfg evs rest sc s
    | some h =>
      match h.socks.find? (fun k => evs.any (·.1 == k)) with
      | none => multiSock cfg evs rest sc s
      | some k =>
        match evs.find? (·.1 == k) with
        | none => multiSock cfg evs rest sc s
        | some (_, r) =>
          multiSock cfg evs rest (dnsCallback cfg h k r s.nextSock sc).script (dnsSockStep cfg s h k r sc)

/-- The event of one `runonce` call on the listed (live) handlers. -/
def roundEvent (cfg : Cfg) (now : Nat) (ev : SEvent) (sc : Script) (s : SSys) : SSys :=
  match ev with
  | .mux frames => (srvGotAll cfg now frames sc s).1
  | .sock k r =>
    match s.dnsH.find? (fun h => h.socks.contains k) with
    | some h => dnsSockStep cfg s h k r sc
    | none =>
      match s.udpH.find? (fun h => h.sock = k) with
      | some h =>
        match udpCallback cfg h r with
        | .error e => s.fail e
        | .ok frames => { s with out := s.out ++ frames }
      | none => s
  | .socks evs => multiSock cfg evs (s.dnsH.map (·.hid)) sc s

/-- Back in `server.main`: the sweeps, unless the round raised. -/
def finishRound (now : Nat) (s1 : SSys) : SSys :=
  if s1.dead.isSome then s1 else srvSweep now s1

/-- One round of `while mux.ok:` — `runonce` (drop dead handlers, one ready descriptor,
its callback) and the sweeps. -/
def SSys.round (cfg : Cfg) (now : Nat) (ev : SEvent) (sc : Script) (s : SSys) : SSys :=
  if s.dead.isSome then s else
  finishRound now (roundEvent cfg now ev sc
    { s with dnsH := s.dnsH.filter (·.ok), udpH := s.udpH.filter (·.ok) })

/-! ## both ends and the tunnel -/

structure Sys where
  cfg : Cfg := {}
  now : Nat := 0
  cl : CSys := {}
  sv : SSys := {}
  c2s : List Frame := []
  s2c : List Frame := []
deriving Repr

inductive Op
  | tick (d : Nat)
  | client (op : COp)              -- a client event that is not a tunnel read
  | cdeliver                       -- the client reads the next frame the server queued
  | sround (n : Nat) (sc : Script) -- the server reads the next `n` frames in one round
  | ssock (k : Nat) (r : RecvRes) (sc : Script)
  | sinject (frames : List Frame) (sc : Script)   -- arbitrary frames (not an honest step)
  | smulti (evs : List (Nat × RecvRes)) (sc : Script)   -- several resolver sockets ready in one pass
deriving Repr

/-- Frames queued by the client since `old`, moved onto the tunnel. -/
def Sys.afterClient (s : Sys) (cl' : CSys) : Sys :=
  { s with cl := cl', c2s := s.c2s ++ cl'.sent.drop s.cl.sent.length }

def Sys.afterServer (s : Sys) (sv' : SSys) : Sys :=
  { s with sv := sv', s2c := s.s2c ++ sv'.out.drop s.sv.out.length }

def Sys.step (s : Sys) : Op → Sys
  | .tick d => { s with now := s.now + d }
  | .client (.frame f) => s.afterClient (s.cl.step s.cfg s.now (.frame f))   -- injected frame
  | .client op => s.afterClient (s.cl.step s.cfg s.now op)
  | .cdeliver =>
    match s.s2c with
    | [] => s
    | f :: rest => { s with s2c := rest }.afterClient (s.cl.step s.cfg s.now (.frame f))
  | .sround n sc =>
    { s with c2s := s.c2s.drop n }.afterServer (s.sv.round s.cfg s.now (.mux (s.c2s.take n)) sc)
  | .ssock k r sc => s.afterServer (s.sv.round s.cfg s.now (.sock k r) sc)
  | .sinject frames sc => s.afterServer (s.sv.round s.cfg s.now (.mux frames) sc)
  | .smulti evs sc => s.afterServer (s.sv.round s.cfg s.now (.socks evs) sc)

def Sys.run (s : Sys) (ops : List Op) : Sys := ops.foldl Sys.step s

/-! ## text protocol (drivers only; never used in a theorem) -/

def showAddr (a : Addr) : String :=
  strOfBytes a.ip ++ "|" ++ toString a.port ++ String.join (a.extra.map fun x => "|" ++ toString x)

def showOAddr : Option Addr → String
  | none => "-"
  | some a => showAddr a

def parseAddr (t : String) : Option Addr :=
  match t.splitOn "|" with
  | ip :: port :: extra =>
    match port.toNat?, extra.mapM String.toNat? with
    | some p, some ex => some ⟨bytesOfStr ip, p, ex⟩
    | _, _ => none
  | _ => none

def parseOAddr (t : String) : Option (Option Addr) :=
  if t = "-" then some none else (parseAddr t).map some

def joinOr (sep : String) (l : List String) : String := if l.isEmpty then "-" else sep.intercalate l

def showFrames (fs : List Frame) : String :=
  joinOr ";" (fs.map fun f => s!"{f.chan}.{f.cmd}.{hexTok f.data}")

def parseFrame (t : String) : Option Frame :=
  match t.splitOn "." with
  | [c, m, h] =>
    match c.toNat?, m.toNat?, bytesOfHex h with
    | some c, some m, some d => some ⟨c, m, d⟩
    | _, _, _ => none
  | _ => none

def parseFrames (t : String) : Option (List Frame) :=
  if t = "-" then some [] else (t.splitOn ";").mapM parseFrame

def showEmit (e : Emit) : String :=
  s!"{e.lsn}>{showOAddr e.bound}>{showAddr e.to}:{hexTok e.data}"

def showCb : Cb → String
  | .dns q _ _ _ => s!"d{q}"
  | .udp _ _ => "u"
  | .other => "o"

def insertSorted (p : Nat × Cb) : List (Nat × Cb) → List (Nat × Cb)
  | [] => [p]
  | q :: rest => if p.1 ≤ q.1 then p :: q :: rest else q :: insertSorted p rest

def sortChans (l : List (Nat × Cb)) : List (Nat × Cb) := l.foldr insertSorted []

def sumNat (l : List Nat) : Nat := l.foldl (· + ·) 0

/-- Histories with hundreds of outstanding queries / associations: a digest (counts and sums of
ids and deadlines) instead of the full tables, on both sides of the comparison. -/
def showClientDigest (c : Client) : String :=
  s!"chani={c.chani} big nch={c.chans.length} sch={sumNat (c.chans.map (·.1))} " ++
  s!"ndns={c.dnsreqs.length} sdns={sumNat (c.dnsreqs.map (·.1))} ddns={sumNat (c.dnsreqs.map (·.2))} " ++
  s!"nudp={c.udpBySrc.length} sudp={sumNat (c.udpBySrc.map (·.2.1))} dudp={sumNat (c.udpBySrc.map (·.2.2))}"

def showClientFull (c : Client) : String :=
  s!"chani={c.chani} chans={joinOr "," ((sortChans c.chans).map fun p => s!"{p.1}:{showCb p.2}")} " ++
  s!"dns={joinOr "," (c.dnsreqs.map fun p => s!"{p.1}@{p.2}")} " ++
  s!"udp={joinOr "," (c.udpBySrc.map fun p => s!"{showAddr p.1}>{p.2.1}@{p.2.2}")}"

def showClient (c : Client) : String :=
  if c.chans.length > 48 then showClientDigest c else showClientFull c

def showCStep (old new : CSys) : String :=
  match new.dead with
  | some e => if old.dead.isSome then "dead" else s!"raised {e.tag}"
  | none =>
    s!"ok frames={showFrames (new.sent.drop old.sent.length)} " ++
    s!"emits={joinOr ";" ((new.emitted.drop old.emitted.length).map fun p => showEmit p.2)} " ++
    showClient new.c

def showB (b : Bool) : String := if b then "1" else "0"

def showServerDigest (s : SSys) : String :=
  s!"big ndns={s.dnsH.length} sdns={sumNat (s.dnsH.map (·.chan))} tries={sumNat (s.dnsH.map (·.tries))} " ++
  s!"okdns={(s.dnsH.filter (·.ok)).length} ndmap={s.dnshandlers.length} " ++
  s!"nudp={s.udpH.length} sudp={sumNat (s.udpH.map (·.chan))} okudp={(s.udpH.filter (·.ok)).length} " ++
  s!"numap={s.udphandlers.length} nch={s.chans.length} sch={sumNat s.chans}"

def showServerFull (s : SSys) : String :=
  s!"dns={joinOr ";" (s.dnsH.map fun h =>
      s!"{h.hid}:{h.chan}:{h.tries}:{joinOr "," (h.socks.map toString)}:{showB h.ok}@{h.deadline}")} " ++
  s!"dmap={joinOr "," (s.dnshandlers.map fun p => s!"{p.1}>{p.2}")} " ++
  s!"udp={joinOr ";" (s.udpH.map fun h => s!"{h.hid}:{h.chan}:{h.sock}:{h.family}:{showB h.ok}")} " ++
  s!"umap={joinOr "," (s.udphandlers.map fun p => s!"{p.1}>{p.2}")} " ++
  s!"ch={joinOr "," (s.chans.map toString)}"

def showServer (s : SSys) : String :=
  if s.dnsH.length + s.udpH.length > 48 then showServerDigest s else showServerFull s

def showErrno : Option Nat → String
  | none => "0"
  | some e => toString e

def showSStep (old new : SSys) : String :=
  let body :=
    s!"frames={showFrames (new.out.drop old.out.length)} " ++
    s!"rsends={joinOr ";" ((new.rsends.drop old.rsends.length).map fun r =>
        s!"{r.sock}>{strOfBytes r.peer}|{r.port}:{hexTok r.data}")} " ++
    s!"usends={joinOr ";" ((new.usends.drop old.usends.length).map fun u =>
        s!"{u.sock}>{strOfBytes u.ip}|{u.port}:{hexTok u.data}:{showErrno u.failed}")} " ++
    s!"socks={new.nextSock}"
  match new.dead with
  | some e => if old.dead.isSome then "dead" else s!"raised {e.tag} " ++ body
  | none => "ok " ++ body ++ " " ++ showServer new

def kv (key : String) (ws : List String) : Option String :=
  (ws.find? fun w => w.startsWith (key ++ "=")).map fun w => (w.drop (key.length + 1)).toString

def parseScript (ws : List String) : Option Script :=
  let picks := match kv "picks" ws with
    | none => some []
    | some "-" => some []
    | some t => some ((t.splitOn ",").map bytesOfStr)
  let res : Option (List (Option Nat)) := match kv "res" ws with
    | none => some []
    | some "-" => some []
    | some t => (t.splitOn ",").mapM fun x => x.toNat?.map fun n => if n = 0 then none else some n
  match picks, res with
  | some p, some r => some ⟨p, r⟩
  | _, _ => none

def parseCfg (base : Cfg) (ws : List String) : Option Cfg :=
  let nat (k : String) (d : Nat) : Option Nat :=
    match kv k ws with | none => some d | some t => t.toNat?
  let method : Option Method := match kv "method" ws with
    | some "base" => some .base | some "tproxy" => some .tproxy | none => some .tproxy | _ => none
  let ns0 : List Bytes := match kv "ns" ws with
    | none => [] | some "-" => [] | some t => (t.splitOn ",").map bytesOfStr
  -- `rc=<hex>`: the remote host's /etc/resolv.conf; the list is what the parsing model finds in it
  let ns : List Bytes := match (kv "rc" ws).bind bytesOfHex with
    | some text => parseResolvConf text
    | none => ns0
  let tons : Option (Option (Bytes × Nat)) := match kv "tons" ws with
    | none => some none | some "-" => some none
    | some t => match t.splitOn "@" with
      | [h, p] => p.toNat?.map fun p => some (bytesOfStr h, p)
      | _ => none
  match method, nat "max" base.maxCh, nat "probes" base.probes, tons with
  | some m, some mx, some pr, some tn =>
    -- the code-shape flags default to the generated ones; the harness repeats what it read from the tree
    let flag (k : String) (d : Bool) : Bool :=
      match kv k ws with | some "1" => true | some "0" => false | _ => d
    some { base with method := m, maxCh := mx, probes := pr, nslist := ns, toNs := tn,
                     connectInTry := flag "connect_in_try" base.connectInTry,
                     recvErrSafe := flag "recv_safe" base.recvErrSafe }
  | _, _, _, _ => none

def parseCapture (lsn src dst hex : String) : Option Capture :=
  match lsn.toNat?, parseAddr src, parseOAddr dst, bytesOfHex hex with
  | some l, some s, some d, some b => some ⟨l, s, d, b⟩
  | _, _, _, _ => none

/-- One input line → new state and one output line.  `base` carries the code-shape flags
and constants the driver was built with (`cfg` lines override what they name). -/
def textStep (base : Cfg) (s : Sys) (line : String) : Sys × List String :=
  let ws := words line
  let cstep (op : COp) : Sys × List String :=
    let s' := s.step (.client op)
    (s', [showCStep s.cl s'.cl])
  match ws with
  | "cfg" :: rest =>
    match parseCfg base rest with
    | some cfg => ({ cfg := cfg }, ["ok"])
    | none => (s, ["bad-op"])
  | ["tick", d] =>
    match d.toNat? with
    | some d => let s' := s.step (.tick d); (s', [s!"ok now={s'.now}"])
    | none => (s, ["bad-op"])
  | ["cdns", lsn, src, dst, hex] =>
    match parseCapture lsn src dst hex with
    | some cap => cstep (.dns cap)
    | none => (s, ["bad-op"])
  | ["cudp", lsn, src, dst, hex] =>
    match parseCapture lsn src dst hex with
    | some cap => cstep (.udp cap)
    | none => (s, ["bad-op"])
  | ["caccept"] => cstep .accept
  | ["occupy", i] => match i.toNat? with | some i => cstep (.occupy i) | none => (s, ["bad-op"])
  | ["release", i] => match i.toNat? with | some i => cstep (.release i) | none => (s, ["bad-op"])
  | ["cinject", f] => match parseFrame f with | some f => cstep (.frame f) | none => (s, ["bad-op"])
  | ["cdeliver"] =>
    let s' := s.step .cdeliver
    (s', [showCStep s.cl s'.cl])
  | "sround" :: n :: rest =>
    match n.toNat?, parseScript rest with
    | some n, some sc => let s' := s.step (.sround n sc); (s', [showSStep s.sv s'.sv])
    | _, _ => (s, ["bad-op"])
  | "sinject" :: fs :: rest =>
    match parseFrames fs, parseScript rest with
    | some fs, some sc => let s' := s.step (.sinject fs sc); (s', [showSStep s.sv s'.sv])
    | _, _ => (s, ["bad-op"])
  | "ssock" :: k :: "d" :: from_ :: hex :: rest =>
    match k.toNat?, parseAddr from_, bytesOfHex hex, parseScript rest with
    | some k, some a, some d, some sc =>
      let s' := s.step (.ssock k (.data a d) sc); (s', [showSStep s.sv s'.sv])
    | _, _, _, _ => (s, ["bad-op"])
  | "ssock" :: k :: "e" :: e :: rest =>
    match k.toNat?, e.toNat?, parseScript rest with
    | some k, some e, some sc =>
      let s' := s.step (.ssock k (.err e) sc); (s', [showSStep s.sv s'.sv])
    | _, _, _ => (s, ["bad-op"])
  | "smulti" :: evs :: rest =>
    -- `k.d.HEX` or `k.e.ERRNO`, joined by `;`
    let one (t : String) : Option (Nat × RecvRes) :=
      match t.splitOn "." with
      | [k, "d", hex] => match k.toNat?, bytesOfHex hex with
        | some k, some d => some (k, .data ⟨[], 0, []⟩ d) | _, _ => none
      | [k, "e", e] => match k.toNat?, e.toNat? with
        | some k, some e => some (k, .err e) | _, _ => none
      | _ => none
    match (evs.splitOn ";").mapM one, parseScript rest with
    | some evs, some sc => let s' := s.step (.smulti evs sc); (s', [showSStep s.sv s'.sv])
    | _, _ => (s, ["bad-op"])
  | ["#flush"] => (s, [])
  | _ => (s, ["bad-op"])

end Sshuttle.Dgram
