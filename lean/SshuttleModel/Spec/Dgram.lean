/-
What C10 and C11 demand, written from the property texts (no reference to how the code
keeps its tables).
-/
import SshuttleModel.Code.DgramSys

namespace Sshuttle.Dgram

/-- C11, header: a datagram travels through the tunnel as `address text , port , payload`
and must come out as exactly the same three parts, whatever bytes the payload holds. -/
def HdrRoundTrip (ip : Bytes) (port : Nat) (data : Bytes) : Prop :=
  split2 (mkHdr ip port ++ data) = some (ip, dec port, data) ∧ parseDec (dec port) = some port

/-- C10: "replies are never delivered … more than once": over the whole history of the client,
no query serial number occurs twice among the datagrams sent to askers. -/
def AtMostOncePerQuery (s : CSys) : Prop :=
  (s.emitted.filterMap (·.1)).Nodup

/-- C10: "returned … to the address that asked, sent from the original destination address
where the method exposes it". -/
def ToTheAsker (s : CSys) : Prop :=
  ∀ q e, (some q, e) ∈ s.emitted →
    ∃ qu ∈ s.queries, qu.qid = q ∧ e.to = qu.asker ∧ e.lsn = qu.lsn ∧ e.bound = qu.orig

/-- C10, full strength end to end: the datagram an asker receives is a resolver's reply to
*its own* query (same id, same request bytes), unchanged. -/
def AnswersOwnQuery (s : Sys) : Prop :=
  ∀ q e, (some q, e) ∈ s.cl.emitted →
    ∃ qu ∈ s.cl.queries, qu.qid = q ∧
      ∃ rp ∈ s.sv.replies, rp.chan = qu.chan ∧ rp.request = qu.data ∧ rp.data = e.data

/-- C10/C11, expiry: after a sweep at `now` nothing whose deadline is before `now` is left,
and everything else is exactly as it was. -/
def SweptAt (now : Nat) (before after : Client) : Prop :=
  after.dnsreqs = before.dnsreqs.filter (fun p => ¬ p.2 < now) ∧
  after.udpBySrc = before.udpBySrc.filter (fun p => ¬ p.2.2 < now)

end Sshuttle.Dgram
