/-
Specification side of C05, written from the property text and the platform headers,
not from sshuttle's code:

  * what the kernel hands out for "the destination the application dialled":
    `struct sockaddr_in`, `struct sockaddr_in6` (SO_ORIGINAL_DST, IP(V6)_ORIGDSTADDR cmsg);
  * what it means for the text the server receives to denote that destination
    (the numeric parse `socket.connect` / `sendto` apply: `inet_pton`).

A destination is `(address, port)`; an IPv4 address is its four bytes, an IPv6 address its
eight 16-bit groups (i.e. a number below 2^32 / 2^128 written in base 256 / 65536).
-/
import SshuttleModel.Code.Dst

namespace Sshuttle.Dst

structure V4 where
  a : Nat
  b : Nat
  c : Nat
  d : Nat
deriving DecidableEq, Repr

def V4.Wf (x : V4) : Prop := x.a < 256 ∧ x.b < 256 ∧ x.c < 256 ∧ x.d < 256

/-- The four bytes of a 32-bit address, most significant first. -/
def V4.ofNat (ip : Nat) : V4 := ⟨ip / 16777216 % 256, ip / 65536 % 256, ip / 256 % 256, ip % 256⟩

def V4.toNat (x : V4) : Nat := ((x.a * 256 + x.b) * 256 + x.c) * 256 + x.d

def V4.bytes (x : V4) : Bytes := [x.a, x.b, x.c, x.d]

/-- An IPv6 address: eight groups below 65536. -/
def V6Wf (gs : List Nat) : Prop := gs.length = 8 ∧ ∀ g ∈ gs, g < 65536

instance (gs : List Nat) : Decidable (V6Wf gs) := by unfold V6Wf; infer_instance

instance (x : V4) : Decidable x.Wf := by unfold V4.Wf; infer_instance

/-- The 16 bytes of an IPv6 address in network order. -/
def v6Bytes (gs : List Nat) : Bytes := packGroups gs

/-- `struct sockaddr_in` as the kernel returns it: family (two bytes, host order — any two
bytes here), port in network order, address in network order, then padding. -/
def sockaddrIn (f0 f1 port : Nat) (x : V4) (pad : Bytes) : Bytes :=
  [f0, f1, port / 256, port % 256, x.a, x.b, x.c, x.d] ++ pad

/-- `struct sockaddr_in6`: family, port (network order), flowinfo (4 bytes), address,
scope id (4 bytes). -/
def sockaddrIn6 (f0 f1 port : Nat) (flow : Bytes) (gs : List Nat) (scope : Bytes) : Bytes :=
  [f0, f1, port / 256, port % 256] ++ flow ++ v6Bytes gs ++ scope

/-- Host-order 16-bit field as laid out in memory. -/
def native16 (le : Bool) (n : Nat) : Bytes := if le then [n % 256, n / 256] else [n / 256, n % 256]

/-- Linux `IP_ORIGDSTADDR` ancillary item (level `SOL_IP` = 0, type 20): a `sockaddr_in` whose
family field holds `AF_INET` in host byte order. -/
def origDstCmsgV4 (le : Bool) (afInet port : Nat) (x : V4) (pad : Bytes) : Cmsg :=
  ⟨0, 20, native16 le afInet ++ [port / 256, port % 256, x.a, x.b, x.c, x.d] ++ pad⟩

/-- Linux `IPV6_ORIGDSTADDR` ancillary item (level `SOL_IPV6` = 41, type 74): a `sockaddr_in6`. -/
def origDstCmsgV6 (le : Bool) (afInet6 port : Nat) (flow : Bytes) (gs : List Nat) (scope : Bytes) : Cmsg :=
  ⟨41, 74, native16 le afInet6 ++ [port / 256, port % 256] ++ flow ++ v6Bytes gs ++ scope⟩

/-! ### the control buffer (Linux `put_cmsg`, 64-bit: header 16 bytes, 8-byte alignment) -/

def cmsgHdr : Nat := 16
def cmsgAlign (n : Nat) : Nat := (n + 7) / 8 * 8
/-- `CMSG_SPACE(n)`. -/
def cmsgSpace (n : Nat) : Nat := cmsgHdr + cmsgAlign n

/-- What the kernel leaves in a control buffer with `room` bytes free: items in order; one that
does not fit is cut to the room left (MSG_CTRUNC), one for which not even a header fits is lost
together with everything after it.  (The harness checks its Python twin of this function
against real loopback sockets on every run.) -/
def kernelAncillary : Nat → List Cmsg → List Cmsg
  | _, [] => []
  | room, c :: r =>
    if room < cmsgHdr then []
    else if room < cmsgHdr + c.data.length then
      [{ c with data := c.data.take (room - cmsgHdr) }]
    else c :: kernelAncillary (room - min room (cmsgSpace c.data.length)) r

/-- An ancillary item `recv_udp` must skip. -/
def Cmsg.Foreign (c : Cmsg) : Prop := ¬ (c.level = 0 ∧ c.type = 20) ∧ ¬ (c.level = 41 ∧ c.type = 74)

/-- One diverted datagram as the kernel delivers it: source key, dialled destination, payload,
and the id `next_channel()` would hand out at that moment. -/
structure Dgram where
  src : Nat
  ip : Text
  port : Nat
  data : Bytes
  fresh : Nat
  now : Nat      -- `time.time()` when the datagram is accepted (any value: the clock may even step back)
deriving Repr

/-- A sequence of datagrams through `onaccept_udp`, the association table threaded along. -/
def runUdp (fam : Nat) : UdpTable → List Dgram → List UdpEv
  | _, [] => []
  | t, d :: ds =>
    (onacceptUdp t fam d.src d.ip (Int.ofNat d.port) d.data (some d.fresh) d.now).2 ++
      runUdp fam (onacceptUdp t fam d.src d.ip (Int.ofNat d.port) d.data (some d.fresh) d.now).1 ds

/-- Payloads of the CMD_UDP_DATA frames, in order. -/
def dataPayloads : List UdpEv → List Bytes
  | [] => []
  | .data _ p :: r => p :: dataPayloads r
  | _ :: r => dataPayloads r

/-- The destination is the proxy's own listening socket: its port, a local address, and the
listener is bound to the wildcard address or to that very address. -/
def IsSelf (bindIp : Text) (wildcard : Bool) (listenPort : Int) (dstIp : Text) (dstPort : Int)
    (isLocalAddr : Text → Bool) : Prop :=
  dstPort = listenPort ∧ isLocalAddr dstIp = true ∧ (wildcard = true ∨ bindIp = dstIp)

/-- What each query of a session must read, by the property: its *own* reply as long as the
helper lives (replies pair with requests one to one, nothing else travels on the channel), end
of file afterwards. -/
def sessExpected : Bool → List SOp → List (Option ReadLine)
  | _, [] => []
  | alive, .host fails :: r => none :: sessExpected (alive && !fails) r
  | alive, .query reply :: r => some (if alive then .line reply else .eof) :: sessExpected alive r

/-- What the application dialled, as far as the address goes. -/
inductive Dialled
  | v4 (x : V4)
  | v6 (gs : List Nat)
  | v6scoped (gs : List Nat) (zone : Text)    -- link-local with a zone: `fe80::1%eth0`

def Dialled.Wf : Dialled → Prop
  | .v4 x => x.Wf
  | .v6 gs => V6Wf gs
  | .v6scoped gs zone => V6Wf gs ∧ zone ≠ [] ∧ ∀ c ∈ zone, (48 ≤ c ∧ c ≤ 57) ∨ (97 ≤ c ∧ c ≤ 122) ∨ (65 ≤ c ∧ c ≤ 90)

/-- The texts the client side can produce for it: dotted quad; either IPv6 printer; either
printer followed by `%zone` (what `getsockname()` gives for a scoped address). -/
def Dialled.Printed : Dialled → Text → Prop
  | .v4 x, t => t = strV4 x.a x.b x.c x.d
  | .v6 gs, t => t = strV6 gs ∨ t = ntopV6 gs
  | .v6scoped gs zone, t => t = strV6 gs ++ 37 :: zone ∨ t = ntopV6 gs ++ 37 :: zone

/-- The text denotes that address for the server's `connect` (numeric parse; a `%zone` suffix is
split off first, as `getaddrinfo` does). -/
def Dialled.Denoted : Dialled → Text → Prop
  | .v4 x, t => parseV4 t = some (x.a, x.b, x.c, x.d)
  | .v6 gs, t => parseV6 t = some gs
  | .v6scoped gs zone, t => ∃ a, breakAt 37 t = some (a, zone) ∧ parseV6 a = some gs

/-- The text denotes the IPv4 address `x` for the server's `connect`/`sendto`. -/
def DenotesV4 (t : Text) (x : V4) : Prop := parseV4 t = some (x.a, x.b, x.c, x.d)

/-- The text denotes the IPv6 address with groups `gs`. -/
def DenotesV6 (t : Text) (gs : List Nat) : Prop := parseV6 t = some gs

end Sshuttle.Dst
