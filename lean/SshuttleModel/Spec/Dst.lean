/-
Specification side of C05, written from the property text and the platform headers,
not from sshuttle's code:

  * what the kernel hands out for "the destination the application dialled":
    `struct sockaddr_in`, `struct sockaddr_in6` (SO_ORIGINAL_DST, IP(V6)_ORIGDSTADDR cmsg);
  * what it means for the text the server receives to denote that destination
    (the numeric parse `socket.connect` / `sendto` apply: `inet_pton`).

A destination is `(address, port)`; an IPv4 address is its four bytes, an IPv6 address its
eight 16-bit groups (i.e. a number below 2^32 / 2^128 written in base 256 / 65536).
-/
import SshuttleModel.Code.Dst

namespace Sshuttle.Dst

structure V4 where
  a : Nat
  b : Nat
  c : Nat
  d : Nat
deriving DecidableEq, Repr

def V4.Wf (x : V4) : Prop := x.a < 256 ∧ x.b < 256 ∧ x.c < 256 ∧ x.d < 256

/-- The four bytes of a 32-bit address, most significant first. -/
def V4.ofNat (ip : Nat) : V4 := ⟨ip / 16777216 % 256, ip / 65536 % 256, ip / 256 % 256, ip % 256⟩

def V4.toNat (x : V4) : Nat := ((x.a * 256 + x.b) * 256 + x.c) * 256 + x.d

def V4.bytes (x : V4) : Bytes := [x.a, x.b, x.c, x.d]

/-- An IPv6 address: eight groups below 65536. -/
def V6Wf (gs : List Nat) : Prop := gs.length = 8 ∧ ∀ g ∈ gs, g < 65536

instance (gs : List Nat) : Decidable (V6Wf gs) := by unfold V6Wf; infer_instance

instance (x : V4) : Decidable x.Wf := by unfold V4.Wf; infer_instance

/-- The 16 bytes of an IPv6 address in network order. -/
def v6Bytes (gs : List Nat) : Bytes := packGroups gs

/-- `struct sockaddr_in` as the kernel returns it: family (two bytes, host order — any two
bytes here), port in network order, address in network order, then padding. -/
def sockaddrIn (f0 f1 port : Nat) (x : V4) (pad : Bytes) : Bytes :=
  [f0, f1, port / 256, port % 256, x.a, x.b, x.c, x.d] ++ pad

/-- `struct sockaddr_in6`: family, port (network order), flowinfo (4 bytes), address,
scope id (4 bytes). -/
def sockaddrIn6 (f0 f1 port : Nat) (flow : Bytes) (gs : List Nat) (scope : Bytes) : Bytes :=
  [f0, f1, port / 256, port % 256] ++ flow ++ v6Bytes gs ++ scope

/-- Host-order 16-bit field as laid out in memory. -/
def native16 (le : Bool) (n : Nat) : Bytes := if le then [n % 256, n / 256] else [n / 256, n % 256]

/-- Linux `IP_ORIGDSTADDR` ancillary item (level `SOL_IP` = 0, type 20): a `sockaddr_in` whose
family field holds `AF_INET` in host byte order. -/
def origDstCmsgV4 (le : Bool) (afInet port : Nat) (x : V4) (pad : Bytes) : Cmsg :=
  ⟨0, 20, native16 le afInet ++ [port / 256, port % 256, x.a, x.b, x.c, x.d] ++ pad⟩

/-- Linux `IPV6_ORIGDSTADDR` ancillary item (level `SOL_IPV6` = 41, type 74): a `sockaddr_in6`. -/
def origDstCmsgV6 (le : Bool) (afInet6 port : Nat) (flow : Bytes) (gs : List Nat) (scope : Bytes) : Cmsg :=
  ⟨41, 74, native16 le afInet6 ++ [port / 256, port % 256] ++ flow ++ v6Bytes gs ++ scope⟩

/-- An ancillary item `recv_udp` must skip. -/
def Cmsg.Foreign (c : Cmsg) : Prop := ¬ (c.level = 0 ∧ c.type = 20) ∧ ¬ (c.level = 41 ∧ c.type = 74)

/-- One diverted datagram as the kernel delivers it: source key, dialled destination, payload,
and the id `next_channel()` would hand out at that moment. -/
structure Dgram where
  src : Nat
  ip : Text
  port : Nat
  data : Bytes
  fresh : Nat
deriving Repr

/-- A sequence of datagrams through `onaccept_udp`, the association table threaded along. -/
def runUdp (fam : Nat) : UdpTable → List Dgram → List UdpEv
  | _, [] => []
  | t, d :: ds =>
    (onacceptUdp t fam d.src d.ip (Int.ofNat d.port) d.data (some d.fresh)).2 ++
      runUdp fam (onacceptUdp t fam d.src d.ip (Int.ofNat d.port) d.data (some d.fresh)).1 ds

/-- Payloads of the CMD_UDP_DATA frames, in order. -/
def dataPayloads : List UdpEv → List Bytes
  | [] => []
  | .data _ p :: r => p :: dataPayloads r
  | _ :: r => dataPayloads r

/-- The destination is the proxy's own listening socket: its port, a local address, and the
listener is bound to the wildcard address or to that very address. -/
def IsSelf (bindIp : Text) (wildcard : Bool) (listenPort : Int) (dstIp : Text) (dstPort : Int)
    (isLocalAddr : Text → Bool) : Prop :=
  dstPort = listenPort ∧ isLocalAddr dstIp = true ∧ (wildcard = true ∨ bindIp = dstIp)

/-- What each query of a session must read, by the property: its *own* reply as long as the
helper lives (replies pair with requests one to one, nothing else travels on the channel), end
of file afterwards. -/
def sessExpected : Bool → List SOp → List (Option ReadLine)
  | _, [] => []
  | alive, .host fails :: r => none :: sessExpected (alive && !fails) r
  | alive, .query reply :: r => some (if alive then .line reply else .eof) :: sessExpected alive r

/-- The text denotes the IPv4 address `x` for the server's `connect`/`sendto`. -/
def DenotesV4 (t : Text) (x : V4) : Prop := parseV4 t = some (x.a, x.b, x.c, x.d)

/-- The text denotes the IPv6 address with groups `gs`. -/
def DenotesV6 (t : Text) (gs : List Nat) : Prop := parseV6 t = some gs

end Sshuttle.Dst
