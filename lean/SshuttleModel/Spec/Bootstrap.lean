/-
Specification-level vocabulary of C18, written from the property text:
"The server program assembled on the remote host consists byte for byte of the module
sources present on the client when it connects, for every source size and content, and the
session options arrive with identical values.  The client writes nothing else to the stream
until the server has announced itself."
-/
import SshuttleModel.Code.Bootstrap

namespace Sshuttle.Bootstrap.Spec

/-- A program: module names with the bytes of their sources, in load order. -/
abbrev Program := List (Bytes × Bytes)

/-- The client's program: for each name it packages, in its order, the bytes of the file
the name resolves to on the client (or the rendered options for the options module). -/
def clientProgram (fileOf : Bytes → Option Bytes) (names : List Bytes) : Option Program :=
  names.mapM fun n => (fileOf n).map fun d => (n, d)

/-- "consists byte for byte of the module sources present on the client" -/
def SameProgram (client remote : Program) : Prop := remote = client

/-- "any segmentation of the upload": the raw reads, concatenated, are the stream. -/
def Segmentation (stream : Bytes) (raw : List Bytes) : Prop := raw.flatten = stream

/-- "the session options arrive with identical values" -/
def SameOptions (client remote : List (List Nat × Val)) : Prop := remote = client

/-- "The client writes nothing else to the stream until the server has announced itself":
what was written before the init string was accepted is exactly the upload. -/
def QuietUntilSync (trace : List Ev) (upload : Bytes) : Prop :=
  writtenBeforeSync trace = upload

end Sshuttle.Bootstrap.Spec
