/-
Specification of C15's "consistent plan", written from the property text:

  In a consistent plan (a) the proxy by default listens on loopback only, (b) each listen
  address is excluded from interception unless the user listed that very address as a subnet,
  (c) IPv6 entries are present exactly when IPv6 is active, (d) every family with subnets or
  name servers has bound listeners whose ports are the ones reported to the helper, and (e) the
  DNS listener does not share the TCP listener's port.

The predicates talk about the hand-over (`Plan`: the arguments of `fw.setup` and the sockets
bound) and about what the user asked for (`--listen` given or not, the subnets listed), never
about how `client.main` computes them.  All are decidable, so the driver evaluates them too.
-/
import SshuttleModel.Code.ClientPlan

namespace Sshuttle.PlanSpec
open Sshuttle.ClientPlan

def loopbackOf : Fam → Ip
  | .v4 => 2130706433     -- 127.0.0.1
  | .v6 => 1              -- ::1

def hostWidth : Fam → Nat
  | .v4 => 32
  | .v6 => 128

def Listener.at (l : Listener) : Fam → Option Addr
  | .v4 => l.v4
  | .v6 => l.v6

/-- All listeners of a plan (TCP redirector, UDP redirector, DNS). -/
def listeners (p : Plan) : List Listener :=
  [p.tcp] ++ p.udpL.toList ++ p.dnsL.toList

def rp (p : Plan) : Fam → Nat
  | .v4 => p.rp4
  | .v6 => p.rp6

def dp (p : Plan) : Fam → Nat
  | .v4 => p.dp4
  | .v6 => p.dp6

/-- (a) Without `--listen`, every socket of the proxy is bound to the loopback address of its family. -/
def DefaultLoopback (listenGiven : Bool) (p : Plan) : Prop :=
  listenGiven = false →
    ∀ l ∈ listeners p, ∀ f a, Listener.at l f = some a → a.ip = loopbackOf f

/-- (b) Each address the TCP redirector listens on is a host-width exclude, unless the user
listed that very address among the subnets to forward. -/
def ListenExcluded (userIncludes : List Subnet) (p : Plan) : Prop :=
  ∀ f a, Listener.at p.tcp f = some a →
    (⟨f, a.ip, hostWidth f, 0, 0⟩ : Subnet) ∈ p.excludes ∨ ∃ s ∈ userIncludes, s.fam = f ∧ s.ip = a.ip

/-- IPv6 is active in a plan when its TCP redirector has an IPv6 socket. -/
def ipv6Active (p : Plan) : Bool := p.tcp.v6.isSome

/-- (c) IPv6 entries — subnets, excludes, name servers, non-zero IPv6 ports, IPv6 sockets — are
present exactly when IPv6 is active. -/
def Ipv6Exactly (p : Plan) : Prop :=
  (ipv6Active p = true → p.rp6 ≠ 0 ∧ ∃ s ∈ p.includes ++ p.excludes, s.fam = Fam.v6) ∧
  (ipv6Active p = false →
    p.rp6 = 0 ∧ p.dp6 = 0 ∧
    (∀ s ∈ p.includes, s.fam ≠ Fam.v6) ∧ (∀ s ∈ p.excludes, s.fam ≠ Fam.v6) ∧
    (∀ n ∈ p.nslist, n.fam ≠ Fam.v6) ∧ (∀ l ∈ listeners p, l.v6 = none))

/-- (d) Every family with subnets or name servers has bound listeners, and the ports reported to
the helper are exactly the ports of the bound sockets (0 = no socket). -/
def ListenersMatch (p : Plan) : Prop :=
  ∀ f : Fam,
    ((∃ s ∈ p.includes, s.fam = f) → (Listener.at p.tcp f).isSome) ∧
    ((∃ n ∈ p.nslist, n.fam = f) → ∃ d, p.dnsL = some d ∧ (Listener.at d f).isSome) ∧
    rp p f = ((Listener.at p.tcp f).map (·.port)).getD 0 ∧
    dp p f = ((p.dnsL.bind (Listener.at · f)).map (·.port)).getD 0 ∧
    (p.udp = true → p.udpL = some p.tcp) ∧ (p.udp = false → p.udpL = none) ∧
    (∀ a, Listener.at p.tcp f = some a → a.port ≠ 0) ∧
    (∀ d a, p.dnsL = some d → Listener.at d f = some a → a.port ≠ 0)

/-- (e) A DNS port is never one of the redirector ports. -/
def DnsPortDistinct (p : Plan) : Prop :=
  ∀ f g : Fam, dp p f ≠ 0 → dp p f ≠ rp p g

/-- For every active family the subnet list handed to the helper is non-empty
(what C03's pf theorems assume). -/
def FamilyListsNonempty (p : Plan) : Prop :=
  ∀ f, (Listener.at p.tcp f).isSome → ∃ s ∈ p.includes ++ p.excludes, s.fam = f

/-- "Bound listeners": every socket of the plan was granted by the operating system — the bind
oracle said yes for its (protocol, family, port), and the DNS listener does not sit on an address
this process' own UDP redirector holds. -/
def SocketsGranted (bind : Proto → Fam → Nat → Option Errno) (p : Plan) : Prop :=
  ∀ f a,
    (Listener.at p.tcp f = some a → bind .tcp f a.port = none) ∧
    (∀ u, p.udpL = some u → Listener.at u f = some a → bind .udp f a.port = none) ∧
    (∀ d, p.dnsL = some d → Listener.at d f = some a →
      bind .udp f a.port = none ∧ ∀ u, p.udpL = some u → Listener.at u f ≠ some a)

/-- The features a hand-over asks of the method, in the property's terms: IPv4 always, IPv6 iff
active, UDP iff a UDP redirector is planned, DNS iff name servers are handed over, user / group
iff `--user` / `--group` was given. -/
def requested (userGiven groupGiven : Bool) (p : Plan) : Gen.C15.FeatKey → Bool
  | .ipv4 => true
  | .ipv6 => p.tcp.v6.isSome
  | .udp => p.udp
  | .dns => !p.nslist.isEmpty
  | .user => userGiven
  | .group => groupGiven
  | .loopback_proxy_port => false

def Consistent (listenGiven : Bool) (userIncludes : List Subnet) (p : Plan) : Prop :=
  DefaultLoopback listenGiven p ∧ ListenExcluded userIncludes p ∧ Ipv6Exactly p ∧
  ListenersMatch p ∧ DnsPortDistinct p

/-! Boolean versions for the driver (same definitions, evaluated). -/

def allFam (f : Fam → Bool) : Bool := f .v4 && f .v6

def chkA (listenGiven : Bool) (p : Plan) : Bool :=
  listenGiven || (listeners p).all fun l => allFam fun f =>
    match Listener.at l f with | some a => a.ip == loopbackOf f | none => true

def chkB (userIncludes : List Subnet) (p : Plan) : Bool :=
  allFam fun f => match Listener.at p.tcp f with
    | some a => p.excludes.contains ⟨f, a.ip, hostWidth f, 0, 0⟩ ||
                userIncludes.any (fun s => s.fam == f && s.ip == a.ip)
    | none => true

def chkC (p : Plan) : Bool :=
  if ipv6Active p then p.rp6 != 0 && (p.includes ++ p.excludes).any (fun s => s.fam == Fam.v6)
  else p.rp6 == 0 && p.dp6 == 0 && p.includes.all (fun s => s.fam != Fam.v6) &&
       p.excludes.all (fun s => s.fam != Fam.v6) && p.nslist.all (fun n => n.fam != Fam.v6) &&
       (listeners p).all (fun l => l.v6.isNone)

def chkD (p : Plan) : Bool :=
  allFam fun f =>
    (!(p.includes.any (fun s => s.fam == f)) || (Listener.at p.tcp f).isSome) &&
    (!(p.nslist.any (fun n => n.fam == f)) ||
      (match p.dnsL with | some d => (Listener.at d f).isSome | none => false)) &&
    rp p f == ((Listener.at p.tcp f).map (·.port)).getD 0 &&
    dp p f == ((p.dnsL.bind (Listener.at · f)).map (·.port)).getD 0 &&
    (if p.udp then p.udpL == some p.tcp else p.udpL == none) &&
    (match Listener.at p.tcp f with | some a => a.port != 0 | none => true) &&
    (match p.dnsL.bind (Listener.at · f) with | some a => a.port != 0 | none => true)

def chkE (p : Plan) : Bool :=
  allFam fun f => allFam fun g => dp p f == 0 || dp p f != rp p g

end Sshuttle.PlanSpec
