/-
Specification for C03, written from the property text:

  "the rules installed for a set of included and excluded subnets divert a TCP connection
   to a non-local destination address and port to the proxy exactly when the most specific
   entry matching it (narrowest port range first, then longest prefix, exclusion winning
   ties) is an inclusion; traffic matching no entry, of the other address family, or (with a
   user/group restriction) of another owner is left alone.  UDP port-53 packets to the
   configured name servers, and only those, are diverted to the DNS listener, and other UDP
   is diverted only by a method that forwards UDP."

Nothing here mentions `subnet_weight`, sorting, chains or rule order.  Only the data types
of the plan (`Subnet`, `Ns`, `Plan`) and of a packet (`Pkt`, `Verdict`) are shared.
Core Lean only.
-/
import SshuttleModel.Env.PacketWalk

namespace Sshuttle.Fw.Spec

/-- Address family number of a packet. -/
def pktFam (p : Pkt) : Nat := if p.fam6 then AF_INET6 else AF_INET

/-- Address length of a family. -/
def famBits (fam : Nat) : Nat := if fam = AF_INET6 then 128 else 32

/-- `dst` lies in the network `addr/width` (addresses of `n` bits): the first `width` bits agree. -/
def contains (n addr width dst : Nat) : Bool :=
  addr / 2 ^ (n - width) == dst / 2 ^ (n - width)

/-- The entry has no port restriction. -/
def anyPort (e : Subnet) : Bool := e.fport == 0

/-- The entry matches the connection: same family, network contains the destination,
port range (if any) contains the destination port. -/
def entryMatches (e : Subnet) (p : Pkt) : Bool :=
  e.fam == pktFam p && contains (famBits e.fam) e.addr e.width p.dst &&
  (anyPort e || (decide (e.fport ≤ p.dport) && decide (p.dport ≤ e.lport)))

/-- `a`'s port range is strictly narrower than `b`'s ("no range" is the widest of all). -/
def narrower (a b : Subnet) : Bool :=
  match anyPort a, anyPort b with
  | false, true => true
  | false, false => decide (a.lport - a.fport < b.lport - b.fport)
  | true, _ => false

/-- Port ranges equally narrow. -/
def sameNarrowness (a b : Subnet) : Bool :=
  match anyPort a, anyPort b with
  | true, true => true
  | false, false => decide (a.lport - a.fport = b.lport - b.fport)
  | _, _ => false

/-- `a` takes precedence over `b`: narrower port range; or equally narrow and longer prefix;
or equal on both and `a` is an exclusion while `b` is not. -/
def beats (a b : Subnet) : Bool :=
  narrower a b ||
  (sameNarrowness a b &&
    (decide (a.width > b.width) || (decide (a.width = b.width) && a.excl && !b.excl)))

/-- The most specific matching entry is an inclusion: some matching inclusion is beaten by
no matching entry. -/
def mostSpecificIsInclude (es : List Subnet) (p : Pkt) : Bool :=
  es.any fun e => entryMatches e p && !e.excl && es.all fun e' => !(entryMatches e' p && beats e' e)

/-- With a user/group restriction only locally generated traffic of that owner is eligible. -/
def ownerOk (user group : Option String) (p : Pkt) : Bool :=
  (user.isNone && group.isNone) ||
  (p.loc && (match user with | none => true | some x => p.uid == x) &&
            (match group with | none => true | some x => p.gid == x))

/-- A UDP port-53 packet to one of the configured name servers (of its family). -/
def isDnsToNs (nslist : List Ns) (p : Pkt) : Bool :=
  p.proto == .udp && p.dport == 53 && nslist.any fun ns => ns.fam == pktFam p && ns.addr == p.dst

/-- What must happen to a packet under plan `pl` for a method that honours the owner
restriction iff `honoursOwner` and forwards UDP iff `forwardsUdp`.
(For TCP the property speaks about non-local destinations only.) -/
def expected (pl : Plan) (honoursOwner forwardsUdp : Bool) (p : Pkt) : Verdict :=
  if honoursOwner && !ownerOk pl.user pl.group p then .untouched
  else if isDnsToNs pl.nslist p then .divert (if p.fam6 then pl.dnsportV6 else pl.dnsportV4)
  else if (p.proto == .tcp || forwardsUdp) && mostSpecificIsInclude pl.subnets p
  then .divert (if p.fam6 then pl.portV6 else pl.portV4)
  else .untouched

/-- The same for the arguments of one `setup_firewall` call (one family). -/
def expectedCall (c : Call) (honoursOwner forwardsUdp : Bool) (p : Pkt) : Verdict :=
  if honoursOwner && !ownerOk c.user c.group p then .untouched
  else if isDnsToNs c.nslist p then .divert c.dnsport
  else if (p.proto == .tcp || forwardsUdp) && mostSpecificIsInclude c.subnets p
  then .divert c.port
  else .untouched

/-- Well-formed entry: what `parse_subnetport` produces for a literal address (C16):
family 2 or 10, width within the family, no port (`0,0`) or `1 ≤ fport ≤ lport ≤ 65535`. -/
def WfEntry (e : Subnet) : Prop :=
  (e.fam = AF_INET ∨ e.fam = AF_INET6) ∧ e.width ≤ famBits e.fam ∧
  ((e.fport = 0 ∧ e.lport = 0) ∨ (1 ≤ e.fport ∧ e.fport ≤ e.lport ∧ e.lport ≤ 65535))

instance (e : Subnet) : Decidable (WfEntry e) := by unfold WfEntry; infer_instance

end Sshuttle.Fw.Spec
