/-
C12, specification side: ordering predicates over traces of boundary events, written from
the property text ("the client asks the helper to install interception rules only after the
remote server has produced the synchronisation string and its route message, and reports
readiness only after the helper has confirmed … any way the main loop ends results in the
control channel to the helper being closed").

The predicates speak about *positions in a list of events* only; they know nothing of how
`client._main` is written.  `Mon` is an executable monitor for the same rules (used by the
driver on the traces of the real code, and as the invariant carrier in the proofs);
`Lemmas/ClientMainSpec.lean` proves that the monitor accepting a trace implies the predicates.
-/
import SshuttleModel.Code.ClientMain

namespace Sshuttle.ClientTrace
open Sshuttle.ClientMain

/-- Every occurrence of an event satisfying `b` has an event satisfying `a` strictly before it. -/
def Precedes (a b : Ev → Prop) (t : List Ev) : Prop :=
  ∀ pre e post, t = pre ++ e :: post → b e → ∃ x ∈ pre, a x

/-- No two occurrences of events satisfying `p`. -/
def AtMostOnce (p : Ev → Prop) (t : List Ev) : Prop :=
  ∀ pre e post, t = pre ++ e :: post → p e → ∀ x ∈ post, ¬ p x

/-- The helper is asked to install the rules: first line of the dialogue of `FirewallClient.start`. -/
def IsFwStart (e : Ev) : Prop := e = .fw .routes
/-- The synchronisation string was matched and ssh was seen alive. -/
def IsHandshakeOk (e : Ev) : Prop := e = .hsOk
/-- A ROUTES message of the server was delivered by the tunnel. -/
def IsRoutes (e : Ev) : Prop := e = .routes
/-- The helper's `STARTED` line was read back and the helper was seen alive (`start()` returned). -/
def IsConfirmed (e : Ev) : Prop := e = .started
def IsNotifyReady (e : Ev) : Prop := e = .ready

/-- Use of the control channel other than closing it. -/
def isPfileUse : Ev → Bool
  | .fw _ => true
  | .fwFlush => true
  | .fwReadline => true
  | _ => false

/-- Any line at all was sent to the helper. -/
def isFwWrite : Ev → Bool
  | .fw _ => true
  | _ => false

/-- The control channel is closed, and that is the last thing that happens to it. -/
def ClosedLast (t : List Ev) : Prop :=
  ∃ pre post, t = pre ++ Ev.close :: post ∧ ∀ x ∈ post, isPfileUse x = false ∧ x ≠ Ev.close

/-- The three ordering rules of the property. -/
def Ordered (t : List Ev) : Prop :=
  Precedes IsHandshakeOk IsFwStart t ∧ Precedes IsRoutes IsFwStart t ∧ AtMostOnce IsFwStart t ∧
  Precedes IsConfirmed IsNotifyReady t

/-! ### executable monitor -/

structure Mon where
  hs        : Bool := false
  routes    : Bool := false
  starts    : Nat := 0
  confirmed : Bool := false
  closed    : Bool := false
  bad       : Bool := false
deriving Repr, DecidableEq

def Mon.step (m : Mon) : Ev → Mon
  | .hsOk => { m with hs := true }
  | .routes => { m with routes := true }
  | .fw .routes =>
    { m with starts := m.starts + 1,
             bad := m.bad || !m.hs || !m.routes || decide (m.starts ≥ 1) || m.closed }
  | .fw _ => { m with bad := m.bad || m.closed }
  | .fwFlush => { m with bad := m.bad || m.closed }
  | .fwReadline => { m with bad := m.bad || m.closed }
  | .started => { m with confirmed := true }
  | .ready => { m with bad := m.bad || !m.confirmed }
  | .close => { m with closed := true, bad := m.bad || m.closed }
  | _ => m

def monOf (t : List Ev) : Mon := t.foldl Mon.step {}

/-- The monitor's verdict on a complete trace: the ordering rules held and the channel was closed. -/
def okTrace (t : List Ev) : Bool := !(monOf t).bad && (monOf t).closed

end Sshuttle.ClientTrace
