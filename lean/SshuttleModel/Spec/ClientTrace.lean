/-
C12, specification side: ordering predicates over traces of boundary events, written from
the property text ("the client asks the helper to install interception rules only after the
remote server has produced the synchronisation string and its route message, and reports
readiness only after the helper has confirmed … any way the main loop ends results in the
control channel to the helper being closed").

The predicates speak about *positions in a list of events* only; they know nothing of how
`client._main` is written.  `Mon` is an executable monitor for the same rules (used by the
driver on the traces of the real code, and as the invariant carrier in the proofs);
`Lemmas/ClientMainSpec.lean` proves that the monitor accepting a trace implies the predicates.
-/
import SshuttleModel.Code.ClientMain

namespace Sshuttle.ClientTrace
open Sshuttle.ClientMain

/-- Every occurrence of an event satisfying `b` has an event satisfying `a` strictly before it. -/
def Precedes (a b : Ev → Prop) (t : List Ev) : Prop :=
  ∀ pre e post, t = pre ++ e :: post → b e → ∃ x ∈ pre, a x

/-- No two occurrences of events satisfying `p`. -/
def AtMostOnce (p : Ev → Prop) (t : List Ev) : Prop :=
  ∀ pre e post, t = pre ++ e :: post → p e → ∀ x ∈ post, ¬ p x

/-- The helper is asked to install the rules: first line of the dialogue of `FirewallClient.start`. -/
def IsFwStart (e : Ev) : Prop := e = .fw .routes
/-- The synchronisation string was matched and ssh was seen alive. -/
def IsHandshakeOk (e : Ev) : Prop := ∃ b, e = .hsOk b
/-- A ROUTES message of the server was delivered by the tunnel. -/
def IsRoutes (e : Ev) : Prop := e = .routes
/-- The helper's `STARTED` line was read back and the helper was seen alive (`start()` returned). -/
def IsConfirmed (e : Ev) : Prop := e = .started
def IsNotifyReady (e : Ev) : Prop := e = .ready

/-- Use of the control channel other than closing it. -/
def isPfileUse : Ev → Bool
  | .fw _ => true
  | .fwFlush => true
  | .fwReadline => true
  | _ => false

/-- Any line at all was sent to the helper. -/
def isFwWrite : Ev → Bool
  | .fw _ => true
  | _ => false

/-- The control channel is closed, and that is the last thing that happens to it. -/
def ClosedLast (t : List Ev) : Prop :=
  ∃ pre post, t = pre ++ Ev.close :: post ∧ ∀ x ∈ post, isPfileUse x = false ∧ x ≠ Ev.close

/-- After an event satisfying `p`, no event satisfying `q`. -/
def NothingAfter (p q : Ev → Prop) (t : List Ev) : Prop :=
  ∀ pre e post, t = pre ++ e :: post → p e → ∀ x ∈ post, ¬ q x

/-- The first sign of a dead tunnel: the loop's liveness probe reported ssh gone. -/
def IsSshDead (e : Ev) : Prop := e = .sshDead

/-- Anything that belongs to a live session: a new pass, a probe, the tunnel, the helper dialogue,
readiness.  (What may still follow a dead tunnel is `rc0`, `close`, `wait`, `stop`, `cleanup`.) -/
def isSessionUse : Ev → Bool
  | .run _ => true
  | .poll => true
  | .kill => true
  | .sel => true
  | .selMux => true
  | .muxRead => true
  | .muxWrite => true
  | .accept => true
  | .routes => true
  | .fw _ => true
  | .fwFlush => true
  | .fwReadline => true
  | .fwPoll => true
  | .started => true
  | .ready => true
  | _ => false

def isProbe : Ev → Bool
  | .poll => true
  | .kill => true
  | _ => false

/-- Every pass of the main loop starts right after a liveness probe: the event immediately before
each `run i` marker is `poll` or `kill`. -/
def ProbeBeforeEachPass (t : List Ev) : Prop :=
  ∀ pre i post, t = pre ++ Ev.run i :: post → ∃ pre' p, pre = pre' ++ [p] ∧ isProbe p = true

/-- The init string every acceptance was based on is the genuine one. -/
def AcceptOnlyGenuine (t : List Ev) : Prop := ∀ b, Ev.hsOk b ∈ t → b = Handshake.expected

/-- Rules cannot outlive a dead tunnel: after the probe that saw ssh gone there is no further pass,
probe, tunnel or helper traffic and no READY, and the control channel is closed afterwards. -/
def DeadTunnelReleased (t : List Ev) : Prop :=
  NothingAfter IsSshDead (fun e => isSessionUse e = true) t ∧
  ∀ pre post, t = pre ++ Ev.sshDead :: post → Ev.close ∈ post

/-- Exactly one `close`, and the channel is not used after it. -/
def ClosedOnce (t : List Ev) : Prop :=
  Ev.close ∈ t ∧ AtMostOnce (· = Ev.close) t ∧
  NothingAfter (· = Ev.close) (fun e => isPfileUse e = true) t

/-- The three ordering rules of the property. -/
def Ordered (t : List Ev) : Prop :=
  Precedes IsHandshakeOk IsFwStart t ∧ Precedes IsRoutes IsFwStart t ∧ AtMostOnce IsFwStart t ∧
  Precedes IsConfirmed IsNotifyReady t

/-! ### executable monitor -/

structure Mon where
  hs        : Bool := false
  routes    : Bool := false
  starts    : Nat := 0
  confirmed : Bool := false
  closed    : Bool := false
  dead      : Bool := false   -- `sshDead` seen
  lastProbe : Bool := false   -- the previous event was `poll` / `kill`
  bad       : Bool := false
deriving Repr, DecidableEq

/-- Flags and verdict; `lastProbe` is maintained by `step`. -/
def Mon.core (m : Mon) : Ev → Mon
  | .hsOk b => { m with hs := true, bad := m.bad || decide (b ≠ Handshake.expected) }
  | .routes => { m with routes := true, bad := m.bad || m.dead }
  | .fw .routes =>
    { m with starts := m.starts + 1,
             bad := m.bad || !m.hs || !m.routes || decide (m.starts ≥ 1) || m.closed || m.dead }
  | .fw _ => { m with bad := m.bad || m.closed || m.dead }
  | .fwFlush => { m with bad := m.bad || m.closed || m.dead }
  | .fwReadline => { m with bad := m.bad || m.closed || m.dead }
  | .started => { m with confirmed := true, bad := m.bad || m.dead }
  | .ready => { m with bad := m.bad || !m.confirmed || m.dead }
  | .close => { m with closed := true, bad := m.bad || m.closed }
  | .sshDead => { m with dead := true, bad := m.bad || m.closed }
  | .run _ => { m with bad := m.bad || !m.lastProbe || m.dead }
  | .poll => { m with bad := m.bad || m.dead }
  | .kill => { m with bad := m.bad || m.dead }
  | .sel => { m with bad := m.bad || m.dead }
  | .selMux => { m with bad := m.bad || m.dead }
  | .muxRead => { m with bad := m.bad || m.dead }
  | .muxWrite => { m with bad := m.bad || m.dead }
  | .accept => { m with bad := m.bad || m.dead }
  | .fwPoll => { m with bad := m.bad || m.dead }
  | _ => m

def Mon.step (m : Mon) (e : Ev) : Mon := { m.core e with lastProbe := isProbe e }

def monOf (t : List Ev) : Mon := t.foldl Mon.step {}

/-- The monitor's verdict on a complete trace: the ordering rules held and the channel was closed. -/
def okTrace (t : List Ev) : Bool := !(monOf t).bad && (monOf t).closed

end Sshuttle.ClientTrace
