/-
Specification side of C17, written from the property text:

  "the server advertises, for every IPv4 route printed by the remote routing tools (iproute2 or
   netstat format), the canonical network address and prefix length, omitting default, loopback and
   0.x entries and skipping lines it cannot interpret."

This file fixes (a) what "canonical network address" means, (b) the two tool grammars — which
destination texts the tools print and which network each text denotes —, and (c) what the property
says must be advertised for a destination.  Nothing here refers to how `server.py` computes it.
Only the vocabulary `Str` / `decDigits` (decimal text of a number) is shared with the code model.

Grammars (from the iproute2 and netstat manuals and the repository's two tests):

* `ip route`:  `a.b.c.d/n  …`  (a prefix route; `n` in 0‥32), `a.b.c.d  …` (a host route, printed
  without `/32`), `default …`, and lines that start with a route type keyword (`blackhole`,
  `unreachable`, `prohibit`, `throw`, `broadcast`, `local`, `multicast`, …), which are not routes
  through which traffic can be sent.
* `netstat -rn`, Linux:  `a.b.c.d  gateway  m.m.m.m  flags …` with `m.m.m.m` a contiguous netmask.
* `netstat -rn`, BSD:  `default | a[.b[.c[.d]]][/n]  gateway  flags …`; an abbreviated network with
  `k` octets and no `/n` has prefix length `8·k`; a `/n` never exceeds `8·k`; `flags` are letters.
-/
import SshuttleModel.Code.Routes

namespace Sshuttle.Routes.Spec

open Sshuttle.Routes (Str decDigits)

/-- The network that contains `addr` for prefix length `w`: all host bits cleared. -/
def canonNet (addr w : Nat) : Nat := addr - addr % 2 ^ (32 - w)

/-- `addr/w` is canonical: no host bit is set. -/
def Canonical (addr w : Nat) : Prop := addr % 2 ^ (32 - w) = 0

/-- The netmask with `n` leading one bits. -/
def netmask (n : Nat) : Nat := 2 ^ 32 - 2 ^ (32 - n)

/-- IPv4 address whose leading octets are given, the rest zero. -/
def padded : List Nat → Nat
  | [a] => a * 2 ^ 24
  | [a, b] => a * 2 ^ 24 + b * 2 ^ 16
  | [a, b, c] => a * 2 ^ 24 + b * 2 ^ 16 + c * 2 ^ 8
  | [a, b, c, d] => a * 2 ^ 24 + b * 2 ^ 16 + c * 2 ^ 8 + d
  | _ => 0

/-- `a.b.c` … : decimal octets joined by dots. -/
def octText : List Nat → Str
  | [] => []
  | [a] => decDigits a
  | a :: rest => decDigits a ++ [46] ++ octText rest

/-- Dotted-quad text of a 32-bit address. -/
def quadText (a : Nat) : Str := octText [a / 2 ^ 24, a / 2 ^ 16 % 256, a / 2 ^ 8 % 256, a % 256]

/-- A destination as a routing tool prints it. -/
inductive Dest
  | default
  | net (octs : List Nat) (plen : Option Nat)
deriving DecidableEq, Repr

def defaultText : Str := [100, 101, 102, 97, 117, 108, 116]   -- "default"

def Dest.text : Dest → Str
  | .default => defaultText
  | .net o none => octText o
  | .net o (some n) => octText o ++ [47] ++ decDigits n

/-- Prefix length a destination denotes. -/
def Dest.width : Dest → Nat
  | .default => 0
  | .net o none => 8 * o.length
  | .net _ (some n) => n

/-- What the property says is advertised for a destination: the canonical network and its prefix
length; nothing for `default`, for loopback (127.x) and for 0.x networks. -/
def advertised : Dest → Option (Nat × Nat)
  | .default => none
  | .net o p =>
    let w := (Dest.net o p).width
    let a := canonNet (padded o) w
    if a / 2 ^ 24 = 0 ∨ a / 2 ^ 24 = 127 then none else some (a, w)

/-- The tuple `(AF_INET, 'a.b.c.d', width)` that advertises a network. -/
def toRoute (p : Nat × Nat) : Sshuttle.Routes.Route := ⟨2, quadText p.1, (p.2 : Int)⟩

/-- Well-formed destination of the `ip route` prefix form `a.b.c.d/n`. -/
def IpPrefix : Dest → Prop
  | .net [a, b, c, d] (some n) => a < 256 ∧ b < 256 ∧ c < 256 ∧ d < 256 ∧ n ≤ 32
  | _ => False

/-- `ip route` host route `a.b.c.d` (no prefix length printed). -/
def IpHost : Dest → Prop
  | .net [a, b, c, d] none => a < 256 ∧ b < 256 ∧ c < 256 ∧ d < 256
  | _ => False

/-- BSD `netstat -rn` destination: 1‥4 octets, optional `/n` with `n ≤ 8·k`. -/
def BsdNet : Dest → Prop
  | .default => True
  | .net o p => 1 ≤ o.length ∧ o.length ≤ 4 ∧ (∀ x ∈ o, x < 256) ∧ (∀ n, p = some n → n ≤ 8 * o.length)

/-- What may follow the destination on its line: nothing, or white space and then anything
the tool prints (ASCII). -/
def Rest (r : Str) : Prop :=
  (∀ c ∈ r, c < 128) ∧ (r = [] ∨ ∃ c t, r = c :: t ∧ Sshuttle.Routes.isUSpace c = true)

/-- A column: non-empty, no white space, ASCII. -/
def Column (t : Str) : Prop :=
  t ≠ [] ∧ (∀ c ∈ t, c < 128 ∧ Sshuttle.Routes.isUSpace c = false)

/-- A run of blanks between columns. -/
def Blanks (s : Str) : Prop := s ≠ [] ∧ ∀ c ∈ s, c = 32 ∨ c = 9

/-- BSD flags column: letters only. -/
def Flags (t : Str) : Prop := t ≠ [] ∧ ∀ c ∈ t, (65 ≤ c ∧ c ≤ 90) ∨ (97 ≤ c ∧ c ≤ 122)


/-! ### Whole routing tables, line by line, as the tools print them

A table is a list of lines; each line is one of the forms below.  `net` is what the property says the line
contributes to the advertisement (`none`: nothing).  Forms that carry no route: `ip route` lines whose first
word has no `/` (the `default` route, the route-type keywords `blackhole`/`unreachable`/`prohibit`/…, titles —
and bare host routes, see `IpHost` and the known finding), `netstat` titles and column headings (first word
starts with a letter or other non-digit and is not `default`), blank lines, and lines with a non-ASCII byte. -/

/-- leading white space -/
def White (s : Str) : Prop := ∀ c ∈ s, Sshuttle.Routes.isUSpace c = true

/-- a word: non-empty, no white space -/
def Word (t : Str) : Prop := t ≠ [] ∧ ∀ c ∈ t, Sshuttle.Routes.isUSpace c = false

/-- what follows a word: nothing, or white space and then anything -/
def After (r : Str) : Prop := r = [] ∨ ∃ c t, r = c :: t ∧ Sshuttle.Routes.isUSpace c = true

/-- One line of `ip route` output. -/
inductive IpLine
  | route (d : Dest) (rest : Str)        -- `a.b.c.d/n …` (metric, dev, proto, … in `rest`)
  | other (ws word rest : Str)           -- first word without `/`
  | blank (l : Str)
  | garbled (l : Str)                    -- contains a non-ASCII byte

def IpLine.bytes : IpLine → Str
  | .route d rest => d.text ++ rest
  | .other ws w rest => ws ++ w ++ rest
  | .blank l => l
  | .garbled l => l

def IpLine.Wf : IpLine → Prop
  | .route d rest => IpPrefix d ∧ Rest rest
  | .other ws w rest => White ws ∧ Word w ∧ 47 ∉ w ∧ After rest
  | .blank l => l.all Sshuttle.Routes.isBSpace = true
  | .garbled l => l.all (· < 128) = false

def IpLine.net : IpLine → Option (Nat × Nat)
  | .route d _ => advertised d
  | _ => none

/-- One line of `netstat -rn` output (Linux or BSD layout). -/
inductive NsLine
  | linux (a b c d n : Nat) (s1 gw s2 rest : Str)     -- destination, gateway, contiguous Genmask /n, …
  | bsd (d : Dest) (s1 gw s2 fl rest : Str)           -- destination (abbreviated), gateway, flags, …
  | heading (ws : Str) (c : Nat) (t rest : Str)       -- first word `c :: t` starts with a non-digit, is not `default`
  | blank (l : Str)
  | garbled (l : Str)

def NsLine.bytes : NsLine → Str
  | .linux a b c d n s1 gw s2 rest => octText [a, b, c, d] ++ s1 ++ gw ++ s2 ++ quadText (netmask n) ++ rest
  | .bsd d s1 gw s2 fl rest => d.text ++ s1 ++ gw ++ s2 ++ fl ++ rest
  | .heading ws c t rest => ws ++ (c :: t) ++ rest
  | .blank l => l
  | .garbled l => l

def NsLine.Wf : NsLine → Prop
  | .linux a b c d n s1 gw s2 rest =>
    a < 256 ∧ b < 256 ∧ c < 256 ∧ d < 256 ∧ n ≤ 32 ∧ Blanks s1 ∧ Blanks s2 ∧ Column gw ∧ Rest rest
  | .bsd d s1 gw s2 fl rest => BsdNet d ∧ Blanks s1 ∧ Blanks s2 ∧ Column gw ∧ Flags fl ∧ fl ≠ defaultText ∧ Rest rest
  | .heading ws c t rest =>
    White ws ∧ Word (c :: t) ∧ Sshuttle.Routes.isDigit c = false ∧ c :: t ≠ defaultText ∧ After rest
  | .blank l => l.all Sshuttle.Routes.isBSpace = true
  | .garbled l => l.all (· < 128) = false

def NsLine.net : NsLine → Option (Nat × Nat)
  | .linux a b c d n .. => advertised (.net [a, b, c, d] (some n))
  | .bsd d .. => advertised d
  | _ => none

/-- The advertisement the property demands for a table: the networks of its lines, in order. -/
def ipRoutes (table : List IpLine) : List Sshuttle.Routes.Route := (table.filterMap IpLine.net).map toRoute
def nsRoutes (table : List NsLine) : List Sshuttle.Routes.Route := (table.filterMap NsLine.net).map toRoute

end Sshuttle.Routes.Spec
