/-
Specification vocabulary for C14, written from the property text.

**Reading of "lines"** (DESIGN §2 C14): the lines of a file are what `split('\n')` yields
after line terminators are normalised (`\r\n`, `\r` → `\n`, as every text-mode reader does)
and white space at the very end of the file is discarded.  A missing, empty or blank file has
the single line `""`.  White space at the very end of the file is therefore not part of any
line (the code rewrites `"a\n\n"` as `"a\n"` and a missing file as `"\n"`: no line changes).
-/
import SshuttleModel.Env.Fs

namespace Sshuttle.Hosts

/-- The lines of a file given its stored content (`none` = the file does not exist). -/
def lines (c : Option Text) : List Text :=
  match c with
  | none => [[]]
  | some t => splitNl (rstrip (normNl t))

/-- The text whose lines are `ls`, each terminated by `\n`. -/
def unlines (ls : List Text) : Text := ls.flatMap (· ++ [10])

/-- A line is *own* to the instance with listener port `p` when it carries that instance's
marker `# sshuttle-firewall-<p> AUTOCREATED`. -/
def Own (p : Nat) (l : Text) : Prop := ∃ a b, l = a ++ marker p ++ b

/-- Executable form of `Own` (shown equivalent in `Lemmas/HostsText`). -/
def ownB (p : Nat) (l : Text) : Bool := hasSub (marker p) l

/-- The lines of `ls` that are not own to `p`, in order. -/
def foreign (p : Nat) (ls : List Text) : List Text := ls.filter fun l => !ownB p l

/-- The lines of `ls` that carry no marker of any port in `ps`. -/
def base (ps : List Nat) (ls : List Text) : List Text :=
  ls.filter fun l => ps.all fun p => !ownB p l

/-- The block of lines own to `p`. -/
def block (p : Nat) (ls : List Text) : List Text := ls.filter (ownB p)

/-- What the hosts file must hold once instance `p` has published host map `hm` over a file
whose lines were `before`: the other lines, unchanged and in order, then one marked line per host. -/
def expected (p : Nat) (hm : HostMap) (before : List Text) : List Text :=
  foreign p before ++ hostLines p hm

/-- Host names and addresses as C19 lets them through: no line break, no `#`. -/
def SaneText (t : Text) : Prop := 10 ∉ t ∧ 13 ∉ t ∧ 35 ∉ t
instance (t : Text) : Decidable (SaneText t) := by unfold SaneText; infer_instance
def SaneMap (hm : HostMap) : Prop := ∀ e ∈ hm, SaneText e.1 ∧ SaneText e.2

/-- A list of lines that survives being written and read back unchanged: every line free of
line breaks, and the last one either the single empty line of a blank file or ending in a
non-space character. -/
def Trimmed (ls : List Text) : Prop :=
  (∀ l ∈ ls, 10 ∉ l ∧ 13 ∉ l) ∧
  (ls = [[]] ∨ ∃ init body c, ls = init ++ [body ++ [c]] ∧ isSpace c = false)

end Sshuttle.Hosts
