/-
Specification side of C16, written from the property text and the manual
(`docs/manpage.rst`: `a.b.c.d[/width][:port[-port]]`, `0/0`, `::/0`, `[ip:]port`,
`[username[:password]@]sshserver[:port]`, "the value on the command line will take
precedence"), not from the parsing code: how a subnet / listen / remote specification is
*spelled*, and what it *denotes*.
-/
import SshuttleModel.Code.Args

namespace Sshuttle.ArgsSpec
open Sshuttle.Inet Sshuttle.Args

/-! ## IPv4 literals in every notation inet_aton-style tools accept -/

inductive Radix
  | dec      -- 184
  | oct      -- 0270
  | hex      -- 0xb8
  | hexU     -- 0XB8
deriving DecidableEq, Repr

def spellPart (r : Radix) (v : Nat) : Str :=
  match r with
  | .dec => render 10 v
  | .oct => '0' :: render 8 v
  | .hex => '0' :: 'x' :: render 16 v
  | .hexU => '0' :: 'X' :: renderU 16 v

/-- number of parts and the radix of each part -/
inductive Shape4
  | p1 (r0 : Radix)                    -- 3098282570
  | p2 (r0 r1 : Radix)                 -- 184.11274826
  | p3 (r0 r1 r2 : Radix)              -- 184.172.2634
  | p4 (r0 r1 r2 r3 : Radix)           -- 184.172.10.74
deriving DecidableEq, Repr

/-- Every spelling of the 32-bit address `a`: the leading parts are its leading bytes, the last
part is whatever is left ("a.b" = 8 + 24 bits, "a.b.c" = 8 + 8 + 16 bits). -/
def spellV4 (a : Nat) : Shape4 → Str
  | .p1 r0 => spellPart r0 a
  | .p2 r0 r1 => spellPart r0 (a / 2 ^ 24) ++ '.' :: spellPart r1 (a % 2 ^ 24)
  | .p3 r0 r1 r2 =>
    spellPart r0 (a / 2 ^ 24) ++ '.' :: (spellPart r1 (a / 2 ^ 16 % 256) ++ '.' :: spellPart r2 (a % 2 ^ 16))
  | .p4 r0 r1 r2 r3 =>
    spellPart r0 (a / 2 ^ 24) ++ '.' :: (spellPart r1 (a / 2 ^ 16 % 256) ++ '.' ::
      (spellPart r2 (a / 2 ^ 8 % 256) ++ '.' :: spellPart r3 (a % 256)))

/-- the canonical dotted quad -/
def dotted (a : Nat) : Str :=
  render 10 (a / 2 ^ 24 % 256) ++ ['.'] ++ render 10 (a / 2 ^ 16 % 256) ++ ['.'] ++
  render 10 (a / 2 ^ 8 % 256) ++ ['.'] ++ render 10 (a % 256)

/-- `/width` or nothing -/
def spellWidth : Option Nat → Str
  | none => []
  | some w => '/' :: render 10 w

inductive PortSpec
  | none
  | one (p : Nat)
  | range (p q : Nat)
deriving DecidableEq, Repr

/-- `:port`, `:port-port` or nothing -/
def spellPorts : PortSpec → Str
  | .none => []
  | .one p => ':' :: render 10 p
  | .range p q => ':' :: (render 10 p ++ '-' :: render 10 q)

def PortSpec.first : PortSpec → Nat
  | .none => 0
  | .one p => p
  | .range p _ => p

def PortSpec.last : PortSpec → Nat
  | .none => 0
  | .one p => p
  | .range _ q => q

def PortSpec.Valid : PortSpec → Prop
  | .none => True
  | .one p => p < 65536
  | .range p q => p < 65536 ∧ q < 65536

/-- a documented IPv4 subnet argument -/
def spellSubnet4 (a : Nat) (sh : Shape4) (w : Option Nat) (ps : PortSpec) : Str :=
  spellV4 a sh ++ (spellWidth w ++ spellPorts ps)

/-- what it denotes: the canonical address, the given or else maximal width, the port range -/
def denotes4 (a : Nat) (w : Option Nat) (ps : PortSpec) : Subnet :=
  ⟨.inet, dotted a, w.getD 32, ps.first, ps.last⟩

/-! ## IPv6 literals: every textual form (RFC 4291 §2.2 forms 1–3) -/

/-- one hexadecimal digit as written: its value and whether it is written in upper case -/
structure HexDigit where
  d     : Nat
  upper : Bool
deriving DecidableEq, Repr

def HexDigit.char (h : HexDigit) : Char := if h.upper then digitCharU h.d else digitChar h.d

/-- one group as written: 1–4 hex digits, leading zeros and mixed case allowed -/
abbrev Hextet := List HexDigit

def Hextet.Valid (g : Hextet) : Prop := 1 ≤ g.length ∧ g.length ≤ 4 ∧ ∀ h ∈ g, h.d < 16

def hextetText (g : Hextet) : Str := g.map HexDigit.char

def hextetVal (g : Hextet) : Nat := g.foldl (fun acc h => acc * 16 + h.d) 0

/-- groups, each followed by a colon -/
def sepG : List Hextet → Str
  | [] => []
  | g :: r => hextetText g ++ ':' :: sepG r

/-- what follows the last colon -/
inductive End6
  | nothing                 -- the text ends in `::`
  | group (g : Hextet)      -- a last group
  | quad (v : Nat)          -- the last 32 bits as a dotted quad (embedded IPv4)
deriving Repr

def End6.text : End6 → Str
  | .nothing => []
  | .group g => hextetText g
  | .quad v => dotted v

def End6.words : End6 → List Nat
  | .nothing => []
  | .group g => [hextetVal g]
  | .quad v => [v / 65536, v % 65536]

def End6.Valid : End6 → Prop
  | .nothing => True
  | .group g => g.Valid
  | .quad v => v < 2 ^ 32

/-- a textual IPv6 address: all groups written out, or one `::` standing for one or more zero groups -/
inductive Spell6
  | full (gs : List Hextet) (e : End6)
  | compressed (left right : List Hextet) (e : End6)
deriving Repr

def Spell6.text : Spell6 → Str
  | .full gs e => sepG gs ++ e.text
  | .compressed l r e => (if l.isEmpty then [':'] else []) ++ (sepG l ++ ':' :: (sepG r ++ e.text))

/-- number of 16-bit words written explicitly -/
def Spell6.explicit : Spell6 → Nat
  | .full gs e => gs.length + e.words.length
  | .compressed l r e => l.length + r.length + e.words.length

def End6.isNothing : End6 → Bool
  | .nothing => true
  | _ => false

/-- full form: exactly eight words, and the text does not end in a colon;
compressed form: at most seven explicit words (the `::` stands for at least one), and a text
that ends in `::` has nothing written to the right of it -/
def Spell6.Valid : Spell6 → Prop
  | .full gs e => (∀ g ∈ gs, g.Valid) ∧ e.Valid ∧ e.isNothing = false ∧ gs.length + e.words.length = 8
  | .compressed l r e =>
    (∀ g ∈ l, g.Valid) ∧ (∀ g ∈ r, g.Valid) ∧ e.Valid ∧ l.length + r.length + e.words.length ≤ 7 ∧
    (e.isNothing = true → r = [])

/-- the address a spelling denotes: its words, with the `::` expanded to zero words -/
def Spell6.denotes : Spell6 → Nat
  | .full gs e => wordsVal (gs.map hextetVal ++ e.words)
  | .compressed l r e =>
    wordsVal (l.map hextetVal ++
      (List.replicate (8 - (l.length + r.length + e.words.length)) 0 ++ (r.map hextetVal ++ e.words)))

/-- a documented IPv6 subnet argument: bare with optional width, or bracketed with optional
width and optional port / port range -/
inductive Form6
  | bare
  | bracketed (ps : PortSpec)
deriving Repr

def spellSubnet6 (sp : Spell6) (w : Option Nat) : Form6 → Str
  | .bare => sp.text ++ spellWidth w
  | .bracketed ps => '[' :: (sp.text ++ (spellWidth w ++ ']' :: spellPorts ps))

def Form6.ports : Form6 → PortSpec
  | .bare => .none
  | .bracketed ps => ps

/-- what it denotes; the canonical text of an IPv6 address is glibc's `inet_ntop` form -/
def denotes6 (sp : Spell6) (w : Option Nat) (f : Form6) : Subnet :=
  ⟨.inet6, ntop6 sp.denotes, w.getD 128, f.ports.first, f.ports.last⟩


/-- an environment in which nothing resolves (numeric ASCII hosts never consult it) -/
def envNone : Env := ⟨fun _ => none, fun _ => none⟩

/-! ## `--listen` / `--to-ns`: `[ip:]port` -/

/-- the three documented forms: `port`, `ip:port`, `ip` -/
inductive ListenForm
  | portOnly (p : Nat)
  | ipPort (a p : Nat)
  | ipOnly (a : Nat)

def spellListen : ListenForm → Str
  | .portOnly p => render 10 p
  | .ipPort a p => dotted a ++ ':' :: render 10 p
  | .ipOnly a => dotted a

def denotesListen : ListenForm → Family × Str × Nat
  | .portOnly p => (.inet, dotted 0, p)
  | .ipPort a p => (.inet, dotted a, p)
  | .ipOnly a => (.inet, dotted a, 0)

/-! ## `[username[:password]@]host` -/

/-- `user[:password]@host`, for a host that is a name, alias or dotted quad (no colon) -/
def spellRemote (user : Option Str) (pw : Option Str) (host : Str) : Str :=
  match user with
  | none => host
  | some u =>
    match pw with
    | none => u ++ '@' :: host
    | some p => u ++ ':' :: (p ++ '@' :: host)

/-! ## `[username[:password]@]host[:port]`: every kind of host -/

/-- characters of a host name or ssh alias -/
def nameChar (c : Char) : Bool := isAsciiAlnum c || c = '-' || c = '.' || c = '_'

/-- the host of a remote specification -/
inductive HostSpec
  | name (s : Str)                       -- a host name, an ssh alias (anything but an address literal)
  | v4 (a : Nat)                         -- a dotted quad
  | v6 (sp : Spell6) (brackets : Bool)   -- an IPv6 literal, bare or in brackets
deriving Repr

def HostSpec.text : HostSpec → Str
  | .name s => s
  | .v4 a => dotted a
  | .v6 sp b => if b then '[' :: (sp.text ++ [']']) else sp.text

def portSuffix : Option Nat → Str
  | none => []
  | some p => ':' :: render 10 p

/-- `[user[:password]@]host[:port]` -/
def renderRemote (user pw : Option Str) (h : HostSpec) (port : Option Nat) : Str :=
  spellRemote user pw (h.text ++ portSuffix port)

/-- which (host, port) pairs have an unambiguous text: a port needs a host that cannot swallow
it — an IPv6 literal must then be in brackets (`2001::1:22` *is* an address) — and a name that
is written with a port must not read as a dotted quad once lower-cased (it would be
re-canonicalised as an address) -/
def HostSpec.Valid (port : Option Nat) : HostSpec → Prop
  | .name s => s ≠ [] ∧ (∀ c ∈ s, nameChar c = true) ∧
      (port.isSome = true → ipv4Address (s.map asciiLower) = none)
  | .v4 a => a < 2 ^ 32
  | .v6 sp b => sp.Valid ∧ (port.isSome = true → b = true)

/-- the host as `parse_hostport` reports it: an address literal in the canonical text of
Python's `ipaddress` module, a name unchanged — except that `urlparse` lower-cases it when a
port is present -/
def HostSpec.canon (port : Option Nat) : HostSpec → Str
  | .name s => if port.isSome then s.map asciiLower else s
  | .v4 a => dotted a
  | .v6 sp _ => compressV6 sp.denotes

/-! ## environment and command line -/

/-- "If a given option is defined in both the environment variable and command line, the
value on the command line will take precedence": the last value on the command line if the
option occurs there, else the last one in the environment, else the default (`none`). -/
def lastOf (dest : String) : List (String × Str) → Option Str
  | [] => none
  | (o, v) :: rest =>
    match lastOf dest rest with
    | some x => some x
    | none => if o = dest then some v else none

def precedence (dest : String) (envArgs argv : List (String × Str)) : Option Str :=
  match lastOf dest argv with
  | some v => some v
  | none => lastOf dest envArgs

end Sshuttle.ArgsSpec
