/-
What C19 asks, written from the property text: the shape of a line added to the hosts file,
what a record is, and which part of a byte stream consists of complete lines.
-/
import SshuttleModel.Code.HostPipeline

namespace Sshuttle.HostPipeline
open Sshuttle.FwDialogue

/-- A dotted-quad address: four groups of one to three ASCII digits separated by dots. -/
def DottedQuad (ip : Str) : Prop :=
  ∃ a b c d, ip = a ++ 46 :: (b ++ 46 :: (c ++ 46 :: d)) ∧
    isQuadGroup a = true ∧ isQuadGroup b = true ∧ isQuadGroup c = true ∧ isQuadGroup d = true

/-- A name made only of letters, digits, `-`, `_` and `.` (and not empty). -/
def PlainName (name : Str) : Prop := name ≠ [] ∧ ∀ c ∈ name, isNameByte c = true

/-- "address, name, marker": the address, one space, the name, padding spaces, the marker of
this instance, newline. -/
def LineShape (port : Nat) (line : Str) : Prop :=
  ∃ ip name pad, line = ip ++ [32] ++ name ++ pad ++ [32] ++ marker port ++ [10] ∧
    DottedQuad ip ∧ PlainName name ∧ ∀ c ∈ pad, c = 32

/-- The text of one record as the scanner writes it. -/
def recLine (r : Str × Str) : Str := r.1 ++ [44] ++ r.2 ++ [10]

/-- The part of a byte stream made of complete lines (up to and including the last newline)
and the unterminated tail after it. -/
def cutLastNl : Bytes → Bytes × Bytes
  | [] => ([], [])
  | c :: r =>
    let p := cutLastNl r
    if c = 10 then (10 :: p.1, p.2)
    else if p.1 = [] then ([], c :: p.2)
    else (c :: p.1, p.2)

end Sshuttle.HostPipeline
