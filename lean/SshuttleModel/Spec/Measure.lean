/-
The termination measure of the tunnel world, as executable definitions (used by the theorems of
Lemmas/Measure.lean, Lemmas/MeasureWorld.lean, Props/C02.lean and printed by the driver so that
the harness can compare it with the same count taken on the real objects).

Weights: a byte still unread at an endpoint 8, buffered for the tunnel 6, in a frame 3, buffered
for a socket 2; a buffer chunk 1, a frame 2 (a PING more than the PONG that answers it); every
flag that can still be set pays for the control frame setting it may queue; a registered handler
1; a server-side handler still to be created 12; a live process 1.
-/
import SshuttleModel.Code.Tunnel

namespace Sshuttle.Tunnel
open Sshuttle.Mux (Frame)
open Sshuttle.Wrap

def b2n (b : Bool) (k : Nat) : Nat := if b then 0 else k

def bufMu (k : Nat) (l : List Bytes) : Nat := k * l.flatten.length + l.length

def sMu (s : SockW) : Nat :=
  bufMu 6 s.buf + b2n s.shutR 1 + b2n s.shutW 1 + (if s.connecting then 1 else 0) + b2n s.exc 1

def wMu (w : MuxW) : Nat := bufMu 2 w.buf + b2n w.shutR 3 + b2n w.shutW 3

def eMu (e : ESock) : Nat := 8 * e.pending.length + b2n e.sawShut 1

def frMu (fr : Frame) : Nat :=
  2 + 3 * fr.data.length + (if fr.cmd = Generated.CMD_PING then 3 + 3 * fr.data.length else 0)

def qMu : List Frame → Nat
  | [] => 0
  | fr :: rest => frMu fr + qMu rest

def hMu (p : ProxyS) : Nat := sMu p.sw + wMu p.mw + (if p.ok then 1 else 0)

/-- What a server-side handler that is still to be created can cost at most. -/
def newH : Nat := 12

def hOpt : Option ProxyS → Nat
  | none => 0
  | some p => 1 + hMu p

def fMu (f : Flow) : Nat :=
  eMu f.app + eMu f.dst + hOpt f.c + hOpt f.s + (if f.sEver then 0 else newH)

def sumMu (l : List Flow) : Nat := (l.map fMu).sum

def worldMu (w : World) : Nat :=
  (if w.died.isSome then 0 else 1) + qMu w.cm.out + qMu w.sm.out + sumMu w.flows


end Sshuttle.Tunnel
