/-
Specification vocabulary for C04, written from the property text:

  "… removes every rule, chain, table or anchor content it created for that session … Rules it
   does not own, including those of another running sshuttle instance, are left exactly as they
   were: set-up followed by tear-down is the identity on the packet-filter configuration."

`owned port s` is the part of a configuration that is reachable from names derived from `port`:
chains `sshuttle-<port>`, `sshuttle-{m,t,d}-<port>`; rules anywhere whose target is one of those
chains; the `MARK --set-mark <port>` rule; nft tables `sshuttle-ipv{4,6}-<port>`; pf anchors
`sshuttle[6]-<port>`.  `fresh port s` says that part is empty.  Nothing here mentions how
sshuttle creates or removes anything.

Core Lean only.
-/
import SshuttleModel.Env.FwState

namespace Sshuttle.Fw

def ownsName (port : Nat) : CName → Bool
  | .own _ p => p == port
  | _ => false

/-- The value of a trailing `--set-mark <value>` (sshuttle puts the two tokens last). -/
def markValue (args : List String) : Option String :=
  if args.dropLast.getLast? = some "--set-mark" then args.getLast? else none

/-- A rule belongs to `port`'s session: it jumps to one of the port's chains, or it is the
`-j MARK --set-mark <port>` rule. -/
def ownsRule (port : Nat) (r : Rule) : Bool :=
  match r.tgt with
  | .chain c => ownsName port c
  | .std s => s == "MARK" && markValue r.args == some (toString port)
  | .none => false

/-- The owned part of one iptables table: the port's chains with all their rules, and of every
other chain the rules that belong to the port (chains contributing nothing are dropped). -/
def ownedTable (port : Nat) (t : Table) : Table :=
  (t.map fun ch =>
      if ownsName port ch.name then ch else { ch with rules := ch.rules.filter (ownsRule port) }).filter
    fun ch => ownsName port ch.name || !ch.rules.isEmpty

def ownsNft (port : Nat) : NName → Bool
  | .own _ p => p == port
  | _ => false

def ownsAnchor (port : Nat) : AName → Bool
  | .own _ p => p == port
  | _ => false

structure Owned where
  ipt : Fam → Tbl → Table
  nft : List NftTable
  anchors : List (AName × List String)

def owned (port : Nat) (s : FwState) : Owned where
  ipt := fun f t => ownedTable port (s.ipt f t)
  nft := s.nft.filter fun t => ownsNft port t.name
  anchors := s.pf.anchors.filter fun a => ownsAnchor port a.1

/-- Nothing of `port`'s is present (a session on `port` has never run, or was fully undone). -/
def fresh (port : Nat) (s : FwState) : Prop :=
  (∀ f t, ownedTable port (s.ipt f t) = []) ∧
  (s.nft.filter fun t => ownsNft port t.name) = [] ∧
  (s.pf.anchors.filter fun a => ownsAnchor port a.1) = []

/-- Executable form of `fresh` on the tables the driver prints. -/
def freshB (port : Nat) (s : FwState) : Bool :=
  [Fam.v4, Fam.v6].all (fun f => [Tbl.nat, .mangle, .filter, .raw, .security].all fun t =>
    (ownedTable port (s.ipt f t)).isEmpty) &&
  (s.nft.filter fun t => ownsNft port t.name).isEmpty &&
  (s.pf.anchors.filter fun a => ownsAnchor port a.1).isEmpty

/-- The complement: what does not belong to `port` ("rules it does not own"). -/
def foreignTable (port : Nat) (t : Table) : Table :=
  (t.filter fun ch => !ownsName port ch.name).map fun ch =>
    { ch with rules := ch.rules.filter fun r => !ownsRule port r }

end Sshuttle.Fw
