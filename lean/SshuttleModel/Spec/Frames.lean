/-
Specification-level view of the tunnel byte stream: a parser written directly from
the wire format, with no reference to `want`/`inbuf`.  `Props/C07` shows the code
model refines it.
-/
import SshuttleModel.Code.Mux

namespace Sshuttle.Mux

inductive Dec
  | need                                -- not enough bytes for a whole frame yet
  | bad                                 -- first two bytes are not "SS"
  | frame (f : Frame) (rest : Bytes)
deriving Repr

def decode1 (b : Bytes) : Dec :=
  match b with
  | s1 :: s2 :: c1 :: c0 :: m1 :: m0 :: l1 :: l0 :: body =>
    if s1 = 83 ∧ s2 = 83 then
      if body.length ≥ unbe16 l1 l0 then
        .frame ⟨unbe16 c1 c0, unbe16 m1 m0, body.take (unbe16 l1 l0)⟩ (body.drop (unbe16 l1 l0))
      else .need
    else .bad
  | _ => .need

theorem decode1_frame_lt {b : Bytes} {f : Frame} {rest : Bytes}
    (h : decode1 b = .frame f rest) : rest.length < b.length := by
  unfold decode1 at h
  split at h
  · split at h
    · split at h
      · injection h with _ h2; subst h2; simp; omega
      · cases h
    · cases h
  · cases h

structure DecAll where
  frames : List Frame
  rest   : Bytes
  bad    : Bool
deriving Repr

/-- Parse as many whole frames as the byte string holds. -/
def decodeAll (b : Bytes) : DecAll :=
  match h : decode1 b with
  | .need => ⟨[], b, false⟩
  | .bad => ⟨[], b, true⟩
  | .frame f rest =>
    let r := decodeAll rest
    ⟨f :: r.frames, r.rest, r.bad⟩
termination_by b.length
decreasing_by exact decode1_frame_lt h

end Sshuttle.Mux
