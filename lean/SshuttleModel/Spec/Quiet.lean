/-
"Nothing is pending" for the tunnel world, as an executable test (used by the driver at the end
of every fair drain) — the Bool twin of `Quiet` in Props/C02.lean (`quietB_iff`).
-/
import SshuttleModel.Code.Tunnel

namespace Sshuttle.Tunnel
open Sshuttle.Wrap

def hqB (h : Option ProxyS) (e : ESock) : Bool :=
  match h with
  | none => true
  | some p =>
    !p.sw.connecting && p.sw.buf.flatten.isEmpty && p.mw.buf.flatten.isEmpty &&
    (p.sw.shutR || (e.pending.isEmpty && !e.eofIn)) &&
    (!p.sw.shutR || p.mw.shutW) && (!p.mw.shutR || p.sw.shutW) &&
    (!p.sw.shutW || p.mw.shutR) && (!p.mw.shutW || p.sw.shutR)

def quietB (w : World) : Bool :=
  w.cm.out.isEmpty && w.sm.out.isEmpty && w.flows.all fun f => hqB f.c f.app && hqB f.s f.dst

end Sshuttle.Tunnel
