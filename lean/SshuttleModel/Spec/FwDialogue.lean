/-
What C13 asks of the dialogue, written from the property text: the domain of plans the client
can compute, and the image of a plan that the helper must reconstruct (subnets with family,
network, width, port range and include/exclude flag; name servers; listener ports; UDP, user,
group and mark settings; name/address pairs).
-/
import SshuttleModel.Code.FwDialogue

namespace Sshuttle.FwDialogue

/-- Address text as the printers produce it: ASCII, no comma, no white space. -/
def TextOk (t : Str) : Prop := ∀ c ∈ t, c < 128 ∧ c ≠ 44 ∧ isSpace c = false

instance (t : Str) : Decidable (TextOk t) := by unfold TextOk; infer_instance

/-- Mark / word text: ASCII without white space. -/
def WordOk (t : Str) : Prop := ∀ c ∈ t, c < 128 ∧ isSpace c = false

instance (t : Str) : Decidable (WordOk t) := by unfold WordOk; infer_instance

/-- "numeric user/group or none" -/
def NumOrNone : Ident → Prop
  | .name _ => False
  | _ => True

instance (i : Ident) : Decidable (NumOrNone i) := by
  cases i <;> unfold NumOrNone <;> infer_instance

/-- The writer's domain named by the property. -/
structure PlanWf (p : Plan) : Prop where
  inc   : ∀ s ∈ p.includes, TextOk s.ip
  exc   : ∀ s ∈ p.excludes, TextOk s.ip
  ns    : ∀ e ∈ p.nslist, TextOk e.2
  p6    : p.port_v6 ≤ 65535
  p4    : p.port_v4 ≤ 65535
  d6    : p.dnsport_v6 ≤ 65535
  d4    : p.dnsport_v4 ≤ 65535
  user  : NumOrNone p.user
  group : NumOrNone p.group
  tmark : WordOk p.tmark

/-- The helper keeps user and group as text: a number is compared as its decimal numeral. -/
def identSpec : Ident → Option Str
  | .none => none
  | .num n => some (dec n)
  | .name s => some s

def subnetSpec (excl : Bool) (s : Subnet) : RSubnet :=
  ⟨Int.ofNat s.family, Int.ofNat s.width, excl, s.ip, Int.ofNat s.fport, Int.ofNat s.lport⟩

/-- What the helper must hold when it starts setting up: exactly the plan. -/
def planSetup (p : Plan) : Setup :=
  { subnets := p.includes.map (subnetSpec false) ++ p.excludes.map (subnetSpec true)
    nslist := p.nslist.map fun e => (Int.ofNat e.1, e.2)
    port_v6 := Int.ofNat p.port_v6
    port_v4 := Int.ofNat p.port_v4
    dnsport_v6 := Int.ofNat p.dnsport_v6
    dnsport_v4 := Int.ofNat p.dnsport_v4
    udp := p.udp
    user := identSpec p.user
    group := identSpec p.group
    tmark := p.tmark
    pid := Int.ofNat p.pid }

/-- Host names the client forwards: the allowed alphabet; addresses: digits and dots. -/
def HostOk (h : Bytes × Bytes) : Prop := h.1.all isNameByte = true ∧ h.2.all isIpByte = true

/-- Address a host map holds for a name. -/
def mapLookup (m : List (Str × Str)) (n : Str) : Option Str := (m.find? (·.1 == n)).map (·.2)

/-- The last address announced for a name in a history of updates (`none`: never announced). -/
def lastFor (updates : List (Str × Str)) (n : Str) : Option Str := mapLookup updates.reverse n

/-- Same plan, possibly another process id (the only field a cut inside the last line can touch). -/
def SamePlan (a b : Setup) : Prop := { a with pid := 0 } = { b with pid := 0 }

end Sshuttle.FwDialogue
