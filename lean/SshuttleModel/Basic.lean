/-
Shared vocabulary of every code model: bytes, big-endian 16-bit fields, hex
text for the line protocol.  Core Lean only (no Mathlib) so the drivers start fast.
-/
namespace Sshuttle

/-- A byte is a `Nat`; well-formed byte strings satisfy `WfBytes`.  Payload bytes
travel through every model unchanged, so most theorems need no bound on them. -/
abbrev Bytes := List Nat

def WfBytes (b : Bytes) : Prop := ∀ x ∈ b, x < 256

/-- Big-endian 16-bit field, as `struct.pack('!H', n)`. -/
def be16 (n : Nat) : Bytes := [n / 256, n % 256]

def unbe16 (hi lo : Nat) : Nat := hi * 256 + lo

theorem unbe16_be16 (n : Nat) : unbe16 (n / 256) (n % 256) = n := by
  unfold unbe16; omega

/-! ### hex text used by the line protocol (driver only; never in a theorem) -/

def hexDigit (n : Nat) : Char :=
  if n < 10 then Char.ofNat (48 + n) else Char.ofNat (87 + n)

def hexOfBytes (b : Bytes) : String :=
  String.ofList (b.flatMap fun x => [hexDigit (x / 16 % 16), hexDigit (x % 16)])

def hexVal (c : Char) : Option Nat :=
  let n := c.toNat
  if 48 ≤ n ∧ n ≤ 57 then some (n - 48)
  else if 97 ≤ n ∧ n ≤ 102 then some (n - 87)
  else if 65 ≤ n ∧ n ≤ 70 then some (n - 55)
  else none

def bytesOfHexAux : List Char → Option Bytes
  | [] => some []
  | [_] => none
  | a :: b :: rest =>
    match hexVal a, hexVal b, bytesOfHexAux rest with
    | some x, some y, some r => some ((x * 16 + y) :: r)
    | _, _, _ => none

/-- `"-"` denotes the empty byte string so that every field is a non-empty token. -/
def bytesOfHex (s : String) : Option Bytes :=
  if s = "-" then some [] else bytesOfHexAux s.toList

def hexTok (b : Bytes) : String := if b.isEmpty then "-" else hexOfBytes b

def strOfBytes (b : Bytes) : String := String.ofList (b.map Char.ofNat)
def bytesOfStr (s : String) : Bytes := s.toList.map Char.toNat

def words (s : String) : List String :=
  (s.splitOn " ").filter (· ≠ "")

/-- Generic line loop: `step` consumes one input line and returns the new state and
the output lines. -/
partial def lineLoop {σ : Type} (h : IO.FS.Stream) (out : IO.FS.Stream)
    (step : σ → String → σ × List String) (s : σ) : IO Unit := do
  let line ← h.getLine
  if line.isEmpty then
    out.flush
    return ()
  let l := if line.back == '\n' then (line.dropEnd 1).toString else line
  let (s', outs) := step s l
  for o in outs do out.putStrLn o
  if l == "#flush" then out.flush
  lineLoop h out step s'

def runDriver {σ : Type} (step : σ → String → σ × List String) (init : σ) : IO Unit := do
  lineLoop (← IO.getStdin) (← IO.getStdout) step init

end Sshuttle
