def hello := "world"
