/-
Frames queued by the operations of one proxy all carry that proxy's channel id
(and the queue only grows at the tail).  Used to show that a step of one flow is
invisible to every other flow.
-/
import SshuttleModel.Lemmas.WrapRefine

namespace Sshuttle.Tunnel
open Sshuttle.Mux (Frame)
open Sshuttle.Wrap

def Grows (c : Nat) (m m' : MuxL) : Prop :=
  ∃ extra, m'.out = m.out ++ extra ∧ ∀ fr ∈ extra, fr.chan = c

theorem Grows.refl (c : Nat) (m : MuxL) : Grows c m m := ⟨[], by simp, by simp⟩

theorem Grows.trans {c : Nat} {m1 m2 m3 : MuxL} (h1 : Grows c m1 m2) (h2 : Grows c m2 m3) : Grows c m1 m3 := by
  obtain ⟨x1, e1, f1⟩ := h1
  obtain ⟨x2, e2, f2⟩ := h2
  refine ⟨x1 ++ x2, by rw [e2, e1, List.append_assoc], ?_⟩
  intro fr hfr
  rcases List.mem_append.mp hfr with h | h
  · exact f1 fr h
  · exact f2 fr h

theorem send_grows (c cmd : Nat) (d : Bytes) (m : MuxL) : Grows c m (m.send c cmd d) :=
  ⟨[⟨c, cmd, d⟩], rfl, by simp⟩

theorem mwNoread_grows (w : MuxW) (m : MuxL) : Grows w.chan m (w.noread m).2 := by
  unfold MuxW.noread; split
  · exact Grows.refl ..
  · exact send_grows ..

theorem mwNowrite_grows (w : MuxW) (m : MuxL) : Grows w.chan m (w.nowrite m).2 := by
  unfold MuxW.nowrite; split
  · exact Grows.refl ..
  · exact send_grows ..

theorem mwNoread_chan (w : MuxW) (m : MuxL) : (w.noread m).1.chan = w.chan := by
  unfold MuxW.noread; split <;> rfl

theorem mwNowrite_chan (w : MuxW) (m : MuxL) : (w.nowrite m).1.chan = w.chan := by
  unfold MuxW.nowrite; split <;> rfl

theorem sockCopyToMux_grows (s : SockW) (w : MuxW) (m : MuxL) :
    Grows w.chan m (sockCopyToMux s w m).2.2 := by
  obtain ⟨moved, _, h2, _⟩ := sockCopyToMux_facts s w m
  refine ⟨_, by rw [h2, List.append_assoc], ?_⟩
  intro fr hfr
  rcases List.mem_append.mp hfr with h | h
  · split at h
    · cases h
    · simp only [List.mem_singleton] at h; rw [h]
  · split at h
    · simp only [List.mem_singleton] at h; rw [h]
    · cases h

theorem dropMux_grows (p : ProxyS) (m : MuxL) : Grows p.mw.chan m (p.dropMux m).2 := by
  unfold ProxyS.dropMux; split
  · exact mwNoread_grows { p.mw with buf := [] } m
  · exact Grows.refl ..

theorem finish_grows (p : ProxyS) (m : MuxL) (e : ESock) (se : Bool) :
    Grows p.mw.chan m (p.finish m e se).2.1 := by
  unfold ProxyS.finish; split
  · split <;> exact mwNowrite_grows p.mw m
  · exact Grows.refl ..

theorem dropSock_chan (p : ProxyS) : p.dropSock.mw.chan = p.mw.chan := by
  unfold ProxyS.dropSock; split <;> rfl

theorem dropMux_chan (p : ProxyS) (m : MuxL) : (p.dropMux m).1.mw.chan = p.mw.chan := by
  unfold ProxyS.dropMux; split
  · exact mwNoread_chan { p.mw with buf := [] } m
  · rfl

theorem preSelect_grows (p : ProxyS) (m : MuxL) : Grows p.mw.chan m (p.preSelectFlags m).2 := by
  unfold ProxyS.preSelectFlags
  by_cases hf : p.sockFirst = true
  · simp only [hf, ↓reduceIte]
    split
    · exact mwNoread_grows p.mw m
    · exact Grows.refl ..
  · simp only [hf, Bool.false_eq_true, ↓reduceIte]
    by_cases hs : (if p.mw.shutW = true then p.sw.noread else p.sw).shutW = true
    · rw [if_pos hs]; exact mwNoread_grows p.mw m
    · rw [if_neg hs]; exact Grows.refl ..

theorem preSelect_chan (p : ProxyS) (m : MuxL) : (p.preSelectFlags m).1.mw.chan = p.mw.chan := by
  unfold ProxyS.preSelectFlags
  by_cases hf : p.sockFirst = true
  · simp only [hf, ↓reduceIte]
    split
    · exact mwNoread_chan p.mw m
    · rfl
  · simp only [hf, Bool.false_eq_true, ↓reduceIte]
    by_cases hs : (if p.mw.shutW = true then p.sw.noread else p.sw).shutW = true
    · rw [if_pos hs]; exact mwNoread_chan p.mw m
    · rw [if_neg hs]

theorem cleanup_grows (p : ProxyS) (m : MuxL) (e : ESock) (se : Bool) :
    Grows p.mw.chan m (p.cleanup m e se).2.1 := by
  unfold ProxyS.cleanup
  by_cases hf : p.sockFirst = true
  · simp only [hf, ↓reduceIte]
    have h1 := dropMux_grows p.dropSock m
    rw [dropSock_chan] at h1
    have h2 := preSelect_grows (p.dropSock.dropMux m).1 (p.dropSock.dropMux m).2
    rw [dropMux_chan, dropSock_chan] at h2
    have h3 := finish_grows ((p.dropSock.dropMux m).1.preSelectFlags (p.dropSock.dropMux m).2).1
      ((p.dropSock.dropMux m).1.preSelectFlags (p.dropSock.dropMux m).2).2 e se
    rw [preSelect_chan, dropMux_chan, dropSock_chan] at h3
    exact (h1.trans h2).trans h3
  · simp only [hf, Bool.false_eq_true, ↓reduceIte]
    have h1 := dropMux_grows p m
    have h2 := preSelect_grows (p.dropMux m).1.dropSock (p.dropMux m).2
    rw [dropSock_chan, dropMux_chan] at h2
    have h3 := finish_grows ((p.dropMux m).1.dropSock.preSelectFlags (p.dropMux m).2).1
      ((p.dropMux m).1.dropSock.preSelectFlags (p.dropMux m).2).2 e se
    rw [preSelect_chan, dropSock_chan, dropMux_chan] at h3
    exact (h1.trans h2).trans h3

theorem callback_grows (p : ProxyS) (m : MuxL) (e : ESock) (io : CbIo) (p' : ProxyS) (m' : MuxL) (e' : ESock)
    (h : p.callback m e io = .ok p' m' e') : Grows p.mw.chan m m' := by
  unfold ProxyS.callback at h
  cases htc : p.sw.tryConnect e io.conn io.shutErr with
  | died => rw [htc] at h; cases h
  | ok s0 e0 =>
    rw [htc] at h
    simp only at h
    generalize s0.fill e0 io.recv io.shutErr = f at h
    obtain ⟨s1, e1⟩ := f
    simp only at h
    by_cases hf : p.sockFirst = true
    · simp only [hf, ↓reduceIte] at h
      have g1 := sockCopyToMux_grows s1 p.mw m
      have hch : (sockCopyToMux s1 p.mw m).2.1.chan = p.mw.chan := (sockCopyToMux_ok s1 p.mw m e1 p.ok).chan
      generalize sockCopyToMux s1 p.mw m = g at h g1 hch
      obtain ⟨s2, w2, m2⟩ := g
      simp only at h g1 hch
      have hch2 : (muxCopyToSock w2 s2 e1 io.send io.shutErr).1.chan = w2.chan :=
        (muxCopyToSock_ok w2.chan w2 s2 m2 e1 p.ok io.shutErr io.send).chan
      generalize muxCopyToSock w2 s2 e1 io.send io.shutErr = k at h hch2
      obtain ⟨w3, s3, e3⟩ := k
      simp only at h hch2
      have g2 := cleanup_grows { p with sw := s3, mw := w3 } m2 e3 io.shutErr
      simp only [hch2, hch, hf] at g2
      injection h with _ hm _
      subst hm
      exact g1.trans g2
    · simp only [hf, Bool.false_eq_true, ↓reduceIte] at h
      have hch2 : (muxCopyToSock p.mw s1 e1 io.send io.shutErr).1.chan = p.mw.chan :=
        (muxCopyToSock_ok p.mw.chan p.mw s1 m e1 p.ok io.shutErr io.send).chan
      generalize muxCopyToSock p.mw s1 e1 io.send io.shutErr = k at h hch2
      obtain ⟨w2, s2, e2⟩ := k
      simp only at h hch2
      have g1 := sockCopyToMux_grows s2 w2 m
      have hch : (sockCopyToMux s2 w2 m).2.1.chan = w2.chan := (sockCopyToMux_ok s2 w2 m e2 p.ok).chan
      generalize sockCopyToMux s2 w2 m = g at h g1 hch
      obtain ⟨s3, w3, m3⟩ := g
      simp only at h g1 hch
      have g2 := cleanup_grows { p with sw := s3, mw := w3 } m3 e2 io.shutErr
      have hf' : p.sockFirst = false := by simpa using hf
      simp only [hch, hch2, hf'] at g2 g1
      injection h with _ hm _
      subst hm
      exact g1.trans g2

end Sshuttle.Tunnel
