/-
Whole histories of one port: any sequence of complete rewrites (updates, restores, later
sessions on the same port), a crash inside one of them, and what the lines *not* carrying the
port's marker look like afterwards.  Also: the marker match for arbitrary surrounding text.
-/
import SshuttleModel.Lemmas.HostsSerial

namespace Sshuttle.Hosts

/-! ### the marker match, for arbitrary text around the marker -/

/-- a character that occurs in neither prefix pins down the split at its *first* occurrence -/
theorem first_split {c : Nat} {x a r t : Text} (hx : c ∉ x) (ha : c ∉ a)
    (h : x ++ c :: r = a ++ c :: t) : x = a ∧ r = t := by
  induction x generalizing a with
  | nil =>
    cases a with
    | nil => simpa using h
    | cons y a' =>
      simp only [List.nil_append, List.cons_append, List.cons.injEq] at h
      exact absurd (by simp [h.1]) ha
  | cons y x' ih =>
    cases a with
    | nil =>
      simp only [List.cons_append, List.nil_append, List.cons.injEq] at h
      exact absurd (by simp [h.1]) hx
    | cons z a' =>
      simp only [List.cons_append, List.cons.injEq] at h
      obtain ⟨h1, h2⟩ := ih (fun e => hx (by simp [e])) (fun e => ha (by simp [e])) h.2
      exact ⟨by rw [h1, h.1], h2⟩

theorem marker_in_own (p : Nat) (head tail : Text) : ownB p (head ++ marker p ++ tail) = true :=
  (ownB_iff _ _).mpr ⟨head, tail, rfl⟩

/-- A line `head ++ marker q ++ tail` with no further `#` is matched by port `p` only if `p = q`:
the text after `sshuttle-firewall-` must be *exactly* the decimal of `p` followed by
` AUTOCREATED`, so a port whose decimal is a prefix (1230 / 12300) or an extension never matches. -/
theorem marker_match_exact {p q : Nat} {head tail : Text} (hh : 35 ∉ head) (ht : 35 ∉ tail)
    (h : ownB p (head ++ marker q ++ tail) = true) : p = q := by
  obtain ⟨a, b, hab⟩ := (ownB_iff _ _).mp h
  rw [marker_eq, marker_eq] at hab
  have hr : 35 ∉ preTail ++ decimal q ++ Gen.C14.MARK_SUF ++ tail := by
    simp only [List.mem_append, not_or]
    exact ⟨⟨⟨hash_notin_preTail, notin_decimal (by omega)⟩, hash_notin_suf⟩, ht⟩
  have h' : head ++ 35 :: (preTail ++ decimal q ++ Gen.C14.MARK_SUF ++ tail) =
      a ++ 35 :: ((preTail ++ decimal p ++ Gen.C14.MARK_SUF) ++ b) := by
    have : head ++ 35 :: (preTail ++ decimal q ++ Gen.C14.MARK_SUF ++ tail) =
        head ++ 35 :: (preTail ++ decimal q ++ Gen.C14.MARK_SUF) ++ tail := by simp
    rw [this, hab]; simp
  obtain ⟨_, h2⟩ := uniq_split hh hr h'
  simp only [List.append_assoc] at h2
  have h3 := List.append_cancel_left h2
  rw [suf_eq] at h3
  have h4 : decimal p ++ 32 :: (sufTail ++ b) = decimal q ++ 32 :: (sufTail ++ tail) := by
    simpa using h3
  exact decimal_inj (first_split (notin_decimal (by omega)) (notin_decimal (by omega)) h4).1

/-! ### pieces of a prefix -/

theorem splitNl_prefix (a b : Text) :
    ∃ init l l' rest, splitNl a = init ++ [l] ∧ splitNl (a ++ b) = init ++ (l ++ l') :: rest := by
  induction a with
  | nil =>
    obtain ⟨x, xs, hx⟩ := List.exists_cons_of_ne_nil (splitNl_ne_nil b)
    exact ⟨[], [], x, xs, by simp [splitNl], by simp [hx]⟩
  | cons c cs ih =>
    obtain ⟨init, l, l', rest, h1, h2⟩ := ih
    by_cases hc : c = 10
    · exact ⟨[] :: init, l, l', rest, by simp [splitNl, hc, h1], by simp [splitNl, hc, h2]⟩
    · cases init with
      | nil =>
        exact ⟨[], c :: l, l', rest, by simp [splitNl, hc, h1], by simp [splitNl, hc, h2]⟩
      | cons i is =>
        exact ⟨(c :: i) :: is, l, l', rest, by simp [splitNl, hc, h1], by simp [splitNl, hc, h2]⟩

theorem rstrip_prefix (t : Text) : ∃ w, t = rstrip t ++ w := by
  refine ⟨(t.reverse.takeWhile isSpace).reverse, ?_⟩
  unfold rstrip
  rw [← List.reverse_append, List.takeWhile_append_dropWhile, List.reverse_reverse]

theorem splitNl_unlines (K : List Text) (hK : ∀ l ∈ K, 10 ∉ l) : splitNl (unlines K) = K ++ [[]] := by
  have := splitNl_unlines_append hK (last := []) (by simp)
  simpa using this

theorem not_own_nil (p : Nat) : ownB p [] = false := by
  simp [ownB, hasSub, marker, pre_eq]

theorem not_own_prefix {p : Nat} {l l' : Text} (h : ownB p (l ++ l') = false) : ownB p l = false := by
  cases hb : ownB p l with
  | false => rfl
  | true =>
    obtain ⟨a, b, hab⟩ := (ownB_iff _ _).mp hb
    have : ownB p (l ++ l') = true := (ownB_iff _ _).mpr ⟨a, b ++ l', by rw [hab]; simp⟩
    rw [h] at this; cases this

/-- what a list of lines reads back as once written out -/
def readBack (K : List Text) : List Text := lines (some (unlines K))

/-- Two lists of lines are the same file up to white space at the very end of the file. -/
def EqEof (A B : List Text) : Prop := readBack A = readBack B

theorem unlines_no_cr {K : List Text} (hK : ∀ l ∈ K, 10 ∉ l ∧ 13 ∉ l) : 13 ∉ unlines K := by
  simp only [unlines, List.mem_flatMap, List.mem_append, List.mem_singleton, not_exists, not_and, not_or]
  intro l hl
  exact ⟨(hK l hl).2, by decide⟩

/-- Reading back lines none of which is own to `p` yields lines none of which is own to `p`. -/
theorem foreign_readBack {p : Nat} {K : List Text} (hKf : foreign p K = K)
    (hKb : ∀ l ∈ K, 10 ∉ l ∧ 13 ∉ l) : foreign p (readBack K) = readBack K := by
  have hno : ∀ x ∈ K ++ [[]], ownB p x = false := by
    intro x hx
    rcases List.mem_append.mp hx with h | h
    · have := (List.filter_eq_self.mp hKf) x h
      simpa using this
    · simp only [List.mem_singleton] at h; subst h; exact not_own_nil p
  simp only [readBack, lines, normNl_id (unlines_no_cr hKb), foreign, List.filter_eq_self]
  obtain ⟨w, hw⟩ := rstrip_prefix (unlines K)
  obtain ⟨init, l, l', rest, h1, h2⟩ := splitNl_prefix (rstrip (unlines K)) w
  rw [← hw, splitNl_unlines K (fun x hx => (hKb x hx).1)] at h2
  intro x hx
  rw [h1] at hx
  have hmem : ∀ y ∈ init ++ (l ++ l') :: rest, ownB p y = false := by
    intro y hy; rw [← h2] at hy; exact hno y hy
  rcases List.mem_append.mp hx with h | h
  · simp [hmem x (by simp [h])]
  · simp only [List.mem_singleton] at h
    subst h
    simp [not_own_prefix (hmem (x ++ l') (by simp))]

theorem readBack_idem (K : List Text) : readBack (readBack K) = readBack K :=
  lines_unlines (lines_trimmed _)

/-! ### one rewrite, at the level of contents -/

/-- The content a rewrite installs, read back: the foreign lines are the old foreign lines, up
to white space at the very end of the file (exactly, while the instance has hosts). -/
theorem foreign_new_content (p : Nat) (hm : HostMap) (hl : LineMap hm) (c : Option Text) :
    EqEof (foreign p (lines (some (unlines (expected p hm (lines c)))))) (foreign p (lines c)) := by
  have hKf := foreign_idem p (lines c)
  have hKb := foreign_breakfree p c
  by_cases hne : hm = []
  · subst hne
    simp only [expected, hostLines_nil, List.append_nil]
    show readBack (foreign p (readBack (foreign p (lines c)))) = readBack (foreign p (lines c))
    rw [foreign_readBack hKf hKb, readBack_idem]
  · rw [expected, lines_unlines (trimmed_with_hostLines hKb p hl hne), foreign_append, hKf,
      foreign_hostLines, List.append_nil]
    rfl

theorem foreign_new_content_exact (p : Nat) (hm : HostMap) (hl : LineMap hm) (c : Option Text)
    (hT : Trimmed (foreign p (lines c))) :
    foreign p (lines (some (unlines (expected p hm (lines c))))) = foreign p (lines c) := by
  have hKf := foreign_idem p (lines c)
  have hKb := foreign_breakfree p c
  by_cases hne : hm = []
  · subst hne
    simp only [expected, hostLines_nil, List.append_nil]
    rw [lines_unlines hT, hKf]
  · rw [expected, lines_unlines (trimmed_with_hostLines hKb p hl hne), foreign_append, hKf,
      foreign_hostLines, List.append_nil]

/-! ### any sequence of complete rewrites by one port -/

/-- A history of complete rewrites by port `p`: updates, restores (empty map), later sessions on
the same port — any maps in any order. -/
def rewrites (p : Nat) : List HostMap → Fs → Fs
  | [], fs => fs
  | m :: ms, fs => rewrites p ms (finish (rewrite m p) fs)

theorem foreign_rewrites (p : Nat) (ms : List HostMap) (hms : ∀ m ∈ ms, LineMap m) (fs : Fs) :
    EqEof (foreign p (lines ((rewrites p ms fs).content .hosts)))
      (foreign p (lines (fs.content .hosts))) := by
  induction ms generalizing fs with
  | nil => rfl
  | cons m ms ih =>
    simp only [rewrites]
    have h1 := ih (fun x hx => hms x (by simp [hx])) (finish (rewrite m p) fs)
    have h2 := foreign_new_content p m (hms m (by simp)) (fs.content .hosts)
    rw [← finish_rewrite] at h2
    exact h1.trans h2

theorem foreign_rewrites_exact (p : Nat) (ms : List HostMap) (hms : ∀ m ∈ ms, LineMap m) (fs : Fs)
    (hT : Trimmed (foreign p (lines (fs.content .hosts)))) :
    foreign p (lines ((rewrites p ms fs).content .hosts)) = foreign p (lines (fs.content .hosts)) := by
  induction ms generalizing fs with
  | nil => rfl
  | cons m ms ih =>
    simp only [rewrites]
    have h2 := foreign_new_content_exact p m (hms m (by simp)) (fs.content .hosts) hT
    rw [← finish_rewrite] at h2
    rw [ih (fun x hx => hms x (by simp [hx])) (finish (rewrite m p) fs) (by rw [h2]; exact hT), h2]

/-! ### the temporary stays apart from the hosts file along complete rewrites -/

/-- Well-formedness kept by every complete rewrite: inode numbers in use are below `next`, and
the per-port temporary is not another name of the hosts file. -/
structure Apart (fs : Fs) (p : Nat) : Prop where
  hostsLt : ∀ i, fs.dir .hosts = some i → i < fs.next
  tmpLt : ∀ i, fs.dir (.tmp p) = some i → i < fs.next
  noAlias : ∀ i, fs.dir (.tmp p) = some i → fs.dir .hosts ≠ some i

theorem Apart.tmpApart {fs : Fs} {p : Nat} (h : Apart fs p) : TmpApart fs p :=
  ⟨h.noAlias, fun e => Nat.lt_irrefl _ (h.hostsLt _ e)⟩

/-- `Apart` only looks at the two directory entries and `next`. -/
theorem Apart.congr {fs fs' : Fs} {p : Nat} (h : Apart fs p) (hh : fs'.dir .hosts = fs.dir .hosts)
    (ht : fs'.dir (.tmp p) = fs.dir (.tmp p)) (hn : fs.next ≤ fs'.next) : Apart fs' p :=
  ⟨fun i hi => Nat.lt_of_lt_of_le (h.hostsLt i (hh ▸ hi)) hn,
   fun i hi => Nat.lt_of_lt_of_le (h.tmpLt i (ht ▸ hi)) hn,
   fun i hi => by rw [hh]; exact h.noAlias i (ht ▸ hi)⟩

theorem finish_writeAll_dir (q : Path) (k : Proc) (ds : List Text) (fs : Fs) (j : Nat)
    (hj : fs.dir q = some j) :
    ∃ fs', finish (writeAll q ds k) fs = finish k fs' ∧ fs'.dir = fs.dir ∧ fs'.next = fs.next := by
  induction ds generalizing fs with
  | nil => exact ⟨fs, rfl, rfl, rfl⟩
  | cons d ds ih =>
    simp only [writeAll, finish_step, Fs.exec, hj]
    obtain ⟨fs', h1, h2, h3⟩ := ih (fs.setIno j { fs.ino j with data := (fs.ino j).data ++ d })
      (by simpa [Fs.setIno] using hj)
    exact ⟨fs', h1, by simpa [Fs.setIno] using h2, by simpa [Fs.setIno] using h3⟩

theorem apart_closeSteps (p : Nat) (st : Option Meta) (fs : Fs) (j : Nat)
    (hj : fs.dir (.tmp p) = some j) (hlt : j < fs.next) (hh : fs.dir .hosts ≠ some j) :
    Apart (finish (closeSteps p st) fs) p := by
  have hne : Path.hosts ≠ Path.tmp p := by intro h; cases h
  simp only [closeSteps, permSteps, renameStep, finish_step, Fs.exec, hj, Fs.setIno, hh, ↓reduceIte]
  simp only [finish]
  refine ⟨?_, ?_, ?_⟩
  · intro i hi
    simp only [Fs.setDir, hne, ↓reduceIte, Option.some.injEq] at hi
    subst hi
    simpa [Fs.setDir] using hlt
  · intro i hi
    simp [Fs.setDir] at hi
  · intro i hi
    simp [Fs.setDir] at hi

theorem apart_tmpSteps (hm : HostMap) (p : Nat) (old : Text) (st : Option Meta) (fs : Fs)
    (ha : Apart fs p) : Apart (finish (tmpSteps hm p old st) fs) p := by
  have hne : Path.hosts ≠ Path.tmp p := by intro h; cases h
  simp only [tmpSteps, finish_step, Fs.exec]
  cases ht : fs.dir (.tmp p) with
  | none =>
    simp only
    obtain ⟨fs', h1, h2, h3⟩ := finish_writeAll_dir (.tmp p) (closeSteps p st) (writes hm p old)
      (fs.create (.tmp p) [] newPerm) fs.next (by simp [Fs.create])
    rw [h1]
    refine apart_closeSteps p st fs' fs.next (by rw [h2]; simp [Fs.create]) (by rw [h3]; simp [Fs.create]) ?_
    rw [h2]
    simp only [Fs.create, hne, ↓reduceIte]
    intro e
    exact Nat.lt_irrefl _ (ha.hostsLt _ e)
  | some i =>
    simp only
    obtain ⟨fs', h1, h2, h3⟩ := finish_writeAll_dir (.tmp p) (closeSteps p st) (writes hm p old)
      (fs.setIno i { fs.ino i with data := [] }) i (by simpa [Fs.setIno] using ht)
    rw [h1]
    refine apart_closeSteps p st fs' i (by rw [h2]; simpa [Fs.setIno] using ht)
      (by rw [h3]; simpa [Fs.setIno] using ha.tmpLt i ht) ?_
    rw [h2]
    simpa [Fs.setIno] using ha.noAlias i ht

theorem apart_bakSteps (hm : HostMap) (p : Nat) (old : Text) (st : Option Meta) (fs : Fs)
    (ha : Apart fs p) : Apart (finish (bakSteps hm p old st) fs) p := by
  have hne : Path.hosts ≠ Path.bak := by intro h; cases h
  have hne2 : Path.tmp p ≠ Path.bak := by intro h; cases h
  unfold bakSteps
  cases hnb : nonBlank old with
  | false => simp only [Bool.false_eq_true, ↓reduceIte]; exact apart_tmpSteps hm p old st fs ha
  | true =>
    simp only [↓reduceIte, finish_step, Fs.exec]
    cases hb : fs.dir .bak with
    | some b => simp only [Option.isSome_some]; exact apart_tmpSteps hm p old st fs ha
    | none =>
      simp only [Option.isSome_none, finish_step, Fs.exec, hb]
      cases hh : fs.dir .hosts with
      | none => simp only [finish_step, Fs.exec, hh]; exact ha
      | some i =>
        simp only
        exact apart_tmpSteps hm p old st _
          (ha.congr (by simp [Fs.setDir, hne]) (by simp [Fs.setDir, hne2]) (Nat.le_refl _))

theorem apart_rewrite (hm : HostMap) (p : Nat) (fs : Fs) (ha : Apart fs p) :
    Apart (finish (rewrite hm p) fs) p := by
  cases hh : fs.dir .hosts with
  | none =>
    simp only [rewrite, finish_step, Fs.exec, hh]
    exact apart_bakSteps hm p [] none fs ha
  | some i =>
    simp only [rewrite, finish_step, Fs.exec, hh]
    exact apart_bakSteps hm p _ _ fs ha

theorem apart_rewrites (p : Nat) (ms : List HostMap) (fs : Fs) (ha : Apart fs p) :
    Apart (rewrites p ms fs) p := by
  induction ms generalizing fs with
  | nil => exact ha
  | cons m ms ih => exact ih _ (apart_rewrite m p fs ha)

end Sshuttle.Hosts
