/-
How the two Mux queues move in one world step: which frames a step can append to which queue,
and that a delivery removes exactly the head frame.  Shared by Props/C09 (every PING is
answered) and Props/C08 (`C08_no_death`: a TCP wrapper is only ever sent commands it knows).
-/
import SshuttleModel.Lemmas.FrameKinds
import SshuttleModel.Lemmas.TunnelStep

namespace Sshuttle.Tunnel
open Sshuttle.Mux (Frame)
open Sshuttle.Wrap

abbrev PING := Generated.CMD_PING
abbrev PONG := Generated.CMD_PONG

/-- What the receiving end's mux looks like after its `got_packet` handled frame `fr`. -/
def afterFrame (fr : Frame) (m : MuxL) : MuxL :=
  if fr.cmd == PING then m.send 0 PONG fr.data
  else if fr.cmd == PONG then { m with tooFull := false, fullness := 0 }
  else m


/-! ### the muxes along a world step -/

theorem connectS_mux (w : World) (fr : Frame) (conn : ConnRes) :
    (w.connectS fr conn).cm = w.cm ∧ (w.connectS fr conn).sm = w.sm := by
  unfold World.connectS
  split
  · exact ⟨rfl, rfl⟩
  · split
    · exact ⟨rfl, rfl⟩
    · split
      · exact ⟨rfl, rfl⟩
      · split <;> exact ⟨rfl, rfl⟩

theorem dispatchAt_mux (w : World) (e : End) (fr : Frame) :
    (w.dispatchAt e fr).cm = w.cm ∧ (w.dispatchAt e fr).sm = w.sm := by
  unfold World.dispatchAt; split <;> exact ⟨rfl, rfl⟩

theorem deliverS_mux (w : World) (conn : ConnRes) :
    ((w.deliverS conn).cm = w.cm ∧ (w.deliverS conn).sm = w.sm ∧ w.cm.out = []) ∨
    ∃ fr rest, w.cm.out = fr :: rest ∧ (w.deliverS conn).cm = { w.cm with out := rest } ∧
      (w.deliverS conn).sm = afterFrame fr w.sm := by
  unfold World.deliverS
  cases ho : w.cm.out with
  | nil => left; exact ⟨rfl, rfl, rfl⟩
  | cons fr rest =>
    right
    refine ⟨fr, rest, rfl, ?_⟩
    simp only [afterFrame]
    by_cases h1 : (fr.cmd == Generated.CMD_PING) = true
    · rw [if_pos h1, if_pos h1]; exact ⟨rfl, rfl⟩
    · rw [if_neg h1, if_neg h1]
      by_cases h2 : (fr.cmd == Generated.CMD_PONG) = true
      · rw [if_pos h2, if_pos h2]; exact ⟨rfl, rfl⟩
      · rw [if_neg h2, if_neg h2]
        split
        · have := connectS_mux { w with cm := { w.cm with out := rest } } fr conn
          exact ⟨this.1, this.2⟩
        · split
          · exact ⟨rfl, rfl⟩
          · have := dispatchAt_mux { w with cm := { w.cm with out := rest } } .server fr
            exact ⟨this.1, this.2⟩

theorem deliverC_mux (w : World) :
    (w.deliverC.cm = w.cm ∧ w.deliverC.sm = w.sm ∧ w.sm.out = []) ∨
    ∃ fr rest, w.sm.out = fr :: rest ∧ w.deliverC.sm = { w.sm with out := rest } ∧
      w.deliverC.cm = afterFrame fr w.cm := by
  unfold World.deliverC
  cases ho : w.sm.out with
  | nil => left; exact ⟨rfl, rfl, rfl⟩
  | cons fr rest =>
    right
    refine ⟨fr, rest, rfl, ?_⟩
    simp only [afterFrame]
    by_cases h1 : (fr.cmd == Generated.CMD_PING) = true
    · rw [if_pos h1, if_pos h1]; exact ⟨rfl, rfl⟩
    · rw [if_neg h1, if_neg h1]
      by_cases h2 : (fr.cmd == Generated.CMD_PONG) = true
      · rw [if_pos h2, if_pos h2]; exact ⟨rfl, rfl⟩
      · rw [if_neg h2, if_neg h2]
        split
        · split <;> exact ⟨rfl, rfl⟩
        · split
          · exact ⟨rfl, rfl⟩
          · have := dispatchAt_mux { w with sm := { w.sm with out := rest } } .client fr
            exact ⟨this.2, this.1⟩


/-! ### what each step appends to each queue -/

/-- What a step may append to the client → server queue. -/
def AddedC (st : Step) (fr : Frame) : Prop :=
  streamKind fr.cmd ∨ fr.cmd = CONNECT ∨ fr.cmd = PING ∨ fr.cmd = PONG ∨
  (∃ fr', st = .foreign .client fr' ∧ fr.chan = fr'.chan ∧ fr.cmd = fr'.cmd)

/-- What a step may append to the server → client queue (never a CONNECT). -/
def AddedS (st : Step) (fr : Frame) : Prop :=
  streamKind fr.cmd ∨ fr.cmd = PING ∨ fr.cmd = PONG ∨
  (∃ fr', st = .foreign .server fr' ∧ fr.chan = fr'.chan ∧ fr.cmd = fr'.cmd)

theorem checkFullness_ping (m : MuxL) (b : Nat) :
    ∃ extra, (m.checkFullness b).out = m.out ++ extra ∧ ∀ fr ∈ extra, fr.cmd = PING := by
  unfold MuxL.checkFullness
  split
  · split
    · exact ⟨[], by simp, by simp⟩
    · refine ⟨[⟨0, Generated.CMD_PING, bytesOfStr Generated.PING_RTT_PAYLOAD⟩], by simp [MuxL.send], ?_⟩
      intro fr hfr
      simp only [List.mem_singleton] at hfr
      rw [hfr]
  · exact ⟨[], by simp, by simp⟩

theorem afterFrame_out (fr : Frame) (m : MuxL) :
    ∃ extra, (afterFrame fr m).out = m.out ++ extra ∧ ∀ x ∈ extra, x.cmd = PONG := by
  unfold afterFrame
  split
  · exact ⟨[⟨0, PONG, fr.data⟩], rfl, by intro x hx; simp only [List.mem_singleton] at hx; rw [hx]⟩
  · split
    · exact ⟨[], by simp, by simp⟩
    · exact ⟨[], by simp, by simp⟩

/-- The client → server queue after one step: frames appended at the tail, or the head removed. -/
theorem stepRaw_cmOut (w : World) (st : Step) :
    (∃ extra, (w.stepRaw st).cm.out = w.cm.out ++ extra ∧ ∀ fr ∈ extra, AddedC st fr) ∨
    (∃ fr, w.cm.out = fr :: (w.stepRaw st).cm.out) := by
  have same : ∀ w' : World, w'.cm = w.cm →
      ∃ extra, w'.cm.out = w.cm.out ++ extra ∧ ∀ fr ∈ extra, AddedC st fr :=
    fun w' h => ⟨[], by rw [h]; simp, by simp⟩
  unfold World.stepRaw
  cases st with
  | accept =>
    left
    simp only [World.accept]
    split
    · exact same _ rfl
    · exact ⟨[_], rfl, by intro fr hfr; simp only [List.mem_singleton] at hfr; rw [hfr]; exact Or.inr (Or.inl rfl)⟩
  | cb e i io =>
    left
    cases e
    · simp only [World.cbC]
      split
      · split
        · split
          next p' m' e' hcb =>
            obtain ⟨extra, h1, h2⟩ := kinds_callback _ _ _ _ _ _ _ hcb
            exact ⟨extra, h1, fun fr hfr => Or.inl (h2 fr hfr)⟩
          · exact same _ rfl
        · exact same _ rfl
      · exact same _ rfl
    · simp only [World.cbS]
      split
      · split
        · split <;> exact same _ rfl
        · exact same _ rfl
      · exact same _ rfl
  | pre e i =>
    left
    cases e
    · simp only [World.preC]
      split
      · split
        next p hp =>
          obtain ⟨extra, h1, h2⟩ := kinds_preSelect p w.cm
          exact ⟨extra, h1, fun fr hfr => Or.inl (h2 fr hfr)⟩
        · exact same _ rfl
      · exact same _ rfl
    · simp only [World.preS]
      split
      · split <;> exact same _ rfl
      · exact same _ rfl
  | deliver e conn =>
    cases e
    · left
      simp only
      rcases deliverC_mux w with ⟨h1, _, _⟩ | ⟨fr, rest, _, _, hc⟩
      · exact same _ h1
      · obtain ⟨extra, h1, h2⟩ := afterFrame_out fr w.cm
        exact ⟨extra, by rw [hc]; exact h1, fun x hx => Or.inr (Or.inr (Or.inr (Or.inl (h2 x hx))))⟩
    · simp only
      rcases deliverS_mux w conn with ⟨h1, _, _⟩ | ⟨fr, rest, ho, hc, _⟩
      · left; exact same _ h1
      · right; exact ⟨fr, by rw [hc]; exact ho⟩
  | removeDead e => left; cases e <;> exact same _ rfl
  | checkFull e =>
    left
    cases e
    · obtain ⟨extra, h1, h2⟩ := checkFullness_ping w.cm w.bufsize
      exact ⟨extra, h1, fun fr hfr => Or.inr (Or.inr (Or.inl (h2 fr hfr)))⟩
    · exact same _ rfl
  | foreign e fr =>
    left
    cases e
    · exact ⟨[⟨fr.chan, fr.cmd, fr.data⟩], rfl, by
        intro x hx; simp only [List.mem_singleton] at hx; rw [hx]
        exact Or.inr (Or.inr (Or.inr (Or.inr ⟨fr, rfl, rfl, rfl⟩)))⟩
    · exact same _ rfl
  | appWrite i b => left; exact same _ rfl
  | appEof i => left; exact same _ rfl
  | dstWrite i b => left; exact same _ rfl
  | dstEof i => left; exact same _ rfl

/-- The server → client queue after one step. -/
theorem stepRaw_smOut (w : World) (st : Step) :
    (∃ extra, (w.stepRaw st).sm.out = w.sm.out ++ extra ∧ ∀ fr ∈ extra, AddedS st fr) ∨
    (∃ fr, w.sm.out = fr :: (w.stepRaw st).sm.out) := by
  have same : ∀ w' : World, w'.sm = w.sm →
      ∃ extra, w'.sm.out = w.sm.out ++ extra ∧ ∀ fr ∈ extra, AddedS st fr :=
    fun w' h => ⟨[], by rw [h]; simp, by simp⟩
  unfold World.stepRaw
  cases st with
  | accept =>
    left
    simp only [World.accept]
    split <;> exact same _ rfl
  | cb e i io =>
    left
    cases e
    · simp only [World.cbC]
      split
      · split
        · split <;> exact same _ rfl
        · exact same _ rfl
      · exact same _ rfl
    · simp only [World.cbS]
      split
      · split
        · split
          next p' m' e' hcb =>
            obtain ⟨extra, h1, h2⟩ := kinds_callback _ _ _ _ _ _ _ hcb
            exact ⟨extra, h1, fun fr hfr => Or.inl (h2 fr hfr)⟩
          · exact same _ rfl
        · exact same _ rfl
      · exact same _ rfl
  | pre e i =>
    left
    cases e
    · simp only [World.preC]
      split
      · split <;> exact same _ rfl
      · exact same _ rfl
    · simp only [World.preS]
      split
      · split
        next p hp =>
          obtain ⟨extra, h1, h2⟩ := kinds_preSelect p w.sm
          exact ⟨extra, h1, fun fr hfr => Or.inl (h2 fr hfr)⟩
        · exact same _ rfl
      · exact same _ rfl
  | deliver e conn =>
    cases e
    · simp only
      rcases deliverC_mux w with ⟨_, h2, _⟩ | ⟨fr, rest, ho, hs, _⟩
      · left; exact same _ h2
      · right; exact ⟨fr, by rw [hs]; exact ho⟩
    · left
      simp only
      rcases deliverS_mux w conn with ⟨_, h2, _⟩ | ⟨fr, rest, _, _, hs⟩
      · exact same _ h2
      · obtain ⟨extra, h1, h2⟩ := afterFrame_out fr w.sm
        exact ⟨extra, by rw [hs]; exact h1, fun x hx => Or.inr (Or.inr (Or.inl (h2 x hx)))⟩
  | removeDead e => left; cases e <;> exact same _ rfl
  | checkFull e =>
    left
    cases e
    · exact same _ rfl
    · obtain ⟨extra, h1, h2⟩ := checkFullness_ping w.sm w.bufsize
      exact ⟨extra, h1, fun fr hfr => Or.inr (Or.inl (h2 fr hfr))⟩
  | foreign e fr =>
    left
    cases e
    · exact same _ rfl
    · exact ⟨[⟨fr.chan, fr.cmd, fr.data⟩], rfl, by
        intro x hx; simp only [List.mem_singleton] at hx; rw [hx]
        exact Or.inr (Or.inr (Or.inr ⟨fr, rfl, rfl, rfl⟩))⟩
  | appWrite i b => left; exact same _ rfl
  | appEof i => left; exact same _ rfl
  | dstWrite i b => left; exact same _ rfl
  | dstEof i => left; exact same _ rfl


end Sshuttle.Tunnel
