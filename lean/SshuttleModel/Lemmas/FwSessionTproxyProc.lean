/-
tproxy method, configuration level: `putTp f p s v` lays a view over the mangle table of family
`f` in `s`.  `tproxySetup` under any fault schedule ends in `putTp s v` for a view that is `TpOk`
(jumps only to chains that exist, our chains' rules refer to nothing but the divert chain and
that only from the tproxy chain); `tproxyRestore` with naturally behaving commands removes every
`TpOk` view.  The restore part needs the `nonfatal` wrappers on `-D` and `-F`
(`Gen.C04.TPROXY_RESTORE_NONFATAL_*`, read from the source).
-/
import SshuttleModel.Lemmas.FwSessionTproxy

namespace Sshuttle.Fw

def putTp (f : Fam) (p : Nat) (s : FwState) (v : TpView) : FwState :=
  s.setTable f .mangle (buildTp p (s.ipt f .mangle) v)

theorem setTable_setTable (s : FwState) (f : Fam) (t : Tbl) (x y : Table) :
    (s.setTable f t x).setTable f t y = s.setTable f t y := by
  refine FwState.ext' ?_ rfl rfl
  funext f' t'
  unfold FwState.setTable
  by_cases h : f' = f ∧ t' = t <;> simp [h]

theorem setTable_self (s : FwState) (f : Fam) (t : Tbl) : s.setTable f t (s.ipt f t) = s := by
  refine FwState.ext' ?_ rfl rfl
  funext f' t'
  unfold FwState.setTable
  by_cases h : f' = f ∧ t' = t
  · simp [h, h.1, h.2]
  · simp [h]

theorem setTable_get (s : FwState) (f : Fam) (t : Tbl) (x : Table) : (s.setTable f t x).ipt f t = x := by
  simp [FwState.setTable]

theorem setTable_get_other (s : FwState) (f f' : Fam) (t t' : Tbl) (x : Table) (h : ¬(f' = f ∧ t' = t)) :
    (s.setTable f t x).ipt f' t' = s.ipt f' t' := by
  simp [FwState.setTable, h]

@[simp] theorem putTp_empty (f p s) : putTp f p s TpView.empty = s := by
  unfold putTp; rw [buildTp_empty, setTable_self]

theorem putTp_mangle (f p s v) : (putTp f p s v).ipt f .mangle = buildTp p (s.ipt f .mangle) v :=
  setTable_get _ _ _ _

theorem tp_op (f p s) (v : TpView) (op : IptOp) :
    (putTp f p s v).apply (.ipt f .mangle op) =
      ((buildTp p (s.ipt f .mangle) v).apply op).map fun x => s.setTable f .mangle x := by
  rw [apply_ipt, putTp_mangle]
  cases (buildTp p (s.ipt f .mangle) v).apply op with
  | none => rfl
  | some x => simp only [Option.map_some]; unfold putTp; rw [setTable_setTable]

theorem tp_lift_getD (f p s) (v v' : TpView) (op : IptOp)
    (h : ((buildTp p (s.ipt f .mangle) v).apply op).getD (buildTp p (s.ipt f .mangle) v) =
      buildTp p (s.ipt f .mangle) v') :
    ((putTp f p s v).apply (.ipt f .mangle op)).getD (putTp f p s v) = putTp f p s v' := by
  rw [tp_op]
  cases hx : (buildTp p (s.ipt f .mangle) v).apply op with
  | none => rw [hx] at h; simp only [Option.getD_none, Option.map_none] at h ⊢; unfold putTp; rw [h]
  | some x => rw [hx] at h; simp only [Option.getD_some, Option.map_some] at h ⊢; unfold putTp; rw [h]

/-- Nothing of `(f, p)`'s tproxy session is in `s`. -/
structure TpFresh (f : Fam) (p : Nat) (s : FwState) : Prop where
  noChain : ∀ ch ∈ s.ipt f .mangle, ∀ k, ch.name ≠ .own k p
  noRef : ∀ ch ∈ s.ipt f .mangle, ∀ r ∈ ch.rules, ∀ k, r.tgt ≠ .chain (.own k p)

/-- The views `restore_firewall` of tproxy can undo. -/
structure TpOk (p : Nat) (v : TpView) : Prop where
  names : ∀ ch ∈ v.own, ch.name = .own .mark p ∨ ch.name = .own .divert p ∨ ch.name = .own .tproxy p
  outHas : v.out = true → Table.has v.own (.own .mark p) = true
  preHas : v.pre = true → Table.has v.own (.own .tproxy p) = true
  rules : ∀ ch ∈ v.own, ∀ r ∈ ch.rules,
    r.tgt ≠ .chain (.own .mark p) ∧ r.tgt ≠ .chain (.own .tproxy p) ∧
    (r.tgt = .chain (.own .divert p) → ch.name = .own .tproxy p)

def TpInv (f : Fam) (p : Nat) (s st : FwState) : Prop := ∃ v, TpOk p v ∧ st = putTp f p s v

theorem TpOk.ownNames {p : Nat} {v : TpView} (h : TpOk p v) : OwnNames p v.own := by
  intro ch hch
  rcases h.names ch hch with e | e | e <;> exact ⟨_, e⟩

theorem tpOk_empty (p : Nat) : TpOk p TpView.empty := by
  refine ⟨?_, ?_, ?_, ?_⟩
  · intro ch hch; cases hch
  · intro h; cases h
  · intro h; cases h
  · intro ch hch; cases hch

/-- the three kinds tproxy uses -/
def TpKind (k : Kind) : Prop := k = .mark ∨ k = .divert ∨ k = .tproxy

theorem tpOk_newChain {p : Nat} {v : TpView} (h : TpOk p v) (k : Kind) (hk : TpKind k) :
    TpOk p { v with own := v.own ++ [⟨.own k p, []⟩] } := by
  refine ⟨?_, ?_, ?_, ?_⟩
  · intro ch hch
    rcases List.mem_append.mp hch with h1 | h1
    · exact h.names ch h1
    · simp only [List.mem_singleton] at h1; subst h1
      rcases hk with rfl | rfl | rfl <;> simp
  · intro ho; rw [Table.has_append, h.outHas ho]; rfl
  · intro ho; rw [Table.has_append, h.preHas ho]; rfl
  · intro ch hch r hr
    rcases List.mem_append.mp hch with h1 | h1
    · exact h.rules ch h1 r hr
    · simp only [List.mem_singleton] at h1; subst h1; cases hr

theorem mem_modify {t : Table} {c : CName} {f : List Rule → List Rule} {ch : Chain}
    (h : ch ∈ t.modify c f) : ∃ ch0 ∈ t, ch.name = ch0.name ∧
      ((ch0.name = c ∧ ch.rules = f ch0.rules) ∨ (ch0.name ≠ c ∧ ch = ch0)) := by
  unfold Table.modify at h
  obtain ⟨ch0, h0, rfl⟩ := List.mem_map.mp h
  refine ⟨ch0, h0, ?_, ?_⟩
  · by_cases hn : ch0.name = c <;> simp [hn]
  · by_cases hn : ch0.name = c
    · left; simp [hn]
    · right; simp [hn]

theorem tpOk_flush {p : Nat} {v : TpView} (h : TpOk p v) (c : CName) :
    TpOk p { v with own := Table.modify v.own c fun _ => [] } := by
  refine ⟨?_, ?_, ?_, ?_⟩
  · intro ch hch
    have hch' : ch ∈ Table.modify v.own c (fun _ => []) := hch
    obtain ⟨ch0, h0, hn, _⟩ := mem_modify hch'
    rw [hn]; exact h.names ch0 h0
  · intro ho; rw [Table.has_modify]; exact h.outHas ho
  · intro ho; rw [Table.has_modify]; exact h.preHas ho
  · intro ch hch r hr
    have hch' : ch ∈ Table.modify v.own c (fun _ => []) := hch
    obtain ⟨ch0, h0, hn, hc⟩ := mem_modify hch'
    rcases hc with ⟨_, hrs⟩ | ⟨_, rfl⟩
    · rw [hrs] at hr; cases hr
    · exact h.rules ch h0 r hr

/-- What a body rule of tproxy may refer to: nothing of ours except the divert chain, and that
only from the tproxy chain (tproxy.py appends `-m socket -j sshuttle-d-<port>` to the tproxy chain). -/
def TpBodyOk (p : Nat) (k : Kind) (r : Rule) : Prop :=
  r.tgt ≠ .chain (.own .mark p) ∧ r.tgt ≠ .chain (.own .tproxy p) ∧
  (r.tgt = .chain (.own .divert p) → k = .tproxy)

theorem tpOk_append {p : Nat} {v : TpView} (h : TpOk p v) (k : Kind) (r : Rule) (hb : TpBodyOk p k r) :
    TpOk p { v with own := Table.modify v.own (.own k p) fun rs => rs ++ [r] } := by
  refine ⟨?_, ?_, ?_, ?_⟩
  · intro ch hch
    have hch' : ch ∈ Table.modify v.own (.own k p) (fun rs => rs ++ [r]) := hch
    obtain ⟨ch0, h0, hn, _⟩ := mem_modify hch'
    rw [hn]; exact h.names ch0 h0
  · intro ho; rw [Table.has_modify]; exact h.outHas ho
  · intro ho; rw [Table.has_modify]; exact h.preHas ho
  · intro ch hch r' hr
    have hch' : ch ∈ Table.modify v.own (.own k p) (fun rs => rs ++ [r]) := hch
    obtain ⟨ch0, h0, hn, hc⟩ := mem_modify hch'
    rcases hc with ⟨hc0, hrs⟩ | ⟨_, rfl⟩
    · rw [hrs] at hr
      rcases List.mem_append.mp hr with h1 | h1
      · have := h.rules ch0 h0 r' h1
        exact ⟨this.1, this.2.1, fun e => hn ▸ this.2.2 e⟩
      · simp only [List.mem_singleton] at h1; subst h1
        refine ⟨hb.1, hb.2.1, fun e => ?_⟩
        rw [hn, hc0, hb.2.2 e]
    · exact h.rules ch h0 r' hr

theorem tpOk_filter {p : Nat} {v : TpView} (h : TpOk p v) (k : Kind)
    (hout : k = .mark → v.out = false) (hpre : k = .tproxy → v.pre = false) :
    TpOk p { v with own := v.own.filter fun ch => decide (ch.name ≠ .own k p) } := by
  refine ⟨?_, ?_, ?_, ?_⟩
  · intro ch hch; exact h.names ch (List.mem_filter.mp hch).1
  · intro ho
    rw [Table.has_filter, h.outHas ho]
    have : k ≠ .mark := fun e => by rw [hout e] at ho; cases ho
    simp [Ne.symm this]
  · intro ho
    rw [Table.has_filter, h.preHas ho]
    have : k ≠ .tproxy := fun e => by rw [hpre e] at ho; cases ho
    simp [Ne.symm this]
  · intro ch hch; exact h.rules ch (List.mem_filter.mp hch).1

theorem tpOk_out {p : Nat} {v : TpView} (h : TpOk p v) (b : Bool)
    (hb : b = true → Table.has v.own (.own .mark p) = true) : TpOk p { v with out := b } :=
  ⟨h.names, hb, h.preHas, h.rules⟩

theorem tpOk_pre {p : Nat} {v : TpView} (h : TpOk p v) (b : Bool)
    (hb : b = true → Table.has v.own (.own .tproxy p) = true) : TpOk p { v with pre := b } :=
  ⟨h.names, h.outHas, hb, h.rules⟩

/-! ### the existence query -/

theorem chainExists_cases (f : Fam) (t : Tbl) (c : CName) (e : Env) :
    SameRun e (chainExists f t c e).2 ∧ (chainExists f t c e).2.st = e.st ∧
    ((chainExists f t c e).1 = none ∨ (chainExists f t c e).1 = some ((e.st.ipt f t).has c)) := by
  unfold chainExists
  obtain ⟨hs, hc⟩ := exec_cases (.iptList f t) e
  cases hr : exec (.iptList f t) e with
  | mk ok e1 =>
    rw [hr] at hs hc
    have hst : e1.st = e.st := by
      rcases hc with ⟨_, h⟩ | ⟨_, h⟩
      · exact h
      · simp only [FwState.apply] at h; injection h with h; exact h.symm
    cases ok with
    | false => exact ⟨hs, hst, Or.inl rfl⟩
    | true =>
      refine ⟨hs, hst, Or.inr ?_⟩
      simp only [hst, FwState.chainNames]
      congr 1
      unfold Table.has
      rw [Bool.eq_iff_iff]
      simp

theorem chainExists_nat (f : Fam) (t : Tbl) (c : CName) (e : Env) (hN : NoFault e) :
    (chainExists f t c e).1 = some ((e.st.ipt f t).has c) := by
  obtain ⟨_, _, h3⟩ := chainExists_cases f t c e
  rcases h3 with h3 | h3
  · exfalso
    unfold chainExists at h3
    have := (exec_natural (.iptList f t) e hN).1
    cases hr : exec (.iptList f t) e with
    | mk ok e1 =>
      rw [hr] at h3 this
      simp only [FwState.apply, Option.isSome_some] at this
      subst this
      simp at h3
  · exact h3

/-- `if ipt_chain_exists(...): body` when the query behaves naturally. -/
theorem ifChain_natural (f : Fam) (t : Tbl) (c : CName) (body : Proc) (e : Env) (hN : NoFault e) :
    ∃ e1, e1.st = e.st ∧ NoFault e1 ∧
      ifChain f t c body e = if (e.st.ipt f t).has c then body e1 else (none, e1) := by
  obtain ⟨h1, h2, _⟩ := chainExists_cases f t c e
  have h3 := chainExists_nat f t c e hN
  unfold ifChain
  cases hr : chainExists f t c e with
  | mk r e1 =>
    rw [hr] at h1 h2 h3
    simp only at h1 h2 h3
    subst h3
    refine ⟨e1, h2, hN.of_sameRun h1, ?_⟩
    cases (e.st.ipt f t).has c <;> rfl

/-- The query under any schedule, when our chain is not there: nothing happens (or `Fatal`). -/
theorem ifChain_absent (f : Fam) (t : Tbl) (c : CName) (body : Proc) (s : FwState)
    (hc : (s.ipt f t).has c = false) :
    Hoare (fun st => st = s) (ifChain f t c body) (fun st => st = s) (fun st => st = s) := by
  intro e he
  obtain ⟨h1, h2, h3⟩ := chainExists_cases f t c e
  unfold ifChain
  cases hr : chainExists f t c e with
  | mk r e1 =>
    rw [hr] at h1 h2 h3
    simp only at h1 h2 h3
    rcases h3 with h3 | h3
    · subst h3; exact ⟨h1, h2.trans he⟩
    · subst h3
      rw [he, hc]
      exact ⟨h1, h2.trans he⟩

end Sshuttle.Fw
