/-
Histories: one instance's sequence of host updates followed by restore (`updates`), and
several instances whose rewrites do not overlap (`serial`).
-/
import SshuttleModel.Lemmas.HostsRun

namespace Sshuttle.Hosts

/-- One instance's life as `firewall.main` drives it: each `HOST name,ip` line sets
`hostmap[name] = ip` and rewrites the file. -/
def updates (p : Nat) : List (Text × Text) → Fs × HostMap → Fs × HostMap
  | [], s => s
  | u :: us, s => updates p us (finish (rewrite (setHost s.2 u.1 u.2) p) s.1, setHost s.2 u.1 u.2)

theorem setHost_ne_nil (hm : HostMap) (n i : Text) : setHost hm n i ≠ [] := by
  unfold setHost
  split
  · next h =>
    intro he
    have : hm = [] := by simpa using he
    subst this
    simp at h
  · simp

theorem mem_setHost {hm : HostMap} {n i : Text} {e : Text × Text} (h : e ∈ setHost hm n i) :
    e = (n, i) ∨ e ∈ hm := by
  unfold setHost at h
  split at h
  · simp only [List.mem_map] at h
    obtain ⟨x, hx, rfl⟩ := h
    split
    · left; rfl
    · right; exact hx
  · rcases List.mem_append.mp h with h | h
    · right; exact h
    · left; simpa using h

theorem lineMap_setHost {hm : HostMap} (h : LineMap hm) {n i : Text} (hn : LineText n) (hi : LineText i) :
    LineMap (setHost hm n i) := by
  intro e he
  rcases mem_setHost he with rfl | he
  · exact ⟨hn, hi⟩
  · exact h e he

/-- the host lines of a break-free non-empty map, appended to break-free lines, read back unchanged -/
theorem trimmed_with_hostLines {K : List Text} (hK : ∀ l ∈ K, 10 ∉ l ∧ 13 ∉ l) (p : Nat)
    {hm : HostMap} (hl : LineMap hm) (hne : hm ≠ []) : Trimmed (K ++ hostLines p hm) := by
  refine trimmed_append hK ?_ (hostLines_ne_nil p hne)
  intro l hmem
  obtain ⟨e, he, rfl⟩ := mem_hostLines hmem
  exact hostLine_shape p (hl e he).1 (hl e he).2

/-- The state of a session: nothing published yet, or the file is exactly the other lines
followed by this instance's block. -/
def SessInv (K : List Text) (p : Nat) (s : Fs × HostMap) : Prop :=
  LineMap s.2 ∧
    ((s.2 = [] ∧ foreign p (lines (s.1.content .hosts)) = K) ∨
     (s.2 ≠ [] ∧ s.1.content .hosts = some (unlines (K ++ hostLines p s.2))))

theorem sessInv_foreign {K : List Text} (hKf : foreign p K = K) (hKb : ∀ l ∈ K, 10 ∉ l ∧ 13 ∉ l)
    {s : Fs × HostMap} (h : SessInv K p s) : foreign p (lines (s.1.content .hosts)) = K := by
  rcases h.2 with ⟨_, h'⟩ | ⟨hne, h'⟩
  · exact h'
  · rw [h', lines_unlines (trimmed_with_hostLines hKb p h.1 hne),
      foreign_append, hKf, foreign_hostLines, List.append_nil]

theorem sessInv_step {K : List Text} (hKf : foreign p K = K) (hKb : ∀ l ∈ K, 10 ∉ l ∧ 13 ∉ l)
    {s : Fs × HostMap} (h : SessInv K p s) {u : Text × Text} (hu : LineText u.1 ∧ LineText u.2) :
    SessInv K p (finish (rewrite (setHost s.2 u.1 u.2) p) s.1, setHost s.2 u.1 u.2) := by
  refine ⟨lineMap_setHost h.1 hu.1 hu.2, Or.inr ⟨setHost_ne_nil _ _ _, ?_⟩⟩
  simp only
  rw [finish_rewrite, expected, sessInv_foreign hKf hKb h]

theorem sessInv_updates {K : List Text} (hKf : foreign p K = K) (hKb : ∀ l ∈ K, 10 ∉ l ∧ 13 ∉ l)
    (us : List (Text × Text)) (hus : ∀ u ∈ us, LineText u.1 ∧ LineText u.2)
    {s : Fs × HostMap} (h : SessInv K p s) : SessInv K p (updates p us s) := by
  induction us generalizing s with
  | nil => exact h
  | cons u us ih =>
    simp only [updates]
    exact ih (fun x hx => hus x (by simp [hx])) (sessInv_step hKf hKb h (hus u (by simp)))

theorem updates_map_ne_nil (p : Nat) (us : List (Text × Text)) (hne : us ≠ []) (s : Fs × HostMap) :
    (updates p us s).2 ≠ [] := by
  induction us generalizing s with
  | nil => exact absurd rfl hne
  | cons u us ih =>
    simp only [updates]
    cases us with
    | nil => simp only [updates]; exact setHost_ne_nil _ _ _
    | cons v vs => exact ih (by simp) _

theorem lines_breakfree (c : Option Text) : ∀ l ∈ lines c, 10 ∉ l ∧ 13 ∉ l := (lines_trimmed c).1

theorem foreign_breakfree (p : Nat) (c : Option Text) : ∀ l ∈ foreign p (lines c), 10 ∉ l ∧ 13 ∉ l :=
  fun l hl => lines_breakfree c l (List.mem_filter.mp hl).1

end Sshuttle.Hosts
