/-
nft method: everything a session on `(family, port)` does happens inside its own table
`sshuttle-ipv{4,6}-<port>`.  Over a list `A` of tables that has no table of that name, the
configurations reachable are `A ++ optT n v` (table absent, or present with some chains); every
command naming the table maps such a list to such a list, and `delete table` returns `A` (also
with other tables `B` after it).
-/
import SshuttleModel.Lemmas.FwSessionGen

namespace Sshuttle.Fw

def optT (n : NName) : Option (List NftChain) → List NftTable
  | none => []
  | some cs => [⟨n, cs⟩]

def NftOp.table : NftOp → NName
  | .addTable n => n
  | .deleteTable n => n
  | .addChain n _ _ => n
  | .flushChain n _ => n
  | .addRule n _ _ => n

section lists
variable {n : NName} {A : List NftTable} (hA : nftHas A n = false)

include hA in
theorem nftModify_none (f : List NftChain → List NftChain) : nftModify A n f = A := by
  unfold nftModify
  conv => rhs; rw [← List.map_id A]
  apply List.map_congr_left
  intro t ht
  unfold nftHas at hA
  rw [List.any_eq_false] at hA
  have := hA t ht
  simp only [decide_eq_true_eq] at this
  simp [this]

include hA in
theorem nft_filter_none : A.filter (fun t => decide (t.name ≠ n)) = A := by
  rw [List.filter_eq_self]
  intro t ht
  unfold nftHas at hA
  rw [List.any_eq_false] at hA
  simpa using hA t ht

include hA in
theorem nftHas_opt (v : Option (List NftChain)) : nftHas (A ++ optT n v) n = v.isSome := by
  unfold nftHas at hA ⊢
  rw [List.any_append, hA]
  cases v <;> simp [optT]

include hA in
theorem nftHasChain_none (c : String) : nftHasChain A n c = false := by
  unfold nftHasChain
  rw [List.any_eq_false]
  intro t ht
  unfold nftHas at hA
  rw [List.any_eq_false] at hA
  have := hA t ht
  simp only [decide_eq_true_eq] at this
  simp [this]

include hA in
theorem nftModify_opt (cs : List NftChain) (f : List NftChain → List NftChain) :
    nftModify (A ++ [⟨n, cs⟩]) n f = A ++ [⟨n, f cs⟩] := by
  have h1 := nftModify_none hA f
  unfold nftModify at h1 ⊢
  rw [List.map_append, h1]
  simp

include hA in
/-- Every command that names our table keeps the shape `A ++ optT n _`. -/
theorem nft_keep (v : Option (List NftChain)) (op : NftOp) (hop : op.table = n) (X : List NftTable)
    (h : nftApply (A ++ optT n v) op = some X) : ∃ v', X = A ++ optT n v' := by
  have hsome : ∀ cs, nftHas (A ++ [⟨n, cs⟩]) n = true := by
    intro cs; unfold nftHas; simp [List.any_append]
  cases v with
  | none =>
    change nftApply (A ++ []) op = some X at h
    rw [List.append_nil] at h
    cases op with
    | addTable m =>
      simp only [NftOp.table] at hop; subst hop
      simp only [nftApply, hA, Bool.false_eq_true, if_false, Option.some.injEq] at h
      exact ⟨some [], by simp [optT, ← h]⟩
    | deleteTable m =>
      simp only [NftOp.table] at hop; subst hop
      simp [nftApply, hA] at h
    | addChain m c spec =>
      simp only [NftOp.table] at hop; subst hop
      simp [nftApply, hA] at h
    | flushChain m c =>
      simp only [NftOp.table] at hop; subst hop
      simp [nftApply, nftHasChain_none hA] at h
    | addRule m c r =>
      simp only [NftOp.table] at hop; subst hop
      simp [nftApply, nftHasChain_none hA] at h
  | some cs =>
    change nftApply (A ++ [⟨n, cs⟩]) op = some X at h
    cases op with
    | addTable m =>
      simp only [NftOp.table] at hop; subst hop
      simp only [nftApply, hsome, if_true, Option.some.injEq] at h
      exact ⟨some cs, by simp [optT, ← h]⟩
    | deleteTable m =>
      simp only [NftOp.table] at hop; subst hop
      simp only [nftApply, hsome, if_true, Option.some.injEq] at h
      refine ⟨none, ?_⟩
      rw [← h, List.filter_append, nft_filter_none hA]
      simp [optT]
    | addChain m c spec =>
      simp only [NftOp.table] at hop; subst hop
      simp only [nftApply, hsome, if_true] at h
      by_cases hc : nftHasChain (A ++ [⟨m, cs⟩]) m c = true
      · rw [if_pos hc] at h
        injection h with h; exact ⟨some cs, by simp [optT, ← h]⟩
      · rw [if_neg hc] at h
        injection h with h
        rw [nftModify_opt hA] at h
        exact ⟨some (cs ++ [⟨c, spec, []⟩]), by simp [optT, ← h]⟩
    | flushChain m c =>
      simp only [NftOp.table] at hop; subst hop
      simp only [nftApply] at h
      by_cases hc : nftHasChain (A ++ [⟨m, cs⟩]) m c = true
      · rw [if_pos hc] at h
        injection h with h
        rw [nftModify_opt hA] at h
        exact ⟨some _, by rw [← h]; rfl⟩
      · rw [if_neg hc] at h; cases h
    | addRule m c r =>
      simp only [NftOp.table] at hop; subst hop
      simp only [nftApply] at h
      by_cases hc : (nftHasChain (A ++ [⟨m, cs⟩]) m c && nftJumpOk (A ++ [⟨m, cs⟩]) m r) = true
      · rw [if_pos hc] at h
        injection h with h
        rw [nftModify_opt hA] at h
        exact ⟨some _, by rw [← h]; rfl⟩
      · rw [if_neg hc] at h; cases h

include hA in
/-- `delete table` (whether it succeeds or finds nothing) leaves exactly the other tables. -/
theorem nft_delete_getD (v : Option (List NftChain)) (B : List NftTable) (hB : nftHas B n = false) :
    (nftApply (A ++ optT n v ++ B) (.deleteTable n)).getD (A ++ optT n v ++ B) = A ++ B := by
  cases v with
  | none =>
    change (nftApply (A ++ [] ++ B) (.deleteTable n)).getD (A ++ [] ++ B) = A ++ B
    rw [List.append_nil]
    have : nftHas (A ++ B) n = false := by
      unfold nftHas at hA hB ⊢
      rw [List.any_append, hA, hB]; rfl
    simp [nftApply, this]
  | some cs =>
    change (nftApply (A ++ [⟨n, cs⟩] ++ B) (.deleteTable n)).getD (A ++ [⟨n, cs⟩] ++ B) = A ++ B
    have : nftHas (A ++ [⟨n, cs⟩] ++ B) n = true := by
      unfold nftHas
      simp [List.any_append]
    simp only [nftApply, this, if_true, Option.getD_some, List.filter_append, nft_filter_none hA,
      nft_filter_none hB]
    simp

end lists

/-! ### configuration level -/

def putNft (s : FwState) (l : List NftTable) : FwState := { s with nft := l }

theorem apply_nft (s : FwState) (op : NftOp) :
    s.apply (.nft op) = (nftApply s.nft op).map fun x => putNft s x := rfl

@[simp] theorem putNft_self (s : FwState) : putNft s s.nft = s := rfl
@[simp] theorem putNft_put (s : FwState) (a b : List NftTable) : putNft (putNft s a) b = putNft s b := rfl
@[simp] theorem putNft_nft (s : FwState) (a : List NftTable) : (putNft s a).nft = a := rfl

/-- The layer of one family: our table (absent / present with chains) after the tables of `s`. -/
def nftLayer (f : Fam) (p : Nat) (v : Option (List NftChain)) (s : FwState) : FwState :=
  putNft s (s.nft ++ optT (.own f p) v)

theorem nftLayer_none (f : Fam) (p : Nat) (s : FwState) : nftLayer f p none s = s := by
  unfold nftLayer optT putNft
  cases s; simp

/-- No table of the session's name exists. -/
def NftFresh (f : Fam) (p : Nat) (s : FwState) : Prop := nftHas s.nft (.own f p) = false

theorem runNat_single (b : Bool) (c : Cmd) (st : FwState) :
    (runNat [(b, c)] st).2 = (st.apply c).getD st := by
  simp only [runNat]
  cases st.apply c with
  | none => cases b <;> simp [runNat]
  | some x => simp [runNat]

section
variable {f : Fam} {p : Nat} {s : FwState} (hF : NftFresh f p s)

include hF in
/-- Whatever fails while `setup_firewall` of the nft method runs, the result is the base
configuration with our table absent or present — nothing else is touched. -/
theorem nftSetup_hoare (pl : FamPlan) (hf : pl.fam = f) (hp : pl.port = p) (o : Opts) :
    Hoare (fun st => st = s) (nftSetup pl o)
      (fun st => ∃ v, True ∧ st = nftLayer f p v s) (fun st => ∃ v, True ∧ st = nftLayer f p v s) := by
  subst hf hp
  have hbase : ∀ st, st = s → ∃ v, True ∧ st = nftLayer pl.fam pl.port v s :=
    fun st h => ⟨none, trivial, by rw [nftLayer_none]; exact h⟩
  unfold nftSetup
  by_cases hu : o.udp = true
  · simp only [hu, if_true]
    exact (Hoare.raise (Q := fun st => ∃ v, True ∧ st = nftLayer pl.fam pl.port v s) _).weaken
      (fun _ h => h) (fun _ h => h) hbase
  have hu' : o.udp = false := by simpa using hu
  simp only [hu', Bool.false_eq_true, if_false]
  have hk : Keeps (fun st => ∃ v, True ∧ st = nftLayer pl.fam pl.port v s)
      (steps ([ (false, Cmd.nft (.addTable (.own pl.fam pl.port))),
        (false, .nft (.addChain (.own pl.fam pl.port) "prerouting" Gen.C04.NFT_PREROUTING_SPEC)),
        (false, .nft (.addChain (.own pl.fam pl.port) "output" Gen.C04.NFT_OUTPUT_SPEC)),
        (false, .nft (.addChain (.own pl.fam pl.port) (nftTableText pl.fam pl.port) "")),
        (false, .nft (.flushChain (.own pl.fam pl.port) (nftTableText pl.fam pl.port))),
        (false, .nft (.addRule (.own pl.fam pl.port) "output" ["jump", nftTableText pl.fam pl.port])),
        (false, .nft (.addRule (.own pl.fam pl.port) "prerouting" ["jump", nftTableText pl.fam pl.port])) ] ++
      pl.nbody.map fun r => (false, Cmd.nft (.addRule (.own pl.fam pl.port) (nftTableText pl.fam pl.port) r)))) := by
    apply Keeps.steps
    intro bc hbc st st' hst h
    obtain ⟨v, _, hst⟩ := hst
    subst hst
    have hop : ∃ op, bc.2 = Cmd.nft op ∧ op.table = .own pl.fam pl.port := by
      rcases List.mem_append.mp hbc with hb | hb
      · simp only [List.mem_cons, List.mem_nil_iff, or_false] at hb
        rcases hb with rfl | rfl | rfl | rfl | rfl | rfl | rfl <;> exact ⟨_, rfl, rfl⟩
      · obtain ⟨r, _, rfl⟩ := List.mem_map.mp hb
        exact ⟨_, rfl, rfl⟩
    obtain ⟨op, hbc2, hop⟩ := hop
    rw [hbc2, apply_nft] at h
    simp only [nftLayer, putNft_nft] at h
    cases hx : nftApply (s.nft ++ optT (.own pl.fam pl.port) v) op with
    | none => rw [hx] at h; cases h
    | some X =>
      rw [hx] at h
      simp only [Option.map_some, Option.some.injEq] at h
      obtain ⟨v', hv'⟩ := nft_keep hF v op hop X hx
      exact ⟨v', trivial, by rw [← h, hv']; rfl⟩
  exact hk.hoare.weaken hbase (fun _ h => h) (fun _ h => h)

/-- `restore_firewall` of the nft method with a naturally behaving `delete table`: our table is
gone, all other tables (before and after it in the list) are exactly as they were. -/
theorem nftRestore_natural (pl : FamPlan) (hf : pl.fam = f) (hp : pl.port = p) (o : Opts)
    (hu : o.udp = false) (A B : List NftTable) (hA : nftHas A (.own f p) = false)
    (hB : nftHas B (.own f p) = false) (v : Option (List NftChain)) (base : FwState)
    (e : Env) (hN : NoFault e) (he : e.st = putNft base (A ++ optT (.own f p) v ++ B)) :
    (nftRestore pl o e).2.st = putNft base (A ++ B) ∧ NoFault (nftRestore pl o e).2 := by
  subst hf hp
  unfold nftRestore
  simp only [hu, Bool.false_eq_true, if_false]
  obtain ⟨_, h2, h3, _⟩ := steps_natural
    [(Gen.C04.NFT_RESTORE_NONFATAL, Cmd.nft (.deleteTable (.own pl.fam pl.port)))] e hN
  refine ⟨?_, h3⟩
  rw [h2, runNat_single, he, apply_nft]
  simp only [putNft_nft]
  have := nft_delete_getD hA v B hB
  cases hx : nftApply (A ++ optT (.own pl.fam pl.port) v ++ B) (.deleteTable (.own pl.fam pl.port)) with
  | none => rw [hx] at this; simp only [Option.getD_none] at this; simp [this]
  | some X => rw [hx] at this; simp only [Option.getD_some] at this; simp [this]

end

theorem nftHas_optT_other (f f' : Fam) (p p' : Nat) (hne : f ≠ f') (v : Option (List NftChain)) :
    nftHas (optT (.own f' p') v) (.own f p) = false := by
  cases v with
  | none => rfl
  | some cs =>
    unfold nftHas optT
    simp only [List.any_cons, List.any_nil, Bool.or_false, decide_eq_false_iff_not]
    intro h
    injection h with h1 _
    exact hne h1.symm

/-- The nft method as layers (one table per family). -/
def nftLayers (c : Config) (hm : c.method = .nft) (h : Hdr) (s0 : FwState) (hu : h.opts.udp = false)
    (h6 : h.has6 = true → NftFresh .v6 h.port6 s0) (h4 : h.has4 = true → NftFresh .v4 h.port4 s0) :
    Layers c h s0 where
  S := nftSetup
  R := nftRestore
  hS := by intro p o; simp [setupFw, hm]
  hR := by intro p o; simp [restoreFw, hm]
  V6 := Option (List NftChain)
  V4 := Option (List NftChain)
  L6 := fun v s => nftLayer .v6 h.port6 v s
  L4 := fun v s => nftLayer .v4 h.port4 v s
  e6 := none
  e4 := none
  ok6 := fun _ => True
  ok4 := fun _ => True
  L6e := nftLayer_none _ _
  L4e := nftLayer_none _ _
  ok6e := trivial
  ok4e := trivial
  setup6 := fun hh => nftSetup_hoare (h6 hh) _ rfl rfl _
  setup4 := fun hh v6 _ => by
    have hfr : NftFresh .v4 h.port4 (nftLayer .v6 h.port6 v6 s0) := by
      unfold NftFresh nftLayer
      simp only [putNft_nft]
      have a := h4 hh
      have b := nftHas_optT_other .v4 .v6 h.port4 h.port6 (by decide) v6
      unfold NftFresh at a
      unfold nftHas at a b ⊢
      rw [List.any_append, a, b]; rfl
    exact nftSetup_hoare hfr _ rfl rfl _
  restore6 := fun hh v6 v4 e _ _ hN he => by
    have hB := nftHas_optT_other .v6 .v4 h.port6 h.port4 (by decide) v4
    have := nftRestore_natural (f := .v6) (p := h.port6) (c.plan6 h) rfl rfl h.opts hu s0.nft
      (optT (.own .v4 h.port4) v4) (h6 hh) hB v6 s0 e hN (by rw [he]; rfl)
    exact ⟨by rw [this.1]; rfl, this.2⟩
  restore4 := fun hh v4 e _ hN he => by
    have := nftRestore_natural (f := .v4) (p := h.port4) (c.plan4 h) rfl rfl h.opts hu s0.nft
      [] (h4 hh) rfl v4 s0 e hN (by rw [he]; simp [nftLayer])
    exact ⟨by rw [this.1]; simp, this.2⟩

end Sshuttle.Fw
