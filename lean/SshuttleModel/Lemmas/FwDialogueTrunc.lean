/-
A necessary condition for the helper to reach set-up: one of the lines it read decodes to
text that starts with `GO `.  Used for the truncation theorems of C13.
-/
import SshuttleModel.Lemmas.FwDialoguePlan

namespace Sshuttle.FwDialogue

theorem parseRoutes_suffix : ∀ (ls : List Bytes) (a : List RSubnet) (l : Str) (r : List Bytes),
    parseRoutes ls = .ok (a, l, r) → ∃ pre, ls = pre ++ r
  | [], _, _, _, h => by simp [parseRoutes] at h
  | raw :: rest, a, l, r, h => by
    rw [parseRoutes] at h
    split at h
    · cases h
    · split at h
      · cases h
      · split at h
        · injection h with h
          simp only [Prod.mk.injEq] at h
          obtain ⟨_, _, rfl⟩ := h
          exact ⟨[raw], rfl⟩
        · split at h
          · split at h
            · split at h
              · cases h
              · next l' line' rest' hp =>
                injection h with h
                simp only [Prod.mk.injEq] at h
                obtain ⟨_, _, rfl⟩ := h
                obtain ⟨pre, hpre⟩ := parseRoutes_suffix rest _ _ _ hp
                exact ⟨raw :: pre, by simp [hpre]⟩
            · cases h
          · cases h

theorem parseNs_suffix : ∀ (ls : List Bytes) (a : List (Int × Str)) (l : Str) (r : List Bytes),
    parseNs ls = .ok (a, l, r) → ∃ pre, ls = pre ++ r
  | [], _, _, _, h => by simp [parseNs] at h
  | raw :: rest, a, l, r, h => by
    rw [parseNs] at h
    split at h
    · cases h
    · split at h
      · cases h
      · split at h
        · injection h with h
          simp only [Prod.mk.injEq] at h
          obtain ⟨_, _, rfl⟩ := h
          exact ⟨[raw], rfl⟩
        · split at h
          · split at h
            · split at h
              · cases h
              · next l' line' rest' hp =>
                injection h with h
                simp only [Prod.mk.injEq] at h
                obtain ⟨_, _, rfl⟩ := h
                obtain ⟨pre, hpre⟩ := parseNs_suffix rest _ _ _ hp
                exact ⟨raw :: pre, by simp [hpre]⟩
            · cases h
          · cases h

/-- If the helper reached set-up, some line it read decodes to text starting with `GO `. -/
theorem parse_ran_has_go (ls : List Bytes) (s : Setup) (hs : List (Str × Str)) (fin : End)
    (h : parse ls = .ran s hs fin) :
    ∃ raw ∈ ls, ∃ line, decodeLine raw = some line ∧ startsWith line GO_ = true := by
  unfold parse at h
  split at h
  · cases h
  · next raw0 rest0 =>
    split at h
    · cases h
    · split at h
      · cases h
      · split at h
        · cases h
        · split at h
          · cases h
          · next subnets line1 rest1 hpr =>
            split at h
            · cases h
            · split at h
              · cases h
              · next nslist line2 rest2 hpn =>
                split at h
                · cases h
                · split at h
                  · split at h
                    · split at h
                      · cases h
                      · split at h
                        · cases h
                        · next raw rest3 =>
                          split at h
                          · cases h
                          · next line hdl =>
                            split at h
                            · cases h
                            · next hcond =>
                              obtain ⟨pre1, h1⟩ := parseRoutes_suffix _ _ _ _ hpr
                              obtain ⟨pre2, h2⟩ := parseNs_suffix _ _ _ _ hpn
                              refine ⟨raw, ?_, line, hdl, ?_⟩
                              · rw [h1, h2]; simp
                              · simp at hcond; exact hcond.2
                    · cases h
                  · cases h

/-- The lines of a plan before the final `GO` line. -/
def planFront (p : Plan) : List Bytes :=
  (ROUTES ++ [10]) :: (p.includes.map (fun s => routeBody 0 s ++ [10]) ++
    (p.excludes.map (fun s => routeBody 1 s ++ [10]) ++
      ((NSLIST ++ [10]) :: (p.nslist.map (fun e => nsBody e ++ [10]) ++ [portsBody p ++ [10]]))))

theorem planLines_front (p : Plan) : planLines p = planFront p ++ [goBody p ++ [10]] := by
  simp [planLines, planFront]

theorem front_no_go (p : Plan) (hw : PlanWf p) : ∀ l ∈ planFront p, ∀ line,
    decodeLine l = some line → startsWith line GO_ = false := by
  intro l hl line hd
  simp only [planFront, List.mem_cons, List.mem_append, List.mem_map, List.mem_nil_iff, or_false] at hl
  rcases hl with rfl | ⟨s, hs, rfl⟩ | ⟨s, hs, rfl⟩ | rfl | ⟨e, he, rfl⟩ | rfl
  · have : decodeLine (ROUTES ++ [10]) = some ROUTES := by decide
    rw [this] at hd; injection hd with hd; subst hd; decide
  · rw [decodeLine_line _ (routeBody_ascii 0 (by omega) s (hw.inc s hs)) (routeBody_trimmed 0 s)] at hd
    injection hd with hd; subst hd
    exact startsWith_digit_false _ _ _ 71 rfl
  · rw [decodeLine_line _ (routeBody_ascii 1 (by omega) s (hw.exc s hs)) (routeBody_trimmed 1 s)] at hd
    injection hd with hd; subst hd
    exact startsWith_digit_false _ _ _ 71 rfl
  · have : decodeLine (NSLIST ++ [10]) = some NSLIST := by decide
    rw [this] at hd; injection hd with hd; subst hd; decide
  · have ha : Ascii (nsBody e) := by
      unfold nsBody
      simp only [ascii_append, ascii_cons, ascii_dec, ascii_of_textOk (hw.ns e he), true_and, and_true]
      omega
    rw [decodeLine_line _ ha (nsBody_trimmed e (hw.ns e he))] at hd
    injection hd with hd; subst hd
    exact startsWith_digit_false _ _ _ 71 rfl
  · rw [decodeLine_line _ (portsBody_ascii p) (portsBody_trimmed p)] at hd
    injection hd with hd; subst hd
    simp [portsBody, PORTS_, GO_, startsWith]

end Sshuttle.FwDialogue
