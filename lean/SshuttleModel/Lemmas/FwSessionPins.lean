/-
Pins for C04: the structure the code model was written for, compared with what
`harness/params/c04.py` reads from the working tree on every run.  A re-ordered, removed or
re-wrapped command makes one of these fail to build (= proof obligation broken).
-/
import SshuttleModel.Gen.C04

namespace Sshuttle.Fw.Pins
open Sshuttle.Gen.C04

example : NAT_RESTORE_SEQ =
    ["exists:$chain", "_ipm:*", "_ipt:-D:OUTPUT", "_ipt:-D:PREROUTING", "_ipt:-F:$chain", "_ipt:-X:$chain"] := by decide
example : NAT_SETUP_SEQ.take 6 =
    ["restore", "_ipt:-N:$chain", "_ipt:-F:$chain", "_ipm:*", "_ipt:-I:OUTPUT", "_ipt:-I:PREROUTING"] := by decide
example : (NAT_SETUP_SEQ.drop 6).all (· == "_ipt:-A:$chain") = true := by decide
example : NAT_SETUP_ANY_NONFATAL_IPT = false := by decide
example : TPROXY_RESTORE_SEQ =
    ["exists:$mark_chain", "_ipt:-D:OUTPUT", "_ipt:-F:$mark_chain", "_ipt:-X:$mark_chain",
     "exists:$tproxy_chain", "_ipt:-D:PREROUTING", "_ipt:-F:$tproxy_chain", "_ipt:-X:$tproxy_chain",
     "exists:$divert_chain", "_ipt:-F:$divert_chain", "_ipt:-X:$divert_chain"] := by decide
example : TPROXY_SETUP_HEAD =
    ["restore", "_ipt:-N:$mark_chain", "_ipt:-F:$mark_chain", "_ipt:-N:$divert_chain", "_ipt:-F:$divert_chain",
     "_ipt:-N:$tproxy_chain", "_ipt:-F:$tproxy_chain", "_ipt:-I:OUTPUT", "_ipt:-I:PREROUTING"] := by decide
example : TPROXY_SETUP_ANY_NONFATAL = false := by decide
example : NFT_RESTORE_SEQ = ["_nft:delete table:"] := by decide
example : NFT_SETUP_HEAD =
    ["_nft:add table:", "_nft:add chain:prerouting", "_nft:add chain:output", "_nft:add chain:$chain",
     "_nft:flush chain:$chain", "_nft:add rule:?", "_nft:add rule:?"] := by decide
example : NFT_SETUP_ANY_NONFATAL = false := by decide
example : NONFATAL_CATCHES = "Fatal" := by decide
example : IPT_RAISES_FATAL = true := by decide
example : NFT_RAISES_FATAL = true := by decide
example : FW_TRY_HAS_FINALLY = true := by decide
example : FW_FINALLY_GUARDS =
    ["restore_firewall:port_v6/Exception", "restore_firewall:port_v4/Exception",
     "restore_etc_hosts/Exception", "flush_systemd_dns_cache/Exception"] := by decide
example : FW_TRY_ORDER =
    ["setup:port_v6", "setup:port_v4", "flush_systemd_dns_cache", "rewrite_etc_hosts", "firewall_command"] := by decide

end Sshuttle.Fw.Pins
