/-
C03, pf method: the anchor's last-match filter rules and its translation rules.
-/
import SshuttleModel.Lemmas.FwRulesNat

namespace Sshuttle.Fw

theorem filterMap_ite {α β : Type} (q : α → Bool) (h : α → β) (l : List α) :
    l.filterMap (fun a => if q a = true then some (h a) else none) = (l.filter q).map h := by
  induction l with
  | nil => rfl
  | cons a t ih =>
    by_cases hq : q a = true
    · simp [List.filterMap_cons, List.filter_cons, hq, ih]
    · simp [List.filterMap_cons, List.filter_cons, hq, ih]

/-- `(p.fam6 == v6 && pfNetMatch …)` is the specification's "entry matches". -/
theorem pfNet_match (v6 : Bool) (s : Subnet) (p : Pkt)
    (hfam : s.fam = (if v6 then AF_INET6 else AF_INET)) (hp : p.fam6 = v6) :
    pfNetMatch v6 (pfNetOf s) p = Spec.entryMatches s p := by
  subst hp
  obtain ⟨fam6, dst, dport, proto, loc, dl, uid, gid, mk, sock, srcLo⟩ := p
  have hb : (s.fport == 0) = decide (s.fport = 0) := by rw [Bool.eq_iff_iff]; simp
  cases fam6 <;> simp only [af_inet, af_inet6, if_true] at hfam <;>
  by_cases hf : s.fport = 0 <;>
  simp [pfNetMatch, pfNetOf, Spec.entryMatches, Spec.contains, inPrefix,
    Spec.famBits, Spec.pktFam, bits, Spec.anyPort, hfam, hb, hf, af_inet, af_inet6]

theorem pfTable_noTable (l : List PfRule) (h : ∀ r ∈ l, ∀ ns, r ≠ .table ns) : pfTable l = [] := by
  induction l with
  | nil => rfl
  | cons r t ih =>
    have ht := ih (fun x hx => h x (List.mem_cons_of_mem _ hx))
    cases r with
    | table ns => exact absurd rfl (h _ List.mem_cons_self ns)
    | translate => simpa [pfTable] using ht
    | passOut => simpa [pfTable] using ht

theorem pfTable_pfRules (os : PfOs) (v6 : Bool) (inc : List (Bool × PfNet)) (port dnsport : Nat)
    (ns : List Ns) : pfTable (pfRules os v6 inc port dnsport ns) = ns := by
  unfold pfRules
  cases ns with
  | nil =>
    apply pfTable_noTable
    intro r hr ns'
    simp only [List.isEmpty_nil, if_true, List.nil_append, List.append_nil, List.mem_append,
      List.mem_map] at hr
    rcases hr with ⟨i, _, rfl⟩ | ⟨i, _, rfl⟩ <;> simp
  | cons a t => simp [pfTable]

theorem filterMap_nil_of {α β : Type} (f : α → Option β) (l : List α) (h : ∀ a ∈ l, f a = none) :
    l.filterMap f = [] := List.filterMap_eq_nil_iff.mpr h

theorem pf_outs (os : PfOs) (c : Call) (p : Pkt) :
    pfOutMatches c.nslist p (pfCallRules os c) =
      (sortAsc c.subnets).filterMap (fun s =>
        pfOutMatch c.nslist p (.passOut os (isV6 c.family) .tcp (.net (pfNetOf s)) (!s.excl))) ++
      (if c.nslist.isEmpty then []
       else (pfOutMatch c.nslist p (.passOut os (isV6 c.family) .udp .dnsTable true)).toList) := by
  have hrev : Gen.C03.PF_SORT_REVERSE = false := rfl
  unfold pfOutMatches pfCallRules pfRules pfIncludes
  simp only [hrev, sortBy, Bool.false_eq_true, if_false, List.filterMap_append, List.filterMap_map]
  have h1 : (if c.nslist.isEmpty = true then [] else [PfRule.table c.nslist]).filterMap
      (pfOutMatch c.nslist p) = [] := by
    split <;> simp [pfOutMatch]
  have h2 : List.filterMap (pfOutMatch c.nslist p ∘ fun i => PfRule.translate os (isV6 c.family) Proto.tcp (PfTo.net i.2) c.port)
      (List.filter (fun i => !i.1) (List.map (fun s => (s.excl, pfNetOf s)) (sortAsc c.subnets))) = [] := by
    apply filterMap_nil_of; intro a _; rfl
  have h3 : (if c.nslist.isEmpty = true then [] else [PfRule.translate os (isV6 c.family) Proto.udp PfTo.dnsTable c.dnsport]).filterMap
      (pfOutMatch c.nslist p) = [] := by
    split <;> simp [pfOutMatch]
  rw [h1, h2, h3]
  simp only [List.nil_append]
  congr 1
  split
  · rfl
  · simp only [List.filterMap_cons, List.filterMap_nil]
    cases pfOutMatch c.nslist p (PfRule.passOut os (isV6 c.family) Proto.udp PfTo.dnsTable true) <;> rfl

theorem pf_trans (os : PfOs) (c : Call) (p : Pkt) :
    pfTransMatches c.nslist p (pfCallRules os c) =
      ((sortAsc c.subnets).filter (fun s => !s.excl)).filterMap (fun s =>
        pfTransMatch c.nslist p (.translate os (isV6 c.family) .tcp (.net (pfNetOf s)) c.port)) ++
      (if c.nslist.isEmpty then []
       else (pfTransMatch c.nslist p (.translate os (isV6 c.family) .udp .dnsTable c.dnsport)).toList) := by
  have hrev : Gen.C03.PF_SORT_REVERSE = false := rfl
  unfold pfTransMatches pfCallRules pfRules pfIncludes
  simp only [hrev, sortBy, Bool.false_eq_true, if_false, List.filterMap_append, List.filterMap_map,
    List.filter_map]
  have h1 : (if c.nslist.isEmpty = true then [] else [PfRule.table c.nslist]).filterMap
      (pfTransMatch c.nslist p) = [] := by
    split <;> simp [pfTransMatch]
  have h2 : List.filterMap ((pfTransMatch c.nslist p ∘ fun i => PfRule.passOut os (isV6 c.family) Proto.tcp (PfTo.net i.2) !i.1) ∘
      fun s => (s.excl, pfNetOf s)) (sortAsc c.subnets) = [] := by
    apply filterMap_nil_of; intro a _; rfl
  have h3 : (if c.nslist.isEmpty = true then [] else [PfRule.passOut os (isV6 c.family) Proto.udp PfTo.dnsTable true]).filterMap
      (pfTransMatch c.nslist p) = [] := by
    split <;> simp [pfTransMatch]
  rw [h1, h2, h3]
  simp only [List.nil_append, List.append_nil]
  congr 1
  split
  · rfl
  · simp only [List.filterMap_cons, List.filterMap_nil]
    cases pfTransMatch c.nslist p (PfRule.translate os (isV6 c.family) Proto.udp PfTo.dnsTable c.dnsport) <;> rfl


theorem filterMap_congr' {α β : Type} {f g : α → Option β} {l : List α}
    (h : ∀ a ∈ l, f a = g a) : l.filterMap f = l.filterMap g := by
  induction l with
  | nil => rfl
  | cons a t ih =>
    simp only [List.filterMap_cons, h a List.mem_cons_self,
      ih (fun x hx => h x (List.mem_cons_of_mem _ hx))]

/-- pf, TCP packet of the call's family: the last matching `pass out` rule of the anchor is a
`route-to lo0` rule iff the most specific matching entry is an include. -/
theorem pf_filter_tcp (os : PfOs) (c : Call) (p : Pkt)
    (hfam : c.family = AF_INET ∨ c.family = AF_INET6)
    (hwf : ∀ s ∈ c.subnets, Spec.WfEntry s ∧ s.fam = c.family)
    (hp : p.fam6 = isV6 c.family) (hpr : p.proto = .tcp) :
    ((pfOutMatches c.nslist p (pfCallRules os c)).getLast? = some true) ↔
      Spec.mostSpecificIsInclude c.subnets p = true := by
  rw [pf_outs]
  have hd : pfOutMatch c.nslist p (.passOut os (isV6 c.family) .udp .dnsTable true) = none := by
    simp [pfOutMatch, hpr]
  have hd' : (if c.nslist.isEmpty then []
       else (pfOutMatch c.nslist p (.passOut os (isV6 c.family) .udp .dnsTable true)).toList) = [] := by
    rw [hd]; split <;> rfl
  rw [hd', List.append_nil]
  have hcongr : (sortAsc c.subnets).filterMap (fun s =>
        pfOutMatch c.nslist p (.passOut os (isV6 c.family) .tcp (.net (pfNetOf s)) (!s.excl))) =
      (sortAsc c.subnets).filterMap (fun s =>
        if Spec.entryMatches s p = true then some (!s.excl) else none) := by
    apply filterMap_congr'
    intro s hs
    have hsf : s.fam = (if isV6 c.family then AF_INET6 else AF_INET) := by
      rw [(hwf s (mem_sortAsc.mp hs)).2]; exact famOf_isV6 hfam
    simp [pfOutMatch, pfToMatch, hpr, hp, pfNet_match _ s p hsf hp]
  rw [hcongr, filterMap_ite, List.getLast?_map]
  have hspec := getLast?_sortAsc_spec c.subnets (fun s => Spec.entryMatches s p) p (fun _ _ => rfl)
    (fun s hs => (hwf s hs).1)
  cases hl : ((sortAsc c.subnets).filter (fun s => Spec.entryMatches s p)).getLast? with
  | none => rw [hl] at hspec; simp only at hspec; simp [hspec]
  | some s0 =>
    rw [hl] at hspec; simp only at hspec
    obtain ⟨_, _, hms⟩ := hspec
    simp [hms]

theorem any_congr' {α : Type} {f g : α → Bool} {l : List α} (h : ∀ a ∈ l, f a = g a) :
    l.any f = l.any g := by
  induction l with
  | nil => rfl
  | cons a t ih =>
    simp only [List.any_cons, h a List.mem_cons_self, ih (fun x hx => h x (List.mem_cons_of_mem _ hx))]

theorem isDns_any (c : Call) (p : Pkt) (hfam : c.family = AF_INET ∨ c.family = AF_INET6)
    (hp : p.fam6 = isV6 c.family) (hns : ∀ ns ∈ c.nslist, ns.fam = c.family) :
    Spec.isDnsToNs c.nslist p =
      (p.proto == .udp && (c.nslist.any (fun ns => ns.addr == p.dst) && p.dport == 53)) := by
  unfold Spec.isDnsToNs
  rw [pktFam_eq hfam hp]
  have : (c.nslist.any fun ns => ns.fam == c.family && ns.addr == p.dst) =
      c.nslist.any (fun ns => ns.addr == p.dst) := by
    apply any_congr'
    intro ns h; simp [hns ns h]
  rw [this]
  cases p.proto == Proto.udp <;> cases p.dport == 53 <;> simp

/-- The value list of the matching `pass out` rules / translation rules, per packet class. -/
theorem pf_lists (os : PfOs) (c : Call) (p : Pkt)
    (hfam : c.family = AF_INET ∨ c.family = AF_INET6)
    (hwf : ∀ s ∈ c.subnets, Spec.WfEntry s ∧ s.fam = c.family)
    (hp : p.fam6 = isV6 c.family) (hsrc : p.srcLo = false) :
    (sortAsc c.subnets).filterMap (fun s =>
        pfOutMatch c.nslist p (.passOut os (isV6 c.family) .tcp (.net (pfNetOf s)) (!s.excl))) =
      ((sortAsc c.subnets).filter (fun s => p.proto == .tcp && Spec.entryMatches s p)).map (fun s => !s.excl) ∧
    ((sortAsc c.subnets).filter (fun s => !s.excl)).filterMap (fun s =>
        pfTransMatch c.nslist p (.translate os (isV6 c.family) .tcp (.net (pfNetOf s)) c.port)) =
      (((sortAsc c.subnets).filter (fun s => !s.excl)).filter
        (fun s => p.proto == .tcp && Spec.entryMatches s p)).map (fun _ => c.port) := by
  have hsf : ∀ s ∈ sortAsc c.subnets, s.fam = (if isV6 c.family then AF_INET6 else AF_INET) := by
    intro s hs; rw [(hwf s (mem_sortAsc.mp hs)).2]; exact famOf_isV6 hfam
  constructor
  · rw [← filterMap_ite]
    apply filterMap_congr'
    intro s hs
    cases hpr : p.proto <;> simp [pfOutMatch, pfToMatch, hpr, hp, pfNet_match _ s p (hsf s hs) hp]
  · rw [← filterMap_ite]
    apply filterMap_congr'
    intro s hs
    have hs' := (List.mem_filter.mp hs).1
    cases os <;> cases hpr : p.proto <;>
      simp [pfTransMatch, pfToMatch, hpr, hp, hsrc, pfNet_match _ s p (hsf s hs') hp]

theorem head?_map_const_of_mem {α β : Type} (l : List α) (b : β) (a : α) (h : a ∈ l) :
    (l.map (fun _ => b)).head? = some b ∧ (l.map (fun _ => b)).getLast? = some b := by
  cases l with
  | nil => cases h
  | cons x t =>
    refine ⟨rfl, ?_⟩
    rw [List.getLast?_map]
    cases hl : (x :: t).getLast? with
    | none => simp at hl
    | some y => rfl

/-- One pf anchor (one `setup_firewall` call) seen by a packet of either family. -/
theorem pf_anchor_verdict (os : PfOs) (c : Call) (p : Pkt)
    (hfam : c.family = AF_INET ∨ c.family = AF_INET6)
    (hwf : ∀ s ∈ c.subnets, Spec.WfEntry s ∧ s.fam = c.family)
    (hns : ∀ ns ∈ c.nslist, ns.fam = c.family) (hsrc : p.srcLo = false) :
    verdictPfAnchor os (pfCallRules os c) p =
      if p.fam6 = isV6 c.family then Spec.expectedCall c false false p else .untouched := by
  unfold verdictPfAnchor
  have htbl : pfTable (pfCallRules os c) = c.nslist := pfTable_pfRules _ _ _ _ _ _
  simp only [htbl, pf_outs, pf_trans]
  by_cases hp : p.fam6 = isV6 c.family
  · rw [if_pos hp]
    obtain ⟨hO1, hT1⟩ := pf_lists os c p hfam hwf hp hsrc
    rw [hO1, hT1]
    have hdns := isDns_any c p hfam hp hns
    unfold Spec.expectedCall
    simp only [Bool.false_and, Bool.false_eq_true, if_false, Bool.or_false]
    cases hpr : p.proto with
    | tcp =>
      have hd : Spec.isDnsToNs c.nslist p = false := by rw [hdns, hpr]; simp
      have hO2 : (if c.nslist.isEmpty then []
          else (pfOutMatch c.nslist p (.passOut os (isV6 c.family) .udp .dnsTable true)).toList) = [] := by
        split
        · rfl
        · simp [pfOutMatch, hpr]
      have hT2 : (if c.nslist.isEmpty then []
          else (pfTransMatch c.nslist p (.translate os (isV6 c.family) .udp .dnsTable c.dnsport)).toList) = [] := by
        split
        · rfl
        · simp [pfTransMatch, hpr]
      rw [hO2, hT2, hd]
      simp only [List.append_nil, BEq.rfl, Bool.true_and, Bool.false_eq_true, if_false]
      rw [List.getLast?_map]
      have hspec := getLast?_sortAsc_spec c.subnets (fun s => Spec.entryMatches s p) p (fun _ _ => rfl)
        (fun s hs => (hwf s hs).1)
      cases hl : ((sortAsc c.subnets).filter (fun s => Spec.entryMatches s p)).getLast? with
      | none => rw [hl] at hspec; simp only at hspec; simp [hspec]
      | some s0 =>
        rw [hl] at hspec; simp only at hspec
        obtain ⟨_, hm0, hms⟩ := hspec
        have hmemf := List.mem_of_getLast? hl
        cases hx : s0.excl with
        | true => simp [hms, hx]
        | false =>
          have hin : s0 ∈ ((sortAsc c.subnets).filter (fun s => !s.excl)).filter
              (fun s => Spec.entryMatches s p) := by
            rw [List.mem_filter, List.mem_filter]
            exact ⟨⟨(List.mem_filter.mp hmemf).1, by simp [hx]⟩, hm0⟩
          obtain ⟨h1, h2⟩ := head?_map_const_of_mem _ c.port s0 hin
          simp only [Option.map_some, hx, Bool.not_false, hms]
          cases os <;> simp only [h1, h2] <;> simp
    | udp =>
      have hO1' : ((sortAsc c.subnets).filter (fun s => Proto.udp == Proto.tcp && Spec.entryMatches s p)) = [] := by
        rw [List.filter_eq_nil_iff]; intro s _; simp
      have hT1' : (((sortAsc c.subnets).filter (fun s => !s.excl)).filter
          (fun s => Proto.udp == Proto.tcp && Spec.entryMatches s p)) = [] := by
        rw [List.filter_eq_nil_iff]; intro s _; simp
      rw [hO1', hT1']
      simp only [List.map_nil, List.nil_append, udp_beq_tcp, Bool.false_and, Bool.false_eq_true, if_false]
      rw [hpr] at hdns
      by_cases he : c.nslist.isEmpty = true
      · have hnil : c.nslist = [] := List.isEmpty_iff.mp he
        have hd : Spec.isDnsToNs c.nslist p = false := by rw [hdns, hnil]; simp
        simp [he, hd]
      · cases hd : Spec.isDnsToNs c.nslist p with
        | false =>
          rw [hd] at hdns
          have hcond : (c.nslist.any (fun ns => ns.addr == p.dst) && p.dport == 53) = false := by
            simpa using hdns.symm
          simp [he, pfOutMatch, pfToMatch, hpr, hp, hcond]
        | true =>
          rw [hd] at hdns
          have hcond : (c.nslist.any (fun ns => ns.addr == p.dst) && p.dport == 53) = true := by
            simpa using hdns.symm
          cases os <;> simp [he, pfOutMatch, pfTransMatch, pfToMatch, hpr, hp, hcond]
  · rw [if_neg hp]
    have hb : (p.fam6 == isV6 c.family) = false := by simpa using hp
    have h1 : (sortAsc c.subnets).filterMap (fun s =>
        pfOutMatch c.nslist p (.passOut os (isV6 c.family) .tcp (.net (pfNetOf s)) (!s.excl))) = [] := by
      apply filterMap_nil_of; intro s _; simp [pfOutMatch, hb]
    have h2 : (if c.nslist.isEmpty then []
        else (pfOutMatch c.nslist p (.passOut os (isV6 c.family) .udp .dnsTable true)).toList) = [] := by
      split
      · rfl
      · simp [pfOutMatch, hb]
    rw [h1, h2]
    simp
end Sshuttle.Fw
