/-
C03, pf method: the anchor's last-match filter rules and its translation rules.
-/
import SshuttleModel.Lemmas.FwRulesNat

namespace Sshuttle.Fw

theorem filterMap_ite {α β : Type} (q : α → Bool) (h : α → β) (l : List α) :
    l.filterMap (fun a => if q a = true then some (h a) else none) = (l.filter q).map h := by
  induction l with
  | nil => rfl
  | cons a t ih =>
    by_cases hq : q a = true
    · simp [List.filterMap_cons, List.filter_cons, hq, ih]
    · simp [List.filterMap_cons, List.filter_cons, hq, ih]

/-- `(p.fam6 == v6 && pfNetMatch …)` is the specification's "entry matches". -/
theorem pfNet_match (v6 : Bool) (s : Subnet) (p : Pkt)
    (hfam : s.fam = (if v6 then AF_INET6 else AF_INET)) (hp : p.fam6 = v6) :
    pfNetMatch v6 (pfNetOf s) p = Spec.entryMatches s p := by
  subst hp
  obtain ⟨fam6, dst, dport, proto, loc, dl, uid, gid, mk, sock, srcLo⟩ := p
  have hb : (s.fport == 0) = decide (s.fport = 0) := by rw [Bool.eq_iff_iff]; simp
  cases fam6 <;> simp only [af_inet, af_inet6, if_true] at hfam <;>
  by_cases hf : s.fport = 0 <;>
  simp [pfNetMatch, pfNetOf, Spec.entryMatches, Spec.contains, inPrefix,
    Spec.famBits, Spec.pktFam, bits, Spec.anyPort, hfam, hb, hf, af_inet, af_inet6]

theorem pfTable_noTable (l : List PfRule) (h : ∀ r ∈ l, ∀ ns, r ≠ .table ns) : pfTable l = [] := by
  induction l with
  | nil => rfl
  | cons r t ih =>
    have ht := ih (fun x hx => h x (List.mem_cons_of_mem _ hx))
    cases r with
    | table ns => exact absurd rfl (h _ List.mem_cons_self ns)
    | translate => simpa [pfTable] using ht
    | passOut => simpa [pfTable] using ht

theorem pfTable_pfRules (os : PfOs) (v6 : Bool) (inc : List (Bool × PfNet)) (port dnsport : Nat)
    (ns : List Ns) : pfTable (pfRules os v6 inc port dnsport ns) = ns := by
  unfold pfRules
  cases ns with
  | nil =>
    apply pfTable_noTable
    intro r hr ns'
    simp only [List.isEmpty_nil, if_true, List.nil_append, List.append_nil, List.mem_append,
      List.mem_map] at hr
    rcases hr with ⟨i, _, rfl⟩ | ⟨i, _, rfl⟩ <;> simp
  | cons a t => simp [pfTable]

theorem filterMap_nil_of {α β : Type} (f : α → Option β) (l : List α) (h : ∀ a ∈ l, f a = none) :
    l.filterMap f = [] := List.filterMap_eq_nil_iff.mpr h

theorem pf_outs (os : PfOs) (c : Call) (p : Pkt) :
    pfOutMatches c.nslist p (pfCallRules os c) =
      (sortAsc c.subnets).filterMap (fun s =>
        pfOutMatch c.nslist p (.passOut os (isV6 c.family) .tcp (.net (pfNetOf s)) (!s.excl))) ++
      (if c.nslist.isEmpty then []
       else (pfOutMatch c.nslist p (.passOut os (isV6 c.family) .udp .dnsTable true)).toList) := by
  have hrev : Gen.C03.PF_SORT_REVERSE = false := rfl
  unfold pfOutMatches pfCallRules pfRules pfIncludes
  simp only [hrev, sortBy, Bool.false_eq_true, if_false, List.filterMap_append, List.filterMap_map]
  have h1 : (if c.nslist.isEmpty = true then [] else [PfRule.table c.nslist]).filterMap
      (pfOutMatch c.nslist p) = [] := by
    split <;> simp [pfOutMatch]
  have h2 : List.filterMap (pfOutMatch c.nslist p ∘ fun i => PfRule.translate os (isV6 c.family) Proto.tcp (PfTo.net i.2) c.port)
      (List.filter (fun i => !i.1) (List.map (fun s => (s.excl, pfNetOf s)) (sortAsc c.subnets))) = [] := by
    apply filterMap_nil_of; intro a _; rfl
  have h3 : (if c.nslist.isEmpty = true then [] else [PfRule.translate os (isV6 c.family) Proto.udp PfTo.dnsTable c.dnsport]).filterMap
      (pfOutMatch c.nslist p) = [] := by
    split <;> simp [pfOutMatch]
  rw [h1, h2, h3]
  simp only [List.nil_append]
  congr 1
  split
  · rfl
  · simp only [List.filterMap_cons, List.filterMap_nil]
    cases pfOutMatch c.nslist p (PfRule.passOut os (isV6 c.family) Proto.udp PfTo.dnsTable true) <;> rfl

theorem pf_trans (os : PfOs) (c : Call) (p : Pkt) :
    pfTransMatches c.nslist p (pfCallRules os c) =
      ((sortAsc c.subnets).filter (fun s => !s.excl)).filterMap (fun s =>
        pfTransMatch c.nslist p (.translate os (isV6 c.family) .tcp (.net (pfNetOf s)) c.port)) ++
      (if c.nslist.isEmpty then []
       else (pfTransMatch c.nslist p (.translate os (isV6 c.family) .udp .dnsTable c.dnsport)).toList) := by
  have hrev : Gen.C03.PF_SORT_REVERSE = false := rfl
  unfold pfTransMatches pfCallRules pfRules pfIncludes
  simp only [hrev, sortBy, Bool.false_eq_true, if_false, List.filterMap_append, List.filterMap_map,
    List.filter_map]
  have h1 : (if c.nslist.isEmpty = true then [] else [PfRule.table c.nslist]).filterMap
      (pfTransMatch c.nslist p) = [] := by
    split <;> simp [pfTransMatch]
  have h2 : List.filterMap ((pfTransMatch c.nslist p ∘ fun i => PfRule.passOut os (isV6 c.family) Proto.tcp (PfTo.net i.2) !i.1) ∘
      fun s => (s.excl, pfNetOf s)) (sortAsc c.subnets) = [] := by
    apply filterMap_nil_of; intro a _; rfl
  have h3 : (if c.nslist.isEmpty = true then [] else [PfRule.passOut os (isV6 c.family) Proto.udp PfTo.dnsTable true]).filterMap
      (pfTransMatch c.nslist p) = [] := by
    split <;> simp [pfTransMatch]
  rw [h1, h2, h3]
  simp only [List.nil_append, List.append_nil]
  congr 1
  split
  · rfl
  · simp only [List.filterMap_cons, List.filterMap_nil]
    cases pfTransMatch c.nslist p (PfRule.translate os (isV6 c.family) Proto.udp PfTo.dnsTable c.dnsport) <;> rfl


theorem filterMap_congr' {α β : Type} {f g : α → Option β} {l : List α}
    (h : ∀ a ∈ l, f a = g a) : l.filterMap f = l.filterMap g := by
  induction l with
  | nil => rfl
  | cons a t ih =>
    simp only [List.filterMap_cons, h a List.mem_cons_self,
      ih (fun x hx => h x (List.mem_cons_of_mem _ hx))]

/-- pf, TCP packet of the call's family: the last matching `pass out` rule of the anchor is a
`route-to lo0` rule iff the most specific matching entry is an include. -/
theorem pf_filter_tcp (os : PfOs) (c : Call) (p : Pkt)
    (hfam : c.family = AF_INET ∨ c.family = AF_INET6)
    (hwf : ∀ s ∈ c.subnets, Spec.WfEntry s ∧ s.fam = c.family)
    (hp : p.fam6 = isV6 c.family) (hpr : p.proto = .tcp) :
    ((pfOutMatches c.nslist p (pfCallRules os c)).getLast? = some true) ↔
      Spec.mostSpecificIsInclude c.subnets p = true := by
  rw [pf_outs]
  have hd : pfOutMatch c.nslist p (.passOut os (isV6 c.family) .udp .dnsTable true) = none := by
    simp [pfOutMatch, hpr]
  have hd' : (if c.nslist.isEmpty then []
       else (pfOutMatch c.nslist p (.passOut os (isV6 c.family) .udp .dnsTable true)).toList) = [] := by
    rw [hd]; split <;> rfl
  rw [hd', List.append_nil]
  have hcongr : (sortAsc c.subnets).filterMap (fun s =>
        pfOutMatch c.nslist p (.passOut os (isV6 c.family) .tcp (.net (pfNetOf s)) (!s.excl))) =
      (sortAsc c.subnets).filterMap (fun s =>
        if Spec.entryMatches s p = true then some (!s.excl) else none) := by
    apply filterMap_congr'
    intro s hs
    have hsf : s.fam = (if isV6 c.family then AF_INET6 else AF_INET) := by
      rw [(hwf s (mem_sortAsc.mp hs)).2]; exact famOf_isV6 hfam
    simp [pfOutMatch, pfToMatch, hpr, hp, pfNet_match _ s p hsf hp]
  rw [hcongr, filterMap_ite, List.getLast?_map]
  have hspec := getLast?_sortAsc_spec c.subnets (fun s => Spec.entryMatches s p) p (fun _ _ => rfl)
    (fun s hs => (hwf s hs).1)
  cases hl : ((sortAsc c.subnets).filter (fun s => Spec.entryMatches s p)).getLast? with
  | none => rw [hl] at hspec; simp only at hspec; simp [hspec]
  | some s0 =>
    rw [hl] at hspec; simp only at hspec
    obtain ⟨_, _, hms⟩ := hspec
    simp [hms]

end Sshuttle.Fw
