/-
tproxy method, table level.  In the mangle table of one family a session on `port` owns the
chains `sshuttle-m-<port>`, `sshuttle-d-<port>`, `sshuttle-t-<port>` and the jump rules at the head
of OUTPUT (to the mark chain) and PREROUTING (to the tproxy chain).  `buildTp p T v` lays a view
`v` (which jumps are present, the list of our chains in creation order) over a base table `T` that
has nothing of ours; every command of the session maps views to views.
-/
import SshuttleModel.Lemmas.FwSessionNft

namespace Sshuttle.Fw

structure TpView where
  out : Bool
  pre : Bool
  own : List Chain

def TpView.empty : TpView := ⟨false, false, []⟩

def tpF (p : Nat) (out pre : Bool) (ch : Chain) : Chain :=
  if ch.name = OUTPUT then { ch with rules := pfx out (tpJumpMark p) ++ ch.rules }
  else if ch.name = PREROUTING then { ch with rules := pfx pre (tpJumpTproxy p) ++ ch.rules }
  else ch

def buildTp (p : Nat) (T : Table) (v : TpView) : Table := T.map (tpF p v.out v.pre) ++ v.own

@[simp] theorem tpF_name (p a b ch) : (tpF p a b ch).name = ch.name := by
  unfold tpF
  split
  · rfl
  · split <;> rfl

theorem tpF_empty (p) : tpF p false false = id := by
  funext ch
  unfold tpF
  split
  · simp
  · split <;> simp

@[simp] theorem buildTp_empty (p) (T : Table) : buildTp p T TpView.empty = T := by
  show T.map (tpF p false false) ++ [] = T
  rw [tpF_empty]; simp

/-! ### generic facts about tables -/

theorem Table.has_append (a b : Table) (c : CName) : Table.has (a ++ b) c = (a.has c || b.has c) := by
  unfold Table.has; rw [List.any_append]

theorem Table.has_modify (t : Table) (c x : CName) (f : List Rule → List Rule) :
    Table.has (t.modify c f) x = t.has x := by
  unfold Table.has Table.modify
  rw [List.any_map]
  congr 1
  funext ch
  by_cases h : ch.name = c <;> simp [h]

theorem Table.modify_of_not_has (t : Table) (c : CName) (f : List Rule → List Rule)
    (h : t.has c = false) : t.modify c f = t := by
  unfold Table.modify
  conv => rhs; rw [← List.map_id t]
  apply List.map_congr_left
  intro ch hch
  unfold Table.has at h
  rw [List.any_eq_false] at h
  have := h ch hch
  simp only [decide_eq_true_eq] at this
  simp [this]

theorem Table.filter_of_not_has (t : Table) (c : CName) (h : t.has c = false) :
    t.filter (fun ch => decide (ch.name ≠ c)) = t := by
  rw [List.filter_eq_self]
  intro ch hch
  unfold Table.has at h
  rw [List.any_eq_false] at h
  simpa using h ch hch

theorem ne_pred (c : CName) :
    (fun ch : Chain => decide (ch.name ≠ c)) = fun ch => !decide (ch.name = c) := by
  funext ch; simp

theorem Table.filter_modify (t : Table) (c : CName) (f : List Rule → List Rule) :
    (t.modify c f).filter (fun ch => decide (ch.name ≠ c)) = t.filter (fun ch => decide (ch.name ≠ c)) := by
  rw [ne_pred]
  unfold Table.modify
  induction t with
  | nil => rfl
  | cons ch rest ih =>
    simp only [List.map_cons, List.filter_cons]
    by_cases h : ch.name = c
    · simp only [h, if_true, decide_true, Bool.not_true, Bool.false_eq_true, if_false]; exact ih
    · simp only [h, if_false, decide_false, Bool.not_false, if_true]; rw [ih]

theorem Table.has_filter (t : Table) (c x : CName) :
    Table.has (t.filter (fun ch => decide (ch.name ≠ c))) x = (decide (x ≠ c) && t.has x) := by
  rw [ne_pred]
  unfold Table.has
  induction t with
  | nil => simp
  | cons ch rest ih =>
    simp only [List.filter_cons]
    by_cases h : ch.name = c
    · simp only [h, decide_true, Bool.not_true, Bool.false_eq_true, if_false, List.any_cons]
      rw [ih]
      by_cases hx : x = c
      · subst hx; simp
      · have : ¬ c = x := fun e => hx e.symm
        simp [hx, this]
    · simp only [h, decide_false, Bool.not_false, if_true, List.any_cons]
      rw [ih]
      by_cases hx : ch.name = x
      · have : ¬ x = c := fun e => h (hx.trans e)
        simp [hx, this]
      · simp [hx]

section table
variable {p : Nat} {T : Table}
variable (hC : ∀ ch ∈ T, ∀ k, ch.name ≠ CName.own k p)
variable (hR : ∀ ch ∈ T, ∀ r ∈ ch.rules, ∀ k, r.tgt ≠ Tgt.chain (.own k p))

/-- Names of our chains. -/
def OwnNames (p : Nat) (own : List Chain) : Prop := ∀ ch ∈ own, ∃ k, ch.name = CName.own k p

include hC in
theorem tp_map_has_own (a b : Bool) (k : Kind) : Table.has (T.map (tpF p a b)) (.own k p) = false :=
  map_has_own hC (tpF p a b) (tpF_name p a b) k

include hC in
theorem buildTp_has_own (v : TpView) (k : Kind) :
    (buildTp p T v).has (.own k p) = Table.has v.own (.own k p) := by
  unfold buildTp
  rw [Table.has_append, tp_map_has_own hC]; rfl

theorem own_has_builtin {own : List Chain} (hO : OwnNames p own) (b : String) :
    Table.has own (.builtin b) = false := by
  unfold Table.has
  rw [List.any_eq_false]
  intro ch hch
  obtain ⟨k, hk⟩ := hO ch hch
  simp [hk]

theorem buildTp_has_builtin (v : TpView) (hO : OwnNames p v.own) (b : String) :
    (buildTp p T v).has (.builtin b) = T.has (.builtin b) := by
  unfold buildTp
  rw [Table.has_append, own_has_builtin hO, map_has (T := T) (tpF p v.out v.pre) (tpF_name p v.out v.pre)]
  simp

include hC in
theorem tp_apply_newChain (v : TpView) (k : Kind) :
    (buildTp p T v).apply (.newChain (.own k p)) =
      if Table.has v.own (.own k p) then none
      else some (buildTp p T { v with own := v.own ++ [⟨.own k p, []⟩] }) := by
  rw [Table.apply_newChain, buildTp_has_own hC]
  unfold buildTp
  simp [List.append_assoc]

include hC in
theorem tp_modify_own (v : TpView) (k : Kind) (f : List Rule → List Rule) :
    Table.modify (buildTp p T v) (.own k p) f = buildTp p T { v with own := Table.modify v.own (.own k p) f } := by
  unfold buildTp
  rw [Table.modify_append, Table.modify_of_not_has _ _ _ (tp_map_has_own hC _ _ k)]

include hC in
theorem tp_apply_flush (v : TpView) (k : Kind) :
    (buildTp p T v).apply (.flush (.own k p)) =
      if Table.has v.own (.own k p)
      then some (buildTp p T { v with own := Table.modify v.own (.own k p) fun _ => [] }) else none := by
  rw [Table.apply_flush, buildTp_has_own hC, tp_modify_own hC]

include hC in
theorem tp_apply_append (v : TpView) (k : Kind) (r : Rule) (X : Table)
    (h : (buildTp p T v).apply (.append (.own k p) r) = some X) :
    Table.has v.own (.own k p) = true ∧
    X = buildTp p T { v with own := Table.modify v.own (.own k p) fun rs => rs ++ [r] } := by
  rw [Table.apply_append, buildTp_has_own hC, tp_modify_own hC] at h
  by_cases hh : Table.has v.own (.own k p) = true
  · rw [hh] at h
    by_cases ht : (buildTp p T v).tgtOk r = true
    · simp only [ht, Bool.and_self, if_true, Option.some.injEq] at h
      exact ⟨hh, h.symm⟩
    · simp [ht] at h
  · simp [hh] at h

theorem tp_modify_builtin (v : TpView) (hO : OwnNames p v.own) (b : String) (f : List Rule → List Rule) :
    Table.modify (buildTp p T v) (.builtin b) f =
      Table.modify (T.map (tpF p v.out v.pre)) (.builtin b) f ++ v.own := by
  unfold buildTp
  rw [Table.modify_append, Table.modify_of_not_has v.own _ _ (own_has_builtin hO b)]

include hC in
theorem tp_apply_insert_out (v : TpView) (hO : OwnNames p v.own) (hv : v.out = false) (X : Table)
    (h : (buildTp p T v).apply (.insert OUTPUT (tpJumpMark p)) = some X) :
    Table.has v.own (.own .mark p) = true ∧ X = buildTp p T { v with out := true } := by
  rw [Table.apply_insert] at h
  by_cases hc : ((buildTp p T v).has OUTPUT && (buildTp p T v).tgtOk (tpJumpMark p)) = true
  · rw [if_pos hc] at h
    injection h with h
    have hm : Table.has v.own (.own .mark p) = true := by
      simp only [Bool.and_eq_true] at hc
      have := hc.2
      simp only [Table.tgtOk, tpJumpMark] at this
      rw [buildTp_has_own hC] at this
      exact this
    refine ⟨hm, ?_⟩
    rw [← h]
    unfold OUTPUT
    rw [tp_modify_builtin v hO]
    unfold buildTp
    congr 1
    unfold Table.modify
    rw [List.map_map]
    apply List.map_congr_left
    intro ch _
    simp only [Function.comp, tpF_name, hv]
    unfold tpF OUTPUT
    by_cases hn : ch.name = .builtin "OUTPUT" <;> simp [hn]
  · rw [if_neg hc] at h; cases h

include hC in
theorem tp_apply_insert_pre (v : TpView) (hO : OwnNames p v.own) (hv : v.pre = false) (X : Table)
    (h : (buildTp p T v).apply (.insert PREROUTING (tpJumpTproxy p)) = some X) :
    Table.has v.own (.own .tproxy p) = true ∧ X = buildTp p T { v with pre := true } := by
  rw [Table.apply_insert] at h
  by_cases hc : ((buildTp p T v).has PREROUTING && (buildTp p T v).tgtOk (tpJumpTproxy p)) = true
  · rw [if_pos hc] at h
    injection h with h
    have hm : Table.has v.own (.own .tproxy p) = true := by
      simp only [Bool.and_eq_true] at hc
      have := hc.2
      simp only [Table.tgtOk, tpJumpTproxy] at this
      rw [buildTp_has_own hC] at this
      exact this
    refine ⟨hm, ?_⟩
    rw [← h]
    unfold PREROUTING
    rw [tp_modify_builtin v hO]
    unfold buildTp
    congr 1
    unfold Table.modify
    rw [List.map_map]
    apply List.map_congr_left
    intro ch _
    simp only [Function.comp, tpF_name, hv]
    unfold tpF OUTPUT PREROUTING
    by_cases hn : ch.name = .builtin "OUTPUT"
    · simp [hn]
    · by_cases hn2 : ch.name = .builtin "PREROUTING" <;> simp [hn, hn2]
  · rw [if_neg hc] at h; cases h

include hR in
theorem tp_delete_out (v : TpView) (hO : OwnNames p v.own) :
    ((buildTp p T v).apply (.delete OUTPUT (tpJumpMark p))).getD (buildTp p T v) =
      buildTp p T { v with out := false } := by
  rw [delete_getD]
  unfold OUTPUT
  rw [tp_modify_builtin v hO]
  unfold buildTp
  congr 1
  unfold Table.modify
  rw [List.map_map]
  apply List.map_congr_left
  intro ch hch
  have hj : tpJumpMark p ∉ ch.rules := fun h => hR ch hch _ h .mark rfl
  simp only [Function.comp, tpF_name]
  unfold tpF OUTPUT
  by_cases hn : ch.name = .builtin "OUTPUT"
  · cases v.out <;> simp [hn, List.erase_of_not_mem hj]
  · simp [hn]

include hR in
theorem tp_delete_pre (v : TpView) (hO : OwnNames p v.own) :
    ((buildTp p T v).apply (.delete PREROUTING (tpJumpTproxy p))).getD (buildTp p T v) =
      buildTp p T { v with pre := false } := by
  rw [delete_getD]
  unfold PREROUTING
  rw [tp_modify_builtin v hO]
  unfold buildTp
  congr 1
  unfold Table.modify
  rw [List.map_map]
  apply List.map_congr_left
  intro ch hch
  have hj : tpJumpTproxy p ∉ ch.rules := fun h => hR ch hch _ h .tproxy rfl
  simp only [Function.comp, tpF_name]
  unfold tpF OUTPUT PREROUTING
  by_cases hn : ch.name = .builtin "OUTPUT"
  · simp [hn]
  · by_cases hn2 : ch.name = .builtin "PREROUTING"
    · cases v.pre <;> simp [hn, hn2, List.erase_of_not_mem hj]
    · simp [hn, hn2]

include hC hR in
/-- `-X` of one of our chains succeeds when the chain is there, empty, and nothing of ours
refers to it any more. -/
theorem tp_apply_delChain (v : TpView) (k : Kind)
    (hhas : Table.has v.own (.own k p) = true)
    (hempty : ∀ ch ∈ v.own, ch.name = .own k p → ch.rules = [])
    (hnoref : ∀ ch ∈ v.own, ∀ r ∈ ch.rules, r.tgt ≠ .chain (.own k p))
    (hout : k = .mark → v.out = false) (hpre : k = .tproxy → v.pre = false) :
    (buildTp p T v).apply (.delChain (.own k p)) =
      some (buildTp p T { v with own := v.own.filter fun ch => decide (ch.name ≠ .own k p) }) := by
  rw [Table.apply_delChain, buildTp_has_own hC, hhas]
  have h1 : (List.any (buildTp p T v) fun ch => decide (ch.name = CName.own k p) && !ch.rules.isEmpty) = false := by
    rw [List.any_eq_false]
    intro ch hch
    unfold buildTp at hch
    rcases List.mem_append.mp hch with h | h
    · obtain ⟨ch0, h0, rfl⟩ := List.mem_map.mp h
      simp [hC ch0 h0 k]
    · by_cases hn : ch.name = .own k p
      · simp [hn, hempty ch h hn]
      · simp [hn]
  have h2 : Table.referenced (buildTp p T v) (.own k p) = false := by
    unfold Table.referenced
    rw [List.any_eq_false]
    intro ch hch
    simp only [Bool.not_eq_true, List.any_eq_false, decide_eq_true_eq]
    intro r hr
    unfold buildTp at hch
    rcases List.mem_append.mp hch with h | h
    · obtain ⟨ch0, h0, rfl⟩ := List.mem_map.mp h
      unfold tpF at hr
      by_cases hn : ch0.name = OUTPUT
      · rw [if_pos hn] at hr
        simp only [List.mem_append] at hr
        rcases hr with hr | hr
        · cases ho : v.out with
          | false => simp [ho] at hr
          | true =>
            simp only [ho, pfx_true, List.mem_singleton] at hr
            subst hr
            intro e
            simp only [tpJumpMark, Tgt.chain.injEq, CName.own.injEq, and_true] at e
            have := hout e.symm
            rw [ho] at this; cases this
        · exact hR ch0 h0 r hr k
      · by_cases hn2 : ch0.name = PREROUTING
        · rw [if_neg hn, if_pos hn2] at hr
          simp only [List.mem_append] at hr
          rcases hr with hr | hr
          · cases ho : v.pre with
            | false => simp [ho] at hr
            | true =>
              simp only [ho, pfx_true, List.mem_singleton] at hr
              subst hr
              intro e
              simp only [tpJumpTproxy, Tgt.chain.injEq, CName.own.injEq, and_true] at e
              have := hpre e.symm
              rw [ho] at this; cases this
          · exact hR ch0 h0 r hr k
        · rw [if_neg hn, if_neg hn2] at hr
          exact hR ch0 h0 r hr k
    · exact hnoref ch h r hr
  have h3 : List.filter (fun ch => decide (ch.name ≠ CName.own k p)) (buildTp p T v) =
      buildTp p T { v with own := v.own.filter fun ch => decide (ch.name ≠ .own k p) } := by
    unfold buildTp
    rw [List.filter_append, Table.filter_of_not_has _ _ (tp_map_has_own hC _ _ k)]
  rw [h1, h2, h3]
  simp [Table.isBuiltin]

end table

end Sshuttle.Fw
