/-
Helper lemmas for C19: split/join, the server's reassembly step, validity classes.
-/
import SshuttleModel.Lemmas.FwDialoguePlan
import SshuttleModel.Spec.HostPipeline

namespace Sshuttle.HostPipeline
open Sshuttle.FwDialogue

/-! ### `split` then `join` gives the text back -/

theorem splitOnce_some (sep : Nat) : ∀ (s a b : Str), splitOnce sep s = some (a, b) → s = a ++ sep :: b
  | [], _, _, h => by simp [splitOnce] at h
  | c :: r, a, b, h => by
    unfold splitOnce at h
    split at h
    · next hc => injection h with h; simp only [Prod.mk.injEq] at h; obtain ⟨rfl, rfl⟩ := h; simp [hc]
    · split at h
      · cases h
      · next a' b' hr =>
        injection h with h; simp only [Prod.mk.injEq] at h; obtain ⟨rfl, rfl⟩ := h
        simp [splitOnce_some sep r a' b' hr]

theorem splitMax_ne_nil (sep n : Nat) (s : Str) : splitMax sep n s ≠ [] := by
  cases n with
  | zero => simp [splitMax]
  | succ n => unfold splitMax; split <;> simp

theorem joinSep_cons (sep : Nat) (a : Bytes) (l : List Bytes) (h : l ≠ []) :
    joinSep sep (a :: l) = a ++ sep :: joinSep sep l := by
  match l, h with
  | y :: r, _ => rfl

theorem splitMax_join (sep : Nat) : ∀ (n : Nat) (s : Str), joinSep sep (splitMax sep n s) = s
  | 0, s => rfl
  | n + 1, s => by
    unfold splitMax
    split
    · rfl
    · next a b h =>
      rw [joinSep_cons sep a _ (splitMax_ne_nil sep n b), splitMax_join sep n b]
      exact (splitOnce_some sep s a b h).symm

theorem validIp_quad (ip : Str) (h : validIp ip = true) : DottedQuad ip := by
  unfold validIp at h
  split at h
  · next a b c d hs =>
    have hj := splitMax_join 46 ip.length ip
    unfold splitAll at hs
    rw [hs] at hj
    simp only [Bool.and_eq_true] at h
    exact ⟨a, b, c, d, by simpa [joinSep] using hj.symm, h.1.1.1, h.1.1.2, h.1.2, h.2⟩
  · cases h

theorem quadGroup_ipBytes (g : Str) (h : isQuadGroup g = true) : ∀ c ∈ g, isIpByte c = true := by
  intro c hc
  simp only [isQuadGroup, Bool.and_eq_true] at h
  have := List.all_eq_true.mp h.2 c hc
  simp [isIpByte, this]

theorem validIp_ipBytes (ip : Str) (h : validIp ip = true) : ip.all isIpByte = true := by
  obtain ⟨a, b, c, d, rfl, ha, hb, hc, hd⟩ := validIp_quad ip h
  rw [List.all_eq_true]
  intro x hx
  simp only [List.mem_append, List.mem_cons] at hx
  rcases hx with hx | rfl | hx | rfl | hx | rfl | hx
  · exact quadGroup_ipBytes a ha x hx
  · rfl
  · exact quadGroup_ipBytes b hb x hx
  · rfl
  · exact quadGroup_ipBytes c hc x hx
  · rfl
  · exact quadGroup_ipBytes d hd x hx

theorem validName_plain (name : Str) (h : validName name = true) :
    PlainName name ∧ name.length ≤ Gen.C19.NAME_MAX ∧ name.all isNameByte = true := by
  simp only [validName, Bool.and_eq_true, decide_eq_true_eq] at h
  refine ⟨⟨?_, fun c hc => List.all_eq_true.mp h.2 c hc⟩, h.1.2, h.2⟩
  intro e; subst e; simp at h

theorem entry_valid (line : Bytes) (h : Bytes × Bytes) (he : entry line = some h) :
    validName h.1 = true ∧ validIp h.2 = true ∧ line = h.1 ++ 44 :: h.2 := by
  unfold entry at he
  split at he
  · cases he
  · next name ip hs =>
    split at he
    · next hv =>
      injection he with he; subst he
      simp only [Bool.and_eq_true] at hv
      exact ⟨hv.1, hv.2, splitOnce_some 44 line name ip hs⟩
    · cases he

/-! ### the server's reassembly step -/

theorem splitSep_ne_nil (sep : Nat) : ∀ s : Bytes, splitSep sep s ≠ []
  | [] => by simp [splitSep]
  | c :: r => by
    unfold splitSep
    split
    · simp
    · split <;> simp

/-- `split` on newline, characterised by `cutLastNl`: the last piece is the unterminated tail,
and re-joining the other pieces with an empty last piece gives the complete-lines part. -/
theorem splitSep_cut : ∀ s : Bytes,
    (splitSep 10 s).getLast? = some (cutLastNl s).2 ∧
    joinSep 10 ((splitSep 10 s).dropLast ++ [[]]) = (cutLastNl s).1 ∧
    ((cutLastNl s).1 = [] ↔ (splitSep 10 s).length = 1)
  | [] => by simp [splitSep, cutLastNl, joinSep]
  | c :: r => by
    obtain ⟨ih1, ih2, ih3⟩ := splitSep_cut r
    have hne := splitSep_ne_nil 10 r
    by_cases hc : c = 10
    · subst hc
      match hL : splitSep 10 r, hne with
      | h :: t, _ =>
        rw [hL] at ih1 ih2 ih3
        have e1 : splitSep 10 (10 :: r) = [] :: h :: t := by simp [splitSep, hL]
        rw [e1]
        refine ⟨by simpa [cutLastNl] using ih1, ?_, ?_⟩
        · have : ([] :: h :: t).dropLast ++ [[]] = [] :: ((h :: t).dropLast ++ [[]]) := by simp
          rw [this, joinSep_cons 10 [] _ (by simp), ih2]
          simp [cutLastNl]
        · simp [cutLastNl]
    · match hL : splitSep 10 r, hne with
      | h :: t, _ =>
        rw [hL] at ih1 ih2 ih3
        have e1 : splitSep 10 (c :: r) = (c :: h) :: t := by simp [splitSep, hc, hL]
        rw [e1]
        cases t with
        | nil =>
          have hp : (cutLastNl r).1 = [] := ih3.mpr rfl
          have h2 : (cutLastNl r).2 = h := by simpa using ih1.symm
          refine ⟨by simp [cutLastNl, hc, hp, h2], by simp [cutLastNl, hc, hp, joinSep], by simp [cutLastNl, hc, hp]⟩
        | cons t1 t2 =>
          have hp : (cutLastNl r).1 ≠ [] := by
            intro e; have := ih3.mp e; simp at this
          refine ⟨by simpa [cutLastNl, hc, hp] using ih1, ?_, by simp [cutLastNl, hc, hp]⟩
          have d1 : ((c :: h) :: t1 :: t2).dropLast ++ [[]] = (c :: h) :: ((t1 :: t2).dropLast ++ [[]]) := by simp
          have d2 : (h :: t1 :: t2).dropLast ++ [[]] = h :: ((t1 :: t2).dropLast ++ [[]]) := by simp
          rw [d1, joinSep_cons 10 _ _ (by simp)]
          rw [d2, joinSep_cons 10 _ _ (by simp)] at ih2
          simp [cutLastNl, hc, hp, ← ih2]

theorem dropLast_append_last {α : Type} (l : List α) (x : α) (h : l.getLast? = some x) :
    l.dropLast ++ [x] = l := by
  rcases List.eq_nil_or_concat l with rfl | ⟨l', b, rfl⟩
  · cases h
  · rw [List.concat_eq_append] at h ⊢
    rw [List.getLast?_concat] at h
    injection h with h; subst h
    simp

/-- One `hostwatch_ready` call, in specification terms. -/
theorem hostwatchReady_spec (lo content : Bytes) (hc : content ≠ []) :
    hostwatchReady lo content =
      if (cutLastNl (lo ++ content)).1.length > Generated.SEND_MAX_LEN then .assertLen
      else .sent (cutLastNl (lo ++ content)).2 (cutLastNl (lo ++ content)).1 := by
  obtain ⟨h1, h2, h3⟩ := splitSep_cut (lo ++ content)
  unfold hostwatchReady
  simp only [hc, if_false, h1]
  by_cases hl : (cutLastNl (lo ++ content)).2 = []
  · simp only [hl, ne_eq, not_true_eq_false, if_false]
    have : splitSep 10 (lo ++ content) = (splitSep 10 (lo ++ content)).dropLast ++ [[]] :=
      (dropLast_append_last _ [] (by rw [h1, hl])).symm
    rw [this, h2]
  · simp only [hl, ne_eq, not_false_eq_true, if_true, h2]

theorem cutLastNl_parts : ∀ s : Bytes, (cutLastNl s).1 ++ (cutLastNl s).2 = s ∧ 10 ∉ (cutLastNl s).2 ∧
    ((cutLastNl s).1 = [] ∨ (cutLastNl s).1.getLast? = some 10)
  | [] => by simp [cutLastNl]
  | c :: r => by
    obtain ⟨h1, h2, h3⟩ := cutLastNl_parts r
    by_cases hc : c = 10
    · subst hc
      refine ⟨by simp [cutLastNl, h1], by simpa [cutLastNl] using h2, Or.inr ?_⟩
      rcases h3 with h3 | h3
      · simp [cutLastNl, h3]
      · simp only [cutLastNl, if_true]
        match hq : (cutLastNl r).1 with
        | [] => rw [hq] at h3; cases h3
        | x :: q => rw [hq] at h3; simpa using h3
    · by_cases hp : (cutLastNl r).1 = []
      · refine ⟨?_, ?_, Or.inl (by simp [cutLastNl, hc, hp])⟩
        · rw [hp] at h1; simp [cutLastNl, hc, hp]; simpa using h1
        · simp only [cutLastNl, hc, hp, if_false, if_true, List.mem_cons, not_or]
          exact ⟨fun e => hc e.symm, h2⟩
      · refine ⟨by simp [cutLastNl, hc, hp, h1], by simpa [cutLastNl, hc, hp] using h2, Or.inr ?_⟩
        rcases h3 with h3 | h3
        · exact absurd h3 hp
        · simp only [cutLastNl, hc, hp, if_false]
          match hq : (cutLastNl r).1, hp with
          | x :: q, _ => rw [hq] at h3; simpa using h3

theorem cut_cons (c : Nat) (r : Bytes) :
    cutLastNl (c :: r) =
      if c = 10 then (10 :: (cutLastNl r).1, (cutLastNl r).2)
      else if (cutLastNl r).1 = [] then ([], c :: (cutLastNl r).2)
      else (c :: (cutLastNl r).1, (cutLastNl r).2) := rfl

theorem cut_nonl : ∀ b : Bytes, 10 ∉ b → cutLastNl b = ([], b)
  | [], _ => rfl
  | c :: r, h => by
    have hc : c ≠ 10 := fun e => h (by simp [e])
    have hr : 10 ∉ r := fun e => h (by simp [e])
    simp [cutLastNl, hc, cut_nonl r hr]

/-- `cutLastNl` is the only way to cut a stream into complete lines and a newline-free tail. -/
theorem cut_unique : ∀ (a b : Bytes), 10 ∉ b → (a = [] ∨ a.getLast? = some 10) →
    cutLastNl (a ++ b) = (a, b)
  | [], b, hb, _ => by simpa using cut_nonl b hb
  | [c], b, hb, ha => by
    have hc : c = 10 := by simpa using ha
    subst hc
    simp [cutLastNl, cut_nonl b hb]
  | c :: d :: a, b, hb, ha => by
    have ha' : (d :: a).getLast? = some 10 := by simpa using ha
    have ih := cut_unique (d :: a) b hb (Or.inr ha')
    simp only [List.cons_append] at ih ⊢
    rw [cut_cons, ih]
    by_cases hc : c = 10
    · subst hc; simp
    · simp [hc]

theorem cut_append (x y : Bytes) :
    cutLastNl (x ++ y) =
      ((cutLastNl x).1 ++ (cutLastNl ((cutLastNl x).2 ++ y)).1, (cutLastNl ((cutLastNl x).2 ++ y)).2) := by
  obtain ⟨hx1, _, hx3⟩ := cutLastNl_parts x
  obtain ⟨hz1, hz2, hz3⟩ := cutLastNl_parts ((cutLastNl x).2 ++ y)
  have e : x ++ y = ((cutLastNl x).1 ++ (cutLastNl ((cutLastNl x).2 ++ y)).1) ++ (cutLastNl ((cutLastNl x).2 ++ y)).2 := by
    rw [List.append_assoc, hz1, ← List.append_assoc, hx1]
  rw [e]
  apply cut_unique _ _ hz2
  rcases hz3 with hz | hz
  · rw [hz]; simpa using hx3
  · right
    rw [List.getLast?_append, hz]; rfl

end Sshuttle.HostPipeline

namespace Sshuttle.HostPipeline
open Sshuttle.FwDialogue

/-! ### the short name is a fixed point of the short-name derivation -/

theorem cutDots_nodot : ∀ (b : Bool) (s : Str), 46 ∉ cutDots b s
  | _, [] => by simp [cutDots]
  | true, c :: r => by
    unfold cutDots
    split
    · next h => subst h; simp only [List.mem_cons, not_or]; exact ⟨by omega, cutDots_nodot false r⟩
    · exact cutDots_nodot true r
  | false, c :: r => by
    unfold cutDots
    split
    · exact cutDots_nodot true r
    · next h => simp only [List.mem_cons, not_or]; exact ⟨fun e => h e.symm, cutDots_nodot false r⟩

theorem cutDots_id : ∀ s : Str, 46 ∉ s → cutDots false s = s
  | [], _ => rfl
  | c :: r, h => by
    have hc : c ≠ 46 := fun e => h (by simp [e])
    have hr : 46 ∉ r := fun e => h (by simp [e])
    simp [cutDots, hc, cutDots_id r hr]

theorem sanitize_nodot (s : Str) (h : 46 ∉ s) : 46 ∉ sanitize s := by
  intro hm
  simp only [sanitize, List.mem_map] at hm
  obtain ⟨c, hc, he⟩ := hm
  split at he
  · subst he; exact h hc
  · cases he

theorem sanitize_nameBytes (s : Str) : ∀ c ∈ sanitize s, isNameByte c = true := by
  intro c hc
  simp only [sanitize, List.mem_map] at hc
  obtain ⟨d, _, he⟩ := hc
  split at he
  · next h => subst he; exact h
  · subst he; rfl

theorem sanitize_id (s : Str) (h : ∀ c ∈ s, isNameByte c = true) : sanitize s = s := by
  unfold sanitize
  conv => rhs; rw [← List.map_id s]
  apply List.map_congr_left
  intro c hc
  simp [h c hc]

/-- Deriving the short name of a short name changes nothing. -/
theorem shortName_idem (name : Str) :
    sanitize (cutDots false (sanitize (cutDots false name))) = sanitize (cutDots false name) := by
  have h1 : 46 ∉ sanitize (cutDots false name) := sanitize_nodot _ (cutDots_nodot false name)
  rw [cutDots_id _ h1, sanitize_id _ (sanitize_nameBytes _)]

end Sshuttle.HostPipeline
