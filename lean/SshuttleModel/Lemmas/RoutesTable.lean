/-
Helper lemmas for C17, table level: `list_routes` is the line-by-line `filterMap` of the per-line
contribution (so a skipped line never changes what the other lines yield), the line classes that are always
skipped, delivery for clients with and without an IPv4 listener, and the end-to-end composition over the
specification's routing tables.  Property theorems live in `Props/C17.lean`.
-/
import SshuttleModel.Lemmas.RoutesText
import SshuttleModel.Lemmas.RoutesDelivery
namespace Sshuttle.Routes
open Sshuttle.Routes.Spec

/-! ### `list_routes` line by line -/

/-- What one line contributes to `list(list_routes())`: at most one route. -/
def advOf (tool : Tool) (l : Bytes) : Option Route :=
  match advertise tool l with
  | .ok r => r
  | .error _ => none

theorem advertise_eq_advOf (tool : Tool) (l : Bytes) : advertise tool l = .ok (advOf tool l) := by
  obtain ⟨r, hr⟩ := lineStep_ok tool l
  simp [advOf, advertise, hr, Except.map]

theorem lineStep_eq (tool : Tool) (l : Bytes) :
    ∃ r, lineStep tool l = .ok r ∧ advOf tool l = r.filter keepRoute := by
  obtain ⟨r, hr⟩ := lineStep_ok tool l
  exact ⟨r, hr, by simp [advOf, advertise, hr, Except.map]⟩

theorem listRoutesRaw_linewise (tool : Tool) : ∀ lines : List Bytes,
    ∃ rs, listRoutesRaw tool lines = .ok rs ∧ rs.filter keepRoute = lines.filterMap (advOf tool) := by
  intro lines
  induction lines with
  | nil => exact ⟨[], rfl, rfl⟩
  | cons l ls ih =>
    obtain ⟨rs, hrs, hf⟩ := ih
    obtain ⟨r, hr, ha⟩ := lineStep_eq tool l
    simp only [listRoutesRaw, hr, hrs, bind, Except.bind, pure, Except.pure, List.filterMap_cons, ha]
    cases r with
    | none => exact ⟨rs, rfl, by simpa using hf⟩
    | some x =>
      refine ⟨x :: rs, rfl, ?_⟩
      by_cases hk : keepRoute x = true
      · simp [hk, Option.filter, hf]
      · simp [hk, Option.filter, hf]

/-- `list(list_routes())` is, for every tool output, the list of the per-line contributions, in order. -/
theorem listRoutes_linewise (tool : Tool) (lines : List Bytes) :
    listRoutes tool lines = .ok (lines.filterMap (advOf tool)) := by
  obtain ⟨rs, hrs, hf⟩ := listRoutesRaw_linewise tool lines
  simp [listRoutes, hrs, Except.map, hf]

theorem filterMap_drop_none {α β : Type} (f : α → Option β) : ∀ l : List α,
    l.filterMap f = (l.filter (fun x => (f x).isSome)).filterMap f := by
  intro l
  induction l with
  | nil => rfl
  | cons a as ih =>
    cases h : f a with
    | none => simp [h, ih]
    | some b => simp [h, ← ih]

/-- a line is skipped whenever the extractor does not return an address -/
theorem lineStep_skip (tool : Tool) (line : Bytes)
    (h : ∀ p m, (decodeAscii line >>= extractRoute tool) ≠ .ok (some p, m)) : lineStep tool line = .ok none := by
  unfold lineStep
  split
  · rfl
  · have hf := extract_facts tool line
    split
    next e he => rw [he] at hf; simp only [ExtractOk] at hf; simp [hf]
    next ipw mask he =>
      split
      next p m => exact absurd he (h p (some m))
      · rfl

theorem advOf_skip (tool : Tool) (line : Bytes)
    (h : ∀ p m, (decodeAscii line >>= extractRoute tool) ≠ .ok (some p, m)) : advOf tool line = none := by
  simp [advOf, advertise, lineStep_skip tool line h, Except.map]

theorem advOf_nonascii (tool : Tool) (line : Bytes) (h : line.all (· < 128) = false) : advOf tool line = none := by
  apply advOf_skip
  intro p m
  simp [decodeAscii, h, bind, Except.bind]

theorem advOf_blank (tool : Tool) (line : Bytes) (h : line.all isBSpace = true) : advOf tool line = none := by
  simp [advOf, advertise, lineStep, h, Except.map]
/-! ### line classes that are always skipped -/

theorem nextToken_ws_tok (ws tok r : Str) (hws : ∀ c ∈ ws, isUSpace c = true) (ht : Tok tok) (hr : Sp r) :
    nextToken (ws ++ tok ++ r) = some (tok, r) := by
  rw [List.append_assoc, nextToken_blanks ws _ hws]
  exact nextToken_tok tok r ht hr

/-- `ip route`: a line whose first word has no `/` yields nothing. -/
theorem advOf_iproute_noslash (ws tok r : Str) (hws : ∀ c ∈ ws, isUSpace c = true) (ht : Tok tok) (hr : Sp r)
    (hns : 47 ∉ tok) : advOf .iproute (ws ++ tok ++ r) = none := by
  apply advOf_skip
  intro p m
  unfold decodeAscii
  split
  · simp only [bind, Except.bind, extractRoute, routeIproute, nextToken_ws_tok ws tok r hws ht hr]
    simp [hns]
  · simp [bind, Except.bind]

theorem splitWs_first (ws tok r : Str) (hws : ∀ c ∈ ws, isUSpace c = true) (ht : Tok tok) (hr : Sp r) :
    ∃ rest, splitWs (ws ++ tok ++ r) = tok :: rest := by
  unfold splitWs
  simp only [splitWsFuel, nextToken_ws_tok ws tok r hws ht hr]
  exact ⟨_, rfl⟩

/-- `netstat -rn`: a line whose first word starts with a non-digit and is not `default` yields nothing,
whatever its other columns hold. -/
theorem advOf_netstat_heading (ws r : Str) (c : Nat) (t : Str) (hws : ∀ x ∈ ws, isUSpace x = true)
    (ht : Tok (c :: t)) (hr : Sp r) (hc : isDigit c = false) (hd : c :: t ≠ defaultText) :
    advOf .netstat (ws ++ (c :: t) ++ r) = none := by
  apply advOf_skip
  intro p m
  unfold decodeAscii
  split
  · obtain ⟨rest, hsp⟩ := splitWs_first ws (c :: t) r hws ht hr
    have hip : ipmatch (c :: t) = .ok none := by
      unfold ipmatch
      have hdt : Gen.C17.DEFAULT_TEXT = defaultText := by decide
      rw [if_neg (by rw [hdt]; exact hd)]
      simp [reIp_nondigit t hc]
    have h0 : Gen.C17.NETSTAT_IP_COL = 0 := by decide
    simp only [bind, Except.bind, extractRoute, routeNetstat, hsp, h0]
    split
    · simp
    · simp only [List.getElem?_cons_zero]
      split
      next c0 c2 h1 h2 =>
        simp only [Option.some.injEq] at h1
        subst h1
        rw [hip]
        simp only
        cases ipmatch c2 <;> simp [pure, Except.pure]
      · simp
  · simp [bind, Except.bind]

/-! ### a client without an IPv4 listener ignores every advertised (IPv4) network -/

theorem onroutesLine_body_nov4 {r : Route} (h : r.Wf) (L : Listeners) (hv4 : L.v4 = false) :
    onroutesLine L (bodyOf r) = .ok none := by
  obtain ⟨n, hn, hw, hb, hc, h44⟩ := body_shape h
  obtain ⟨_, _, hpi⟩ := width_text n hn
  have h2 : pyInt [50] = .ok 2 := by decide
  have haf : Generated.AF_INET = 2 := by decide
  unfold onroutesLine
  rw [hb]
  have hc1 : cut 44 (50 :: 44 :: (r.ip ++ 44 :: decDigits n)) = some ([50], r.ip ++ 44 :: decDigits n) := by
    simp [cut]
  rw [hc1]
  simp only
  rw [cut_append 44 _ _ h44]
  simp [bind, Except.bind, h2, hpi, decodeAscii_clean hc, hv4, pure, Except.pure, haf]

theorem onroutesLoop_bodies_nov4 (L : Listeners) (hv4 : L.v4 = false) : ∀ (rs : List Route) (acc : List Subnet),
    (∀ r ∈ rs, r.Wf) → onroutesLoop L (rs.map bodyOf) acc = .ok acc := by
  intro rs
  induction rs with
  | nil => intro acc _; simp [onroutesLoop]
  | cons r rs ih =>
    intro acc h
    have hr := h r (by simp)
    simp only [List.map_cons, onroutesLoop, body_ne_nil hr, Bool.false_eq_true, ↓reduceIte,
      onroutesLine_body_nov4 hr L hv4]
    exact ih _ (fun x hx => h x (by simp [hx]))

/-- The networks `onroutes` adds for the routes `rs`: all of them with an IPv4 listener, none without. -/
def servedNets (L : Listeners) (rs : List Route) : List Subnet := if L.v4 then rs.map toSubnet else []

/-- The plan `FirewallClient.start` writes when the client (any listener configuration) received `rs`. -/
def planServed (c : Client) (rs : List Route) (tail : List Bytes) : List Bytes :=
  [Gen.C17.START_HEADER] ++ (c.incl ++ (c.fwAutoNets ++ servedNets c.listeners rs)).map (subnetText 0) ++
    c.excl.map (subnetText 1) ++ tail

theorem gotRoutes_served (rs : List Route) (hwf : ∀ r ∈ rs, r.Wf) (c : Client) (tail : List Bytes)
    (hgr : c.gotRoutes = true) (hopt : c.autoNetsOpt = true)
    (hasc : ∀ s ∈ c.incl ++ c.fwAutoNets ++ c.excl, s.Ascii) :
    c.gotRoutesPacket (routePkt rs) tail =
      .ok { c with gotRoutes := false, fwAutoNets := c.fwAutoNets ++ servedNets c.listeners rs,
                   dialogues := c.dialogues ++ [planServed c rs tail] } := by
  unfold Client.gotRoutesPacket
  have hnets : onroutesLoop c.listeners (splitOn 10 (stripWith isBSpace (routePkt rs))) c.fwAutoNets =
      .ok (c.fwAutoNets ++ servedNets c.listeners rs) := by
    rw [split_strip_pkt rs hwf]
    unfold servedNets
    split
    next h => subst h; simp [onroutesLoop]
    · cases hv : c.listeners.v4 with
      | true => simpa using onroutesLoop_bodies c.listeners hv rs _ hwf
      | false => simpa using onroutesLoop_bodies_nov4 c.listeners hv rs _ hwf
  have hall : ∀ s ∈ c.incl ++ (c.fwAutoNets ++ servedNets c.listeners rs) ++ c.excl, s.Ascii := by
    intro s hs
    simp only [List.mem_append] at hs
    rcases hs with (hs | hs | hs) | hs
    · exact hasc s (by simp [hs])
    · exact hasc s (by simp [hs])
    · unfold servedNets at hs
      split at hs
      · obtain ⟨r, hr, rfl⟩ := List.mem_map.mp hs
        exact toSubnet_ascii (hwf r hr)
      · simp at hs
    · exact hasc s (by simp [hs])
  simp only [hgr, Bool.not_true, Bool.false_eq_true, ↓reduceIte, hopt, hnets, bind, Except.bind,
    fwStart_ascii _ _ _ tail hall, pure, Except.pure, planServed]

/-! ### the specification's table lines, one by one -/

theorem advOf_of_advertise {tool : Tool} {l : Bytes} {r : Option Route} (h : advertise tool l = .ok r) :
    advOf tool l = r := by
  simp [advOf, h]

theorem advOf_ipLine (l : IpLine) (h : l.Wf) : advOf .iproute l.bytes = l.net.map toRoute := by
  cases l with
  | route d rest => exact advOf_of_advertise (advertise_iproute_prefix d h.1 rest h.2)
  | other ws w rest =>
    obtain ⟨hws, hw, hns, hr⟩ := h
    exact advOf_iproute_noslash ws w rest hws hw hr hns
  | blank l => exact advOf_blank _ l h
  | garbled l => exact advOf_nonascii _ l h

theorem advOf_nsLine (l : NsLine) (h : l.Wf) : advOf .netstat l.bytes = l.net.map toRoute := by
  cases l with
  | linux a b c d n s1 gw s2 rest =>
    obtain ⟨ha, hb, hc, hd, hn, hs1, hs2, hgw, hr⟩ := h
    exact advOf_of_advertise (advertise_netstat_linux a b c d n ha hb hc hd hn s1 s2 gw rest hs1 hs2 hgw hr)
  | bsd d s1 gw s2 fl rest =>
    obtain ⟨hd, hs1, hs2, hgw, hfl, hne, hr⟩ := h
    exact advOf_of_advertise (advertise_netstat_bsd d hd s1 s2 gw fl rest hs1 hs2 hgw hfl hne hr)
  | heading ws c t rest =>
    obtain ⟨hws, hw, hc, hne, hr⟩ := h
    exact advOf_netstat_heading ws rest c t hws hw hr hc hne
  | blank l => exact advOf_blank _ l h
  | garbled l => exact advOf_nonascii _ l h

theorem filterMap_table {α : Type} (bytes : α → Bytes) (net : α → Option (Nat × Nat)) (tool : Tool) :
    ∀ table : List α, (∀ l ∈ table, advOf tool (bytes l) = (net l).map toRoute) →
      (table.map bytes).filterMap (advOf tool) = (table.filterMap net).map toRoute := by
  intro table
  induction table with
  | nil => intro _; rfl
  | cons l ls ih =>
    intro h
    have hl := h l (by simp)
    have := ih (fun x hx => h x (by simp [hx]))
    simp only [List.map_cons, List.filterMap_cons, hl]
    cases net l with
    | none => simpa using this
    | some p => simpa using this

theorem listRoutes_ipTable (table : List IpLine) (hwf : ∀ l ∈ table, l.Wf) :
    listRoutes .iproute (table.map IpLine.bytes) = .ok (ipRoutes table) := by
  rw [listRoutes_linewise, filterMap_table IpLine.bytes IpLine.net .iproute table (fun l hl => advOf_ipLine l (hwf l hl))]
  rfl

theorem listRoutes_nsTable (table : List NsLine) (hwf : ∀ l ∈ table, l.Wf) :
    listRoutes .netstat (table.map NsLine.bytes) = .ok (nsRoutes table) := by
  rw [listRoutes_linewise, filterMap_table NsLine.bytes NsLine.net .netstat table (fun l hl => advOf_nsLine l (hwf l hl))]
  rfl

theorem ipRoutes_wf (table : List IpLine) (hwf : ∀ l ∈ table, l.Wf) : ∀ r ∈ ipRoutes table, r.Wf := by
  obtain ⟨rs, hrs, h⟩ := listRoutes_total .iproute (table.map IpLine.bytes)
  rw [listRoutes_ipTable table hwf] at hrs
  cases hrs; exact h

theorem nsRoutes_wf (table : List NsLine) (hwf : ∀ l ∈ table, l.Wf) : ∀ r ∈ nsRoutes table, r.Wf := by
  obtain ⟨rs, hrs, h⟩ := listRoutes_total .netstat (table.map NsLine.bytes)
  rw [listRoutes_nsTable table hwf] at hrs
  cases hrs; exact h

theorem filterMap_replicate {α β : Type} (f : α → Option β) (x : α) (y : β) (h : f x = some y) :
    ∀ n, (List.replicate n x).filterMap f = List.replicate n y := by
  intro n
  induction n with
  | zero => rfl
  | succ n ih => simp [List.replicate_succ, h, ih]

/-- bare host destination text is one word without `/` -/
theorem host_word (a b c d : Nat) (ha : a < 256) (hb : b < 256) (hc : c < 256) (hd : d < 256) :
    Word (octText [a, b, c, d]) ∧ 47 ∉ octText [a, b, c, d] := by
  have ho : ∀ x ∈ [a, b, c, d], x < 256 := by
    intro x hx; simp only [List.mem_cons, List.not_mem_nil, or_false] at hx
    rcases hx with rfl | rfl | rfl | rfl <;> assumption
  have hcol := column_octText a [b, c, d] ho
  refine ⟨⟨hcol.1, fun x hx => (hcol.2 x hx).2⟩, ?_⟩
  intro h47
  rcases octText_chars [a, b, c, d] ho 47 h47 with h | h
  · exact absurd h (by decide)
  · exact absurd h (by decide)

end Sshuttle.Routes
