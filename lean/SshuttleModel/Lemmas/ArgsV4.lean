/-
IPv4 spellings (`Spec/Args.lean`) through the library model: `inet_aton_exact` of every
spelling of `a` is `a`; character-class facts about the spellings.
-/
import SshuttleModel.Lemmas.ArgsNum

namespace Sshuttle.ArgsSpec
open Sshuttle.Inet Sshuttle.Args

/-- what may follow one part inside an address -/
def PartEnd (rest : Str) : Prop := rest = [] ∨ ∃ t, rest = '.' :: t

theorem partEnd_stop (val? : Char → Option Nat) (hdot : val? '.' = none) (rest : Str) (h : PartEnd rest) :
    rest = [] ∨ ∃ c t, rest = c :: t ∧ val? c = none := by
  rcases h with h | ⟨t, h⟩
  · exact Or.inl h
  · exact Or.inr ⟨'.', t, h, hdot⟩

theorem strtoul0_of_ne (c : Char) (s : Str) (h : c ≠ '0') :
    strtoul0 (c :: s) = numRun 10 decVal? 0 (c :: s) := by
  unfold strtoul0
  split
  · next t heq => injection heq with h1 _; exact absurd h1 h
  · rfl

theorem strtoul0_zero (t : Str) (hx : ∀ x u, t = x :: u → x ≠ 'x' ∧ x ≠ 'X') :
    strtoul0 ('0' :: t) = numRun 8 octVal? 0 t := by
  unfold strtoul0
  simp only
  split
  · next x h u =>
    have := hx x (h :: u) rfl
    simp [this.1, this.2]
  · rfl

theorem digitChar_ne_zero (d : Nat) (h0 : 0 < d) (h : d < 10) : digitChar d ≠ '0' := by
  have : d = 1 ∨ d = 2 ∨ d = 3 ∨ d = 4 ∨ d = 5 ∨ d = 6 ∨ d = 7 ∨ d = 8 ∨ d = 9 := by omega
  rcases this with rfl | rfl | rfl | rfl | rfl | rfl | rfl | rfl | rfl <;> decide

theorem digitChar_not_x (d : Nat) (h : d < 8) : digitChar d ≠ 'x' ∧ digitChar d ≠ 'X' := by
  have : d = 0 ∨ d = 1 ∨ d = 2 ∨ d = 3 ∨ d = 4 ∨ d = 5 ∨ d = 6 ∨ d = 7 := by omega
  rcases this with rfl | rfl | rfl | rfl | rfl | rfl | rfl | rfl <;> decide

theorem render_cons (dc : Nat → Char) (b : Nat) (hb : 2 ≤ b) (n : Nat) :
    ∃ d t, d < b ∧ renderWith dc b n = dc d :: t := by
  cases hr : renderWith dc b n with
  | nil => exact absurd hr (renderWith_ne_nil dc b n)
  | cons c t =>
    obtain ⟨d, hd, hc⟩ := renderWith_mem dc b hb n c (by rw [hr]; simp)
    exact ⟨d, t, hd, by rw [hc]⟩

theorem strtoul0_spellPart (r : Radix) (v : Nat) (rest : Str) (h : PartEnd rest) :
    strtoul0 (spellPart r v ++ rest) = (v, rest) := by
  cases r with
  | dec =>
    simp only [spellPart, render]
    by_cases hv : v = 0
    · subst hv
      rw [renderWith_lt digitChar 10 0 (by omega)]
      have : digitChar 0 = '0' := by decide
      rw [this]
      rcases h with rfl | ⟨t, rfl⟩
      · rfl
      · simp only [List.singleton_append]
        rw [strtoul0_zero _ (by intro x u hxu; injection hxu with h1 _; subst h1; decide)]
        rw [numRun]; rfl
    · obtain ⟨d, t, hd0, hdb, he⟩ := renderWith_head digitChar 10 (by omega) v (by omega)
      have hne := digitChar_ne_zero d hd0 hdb
      have : strtoul0 (renderWith digitChar 10 v ++ rest) =
          numRun 10 decVal? 0 (renderWith digitChar 10 v ++ rest) := by
        rw [he]; exact strtoul0_of_ne _ _ hne
      rw [this]
      exact numRun_render_stop digitChar decVal? 10 (by omega) decVal_digitChar v rest
        (partEnd_stop decVal? (by decide) rest h)
  | oct =>
    simp only [spellPart, render, List.cons_append]
    rw [strtoul0_zero]
    · exact numRun_render_stop digitChar octVal? 8 (by omega) octVal_digitChar v rest
        (partEnd_stop octVal? (by decide) rest h)
    · intro x u hxu
      obtain ⟨d, t, hd, he⟩ := render_cons digitChar 8 (by omega) v
      rw [he] at hxu
      injection hxu with h1 _
      rw [← h1]; exact digitChar_not_x d hd
  | hex =>
    simp only [spellPart, render, List.cons_append]
    obtain ⟨d, t, hd, he⟩ := render_cons digitChar 16 (by omega) v
    have hstep : strtoul0 ('0' :: 'x' :: (renderWith digitChar 16 v ++ rest)) =
        numRun 16 hexVal? 0 (renderWith digitChar 16 v ++ rest) := by
      rw [he]
      simp [strtoul0, hexVal_digitChar d hd]
    rw [hstep]
    exact numRun_render_stop digitChar hexVal? 16 (by omega) hexVal_digitChar v rest
      (partEnd_stop hexVal? (by decide) rest h)
  | hexU =>
    simp only [spellPart, renderU, List.cons_append]
    obtain ⟨d, t, hd, he⟩ := render_cons digitCharU 16 (by omega) v
    have hstep : strtoul0 ('0' :: 'X' :: (renderWith digitCharU 16 v ++ rest)) =
        numRun 16 hexVal? 0 (renderWith digitCharU 16 v ++ rest) := by
      rw [he]
      simp [strtoul0, hexVal_digitCharU d hd]
    rw [hstep]
    exact numRun_render_stop digitCharU hexVal? 16 (by omega) hexVal_digitCharU v rest
      (partEnd_stop hexVal? (by decide) rest h)


theorem isDigit_digitChar (d : Nat) (h : d < 10) : isDigit (digitChar d) = true := by
  have : d = 0 ∨ d = 1 ∨ d = 2 ∨ d = 3 ∨ d = 4 ∨ d = 5 ∨ d = 6 ∨ d = 7 ∨ d = 8 ∨ d = 9 := by omega
  rcases this with rfl | rfl | rfl | rfl | rfl | rfl | rfl | rfl | rfl | rfl <;> decide

/-- every spelled part starts with an ASCII digit -/
theorem spellPart_head (r : Radix) (v : Nat) : ∃ c t, spellPart r v = c :: t ∧ isDigit c = true := by
  cases r with
  | dec =>
    obtain ⟨d, t, hd, he⟩ := render_cons digitChar 10 (by omega) v
    exact ⟨digitChar d, t, by simp only [spellPart, render]; exact he, isDigit_digitChar d hd⟩
  | oct => exact ⟨'0', _, rfl, by decide⟩
  | hex => exact ⟨'0', _, rfl, by decide⟩
  | hexU => exact ⟨'0', _, rfl, by decide⟩

/-- one iteration of the `inet_aton` loop over a part followed by a dot -/
theorem atonLoop_mid (fuel : Nat) (r : Radix) (v : Nat) (rest : Str) (stored : List Nat)
    (hv : v ≤ 255) (hs : stored.length ≤ 2) :
    atonLoop (fuel + 1) (spellPart r v ++ '.' :: rest) stored = atonLoop fuel rest (stored ++ [v]) := by
  have key := strtoul0_spellPart r v ('.' :: rest) (Or.inr ⟨rest, rfl⟩)
  obtain ⟨c, t, hct, hdig⟩ := spellPart_head r v
  rw [hct] at key ⊢
  simp only [List.cons_append] at key ⊢
  rw [atonLoop]
  simp only [hdig, key]
  have h1 : ¬ v > 0xffffffff := by omega
  have h2 : ¬ (stored.length > 2 ∨ v > 0xff) := by omega
  simp [h1, h2]

/-- the last iteration -/
theorem atonLoop_last (fuel : Nat) (r : Radix) (v : Nat) (stored : List Nat)
    (hv : v ≤ partMax stored.length) (hv32 : v ≤ 0xffffffff) :
    atonLoop (fuel + 1) (spellPart r v) stored = some (storedVal stored 0 + v, []) := by
  have key := strtoul0_spellPart r v [] (Or.inl rfl)
  obtain ⟨c, t, hct, hdig⟩ := spellPart_head r v
  rw [List.append_nil] at key
  rw [hct] at key ⊢
  rw [atonLoop]
  simp only [hdig, key]
  have h1 : ¬ v > 0xffffffff := by omega
  have h2 : ¬ v > partMax stored.length := by omega
  simp [h1, h2]

/-- **`inet_aton` reads every spelling of `a` as `a`.** -/
theorem atonExact_spellV4 (a : Nat) (ha : a < 2 ^ 32) (sh : Shape4) :
    atonExact (spellV4 a sh) = some a := by
  have hloop : atonLoop 4 (spellV4 a sh) [] = some (a, []) := by
    cases sh with
    | p1 r0 =>
      simp only [spellV4]
      rw [atonLoop_last 3 r0 a [] (by simp [partMax]; omega) (by omega)]
      simp [storedVal]
    | p2 r0 r1 =>
      simp only [spellV4]
      rw [atonLoop_mid 3 r0 _ _ [] (by omega) (by simp)]
      rw [atonLoop_last 2 r1 _ _ (by simp [partMax]; omega) (by omega)]
      simp [storedVal]; omega
    | p3 r0 r1 r2 =>
      simp only [spellV4]
      rw [atonLoop_mid 3 r0 _ _ [] (by omega) (by simp)]
      rw [atonLoop_mid 2 r1 _ _ _ (by omega) (by simp)]
      rw [atonLoop_last 1 r2 _ _ (by simp [partMax]; omega) (by omega)]
      simp [storedVal]; omega
    | p4 r0 r1 r2 r3 =>
      simp only [spellV4]
      rw [atonLoop_mid 3 r0 _ _ [] (by omega) (by simp)]
      rw [atonLoop_mid 2 r1 _ _ _ (by omega) (by simp)]
      rw [atonLoop_mid 1 r2 _ _ _ (by omega) (by simp)]
      rw [atonLoop_last 0 r3 _ _ (by simp [partMax]; omega) (by omega)]
      simp [storedVal]; omega
  simp [atonExact, atonEnd, hloop]

end Sshuttle.ArgsSpec
