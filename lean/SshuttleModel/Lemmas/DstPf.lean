/-
Helper lemmas for C05, part 3: tproxy ancillary data, the pf QUERY_PF_NAT dialogue.
-/
import SshuttleModel.Lemmas.DstV6

namespace Sshuttle.Dst
open Sshuttle.Gen

/-! ### tproxy `recv_udp` -/

theorem tproxy_skip (le : Bool) (noise : List Cmsg) (rest : List Cmsg)
    (h : ∀ n ∈ noise, n.Foreign) : tproxyRecvUdp le (noise ++ rest) = tproxyRecvUdp le rest := by
  induction noise with
  | nil => rfl
  | cons n ns ih =>
    obtain ⟨h1, h2⟩ := h n (by simp)
    have e1 : ¬ (n.level = C05.SOL_IP ∧ n.type = C05.TPROXY_IP_ORIGDSTADDR) := h1
    have e2 : ¬ (n.level = C05.TPROXY_SOL_IPV6 ∧ n.type = C05.TPROXY_IPV6_ORIGDSTADDR) := h2
    simp only [List.cons_append, tproxyRecvUdp, e1, e2, ↓reduceIte]
    exact ih (fun x hx => h x (by simp [hx]))

theorem port_native (le : Bool) (port : Nat) (hp : port < 65536) :
    htons le (rd16 le (port / 256) (port % 256)) = port := by
  cases le
  · simp [htons, rd16]; omega
  · have h1 : (port % 256 * 256 + port / 256) % 256 = port / 256 := by omega
    have h2 : (port % 256 * 256 + port / 256) / 256 = port % 256 := by omega
    simp only [htons, rd16, ↓reduceIte, h1, h2]
    omega

theorem tproxy_v4 (le : Bool) (port : Nat) (x : V4) (pad : Bytes) (rest : List Cmsg)
    (hp : port < 65536) :
    tproxyRecvUdp le (origDstCmsgV4 le C05.AF_INET port x pad :: rest) =
      .ok (strV4 x.a x.b x.c x.d) port := by
  have hport := port_native le port hp
  cases le
  · simp [tproxyRecvUdp, origDstCmsgV4, native16, tproxyOne, inetNtop, hport,
      C05.SOL_IP, C05.TPROXY_IP_ORIGDSTADDR, C05.TPROXY_V4_START, C05.TPROXY_V4_LENGTH]
    simp [rd16, C05.AF_INET]
  · simp [tproxyRecvUdp, origDstCmsgV4, native16, tproxyOne, inetNtop, hport,
      C05.SOL_IP, C05.TPROXY_IP_ORIGDSTADDR, C05.TPROXY_V4_START, C05.TPROXY_V4_LENGTH]
    simp [rd16, C05.AF_INET]

theorem tproxy_v6 (le : Bool) (port : Nat) (flow : Bytes) (gs : List Nat) (scope : Bytes)
    (rest : List Cmsg) (hp : port < 65536) (hflow : flow.length = 4) (hgs : gs.length = 8) :
    tproxyRecvUdp le (origDstCmsgV6 le C05.AF_INET6 port flow gs scope :: rest) =
      .ok (ntopV6 gs) port := by
  have hport := port_native le port hp
  match flow, hflow, gs, hgs with
  | [a, b, c, d], _, [g0, g1, g2, g3, g4, g5, g6, g7], _ =>
    have hh := hextets_packGroups [g0, g1, g2, g3, g4, g5, g6, g7]
    simp only [packGroups, List.flatMap_cons, List.flatMap_nil, List.cons_append, List.nil_append,
      List.append_nil] at hh
    cases le
    · simp [tproxyRecvUdp, origDstCmsgV6, native16, tproxyOne, inetNtop, v6Bytes, packGroups, hport,
        C05.SOL_IP, C05.TPROXY_IP_ORIGDSTADDR, C05.TPROXY_SOL_IPV6,
        C05.TPROXY_IPV6_ORIGDSTADDR, C05.TPROXY_V6_START, C05.TPROXY_V6_LENGTH]
      simp [rd16, C05.AF_INET6, C05.AF_INET, hh]
    · simp [tproxyRecvUdp, origDstCmsgV6, native16, tproxyOne, inetNtop, v6Bytes, packGroups, hport,
        C05.SOL_IP, C05.TPROXY_IP_ORIGDSTADDR, C05.TPROXY_SOL_IPV6,
        C05.TPROXY_IPV6_ORIGDSTADDR, C05.TPROXY_V6_START, C05.TPROXY_V6_LENGTH]
      simp [rd16, C05.AF_INET6, C05.AF_INET, hh]

/-! ### tproxy `recv_udp`: what an `ok` result can be -/

theorem tproxyOne_ok_inv (le : Bool) (wantFam start length : Nat) (data : Bytes) (ip : Text) (port : Nat)
    (h : tproxyOne le wantFam start length data = .ok ip port) :
    ∃ f0 f1 p1 p0, data.take 4 = [f0, f1, p1, p0] ∧ rd16 le f0 f1 = wantFam ∧
      port = htons le (rd16 le p1 p0) ∧
      inetNtop wantFam ((data.drop start).take length) = .ok ip := by
  unfold tproxyOne at h
  split at h
  · next f0 f1 p1 p0 htake =>
    simp only at h
    split at h
    · next hfam =>
      split at h
      · next ip' hn =>
        injection h with h1 h2
        subst h1
        exact ⟨f0, f1, p1, p0, htake, hfam, h2.symm, by rw [← hfam]; exact hn⟩
      · cases h
    · cases h
  · cases h

theorem inetNtop_v4_inv (packed : Bytes) (ip : Text) (h : inetNtop Gen.C05.AF_INET packed = .ok ip) :
    ∃ a b c d, packed = [a, b, c, d] ∧ ip = strV4 a b c d := by
  unfold inetNtop at h
  simp only [↓reduceIte] at h
  split at h
  · next a b c d => injection h with h; exact ⟨a, b, c, d, rfl, h.symm⟩
  · cases h

theorem inetNtop_v6_inv (packed : Bytes) (ip : Text) (h : inetNtop Gen.C05.AF_INET6 packed = .ok ip) :
    packed.length = 16 ∧ ip = ntopV6 (hextets packed) := by
  unfold inetNtop at h
  have hne : Gen.C05.AF_INET6 ≠ Gen.C05.AF_INET := by decide
  simp only [hne, ↓reduceIte] at h
  split at h
  · next hl => injection h with h; exact ⟨hl, h.symm⟩
  · cases h

/-- What the first recognised item of an ancillary list says, read at the real offsets of
`sockaddr_in` (address at 4..8) / `sockaddr_in6` (flowinfo at 4..8, address at 8..24). -/
def DecodesTo (le : Bool) (c : Cmsg) (ip : Text) (port : Nat) : Prop :=
  ∃ f0 f1 p1 p0, c.data.take 4 = [f0, f1, p1, p0] ∧ port = htons le (rd16 le p1 p0) ∧
    ((c.level = 0 ∧ c.type = 20 ∧ rd16 le f0 f1 = Gen.C05.AF_INET ∧
        ∃ a b c' d, (c.data.drop 4).take 4 = [a, b, c', d] ∧ ip = strV4 a b c' d) ∨
     (c.level = 41 ∧ c.type = 74 ∧ rd16 le f0 f1 = Gen.C05.AF_INET6 ∧
        ((c.data.drop 8).take 16).length = 16 ∧ ip = ntopV6 (hextets ((c.data.drop 8).take 16))))

theorem tproxy_ok_inv (le : Bool) (cs : List Cmsg) (ip : Text) (port : Nat)
    (h : tproxyRecvUdp le cs = .ok ip port) :
    ∃ pre c post, cs = pre ++ c :: post ∧ (∀ n ∈ pre, n.Foreign) ∧ DecodesTo le c ip port := by
  induction cs with
  | nil => simp [tproxyRecvUdp] at h
  | cons c rest ih =>
    unfold tproxyRecvUdp at h
    by_cases h4 : c.level = Gen.C05.SOL_IP ∧ c.type = Gen.C05.TPROXY_IP_ORIGDSTADDR
    · rw [if_pos h4] at h
      obtain ⟨f0, f1, p1, p0, ht, hf, hp, hn⟩ := tproxyOne_ok_inv _ _ _ _ _ _ _ h
      obtain ⟨a, b, c', d, hpk, hip⟩ := inetNtop_v4_inv _ _ hn
      refine ⟨[], c, rest, rfl, by simp, f0, f1, p1, p0, ht, hp, Or.inl ⟨h4.1, h4.2, hf, a, b, c', d, hpk, hip⟩⟩
    · rw [if_neg h4] at h
      by_cases h6 : c.level = Gen.C05.TPROXY_SOL_IPV6 ∧ c.type = Gen.C05.TPROXY_IPV6_ORIGDSTADDR
      · rw [if_pos h6] at h
        obtain ⟨f0, f1, p1, p0, ht, hf, hp, hn⟩ := tproxyOne_ok_inv _ _ _ _ _ _ _ h
        obtain ⟨hl, hip⟩ := inetNtop_v6_inv _ _ hn
        refine ⟨[], c, rest, rfl, by simp, f0, f1, p1, p0, ht, hp, Or.inr ⟨h6.1, h6.2, hf, hl, hip⟩⟩
      · rw [if_neg h6] at h
        obtain ⟨pre, c2, post, hcs, hpre, hd⟩ := ih h
        refine ⟨c :: pre, c2, post, by simp [hcs], ?_, hd⟩
        intro n hn
        simp only [List.mem_cons] at hn
        rcases hn with rfl | hn
        · exact ⟨h4, h6⟩
        · exact hpre n hn

/-! ### `onaccept_udp` over a sequence of datagrams -/

theorem dataPayloads_append (a b : List UdpEv) : dataPayloads (a ++ b) = dataPayloads a ++ dataPayloads b := by
  induction a with
  | nil => rfl
  | cons e r ih => cases e <;> simp [dataPayloads, ih]

theorem dataPayloads_closes (t : UdpTable) (now : Nat) : dataPayloads (expireUdp now t).2 = [] := by
  unfold expireUdp
  simp only
  induction (t.filter fun e => decide (e.deadline < now)) with
  | nil => rfl
  | cons e r ih => simpa [dataPayloads] using ih

theorem onacceptUdp_payloads (tbl : UdpTable) (fam src : Nat) (ip : Text) (port : Nat) (data : Bytes)
    (fresh now : Nat) (hasc : isAscii ip = true) (hf : fresh ≠ 0) :
    dataPayloads (onacceptUdp tbl fam src ip (Int.ofNat port) data (some fresh) now).2 =
      [encodeUdp ip (Int.ofNat port) data] := by
  unfold onacceptUdp
  cases tbl.find src with
  | some c => simp [hasc, dataPayloads, dataPayloads_closes]
  | none =>
    cases fresh with
    | zero => exact absurd rfl hf
    | succ n => simp [hasc, dataPayloads, dataPayloads_closes]

/-! ### the association table: refresh before the sweep -/

theorem find_set (t : UdpTable) (src chan dl : Nat) : (t.set src chan dl).find src = some chan := by
  induction t with
  | nil => simp [UdpTable.set, UdpTable.find]
  | cons e r ih =>
    by_cases h : e.src = src
    · simp [UdpTable.set, UdpTable.find, h]
    · simp [UdpTable.set, UdpTable.find, h, ih]

/-- First entry for a source: its channel and deadline. -/
def findEntry (t : UdpTable) (src : Nat) : Option (Nat × Nat) :=
  match t with
  | [] => none
  | e :: r => if e.src = src then some (e.chan, e.deadline) else findEntry r src

theorem findEntry_set (t : UdpTable) (src chan dl : Nat) :
    findEntry (t.set src chan dl) src = some (chan, dl) := by
  induction t with
  | nil => simp [UdpTable.set, findEntry]
  | cons e r ih =>
    by_cases h : e.src = src
    · simp [UdpTable.set, findEntry, h]
    · simp [UdpTable.set, findEntry, h, ih]

theorem find_filter_keep (t : UdpTable) (src c dl now : Nat)
    (h : findEntry t src = some (c, dl)) (hk : ¬ dl < now) :
    UdpTable.find (t.filter fun e => !(decide (e.deadline < now))) src = some c := by
  induction t with
  | nil => simp [findEntry] at h
  | cons e r ih =>
    by_cases hs : e.src = src
    · simp only [findEntry, hs, ↓reduceIte, Option.some.injEq, Prod.mk.injEq] at h
      obtain ⟨h1, h2⟩ := h
      have hk' : ¬ e.deadline < now := by rw [h2]; exact hk
      simp [List.filter, hk', UdpTable.find, hs, h1]
    · simp only [findEntry, hs, ↓reduceIte] at h
      have := ih h
      by_cases hd : e.deadline < now
      · simpa [List.filter, hd] using this
      · simpa [List.filter, hd, UdpTable.find, hs] using this

/-- After `onaccept_udp` handled a datagram from `src` (free id available, ASCII address), the
association of `src` is in the table — on the channel the DATA frame used — whatever the
clock says and whatever else expired in the same call. -/
theorem onacceptUdp_keeps (tbl : UdpTable) (fam src : Nat) (ip : Text) (port : Int) (data : Bytes)
    (fresh now : Nat) (hasc : isAscii ip = true) (hf : fresh ≠ 0) :
    ∃ c, (onacceptUdp tbl fam src ip port data (some fresh) now).1.find src = some c ∧
      UdpEv.data c (encodeUdp ip port data) ∈ (onacceptUdp tbl fam src ip port data (some fresh) now).2 ∧
      (∀ c', tbl.find src = some c' → c = c') := by
  unfold onacceptUdp
  cases hfind : tbl.find src with
  | some c =>
    refine ⟨c, ?_, ?_, ?_⟩
    · simp only [hasc, ↓reduceIte, expireUdp]
      exact find_filter_keep _ src c (now + Gen.C05.UDP_TIMEOUT) now (findEntry_set tbl src c _) (by omega)
    · simp [hasc]
    · intro c' h; injection h
  | none =>
    cases fresh with
    | zero => exact absurd rfl hf
    | succ n =>
      refine ⟨n + 1, ?_, ?_, ?_⟩
      · simp only [hasc, ↓reduceIte, expireUdp]
        exact find_filter_keep _ src (n + 1) (now + Gen.C05.UDP_TIMEOUT) now (findEntry_set tbl src _ _) (by omega)
      · simp [hasc]
      · intro c' h; cases h

/-! ### pf: text of the dialogue -/

theorem isPrefix_append (p r : Text) : isPrefix p (p ++ r) = true := by
  induction p with
  | nil => rfl
  | cons c cs ih => simp [isPrefix, ih]

theorem stripL_head (t : Text) (h : ∀ c, t.head? = some c → isSpace c = false) : stripL t = t := by
  cases t with
  | nil => rfl
  | cons c r => simp [stripL, h c rfl]

/-- `strip()` of a line whose body neither starts nor ends with white space removes exactly the
newline. -/
theorem strip_line (t : Text) (hh : ∀ c, t.head? = some c → isSpace c = false)
    (hl : ∀ c, t.getLast? = some c → isSpace c = false) (hne : t ≠ []) : strip (t ++ [10]) = t := by
  unfold strip
  have h1 : stripL (t ++ [10]) = t ++ [10] := by
    apply stripL_head
    intro c hc
    cases t with
    | nil => exact absurd rfl hne
    | cons x r => exact hh c (by simpa using hc)
  rw [h1, List.reverse_append]
  have h2 : stripL ([10].reverse ++ t.reverse) = t.reverse := by
    have : stripL ([10].reverse ++ t.reverse) = stripL t.reverse := by
      simp [stripL, isSpace]
    rw [this]
    apply stripL_head
    intro c hc
    rw [List.head?_reverse] at hc
    exact hl c hc
  rw [h2, List.reverse_reverse]

theorem pyInt_strip (t d : Text) (hs : strip t = d) (hd : ∀ c ∈ d, isDigit c = true) (hne : d ≠ []) :
    pyInt t = some (Int.ofNat (foldDec 0 d)) := by
  unfold pyInt
  rw [hs]
  cases d with
  | nil => exact absurd rfl hne
  | cons c r =>
    have hc : isDigit c = true := hd c (by simp)
    have h43 : c ≠ 43 := by intro h; subst h; simp [isDigit] at hc
    have h45 : c ≠ 45 := by intro h; subst h; simp [isDigit] at hc
    split
    · next heq => injection heq with h1 _; exact absurd h1.symm (by omega)
    · next heq => injection heq with h1 _; exact absurd h1.symm (by omega)
    · rw [pyIntNat_digits _ hd hne]; rfl

theorem digits_head_last (d : Text) (hd : ∀ c ∈ d, isDigit c = true) :
    (∀ c, d.head? = some c → isSpace c = false) ∧ (∀ c, d.getLast? = some c → isSpace c = false) := by
  constructor
  · intro c hc; exact isSpace_of_digit (hd c (List.mem_of_head? hc))
  · intro c hc; exact isSpace_of_digit (hd c (List.mem_of_getLast? hc))

/-- `int(b"<digits>\n")`. -/
theorem pyInt_decNat_nl (n : Nat) : pyInt (decNat n ++ [10]) = some (Int.ofNat n) := by
  have hd := decNat_digits n
  obtain ⟨h1, h2⟩ := digits_head_last _ hd
  rw [pyInt_strip _ _ (strip_line _ h1 h2 (decNat_ne_nil n)) hd (decNat_ne_nil n), foldDec_decNat]

/-- The client's parse of a SUCCESS line returns the address text and port the helper printed. -/
theorem pfParseReply_ok (ip : Text) (port : Nat) (hc : 44 ∉ ip) (ha : isAscii ip = true) :
    pfParseReply (pfOkPrefix ++ (ip ++ 44 :: (decNat port ++ [10]))) = .ok ip (Int.ofNat port) := by
  unfold pfParseReply
  rw [isPrefix_append]
  have hskip : C05.PF_RESP_SKIP = pfOkPrefix.length := by decide
  rw [hskip, List.drop_left]
  have hj : ip ++ 44 :: (decNat port ++ [10]) = joinSep 44 [ip, decNat port ++ [10]] := rfl
  rw [hj, splitAll_join 44 _ (by
    intro t ht
    simp at ht
    rcases ht with rfl | rfl
    · exact hc
    · intro hm
      rw [List.mem_append] at hm
      rcases hm with h | h
      · have := decNat_digits port 44 h; simp [isDigit] at this
      · simp at h) (by simp)]
  simp [ha, pyInt_decNat_nl]

/-- Any FAILURE line (whatever follows) makes the client fall back to `getsockname()`. -/
theorem pfParseReply_failure (rest : Bytes) :
    pfParseReply (bytesOfStr "QUERY_PF_NAT_FAILURE" ++ rest) = .sockname := by
  rfl

/-- The command line the helper works on: the request without its newline. -/
def pfCmdLine (fam : Nat) (src : Text) (sport : Nat) (dst : Text) (dport : Nat) : Text :=
  pfReqPrefix ++ joinSep 44 [decNat fam, decNat C05.IPPROTO_TCP, src, decNat sport, dst, decNat dport]

theorem pfRequest_eq (fam : Nat) (src : Text) (sport : Nat) (dst : Text) (dport : Nat) :
    pfRequest fam src (Int.ofNat sport) dst (Int.ofNat dport) = pfCmdLine fam src sport dst dport ++ [10] := by
  simp [pfRequest, pfCmdLine, joinSep, fmtD]

theorem toNat_ofNat (n : Nat) : (Int.ofNat n).toNat = n := rfl

/-- The helper, given the client's command line for a TCP flow, marshals exactly the client's
fields, and prints exactly what the kernel answered. -/
theorem pfFirewallCommand_ok (L : PfLayout) (kernel : Bytes → Nat → NatlookRes) (fam : Nat)
    (srcT dstT rT : Text) (srcB dstB rd : Bytes) (sport dport rport : Nat)
    (hs : inetPton fam srcT = some srcB) (hd : inetPton fam dstT = some dstB)
    (hcs : 44 ∉ srcT) (hcd : 44 ∉ dstT) (hsp : sport < 65536) (hdp : dport < 65536)
    (hk : kernel (pfMarshal L fam C05.IPPROTO_TCP srcB dstB sport dport) srcB.length = .found rd rport)
    (hr : inetNtop fam (rd.take srcB.length) = .ok rT) :
    pfFirewallCommand L kernel (pfCmdLine fam srcT sport dstT dport) =
      .reply (pfOkPrefix ++ (rT ++ 44 :: (decNat rport ++ [10])))
        (some (pfMarshal L fam C05.IPPROTO_TCP srcB dstB sport dport)) := by
  unfold pfFirewallCommand pfCmdLine
  rw [isPrefix_append]
  have hskip : C05.PF_CMD_SKIP = pfReqPrefix.length := by decide
  have nd : ∀ n, 44 ∉ decNat n := fun n => not_mem_of_digits (decNat_digits n) (by decide)
  rw [hskip, List.drop_left, splitAll_join 44 _ (by
    intro t ht
    simp at ht
    rcases ht with rfl | rfl | rfl | rfl | rfl | rfl
    · exact nd _
    · exact nd _
    · exact hcs
    · exact nd _
    · exact hcd
    · exact nd _) (by simp)]
  simp only [↓reduceIte, pyInt_decNat]
  have hneg : ¬ (Int.ofNat fam < 0) := by simp only [Int.ofNat_eq_natCast]; omega
  have hports : ¬ (Int.ofNat sport < 0 ∨ Int.ofNat sport > 65535 ∨ Int.ofNat dport < 0 ∨ Int.ofNat dport > 65535) := by
    simp only [Int.ofNat_eq_natCast]; omega
  simp only [hneg, ↓reduceIte, toNat_ofNat, hs, hd, hports, hk, hr]

theorem pfFirewallCommand_miss (L : PfLayout) (kernel : Bytes → Nat → NatlookRes) (fam : Nat)
    (srcT dstT : Text) (srcB dstB : Bytes) (sport dport : Nat)
    (hs : inetPton fam srcT = some srcB) (hd : inetPton fam dstT = some dstB)
    (hcs : 44 ∉ srcT) (hcd : 44 ∉ dstT) (hsp : sport < 65536) (hdp : dport < 65536)
    (hk : kernel (pfMarshal L fam C05.IPPROTO_TCP srcB dstB sport dport) srcB.length = .ioError) :
    pfFirewallCommand L kernel (pfCmdLine fam srcT sport dstT dport) =
      .reply (bytesOfStr "QUERY_PF_NAT_FAILURE\n")
        (some (pfMarshal L fam C05.IPPROTO_TCP srcB dstB sport dport)) := by
  unfold pfFirewallCommand pfCmdLine
  rw [isPrefix_append]
  have hskip : C05.PF_CMD_SKIP = pfReqPrefix.length := by decide
  have nd : ∀ n, 44 ∉ decNat n := fun n => not_mem_of_digits (decNat_digits n) (by decide)
  rw [hskip, List.drop_left, splitAll_join 44 _ (by
    intro t ht
    simp at ht
    rcases ht with rfl | rfl | rfl | rfl | rfl | rfl
    · exact nd _
    · exact nd _
    · exact hcs
    · exact nd _
    · exact hcd
    · exact nd _) (by simp)]
  simp only [↓reduceIte, pyInt_decNat]
  have hneg : ¬ (Int.ofNat fam < 0) := by simp only [Int.ofNat_eq_natCast]; omega
  have hports : ¬ (Int.ofNat sport < 0 ∨ Int.ofNat sport > 65535 ∨ Int.ofNat dport < 0 ∨ Int.ofNat dport > 65535) := by
    simp only [Int.ofNat_eq_natCast]; omega
  simp only [hneg, ↓reduceIte, toNat_ofNat, hs, hd, hports, hk]

/-! ### address texts are comma-free ASCII; `inet_pton ∘ inet_ntop` -/

theorem strV4_ok (a b c d : Nat) : 44 ∉ strV4 a b c d ∧ isAscii (strV4 a b c d) = true :=
  addr_text_ok _ (fun x hx => by
    rcases strV4_alphabet a b c d x hx with h | h
    · left; simp [isHexLower, h]
    · right; right; exact h)

theorem strV6_ok (gs : List Nat) : 44 ∉ strV6 gs ∧ isAscii (strV6 gs) = true :=
  addr_text_ok _ (fun x hx => by
    rcases strV6_alphabet gs x hx with h | h
    · exact Or.inl h
    · exact Or.inr (Or.inl h))

theorem ntopV6_ok (gs : List Nat) : 44 ∉ ntopV6 gs ∧ isAscii (ntopV6 gs) = true :=
  addr_text_ok _ (ntopV6_alphabet gs)

theorem inetPton_v4 (x : V4) (h : x.Wf) :
    inetPton C05.AF_INET (strV4 x.a x.b x.c x.d) = some x.bytes := by
  obtain ⟨ha, hb, hc, hd⟩ := h
  simp [inetPton, parseV4_strV4 _ _ _ _ ha hb hc hd, V4.bytes]

theorem inetPton_v6 (gs : List Nat) (h : V6Wf gs) :
    inetPton C05.AF_INET6 (ntopV6 gs) = some (packGroups gs) := by
  have hne : C05.AF_INET6 ≠ C05.AF_INET := by decide
  simp [inetPton, hne, parseV6_ntopV6 gs h.1 h.2]

theorem inetNtop_v4 (x : V4) (pad : Bytes) :
    inetNtop C05.AF_INET ((x.bytes ++ pad).take 4) = .ok (strV4 x.a x.b x.c x.d) := by
  simp [inetNtop, V4.bytes]

theorem inetNtop_v6 (gs : List Nat) (pad : Bytes) (h : gs.length = 8) :
    inetNtop C05.AF_INET6 ((packGroups gs ++ pad).take 16) = .ok (ntopV6 gs) := by
  have hne : C05.AF_INET6 ≠ C05.AF_INET := by decide
  have hl : (packGroups gs).length = 16 := by rw [packGroups_length, h]
  have ht : (packGroups gs ++ pad).take 16 = packGroups gs := by
    rw [← hl, List.take_left]
  rw [ht]
  simp [inetNtop, hne, hl, hextets_packGroups]

/-! ### lengths of printed addresses (for the helper's 128-byte line read) -/

theorem strV4_length (x : V4) (h : x.Wf) : (strV4 x.a x.b x.c x.d).length ≤ 15 := by
  obtain ⟨ha, hb, hc, hd⟩ := h
  have l1 := decNat_length 2 x.a (by simp; omega)
  have l2 := decNat_length 2 x.b (by simp; omega)
  have l3 := decNat_length 2 x.c (by simp; omega)
  have l4 := decNat_length 2 x.d (by simp; omega)
  simp only [strV4, List.length_append, List.length_cons]
  omega

theorem hexJoin_length (gs : List Nat) (h : ∀ g ∈ gs, g < 65536) :
    (hexJoin gs).length ≤ 5 * gs.length := by
  induction gs with
  | nil => simp [hexJoin, joinSep]
  | cons g gs ih =>
    have lg := hexNat_length 3 g (by simpa using h g (by simp))
    cases gs with
    | nil => simp [hexJoin, joinSep]; omega
    | cons g2 gs2 =>
      have := ih (fun x hx => h x (by simp [hx]))
      simp only [hexJoin, List.map_cons, joinSep_cons2, List.length_append, List.length_cons] at this ⊢
      omega

theorem strV6_length (gs : List Nat) (h : V6Wf gs) : (strV6 gs).length ≤ 42 := by
  obtain ⟨hl, hb⟩ := h
  unfold strV6
  split
  · have := hexJoin_length gs hb; omega
  · next s l _ =>
    have h1 := hexJoin_length (gs.take s) (fun g hg => hb g (List.mem_of_mem_take hg))
    have h2 := hexJoin_length (gs.drop (s + l)) (fun g hg => hb g (List.mem_of_mem_drop hg))
    simp only [List.length_append, List.length_cons, List.length_take, List.length_drop] at h1 h2 ⊢
    omega

theorem ntopV6_length (gs : List Nat) (h : V6Wf gs) : (ntopV6 gs).length ≤ 45 := by
  have h6 := strV6_length gs h
  unfold ntopV6
  split
  · next g0 g1 g2 g3 g4 g5 g6 g7 l hrun =>
    have b6 : g6 < 65536 := h.2 g6 (by simp)
    have b7 : g7 < 65536 := h.2 g7 (by simp)
    have l4 := strV4_length ⟨g6 / 256, g6 % 256, g7 / 256, g7 % 256⟩
      ⟨by simp only; omega, by simp only; omega, by simp only; omega, by simp only; omega⟩
    simp only at l4
    split
    · simp only [List.length_cons]; omega
    · split
      · next h5 =>
        have lh := hexNat_length 3 g5 (by simpa using h.2 g5 (by simp))
        simp only [List.length_cons, List.length_append]; omega
      · omega
  · omega

/-! ### pf: marshalling into `pfioc_natlook` -/

/-- The three platform layouts read from the ctypes declarations in `pf.py`. -/
def knownLayouts : List PfLayout :=
  [C05.PF_LAYOUT_FREEBSD, C05.PF_LAYOUT_OPENBSD, C05.PF_LAYOUT_DARWIN].filterMap PfLayout.ofList

theorem knownLayouts_length : knownLayouts.length = 3 := by decide

theorem marshal_key4 (L : PfLayout) (hL : L ∈ knownLayouts)
    (fam proto s0 s1 s2 s3 d0 d1 d2 d3 sport dport : Nat) (hf : fam < 256) (hp : proto < 256)
    (_hs : sport < 65536) (_hd : dport < 65536) :
    readKey L (pfMarshal L fam proto [s0, s1, s2, s3] [d0, d1, d2, d3] sport dport) 4 =
      ⟨fam, proto, C05.PF_OUT, [s0, s1, s2, s3], [d0, d1, d2, d3], sport, dport⟩ := by
  simp [knownLayouts, PfLayout.ofList, C05.PF_LAYOUT_FREEBSD, C05.PF_LAYOUT_OPENBSD,
    C05.PF_LAYOUT_DARWIN] at hL
  rcases hL with rfl | rfl | rfl
  · simp [readKey, pfMarshal, poke, peek, List.replicate, C05.PF_OUT]; omega
  · simp [readKey, pfMarshal, poke, peek, List.replicate, C05.PF_OUT]; omega
  · simp [readKey, pfMarshal, poke, peek, List.replicate, C05.PF_OUT]; omega

theorem marshal_key16 (L : PfLayout) (hL : L ∈ knownLayouts)
    (fam proto sport dport : Nat) (s d : List Nat) (hsl : s.length = 8) (hdl : d.length = 8)
    (hf : fam < 256) (hp : proto < 256) (_hs : sport < 65536) (_hd : dport < 65536) :
    readKey L (pfMarshal L fam proto (packGroups s) (packGroups d) sport dport) 16 =
      ⟨fam, proto, C05.PF_OUT, packGroups s, packGroups d, sport, dport⟩ := by
  simp [knownLayouts, PfLayout.ofList, C05.PF_LAYOUT_FREEBSD, C05.PF_LAYOUT_OPENBSD,
    C05.PF_LAYOUT_DARWIN] at hL
  match s, hsl, d, hdl with
  | [s0, s1, s2, s3, s4, s5, s6, s7], _, [d0, d1, d2, d3, d4, d5, d6, d7], _ =>
    rcases hL with rfl | rfl | rfl
    · simp [readKey, pfMarshal, poke, peek, List.replicate, C05.PF_OUT, packGroups]; omega
    · simp [readKey, pfMarshal, poke, peek, List.replicate, C05.PF_OUT, packGroups]; omega
    · simp [readKey, pfMarshal, poke, peek, List.replicate, C05.PF_OUT, packGroups]; omega

end Sshuttle.Dst
