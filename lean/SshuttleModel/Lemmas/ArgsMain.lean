/-
Assembly: `parse_subnetport` on a documented IPv4 spelling reduces to the result loop on the
single address `getaddrinfo` returns; the loop on decimal width / port texts.
-/
import SshuttleModel.Lemmas.ArgsGai

namespace Sshuttle.ArgsSpec
open Sshuttle.Inet Sshuttle.Args

theorem parse_spell_aux (env : Env) (a : Nat) (ha : a < 2 ^ 32) (sh : Shape4) (w : Option Nat) (ps : PortSpec) :
    parseSubnetport env (spellSubnet4 a sh w ps) =
      subnetLoop (w.map (render 10)) (portTexts ps).1 (portTexts ps).2 [(.inet, ntoa a, 0)] := by
  unfold parseSubnetport parseSubnetportWith
  have hc := countColons_spell a sh w ps
  have ht : Gen.C16.SUBNET_COLON_THRESHOLD = 1 := by decide
  have hif : ¬ countColons (spellSubnet4 a sh w ps) > Gen.C16.SUBNET_COLON_THRESHOLD := by omega
  simp only [hif, ↓reduceIte, matchRx4_spell, getaddrinfo_spellV4 env a ha sh]
  simp

theorem maxCidr_inet : maxCidr .inet = 32 := by decide
theorem maxCidr_inet6 : maxCidr .inet6 = 128 := by decide

theorem subnetLoop_single (w : Option Nat) (hw : ∀ x, w = some x → x < 10 ^ 10) (ps : PortSpec)
    (hps : ps.Valid) (addr : Str) (port : Nat) :
    subnetLoop (w.map (render 10)) (portTexts ps).1 (portTexts ps).2 [(.inet, addr, port)] =
      match w with
      | none => .ok [⟨.inet, addr, 32, ps.first, ps.last⟩]
      | some x => if x ≤ 32 then .ok [⟨.inet, addr, x, ps.first, ps.last⟩] else .error (.fatal .cidrRange) := by
  cases w with
  | none =>
    cases ps with
    | none => simp [subnetLoop, portTexts, maxCidr_inet, PortSpec.first, PortSpec.last]
    | one p =>
      have hp : p < 10 ^ 10 := by simp only [PortSpec.Valid] at hps; omega
      simp [subnetLoop, portTexts, maxCidr_inet, PortSpec.first, PortSpec.last, pyInt_render p hp]
    | range p q =>
      have hp : p < 10 ^ 10 := by simp only [PortSpec.Valid] at hps; omega
      have hq : q < 10 ^ 10 := by simp only [PortSpec.Valid] at hps; omega
      simp [subnetLoop, portTexts, maxCidr_inet, PortSpec.first, PortSpec.last, pyInt_render p hp, pyInt_render q hq]
  | some x =>
    have hx := hw x rfl
    by_cases hle : x ≤ 32
    · cases ps with
      | none => simp [subnetLoop, portTexts, maxCidr_inet, PortSpec.first, PortSpec.last, pyInt_render x hx, hle]
      | one p =>
        have hp : p < 10 ^ 10 := by simp only [PortSpec.Valid] at hps; omega
        simp [subnetLoop, portTexts, maxCidr_inet, PortSpec.first, PortSpec.last, pyInt_render x hx, hle, pyInt_render p hp]
      | range p q =>
        have hp : p < 10 ^ 10 := by simp only [PortSpec.Valid] at hps; omega
        have hq : q < 10 ^ 10 := by simp only [PortSpec.Valid] at hps; omega
        simp [subnetLoop, portTexts, maxCidr_inet, PortSpec.first, PortSpec.last, pyInt_render x hx, hle,
          pyInt_render p hp, pyInt_render q hq]
    · simp [subnetLoop, maxCidr_inet, pyInt_render x hx, hle]

/-- the width check of the loop, for any family and any texts: a parsed width above the
family's maximum is the CIDR usage error, whatever the ports are -/
theorem subnetLoop_width_too_big (c : Str) (fport lport : Option Str) (fam : Family) (addr : Str) (port : Nat)
    (rest : List AddrInfo) (n : Nat) (hc : pyInt c = .ok n) (hn : n > maxCidr fam) :
    subnetLoop (some c) fport lport ((fam, addr, port) :: rest) = .error (.fatal .cidrRange) := by
  have : ¬ n ≤ maxCidr fam := by omega
  simp [subnetLoop, hc, this]

end Sshuttle.ArgsSpec
