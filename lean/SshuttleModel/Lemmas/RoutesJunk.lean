/-
Helper lemmas for C17: no input line makes the repaired `_list_routes` loop raise
(`lineStep_ok`), with the facts about `_ipmatch`'s result range it rests on.
Property theorems live in `Props/C17.lean`.
-/
import SshuttleModel.Lemmas.RoutesBits

namespace Sshuttle.Routes

theorem pyInt_err {s : Str} {e : Exc} (h : pyInt s = .error e) : e = .valueError := by
  unfold pyInt at h
  simp only at h
  split at h
  · cases h; rfl
  · split at h
    · cases h; rfl
    · split at h <;> cases h

theorem atonPart_le {d : Str} {v : Nat} (h : atonPart d = some v) : v ≤ 255 := by
  unfold atonPart at h
  split at h
  · split at h
    · simp only at h
      split at h
      · cases h; assumption
      · cases h
    · cases h
  · simp only at h
    split at h
    · cases h; assumption
    · cases h

theorem inetAton4_lt {p : List Str} {v : Nat} (h : inetAton4 p = .ok v) : v < 2 ^ 32 := by
  unfold inetAton4 at h
  split at h
  next a b c d heq =>
    cases h
    rcases p with _ | ⟨pa, _ | ⟨pb, _ | ⟨pc, _ | ⟨pd, _ | ⟨pe, t⟩⟩⟩⟩⟩ <;>
      simp only [List.map_cons, List.map_nil, List.cons.injEq, and_true, reduceCtorEq, and_false] at heq
    obtain ⟨h1, h2, h3, h4⟩ := heq
    have := atonPart_le h1; have := atonPart_le h2; have := atonPart_le h3; have := atonPart_le h4
    omega
  · cases h

theorem inetAton4_err {p : List Str} {e : Exc} (h : inetAton4 p = .error e) : e = .osError := by
  unfold inetAton4 at h
  split at h
  · cases h
  · cases h; rfl

theorem isDigit_not_bspace {c : Nat} (h : isDigit c = true) : isBSpace c = false := by
  simp only [isDigit, isBSpace, Bool.and_eq_true, decide_eq_true_eq, Bool.or_eq_false_iff, beq_eq_false_iff_ne,
    Bool.and_eq_false_iff, decide_eq_false_iff_not] at *
  omega

theorem strip_tail_prefix (p : Nat → Bool) (l : Str) : (l.reverse.dropWhile p).reverse <+: l := by
  have h := List.dropWhile_suffix p (l := l.reverse)
  have := List.reverse_prefix.mpr h
  simpa using this

theorem pyInt_nonneg {c : Nat} {r : Str} {v : Int} (hc : isDigit c = true) (h : pyInt (c :: r) = .ok v) : 0 ≤ v := by
  unfold pyInt at h
  have hb := isDigit_not_bspace hc
  have hd : (c :: r).dropWhile isBSpace = c :: r := by simp [List.dropWhile, hb]
  have hp : stripWith isBSpace (c :: r) <+: c :: r := by
    unfold stripWith; rw [hd]; exact strip_tail_prefix _ _
  rcases List.prefix_cons_iff.mp hp with h0 | ⟨t, ht, _⟩
  · rw [h0] at h; simp [undDigits, signSplit] at h
  · rw [ht] at h
    have h45 : c ≠ 45 := by simp [isDigit] at hc; omega
    have h43 : c ≠ 43 := by simp [isDigit] at hc; omega
    have hs : signSplit (c :: t) = (false, c :: t) := by
      unfold signSplit
      split
      · simp_all
      · simp_all
      · rfl
    rw [hs] at h
    simp only at h
    split at h
    · cases h
    · split at h
      · cases h
      · simp at h; cases h; omega

theorem groupWidth_err {g : Option Str} {e : Exc} (h : groupWidth g = .error e) : e = .valueError := by
  cases g with
  | none => simp [groupWidth] at h
  | some d => exact pyInt_err h

theorem padCap_snd_le (octs : List Str) (w : Int) : (padCap octs w).2 ≤ w := by
  unfold padCap
  split <;> simp only <;> omega

theorem padCap_snd_nonneg (octs : List Str) (w : Int) (h : 0 ≤ w) : 0 ≤ (padCap octs w).2 := by
  unfold padCap
  split <;> simp only <;> omega

theorem reTail_g4_slash : ∀ (k : Nat) (acc : List Str) (s : Str) (o : List Str) (d : Str),
    reTail k acc s = some (o, some d) → 47 ∈ s := by
  intro k
  induction k with
  | zero =>
    intro acc s o d h
    cases s with
    | nil => simp [reTail] at h
    | cons c r =>
      simp only [reTail] at h
      split at h
      next hc => simp [hc]
      · split at h
        · cases h
        · split at h <;> simp at h
  | succ k ih =>
    intro acc s o d h
    cases s with
    | nil => simp [reTail] at h
    | cons c r =>
      simp only [reTail] at h
      split at h
      next hc => simp [hc]
      · split at h
        · split at h
          · cases h
          next d' r' _hne heq =>
            have := ih _ _ _ _ h
            have hr' : r' = r.dropWhile isDigit := by
              simp only [digitsSpan, Prod.mk.injEq] at heq; exact heq.2.symm
            rw [hr'] at this
            exact List.mem_cons_of_mem _ ((List.dropWhile_suffix _).subset this)
        · split at h <;> simp at h

theorem reIp_g4_slash {s : Str} {o : List Str} {d : Str} (h : reIp s = some (o, some d)) : 47 ∈ s := by
  unfold reIp at h
  split at h
  · cases h
  next d' r' _hne heq =>
    have := reTail_g4_slash _ _ _ _ _ h
    have hr' : r' = s.dropWhile isDigit := by
      simp only [digitsSpan, Prod.mk.injEq] at heq; exact heq.2.symm
    rw [hr'] at this
    exact (List.dropWhile_suffix _).subset this

theorem takeWhile_head {p : Nat → Bool} {l : Str} {c : Nat} {t : Str} (h : l.takeWhile p = c :: t) : p c = true := by
  cases l with
  | nil => simp at h
  | cons x xs =>
    simp only [List.takeWhile_cons] at h
    split at h
    next hx => simp at h; rw [← h.1]; exact hx
    · cases h

theorem reSlash_digit {acc : List Str} {r : Str} {o : List Str} {d : Str} (h : reSlash acc r = some (o, some d)) :
    ∃ c t, d = c :: t ∧ isDigit c = true := by
  unfold reSlash at h
  split at h
  · cases h
  next d' r' hne heq =>
    split at h
    · simp only [Option.some.injEq, Prod.mk.injEq] at h
      obtain ⟨_, hd⟩ := h
      subst hd
      simp only [digitsSpan, Prod.mk.injEq] at heq
      cases hd' : d' with
      | nil => exact absurd hd' hne
      | cons c t =>
        refine ⟨c, t, rfl, ?_⟩
        rw [hd'] at heq
        exact takeWhile_head heq.1
    · cases h

theorem reTail_digit : ∀ (k : Nat) (acc : List Str) (s : Str) (o : List Str) (d : Str),
    reTail k acc s = some (o, some d) → ∃ c t, d = c :: t ∧ isDigit c = true := by
  intro k
  induction k with
  | zero =>
    intro acc s o d h
    cases s with
    | nil => simp [reTail] at h
    | cons c r =>
      simp only [reTail] at h
      split at h
      · exact reSlash_digit h
      · split at h
        · cases h
        · split at h <;> simp at h
  | succ k ih =>
    intro acc s o d h
    cases s with
    | nil => simp [reTail] at h
    | cons c r =>
      simp only [reTail] at h
      split at h
      · exact reSlash_digit h
      · split at h
        · split at h
          · cases h
          · exact ih _ _ _ _ h
        · split at h <;> simp at h

theorem reIp_digit {s : Str} {o : List Str} {d : Str} (h : reIp s = some (o, some d)) :
    ∃ c t, d = c :: t ∧ isDigit c = true := by
  unfold reIp at h
  split at h
  · cases h
  · exact reTail_digit _ _ _ _ _ h

theorem groupWidth_nonneg {s : Str} {o : List Str} {g : Option Str} {w : Int}
    (hre : reIp s = some (o, g)) (h : groupWidth g = .ok w) : 0 ≤ w := by
  cases g with
  | none => simp [groupWidth] at h; omega
  | some d =>
    obtain ⟨c, t, hd, hc⟩ := reIp_digit hre
    subst hd
    exact pyInt_nonneg hc h

theorem ipmatch_err {s : Str} {e : Exc} (h : ipmatch s = .error e) : e = .valueError ∨ e = .osError := by
  unfold ipmatch at h
  simp only at h
  split at h
  · cases h
  · split at h
    next e' he => cases h; left; exact groupWidth_err he
    · split at h
      next e' he => cases h; right; exact inetAton4_err he
      · cases h

theorem ipmatch_ok {s : Str} {ip : Nat} {w : Int} (h : ipmatch s = .ok (some (ip, w))) :
    ip < 2 ^ 32 ∧ 0 ≤ w ∧ (47 ∉ s → w ≤ 32) := by
  unfold ipmatch at h
  simp only at h
  split at h
  · cases h
  next octs g4 hre =>
    split at h
    · cases h
    next width hw =>
      split at h
      · cases h
      next ip' hip =>
        simp only [Except.ok.injEq, Option.some.injEq, Prod.mk.injEq] at h
        obtain ⟨h1, h2⟩ := h
        subst h1 h2
        refine ⟨inetAton4_lt hip, padCap_snd_nonneg _ _ (groupWidth_nonneg hre hw), ?_⟩
        intro hns
        have hle := padCap_snd_le octs width
        by_cases hdef : s = Gen.C17.DEFAULT_TEXT
        · -- 'default' → '0.0.0.0/0': width 0
          rw [if_pos hdef] at hre
          have : reIp Gen.C17.DEFAULT_REPL = some ([[48], [48], [48], [48]], some [48]) := by decide
          rw [this] at hre
          simp only [Option.some.injEq, Prod.mk.injEq] at hre
          obtain ⟨_, hg⟩ := hre
          subst hg
          have : groupWidth (some [48]) = .ok 0 := by rfl
          rw [this] at hw; cases hw; omega
        · rw [if_neg hdef] at hre
          cases g4 with
          | none =>
            have hc : Gen.C17.DEFAULT_WIDTH = 32 := by decide
            simp [groupWidth, hc] at hw; omega
          | some d => exact absurd (reIp_g4_slash hre) hns

theorem splitOn_no_sep (sep : Nat) : ∀ (s : Str), ∀ p ∈ splitOn sep s, sep ∉ p := by
  intro s
  induction s with
  | nil => intro p hp; simp [splitOn] at hp; subst hp; simp
  | cons c r ih =>
    intro p hp
    simp only [splitOn] at hp
    split at hp
    · simp only [List.mem_cons] at hp
      rcases hp with rfl | hp
      · simp
      · exact ih p hp
    next hc =>
      split at hp
      next h t heq =>
        simp only [List.mem_cons] at hp
        rcases hp with rfl | hp
        · have := ih h (by rw [heq]; simp)
          simp only [List.mem_cons, not_or]
          exact ⟨fun e => hc e.symm, this⟩
        · exact ih p (by rw [heq]; simp [hp])
      · simp only [List.mem_cons, List.not_mem_nil, or_false] at hp
        subst hp
        simp only [List.mem_cons, List.not_mem_nil, or_false]
        exact fun e => hc e.symm

theorem maskbits_le (m : Option (Nat × Int)) : maskbits m ≤ 32 := by
  unfold maskbits
  have h1 : Gen.C17.MASKBITS_NONE = 32 := by decide
  have h2 : Gen.C17.MASKBITS_RANGE = 32 := by decide
  split
  · omega
  · split <;> omega

theorem mkRoute_shape (ip : Nat) (w mask : Int) (hip : ip < 2 ^ 32) (hw : 0 ≤ w) (hm : 0 ≤ mask)
    (hle : w ≤ 32 ∨ mask ≤ 32) :
    ∃ x, x < 2 ^ 32 ∧ mkRoute (ip, w) mask = .ok ⟨Generated.AF_INET, inetNtoa x, min w mask⟩ := by
  unfold mkRoute
  have hT : Gen.C17.TOTAL_BITS = 32 := by decide
  have h0 : 0 ≤ min w mask := by omega
  have h32 : min w mask ≤ 32 := by omega
  simp only [bind, Except.bind, shl, h0, ↓reduceIte, hT]
  have h1 : (0 : Int) ≤ ((32 : Nat) : Int) - min w mask := by omega
  simp only [h1, ↓reduceIte]
  have hnn : (0 : Int) ≤ (1 * 2 ^ (min w mask).toNat - 1) * 2 ^ (((32 : Nat) : Int) - min w mask).toNat := by
    apply Int.mul_nonneg
    · have : (0 : Int) < 2 ^ (min w mask).toNat := Int.pow_pos (by omega)
      omega
    · exact Int.pow_nonneg (by omega)
  obtain ⟨x, hx⟩ := Int.eq_ofNat_of_zero_le hnn
  rw [hx]
  have hle' : landInt ip (Int.ofNat x) ≤ ip := by
    simp only [landInt]; exact Nat.and_le_left
  have hlt : ¬ landInt ip (Int.ofNat x) ≥ 4294967296 := by omega
  refine ⟨landInt ip (Int.ofNat x), by omega, ?_⟩
  simp only [Int.ofNat_eq_natCast] at *
  simp [hlt, pure, Except.pure]

theorem mkRoute_ok (ip : Nat) (w mask : Int) (hip : ip < 2 ^ 32) (hw : 0 ≤ w) (hm : 0 ≤ mask)
    (hle : w ≤ 32 ∨ mask ≤ 32) : ∃ r, mkRoute (ip, w) mask = .ok r := by
  obtain ⟨x, _, h⟩ := mkRoute_shape ip w mask hip hw hm hle
  exact ⟨_, h⟩

/-- What an extractor can return or raise. -/
def ExtractOk (r : Except Exc Extract) : Prop :=
  match r with
  | .error e => e.caught = true
  | .ok (some (ip, w), some mask) => ip < 2 ^ 32 ∧ 0 ≤ w ∧ (w ≤ 32 ∨ mask ≤ 32)
  | .ok _ => True

theorem routeIproute_facts (l : Str) : ExtractOk (routeIproute l) := by
  unfold routeIproute
  split
  · simp [ExtractOk, Exc.caught]
  next ipm _ _ =>
    split
    · simp [ExtractOk]
    · split
      next ip mask heq =>
        have hns : 47 ∉ ip := splitOn_no_sep 47 ipm ip (by rw [heq]; simp)
        simp only [bind, Except.bind, pure, Except.pure]
        cases hi : ipmatch ip with
        | error e =>
          rcases ipmatch_err hi with rfl | rfl <;> simp [ExtractOk, Exc.caught]
        | ok ipw =>
          simp only
          cases hp : pyInt mask with
          | error e => simp [ExtractOk, pyInt_err hp, Exc.caught]
          | ok m =>
            simp only
            cases ipw with
            | none => simp [ExtractOk]
            | some p =>
              obtain ⟨a, w⟩ := p
              obtain ⟨h1, h2, h3⟩ := ipmatch_ok hi
              simp only [ExtractOk]
              exact ⟨h1, h2, Or.inl (h3 hns)⟩
      · simp [ExtractOk, Exc.caught]

theorem routeNetstat_facts (l : Str) : ExtractOk (routeNetstat l) := by
  unfold routeNetstat
  simp only
  split
  · simp [ExtractOk]
  · split
    next c0 c2 _ _ =>
      simp only [bind, Except.bind, pure, Except.pure]
      cases hi : ipmatch c0 with
      | error e => rcases ipmatch_err hi with rfl | rfl <;> simp [ExtractOk, Exc.caught]
      | ok ipw =>
        simp only
        cases hm : ipmatch c2 with
        | error e => rcases ipmatch_err hm with rfl | rfl <;> simp [ExtractOk, Exc.caught]
        | ok maskw =>
          simp only
          cases ipw with
          | none => simp [ExtractOk]
          | some p =>
            obtain ⟨a, w⟩ := p
            obtain ⟨h1, h2, _⟩ := ipmatch_ok hi
            simp only [ExtractOk]
            have := maskbits_le maskw
            exact ⟨h1, h2, Or.inr (by omega)⟩
    · simp [ExtractOk, Exc.caught]

theorem extract_facts (tool : Tool) (line : Bytes) : ExtractOk (decodeAscii line >>= extractRoute tool) := by
  unfold decodeAscii
  split
  · simp only [bind, Except.bind]
    cases tool with
    | iproute => exact routeIproute_facts line
    | netstat => exact routeNetstat_facts line
    | absent => simp [extractRoute, ExtractOk]
  · simp [bind, Except.bind, ExtractOk, Exc.caught]

theorem lineStep_ok (tool : Tool) (line : Bytes) : ∃ r, lineStep tool line = .ok r := by
  unfold lineStep
  split
  · exact ⟨none, rfl⟩
  · have hf := extract_facts tool line
    split
    next e he =>
      rw [he] at hf
      simp only [ExtractOk] at hf
      simp [hf]
    next ipw mask he =>
      rw [he] at hf
      split
      next p m =>
        split
        · exact ⟨none, rfl⟩
        next hm =>
          obtain ⟨a, w⟩ := p
          simp only [ExtractOk] at hf
          obtain ⟨h1, h2, h3⟩ := hf
          obtain ⟨r, hr⟩ := mkRoute_ok a w m h1 h2 (by omega) h3
          exact ⟨some r, by rw [hr]; rfl⟩
      · exact ⟨none, rfl⟩

end Sshuttle.Routes
