/-
Helper lemmas for C18, part 5: gluing the framing, options and binding results into one
statement about a whole session start.
-/
import SshuttleModel.Lemmas.BootstrapInstances
import SshuttleModel.Lemmas.BootstrapOptions
import SshuttleModel.Lemmas.BootstrapUtf8

namespace Sshuttle.Bootstrap

/-- members of `l.zip ds` are related the way the two mapped lists are equal -/
theorem zip_mem_of_map_eq {α β γ : Type} (f : α → γ) (g : β → γ) :
    ∀ (l : List α) (ds : List β), l.map f = ds.map g → ∀ a d, (a, d) ∈ l.zip ds → f a = g d := by
  intro l
  induction l with
  | nil => intro ds _ a d hm; simp at hm
  | cons x xs ih =>
    intro ds h a d hm
    cases ds with
    | nil => simp at hm
    | cons y ys =>
      simp only [List.map_cons, List.cons.injEq] at h
      simp only [List.zip_cons_cons, List.mem_cons, Prod.mk.injEq] at hm
      rcases hm with ⟨rfl, rfl⟩ | hm
      · exact h.1
      · exact ih ys h.2 a d hm

theorem renderOptions_ne_nil (np : Nat → Bool) (opts : List (List Nat × Val)) (h : opts ≠ []) :
    renderOptions np opts ≠ [] := by
  cases opts with
  | nil => exact absurd rfl h
  | cons kv r => obtain ⟨k, v⟩ := kv; simp [renderOptions]

/-- a non-empty option record is rendered to a non-empty `optdata` (so `if not data:` in
`empackage` does not replace it by a file read) -/
theorem optdata_nonempty (np : Nat → Bool) (opts : List (List Nat × Val)) (h : opts ≠ [])
    (wire : Bytes) (henc : optdataOf np opts = some wire) : wire.isEmpty = false := by
  unfold optdataOf at henc
  have h1 := encodeUtf8_length _ wire henc
  have h2 : 0 < (renderOptions np opts).length := by
    cases hr : renderOptions np opts with
    | nil => exact absurd hr (renderOptions_ne_nil np opts h)
    | cons _ _ => simp
  cases wire with
  | nil => simp only [List.length_nil] at h1; omega
  | cons _ _ => rfl

/-- the client's option names are identifiers without `=` or newline -/
theorem option_keys_ok : ∀ k ∈ Gen.C18.OPTION_KEYS.map bytesOfStr, 61 ∉ k ∧ 10 ∉ k := by decide

/-- the byte forms of different option names differ (so name lookup by bytes is faithful) -/
theorem option_keys_nodup : (Gen.C18.OPTION_KEYS.map bytesOfStr).Nodup := by decide

theorem lookupOpt_isSome (opts : List (List Nat × Val)) (p : String)
    (h : bytesOfStr p ∈ opts.map Prod.fst) : (lookupOpt opts p).isSome = true := by
  unfold lookupOpt
  obtain ⟨kv, hkv, he⟩ := List.mem_map.mp h
  simp only [Option.isSome_map, List.find?_isSome]
  exact ⟨kv, hkv, by simp [he]⟩

end Sshuttle.Bootstrap
