/-
Helper lemmas for C05, part 1: numbers as text, `int()`, `split`, dotted quads,
the CONNECT / UDP codecs.
-/
import SshuttleModel.Code.Dst
import SshuttleModel.Spec.Dst

namespace Sshuttle.Dst

/-! ### radix printing: fuel does not matter; recursive equations -/

theorem radixAux_fuel (b : Nat) (dig : Nat → Nat) (hb : 1 < b) :
    ∀ f f' n, n ≤ f → n ≤ f' → radixAux b dig f n = radixAux b dig f' n := by
  intro f
  induction f with
  | zero =>
    intro f' n h1 _
    have hn : n = 0 := by omega
    subst hn
    cases f' with
    | zero => rfl
    | succ f' =>
      have : 0 < b := by omega
      simp [radixAux, this, Nat.zero_mod]
  | succ f ih =>
    intro f' n h1 h2
    cases f' with
    | zero =>
      have hn : n = 0 := by omega
      subst hn
      have : 0 < b := by omega
      simp [radixAux, this, Nat.zero_mod]
    | succ f' =>
      simp only [radixAux]
      by_cases hlt : n < b
      · simp [hlt]
      · simp only [hlt, ↓reduceIte]
        have hpos : 0 < n := by omega
        have := Nat.div_lt_self hpos hb
        rw [ih f' (n / b) (by omega) (by omega)]

theorem radix_lt (b : Nat) (dig : Nat → Nat) (_hb : 1 < b) (n : Nat) (h : n < b) :
    radixAux b dig n n = [dig n] := by
  cases n with
  | zero => simp [radixAux, Nat.zero_mod]
  | succ n => simp [radixAux, h]

theorem radix_ge (b : Nat) (dig : Nat → Nat) (hb : 1 < b) (n : Nat) (h : b ≤ n) :
    radixAux b dig n n = radixAux b dig (n / b) (n / b) ++ [dig (n % b)] := by
  cases n with
  | zero => omega
  | succ n =>
    have hlt : ¬ (n + 1 < b) := by omega
    simp only [radixAux, hlt, ↓reduceIte]
    have := Nat.div_lt_self (show 0 < n + 1 by omega) hb
    rw [radixAux_fuel b dig hb n ((n + 1) / b) ((n + 1) / b) (by omega) (Nat.le_refl _)]

theorem decNat_lt (n : Nat) (h : n < 10) : decNat n = [48 + n] :=
  radix_lt 10 decDig (by omega) n h

theorem decNat_ge (n : Nat) (h : 10 ≤ n) : decNat n = decNat (n / 10) ++ [48 + n % 10] :=
  radix_ge 10 decDig (by omega) n h

theorem hexNat_lt (n : Nat) (h : n < 16) : hexNat n = [hexDig n] :=
  radix_lt 16 hexDig (by omega) n h

theorem hexNat_ge (n : Nat) (h : 16 ≤ n) : hexNat n = hexNat (n / 16) ++ [hexDig (n % 16)] :=
  radix_ge 16 hexDig (by omega) n h

/-- Every character `'%d'` prints is a decimal digit. -/
theorem decNat_digits (n : Nat) : ∀ c ∈ decNat n, isDigit c = true := by
  induction n using Nat.strongRecOn with
  | _ n ih =>
    by_cases h : n < 10
    · rw [decNat_lt n h]; intro c hc; simp at hc; subst hc; simp [isDigit]; omega
    · rw [decNat_ge n (by omega)]
      intro c hc
      rw [List.mem_append] at hc
      rcases hc with hc | hc
      · exact ih (n / 10) (by omega) c hc
      · simp at hc; subst hc; simp [isDigit]; omega

theorem decNat_ne_nil (n : Nat) : decNat n ≠ [] := by
  by_cases h : n < 10
  · rw [decNat_lt n h]; simp
  · rw [decNat_ge n (by omega)]; simp

/-- `decNat n` has at most `k` characters when `n < 10^k`. -/
theorem decNat_length (k : Nat) : ∀ n, n < 10 ^ (k + 1) → (decNat n).length ≤ k + 1 := by
  induction k with
  | zero => intro n h; rw [decNat_lt n (by simpa using h)]; simp
  | succ k ih =>
    intro n h
    by_cases h10 : n < 10
    · rw [decNat_lt n h10]; simp
    · rw [decNat_ge n (by omega)]
      have : n / 10 < 10 ^ (k + 1) := by
        rw [Nat.pow_succ] at h; omega
      have := ih (n / 10) this
      simp; omega

/-! ### `int()` undoes `'%d'` -/

def foldDec (acc : Nat) (t : Text) : Nat := t.foldl (fun a c => a * 10 + (c - 48)) acc

theorem foldDec_append (acc : Nat) (a b : Text) : foldDec acc (a ++ b) = foldDec (foldDec acc a) b := by
  simp [foldDec, List.foldl_append]

theorem foldDec_decNat (n : Nat) : foldDec 0 (decNat n) = n := by
  induction n using Nat.strongRecOn with
  | _ n ih =>
    by_cases h : n < 10
    · rw [decNat_lt n h]; simp [foldDec]
    · rw [decNat_ge n (by omega), foldDec_append, ih (n / 10) (by omega)]
      simp [foldDec]; omega

theorem intBody_digits (a : Text) (ha : ∀ c ∈ a, isDigit c = true) (acc : Nat) (b : Text) :
    intBody acc false (a ++ b) = intBody (foldDec acc a) false b := by
  induction a generalizing acc with
  | nil => rfl
  | cons c r ih =>
    have hc : isDigit c = true := ha c (by simp)
    simp only [List.cons_append, intBody, hc, ↓reduceIte]
    rw [ih (fun x hx => ha x (by simp [hx]))]
    rfl

theorem pyIntNat_digits (t : Text) (ht : ∀ c ∈ t, isDigit c = true) (hne : t ≠ []) :
    pyIntNat t = some (foldDec 0 t) := by
  cases t with
  | nil => exact absurd rfl hne
  | cons c r =>
    have hc : isDigit c = true := ht c (by simp)
    simp only [pyIntNat, hc, ↓reduceIte]
    have := intBody_digits r (fun x hx => ht x (by simp [hx])) (c - 48) []
    simp only [List.append_nil] at this
    rw [this]
    simp [intBody, foldDec]

theorem isSpace_of_digit {c : Nat} (h : isDigit c = true) : isSpace c = false := by
  simp [isDigit] at h; simp [isSpace]; omega

theorem stripL_digits (t : Text) (ht : ∀ c ∈ t, isDigit c = true) : stripL t = t := by
  cases t with
  | nil => rfl
  | cons c r =>
    have := isSpace_of_digit (ht c (by simp))
    simp [stripL, this]

theorem strip_digits (t : Text) (ht : ∀ c ∈ t, isDigit c = true) : strip t = t := by
  unfold strip
  rw [stripL_digits t ht, stripL_digits t.reverse (fun c hc => ht c (by simpa using hc))]
  simp

theorem pyInt_digits (t : Text) (ht : ∀ c ∈ t, isDigit c = true) (hne : t ≠ []) :
    pyInt t = some (Int.ofNat (foldDec 0 t)) := by
  unfold pyInt
  rw [strip_digits t ht]
  cases t with
  | nil => exact absurd rfl hne
  | cons c r =>
    have hc : isDigit c = true := ht c (by simp)
    have h43 : c ≠ 43 := by intro h; subst h; simp [isDigit] at hc
    have h45 : c ≠ 45 := by intro h; subst h; simp [isDigit] at hc
    split
    · next heq => injection heq with h1 _; exact absurd h1.symm (by omega)
    · next heq => injection heq with h1 _; exact absurd h1.symm (by omega)
    · rw [pyIntNat_digits _ ht hne]; rfl

/-- `int(b'%d' % n) = n`. -/
theorem pyInt_decNat (n : Nat) : pyInt (decNat n) = some (Int.ofNat n) := by
  rw [pyInt_digits _ (decNat_digits n) (decNat_ne_nil n), foldDec_decNat]

theorem pyInt_fmtD_ofNat (n : Nat) : pyInt (fmtD (Int.ofNat n)) = some (Int.ofNat n) :=
  pyInt_decNat n

/-! ### `split` -/

theorem breakAt_none (sep : Nat) (a : Text) (h : sep ∉ a) : breakAt sep a = none := by
  induction a with
  | nil => rfl
  | cons c r ih =>
    have hc : c ≠ sep := by intro e; exact h (by simp [e])
    simp [breakAt, hc, ih (fun hm => h (by simp [hm]))]

theorem breakAt_append (sep : Nat) (a b : Text) (h : sep ∉ a) :
    breakAt sep (a ++ sep :: b) = some (a, b) := by
  induction a with
  | nil => simp [breakAt]
  | cons c r ih =>
    have hc : c ≠ sep := by intro e; exact h (by simp [e])
    simp [breakAt, hc, ih (fun hm => h (by simp [hm]))]

theorem splitMax_cons (sep k : Nat) (a b : Text) (h : sep ∉ a) :
    splitMax sep (k + 1) (a ++ sep :: b) = a :: splitMax sep k b := by
  simp [splitMax, breakAt_append sep a b h]

theorem splitMax_last (sep k : Nat) (a : Text) (h : sep ∉ a) : splitMax sep k a = [a] := by
  cases k with
  | zero => rfl
  | succ k => simp [splitMax, breakAt_none sep a h]

theorem joinSep_cons2 (sep : Nat) (t u : Text) (ts : List Text) :
    joinSep sep (t :: u :: ts) = t ++ sep :: joinSep sep (u :: ts) := rfl

theorem joinSep_length (sep : Nat) (ts : List Text) : ts.length ≤ (joinSep sep ts).length + 1 := by
  induction ts with
  | nil => simp
  | cons t ts ih =>
    cases ts with
    | nil => simp
    | cons u us => rw [joinSep_cons2]; simp at ih ⊢; omega

/-- `sep.join(ts).split(sep) == ts` when no part contains the separator. -/
theorem splitMax_join (sep : Nat) (ts : List Text) (hts : ∀ t ∈ ts, sep ∉ t) (hne : ts ≠ []) :
    ∀ k, ts.length ≤ k + 1 → splitMax sep k (joinSep sep ts) = ts := by
  induction ts with
  | nil => exact absurd rfl hne
  | cons t ts ih =>
    intro k hk
    cases ts with
    | nil => exact splitMax_last sep k t (hts t (by simp))
    | cons u us =>
      rw [joinSep_cons2]
      cases k with
      | zero => simp at hk
      | succ k =>
        rw [splitMax_cons sep k _ _ (hts t (by simp))]
        rw [ih (fun x hx => hts x (by simp [hx])) (by simp) k (by simp at hk ⊢; omega)]

theorem splitAll_join (sep : Nat) (ts : List Text) (hts : ∀ t ∈ ts, sep ∉ t) (hne : ts ≠ []) :
    splitAll sep (joinSep sep ts) = ts :=
  splitMax_join sep ts hts hne _ (joinSep_length sep ts)

/-! ### dotted quads -/

theorem strV4_eq_join (a b c d : Nat) :
    strV4 a b c d = joinSep 46 [decNat a, decNat b, decNat c, decNat d] := rfl

theorem not_mem_of_digits {t : Text} (ht : ∀ c ∈ t, isDigit c = true) {x : Nat}
    (hx : isDigit x = false) : x ∉ t := by
  intro hm; rw [ht x hm] at hx; cases hx

theorem decNat_byte (a : Nat) (h : a < 256) :
    decNat a = if a < 10 then [48 + a] else if a < 100 then [48 + a / 10, 48 + a % 10]
      else [48 + a / 100, 48 + a / 10 % 10, 48 + a % 10] := by
  by_cases h1 : a < 10
  · simp [h1, decNat_lt a h1]
  · by_cases h2 : a < 100
    · rw [decNat_ge a (by omega), decNat_lt (a / 10) (by omega)]; simp [h1, h2]
    · rw [decNat_ge a (by omega), decNat_ge (a / 10) (by omega), decNat_lt (a / 10 / 10) (by omega)]
      simp [h1, h2]; omega

theorem parseOctet_decNat (a : Nat) (h : a < 256) : parseOctet (decNat a) = some a := by
  rw [decNat_byte a h]
  by_cases h1 : a < 10
  · simp [h1, parseOctet, isDigit, digitsVal]; omega
  · by_cases h2 : a < 100
    · simp [h1, h2, parseOctet, isDigit, digitsVal]
      omega
    · simp [h1, h2, parseOctet, isDigit, digitsVal]
      omega

/-- `inet_pton(AF_INET, inet_ntoa(x)) = x`: parse ∘ print is the identity on dotted quads. -/
theorem parseV4_strV4 (a b c d : Nat) (ha : a < 256) (hb : b < 256) (hc : c < 256) (hd : d < 256) :
    parseV4 (strV4 a b c d) = some (a, b, c, d) := by
  unfold parseV4
  rw [strV4_eq_join, splitAll_join 46 _ (by
    intro t ht
    simp at ht
    rcases ht with rfl | rfl | rfl | rfl <;> exact not_mem_of_digits (decNat_digits _) (by decide)) (by simp)]
  simp [parseOctet_decNat, ha, hb, hc, hd]

/-- Characters of a dotted quad: digits and dots. -/
theorem strV4_alphabet (a b c d : Nat) : ∀ x ∈ strV4 a b c d, isDigit x = true ∨ x = 46 := by
  intro x hx
  simp only [strV4, List.mem_append, List.mem_cons] at hx
  rcases hx with h | h | h | h | h | h | h
  · exact Or.inl (decNat_digits _ x h)
  · exact Or.inr h
  · exact Or.inl (decNat_digits _ x h)
  · exact Or.inr h
  · exact Or.inl (decNat_digits _ x h)
  · exact Or.inr h
  · exact Or.inl (decNat_digits _ x h)

/-! ### CONNECT / UDP header codecs -/

theorem isAscii_iff (t : Text) : isAscii t = true ↔ ∀ c ∈ t, c < 128 := by
  simp [isAscii, List.all_eq_true]

theorem digit_lt_128 {c : Nat} (h : isDigit c = true) : c < 128 := by
  simp [isDigit] at h; omega

theorem newChannel_encode (fam : Nat) (ip : Text) (port : Nat)
    (hcomma : 44 ∉ ip) (hascii : isAscii ip = true) :
    newChannel (encodeConnect fam ip (Int.ofNat port)) =
      .ok (if fam = Gen.C05.AF_INET then Gen.C05.AF_INET else Gen.C05.AF_INET6) ip (Int.ofNat port) := by
  have hasc : isAscii (encodeConnect fam ip (Int.ofNat port)) = true := by
    rw [isAscii_iff] at hascii ⊢
    intro c hc
    simp only [encodeConnect, fmtD, List.mem_append, List.mem_cons] at hc
    rcases hc with h | h | h | h | h
    · exact digit_lt_128 (decNat_digits _ c h)
    · omega
    · exact hascii c h
    · omega
    · exact digit_lt_128 (decNat_digits _ c h)
  unfold newChannel
  rw [hasc]
  simp only [↓reduceIte]
  have hsplit : splitMax 44 2 (encodeConnect fam ip (Int.ofNat port)) = [decNat fam, ip, decNat port] := by
    unfold encodeConnect
    rw [splitMax_cons 44 1 _ _ (not_mem_of_digits (decNat_digits _) (by decide)),
        splitMax_cons 44 0 _ _ hcomma]
    rfl
  rw [hsplit]
  simp only [pyInt_decNat]
  by_cases hf : fam = Gen.C05.AF_INET
  · subst hf; simp
  · have : Int.ofNat fam ≠ Int.ofNat Gen.C05.AF_INET := by
      intro h; exact hf (Int.ofNat.inj h)
    simp [hf]
    intro h; omega

theorem udpReq_encode (ip : Text) (port : Nat) (data : Bytes) (hcomma : 44 ∉ ip) :
    udpReq (encodeUdp ip (Int.ofNat port) data) = .ok ip (Int.ofNat port) data := by
  unfold udpReq
  have hsplit : splitMax 44 2 (encodeUdp ip (Int.ofNat port) data) = [ip, decNat port, data] := by
    unfold encodeUdp
    rw [splitMax_cons 44 1 _ _ hcomma]
    simp only [fmtD]
    rw [splitMax_cons 44 0 _ _ (not_mem_of_digits (decNat_digits _) (by decide))]
    rfl
  rw [hsplit]
  simp [pyInt_decNat]

end Sshuttle.Dst
