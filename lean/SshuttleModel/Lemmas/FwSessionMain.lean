/-
firewall.main for the nat method: the `try` body leaves, under any fault schedule and for any
dialogue, a configuration that is the initial one with a `Partial` view per family laid over it;
the `finally` block, if its own commands behave naturally, removes both views.
-/
import SshuttleModel.Lemmas.FwSessionNatProc

namespace Sshuttle.Fw

/-- The fault schedule is the same and the command counter did not go back. -/
structure SameSched (e e' : Env) : Prop where
  fail : e'.fail = e.fail
  count : e.count ≤ e'.count

theorem SameRun.sched {e e' : Env} (h : SameRun e e') : SameSched e e' := ⟨h.fail, h.count⟩
theorem SameSched.refl (e : Env) : SameSched e e := ⟨rfl, Nat.le_refl _⟩
theorem SameSched.trans {a b c : Env} (h1 : SameSched a b) (h2 : SameSched b c) : SameSched a c :=
  ⟨h2.fail.trans h1.fail, Nat.le_trans h1.count h2.count⟩
theorem NoFault.of_sameSched {e e' : Env} (h : NoFault e) (s : SameSched e e') : NoFault e' := by
  intro i hi
  rw [s.fail]
  exact h i (Nat.le_trans s.count hi)

theorem putNat_comm (p6 p4 : Nat) (o : Opts) (s : FwState) (v6 v4 : NatView) :
    putNat .v4 p4 o (putNat .v6 p6 o s v6) v4 = putNat .v6 p6 o (putNat .v4 p4 o s v4) v6 := by
  refine FwState.ext' ?_ rfl rfl
  funext f' t'
  cases f' <;> cases t' <;> simp [putNat]

theorem natFresh_put_other {f f' : Fam} (hne : f ≠ f') {p p' : Nat} {o o' : Opts} {s : FwState}
    (v' : NatView) (h : NatFresh f p o s) : NatFresh f p o (putNat f' p' o' s v') := by
  have e1 : ∀ t, (putNat f' p' o' s v').ipt f t = s.ipt f t :=
    fun t => putNat_ipt_other_fam f' p' o' s v' f t hne
  exact ⟨by rw [e1]; exact h.noChain, by rw [e1]; exact h.noRef, by rw [e1]; exact h.noMark⟩

theorem waitLoop_st (rest : List Line) (l : Locals) (e : Env) :
    (waitLoop rest l e).2.2.st = e.st ∧ SameSched e (waitLoop rest l e).2.2 := by
  induction rest generalizing l e with
  | nil => exact ⟨rfl, SameSched.refl e⟩
  | cons ln rest ih =>
    cases ln with
    | host name ip =>
      simp only [waitLoop]
      have := ih { l with hostmap := hostmapSet l.hostmap name ip }
        (rewriteHosts (hostmapSet l.hostmap name ip) e)
      exact ⟨this.1, ⟨this.2.fail, this.2.count⟩⟩
    | _ => exact ⟨rfl, SameSched.refl e⟩

theorem flushDns_st (c : Config) (e : Env) :
    (flushDns c e).1 = none ∧ (flushDns c e).2.st = e.st ∧ SameRun e (flushDns c e).2 := by
  unfold flushDns
  split
  · unfold cmdN
    obtain ⟨hs, hc⟩ := exec_cases .resolvectl e
    refine ⟨rfl, ?_, hs⟩
    rcases hc with ⟨_, h⟩ | ⟨_, h⟩
    · exact h
    · simp only [FwState.apply] at h; injection h with h; exact h.symm
  · exact ⟨rfl, rfl, SameRun.refl e⟩

/-- What the `try` body of a nat session can leave behind. -/
def NatMid (h : Hdr) (s0 st : FwState) : Prop :=
  ∃ v6 v4, NatPartial h.opts v6 ∧ NatPartial h.opts v4 ∧
    (h.has6 = false → v6 = NatView.empty) ∧ (h.has4 = false → v4 = NatView.empty) ∧
    st = putNat .v4 h.port4 h.opts (putNat .v6 h.port6 h.opts s0 v6) v4

theorem natPartial_empty (o : Opts) : NatPartial o NatView.empty :=
  ⟨fun _ => ⟨rfl, rfl, rfl⟩, fun _ => rfl⟩

section
variable {c : Config} {h : Hdr} {s0 : FwState}
variable (hm : c.method = .nat)
variable (h6 : h.has6 = true → NatFresh .v6 h.port6 h.opts s0)
variable (h4 : h.has4 = true → NatFresh .v4 h.port4 h.opts s0)

include hm h6 h4 in
/-- Set-up, DNS flush and wait loop under an arbitrary fault schedule. -/
theorem tryBody_nat (rest : List Line) (l : Locals) (e : Env) (he : e.st = s0) :
    NatMid h s0 (tryBody c h rest l e).2.2.st ∧ SameSched e (tryBody c h rest l e).2.2 := by
  unfold tryBody SProc.seq
  -- IPv6 set-up
  have step6 : ∃ v6, NatPartial h.opts v6 ∧ (h.has6 = false → v6 = NatView.empty) ∧
      ((SProc.when h.has6 (setupFw c.method (c.plan6 h) h.opts)) l e).2.2.st =
        putNat .v6 h.port6 h.opts s0 v6 ∧
      SameSched e ((SProc.when h.has6 (setupFw c.method (c.plan6 h) h.opts)) l e).2.2 := by
    unfold SProc.when
    cases hh : h.has6 with
    | false =>
      exact ⟨NatView.empty, natPartial_empty _, fun _ => rfl, by simp [he], SameSched.refl e⟩
    | true =>
      simp only [if_true, hm, setupFw, liftProc]
      have := natSetup_hoare (h6 hh) (c.plan6 h) rfl rfl e he
      obtain ⟨hs, hpost⟩ := this
      have hinv : NatInv .v6 h.port6 h.opts s0 (natSetup (c.plan6 h) h.opts e).2.st := by
        cases hr : (natSetup (c.plan6 h) h.opts e).1 <;> rw [hr] at hpost <;> exact hpost
      obtain ⟨v6, hp, hst⟩ := hinv
      exact ⟨v6, hp, (fun hf => Bool.noConfusion hf), hst, hs.sched⟩
  obtain ⟨v6, hp6, hv6, hst6, hs6⟩ := step6
  cases hr6 : (SProc.when h.has6 (setupFw c.method (c.plan6 h) h.opts)) l e with
  | mk r6 le6 =>
    obtain ⟨l6, e6⟩ := le6
    rw [hr6] at hst6 hs6
    simp only at hst6 hs6
    have mid6 : NatMid h s0 e6.st :=
      ⟨v6, NatView.empty, hp6, natPartial_empty _, hv6, fun _ => rfl, by rw [putNat_empty]; exact hst6⟩
    cases r6 with
    | some x => exact ⟨mid6, hs6⟩
    | none =>
      simp only
      -- IPv4 set-up over the base `putNat v6 …`
      have step4 : ∃ v4, NatPartial h.opts v4 ∧ (h.has4 = false → v4 = NatView.empty) ∧
          ((SProc.when h.has4 (setupFw c.method (c.plan4 h) h.opts)) l6 e6).2.2.st =
            putNat .v4 h.port4 h.opts (putNat .v6 h.port6 h.opts s0 v6) v4 ∧
          SameSched e6 ((SProc.when h.has4 (setupFw c.method (c.plan4 h) h.opts)) l6 e6).2.2 := by
        unfold SProc.when
        cases hh : h.has4 with
        | false =>
          exact ⟨NatView.empty, natPartial_empty _, fun _ => rfl, by simp [hst6], SameSched.refl e6⟩
        | true =>
          simp only [if_true, hm, setupFw, liftProc]
          have hfr := natFresh_put_other (f := .v4) (f' := .v6) (by decide) (p' := h.port6) (o' := h.opts) v6 (h4 hh)
          have := natSetup_hoare hfr (c.plan4 h) rfl rfl e6 hst6
          obtain ⟨hs, hpost⟩ := this
          have hinv : NatInv .v4 h.port4 h.opts (putNat .v6 h.port6 h.opts s0 v6)
              (natSetup (c.plan4 h) h.opts e6).2.st := by
            cases hr : (natSetup (c.plan4 h) h.opts e6).1 <;> rw [hr] at hpost <;> exact hpost
          obtain ⟨v4, hp, hst⟩ := hinv
          exact ⟨v4, hp, (fun hf => Bool.noConfusion hf), hst, hs.sched⟩
      obtain ⟨v4, hp4, hv4, hst4, hs4⟩ := step4
      cases hr4 : (SProc.when h.has4 (setupFw c.method (c.plan4 h) h.opts)) l6 e6 with
      | mk r4 le4 =>
        obtain ⟨l4, e4⟩ := le4
        rw [hr4] at hst4 hs4
        simp only at hst4 hs4
        have mid4 : NatMid h s0 e4.st := ⟨v6, v4, hp6, hp4, hv6, hv4, hst4⟩
        cases r4 with
        | some x => exact ⟨mid4, hs6.trans hs4⟩
        | none =>
          simp only [liftProc]
          obtain ⟨f1, f2, f3⟩ := flushDns_st c e4
          rw [f1]
          simp only
          split
          · exact ⟨by rw [f2]; exact mid4, (hs6.trans hs4).trans f3.sched⟩
          · obtain ⟨w1, w2⟩ := waitLoop_st rest l4 (flushDns c e4).2
            exact ⟨by rw [w1, f2]; exact mid4, ((hs6.trans hs4).trans f3.sched).trans w2⟩

include hm h6 h4 in
/-- The `finally` block with naturally behaving commands removes whatever the `try` body left. -/
theorem finallyBody_nat (hu : h.opts.udp = false) (l : Locals) (e : Env) (hN : NoFault e)
    (hmid : NatMid h s0 e.st) : (finallyBody c h l e).2.st = s0 := by
  obtain ⟨v6, v4, hp6, hp4, hv6, hv4, hst⟩ := hmid
  unfold finallyBody guarded
  -- IPv6 tear-down
  have step6 : ((SProc.when h.has6 (restoreFw c.method (c.plan6 h) h.opts)) l e).2.2.st =
        putNat .v4 h.port4 h.opts s0 v4 ∧
      NoFault ((SProc.when h.has6 (restoreFw c.method (c.plan6 h) h.opts)) l e).2.2 := by
    unfold SProc.when
    cases hh : h.has6 with
    | false =>
      have := hv6 hh
      subst this
      simp only [Bool.false_eq_true, if_false]
      exact ⟨by rw [hst, putNat_empty], hN⟩
    | true =>
      simp only [if_true, hm, restoreFw, liftProc]
      have hfr := natFresh_put_other (f := .v6) (f' := .v4) (by decide) (p' := h.port4) (o' := h.opts) v4 (h6 hh)
      rw [putNat_comm] at hst
      have := natRestore_natural hfr (c.plan6 h) rfl rfl hu e hN v6 hp6 hst
      exact ⟨this.1, this.2.1⟩
  obtain ⟨hst6, hN6⟩ := step6
  cases hr6 : (SProc.when h.has6 (restoreFw c.method (c.plan6 h) h.opts)) l e with
  | mk r6 le6 =>
    obtain ⟨l6, e6⟩ := le6
    rw [hr6] at hst6 hN6
    simp only at hst6 hN6 ⊢
    have step4 : ((SProc.when h.has4 (restoreFw c.method (c.plan4 h) h.opts)) l6 e6).2.2.st = s0 ∧
        NoFault ((SProc.when h.has4 (restoreFw c.method (c.plan4 h) h.opts)) l6 e6).2.2 := by
      unfold SProc.when
      cases hh : h.has4 with
      | false =>
        have := hv4 hh
        subst this
        simp only [Bool.false_eq_true, if_false]
        exact ⟨by rw [hst6, putNat_empty], hN6⟩
      | true =>
        simp only [if_true, hm, restoreFw, liftProc]
        have := natRestore_natural (h4 hh) (c.plan4 h) rfl rfl hu e6 hN6 v4 hp4 hst6
        exact ⟨this.1, this.2.1⟩
    obtain ⟨hst4, hN4⟩ := step4
    cases hr4 : (SProc.when h.has4 (restoreFw c.method (c.plan4 h) h.opts)) l6 e6 with
    | mk r4 le4 =>
      obtain ⟨l4, e4⟩ := le4
      rw [hr4] at hst4 hN4
      simp only at hst4 hN4 ⊢
      have hh : (restoreHosts l4 e4).2.2.st = e4.st := by
        unfold restoreHosts; split <;> rfl
      simp only [liftProc]
      rw [(flushDns_st c _).2.1, hh, hst4]

end

end Sshuttle.Fw
