/-
Helper lemmas for C10/C11: association lists, decimal text, the `ip,port,` header.
-/
import SshuttleModel.Code.DgramSys

namespace Sshuttle.Dgram

/-! ### decimal text -/

theorem decRev_digits (n : Nat) : ∀ d ∈ decRev n, 48 ≤ d ∧ d ≤ 57 := by
  induction n using Nat.strongRecOn with
  | _ n ih =>
    intro d hd
    unfold decRev at hd
    split at hd
    · simp at hd; omega
    · simp only [List.mem_cons] at hd
      rcases hd with rfl | hd
      · omega
      · exact ih (n / 10) (by omega) d hd

theorem decRev_ne_nil (n : Nat) : decRev n ≠ [] := by
  unfold decRev; split <;> simp

theorem undecRev_decRev (n : Nat) : undecRev (decRev n) = n := by
  induction n using Nat.strongRecOn with
  | _ n ih =>
    unfold decRev
    split
    · simp [undecRev]
    · simp only [undecRev]
      rw [ih (n / 10) (by omega)]
      omega

theorem dec_digits (n : Nat) : ∀ d ∈ dec n, 48 ≤ d ∧ d ≤ 57 := by
  intro d hd
  exact decRev_digits n d (by simpa [dec] using hd)

theorem comma_not_mem_dec (n : Nat) : comma ∉ dec n := by
  intro h
  have := dec_digits n comma h
  simp [comma] at this

theorem parseDec_dec (n : Nat) : parseDec (dec n) = some n := by
  unfold parseDec
  have h1 : (dec n).isEmpty = false := by
    simp [dec, decRev_ne_nil]
  have h2 : (dec n).all isDigit = true := by
    rw [List.all_eq_true]
    intro d hd
    have := dec_digits n d hd
    simp [isDigit]; omega
  rw [if_neg (by simp [h1, h2])]
  simp [dec, undecRev_decRev]

/-! ### splitting at commas -/

theorem splitComma_append (a r : Bytes) (h : comma ∉ a) :
    splitComma (a ++ comma :: r) = some (a, r) := by
  induction a with
  | nil => simp [splitComma]
  | cons b a ih =>
    have hb : b ≠ comma := fun e => h (by simp [e])
    have ha : comma ∉ a := fun e => h (by simp [e])
    simp [splitComma, hb, ih ha]

theorem split2_mkHdr (ip : Bytes) (port : Nat) (data : Bytes) (h : comma ∉ ip) :
    split2 (mkHdr ip port ++ data) = some (ip, dec port, data) := by
  unfold split2 mkHdr
  have e : ip ++ [comma] ++ dec port ++ [comma] ++ data = ip ++ comma :: (dec port ++ comma :: data) := by
    simp
  rw [e, splitComma_append _ _ h]
  simp only
  rw [splitComma_append _ _ (comma_not_mem_dec port)]

/-! ### association lists -/

section assoc
variable {κ ν : Type} [DecidableEq κ]

theorem hasKey_eq_false_iff (k : κ) (l : List (κ × ν)) :
    hasKey k l = false ↔ ∀ p ∈ l, p.1 ≠ k := by
  unfold hasKey
  induction l with
  | nil => simp [lookup]
  | cons p l ih =>
    obtain ⟨k', v⟩ := p
    by_cases h : k' = k
    · simp [lookup, h]
    · simp only [lookup, h, if_false, List.mem_cons, forall_eq_or_imp, ne_eq, not_false_eq_true, true_and]
      exact ih

theorem lookup_mem {k : κ} {v : ν} {l : List (κ × ν)} (h : lookup k l = some v) : (k, v) ∈ l := by
  induction l with
  | nil => simp [lookup] at h
  | cons p l ih =>
    obtain ⟨k', v'⟩ := p
    by_cases e : k' = k
    · simp [lookup, e] at h; simp [e, h]
    · simp [lookup, e] at h; exact List.mem_cons_of_mem _ (ih h)

theorem set_of_not_hasKey (k : κ) (v : ν) (l : List (κ × ν)) (h : hasKey k l = false) :
    set k v l = l ++ [(k, v)] := by
  induction l with
  | nil => rfl
  | cons p l ih =>
    obtain ⟨k', v'⟩ := p
    have h' := (hasKey_eq_false_iff k _).1 h
    have hk : k' ≠ k := h' (k', v') (by simp)
    have hl : hasKey k l = false := (hasKey_eq_false_iff k l).2 fun p hp => h' p (List.mem_cons_of_mem _ hp)
    simp [set, hk, ih hl]

theorem mem_set {k : κ} {v : ν} {l : List (κ × ν)} {p : κ × ν} (h : p ∈ set k v l) :
    p = (k, v) ∨ p ∈ l := by
  induction l with
  | nil => simp [set] at h; exact Or.inl h
  | cons q l ih =>
    obtain ⟨k', v'⟩ := q
    by_cases e : k' = k
    · simp [set, e] at h
      rcases h with h | h
      · exact Or.inl h
      · exact Or.inr (List.mem_cons_of_mem _ h)
    · simp [set, e] at h
      rcases h with h | h
      · exact Or.inr (by simp [h])
      · rcases ih h with h | h
        · exact Or.inl h
        · exact Or.inr (List.mem_cons_of_mem _ h)

theorem erase_sublist (k : κ) (l : List (κ × ν)) : (erase k l).Sublist l := by
  unfold erase; exact List.filter_sublist

theorem mem_erase {k : κ} {l : List (κ × ν)} {p : κ × ν} : p ∈ erase k l ↔ p ∈ l ∧ p.1 ≠ k := by
  simp [erase, List.mem_filter]

theorem hasKey_erase_self (k : κ) (l : List (κ × ν)) : hasKey k (erase k l) = false := by
  rw [hasKey_eq_false_iff]
  intro p hp
  exact (mem_erase.1 hp).2

end assoc

theorem nextChannel_free (maxCh : Nat) (chans : List (Nat × Cb)) (fuel chani : Nat) {c' c : Nat}
    (h : nextChannel maxCh chans fuel chani = (c', some c)) : hasKey c chans = false ∧ c' = c := by
  induction fuel generalizing chani with
  | zero => simp [nextChannel] at h
  | succ fuel ih =>
    simp only [nextChannel] at h
    by_cases hk : hasKey (if chani + 1 > maxCh then 1 else chani + 1) chans = true
    · rw [if_pos hk] at h
      exact ih _ h
    · rw [if_neg hk] at h
      simp only [Prod.mk.injEq, Option.some.injEq] at h
      obtain ⟨h1, h2⟩ := h
      subst h2
      exact ⟨by simpa using hk, h1.symm⟩

theorem delChans_sublist {ks : List Nat} {ch ch' : List (Nat × Cb)} (h : delChans ks ch = .ok ch') :
    ch'.Sublist ch := by
  induction ks generalizing ch with
  | nil => simp [delChans] at h; subst h; exact List.Sublist.refl _
  | cons k ks ih =>
    simp only [delChans] at h
    split at h
    · exact (ih h).trans (erase_sublist k ch)
    · cases h

theorem delChans_keeps {ks : List Nat} {ch ch' : List (Nat × Cb)} (h : delChans ks ch = .ok ch')
    {p : Nat × Cb} (hp : p ∈ ch) (hk : p.1 ∉ ks) : p ∈ ch' := by
  induction ks generalizing ch with
  | nil => simp [delChans] at h; subst h; exact hp
  | cons k ks ih =>
    simp only [delChans] at h
    split at h
    · exact ih h (mem_erase.2 ⟨hp, fun e => hk (by simp [e])⟩) (fun e => hk (List.mem_cons_of_mem _ e))
    · cases h

theorem delChans_removes {ks : List Nat} {ch ch' : List (Nat × Cb)} (h : delChans ks ch = .ok ch')
    {k : Nat} (hk : k ∈ ks) : hasKey k ch' = false := by
  induction ks generalizing ch with
  | nil => cases hk
  | cons k0 ks ih =>
    simp only [delChans] at h
    split at h
    · rcases List.mem_cons.1 hk with rfl | hk'
      · rw [hasKey_eq_false_iff]
        intro p hp
        have := (delChans_sublist h).subset hp
        exact (mem_erase.1 this).2
      · exact ih h hk'
    · cases h

theorem expire_ok {now : Nat} {c c' : Client} {fr : List Frame} (h : expire now c = .ok (c', fr)) :
    c'.chans.Sublist c.chans ∧ c'.nq = c.nq ∧ c'.chani = c.chani ∧
    c'.dnsreqs = c.dnsreqs.filter (fun p => ¬ p.2 < now) ∧
    c'.udpBySrc = c.udpBySrc.filter (fun p => ¬ p.2.2 < now) ∧
    fr = (c.udpBySrc.filter fun p => p.2.2 < now).map (fun p => ⟨p.2.1, CMD_UDP_CLOSE, []⟩) ∧
    (∀ p ∈ c.chans, p.1 ∉ (c.dnsreqs.filter fun q => q.2 < now).map (·.1) →
        p.1 ∉ (c.udpBySrc.filter fun q => q.2.2 < now).map (·.2.1) → p ∈ c'.chans) ∧
    (∀ k ∈ (c.dnsreqs.filter fun q => q.2 < now).map (·.1), hasKey k c'.chans = false) ∧
    (∀ k ∈ (c.udpBySrc.filter fun q => q.2.2 < now).map (·.2.1), hasKey k c'.chans = false) := by
  unfold expire at h
  simp only at h
  split at h
  · cases h
  · next ch1 h1 =>
    split at h
    · cases h
    · next ch2 h2 =>
      simp only [Except.ok.injEq, Prod.mk.injEq] at h
      obtain ⟨hc, hf⟩ := h
      subst hc hf
      refine ⟨(delChans_sublist h2).trans (delChans_sublist h1), rfl, rfl, rfl, rfl, rfl, ?_, ?_, ?_⟩
      · intro p hp hd hu
        exact delChans_keeps h2 (delChans_keeps h1 hp hd) hu
      · intro k hk
        rw [hasKey_eq_false_iff]
        intro p hp
        have h3 := (hasKey_eq_false_iff k ch1).1 (delChans_removes h1 hk)
        exact h3 p ((delChans_sublist h2).subset hp)
      · intro k hk
        exact delChans_removes h2 hk

end Sshuttle.Dgram
