/-
tproxy method: `restore_firewall` block by block (mark chain, tproxy chain, divert chain) under
naturally behaving commands, `setup_firewall` under any fault schedule, and the method as `Layers`.
-/
import SshuttleModel.Lemmas.FwSessionTproxyProc

namespace Sshuttle.Fw

section
variable {f : Fam} {p : Nat} {s : FwState} (hF : TpFresh f p s)

include hF in
/-- `-F c; -X c` (the `-F` wrapped in nonfatal) on one of our chains that nothing refers to. -/
theorem tp_tail (k : Kind) (w : TpView) (_hO : OwnNames p w.own)
    (hhas : Table.has w.own (.own k p) = true)
    (hnoref : ∀ ch ∈ w.own, ∀ r ∈ ch.rules, r.tgt ≠ .chain (.own k p))
    (hout : k = .mark → w.out = false) (hpre : k = .tproxy → w.pre = false) :
    runNat [ (true, Cmd.ipt f .mangle (.flush (.own k p))),
             (false, .ipt f .mangle (.delChain (.own k p))) ] (putTp f p s w) =
      (none, putTp f p s { w with own := w.own.filter fun ch => decide (ch.name ≠ .own k p) }) := by
  rw [runNat_nf, tp_lift_getD f p s w { w with own := Table.modify w.own (.own k p) fun _ => [] } _
        (by rw [tp_apply_flush hF.noChain, hhas]; rfl)]
  simp only [runNat]
  have hdel := tp_apply_delChain (T := s.ipt f .mangle) hF.noChain hF.noRef
    { w with own := Table.modify w.own (.own k p) fun _ => [] } k
    (by rw [Table.has_modify]; exact hhas)
    (by
      intro ch hch hn
      have hch' : ch ∈ Table.modify w.own (.own k p) (fun _ => []) := hch
      obtain ⟨ch0, _, hn0, hc⟩ := mem_modify hch'
      rcases hc with ⟨_, hrs⟩ | ⟨hne, rfl⟩
      · exact hrs
      · exact absurd hn hne)
    (by
      intro ch hch r hr
      have hch' : ch ∈ Table.modify w.own (.own k p) (fun _ => []) := hch
      obtain ⟨ch0, h0, _, hc⟩ := mem_modify hch'
      rcases hc with ⟨_, hrs⟩ | ⟨_, rfl⟩
      · rw [hrs] at hr; cases hr
      · exact hnoref ch h0 r hr)
    hout hpre
  rw [tp_op, hdel]
  simp only [Option.map_some, Table.filter_modify]
  rfl

theorem view_eq {a b : TpView} (h1 : a.out = b.out) (h2 : a.pre = b.pre) (h3 : a.own = b.own) : a = b := by
  cases a; cases b; simp_all

include hF in
/-- The mark-chain block of `restore_firewall`. -/
theorem tp_block_mark (v : TpView) (hv : TpOk p v) (e : Env) (hN : NoFault e) (he : e.st = putTp f p s v) :
    let r := ifChain f .mangle (.own .mark p) (steps
      [ (Gen.C04.TPROXY_RESTORE_NONFATAL_D, Cmd.ipt f .mangle (.delete OUTPUT (tpJumpMark p))),
        (Gen.C04.TPROXY_RESTORE_NONFATAL_F, .ipt f .mangle (.flush (.own .mark p))),
        (Gen.C04.TPROXY_RESTORE_NONFATAL_X, .ipt f .mangle (.delChain (.own .mark p))) ]) e
    r.1 = none ∧ NoFault r.2 ∧
    r.2.st = putTp f p s ⟨false, v.pre, v.own.filter fun ch => decide (ch.name ≠ .own .mark p)⟩ := by
  intro r
  have hD : Gen.C04.TPROXY_RESTORE_NONFATAL_D = true := by decide
  have hFl : Gen.C04.TPROXY_RESTORE_NONFATAL_F = true := by decide
  have hX : Gen.C04.TPROXY_RESTORE_NONFATAL_X = false := by decide
  obtain ⟨e1, h1, hN1, heq⟩ := ifChain_natural f .mangle (.own .mark p) (steps
      [ (Gen.C04.TPROXY_RESTORE_NONFATAL_D, Cmd.ipt f .mangle (.delete OUTPUT (tpJumpMark p))),
        (Gen.C04.TPROXY_RESTORE_NONFATAL_F, .ipt f .mangle (.flush (.own .mark p))),
        (Gen.C04.TPROXY_RESTORE_NONFATAL_X, .ipt f .mangle (.delChain (.own .mark p))) ]) e hN
  have hhas : (e.st.ipt f .mangle).has (.own .mark p) = Table.has v.own (.own .mark p) := by
    rw [he, putTp_mangle, buildTp_has_own hF.noChain]
  show (r.1 = none ∧ NoFault r.2 ∧ r.2.st = _)
  have hr : r = _ := heq
  rw [hr, hhas]
  cases hh : Table.has v.own (.own .mark p) with
  | false =>
    simp only [Bool.false_eq_true, if_false]
    refine ⟨trivial, hN1, ?_⟩
    rw [h1, he]
    congr 1
    apply view_eq
    · cases ho : v.out with
      | false => rfl
      | true => rw [hv.outHas ho] at hh; cases hh
    · rfl
    · exact (Table.filter_of_not_has _ _ hh).symm
  | true =>
    simp only [if_true]
    obtain ⟨s1, s2, s3, _⟩ := steps_natural
      [ (Gen.C04.TPROXY_RESTORE_NONFATAL_D, Cmd.ipt f .mangle (.delete OUTPUT (tpJumpMark p))),
        (Gen.C04.TPROXY_RESTORE_NONFATAL_F, .ipt f .mangle (.flush (.own .mark p))),
        (Gen.C04.TPROXY_RESTORE_NONFATAL_X, .ipt f .mangle (.delChain (.own .mark p))) ] e1 hN1
    rw [s1, s2, h1, he, hD, hFl, hX]
    rw [runNat_nf, tp_lift_getD f p s v { v with out := false } _
          (tp_delete_out hF.noRef v hv.ownNames)]
    have := tp_tail hF .mark { v with out := false } hv.ownNames hh
      (fun ch hch r hr => (hv.rules ch hch r hr).1) (fun _ => rfl) (fun h => by cases h)
    rw [this]
    exact ⟨rfl, s3, rfl⟩

include hF in
/-- The tproxy-chain block of `restore_firewall`. -/
theorem tp_block_tproxy (v : TpView) (hv : TpOk p v) (e : Env) (hN : NoFault e) (he : e.st = putTp f p s v) :
    let r := ifChain f .mangle (.own .tproxy p) (steps
      [ (Gen.C04.TPROXY_RESTORE_NONFATAL_D, Cmd.ipt f .mangle (.delete PREROUTING (tpJumpTproxy p))),
        (Gen.C04.TPROXY_RESTORE_NONFATAL_F, .ipt f .mangle (.flush (.own .tproxy p))),
        (Gen.C04.TPROXY_RESTORE_NONFATAL_X, .ipt f .mangle (.delChain (.own .tproxy p))) ]) e
    r.1 = none ∧ NoFault r.2 ∧
    r.2.st = putTp f p s ⟨v.out, false, v.own.filter fun ch => decide (ch.name ≠ .own .tproxy p)⟩ := by
  intro r
  have hD : Gen.C04.TPROXY_RESTORE_NONFATAL_D = true := by decide
  have hFl : Gen.C04.TPROXY_RESTORE_NONFATAL_F = true := by decide
  have hX : Gen.C04.TPROXY_RESTORE_NONFATAL_X = false := by decide
  obtain ⟨e1, h1, hN1, heq⟩ := ifChain_natural f .mangle (.own .tproxy p) (steps
      [ (Gen.C04.TPROXY_RESTORE_NONFATAL_D, Cmd.ipt f .mangle (.delete PREROUTING (tpJumpTproxy p))),
        (Gen.C04.TPROXY_RESTORE_NONFATAL_F, .ipt f .mangle (.flush (.own .tproxy p))),
        (Gen.C04.TPROXY_RESTORE_NONFATAL_X, .ipt f .mangle (.delChain (.own .tproxy p))) ]) e hN
  have hhas : (e.st.ipt f .mangle).has (.own .tproxy p) = Table.has v.own (.own .tproxy p) := by
    rw [he, putTp_mangle, buildTp_has_own hF.noChain]
  show (r.1 = none ∧ NoFault r.2 ∧ r.2.st = _)
  have hr : r = _ := heq
  rw [hr, hhas]
  cases hh : Table.has v.own (.own .tproxy p) with
  | false =>
    simp only [Bool.false_eq_true, if_false]
    refine ⟨trivial, hN1, ?_⟩
    rw [h1, he]
    congr 1
    apply view_eq
    · rfl
    · cases ho : v.pre with
      | false => rfl
      | true => rw [hv.preHas ho] at hh; cases hh
    · exact (Table.filter_of_not_has _ _ hh).symm
  | true =>
    simp only [if_true]
    obtain ⟨s1, s2, s3, _⟩ := steps_natural
      [ (Gen.C04.TPROXY_RESTORE_NONFATAL_D, Cmd.ipt f .mangle (.delete PREROUTING (tpJumpTproxy p))),
        (Gen.C04.TPROXY_RESTORE_NONFATAL_F, .ipt f .mangle (.flush (.own .tproxy p))),
        (Gen.C04.TPROXY_RESTORE_NONFATAL_X, .ipt f .mangle (.delChain (.own .tproxy p))) ] e1 hN1
    rw [s1, s2, h1, he, hD, hFl, hX]
    rw [runNat_nf, tp_lift_getD f p s v { v with pre := false } _
          (tp_delete_pre hF.noRef v hv.ownNames)]
    have := tp_tail hF .tproxy { v with pre := false } hv.ownNames hh
      (fun ch hch r hr => (hv.rules ch hch r hr).2.1) (fun h => by cases h) (fun _ => rfl)
    rw [this]
    exact ⟨rfl, s3, rfl⟩

include hF in
/-- The divert-chain block: the tproxy chain (the only place that may refer to it) is gone. -/
theorem tp_block_divert (v : TpView) (hv : TpOk p v) (hnot : Table.has v.own (.own .tproxy p) = false)
    (e : Env) (hN : NoFault e) (he : e.st = putTp f p s v) :
    let r := ifChain f .mangle (.own .divert p) (steps
      [ (Gen.C04.TPROXY_RESTORE_NONFATAL_F, Cmd.ipt f .mangle (.flush (.own .divert p))),
        (Gen.C04.TPROXY_RESTORE_NONFATAL_X, .ipt f .mangle (.delChain (.own .divert p))) ]) e
    r.1 = none ∧ NoFault r.2 ∧
    r.2.st = putTp f p s ⟨v.out, v.pre, v.own.filter fun ch => decide (ch.name ≠ .own .divert p)⟩ := by
  intro r
  have hFl : Gen.C04.TPROXY_RESTORE_NONFATAL_F = true := by decide
  have hX : Gen.C04.TPROXY_RESTORE_NONFATAL_X = false := by decide
  obtain ⟨e1, h1, hN1, heq⟩ := ifChain_natural f .mangle (.own .divert p) (steps
      [ (Gen.C04.TPROXY_RESTORE_NONFATAL_F, Cmd.ipt f .mangle (.flush (.own .divert p))),
        (Gen.C04.TPROXY_RESTORE_NONFATAL_X, .ipt f .mangle (.delChain (.own .divert p))) ]) e hN
  have hhas : (e.st.ipt f .mangle).has (.own .divert p) = Table.has v.own (.own .divert p) := by
    rw [he, putTp_mangle, buildTp_has_own hF.noChain]
  show (r.1 = none ∧ NoFault r.2 ∧ r.2.st = _)
  have hr : r = _ := heq
  rw [hr, hhas]
  cases hh : Table.has v.own (.own .divert p) with
  | false =>
    simp only [Bool.false_eq_true, if_false]
    refine ⟨trivial, hN1, ?_⟩
    rw [h1, he]
    congr 1
    exact view_eq rfl rfl (Table.filter_of_not_has _ _ hh).symm
  | true =>
    simp only [if_true]
    obtain ⟨s1, s2, s3, _⟩ := steps_natural
      [ (Gen.C04.TPROXY_RESTORE_NONFATAL_F, Cmd.ipt f .mangle (.flush (.own .divert p))),
        (Gen.C04.TPROXY_RESTORE_NONFATAL_X, .ipt f .mangle (.delChain (.own .divert p))) ] e1 hN1
    rw [s1, s2, h1, he, hFl, hX]
    have := tp_tail hF .divert v hv.ownNames hh
      (fun ch hch r hr e => by
        have hn := (hv.rules ch hch r hr).2.2 e
        have : Table.has v.own (.own .tproxy p) = true := by
          unfold Table.has
          rw [List.any_eq_true]
          exact ⟨ch, hch, by simp [hn]⟩
        rw [hnot] at this; cases this)
      (fun h => by cases h) (fun h => by cases h)
    rw [this]
    exact ⟨rfl, s3, rfl⟩

theorem filter3_nil {own : List Chain}
    (hn : ∀ ch ∈ own, ch.name = .own .mark p ∨ ch.name = .own .divert p ∨ ch.name = .own .tproxy p) :
    ((own.filter fun ch => decide (ch.name ≠ .own .mark p)).filter
        fun ch => decide (ch.name ≠ .own .tproxy p)).filter
      (fun ch => decide (ch.name ≠ .own .divert p)) = [] := by
  rw [List.filter_filter, List.filter_filter, List.filter_eq_nil_iff]
  intro ch hch
  rcases hn ch hch with e | e | e <;> simp [e]

include hF in
/-- **restore_firewall of tproxy undoes every `TpOk` view** when its commands behave naturally. -/
theorem tproxyRestore_natural (pl : FamPlan) (hf : pl.fam = f) (hp : pl.port = p) (o : Opts)
    (e : Env) (hN : NoFault e) (v : TpView) (hv : TpOk p v) (he : e.st = putTp f p s v) :
    (tproxyRestore pl o e).2.st = s ∧ NoFault (tproxyRestore pl o e).2 := by
  subst hf hp
  unfold tproxyRestore Proc.seq
  obtain ⟨a1, a2, a3⟩ := tp_block_mark hF v hv e hN he
  cases hr1 : ifChain pl.fam .mangle (.own .mark pl.port) (steps
      [ (Gen.C04.TPROXY_RESTORE_NONFATAL_D, Cmd.ipt pl.fam .mangle (.delete OUTPUT (tpJumpMark pl.port))),
        (Gen.C04.TPROXY_RESTORE_NONFATAL_F, .ipt pl.fam .mangle (.flush (.own .mark pl.port))),
        (Gen.C04.TPROXY_RESTORE_NONFATAL_X, .ipt pl.fam .mangle (.delChain (.own .mark pl.port))) ]) e with
  | mk r1 e1 =>
    rw [hr1] at a1 a2 a3
    simp only at a1 a2 a3
    subst a1
    simp only
    have hv1 : TpOk pl.port ⟨false, v.pre, v.own.filter fun ch => decide (ch.name ≠ .own .mark pl.port)⟩ :=
      tpOk_filter (tpOk_out hv false (fun h => by cases h)) .mark (fun _ => rfl) (fun h => by cases h)
    obtain ⟨b1, b2, b3⟩ := tp_block_tproxy hF _ hv1 e1 a2 a3
    cases hr2 : ifChain pl.fam .mangle (.own .tproxy pl.port) (steps
        [ (Gen.C04.TPROXY_RESTORE_NONFATAL_D, Cmd.ipt pl.fam .mangle (.delete PREROUTING (tpJumpTproxy pl.port))),
          (Gen.C04.TPROXY_RESTORE_NONFATAL_F, .ipt pl.fam .mangle (.flush (.own .tproxy pl.port))),
          (Gen.C04.TPROXY_RESTORE_NONFATAL_X, .ipt pl.fam .mangle (.delChain (.own .tproxy pl.port))) ]) e1 with
    | mk r2 e2 =>
      rw [hr2] at b1 b2 b3
      simp only at b1 b2 b3
      subst b1
      simp only
      have hv2 : TpOk pl.port ⟨false, false,
          (v.own.filter fun ch => decide (ch.name ≠ .own .mark pl.port)).filter
            fun ch => decide (ch.name ≠ .own .tproxy pl.port)⟩ :=
        tpOk_filter (tpOk_pre hv1 false (fun h => by cases h)) .tproxy (fun h => by cases h) (fun _ => rfl)
      have hnot : Table.has ((v.own.filter fun ch => decide (ch.name ≠ .own .mark pl.port)).filter
            fun ch => decide (ch.name ≠ .own .tproxy pl.port)) (.own .tproxy pl.port) = false := by
        rw [Table.has_filter]; simp
      obtain ⟨c1, c2, c3⟩ := tp_block_divert hF _ hv2 hnot e2 b2 b3
      refine ⟨?_, c2⟩
      rw [c3]
      simp only [filter3_nil hv.names]
      exact putTp_empty _ _ _

theorem tp_op_some (v : TpView) (op : IptOp) (st' : FwState)
    (h : (putTp f p s v).apply (.ipt f .mangle op) = some st') :
    ∃ x, (buildTp p (s.ipt f .mangle) v).apply op = some x ∧ st' = s.setTable f .mangle x := by
  rw [tp_op] at h
  cases hx : (buildTp p (s.ipt f .mangle) v).apply op with
  | none => rw [hx] at h; cases h
  | some x => rw [hx] at h; injection h with h; exact ⟨x, rfl, h.symm⟩

/-- Chains being created, no jump yet. -/
def TpInvA (f : Fam) (p : Nat) (s st : FwState) : Prop :=
  ∃ v, TpOk p v ∧ v.out = false ∧ v.pre = false ∧ st = putTp f p s v

include hF in
theorem tpA_newChain (k : Kind) (hk : TpKind k) (st st' : FwState) (hst : TpInvA f p s st)
    (h : st.apply (.ipt f .mangle (.newChain (.own k p))) = some st') : TpInvA f p s st' := by
  obtain ⟨v, hv, ho, hp, rfl⟩ := hst
  obtain ⟨x, hx, rfl⟩ := tp_op_some v _ st' h
  rw [tp_apply_newChain hF.noChain] at hx
  by_cases hh : Table.has v.own (.own k p) = true
  · simp [hh] at hx
  · simp only [hh, Bool.false_eq_true, if_false, Option.some.injEq] at hx
    exact ⟨_, tpOk_newChain hv k hk, ho, hp, by rw [← hx]; rfl⟩

include hF in
theorem tpA_flush (k : Kind) (st st' : FwState) (hst : TpInvA f p s st)
    (h : st.apply (.ipt f .mangle (.flush (.own k p))) = some st') : TpInvA f p s st' := by
  obtain ⟨v, hv, ho, hp, rfl⟩ := hst
  obtain ⟨x, hx, rfl⟩ := tp_op_some v _ st' h
  rw [tp_apply_flush hF.noChain] at hx
  by_cases hh : Table.has v.own (.own k p) = true
  · simp only [hh, if_true, Option.some.injEq] at hx
    exact ⟨_, tpOk_flush hv _, ho, hp, by rw [← hx]; rfl⟩
  · simp [hh] at hx

include hF in
/-- Whatever fails while `setup_firewall` of tproxy runs (and wherever it stops), what it leaves is
a `TpOk` view over the base configuration. -/
theorem tproxySetup_hoare (pl : FamPlan) (hf : pl.fam = f) (hp : pl.port = p) (o : Opts)
    (hbody : ∀ kr ∈ pl.body, TpBodyOk p kr.1 kr.2) :
    Hoare (fun st => st = s) (tproxySetup pl o) (TpInv f p s) (TpInv f p s) := by
  subst hf hp
  have hbase : ∀ st, st = s → TpInv pl.fam pl.port s st :=
    fun st h => ⟨TpView.empty, tpOk_empty _, by rw [putTp_empty]; exact h⟩
  have habs : ∀ k, (s.ipt pl.fam .mangle).has (.own k pl.port) = false := by
    intro k
    unfold Table.has
    rw [List.any_eq_false]
    intro ch hch
    simpa using hF.noChain ch hch k
  unfold tproxySetup
  apply Hoare.seq (Q := fun st => st = s)
  · -- the initial restore_firewall finds none of our chains
    unfold tproxyRestore
    refine (Hoare.seq (ifChain_absent _ _ _ _ s (habs .mark))
      (Hoare.seq (ifChain_absent _ _ _ _ s (habs .tproxy)) (ifChain_absent _ _ _ _ s (habs .divert)))).weaken
      (fun _ h => h) (fun _ h => h) hbase
  · rw [steps_append]
    have hA0 : ∀ st, st = s → TpInvA pl.fam pl.port s st :=
      fun st h => ⟨TpView.empty, tpOk_empty _, rfl, rfl, by rw [putTp_empty]; exact h⟩
    have hAI : ∀ st, TpInvA pl.fam pl.port s st → TpInv pl.fam pl.port s st :=
      fun st ⟨v, hv, _, _, h⟩ => ⟨v, hv, h⟩
    let IB : FwState → Prop := fun st =>
      ∃ v, TpOk pl.port v ∧ v.pre = false ∧ st = putTp pl.fam pl.port s v
    have hBI : ∀ st, IB st → TpInv pl.fam pl.port s st := fun st ⟨v, hv, _, h⟩ => ⟨v, hv, h⟩
    apply Hoare.seq (Q := TpInv pl.fam pl.port s)
    · have hsplit :
          [ (false, Cmd.ipt pl.fam .mangle (.newChain (.own .mark pl.port))),
            (false, .ipt pl.fam .mangle (.flush (.own .mark pl.port))),
            (false, .ipt pl.fam .mangle (.newChain (.own .divert pl.port))),
            (false, .ipt pl.fam .mangle (.flush (.own .divert pl.port))),
            (false, .ipt pl.fam .mangle (.newChain (.own .tproxy pl.port))),
            (false, .ipt pl.fam .mangle (.flush (.own .tproxy pl.port))),
            (false, .ipt pl.fam .mangle (.insert OUTPUT (tpJumpMark pl.port))),
            (false, .ipt pl.fam .mangle (.insert PREROUTING (tpJumpTproxy pl.port))) ] =
          [ (false, Cmd.ipt pl.fam .mangle (.newChain (.own .mark pl.port))),
            (false, .ipt pl.fam .mangle (.flush (.own .mark pl.port))),
            (false, .ipt pl.fam .mangle (.newChain (.own .divert pl.port))),
            (false, .ipt pl.fam .mangle (.flush (.own .divert pl.port))),
            (false, .ipt pl.fam .mangle (.newChain (.own .tproxy pl.port))),
            (false, .ipt pl.fam .mangle (.flush (.own .tproxy pl.port))) ] ++
          [ (false, .ipt pl.fam .mangle (.insert OUTPUT (tpJumpMark pl.port))),
            (false, .ipt pl.fam .mangle (.insert PREROUTING (tpJumpTproxy pl.port))) ] := rfl
      rw [hsplit, steps_append]
      apply Hoare.seq (Q := TpInvA pl.fam pl.port s)
      · -- -N / -F of the three chains
        have hk : Keeps (TpInvA pl.fam pl.port s) (steps
            [ (false, Cmd.ipt pl.fam .mangle (.newChain (.own .mark pl.port))),
              (false, .ipt pl.fam .mangle (.flush (.own .mark pl.port))),
              (false, .ipt pl.fam .mangle (.newChain (.own .divert pl.port))),
              (false, .ipt pl.fam .mangle (.flush (.own .divert pl.port))),
              (false, .ipt pl.fam .mangle (.newChain (.own .tproxy pl.port))),
              (false, .ipt pl.fam .mangle (.flush (.own .tproxy pl.port))) ]) := by
          apply Keeps.steps
          intro bc hbc st st' hst h
          simp only [List.mem_cons, List.mem_nil_iff, or_false] at hbc
          rcases hbc with rfl | rfl | rfl | rfl | rfl | rfl
          · exact tpA_newChain hF .mark (Or.inl rfl) st st' hst h
          · exact tpA_flush hF .mark st st' hst h
          · exact tpA_newChain hF .divert (Or.inr (Or.inl rfl)) st st' hst h
          · exact tpA_flush hF .divert st st' hst h
          · exact tpA_newChain hF .tproxy (Or.inr (Or.inr rfl)) st st' hst h
          · exact tpA_flush hF .tproxy st st' hst h
        exact hk.hoare.weaken hA0 (fun _ h => h) hAI
      · -- -I OUTPUT, -I PREROUTING
        simp only [steps, Bool.false_eq_true, if_false]
        apply Hoare.seq (Q := IB)
        · apply Hoare.cmdF hAI
          rintro st st' ⟨v, hv, ho, hpr, rfl⟩ h
          obtain ⟨x, hx, rfl⟩ := tp_op_some v _ st' h
          obtain ⟨hm, rfl⟩ := tp_apply_insert_out hF.noChain v hv.ownNames ho x hx
          exact ⟨{ v with out := true }, tpOk_out hv true (fun _ => hm), hpr, rfl⟩
        · apply Hoare.seq (Q := TpInv pl.fam pl.port s)
          · apply Hoare.cmdF hBI
            rintro st st' ⟨v, hv, hpr, rfl⟩ h
            obtain ⟨x, hx, rfl⟩ := tp_op_some v _ st' h
            obtain ⟨hm, rfl⟩ := tp_apply_insert_pre hF.noChain v hv.ownNames hpr x hx
            exact ⟨{ v with pre := true }, tpOk_pre hv true (fun _ => hm), rfl⟩
          · exact Hoare.skip
    · -- the bodies of the three chains
      have hk : Keeps (TpInv pl.fam pl.port s) (steps (pl.body.map fun kr =>
          (false, Cmd.ipt pl.fam .mangle (.append (.own kr.1 pl.port) kr.2)))) := by
        apply Keeps.steps
        intro bc hbc st st' hst h
        obtain ⟨kr, hkr, rfl⟩ := List.mem_map.mp hbc
        obtain ⟨v, hv, rfl⟩ := hst
        obtain ⟨x, hx, rfl⟩ := tp_op_some v _ st' h
        obtain ⟨_, rfl⟩ := tp_apply_append hF.noChain v kr.1 kr.2 x hx
        exact ⟨_, tpOk_append hv kr.1 kr.2 (hbody kr hkr), rfl⟩
      exact hk.hoare

end

theorem putTp_comm (p6 p4 : Nat) (s : FwState) (v6 v4 : TpView) :
    putTp .v4 p4 (putTp .v6 p6 s v6) v4 = putTp .v6 p6 (putTp .v4 p4 s v4) v6 := by
  refine FwState.ext' ?_ rfl rfl
  funext f' t'
  cases f' <;> cases t' <;> simp [putTp, FwState.setTable]

theorem tpFresh_put_other {f f' : Fam} (hne : f ≠ f') {p p' : Nat} {s : FwState}
    (v' : TpView) (h : TpFresh f p s) : TpFresh f p (putTp f' p' s v') := by
  have e1 : (putTp f' p' s v').ipt f .mangle = s.ipt f .mangle :=
    setTable_get_other _ _ _ _ _ _ (fun hh => hne hh.1)
  exact ⟨by rw [e1]; exact h.noChain, by rw [e1]; exact h.noRef⟩

/-- The tproxy method as layers (the mangle table of each family). -/
def tproxyLayers (c : Config) (hm : c.method = .tproxy) (h : Hdr) (s0 : FwState)
    (h6 : h.has6 = true → TpFresh .v6 h.port6 s0) (h4 : h.has4 = true → TpFresh .v4 h.port4 s0)
    (hb6 : ∀ kr ∈ c.body6.body, TpBodyOk h.port6 kr.1 kr.2)
    (hb4 : ∀ kr ∈ c.body4.body, TpBodyOk h.port4 kr.1 kr.2) : Layers c h s0 where
  S := tproxySetup
  R := tproxyRestore
  hS := by intro p o; simp [setupFw, hm]
  hR := by intro p o; simp [restoreFw, hm]
  V6 := TpView
  V4 := TpView
  L6 := fun v s => putTp .v6 h.port6 s v
  L4 := fun v s => putTp .v4 h.port4 s v
  e6 := TpView.empty
  e4 := TpView.empty
  ok6 := TpOk h.port6
  ok4 := TpOk h.port4
  L6e := putTp_empty _ _
  L4e := putTp_empty _ _
  ok6e := tpOk_empty _
  ok4e := tpOk_empty _
  setup6 := fun hh => tproxySetup_hoare (h6 hh) (c.plan6 h) rfl rfl _ hb6
  setup4 := fun hh v6 _ =>
    tproxySetup_hoare (tpFresh_put_other (f := .v4) (f' := .v6) (by decide) v6 (h4 hh)) (c.plan4 h) rfl rfl _ hb4
  restore6 := fun hh v6 v4 e hv6 _ hN he => by
    rw [putTp_comm] at he
    exact tproxyRestore_natural (tpFresh_put_other (f := .v6) (f' := .v4) (by decide) v4 (h6 hh))
      (c.plan6 h) rfl rfl _ e hN v6 hv6 he
  restore4 := fun hh v4 e hv4 hN he =>
    tproxyRestore_natural (h4 hh) (c.plan4 h) rfl rfl _ e hN v4 hv4 he

end Sshuttle.Fw
