/-
C03: the two per-family `setup_firewall` calls of `firewall.main` compose; set-up on top of a
stale rule state.
-/
import SshuttleModel.Lemmas.FwRulesNft
import SshuttleModel.Lemmas.FwRulesPf
import SshuttleModel.Lemmas.FwRulesTproxy

namespace Sshuttle.Fw

/-! ## commands only touch their own space; what a chain becomes depends only on what it was -/

/-- The table / binary a command acts on. -/
def cmdSpace : Cmd → Option Space
  | .iptNew v6 t _ => some (.ipt v6 t)
  | .iptFlush v6 t _ => some (.ipt v6 t)
  | .iptInsert v6 t _ _ => some (.ipt v6 t)
  | .iptAppend v6 t _ _ => some (.ipt v6 t)
  | .nftSetup v6 port _ _ => some (.nft v6 port)
  | .nftRule v6 port _ _ => some (.nft v6 port)
  | .pfLoad _ _ _ => none

theorem applyCmd_get_other (rs : Ruleset) (cmd : Cmd) (k : ChainKey)
    (h : cmdSpace cmd ≠ some k.sp) : (applyCmd rs cmd).get k = rs.get k := by
  obtain ⟨sp, c⟩ := k
  cases cmd with
  | nftSetup v6 port a args =>
    cases a <;> simp only [applyCmd, get_set]
    split
    · rename_i heq; simp [cmdSpace] at h; cases heq; exact absurd rfl h
    · rfl
  | pfLoad => rfl
  | _ =>
    simp only [applyCmd, get_set]
    split
    · rename_i heq; simp [cmdSpace] at h; cases heq; exact absurd rfl h
    · rfl

theorem foldl_get_other (cmds : List Cmd) (rs : Ruleset) (k : ChainKey)
    (h : ∀ cmd ∈ cmds, cmdSpace cmd ≠ some k.sp) : (cmds.foldl applyCmd rs).get k = rs.get k := by
  induction cmds generalizing rs with
  | nil => rfl
  | cons cmd rest ih =>
    rw [List.foldl_cons, ih _ (fun x hx => h x (List.mem_cons_of_mem _ hx)),
      applyCmd_get_other _ _ _ (h cmd List.mem_cons_self)]

theorem applyCmd_get_congr (rs rs' : Ruleset) (cmd : Cmd) (k : ChainKey)
    (h : rs.get k = rs'.get k) : (applyCmd rs cmd).get k = (applyCmd rs' cmd).get k := by
  cases cmd with
  | nftSetup v6 port a args =>
    cases a <;> simp only [applyCmd, get_set, h]
  | pfLoad => exact h
  | _ =>
    simp only [applyCmd, get_set]
    split
    · rename_i heq; subst heq; simp [h]
    · exact h

theorem foldl_get_congr (cmds : List Cmd) (rs rs' : Ruleset) (k : ChainKey)
    (h : rs.get k = rs'.get k) :
    (cmds.foldl applyCmd rs).get k = (cmds.foldl applyCmd rs').get k := by
  induction cmds generalizing rs rs' with
  | nil => exact h
  | cons cmd rest ih =>
    rw [List.foldl_cons, List.foldl_cons]
    exact ih _ _ (applyCmd_get_congr rs rs' cmd k h)

/-- The walk through the chains of one space only looks at that space. -/
theorem walkChain_congr (rs rs' : Ruleset) (sp : Space) (p : Pkt)
    (h : ∀ c, rs.get ⟨sp, c⟩ = rs'.get ⟨sp, c⟩) :
    ∀ (fuel : Nat) (c : ChainName) (mark : Option String),
      walkChain rs sp p fuel c mark = walkChain rs' sp p fuel c mark := by
  intro fuel
  induction fuel with
  | zero => intro c mark; rfl
  | succ n ih =>
    intro c mark
    rw [walkChain_succ, walkChain_succ, h c]
    congr 1
    funext c' m
    exact ih c' m
def spaceFam : Space → Bool
  | .ipt v6 _ => v6
  | .nft v6 _ => v6

theorem call_isV6 (pl : Plan) (v6 : Bool) : isV6 (pl.call v6).family = v6 := by
  cases v6 <;> simp [Plan.call, isV6, af_inet, af_inet6]

theorem call_family (pl : Plan) (v6 : Bool) :
    (pl.call v6).family = AF_INET ∨ (pl.call v6).family = AF_INET6 := by
  cases v6 <;> simp [Plan.call]

/-- Rule state of one space after both calls = rule state after the call of that space's family alone. -/
theorem plan_get (cmdsOf : Call → List Cmd) (pl : Plan) (k : ChainKey)
    (hsp : ∀ v6, ∀ cmd ∈ cmdsOf (pl.call v6), ∃ sp, cmdSpace cmd = some sp ∧ spaceFam sp = v6) :
    (load (pl.cmds cmdsOf)).get k =
      (load (if pl.active (spaceFam k.sp) then cmdsOf (pl.call (spaceFam k.sp)) else [])).get k := by
  have hoff : ∀ v6, v6 ≠ spaceFam k.sp →
      ∀ cmd ∈ (if pl.active v6 then cmdsOf (pl.call v6) else []), cmdSpace cmd ≠ some k.sp := by
    intro v6 hne cmd hc
    split at hc
    · obtain ⟨sp, h1, h2⟩ := hsp v6 cmd hc
      rw [h1]; intro h; cases h; exact hne h2.symm
    · cases hc
  unfold Plan.cmds load
  rw [List.foldl_append]
  cases hf : spaceFam k.sp with
  | true =>
    rw [foldl_get_other _ _ _ (hoff false (by rw [hf]; decide))]
  | false =>
    apply foldl_get_congr
    rw [foldl_get_other _ _ _ (hoff true (by rw [hf]; decide))]

theorem any_filter_fam (l : List Subnet) (F : Nat) (f : Subnet → Bool)
    (h : ∀ s, f s = true → s.fam = F) :
    (l.filter (·.fam == F)).any f = l.any f := by
  induction l with
  | nil => rfl
  | cons a t ih =>
    by_cases ha : a.fam = F
    · simp [List.filter_cons, ha, ih]
    · have : f a = false := by
        cases hfa : f a with
        | false => rfl
        | true => exact absurd (h a hfa) ha
      simp [List.filter_cons, ha, ih, this]

theorem entryMatches_fam (s : Subnet) (p : Pkt) (h : Spec.entryMatches s p = true) :
    s.fam = Spec.pktFam p := by
  unfold Spec.entryMatches at h
  simp only [Bool.and_eq_true, beq_iff_eq] at h
  exact h.1.1

theorem mostSpecific_filter (l : List Subnet) (p : Pkt) :
    Spec.mostSpecificIsInclude (l.filter (·.fam == Spec.pktFam p)) p = Spec.mostSpecificIsInclude l p := by
  unfold Spec.mostSpecificIsInclude
  have hall : ∀ e, ((l.filter (·.fam == Spec.pktFam p)).all fun e' => !(Spec.entryMatches e' p && Spec.beats e' e)) =
      l.all fun e' => !(Spec.entryMatches e' p && Spec.beats e' e) := by
    intro e
    induction l with
    | nil => rfl
    | cons a t ih =>
      by_cases ha : a.fam = Spec.pktFam p
      · have hq : (a.fam == Spec.pktFam p) = true := by simpa using ha
        rw [List.filter_cons, if_pos hq, List.all_cons, List.all_cons, ih]
      · have hq : ¬ (a.fam == Spec.pktFam p) = true := by simpa using ha
        have : Spec.entryMatches a p = false := by
          cases hm : Spec.entryMatches a p with
          | false => rfl
          | true => exact absurd (entryMatches_fam a p hm) ha
        rw [List.filter_cons, if_neg hq, List.all_cons, ih, this]
        simp
  simp only [hall]
  apply any_filter_fam
  intro s hs
  simp only [Bool.and_eq_true] at hs
  exact entryMatches_fam s p hs.1.1

theorem isDns_filter (l : List Ns) (p : Pkt) :
    Spec.isDnsToNs (l.filter (·.fam == Spec.pktFam p)) p = Spec.isDnsToNs l p := by
  unfold Spec.isDnsToNs
  congr 1
  induction l with
  | nil => rfl
  | cons a t ih =>
    by_cases ha : a.fam = Spec.pktFam p
    · simp [List.filter_cons, ha, ih]
    · simp [List.filter_cons, ha, ih]

/-- The property for the plan = the property for the call of the packet's family. -/
theorem expected_eq_call (pl : Plan) (h u : Bool) (p : Pkt) :
    Spec.expected pl h u p = Spec.expectedCall (pl.call p.fam6) h u p := by
  have hf : (if p.fam6 then AF_INET6 else AF_INET) = Spec.pktFam p := rfl
  unfold Spec.expected Spec.expectedCall Plan.call
  simp only [hf, mostSpecific_filter, isDns_filter]

theorem expectedCall_inactive (pl : Plan) (h u : Bool) (p : Pkt) (hin : pl.active p.fam6 = false) :
    Spec.expectedCall (pl.call p.fam6) h u p = .untouched := by
  unfold Plan.active at hin
  simp only [Bool.or_eq_false_iff, Bool.not_eq_false', List.isEmpty_iff] at hin
  unfold Spec.expectedCall
  rw [hin.1, hin.2]
  simp [Spec.isDnsToNs, Spec.mostSpecificIsInclude]
theorem natCmds_space (c : Call) :
    ∀ cmd ∈ natCmds c, ∃ sp, cmdSpace cmd = some sp ∧ spaceFam sp = isV6 c.family := by
  intro cmd h
  unfold natCmds at h
  simp only [List.mem_append, List.mem_cons, List.not_mem_nil, or_false, List.mem_map] at h
  rcases h with ((h | h) | h) | ⟨r, _, rfl⟩
  · rcases h with rfl | rfl <;> exact ⟨_, rfl, rfl⟩
  · split at h
    · simp only [List.mem_cons, List.not_mem_nil, or_false] at h; subst h; exact ⟨_, rfl, rfl⟩
    · cases h
  · rcases h with rfl | rfl <;> exact ⟨_, rfl, rfl⟩
  · exact ⟨_, rfl, rfl⟩

theorem verdictNat_congr (rs rs' : Ruleset) (p : Pkt)
    (h : ∀ t c, rs.get ⟨.ipt p.fam6 t, c⟩ = rs'.get ⟨.ipt p.fam6 t, c⟩) :
    verdictNat rs p = verdictNat rs' p := by
  unfold verdictNat
  rw [walkChain_congr rs rs' (.ipt p.fam6 .mangle) p (h .mangle),
    walkChain_congr rs rs' (.ipt p.fam6 .nat) p (h .nat)]
  simp only [walkChain_congr rs rs' (.ipt p.fam6 .nat) p (h .nat)]

theorem verdictNat_empty (p : Pkt) : verdictNat (load []) p = .untouched := by
  unfold verdictNat
  cases p.loc <;> simp [load, walkFuel, walkChain, Ruleset.get, Ruleset.empty, walkList, Res.markOr, Res.verdict]

theorem call_wf (pl : Plan) (v6 : Bool) (hwf : ∀ s ∈ pl.subnets, Spec.WfEntry s) :
    ∀ s ∈ (pl.call v6).subnets, Spec.WfEntry s ∧ s.fam = (pl.call v6).family := by
  intro s hs
  simp only [Plan.call, List.mem_filter, beq_iff_eq] at hs
  exact ⟨hwf s hs.1, hs.2⟩

/-- nat: both calls of `firewall.main` together. -/
theorem nat_plan_verdict (pl : Plan) (p : Pkt) (hwf : ∀ s ∈ pl.subnets, Spec.WfEntry s)
    (hmark : p.mark ≠ some (toString (if p.fam6 then pl.portV6 else pl.portV4))) :
    verdictNat (load (pl.cmds natCmds)) p = Spec.expected pl true false p := by
  rw [verdictNat_congr _ (load (if pl.active p.fam6 then natCmds (pl.call p.fam6) else [])) p
    (fun t c => plan_get natCmds pl ⟨.ipt p.fam6 t, c⟩
      (fun v6 cmd hc => by simpa [call_isV6] using natCmds_space (pl.call v6) cmd hc)),
    expected_eq_call]
  cases ha : pl.active p.fam6 with
  | true =>
    simp only [if_true]
    exact nat_verdict (pl.call p.fam6) p (call_family pl _) (call_isV6 pl _).symm (call_wf pl _ hwf)
      (by cases hv : p.fam6 <;> simpa [Plan.call, hv] using hmark)
  | false =>
    simp only [Bool.false_eq_true, if_false]
    rw [verdictNat_empty, expectedCall_inactive pl _ _ p ha]
theorem tproxyCmds_space (c : Call) :
    ∀ cmd ∈ tproxyCmds c, ∃ sp, cmdSpace cmd = some sp ∧ spaceFam sp = isV6 c.family := by
  intro cmd h
  unfold tproxyCmds at h
  rcases List.mem_append.mp h with h | h
  · unfold tproxyPre at h
    simp only [List.mem_cons, List.not_mem_nil, or_false] at h
    rcases h with rfl | rfl | rfl | rfl | rfl | rfl | rfl | rfl <;> exact ⟨_, rfl, rfl⟩
  · have := tproxyAppends_isAppend c cmd h
    -- every `-A` of tproxy goes to the mangle table of the call's family
    unfold tproxyAppends at h
    simp only [List.mem_append, List.mem_flatMap, List.mem_cons, List.not_mem_nil, or_false] at h
    rcases h with (((⟨ns, _, h⟩ | h) | h) | ⟨s, _, h⟩)
    · rcases h with rfl | rfl <;> exact ⟨_, rfl, rfl⟩
    · rcases h with rfl | rfl | rfl | rfl | rfl <;> exact ⟨_, rfl, rfl⟩
    · split at h
      · simp only [List.mem_cons, List.not_mem_nil, or_false] at h; subst h; exact ⟨_, rfl, rfl⟩
      · cases h
    · rcases h with (rfl | rfl) | h
      · exact ⟨_, rfl, rfl⟩
      · exact ⟨_, rfl, rfl⟩
      · split at h
        · simp only [List.mem_cons, List.not_mem_nil, or_false] at h
          rcases h with rfl | rfl <;> exact ⟨_, rfl, rfl⟩
        · cases h

theorem verdictTproxy_congr (rs rs' : Ruleset) (p : Pkt)
    (h : ∀ c, rs.get ⟨.ipt p.fam6 .mangle, c⟩ = rs'.get ⟨.ipt p.fam6 .mangle, c⟩) :
    verdictTproxy rs p = verdictTproxy rs' p := by
  unfold verdictTproxy
  simp only [walkChain_congr rs rs' (.ipt p.fam6 .mangle) p h]

theorem verdictTproxy_empty (p : Pkt) : verdictTproxy (load []) p = .untouched := by
  unfold verdictTproxy
  cases p.loc <;> simp [load, walkFuel, walkChain, Ruleset.get, Ruleset.empty, walkList, Res.markOr, Res.verdict]

/-- tproxy: both calls of `firewall.main` together. -/
theorem tproxy_plan_verdict (pl : Plan) (p : Pkt) (hwf : ∀ s ∈ pl.subnets, Spec.WfEntry s)
    (hnl : p.dstLocal = false) (hsock : p.hasSocket = false) (hmark : p.mark ≠ some pl.tmark)
    (hs : Mask32Safe (pl.call p.fam6) p) :
    verdictTproxy (load (pl.cmds tproxyCmds)) p = Spec.expected pl false pl.udp p := by
  rw [verdictTproxy_congr _ (load (if pl.active p.fam6 then tproxyCmds (pl.call p.fam6) else [])) p
    (fun c => plan_get tproxyCmds pl ⟨.ipt p.fam6 .mangle, c⟩
      (fun v6 cmd hc => by simpa [call_isV6] using tproxyCmds_space (pl.call v6) cmd hc)),
    expected_eq_call]
  cases ha : pl.active p.fam6 with
  | true =>
    simp only [if_true]
    exact tproxy_verdict (pl.call p.fam6) p (call_family pl _) (call_isV6 pl _).symm (call_wf pl _ hwf)
      hnl hsock hmark hs
  | false =>
    simp only [Bool.false_eq_true, if_false]
    rw [verdictTproxy_empty, expectedCall_inactive pl _ _ p ha]

theorem nftCmds_space (c : Call) :
    ∀ cmd ∈ nftCmds c, ∃ sp, cmdSpace cmd = some sp ∧ spaceFam sp = isV6 c.family := by
  intro cmd h
  unfold nftCmds at h
  simp only [List.mem_append, List.mem_cons, List.not_mem_nil, or_false, List.mem_map] at h
  rcases h with h | ⟨r, _, rfl⟩
  · rcases h with rfl | rfl | rfl | rfl | rfl | rfl | rfl <;> exact ⟨_, rfl, rfl⟩
  · exact ⟨_, rfl, rfl⟩

/-- One nft table after both calls. -/
theorem nft_plan_table (pl : Plan) (p : Pkt) (v6 : Bool) (mark : Option String)
    (hwf : ∀ s ∈ pl.subnets, Spec.WfEntry s) (hnl : p.dstLocal = false) :
    (walkChain (load (pl.cmds nftCmds)) (.nft v6 (if v6 then pl.portV6 else pl.portV4)) p walkFuel
        (if p.loc then .nftOutput else .nftPrerouting) mark).verdict =
      if p.fam6 = v6 then Spec.expected pl false false p else .untouched := by
  rw [walkChain_congr _ (load (if pl.active v6 then nftCmds (pl.call v6) else []))
    (.nft v6 (if v6 then pl.portV6 else pl.portV4)) p
    (fun c => plan_get nftCmds pl ⟨.nft v6 _, c⟩
      (fun v6' cmd hc => by simpa [call_isV6] using nftCmds_space (pl.call v6') cmd hc))]
  cases ha : pl.active v6 with
  | true =>
    simp only [if_true]
    have := nft_table_verdict (pl.call v6) p mark (call_family pl _) (call_wf pl _ hwf) hnl
    rw [call_isV6] at this
    have hport : (pl.call v6).port = (if v6 then pl.portV6 else pl.portV4) := rfl
    rw [hport] at this
    rw [this]
    by_cases hf : p.fam6 = v6
    · subst hf; simp [expected_eq_call]
    · simp [hf]
  | false =>
    simp only [Bool.false_eq_true, if_false]
    have : (walkChain (load []) (.nft v6 (if v6 then pl.portV6 else pl.portV4)) p walkFuel
        (if p.loc then .nftOutput else .nftPrerouting) mark).verdict = .untouched := by
      cases p.loc <;> simp [load, walkFuel, walkChain, Ruleset.get, Ruleset.empty, walkList, Res.verdict]
    rw [this]
    by_cases hf : p.fam6 = v6
    · subst hf; simp [expected_eq_call, expectedCall_inactive pl _ _ p ha]
    · simp [hf]

/-- nft: both tables together, either family. -/
theorem nft_plan_verdict (pl : Plan) (p : Pkt) (hwf : ∀ s ∈ pl.subnets, Spec.WfEntry s)
    (hnl : p.dstLocal = false) :
    verdictNft (load (pl.cmds nftCmds)) pl.portV6 pl.portV4 p = Spec.expected pl false false p := by
  unfold verdictNft
  have h6 := nft_plan_table pl p true p.mark hwf hnl
  have h4 := nft_plan_table pl p false p.mark hwf hnl
  simp only [if_true, Bool.false_eq_true, if_false] at h6 h4
  simp only [h6, h4]
  cases hv : p.fam6 <;> simp
  cases Spec.expected pl false false p <;> rfl
/-- The one command pf's `setup_firewall` issues for a call (rule text only). -/
def pfCmds (os : PfOs) (c : Call) : List Cmd := [.pfLoad (isV6 c.family) c.port (pfCallRules os c)]

theorem call_ns (pl : Plan) (v6 : Bool) : ∀ ns ∈ (pl.call v6).nslist, ns.fam = (pl.call v6).family := by
  intro ns h
  simp only [Plan.call, List.mem_filter, beq_iff_eq] at h
  exact h.2

/-- pf: both anchors together, either family. -/
theorem pf_plan_verdict (os : PfOs) (pl : Plan) (p : Pkt) (hwf : ∀ s ∈ pl.subnets, Spec.WfEntry s)
    (hsrc : p.srcLo = false) :
    verdictPf os (pl.cmds (pfCmds os)) p = Spec.expected pl false false p := by
  have hA : ∀ v6, verdictPfAnchor os (pfCallRules os (pl.call v6)) p =
      if p.fam6 = v6 then Spec.expectedCall (pl.call v6) false false p else .untouched := by
    intro v6
    have := pf_anchor_verdict os (pl.call v6) p (call_family pl _) (call_wf pl _ hwf) (call_ns pl _) hsrc
    rwa [call_isV6] at this
  unfold verdictPf Plan.cmds pfCmds
  rw [expected_eq_call]
  cases h6 : pl.active true <;> cases h4 : pl.active false <;> cases hv : p.fam6 <;>
    simp [pfAnchors, hA, hv]
  all_goals first
    | (have := expectedCall_inactive pl false false p (by rw [hv]; assumption); rw [hv] at this; simp [this])
    | (cases Spec.expectedCall (pl.call true) false false p <;> rfl)
    | skip
/-- A chain of terminal rules hands the mark back unchanged when it falls through. -/
theorem walkList_simple_fall (call : ChainName → Option String → Res) (p : Pkt) (rs : List Rule)
    (mark m' : Option String) (h : ∀ r ∈ rs, r.t.simple = true)
    (hf : walkList call p rs mark = .fall m') : m' = mark := by
  rw [walkList_simple _ _ _ _ h] at hf
  cases hfd : rs.find? (fun r => matchRule r.m p mark) with
  | none => rw [hfd] at hf; exact (Res.fall.inj hf).symm
  | some r =>
    rw [hfd] at hf
    have hr := h r (List.mem_of_find?_eq_some hfd)
    cases hrt : r.t <;> simp_all [termRes, Target.simple]

/-- Any number (≥ 1) of copies of one jump rule (what killed sessions leave in a hook chain) act
like a single one, when the target chain hands the mark back unchanged. -/
theorem walkList_same_jump (call : ChainName → Option String → Res) (p : Pkt) (m : Match)
    (c : ChainName) (l : List Rule) (mark : Option String)
    (h : ∀ r ∈ l, r = ⟨m, .jump c⟩) (hne : l ≠ [])
    (hc : ∀ m', call c mark = .fall m' → m' = mark) :
    (walkList call p l mark).verdict =
      if matchRule m p mark then (call c mark).verdict else .untouched := by
  induction l with
  | nil => exact absurd rfl hne
  | cons r t ih =>
    have hr := h r List.mem_cons_self
    subst hr
    unfold walkList
    by_cases hm : matchRule m p mark = true
    · simp only [hm, if_true]
      cases hcall : call c mark with
      | fall m' =>
        have := hc m' hcall
        subst this
        by_cases ht : t = []
        · subst ht; simp [walkList, Res.verdict]
        · have := ih (fun x hx => h x (List.mem_cons_of_mem _ hx)) ht
          rw [this, if_pos hm, hcall]
      | _ => rfl
    · simp only [hm, Bool.false_eq_true, if_false]
      by_cases ht : t = []
      · subst ht; simp [walkList, Res.verdict]
      · have := ih (fun x hx => h x (List.mem_cons_of_mem _ hx)) ht
        rw [this, if_neg hm]

/-- Any number of copies of one MARK rule (whose match does not look at the mark). -/
theorem walkList_same_setMark (call : ChainName → Option String → Res) (p : Pkt) (m : Match)
    (x : String) (l : List Rule) (mark : Option String)
    (h : ∀ r ∈ l, r = ⟨m, .setMark x⟩) :
    walkList call p l mark = .fall (if l ≠ [] ∧ matchRule m p mark = true then some x else mark) := by
  induction l generalizing mark with
  | nil => simp [walkList]
  | cons r t ih =>
    have hr := h r List.mem_cons_self
    subst hr
    have iht := fun mk => ih mk (fun y hy => h y (List.mem_cons_of_mem _ hy))
    unfold walkList
    by_cases hm : matchRule m p mark = true
    · simp only [hm, if_true]
      rw [iht (some x)]
      by_cases ht : t = []
      · simp [ht]
      · simp [ht]
    · simp only [hm, Bool.false_eq_true, if_false]
      rw [iht mark]
      simp [hm]
theorem nftChain_simple (c : Call) : ∀ r ∈ nftChainRules c, r.t.simple = true := by
  intro r hr
  simp only [nftChainRules, List.mem_append, List.mem_map, List.mem_singleton] at hr
  rcases hr with ((rfl | ⟨ns, _, rfl⟩) | rfl) | ⟨s, _, rfl⟩
  · rfl
  · rfl
  · rfl
  · rw [nftSubnet_target]; cases s.excl <;> rfl

/-- An nft table in ANY state in which our chain holds `nftChainRules c` and each hook chain holds
one or more copies of the jump to it: the verdict is the chain's verdict `V`. -/
theorem nft_table_from (c : Call) (rs : Ruleset) (p : Pkt) (mark : Option String) (V : Verdict)
    (hV : ∀ call mark, (walkList call p (nftChainRules c) mark).verdict = V)
    (hchain : rs.get ⟨.nft (isV6 c.family) c.port, .nft (isV6 c.family) c.port⟩ = nftChainRules c)
    (hbase : ∀ b, b = ChainName.nftOutput ∨ b = ChainName.nftPrerouting →
      (∀ r ∈ rs.get ⟨.nft (isV6 c.family) c.port, b⟩, r = ⟨{}, .jump (.nft (isV6 c.family) c.port)⟩) ∧
      rs.get ⟨.nft (isV6 c.family) c.port, b⟩ ≠ []) :
    (walkChain rs (.nft (isV6 c.family) c.port) p walkFuel
        (if p.loc then .nftOutput else .nftPrerouting) mark).verdict = V := by
  have hb := hbase (if p.loc then .nftOutput else .nftPrerouting) (by cases p.loc <;> simp)
  show (walkChain _ _ _ (3 + 1) _ _).verdict = _
  rw [walkChain_succ, walkList_same_jump _ p {} _ _ mark hb.1 hb.2]
  · rw [walkChain_succ, hchain, hV]
    simp [matchRule]
  · intro m' hf
    rw [walkChain_succ, hchain] at hf
    exact walkList_simple_fall _ p _ mark m' (nftChain_simple c) hf

/-- What `nftCmds c` makes of ANY earlier state of its table: the per-port chain is flushed and
refilled, the jump is appended behind whatever the hook chains held; other tables are untouched. -/
theorem nft_setup_from (c : Call) (rs0 : Ruleset) :
    let rs := (nftCmds c).foldl applyCmd rs0
    rs.get ⟨.nft (isV6 c.family) c.port, .nft (isV6 c.family) c.port⟩ = nftChainRules c ∧
    rs.get ⟨.nft (isV6 c.family) c.port, .nftOutput⟩ =
      rs0.get ⟨.nft (isV6 c.family) c.port, .nftOutput⟩ ++ [⟨{}, .jump (.nft (isV6 c.family) c.port)⟩] ∧
    rs.get ⟨.nft (isV6 c.family) c.port, .nftPrerouting⟩ =
      rs0.get ⟨.nft (isV6 c.family) c.port, .nftPrerouting⟩ ++ [⟨{}, .jump (.nft (isV6 c.family) c.port)⟩] ∧
    (∀ k : ChainKey, k.sp ≠ .nft (isV6 c.family) c.port → rs.get k = rs0.get k) := by
  refine ⟨?_, ?_, ?_, ?_⟩
  · unfold nftCmds
    rw [List.foldl_append, foldl_nftRule_get]
    simp [applyCmd, Ruleset.set, Ruleset.get]
  · unfold nftCmds
    rw [List.foldl_append, foldl_nftRule_get]
    simp [applyCmd, Ruleset.set, Ruleset.get]
  · unfold nftCmds
    rw [List.foldl_append, foldl_nftRule_get]
    simp [applyCmd, Ruleset.set, Ruleset.get]
  · intro k hk
    apply foldl_get_other
    intro cmd hc
    unfold nftCmds at hc
    simp only [List.mem_append, List.mem_cons, List.not_mem_nil, or_false, List.mem_map] at hc
    rcases hc with hc | ⟨r, _, rfl⟩
    · rcases hc with rfl | rfl | rfl | rfl | rfl | rfl | rfl <;>
        (simp only [cmdSpace]; intro h; exact hk (Option.some.inj h).symm)
    · simp only [cmdSpace]; intro h; exact hk (Option.some.inj h).symm
theorem nftChain_expected (c : Call) (p : Pkt)
    (hfam : c.family = AF_INET ∨ c.family = AF_INET6)
    (hwf : ∀ s ∈ c.subnets, Spec.WfEntry s ∧ s.fam = c.family) (hnl : p.dstLocal = false) :
    ∀ call mark, (walkList call p (nftChainRules c) mark).verdict =
      if p.fam6 = isV6 c.family then Spec.expectedCall c false false p else .untouched := by
  intro call mark
  rw [nftChain_verdict c call p mark hfam hwf hnl]
  simp [Spec.expectedCall, natChainExpected]

/-- nft set-up on top of ANY earlier state of its table whose hook chains hold only (stale) jumps
to the per-port chain: the verdicts are those of the NEW call. -/
theorem nft_stale_verdict (c : Call) (rs0 : Ruleset) (p : Pkt) (mark : Option String)
    (hfam : c.family = AF_INET ∨ c.family = AF_INET6)
    (hwf : ∀ s ∈ c.subnets, Spec.WfEntry s ∧ s.fam = c.family) (hnl : p.dstLocal = false)
    (hold : ∀ b, b = ChainName.nftOutput ∨ b = ChainName.nftPrerouting →
      ∀ r ∈ rs0.get ⟨.nft (isV6 c.family) c.port, b⟩, r = ⟨{}, .jump (.nft (isV6 c.family) c.port)⟩) :
    (walkChain ((nftCmds c).foldl applyCmd rs0) (.nft (isV6 c.family) c.port) p walkFuel
        (if p.loc then .nftOutput else .nftPrerouting) mark).verdict =
      if p.fam6 = isV6 c.family then Spec.expectedCall c false false p else .untouched := by
  obtain ⟨h1, h2, h3, _⟩ := nft_setup_from c rs0
  apply nft_table_from c _ p mark _ (nftChain_expected c p hfam hwf hnl) h1
  intro b hb
  rcases hb with rfl | rfl
  · rw [h2]
    refine ⟨?_, by simp⟩
    intro r hr
    rcases List.mem_append.mp hr with hr | hr
    · exact hold _ (Or.inl rfl) r hr
    · simpa using hr
  · rw [h3]
    refine ⟨?_, by simp⟩
    intro r hr
    rcases List.mem_append.mp hr with hr | hr
    · exact hold _ (Or.inr rfl) r hr
    · simpa using hr

/-- DNS rules (terminal, all to `port`) followed by the LOCAL return: for a packet to a local
address the walk ends there. -/
theorem walk_dns_local_redirect (call : ChainName → Option String → Res) (p : Pkt)
    (mark : Option String) (port : Nat) (D rest : List Rule)
    (hD : ∀ r ∈ D, r.t = .redirect port) (hl : p.dstLocal = true) :
    (walkList call p (D ++ localReturn :: rest) mark).verdict =
      if (D.find? (fun r => matchRule r.m p mark)).isSome then .divert port else .untouched := by
  induction D with
  | nil => simp [walkList, localReturn, matchRule, hl, Res.verdict]
  | cons r t ih =>
    have hr := hD r List.mem_cons_self
    have iht := ih (fun x hx => hD x (List.mem_cons_of_mem _ hx))
    rw [List.cons_append]
    unfold walkList
    by_cases hm : matchRule r.m p mark = true
    · rw [if_pos hm, hr, List.find?_cons_of_pos (by simpa using hm)]
      simp [Res.verdict]
    · rw [if_neg hm, List.find?_cons_of_neg (by simpa using hm)]
      exact iht

theorem nftChain_local (c : Call) (p : Pkt)
    (hfam : c.family = AF_INET ∨ c.family = AF_INET6) (hl : p.dstLocal = true) :
    ∀ call mark, (walkList call p (nftChainRules c) mark).verdict =
      if p.fam6 = isV6 c.family ∧ Spec.isDnsToNs c.nslist p = true then .divert c.dnsport
      else .untouched := by
  intro call mark
  unfold nftChainRules
  simp only [List.append_assoc, List.cons_append, List.nil_append]
  by_cases hp : p.fam6 = isV6 c.family
  · have hg : ¬ matchRule (nftGuard (isV6 c.family)).m p mark = true := by
      simp [nftGuard, matchRule, hp]
    unfold walkList
    rw [if_neg hg]
    rw [walk_dns_local_redirect call p mark c.dnsport _ _
      (by intro r hr; simp only [List.mem_map] at hr; obtain ⟨ns, _, rfl⟩ := hr; rfl) hl,
      dns_find c (nftDnsRule (isV6 c.family) c.dnsport) p mark hfam hp
        (fun ns => nftDns_match _ _ ns p mark hp)]
    simp [hp]
  · have hg : matchRule (nftGuard (isV6 c.family)).m p mark = true := by
      simp [nftGuard, matchRule, hp]
    unfold walkList
    rw [if_pos hg]
    simp [nftGuard, hp, Res.verdict]
theorem natChain_simple (c : Call) : ∀ r ∈ natChainRules c, r.t.simple = true := by
  intro r hr
  simp only [natChainRules, List.mem_append, List.mem_map, List.mem_singleton] at hr
  rcases hr with (⟨ns, _, rfl⟩ | ⟨s, _, rfl⟩) | rfl
  · rfl
  · rw [natSubnet_target]; cases s.excl <;> rfl
  · rfl

/-- What a nat rule state must look like for the theorem below: our chain holds the new rules; the
built-in chains hold one or more copies of our jump rule; mangle OUTPUT holds only copies of our
owner rule (at least one when a restriction is configured). -/
structure NatState (c : Call) (rs : Ruleset) : Prop where
  chain : rs.get ⟨.ipt (isV6 c.family) .nat, .nat c.port⟩ = natChainRules c
  out : ∀ r ∈ rs.get ⟨.ipt (isV6 c.family) .nat, .output⟩, r = natJumpRule c
  outNe : rs.get ⟨.ipt (isV6 c.family) .nat, .output⟩ ≠ []
  pre : ∀ r ∈ rs.get ⟨.ipt (isV6 c.family) .nat, .prerouting⟩, r = natJumpRule c
  preNe : rs.get ⟨.ipt (isV6 c.family) .nat, .prerouting⟩ ≠ []
  mangle : ∀ r ∈ rs.get ⟨.ipt (isV6 c.family) .mangle, .output⟩, r = natOwnerRule c
  mangleNe : natOwned c = true → rs.get ⟨.ipt (isV6 c.family) .mangle, .output⟩ ≠ []

theorem nat_builtin_from (c : Call) (rs : Ruleset) (p : Pkt) (mark : Option String) (b : ChainName)
    (hchain : rs.get ⟨.ipt (isV6 c.family) .nat, .nat c.port⟩ = natChainRules c)
    (hb : ∀ r ∈ rs.get ⟨.ipt (isV6 c.family) .nat, b⟩, r = natJumpRule c)
    (hne : rs.get ⟨.ipt (isV6 c.family) .nat, b⟩ ≠ [])
    (hfam : c.family = AF_INET ∨ c.family = AF_INET6) (hp : p.fam6 = isV6 c.family)
    (hwf : ∀ s ∈ c.subnets, Spec.WfEntry s ∧ s.fam = c.family) :
    (walkChain rs (.ipt (isV6 c.family) .nat) p walkFuel b mark).verdict =
      if matchRule (natJumpRule c).m p mark then natChainExpected c p else .untouched := by
  show (walkChain _ _ _ (3 + 1) _ _).verdict = _
  rw [walkChain_succ, walkList_same_jump _ p (natJumpRule c).m (.nat c.port) _ mark hb hne]
  · rw [walkChain_succ, hchain, natChain_verdict c _ p mark hfam hp hwf]
    rfl
  · intro m' hf
    rw [walkChain_succ, hchain] at hf
    exact walkList_simple_fall _ p _ mark m' (natChain_simple c) hf

/-- nat in ANY rule state of the shape `NatState`. -/
theorem nat_verdict_from (c : Call) (rs : Ruleset) (p : Pkt) (hst : NatState c rs)
    (hfam : c.family = AF_INET ∨ c.family = AF_INET6) (hp : p.fam6 = isV6 c.family)
    (hwf : ∀ s ∈ c.subnets, Spec.WfEntry s ∧ s.fam = c.family)
    (hmark : p.mark ≠ some (toString c.port)) :
    verdictNat rs p = Spec.expectedCall c true false p := by
  have hm2 : ¬ p.mark = some (Nat.repr c.port) := hmark
  unfold verdictNat
  rw [hp, nat_builtin_from c rs p _ _ hst.chain hst.out hst.outNe hfam hp hwf,
    nat_builtin_from c rs p _ _ hst.chain hst.pre hst.preNe hfam hp hwf]
  rw [show walkFuel = 3 + 1 from rfl, walkChain_succ,
    walkList_same_setMark _ p (natOwnerRule c).m (toString c.port) _ p.mark hst.mangle]
  have hne := hst.mangleNe
  unfold Spec.expectedCall natChainExpected
  by_cases hM : rs.get ⟨.ipt (isV6 c.family) .mangle, .output⟩ = []
  · cases hu : c.user <;> cases hg : c.group <;> cases hl : p.loc <;>
    simp_all [natOwned, natJumpRule, natOwnerRule, matchRule, Spec.ownerOk, Res.markOr]
  · cases hu : c.user <;> cases hg : c.group <;> cases hl : p.loc <;>
    simp [hM, natOwned, natJumpRule, natOwnerRule, matchRule, Spec.ownerOk, hl, hu, hg, Res.markOr, hm2]
    all_goals (try (split <;> split <;> simp_all))
/-- The chain a command writes. -/
def cmdKey : Cmd → Option ChainKey
  | .iptNew v6 t c => some ⟨.ipt v6 t, c⟩
  | .iptFlush v6 t c => some ⟨.ipt v6 t, c⟩
  | .iptInsert v6 t c _ => some ⟨.ipt v6 t, c⟩
  | .iptAppend v6 t c _ => some ⟨.ipt v6 t, c⟩
  | .nftSetup v6 port .flushChain _ => some ⟨.nft v6 port, .nft v6 port⟩
  | .nftSetup _ _ _ _ => none
  | .nftRule v6 port c _ => some ⟨.nft v6 port, c⟩
  | .pfLoad _ _ _ => none

theorem applyCmd_get_otherKey (rs : Ruleset) (cmd : Cmd) (k : ChainKey)
    (h : cmdKey cmd ≠ some k) : (applyCmd rs cmd).get k = rs.get k := by
  cases cmd with
  | nftSetup v6 port a args =>
    cases a <;> simp only [applyCmd, get_set]
    split
    · rename_i heq; subst heq; exact absurd rfl h
    · rfl
  | pfLoad => rfl
  | _ =>
    simp only [applyCmd, get_set]
    split
    · rename_i heq; subst heq; exact absurd rfl h
    · rfl

theorem foldl_get_otherKey (cmds : List Cmd) (rs : Ruleset) (k : ChainKey)
    (h : ∀ cmd ∈ cmds, cmdKey cmd ≠ some k) : (cmds.foldl applyCmd rs).get k = rs.get k := by
  induction cmds generalizing rs with
  | nil => rfl
  | cons cmd rest ih =>
    rw [List.foldl_cons, ih _ (fun x hx => h x (List.mem_cons_of_mem _ hx)),
      applyCmd_get_otherKey _ _ _ (h cmd List.mem_cons_self)]

/-- What `natCmds c` makes of ANY earlier rule state. -/
theorem nat_setup_from (c : Call) (rs0 : Ruleset) :
    let rs := (natCmds c).foldl applyCmd rs0
    let N : ChainName → ChainKey := fun ch => ⟨.ipt (isV6 c.family) .nat, ch⟩
    let M : ChainKey := ⟨.ipt (isV6 c.family) .mangle, .output⟩
    rs.get (N (.nat c.port)) = natChainRules c ∧
    rs.get (N .output) = natJumpRule c :: rs0.get (N .output) ∧
    rs.get (N .prerouting) = natJumpRule c :: rs0.get (N .prerouting) ∧
    rs.get M = (if natOwned c then natOwnerRule c :: rs0.get M else rs0.get M) ∧
    (∀ k : ChainKey, k ≠ N (.nat c.port) → k ≠ N .output → k ≠ N .prerouting → k ≠ M →
      rs.get k = rs0.get k) := by
  refine ⟨?_, ?_, ?_, ?_, ?_⟩
  · unfold natCmds
    rw [List.foldl_append, foldl_iptAppend_get]
    cases natOwned c <;> simp [applyCmd, Ruleset.set, Ruleset.get]
  · unfold natCmds
    rw [List.foldl_append, foldl_iptAppend_get]
    cases natOwned c <;> simp [applyCmd, Ruleset.set, Ruleset.get]
  · unfold natCmds
    rw [List.foldl_append, foldl_iptAppend_get]
    cases natOwned c <;> simp [applyCmd, Ruleset.set, Ruleset.get]
  · unfold natCmds
    rw [List.foldl_append, foldl_iptAppend_get]
    cases natOwned c <;> simp [applyCmd, Ruleset.set, Ruleset.get]
  · intro k h1 h2 h3 h4
    apply foldl_get_otherKey
    intro cmd hc
    unfold natCmds at hc
    simp only [List.mem_append, List.mem_cons, List.not_mem_nil, or_false, List.mem_map] at hc
    rcases hc with ((hc | hc) | hc) | ⟨r, _, rfl⟩
    · rcases hc with rfl | rfl <;> (simp only [cmdKey]; intro h; exact h1 (Option.some.inj h).symm)
    · split at hc
      · simp only [List.mem_cons, List.not_mem_nil, or_false] at hc; subst hc
        simp only [cmdKey]; intro h; exact h4 (Option.some.inj h).symm
      · cases hc
    · rcases hc with rfl | rfl
      · simp only [cmdKey]; intro h; exact h2 (Option.some.inj h).symm
      · simp only [cmdKey]; intro h; exact h3 (Option.some.inj h).symm
    · simp only [cmdKey]; intro h; exact h1 (Option.some.inj h).symm

/-- nat set-up on top of what killed sessions with the same port and owner restriction left
(arbitrary old rules in our chain, stale copies of our jump and owner rules): the verdicts are
those of the NEW call. -/
theorem nat_stale_verdict (c : Call) (rs0 : Ruleset) (p : Pkt)
    (hfam : c.family = AF_INET ∨ c.family = AF_INET6) (hp : p.fam6 = isV6 c.family)
    (hwf : ∀ s ∈ c.subnets, Spec.WfEntry s ∧ s.fam = c.family)
    (hmark : p.mark ≠ some (toString c.port))
    (hout : ∀ r ∈ rs0.get ⟨.ipt (isV6 c.family) .nat, .output⟩, r = natJumpRule c)
    (hpre : ∀ r ∈ rs0.get ⟨.ipt (isV6 c.family) .nat, .prerouting⟩, r = natJumpRule c)
    (hman : ∀ r ∈ rs0.get ⟨.ipt (isV6 c.family) .mangle, .output⟩, r = natOwnerRule c) :
    verdictNat ((natCmds c).foldl applyCmd rs0) p = Spec.expectedCall c true false p := by
  obtain ⟨h1, h2, h3, h4, _⟩ := nat_setup_from c rs0
  apply nat_verdict_from c _ p _ hfam hp hwf hmark
  refine ⟨h1, ?_, ?_, ?_, ?_, ?_, ?_⟩
  · rw [h2]; intro r hr; rcases List.mem_cons.mp hr with rfl | hr; rfl; exact hout r hr
  · rw [h2]; simp
  · rw [h3]; intro r hr; rcases List.mem_cons.mp hr with rfl | hr; rfl; exact hpre r hr
  · rw [h3]; simp
  · rw [h4]; intro r hr
    split at hr
    · rcases List.mem_cons.mp hr with rfl | hr; rfl; exact hman r hr
    · exact hman r hr
  · intro ho; rw [h4, ho]; simp

/-- nft, freshly loaded table, packet to one of the host's own addresses. -/
theorem nft_table_local (c : Call) (p : Pkt) (mark : Option String)
    (hfam : c.family = AF_INET ∨ c.family = AF_INET6) (hl : p.dstLocal = true) :
    (walkChain (load (nftCmds c)) (.nft (isV6 c.family) c.port) p walkFuel
        (if p.loc then .nftOutput else .nftPrerouting) mark).verdict =
      if p.fam6 = isV6 c.family ∧ Spec.isDnsToNs c.nslist p = true then .divert c.dnsport
      else .untouched := by
  apply nft_table_from c _ p mark _ (nftChain_local c p hfam hl) (nft_load_chain c)
  intro b hb
  rcases hb with rfl | rfl
  · rw [nft_load_output]; simp
  · rw [nft_load_prerouting]; simp

/-- Witness for the known finding `stale-owner-mark`: the new session is `--user bob`. -/
def staleOwnerCall : Call :=
  { port := 12300, dnsport := 12299, nslist := [], family := 2,
    subnets := [⟨2, 0, false, "0.0.0.0", 0, 0, 0⟩],
    udp := false, user := some "bob", group := none, tmark := "0x01" }

/-- What a killed `--user alice` session on the same port left in mangle OUTPUT. -/
def staleOwnerState : Ruleset :=
  [(⟨.ipt false .mangle, .output⟩, [natOwnerRule { staleOwnerCall with user := some "alice" }])]

/-- A TCP connection of alice. -/
def staleOwnerPkt : Pkt :=
  { fam6 := false, dst := 167772161, dport := 22, proto := .tcp, loc := true, dstLocal := false,
    uid := "alice" }

theorem staleOwner_diverted :
    verdictNat ((natCmds staleOwnerCall).foldl applyCmd staleOwnerState) staleOwnerPkt = .divert 12300 := by
  obtain ⟨h1, h2, _, h4, _⟩ := nat_setup_from staleOwnerCall staleOwnerState
  have hv : isV6 staleOwnerCall.family = false := by decide
  have hfam : staleOwnerCall.family = AF_INET ∨ staleOwnerCall.family = AF_INET6 := by decide
  have hp : staleOwnerPkt.fam6 = isV6 staleOwnerCall.family := by decide
  have hwf : ∀ s ∈ staleOwnerCall.subnets, Spec.WfEntry s ∧ s.fam = staleOwnerCall.family := by decide
  simp only [hv] at h1 h2 h4
  have hout : ((natCmds staleOwnerCall).foldl applyCmd staleOwnerState).get ⟨.ipt false .nat, .output⟩ =
      [natJumpRule staleOwnerCall] := by rw [h2]; rfl
  have hman : ((natCmds staleOwnerCall).foldl applyCmd staleOwnerState).get ⟨.ipt false .mangle, .output⟩ =
      [natOwnerRule staleOwnerCall, natOwnerRule { staleOwnerCall with user := some "alice" }] := by
    rw [h4]; rfl
  unfold verdictNat
  have hloc : staleOwnerPkt.loc = true := rfl
  have hf6 : staleOwnerPkt.fam6 = false := rfl
  simp only [hloc, hf6, if_true]
  have hmark : (walkChain ((natCmds staleOwnerCall).foldl applyCmd staleOwnerState) (.ipt false .mangle)
      staleOwnerPkt walkFuel .output staleOwnerPkt.mark).markOr staleOwnerPkt.mark = some "12300" := by
    rw [show walkFuel = 3 + 1 from rfl, walkChain_succ, hman]
    decide
  rw [hmark]
  have := nat_builtin_from staleOwnerCall _ staleOwnerPkt (some "12300") .output
    (by rw [hv]; exact h1) (by rw [hv, hout]; simp) (by rw [hv, hout]; simp) hfam hp hwf
  rw [hv] at this
  rw [this]
  decide
end Sshuttle.Fw
