/-
Facts about the server's `DnsProxy.try_send` model for every script of socket-call outcomes
and name-server picks: the bookkeeping behind C10_tries / C10_verbatim.
-/
import SshuttleModel.Lemmas.Dgram

namespace Sshuttle.Dgram

/-- The resolver a query may be sent to: the configured one, else a listed one, else 127.0.0.1. -/
def allowedResolver (cfg : Cfg) (peer : Bytes) (port : Nat) : Prop :=
  match cfg.toNs with
  | some (p, pt) => peer = p ∧ port = (if pt = 0 then 53 else pt)
  | none => port = 53 ∧ (peer ∈ cfg.nslist ∨ (cfg.nslist = [] ∧ peer = localhost))

macro "arith" : tactic => `(tactic| first | omega | (dsimp only; omega) | (dsimp only; simp) | simp | rfl)

structure TryOK (cfg : Cfg) (h : DnsH) (ns : Nat) (r : TryRes) : Prop where
  tries_le : r.h.tries ≤ max h.tries cfg.maxTries
  tries_mono : h.tries ≤ r.h.tries
  attempts : h.tries + r.attempts = r.h.tries
  socks_used : r.nextSock = ns + r.attempts
  sends_le : r.sends.length ≤ 1
  sends_ok : ∀ s ∈ r.sends, s.data = h.request ∧ s.chan = h.chan ∧ s.hid = h.hid ∧
    allowedResolver cfg s.peer s.port ∧ ns ≤ s.sock ∧ s.sock < r.nextSock
  same : r.h.chan = h.chan ∧ r.h.hid = h.hid ∧ r.h.request = h.request ∧ r.h.deadline = h.deadline ∧
    r.h.ok = h.ok
  socks : r.h.socks = h.socks ++ r.sends.map (·.sock)

theorem pickNs_allowed {cfg : Cfg} {sc sc' : Script} {p : Bytes} (hn : cfg.toNs = none)
    (h : pickNs cfg sc = some (p, sc')) : allowedResolver cfg p 53 := by
  unfold allowedResolver
  rw [hn]
  refine ⟨rfl, ?_⟩
  unfold pickNs at h
  split at h
  · next hl => simp at h; exact Or.inr ⟨hl, h.1.symm⟩
  · next first rest hl =>
    split at h
    · simp at h; left; rw [hl, ← h.1]; simp
    · split at h
      · next hc => simp at h; left; rw [← h.1]; simpa using hc
      · cases h

theorem trySend_ok (cfg : Cfg) (fuel : Nat) (h : DnsH) (ns : Nat) (sc : Script) :
    TryOK cfg h ns (trySend cfg fuel h ns sc) := by
  induction fuel generalizing h ns sc with
  | zero =>
    simp only [trySend]
    exact ⟨by arith, by arith, by arith, by arith, by arith, (fun s hs => by cases hs), ⟨rfl, rfl, rfl, rfl, rfl⟩, by arith⟩
  | succ fuel ih =>
    simp only [trySend]
    split
    · exact ⟨by arith, by arith, by arith, by arith, by arith, (fun s hs => by cases hs), ⟨rfl, rfl, rfl, rfl, rfl⟩, by arith⟩
    · next hlt =>
      have hlt' : h.tries < cfg.maxTries := by omega
      split
      · -- script named a server that is not listed
        exact ⟨by arith, by arith, by arith, by arith, by arith, (fun s hs => by cases hs), ⟨rfl, rfl, rfl, rfl, rfl⟩, by arith⟩
      · next peer port sc1 hch =>
        have hallow : allowedResolver cfg peer port := by
          cases htn : cfg.toNs with
          | none =>
            rw [htn] at hch
            simp only [Option.map_eq_some_iff] at hch
            obtain ⟨⟨p, sc'⟩, hp, he⟩ := hch
            simp only [Prod.mk.injEq] at he
            obtain ⟨⟨rfl, rfl⟩, rfl⟩ := he
            exact pickNs_allowed htn hp
          | some pp =>
            obtain ⟨p, pt⟩ := pp
            rw [htn] at hch
            simp only [Option.some.injEq, Prod.mk.injEq] at hch
            obtain ⟨⟨rfl, rfl⟩, rfl⟩ := hch
            unfold allowedResolver; rw [htn]; exact ⟨rfl, rfl⟩
        -- the recursive call, wrapped by `retry`
        have hretry : ∀ (h1 : DnsH) (sc2 : Script) (e : Nat),
            h1.tries = h.tries + 1 → h1.chan = h.chan → h1.hid = h.hid → h1.request = h.request →
            h1.deadline = h.deadline → h1.ok = h.ok → h1.socks = h.socks →
            TryOK cfg h ns
              (if cfg.netErrs.contains e = true then
                { trySend cfg fuel h1 (ns + 1) sc2 with attempts := (trySend cfg fuel h1 (ns + 1) sc2).attempts + 1 }
               else ⟨h1, ns + 1, sc2, [], 1, none⟩) := by
          intro h1 sc2 e e1 e2 e3 e4 e5 e6 e7
          split
          · have r := ih h1 (ns + 1) sc2
            refine ⟨?_, ?_, ?_, ?_, r.sends_le, ?_, ?_, ?_⟩
            · have := r.tries_le; dsimp only; omega
            · have := r.tries_mono; dsimp only; omega
            · have := r.attempts; dsimp only; omega
            · have := r.socks_used; dsimp only; omega
            · intro s hs
              obtain ⟨a, b, c, d, e', f⟩ := r.sends_ok s hs
              exact ⟨by rw [a, e4], by rw [b, e2], by rw [c, e3], d, by omega, f⟩
            · obtain ⟨a, b, c, d, e'⟩ := r.same
              exact ⟨by rw [a, e2], by rw [b, e3], by rw [c, e4], by rw [d, e5], by rw [e', e6]⟩
            · have := r.socks; dsimp only; rw [this, e7]
          · exact ⟨by arith, by arith, by arith, by arith, by arith,
              (fun s hs => by cases hs), ⟨e2, e3, e4, e5, e6⟩, by simp [e7]⟩
        split
        · -- connect failed, not inside the try: OSError propagates
          exact ⟨by arith, by arith, by arith, by arith, by arith, (fun s hs => by cases hs), ⟨rfl, rfl, rfl, rfl, rfl⟩, by arith⟩
        · -- connect failed inside the try
          exact hretry _ _ _ rfl rfl rfl rfl rfl rfl rfl
        · split
          · -- sent
            refine ⟨by arith, by arith, by arith, by arith, by arith, ?_,
              ⟨rfl, rfl, rfl, rfl, rfl⟩, by arith⟩
            intro s hs
            simp only [List.mem_singleton] at hs
            subst hs
            exact ⟨rfl, rfl, rfl, hallow, by arith, by arith⟩
          · exact hretry _ _ _ rfl rfl rfl rfl rfl rfl rfl

end Sshuttle.Dgram
