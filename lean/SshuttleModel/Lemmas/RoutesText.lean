import SshuttleModel.Lemmas.RoutesBits
namespace Sshuttle.Routes
open Sshuttle.Routes.Spec

/-!
Text-level lemmas for C17: what `advertise` (one line of `ip route` / `netstat -rn` output through
`_list_routes` and the `list_routes` filter) yields for the destination forms of the two tool grammars
(`Spec/Routes.lean`).  Bounded digit facts (octets < 256, prefix lengths ≤ 32) are proved by
evaluation (`decide +kernel`, using the `DecidableEq (Except _ _)` instance of `RoutesBits`); the
token / regular-expression lemmas are generic in the digit strings.
-/

/-! ### generic list lemmas -/

theorem takeWhile_all' {p : Nat → Bool} : ∀ (l : Str), (∀ c ∈ l, p c = true) → l.takeWhile p = l
  | [], _ => rfl
  | x :: l, h => by
    have hx : p x = true := h x (by simp)
    have := takeWhile_all' (p := p) l (fun c hc => h c (by simp [hc]))
    simp [hx, this]

theorem dropWhile_all' {p : Nat → Bool} : ∀ (l : Str), (∀ c ∈ l, p c = true) → l.dropWhile p = []
  | [], _ => rfl
  | x :: l, h => by
    have hx : p x = true := h x (by simp)
    have := dropWhile_all' (p := p) l (fun c hc => h c (by simp [hc]))
    simp [hx, this]

/-- `r` is empty or starts with a character on which `p` is false. -/
def Stops (p : Nat → Bool) (r : Str) : Prop := r = [] ∨ ∃ c t, r = c :: t ∧ p c = false

theorem takeWhile_stop {p : Nat → Bool} : ∀ (l r : Str), (∀ c ∈ l, p c = true) → Stops p r →
    (l ++ r).takeWhile p = l
  | [], r, _, hr => by
    rcases hr with rfl | ⟨c, t, rfl, hc⟩
    · rfl
    · simp [hc]
  | x :: l, r, h, hr => by
    have hx : p x = true := h x (by simp)
    have := takeWhile_stop (p := p) l r (fun c hc => h c (by simp [hc])) hr
    simp [hx, this]

theorem dropWhile_stop {p : Nat → Bool} : ∀ (l r : Str), (∀ c ∈ l, p c = true) → Stops p r →
    (l ++ r).dropWhile p = r
  | [], r, _, hr => by
    rcases hr with rfl | ⟨c, t, rfl, hc⟩
    · rfl
    · simp [hc]
  | x :: l, r, h, hr => by
    have hx : p x = true := h x (by simp)
    have := dropWhile_stop (p := p) l r (fun c hc => h c (by simp [hc])) hr
    simp [hx, this]

/-! ### tokens -/

/-- Non-empty, no white space. -/
def Tok (t : Str) : Prop := t ≠ [] ∧ ∀ c ∈ t, isUSpace c = false

/-- Empty or starts with white space. -/
def Sp (r : Str) : Prop := r = [] ∨ ∃ c t, r = c :: t ∧ isUSpace c = true

theorem Tok.of_column {t : Str} (h : Column t) : Tok t := ⟨h.1, fun c hc => (h.2 c hc).2⟩
theorem Sp.of_rest {r : Str} (h : Rest r) : Sp r := h.2
theorem Sp.of_blanks_append {s : Str} (h : Blanks s) (r : Str) : Sp (s ++ r) := by
  obtain ⟨hne, hs⟩ := h
  cases s with
  | nil => exact absurd rfl hne
  | cons c t =>
    refine Or.inr ⟨c, t ++ r, rfl, ?_⟩
    rcases hs c (by simp) with rfl | rfl <;> decide

theorem blanks_space {s : Str} (h : Blanks s) : ∀ c ∈ s, isUSpace c = true := by
  intro c hc
  rcases h.2 c hc with rfl | rfl <;> decide

theorem nextToken_tok (tok r : Str) (ht : Tok tok) (hr : Sp r) : nextToken (tok ++ r) = some (tok, r) := by
  obtain ⟨hne, hns⟩ := ht
  have hstop : Stops (fun c => !isUSpace c) r := by
    rcases hr with rfl | ⟨c, t, rfl, hc⟩
    · exact Or.inl rfl
    · exact Or.inr ⟨c, t, rfl, by simp [hc]⟩
  have hall : ∀ c ∈ tok, (fun c => !isUSpace c) c = true := fun c hc => by simp [hns c hc]
  cases tok with
  | nil => exact absurd rfl hne
  | cons x t =>
    have hx : isUSpace x = false := hns x (by simp)
    have h1 : ((x :: t) ++ r).dropWhile isUSpace = (x :: t) ++ r := by
      simp [hx]
    unfold nextToken
    simp only [h1]
    rw [takeWhile_stop _ _ hall hstop, dropWhile_stop _ _ hall hstop]
    simp

theorem nextToken_blanks (s r : Str) (hs : ∀ c ∈ s, isUSpace c = true) : nextToken (s ++ r) = nextToken r := by
  have : (s ++ r).dropWhile isUSpace = r.dropWhile isUSpace := by
    induction s with
    | nil => rfl
    | cons x t ih =>
      have hx : isUSpace x = true := hs x (by simp)
      simp [hx]
      exact ih (fun c hc => hs c (by simp [hc]))
  unfold nextToken
  simp only [this]

theorem splitWs_three (c0 s1 gw s2 c2 rest : Str) (h0 : Tok c0) (hs1 : Blanks s1) (hgw : Tok gw)
    (hs2 : Blanks s2) (h2 : Tok c2) (hr : Sp rest) :
    ∃ more, splitWs (c0 ++ s1 ++ gw ++ s2 ++ c2 ++ rest) = c0 :: gw :: c2 :: more := by
  have hlen : ∃ f, (c0 ++ s1 ++ gw ++ s2 ++ c2 ++ rest).length + 1 = f + 3 := by
    have a0 : 1 ≤ c0.length := by
      cases c0 with
      | nil => exact absurd rfl h0.1
      | cons => simp
    have a1 : 1 ≤ s1.length := by
      cases s1 with
      | nil => exact absurd rfl hs1.1
      | cons => simp
    refine ⟨(c0 ++ s1 ++ gw ++ s2 ++ c2 ++ rest).length - 2, ?_⟩
    simp only [List.length_append]
    omega
  obtain ⟨f, hf⟩ := hlen
  refine ⟨splitWsFuel f rest, ?_⟩
  unfold splitWs
  rw [hf]
  simp only [List.append_assoc]
  have e0 := nextToken_tok c0 (s1 ++ (gw ++ (s2 ++ (c2 ++ rest)))) h0 (Sp.of_blanks_append hs1 _)
  have e1 : nextToken (s1 ++ (gw ++ (s2 ++ (c2 ++ rest)))) = some (gw, s2 ++ (c2 ++ rest)) := by
    rw [nextToken_blanks _ _ (blanks_space hs1)]
    exact nextToken_tok gw _ hgw (Sp.of_blanks_append hs2 _)
  have e2 : nextToken (s2 ++ (c2 ++ rest)) = some (c2, rest) := by
    rw [nextToken_blanks _ _ (blanks_space hs2)]
    exact nextToken_tok c2 _ h2 hr
  simp only [splitWsFuel, e0, e1, e2]

/-! ### decimal digits (bounded facts by evaluation) -/

/-- Non-empty string of ASCII digits. -/
def Dig (d : Str) : Prop := d ≠ [] ∧ ∀ c ∈ d, isDigit c = true

theorem oct_facts : ∀ o, o < 256 →
    decDigits o ≠ [] ∧ (decDigits o).all isDigit = true ∧ atonPart (decDigits o) = some o := by
  decide +kernel

theorem dig_oct {o : Nat} (h : o < 256) : Dig (decDigits o) :=
  ⟨(oct_facts o h).1, fun c hc => by have := (oct_facts o h).2.1; simp only [List.all_eq_true] at this; exact this c hc⟩

theorem aton_oct {o : Nat} (h : o < 256) : atonPart (decDigits o) = some o := (oct_facts o h).2.2

theorem pyInt_dec : ∀ n, n ≤ 32 → pyInt (decDigits n) = .ok (n : Int) := by decide +kernel

theorem digit_props {c : Nat} (h : isDigit c = true) :
    isUSpace c = false ∧ isBSpace c = false ∧ c ≠ 47 ∧ c ≠ 46 ∧ c < 128 := by
  simp only [isDigit, Bool.and_eq_true, decide_eq_true_eq] at h
  simp only [isUSpace, isBSpace, Bool.or_eq_false_iff, Bool.and_eq_false_iff, beq_eq_false_iff_ne,
    decide_eq_false_iff_not]
  omega

/-- Empty or starts with a non-digit. -/
abbrev NDH (r : Str) : Prop := Stops isDigit r

theorem digitsSpan_dig {d r : Str} (hd : Dig d) (hr : NDH r) : digitsSpan (d ++ r) = (d, r) := by
  unfold digitsSpan
  rw [takeWhile_stop _ _ hd.2 hr, dropWhile_stop _ _ hd.2 hr]

theorem reSlash_dig (acc : List Str) {d : Str} (hd : Dig d) : reSlash acc d = some (acc, some d) := by
  have h := digitsSpan_dig hd (Or.inl rfl)
  rw [List.append_nil] at h
  obtain ⟨hne, -⟩ := hd
  cases d with
  | nil => exact absurd rfl hne
  | cons c t =>
    unfold reSlash
    rw [h]
    simp [atEnd]

theorem reTail_nil (k : Nat) (acc : List Str) : reTail k acc [] = some (acc, none) := by
  cases k <;> rfl

theorem reTail_slash (k : Nat) (acc : List Str) {d : Str} (hd : Dig d) :
    reTail k acc (47 :: d) = some (acc, some d) := by
  cases k <;> simp [reTail, reSlash_dig acc hd]

theorem reTail_dot (k : Nat) (acc : List Str) {d r : Str} (hd : Dig d) (hr : NDH r) :
    reTail (k + 1) acc (46 :: (d ++ r)) = reTail k (acc ++ [d]) r := by
  have h := digitsSpan_dig hd hr
  obtain ⟨hne, -⟩ := hd
  cases d with
  | nil => exact absurd rfl hne
  | cons c t =>
    rw [reTail]
    simp only [h]
    simp

theorem reIp_dig {d r : Str} (hd : Dig d) (hr : NDH r) : reIp (d ++ r) = reTail 3 [d] r := by
  have h := digitsSpan_dig hd hr
  obtain ⟨hne, -⟩ := hd
  cases d with
  | nil => exact absurd rfl hne
  | cons c t =>
    unfold reIp
    rw [h]

theorem reIp_nondigit {c : Nat} (t : Str) (hc : isDigit c = false) : reIp (c :: t) = none := by
  unfold reIp digitsSpan
  simp [hc]

/-! ### dotted octets and `_ipmatch` -/

/-- `.b.c` … -/
def dotted : List Nat → Str
  | [] => []
  | x :: r => 46 :: (decDigits x ++ dotted r)

theorem octText_cons (a : Nat) (o : List Nat) : octText (a :: o) = decDigits a ++ dotted o := by
  induction o generalizing a with
  | nil => simp [octText, dotted]
  | cons b r ih =>
    rw [octText, ih b]
    · simp [dotted]
    · simp

/-- What may follow the dotted part: nothing, or `/` and digits; with the text of group 5. -/
inductive TailOk : Str → Option Str → Prop
  | none : TailOk [] none
  | slash (d : Str) (hd : Dig d) : TailOk (47 :: d) (some d)

theorem ndh_dotted_tail (o : List Nat) {tail : Str} {g : Option Str} (h : TailOk tail g) :
    NDH (dotted o ++ tail) := by
  cases o with
  | nil =>
    cases h with
    | none => exact Or.inl rfl
    | slash d hd => exact Or.inr ⟨47, d, rfl, by decide⟩
  | cons x r => exact Or.inr ⟨46, _, rfl, by decide⟩

theorem reTail_dotted (o : List Nat) : ∀ (k : Nat) (acc : List Str) (tail : Str) (g : Option Str),
    (∀ x ∈ o, x < 256) → o.length ≤ k → TailOk tail g →
    reTail k acc (dotted o ++ tail) = some (acc ++ o.map decDigits, g) := by
  induction o with
  | nil =>
    intro k acc tail g _ _ ht
    cases ht with
    | none => simp [dotted, reTail_nil]
    | slash d hd => simp [dotted, reTail_slash k acc hd]
  | cons x r ih =>
    intro k acc tail g ho hk ht
    cases k with
    | zero => simp at hk
    | succ k =>
      have hx : x < 256 := ho x (by simp)
      have e : dotted (x :: r) ++ tail = 46 :: (decDigits x ++ (dotted r ++ tail)) := by simp [dotted]
      rw [e, reTail_dot k acc (dig_oct hx) (ndh_dotted_tail r ht),
        ih k (acc ++ [decDigits x]) tail g (fun y hy => ho y (by simp [hy])) (by simpa using hk) ht]
      simp

theorem reIp_oct (a : Nat) (o : List Nat) (tail : Str) (g : Option Str) (ha : a < 256)
    (ho : ∀ x ∈ o, x < 256) (hlen : o.length ≤ 3) (ht : TailOk tail g) :
    reIp (octText (a :: o) ++ tail) = some (decDigits a :: o.map decDigits, g) := by
  rw [octText_cons, List.append_assoc, reIp_dig (dig_oct ha) (ndh_dotted_tail o ht),
    reTail_dotted o 3 [decDigits a] tail g ho hlen ht]
  simp

theorem digit_head_ne_default {d r : Str} (hd : Dig d) : d ++ r ≠ Gen.C17.DEFAULT_TEXT := by
  obtain ⟨hne, hall⟩ := hd
  cases d with
  | nil => exact absurd rfl hne
  | cons c t =>
    intro h
    have hc : isDigit c = true := hall c (by simp)
    simp only [Gen.C17.DEFAULT_TEXT, List.cons_append, List.cons.injEq] at h
    rw [h.1] at hc
    exact absurd hc (by decide)

theorem ipmatch_of_reIp {s : Str} {octs : List Str} {g : Option Str} {W : Int} {ip : Nat}
    (hs : s ≠ Gen.C17.DEFAULT_TEXT) (h : reIp s = some (octs, g)) (hW : groupWidth g = .ok W)
    (hip : inetAton4 (padCap octs W).1 = .ok ip) :
    ipmatch s = .ok (some (ip, (padCap octs W).2)) := by
  unfold ipmatch
  simp only [if_neg hs, h, hW, hip]

theorem aton_zero : atonPart [48] = some 0 := by decide

/-- Width the text of a network destination carries by itself (`/n`, or 32). -/
def ownWidth : Option Nat → Nat
  | none => 32
  | some n => n

theorem ipmatch_net (o : List Nat) (p : Option Nat) (h1 : 1 ≤ o.length) (h4 : o.length ≤ 4)
    (ho : ∀ x ∈ o, x < 256) (hp : ∀ n, p = some n → n ≤ 32) :
    ipmatch (Dest.net o p).text =
      .ok (some (padded o, ((min (ownWidth p) (8 * o.length) : Nat) : Int))) := by
  cases o with
  | nil => simp at h1
  | cons a o =>
    have ha : a < 256 := ho a (by simp)
    have ho' : ∀ x ∈ o, x < 256 := fun x hx => ho x (by simp [hx])
    have hlen : o.length ≤ 3 := by simpa using h4
    -- the text and its groups
    obtain ⟨tail, g, ht, htext, hW⟩ : ∃ tail g, TailOk tail g ∧ (Dest.net (a :: o) p).text = octText (a :: o) ++ tail ∧
        groupWidth g = .ok ((ownWidth p : Nat) : Int) := by
      cases p with
      | none => exact ⟨[], none, .none, by simp [Dest.text], by simp [groupWidth, ownWidth, Gen.C17.DEFAULT_WIDTH]⟩
      | some n =>
        have hn : n ≤ 32 := hp n rfl
        exact ⟨47 :: decDigits n, some (decDigits n), .slash _ (dig_oct (by omega)),
          by simp [Dest.text], by simp [groupWidth, ownWidth, pyInt_dec n hn]⟩
    have hre := reIp_oct a o tail g ha ho' hlen ht
    have hne : octText (a :: o) ++ tail ≠ Gen.C17.DEFAULT_TEXT := by
      rw [octText_cons, List.append_assoc]; exact digit_head_ne_default (dig_oct ha)
    have hw32 : ownWidth p ≤ 32 := by
      cases p with
      | none => simp [ownWidth]
      | some n => exact hp n rfl
    rw [htext]
    match o, ho', hlen, hre with
    | [], _, _, hre =>
      rw [ipmatch_of_reIp hne hre hW (ip := padded [a]) (by
        simp [padCap, inetAton4, aton_oct ha, aton_zero, padded])]
      simp [padCap, Gen.C17.CAP1]
      omega
    | [b], ho', _, hre =>
      have hb : b < 256 := ho' b (by simp)
      rw [ipmatch_of_reIp hne hre hW (ip := padded [a, b]) (by
        simp [padCap, inetAton4, aton_oct ha, aton_oct hb, aton_zero, padded])]
      simp [padCap, Gen.C17.CAP2]
      omega
    | [b, c], ho', _, hre =>
      have hb : b < 256 := ho' b (by simp)
      have hc : c < 256 := ho' c (by simp)
      rw [ipmatch_of_reIp hne hre hW (ip := padded [a, b, c]) (by
        simp [padCap, inetAton4, aton_oct ha, aton_oct hb, aton_oct hc, aton_zero, padded])]
      simp [padCap, Gen.C17.CAP3]
      omega
    | [b, c, d], ho', _, hre =>
      have hb : b < 256 := ho' b (by simp)
      have hc : c < 256 := ho' c (by simp)
      have hd : d < 256 := ho' d (by simp)
      rw [ipmatch_of_reIp hne hre hW (ip := padded [a, b, c, d]) (by
        simp [padCap, inetAton4, aton_oct ha, aton_oct hb, aton_oct hc, aton_oct hd, padded])]
      simp [padCap]
      omega
    | _ :: _ :: _ :: _ :: _, _, hlen, _ => simp at hlen

/-! ### mask arithmetic, `inet_ntoa`, the loopback / 0.x filter -/

theorem inetNtoa_eq (a : Nat) : inetNtoa a = quadText a := by
  simp [inetNtoa, quadText, octText]

theorem landInt_nat (a x : Nat) : landInt a (Int.ofNat x) = a &&& x := rfl

theorem shl_mask : ∀ w : Nat, w ≤ 32 →
    (shl 1 (w : Int) >>= fun one => shl (one - 1) ((Gen.C17.TOTAL_BITS : Int) - (w : Int))) =
      .ok (Int.ofNat ((2 ^ w - 1) * 2 ^ (32 - w))) := by
  decide +kernel

theorem mkRoute_spec (ip : Nat) (W M : Int) (w : Nat) (hip : ip < 2 ^ 32) (hw : w ≤ 32)
    (hmin : min W M = (w : Int)) :
    mkRoute (ip, W) M = .ok ⟨2, quadText (canonNet ip w), (w : Int)⟩ := by
  have h := shl_mask w hw
  unfold mkRoute
  simp only [hmin]
  cases h1 : shl 1 (w : Int) with
  | error e => rw [h1] at h; cases h
  | ok one =>
    rw [h1] at h
    simp only [bind, Except.bind] at h ⊢
    rw [h]
    simp only [landInt_nat, land_mask ip w hip hw]
    have hlt : ¬ (ip - ip % 2 ^ (32 - w) ≥ 4294967296) := by
      have : ip < 4294967296 := hip
      omega
    rw [if_neg hlt]
    simp [pure, Except.pure, inetNtoa_eq, canonNet, Generated.AF_INET]

theorem startsWith_eq (p s : Str) : startsWith p s = p.isPrefixOf s := by
  rw [Bool.eq_iff_iff, List.isPrefixOf_iff_prefix, List.prefix_iff_eq_take]
  unfold startsWith
  rw [beq_iff_eq]
  exact eq_comm

theorem isPrefixOf_append (l : Str) : ∀ (p r : Str),
    p.isPrefixOf (l ++ r) = ((p.take l.length).isPrefixOf l && (p.drop l.length).isPrefixOf r) := by
  induction l with
  | nil => intro p r; simp
  | cons y l ih =>
    intro p r
    cases p with
    | nil => simp
    | cons x p => simp [List.isPrefixOf, ih p r, Bool.and_assoc]

theorem first_oct_filter : ∀ o, o < 256 →
    let l := decDigits o ++ [46]
    (o = 0 → l = [48, 46]) ∧ (o = 127 → l = [49, 50, 55, 46]) ∧
    (o ≠ 0 → (([48, 46] : Str).take l.length).isPrefixOf l = false) ∧
    (o ≠ 127 → (([49, 50, 55, 46] : Str).take l.length).isPrefixOf l = false) := by
  decide +kernel

theorem keepRoute_spec (a : Nat) (w : Int) (ha : a < 2 ^ 32) :
    keepRoute ⟨2, quadText a, w⟩ = !(decide (a / 2 ^ 24 = 0 ∨ a / 2 ^ 24 = 127)) := by
  have ho : a / 2 ^ 24 < 256 := by omega
  obtain ⟨h0, h127, hn0, hn127⟩ := first_oct_filter (a / 2 ^ 24) ho
  have e : quadText a = (decDigits (a / 2 ^ 24) ++ [46]) ++
      octText [a / 2 ^ 16 % 256, a / 2 ^ 8 % 256, a % 256] := by
    simp [quadText, octText]
  simp only [keepRoute, Gen.C17.FILTER_PREFIXES, List.all_cons, List.all_nil, Bool.and_true, startsWith_eq, e,
    isPrefixOf_append (decDigits (a / 2 ^ 24) ++ [46])]
  by_cases c0 : a / 2 ^ 24 = 0
  · rw [h0 c0]; simp [c0]
  · by_cases c127 : a / 2 ^ 24 = 127
    · rw [h127 c127]; simp [c127]
    · rw [hn0 c0, hn127 c127]; simp [c0, c127]

/-! ### the loop body -/

theorem lineStep_of (tool : Tool) (line : Str) (ipw : Nat × Int) (M : Int)
    (h1 : line.all isBSpace = false) (h2 : ∀ c ∈ line, c < 128)
    (h3 : extractRoute tool line = .ok (some ipw, some M)) (hM : 0 ≤ M) :
    lineStep tool line = (mkRoute ipw M).map some := by
  have hdec : decodeAscii line = .ok line := by
    unfold decodeAscii
    rw [if_pos]
    simpa using h2
  unfold lineStep
  simp only [h1, hdec, bind, Except.bind, h3]
  simp [show ¬ M < 0 by omega]

/-- What is advertised once the extractor has produced address `ip`, widths `W` and `M` with
`min W M = w`. -/
theorem advertise_core (tool : Tool) (line : Str) (ip : Nat) (W M : Int) (w : Nat)
    (h1 : line.all isBSpace = false) (h2 : ∀ c ∈ line, c < 128)
    (h3 : extractRoute tool line = .ok (some (ip, W), some M)) (hM : 0 ≤ M)
    (hip : ip < 2 ^ 32) (hw : w ≤ 32) (hmin : min W M = (w : Int)) :
    advertise tool line =
      .ok ((if canonNet ip w / 2 ^ 24 = 0 ∨ canonNet ip w / 2 ^ 24 = 127 then none
            else some (canonNet ip w, w)).map toRoute) := by
  have hc : canonNet ip w < 2 ^ 32 := by unfold canonNet; omega
  unfold advertise
  rw [lineStep_of tool line (ip, W) M h1 h2 h3 hM, mkRoute_spec ip W M w hip hw hmin]
  by_cases c : canonNet ip w / 2 ^ 24 = 0 ∨ canonNet ip w / 2 ^ 24 = 127
  · simp only [Except.map, Option.filter, keepRoute_spec _ _ hc, c, decide_true, Bool.not_true, if_true,
      Option.map, Bool.false_eq_true, if_false]
  · simp only [Except.map, Option.filter, keepRoute_spec _ _ hc, c, decide_false, Bool.not_false, if_true,
      Option.map, if_false, toRoute]

theorem all_bspace_false {t r : Str} (ht : Tok t) : (t ++ r).all isBSpace = false := by
  obtain ⟨hne, h⟩ := ht
  cases t with
  | nil => exact absurd rfl hne
  | cons c t =>
    have hc : isUSpace c = false := h c (by simp)
    have : isBSpace c = false := by
      simp only [isUSpace, Bool.or_eq_false_iff] at hc
      simp only [isBSpace, Bool.or_eq_false_iff]
      exact hc.1
    simp [this]

/-! ### characters of destination texts -/

theorem dotted_chars (o : List Nat) (ho : ∀ x ∈ o, x < 256) : ∀ c ∈ dotted o, isDigit c = true ∨ c = 46 := by
  induction o with
  | nil => intro c hc; simp [dotted] at hc
  | cons x r ih =>
    intro c hc
    simp only [dotted, List.mem_cons, List.mem_append] at hc
    rcases hc with rfl | hc | hc
    · exact Or.inr rfl
    · exact Or.inl ((dig_oct (ho x (by simp))).2 c hc)
    · exact ih (fun y hy => ho y (by simp [hy])) c hc

theorem octText_chars (o : List Nat) (ho : ∀ x ∈ o, x < 256) : ∀ c ∈ octText o, isDigit c = true ∨ c = 46 := by
  cases o with
  | nil => intro c hc; simp [octText] at hc
  | cons a o =>
    intro c hc
    rw [octText_cons, List.mem_append] at hc
    rcases hc with hc | hc
    · exact Or.inl ((dig_oct (ho a (by simp))).2 c hc)
    · exact dotted_chars o (fun y hy => ho y (by simp [hy])) c hc

theorem octText_ne_nil (a : Nat) (o : List Nat) (ha : a < 256) : octText (a :: o) ≠ [] := by
  rw [octText_cons]
  have := (dig_oct ha).1
  simp [this]

theorem netch_props {c : Nat} (h : isDigit c = true ∨ c = 46 ∨ c = 47) : c < 128 ∧ isUSpace c = false := by
  rcases h with h | rfl | rfl
  · exact ⟨(digit_props h).2.2.2.2, (digit_props h).1⟩
  · decide
  · decide

theorem padded_lt (o : List Nat) (ho : ∀ x ∈ o, x < 256) : padded o < 2 ^ 32 := by
  match o, ho with
  | [], _ => simp [padded]
  | [a], ho =>
    have := ho a (by simp)
    simp only [padded]; omega
  | [a, b], ho =>
    have := ho a (by simp); have := ho b (by simp)
    simp only [padded]; omega
  | [a, b, c], ho =>
    have := ho a (by simp); have := ho b (by simp); have := ho c (by simp)
    simp only [padded]; omega
  | [a, b, c, d], ho =>
    have := ho a (by simp); have := ho b (by simp); have := ho c (by simp); have := ho d (by simp)
    simp only [padded]; omega
  | _ :: _ :: _ :: _ :: _ :: _, _ => simp [padded]

/-! ### `ip route` -/

theorem splitOn_none (sep : Nat) : ∀ (y : Str), sep ∉ y → splitOn sep y = [y]
  | [], _ => rfl
  | c :: r, h => by
    have hc : c ≠ sep := fun e => h (by simp [e])
    have := splitOn_none sep r (fun hm => h (by simp [hm]))
    simp [splitOn, hc, this]

theorem splitOn_one (sep : Nat) : ∀ (x y : Str), sep ∉ x → sep ∉ y → splitOn sep (x ++ sep :: y) = [x, y]
  | [], y, _, hy => by simp [splitOn, splitOn_none sep y hy]
  | c :: r, y, hx, hy => by
    have hc : c ≠ sep := fun e => hx (by simp [e])
    have := splitOn_one sep r y (fun hm => hx (by simp [hm])) hy
    simp [splitOn, hc, this]

theorem ipPrefix_cases {d : Dest} (h : IpPrefix d) : ∃ a b c e n, d = .net [a, b, c, e] (some n) ∧
    a < 256 ∧ b < 256 ∧ c < 256 ∧ e < 256 ∧ n ≤ 32 := by
  unfold IpPrefix at h
  split at h
  · exact ⟨_, _, _, _, _, rfl, h⟩
  · exact h.elim

/-- ip-route prefix form: `a.b.c.d/n` followed by anything the tool prints. -/
theorem advertise_iproute_prefix (d : Dest) (hd : IpPrefix d) (rest : Str) (hr : Rest rest) :
    advertise .iproute (d.text ++ rest) = .ok ((advertised d).map toRoute) := by
  obtain ⟨a, b, c, e, n, rfl, ha, hb, hc, he, hn⟩ := ipPrefix_cases hd
  have ho : ∀ x ∈ [a, b, c, e], x < 256 := by
    intro x hx; simp at hx; rcases hx with rfl | rfl | rfl | rfl <;> assumption
  have hnd : Dig (decDigits n) := dig_oct (by omega)
  -- the first column
  have hch : ∀ x ∈ (Dest.net [a, b, c, e] (some n)).text, isDigit x = true ∨ x = 46 ∨ x = 47 := by
    intro x hx
    simp only [Dest.text, List.mem_append, List.mem_singleton] at hx
    rcases hx with (hx | rfl) | hx
    · rcases octText_chars _ ho x hx with h | h
      · exact Or.inl h
      · exact Or.inr (Or.inl h)
    · exact Or.inr (Or.inr rfl)
    · exact Or.inl (hnd.2 x hx)
  have htok : Tok (Dest.net [a, b, c, e] (some n)).text :=
    ⟨by simp [Dest.text], fun x hx => (netch_props (hch x hx)).2⟩
  have hno1 : 47 ∉ octText [a, b, c, e] := by
    intro hm
    rcases octText_chars _ ho 47 hm with h | h
    · exact absurd h (by decide)
    · exact absurd h (by decide)
  have hno2 : 47 ∉ decDigits n := fun hm => absurd (hnd.2 47 hm) (by decide)
  have hip := ipmatch_net [a, b, c, e] none (by simp) (by simp) ho (by simp)
  have hex : extractRoute .iproute ((Dest.net [a, b, c, e] (some n)).text ++ rest) =
      .ok (some (padded [a, b, c, e], ((32 : Nat) : Int)), some (n : Int)) := by
    simp only [extractRoute, routeIproute]
    rw [nextToken_tok _ _ htok (Sp.of_rest hr)]
    have hcont : (Dest.net [a, b, c, e] (some n)).text.contains 47 = true := by
      simp [Dest.text]
    simp only [hcont, Bool.not_true, Bool.false_eq_true, if_false]
    have hsplit : splitOn 47 (Dest.net [a, b, c, e] (some n)).text = [octText [a, b, c, e], decDigits n] := by
      simp only [Dest.text, List.append_assoc, List.singleton_append]
      exact splitOn_one 47 _ _ hno1 hno2
    rw [hsplit]
    simp only [Dest.text] at hip
    simp only [hip, pyInt_dec n hn, bind, Except.bind, pure, Except.pure]
    simp [ownWidth]
  have hline : ∀ x ∈ (Dest.net [a, b, c, e] (some n)).text ++ rest, x < 128 := by
    intro x hx
    rw [List.mem_append] at hx
    rcases hx with hx | hx
    · exact (netch_props (hch x hx)).1
    · exact hr.1 x hx
  rw [advertise_core .iproute _ (padded [a, b, c, e]) _ _ n (all_bspace_false htok) hline hex (by omega)
    (padded_lt _ ho) hn (by omega)]
  simp [advertised, Dest.width]

/-! ### `netstat -rn` -/

theorem routeNetstat_cols (c0 s1 gw s2 c2 rest : Str) (h0 : Tok c0) (hs1 : Blanks s1) (hgw : Tok gw)
    (hs2 : Blanks s2) (h2 : Tok c2) (hr : Sp rest) :
    routeNetstat (c0 ++ s1 ++ gw ++ s2 ++ c2 ++ rest) =
      (ipmatch c0 >>= fun ipw => ipmatch c2 >>= fun maskw => pure (ipw, some (maskbits maskw : Int))) := by
  obtain ⟨more, h⟩ := splitWs_three c0 s1 gw s2 c2 rest h0 hs1 hgw hs2 h2 hr
  unfold routeNetstat
  simp only [h, Gen.C17.NETSTAT_MIN_COLS, Gen.C17.NETSTAT_IP_COL, Gen.C17.NETSTAT_MASK_COL, List.length_cons]
  rw [if_neg (by omega)]
  simp

theorem blanks_ascii {s : Str} (h : Blanks s) : ∀ c ∈ s, c < 128 := by
  intro c hc
  rcases h.2 c hc with rfl | rfl <;> decide

theorem advertise_netstat_core (c0 s1 gw s2 c2 rest : Str) (h0 : Column c0) (hs1 : Blanks s1) (hgw : Column gw)
    (hs2 : Blanks s2) (h2 : Column c2) (hr : Rest rest) (ip : Nat) (W : Int) (mw : Option (Nat × Int)) (w : Nat)
    (e0 : ipmatch c0 = .ok (some (ip, W))) (e2 : ipmatch c2 = .ok mw)
    (hip : ip < 2 ^ 32) (hw : w ≤ 32) (hmin : min W (maskbits mw : Int) = (w : Int)) :
    advertise .netstat (c0 ++ s1 ++ gw ++ s2 ++ c2 ++ rest) =
      .ok ((if canonNet ip w / 2 ^ 24 = 0 ∨ canonNet ip w / 2 ^ 24 = 127 then none
            else some (canonNet ip w, w)).map toRoute) := by
  have hex : extractRoute .netstat (c0 ++ s1 ++ gw ++ s2 ++ c2 ++ rest) =
      .ok (some (ip, W), some (maskbits mw : Int)) := by
    simp only [extractRoute]
    rw [routeNetstat_cols c0 s1 gw s2 c2 rest (.of_column h0) hs1 (.of_column hgw) hs2 (.of_column h2)
      (.of_rest hr), e0, e2]
    rfl
  have hline : ∀ x ∈ c0 ++ s1 ++ gw ++ s2 ++ c2 ++ rest, x < 128 := by
    intro x hx
    simp only [List.mem_append] at hx
    rcases hx with ((((hx | hx) | hx) | hx) | hx) | hx
    · exact (h0.2 x hx).1
    · exact blanks_ascii hs1 x hx
    · exact (hgw.2 x hx).1
    · exact blanks_ascii hs2 x hx
    · exact (h2.2 x hx).1
    · exact hr.1 x hx
  have hbs : (c0 ++ s1 ++ gw ++ s2 ++ c2 ++ rest).all isBSpace = false := by
    simp only [List.append_assoc]
    exact all_bspace_false (.of_column h0)
  exact advertise_core .netstat _ ip W _ w hbs hline hex (by omega) hip hw hmin

theorem column_octText (a : Nat) (o : List Nat) (ho : ∀ x ∈ a :: o, x < 256) : Column (octText (a :: o)) := by
  refine ⟨octText_ne_nil a o (ho a (by simp)), fun c hc => ?_⟩
  rcases octText_chars _ ho c hc with h | h
  · exact netch_props (Or.inl h)
  · exact netch_props (Or.inr (Or.inl h))

theorem mask_facts : ∀ n, n ≤ 32 →
    netmask n = (2 ^ n - 1) * 2 ^ (32 - n) ∧ quadText (netmask n) ≠ [] ∧
    (quadText (netmask n)).all (fun c => decide (c < 128) && !isUSpace c) = true ∧
    ipmatch (quadText (netmask n)) = .ok (some (netmask n, 32)) := by
  decide +kernel

/-- netstat -rn, Linux: destination, gateway column, contiguous Genmask of length n, then anything. -/
theorem advertise_netstat_linux (a b c d n : Nat) (ha : a < 256) (hb : b < 256) (hc : c < 256) (hd : d < 256)
    (hn : n ≤ 32) (s1 s2 gw rest : Str) (hs1 : Blanks s1) (hs2 : Blanks s2) (hgw : Column gw) (hr : Rest rest) :
    advertise .netstat (octText [a, b, c, d] ++ s1 ++ gw ++ s2 ++ quadText (netmask n) ++ rest) =
      .ok ((advertised (.net [a, b, c, d] (some n))).map toRoute) := by
  have ho : ∀ x ∈ [a, b, c, d], x < 256 := by
    intro x hx; simp at hx; rcases hx with rfl | rfl | rfl | rfl <;> assumption
  obtain ⟨hnm, hne, hall, hipm⟩ := mask_facts n hn
  have hcol2 : Column (quadText (netmask n)) := by
    refine ⟨hne, fun x hx => ?_⟩
    rw [List.all_eq_true] at hall
    have := hall x hx
    simpa using this
  have e0 := ipmatch_net [a, b, c, d] none (by simp) (by simp) ho (by simp)
  simp only [Dest.text] at e0
  have hmb : maskbits (some (netmask n, 32)) = n := by
    rw [hnm]; exact maskbits_contig n hn
  rw [advertise_netstat_core _ s1 gw s2 _ rest (column_octText a _ ho) hs1 hgw hs2 hcol2 hr
    (padded [a, b, c, d]) _ _ n e0 hipm (padded_lt _ ho) hn (by rw [hmb]; simp [ownWidth]; omega)]
  simp [advertised, Dest.width]

/-! ### `netstat -rn`, BSD -/

theorem column_flags {fl : Str} (h : Flags fl) : Column fl := by
  refine ⟨h.1, fun c hc => ?_⟩
  have := h.2 c hc
  simp only [isUSpace, Bool.or_eq_false_iff, Bool.and_eq_false_iff, beq_eq_false_iff_ne,
    decide_eq_false_iff_not]
  omega

theorem ipmatch_flags {fl : Str} (h : Flags fl) (hne : fl ≠ defaultText) : ipmatch fl = .ok none := by
  obtain ⟨hnil, hl⟩ := h
  cases fl with
  | nil => exact absurd rfl hnil
  | cons c t =>
    have hc : isDigit c = false := by
      have := hl c (by simp)
      simp only [isDigit, Bool.and_eq_false_iff, decide_eq_false_iff_not]
      omega
    have hne' : c :: t ≠ Gen.C17.DEFAULT_TEXT := hne
    unfold ipmatch
    simp only [if_neg hne', reIp_nondigit t hc]

theorem column_default : Column defaultText := by
  refine ⟨by decide, ?_⟩
  decide

theorem ipmatch_default : ipmatch defaultText = .ok (some (0, 0)) := by decide +kernel

theorem column_net_text (a : Nat) (o : List Nat) (p : Option Nat) (ho : ∀ x ∈ a :: o, x < 256)
    (hp : ∀ n, p = some n → n ≤ 32) : Column (Dest.net (a :: o) p).text := by
  cases p with
  | none => exact column_octText a o ho
  | some n =>
    have hn : n ≤ 32 := hp n rfl
    have hnd : Dig (decDigits n) := dig_oct (by omega)
    refine ⟨by simp [Dest.text], fun x hx => ?_⟩
    simp only [Dest.text, List.mem_append, List.mem_singleton] at hx
    rcases hx with (hx | rfl) | hx
    · exact (column_octText a o ho).2 x hx
    · decide
    · exact netch_props (Or.inl (hnd.2 x hx))

/-- netstat -rn, BSD: `default` or an abbreviated network with optional /n, gateway column, flags (letters,
other than the word `default`), then anything. -/
theorem advertise_netstat_bsd (d : Dest) (hd : BsdNet d) (s1 s2 gw fl rest : Str) (hs1 : Blanks s1) (hs2 : Blanks s2)
    (hgw : Column gw) (hfl : Flags fl) (hfl' : fl ≠ defaultText) (hr : Rest rest) :
    advertise .netstat (d.text ++ s1 ++ gw ++ s2 ++ fl ++ rest) = .ok ((advertised d).map toRoute) := by
  have e2 := ipmatch_flags hfl hfl'
  cases d with
  | default =>
    show advertise .netstat (defaultText ++ s1 ++ gw ++ s2 ++ fl ++ rest) = _
    rw [advertise_netstat_core _ s1 gw s2 fl rest column_default hs1 hgw hs2 (column_flags hfl) hr
      0 0 none 0 ipmatch_default e2 (by decide) (by decide) (by decide)]
    simp [advertised, canonNet]
  | net o p =>
    obtain ⟨h1, h4, ho, hp⟩ := hd
    have hp32 : ∀ n, p = some n → n ≤ 32 := fun n hn => by have := hp n hn; omega
    have e0 := ipmatch_net o p h1 h4 ho hp32
    have hmin : min (((min (ownWidth p) (8 * o.length) : Nat) : Int)) ((maskbits none : Nat) : Int) =
        (((Dest.net o p).width : Nat) : Int) := by
      have hmb : maskbits none = 32 := rfl
      rw [hmb]
      cases p with
      | none => simp only [ownWidth, Dest.width]; omega
      | some n =>
        have := hp n rfl
        simp only [ownWidth, Dest.width]; omega
    have hw : (Dest.net o p).width ≤ 32 := by
      cases p with
      | none => simp only [Dest.width]; omega
      | some n => exact hp32 n rfl
    cases o with
    | nil => simp at h1
    | cons a o =>
      rw [advertise_netstat_core _ s1 gw s2 fl rest (column_net_text a o p ho hp32) hs1 hgw hs2 (column_flags hfl) hr
        (padded (a :: o)) _ none (Dest.net (a :: o) p).width e0 e2 (padded_lt _ ho) hw hmin]
      simp [advertised]

end Sshuttle.Routes
