/-
Render/parse round trip of the client/helper dialogue, line by line.
-/
import SshuttleModel.Lemmas.FwDialogueText
import SshuttleModel.Spec.FwDialogue

namespace Sshuttle.FwDialogue

/-! ### small facts about character classes -/

def Ascii (s : Str) : Prop := ∀ c ∈ s, c < 128

theorem ascii_nil : Ascii [] := by intro c h; cases h
theorem ascii_append {a b : Str} : Ascii (a ++ b) ↔ Ascii a ∧ Ascii b := by
  simp [Ascii, List.mem_append, or_imp, forall_and]
theorem ascii_cons {c : Nat} {r : Str} : Ascii (c :: r) ↔ c < 128 ∧ Ascii r := by
  simp [Ascii]
theorem ascii_dec (n : Nat) : Ascii (dec n) := by
  intro c h
  have := dec_digits n c h
  simp [isDigit] at this; omega
theorem ascii_of_textOk {t : Str} (h : TextOk t) : Ascii t := fun c hc => (h c hc).1
theorem ascii_of_wordOk {t : Str} (h : WordOk t) : Ascii t := fun c hc => (h c hc).1

theorem all_ascii {s : Str} (h : Ascii s) : s.all (· < 128) = true := by
  simpa [Ascii] using h

theorem decodeLine_line (body : Str) (ha : Ascii body) (ht : Trimmed body) :
    decodeLine (body ++ [10]) = some body := by
  unfold decodeLine
  have : Ascii (body ++ [10]) := ascii_append.mpr ⟨ha, by intro c h; simp at h; omega⟩
  simp only [all_ascii this, if_true, strip_trimmed_nl body ht]

theorem decodeLine_tail (body : Str) (ha : Ascii body) (ht : Trimmed body) :
    decodeLine body = some body := by
  unfold decodeLine
  simp only [all_ascii ha, if_true, strip_trimmed body ht]

theorem trimmed_ends (a mid b : Str) (ha : a ≠ []) (hah : ∀ x, a.head? = some x → isSpace x = false)
    (hb : b ≠ []) (hbl : ∀ y, b.getLast? = some y → isSpace y = false) : Trimmed (a ++ mid ++ b) := by
  apply trimmed_of
  · simp [ha]
  · intro x hx
    match a, ha with
    | c :: r, _ => simp at hx; subst hx; exact hah c rfl
  · intro y hy
    rw [List.getLast?_append] at hy
    cases hg : b.getLast? with
    | none => exact absurd (List.getLast?_eq_none_iff.mp hg) hb
    | some z => rw [hg] at hy; simp at hy; subst hy; exact hbl z hg

theorem dec_head_ok (n : Nat) : ∀ x, (dec n).head? = some x → isSpace x = false :=
  fun x hx => isDigit_not_space (dec_digits n x (List.mem_of_mem_head? hx))

theorem dec_last_ok (n : Nat) : ∀ y, (dec n).getLast? = some y → isSpace y = false :=
  fun y hy => isDigit_not_space (dec_digits n y (List.mem_of_getLast? hy))

theorem comma_not_dec (n : Nat) : 44 ∉ dec n := dec_not_mem n 44 rfl
theorem space_not_dec (n : Nat) : 32 ∉ dec n := dec_not_mem n 32 rfl
theorem nl_not_dec (n : Nat) : 10 ∉ dec n := dec_not_mem n 10 rfl

theorem comma_not_text {t : Str} (h : TextOk t) : 44 ∉ t := fun hc => (h 44 hc).2.1 rfl
theorem nl_not_text {t : Str} (h : TextOk t) : 10 ∉ t := fun hc => by
  have := (h 10 hc).2.2; simp [isSpace] at this
theorem space_not_word {t : Str} (h : WordOk t) : 32 ∉ t := fun hc => by
  have := (h 32 hc).2; simp [isSpace] at this
theorem nl_not_word {t : Str} (h : WordOk t) : 10 ∉ t := fun hc => by
  have := (h 10 hc).2; simp [isSpace] at this

theorem encodeAscii_ok {t : Str} (h : Ascii t) : encodeAscii t = some t := by
  simp [encodeAscii, all_ascii h]

theorem dec_flag (flag : Nat) (h : flag ≤ 1) : [48 + flag] = dec flag := by
  have : flag = 0 ∨ flag = 1 := by omega
  rcases this with rfl | rfl <;> rfl

theorem startsWith_digit_false (n : Nat) (s p : Str) (c : Nat) (hc : isDigit c = false) :
    startsWith (dec n ++ s) (c :: p) = false := by
  have hne := dec_ne_nil n
  match hd : dec n, hne with
  | x :: r, _ =>
    have hx : isDigit x = true := dec_digits n x (by rw [hd]; simp)
    have : x ≠ c := by intro e; subst e; simp [hx] at hc
    simp [startsWith, this]

/-! ### one route line -/

/-- Text of one route line without its newline. -/
def routeBody (flag : Nat) (s : Subnet) : Str :=
  dec s.family ++ 44 :: (dec s.width ++ 44 :: ([48 + flag] ++ 44 :: (s.ip ++ 44 ::
    (dec s.fport ++ 44 :: dec s.lport))))

theorem renderRoute_ok (flag : Nat) (s : Subnet) (hip : TextOk s.ip) :
    renderRoute flag s = some (routeBody flag s ++ [10]) := by
  simp [renderRoute, encodeAscii_ok (ascii_of_textOk hip), routeBody, List.append_assoc]

theorem routeBody_ascii (flag : Nat) (hf : flag ≤ 1) (s : Subnet) (hip : TextOk s.ip) :
    Ascii (routeBody flag s) := by
  unfold routeBody
  simp only [ascii_append, ascii_cons, ascii_dec, ascii_nil, ascii_of_textOk hip, true_and, and_true]
  omega

theorem routeBody_trimmed (flag : Nat) (s : Subnet) : Trimmed (routeBody flag s) := by
  have := trimmed_ends (dec s.family)
    (44 :: (dec s.width ++ 44 :: ([48 + flag] ++ 44 :: (s.ip ++ 44 :: (dec s.fport ++ [44])))))
    (dec s.lport) (dec_ne_nil _) (dec_head_ok _) (dec_ne_nil _) (dec_last_ok _)
  simpa [routeBody, List.append_assoc] using this

theorem routeBody_nl (flag : Nat) (hf : flag ≤ 1) (s : Subnet) (hip : TextOk s.ip) :
    10 ∉ routeBody flag s := by
  unfold routeBody
  simp only [List.mem_append, List.mem_cons, not_or, List.mem_nil_iff]
  refine ⟨nl_not_dec _, by omega, nl_not_dec _, by omega, ⟨by omega, not_false⟩, by omega,
    nl_not_text hip, by omega, nl_not_dec _, by omega, nl_not_dec _⟩

theorem splitRoute (flag : Nat) (hf : flag ≤ 1) (s : Subnet) (hip : TextOk s.ip) :
    splitMax 44 5 (routeBody flag s) =
      [dec s.family, dec s.width, dec flag, s.ip, dec s.fport, dec s.lport] := by
  unfold routeBody
  rw [splitMax_cons 44 4 _ _ (comma_not_dec _), splitMax_cons 44 3 _ _ (comma_not_dec _),
    dec_flag flag hf, splitMax_cons 44 2 _ _ (comma_not_dec _),
    splitMax_cons 44 1 _ _ (comma_not_text hip), splitMax_cons 44 0 _ _ (comma_not_dec _)]
  rfl

theorem parseRoutes_route (flag : Nat) (hf : flag ≤ 1) (s : Subnet) (hip : TextOk s.ip)
    (rest : List Bytes) :
    parseRoutes ((routeBody flag s ++ [10]) :: rest) =
      match parseRoutes rest with
      | .error e => .error e
      | .ok (l, line, r) => .ok (subnetSpec (flag == 1) s :: l, line, r) := by
  rw [parseRoutes]
  simp only [decodeLine_line _ (routeBody_ascii flag hf s hip) (routeBody_trimmed flag s)]
  have hne : routeBody flag s ≠ [] := by simp [routeBody, dec_ne_nil]
  have hns : startsWith (routeBody flag s) NSLIST = false := by
    unfold routeBody NSLIST
    exact startsWith_digit_false _ _ _ 78 rfl
  simp only [hne, if_false, hns, Gen.C13.ROUTE_MAXSPLIT, splitRoute flag hf s hip, pyInt_dec]
  have hflag : ((Int.ofNat flag != 0) = (flag == 1)) := by
    have : flag = 0 ∨ flag = 1 := by omega
    rcases this with rfl | rfl <;> rfl
  cases hp : parseRoutes rest with
  | error e => simp
  | ok v =>
    obtain ⟨l, line, r⟩ := v
    simp [subnetSpec]
    exact hflag

theorem parseRoutes_end (rest : List Bytes) :
    parseRoutes ((NSLIST ++ [10]) :: rest) = .ok ([], NSLIST, rest) := by
  rw [parseRoutes]
  have : decodeLine (NSLIST ++ [10]) = some NSLIST := by decide
  simp only [this]
  have h2 : startsWith NSLIST NSLIST = true := by decide
  have h3 : NSLIST ≠ [] := by decide
  simp [h2, h3]

theorem parseRoutes_list (flag : Nat) (hf : flag ≤ 1) : ∀ (subs : List Subnet),
    (∀ s ∈ subs, TextOk s.ip) → ∀ (rest : List Bytes) (l : List RSubnet) (line : Str) (r : List Bytes),
    parseRoutes rest = .ok (l, line, r) →
    parseRoutes (subs.map (fun s => routeBody flag s ++ [10]) ++ rest) =
      .ok (subs.map (subnetSpec (flag == 1)) ++ l, line, r)
  | [], _, rest, l, line, r, h => by simpa using h
  | s :: subs, hs, rest, l, line, r, h => by
    simp only [List.map_cons, List.cons_append]
    rw [parseRoutes_route flag hf s (hs s (by simp)),
      parseRoutes_list flag hf subs (fun x hx => hs x (by simp [hx])) rest l line r h]

/-! ### one name-server line -/

def nsBody (e : Nat × Str) : Str := dec e.1 ++ 44 :: e.2

theorem renderNs_ok (e : Nat × Str) (hip : TextOk e.2) : renderNs e = some (nsBody e ++ [10]) := by
  simp [renderNs, encodeAscii_ok (ascii_of_textOk hip), nsBody, List.append_assoc]

theorem nsBody_trimmed (e : Nat × Str) (hip : TextOk e.2) : Trimmed (nsBody e) := by
  have := trimmed_ends (dec e.1) [] (44 :: e.2) (dec_ne_nil _) (dec_head_ok _) (by simp) (by
    intro y hy
    have := List.mem_of_getLast? hy
    simp at this
    rcases this with rfl | h
    · rfl
    · exact (hip y h).2.2)
  simpa [nsBody] using this

theorem nsBody_nl (e : Nat × Str) (hip : TextOk e.2) : 10 ∉ nsBody e := by
  unfold nsBody
  simp only [List.mem_append, List.mem_cons, not_or]
  exact ⟨nl_not_dec _, by omega, nl_not_text hip⟩

theorem parseNs_ns (e : Nat × Str) (hip : TextOk e.2) (rest : List Bytes) :
    parseNs ((nsBody e ++ [10]) :: rest) =
      match parseNs rest with
      | .error err => .error err
      | .ok (l, line, r) => .ok ((Int.ofNat e.1, e.2) :: l, line, r) := by
  rw [parseNs]
  have ha : Ascii (nsBody e) := by
    unfold nsBody
    simp only [ascii_append, ascii_cons, ascii_dec, ascii_of_textOk hip, true_and, and_true]
    omega
  simp only [decodeLine_line _ ha (nsBody_trimmed e hip)]
  have hne : nsBody e ≠ [] := by simp [nsBody, dec_ne_nil]
  have hns : startsWith (nsBody e) PORTS_ = false := by
    unfold nsBody PORTS_
    exact startsWith_digit_false _ _ _ 80 rfl
  have hsp : splitMax 44 1 (nsBody e) = [dec e.1, e.2] := by
    unfold nsBody
    rw [splitMax_cons 44 0 _ _ (comma_not_dec _)]; rfl
  simp only [hne, if_false, hns, Gen.C13.NS_MAXSPLIT, hsp, pyInt_dec]
  cases hp : parseNs rest with
  | error err => simp
  | ok v => obtain ⟨l, line, r⟩ := v; simp

theorem parseNs_list : ∀ (ns : List (Nat × Str)), (∀ e ∈ ns, TextOk e.2) →
    ∀ (rest : List Bytes) (l : List (Int × Str)) (line : Str) (r : List Bytes),
    parseNs rest = .ok (l, line, r) →
    parseNs (ns.map (fun e => nsBody e ++ [10]) ++ rest) =
      .ok (ns.map (fun e => (Int.ofNat e.1, e.2)) ++ l, line, r)
  | [], _, rest, l, line, r, h => by simpa using h
  | e :: ns, hs, rest, l, line, r, h => by
    simp only [List.map_cons, List.cons_append]
    rw [parseNs_ns e (hs e (by simp)),
      parseNs_list ns (fun x hx => hs x (by simp [hx])) rest l line r h]

/-! ### PORTS and GO -/

def portsBody (p : Plan) : Str :=
  PORTS_ ++ (dec p.port_v6 ++ 44 :: (dec p.port_v4 ++ 44 :: (dec p.dnsport_v6 ++ 44 :: dec p.dnsport_v4)))

theorem renderPorts_eq (p : Plan) : renderPorts p = portsBody p ++ [10] := by
  simp [renderPorts, portsBody, List.append_assoc]

theorem portsBody_trimmed (p : Plan) : Trimmed (portsBody p) := by
  have := trimmed_ends PORTS_
    (dec p.port_v6 ++ 44 :: (dec p.port_v4 ++ 44 :: (dec p.dnsport_v6 ++ [44])))
    (dec p.dnsport_v4) (by decide) (by intro x hx; simp [PORTS_] at hx; subst hx; rfl)
    (dec_ne_nil _) (dec_last_ok _)
  simpa [portsBody, List.append_assoc] using this

theorem portsBody_ascii (p : Plan) : Ascii (portsBody p) := by
  unfold portsBody PORTS_
  simp only [ascii_append, ascii_cons, ascii_dec, ascii_nil, true_and, and_true]
  omega

theorem portsBody_nl (p : Plan) : 10 ∉ portsBody p := by
  unfold portsBody PORTS_
  simp only [List.mem_append, List.mem_cons, not_or, List.mem_nil_iff]
  refine ⟨⟨by omega, by omega, by omega, by omega, by omega, by omega, not_false⟩, nl_not_dec _, by omega,
    nl_not_dec _, by omega, nl_not_dec _, by omega, nl_not_dec _⟩

theorem parseNs_end (p : Plan) (rest : List Bytes) :
    parseNs ((portsBody p ++ [10]) :: rest) = .ok ([], portsBody p, rest) := by
  rw [parseNs]
  simp only [decodeLine_line _ (portsBody_ascii p) (portsBody_trimmed p)]
  have hne : portsBody p ≠ [] := by simp [portsBody, PORTS_]
  have hs : startsWith (portsBody p) PORTS_ = true := startsWith_append _ _
  simp [hne, hs]

theorem ports_split (p : Plan) :
    splitAll 44 (afterFirst 32 (portsBody p)) =
      [dec p.port_v6, dec p.port_v4, dec p.dnsport_v6, dec p.dnsport_v4] := by
  have h1 : afterFirst 32 (portsBody p) =
      dec p.port_v6 ++ 44 :: (dec p.port_v4 ++ 44 :: (dec p.dnsport_v6 ++ 44 :: dec p.dnsport_v4)) := by
    have : portsBody p = [80, 79, 82, 84, 83] ++ 32 :: (dec p.port_v6 ++ 44 :: (dec p.port_v4 ++ 44 ::
        (dec p.dnsport_v6 ++ 44 :: dec p.dnsport_v4))) := by simp [portsBody, PORTS_]
    rw [this, afterFirst_append 32 _ _ (by decide)]
  rw [h1]
  unfold splitAll
  have hlen : (dec p.port_v6 ++ 44 :: (dec p.port_v4 ++ 44 :: (dec p.dnsport_v6 ++ 44 :: dec p.dnsport_v4))).length
      = ((dec p.port_v6).length + (dec p.port_v4).length + (dec p.dnsport_v6).length + (dec p.dnsport_v4).length) + 3 := by
    simp only [List.length_append, List.length_cons]; omega
  rw [hlen, splitMax_cons 44 _ _ _ (comma_not_dec _), splitMax_cons 44 _ _ _ (comma_not_dec _),
    splitMax_cons 44 _ _ _ (comma_not_dec _), splitMax_last 44 _ _ (comma_not_dec _)]

def identBytes : Ident → Str
  | .none => [45]
  | .num n => dec n
  | .name s => s

def goBody (p : Plan) : Str :=
  GO_ ++ ([if p.udp then 49 else 48] ++ 32 :: (identBytes p.user ++ 32 :: (identBytes p.group ++ 32 ::
    (p.tmark ++ 32 :: dec p.pid))))

theorem renderIdent_ok (i : Ident) (h : NumOrNone i) : renderIdent i = some (identBytes i) := by
  cases i with
  | none => rfl
  | num n => rfl
  | name s => exact absurd h (by simp [NumOrNone])

theorem renderGo_ok (p : Plan) (hu : NumOrNone p.user) (hg : NumOrNone p.group) (ht : WordOk p.tmark) :
    renderGo p = some (goBody p ++ [10]) := by
  simp [renderGo, renderIdent_ok _ hu, renderIdent_ok _ hg, encodeAscii_ok (ascii_of_wordOk ht), goBody,
    List.append_assoc]

theorem ident_ascii (i : Ident) (h : NumOrNone i) : Ascii (identBytes i) := by
  cases i with
  | none => intro c hc; simp [identBytes] at hc; omega
  | num n => exact ascii_dec n
  | name s => exact absurd h (by simp [NumOrNone])

theorem ident_nospace (i : Ident) (h : NumOrNone i) : 32 ∉ identBytes i := by
  cases i with
  | none => simp [identBytes]
  | num n => exact space_not_dec n
  | name s => exact absurd h (by simp [NumOrNone])

theorem ident_nonl (i : Ident) (h : NumOrNone i) : 10 ∉ identBytes i := by
  cases i with
  | none => simp [identBytes]
  | num n => exact nl_not_dec n
  | name s => exact absurd h (by simp [NumOrNone])

theorem identOf_ident (i : Ident) (h : NumOrNone i) : identOf (identBytes i) = identSpec i := by
  cases i with
  | none => rfl
  | num n =>
    have : dec n ≠ [45] := by
      intro e
      have := dec_digits n 45 (by rw [e]; simp)
      simp [isDigit] at this
    simp [identOf, identBytes, identSpec, this]
  | name s => exact absurd h (by simp [NumOrNone])

theorem goBody_trimmed (p : Plan) : Trimmed (goBody p) := by
  have := trimmed_ends GO_
    ([if p.udp then 49 else 48] ++ 32 :: (identBytes p.user ++ 32 :: (identBytes p.group ++ 32 ::
      (p.tmark ++ [32]))))
    (dec p.pid) (by decide) (by intro x hx; simp [GO_] at hx; subst hx; rfl)
    (dec_ne_nil _) (dec_last_ok _)
  simpa [goBody, List.append_assoc] using this

theorem goBody_ascii (p : Plan) (hu : NumOrNone p.user) (hg : NumOrNone p.group) (ht : WordOk p.tmark) :
    Ascii (goBody p) := by
  unfold goBody GO_
  have hudp : (if p.udp then 49 else 48) < 128 := by split <;> omega
  simp only [ascii_append, ascii_cons, ascii_dec, ascii_nil, ident_ascii _ hu, ident_ascii _ hg,
    ascii_of_wordOk ht, true_and, and_true]
  omega

theorem goBody_nl (p : Plan) (hu : NumOrNone p.user) (hg : NumOrNone p.group) (ht : WordOk p.tmark) :
    10 ∉ goBody p := by
  unfold goBody GO_
  simp only [List.mem_append, List.mem_cons, not_or, List.mem_nil_iff]
  refine ⟨⟨by omega, by omega, by omega, not_false⟩, ⟨?_, not_false⟩, by omega, ident_nonl _ hu, by omega,
    ident_nonl _ hg, by omega, nl_not_word ht, by omega, nl_not_dec _⟩
  split <;> omega

theorem go_split (p : Plan) (hu : NumOrNone p.user) (hg : NumOrNone p.group) (ht : WordOk p.tmark) :
    splitMax 32 4 (afterFirst 32 (goBody p)) =
      [[if p.udp then 49 else 48], identBytes p.user, identBytes p.group, p.tmark, dec p.pid] := by
  have h1 : afterFirst 32 (goBody p) = [if p.udp then 49 else 48] ++ 32 :: (identBytes p.user ++ 32 ::
      (identBytes p.group ++ 32 :: (p.tmark ++ 32 :: dec p.pid))) := by
    have : goBody p = [71, 79] ++ 32 :: ([if p.udp then 49 else 48] ++ 32 :: (identBytes p.user ++ 32 ::
      (identBytes p.group ++ 32 :: (p.tmark ++ 32 :: dec p.pid)))) := by simp [goBody, GO_]
    rw [this, afterFirst_append 32 _ _ (by decide)]
  have hudp : 32 ∉ [if p.udp then 49 else 48] := by
    cases p.udp <;> simp
  rw [h1, splitMax_cons 32 3 _ _ hudp, splitMax_cons 32 2 _ _ (ident_nospace _ hu),
    splitMax_cons 32 1 _ _ (ident_nospace _ hg), splitMax_cons 32 0 _ _ (space_not_word ht)]
  rfl

theorem pyInt_udp (b : Bool) : pyInt [if b then 49 else 48] = some (if b then 1 else 0) := by
  cases b <;> decide

/-! ### HOST lines -/

def hostBody (h : Bytes × Bytes) : Str := HOST_ ++ (h.1 ++ 44 :: h.2)

theorem renderHost_ok (h : Bytes × Bytes) (hok : HostOk h) :
    renderHost h.1 h.2 = some (hostBody h ++ [10]) := by
  simp [renderHost, hok.1, hok.2, hostBody, List.append_assoc]

theorem nameByte_props {c : Nat} (h : isNameByte c = true) : c < 128 ∧ c ≠ 44 ∧ c ≠ 10 ∧ isSpace c = false := by
  simp [isNameByte, isDigit] at h
  simp [isSpace]
  omega

theorem ipByte_props {c : Nat} (h : isIpByte c = true) : c < 128 ∧ c ≠ 10 ∧ isSpace c = false := by
  simp [isIpByte, isDigit] at h
  simp [isSpace]
  omega

theorem hostBody_ascii (h : Bytes × Bytes) (hok : HostOk h) : Ascii (hostBody h) := by
  unfold hostBody HOST_
  simp only [ascii_append, ascii_cons, ascii_nil, and_true]
  refine ⟨⟨by omega, by omega, by omega, by omega, by omega⟩, ?_, by omega, ?_⟩
  · intro c hc; exact (nameByte_props (List.all_eq_true.mp hok.1 c hc)).1
  · intro c hc; exact (ipByte_props (List.all_eq_true.mp hok.2 c hc)).1

theorem hostBody_trimmed (h : Bytes × Bytes) (hok : HostOk h) : Trimmed (hostBody h) := by
  have := trimmed_ends HOST_ h.1 (44 :: h.2) (by decide) (by intro x hx; simp [HOST_] at hx; subst hx; rfl)
    (by simp) (by
      intro y hy
      have := List.mem_of_getLast? hy
      simp at this
      rcases this with rfl | hm
      · rfl
      · exact (ipByte_props (List.all_eq_true.mp hok.2 y hm)).2.2)
  simpa [hostBody, List.append_assoc] using this

theorem hostBody_nl (h : Bytes × Bytes) (hok : HostOk h) : 10 ∉ hostBody h := by
  unfold hostBody HOST_
  simp only [List.mem_append, List.mem_cons, not_or, List.mem_nil_iff]
  refine ⟨⟨by omega, by omega, by omega, by omega, by omega, not_false⟩, ?_, by omega, ?_⟩
  · intro hc; exact (nameByte_props (List.all_eq_true.mp hok.1 10 hc)).2.2.1 rfl
  · intro hc; exact (ipByte_props (List.all_eq_true.mp hok.2 10 hc)).2.1 rfl

theorem hostLoop_host (h : Bytes × Bytes) (hok : HostOk h) (rest : List Bytes) :
    hostLoop ((hostBody h ++ [10]) :: rest) = (h :: (hostLoop rest).1, (hostLoop rest).2) := by
  rw [hostLoop]
  simp only [decodeLine_line _ (hostBody_ascii h hok) (hostBody_trimmed h hok)]
  have hne : hostBody h ≠ [] := by simp [hostBody, HOST_]
  have hs : startsWith (hostBody h) HOST_ = true := startsWith_append _ _
  have hd : (hostBody h).drop 5 = h.1 ++ 44 :: h.2 := by simp [hostBody, HOST_]
  have hc : 44 ∉ h.1 := fun hc => (nameByte_props (List.all_eq_true.mp hok.1 44 hc)).2.1 rfl
  simp only [hne, if_false, hs, if_true, hd, splitMax_cons 44 0 _ _ hc]
  rfl

theorem hostLoop_hosts : ∀ (hs : List (Bytes × Bytes)), (∀ h ∈ hs, HostOk h) →
    hostLoop (hs.map (fun h => hostBody h ++ [10])) = (hs, .eof)
  | [], _ => rfl
  | h :: hs, hok => by
    simp only [List.map_cons]
    rw [hostLoop_host h (hok h (by simp)), hostLoop_hosts hs (fun x hx => hok x (by simp [hx]))]

end Sshuttle.FwDialogue
